import LopdfModel.Thm.FileLoad
import LopdfModel.Lemmas.DictOps
/-
  C01/C03 (file level) — loading a file saved with a cross-reference STREAM reconstructs the
  table the writer recorded: `xref_and_trailer` falls through `xref` to `indirect_object`,
  reads the stream through its `Length`, and `decode_xref_stream` returns the entries.
-/
namespace Lopdf.FileRT
open Lopdf Gen

theorem digit_not_ws : ∀ a : UInt8, isDigit a = true → isWhitespace a = false ∧ a ≠ 37 ∧ a ≠ 120 := by
  apply forall_uint8; decide +kernel

theorem space_ws_stop (w b : UInt8) (r : Bytes) (hw : isWhitespace w = true) (h1 : isWhitespace b = false)
    (h2 : b ≠ 37) : space (w :: b :: r) = b :: r := by
  have hc : comment (b :: r) = none := by
    unfold comment
    split
    · rename_i heq; injection heq with e _; exact absurd e h2
    · rfl
  unfold space
  simp only [List.length_cons, spaceF, spanP, hw, if_true, h1, Bool.false_eq_true, if_false, hc]

theorem natDigits_zero : natDigits 0 = [48] := by rw [natDigits]; rfl

def ENDOBJ_TAIL : Bytes := [10, 101, 110, 100, 111, 98, 106, 10]

theorem writeObj_stream_eq (tr : Dict) (c : Bytes) :
    writeObj (.stream tr c) = writeObj (.dict tr) ++ (STREAM_KW ++ c ++ ENDSTREAM_KW) := by
  simp [writeObj]

/-- `indirect_object` + `stream` read the written cross-reference stream object back -/
theorem pIndirect_xrefStreamN (len : ObjId → Option Int) (base : Nat) (N : Nat) (tr tr' : Dict) (content tail : Bytes) (hN : N ≤ U32_MAX)
    (hL : tr'.get LENGTH = some (.int content.length))
    (hD : DictReadsBackN tr tr' (STREAM_KW ++ (content ++ (ENDSTREAM_KW ++ 32 :: (ENDOBJ_TAIL ++ tail))))) :
    pIndirect len none base (writeIndirect N 0 (.stream tr content) ++ tail)
      = some ((N, 0), .plain (.stream (tr'.set LENGTH (.int content.length)) content)) := by
  obtain ⟨a, as, hda, ha⟩ := natDigits_head N
  obtain ⟨ha1, ha2, _⟩ := digit_not_ws a ha
  obtain ⟨w, hw⟩ := writeObj_dict_cons tr
  generalize hrs : STREAM_KW ++ (content ++ (ENDSTREAM_KW ++ 32 :: (ENDOBJ_TAIL ++ tail))) = restS at hD
  have e : writeIndirect N 0 (.stream tr content) ++ tail
      = natDigits N ++ 32 :: (natDigits 0 ++ 32 :: 111 :: 98 :: 106 :: 10 :: (writeObj (.dict tr) ++ restS)) := by
    simp [writeIndirect, needSeparator, needEndSeparator, writeObj_stream_eq, ← hrs, ENDOBJ_TAIL]
  have s1 : space (natDigits N ++ 32 :: (natDigits 0 ++ 32 :: 111 :: 98 :: 106 :: 10 :: (writeObj (.dict tr) ++ restS)))
      = natDigits N ++ 32 :: (natDigits 0 ++ 32 :: 111 :: 98 :: 106 :: 10 :: (writeObj (.dict tr) ++ restS)) := by
    rw [hda]; exact space_stop a _ ha1 ha2
  have p1 := pUnsigned_natDigits U32_MAX N
    (32 :: (natDigits 0 ++ 32 :: 111 :: 98 :: 106 :: 10 :: (writeObj (.dict tr) ++ restS))) hN
    (noDigit_cons 32 _ (by decide))
  have s2 : space (32 :: (natDigits 0 ++ 32 :: 111 :: 98 :: 106 :: 10 :: (writeObj (.dict tr) ++ restS)))
      = natDigits 0 ++ 32 :: 111 :: 98 :: 106 :: 10 :: (writeObj (.dict tr) ++ restS) := by
    rw [natDigits_zero]; exact space_ws_stop 32 48 _ (by decide) (by decide) (by decide)
  have p2 := pUnsigned_natDigits U16_MAX 0 (32 :: 111 :: 98 :: 106 :: 10 :: (writeObj (.dict tr) ++ restS))
    (by decide) (noDigit_cons 32 _ (by decide))
  have s3 : space (32 :: 111 :: 98 :: 106 :: 10 :: (writeObj (.dict tr) ++ restS))
      = 111 :: 98 :: 106 :: 10 :: (writeObj (.dict tr) ++ restS) :=
    space_ws_stop 32 111 _ (by decide) (by decide) (by decide)
  have t1 : tag OBJ_WORD (111 :: 98 :: 106 :: 10 :: (writeObj (.dict tr) ++ restS))
      = some (10 :: (writeObj (.dict tr) ++ restS)) := by simp [OBJ_WORD, tag]
  have s4 : space (10 :: (writeObj (.dict tr) ++ restS)) = writeObj (.dict tr) ++ restS := by
    rw [hw]; exact space_ws_stop 10 60 _ (by decide) (by decide) (by decide)
  -- the stream
  have hst : pStream len (writeObj (.dict tr) ++ restS)
      = .ok (.plain (.stream (tr'.set LENGTH (.int content.length)) content)) (32 :: (ENDOBJ_TAIL ++ tail)) := by
    unfold DictReadsBackN at hD
    have s5 : space restS = restS := by
      rw [← hrs]; simp only [STREAM_KW, List.cons_append]
      exact space_stop 115 _ (by decide) (by decide)
    have t2 : tag STREAM_WORD restS = some (10 :: (content ++ (ENDSTREAM_KW ++ 32 :: (ENDOBJ_TAIL ++ tail)))) := by
      rw [← hrs]; simp [STREAM_KW, STREAM_WORD, tag]
    have s6 : space0 (10 :: (content ++ (ENDSTREAM_KW ++ 32 :: (ENDOBJ_TAIL ++ tail))))
        = 10 :: (content ++ (ENDSTREAM_KW ++ 32 :: (ENDOBJ_TAIL ++ tail))) := by
      simp [space0, spanP]
    have hlen : ¬ (content ++ (ENDSTREAM_KW ++ 32 :: (ENDOBJ_TAIL ++ tail))).length < content.length := by
      simp only [List.length_append]; omega
    have hneg : ¬ ((content.length : Int) < 0) := by omega
    unfold pStream
    simp only [hD, s5, t2, s6, eol, hL, hneg, if_false, Int.toNat_natCast, hlen, List.take_left', List.drop_left']
    simp [ENDSTREAM_KW, ENDSTREAM_WORD, tag]
  unfold pIndirect
  rw [e, s1, p1]
  simp only [Option.bind_some, s2, p2, s3, t1, s4, hst]
  simp

/-- `xref_and_trailer` on a written cross-reference stream object = `decode_xref_stream` of it -/
theorem xrefAndTrailer_xrefStreamN (N : Nat) (tr tr' : Dict) (content tail : Bytes) (hN : N ≤ U32_MAX)
    (hL : tr'.get LENGTH = some (.int content.length))
    (hD : DictReadsBackN tr tr' (STREAM_KW ++ (content ++ (ENDSTREAM_KW ++ 32 :: (ENDOBJ_TAIL ++ tail))))) :
    xrefAndTrailer (writeIndirect N 0 (.stream tr content) ++ tail)
      = decodeXrefStream (tr'.set LENGTH (.int content.length)) content := by
  have hx : pXref (writeIndirect N 0 (.stream tr content) ++ tail) = .ok none := by
    obtain ⟨a, as, hda, ha⟩ := natDigits_head N
    obtain ⟨_, _, ha3⟩ := digit_not_ws a ha
    have ha3' : ¬ (120 = a) := fun e => ha3 e.symm
    unfold pXref
    simp [writeIndirect, hda, pXref.XREF_WORD, tag, ha3']
  unfold xrefAndTrailer
  rw [hx]
  simp only [xrefAndTrailer.xrefStreamAlt, pIndirect_xrefStreamN (fun _ => none) 0 N tr tr' content tail hN hL hD]

theorem pIndirect_xrefStream (len : ObjId → Option Int) (base : Nat) (N : Nat) (tr : Dict) (content tail : Bytes) (hN : N ≤ U32_MAX)
    (hL : tr.get LENGTH = some (.int content.length))
    (hD : DictReadsBack tr (STREAM_KW ++ (content ++ (ENDSTREAM_KW ++ 32 :: (ENDOBJ_TAIL ++ tail))))) :
    pIndirect len none base (writeIndirect N 0 (.stream tr content) ++ tail)
      = some ((N, 0), .plain (.stream (tr.set LENGTH (.int content.length)) content)) :=
  pIndirect_xrefStreamN len base N tr tr content tail hN hL hD

theorem xrefAndTrailer_xrefStream (N : Nat) (tr : Dict) (content tail : Bytes) (hN : N ≤ U32_MAX)
    (hL : tr.get LENGTH = some (.int content.length))
    (hD : DictReadsBack tr (STREAM_KW ++ (content ++ (ENDSTREAM_KW ++ 32 :: (ENDOBJ_TAIL ++ tail))))) :
    xrefAndTrailer (writeIndirect N 0 (.stream tr content) ++ tail)
      = decodeXrefStream (tr.set LENGTH (.int content.length)) content :=
  xrefAndTrailer_xrefStreamN N tr tr content tail hN hL hD

/-! ### the dictionary `create_xref_steam` builds -/

theorem streamTrailer_facts (pre : Bytes) (d : SDoc) (hnd : d.trailer.keys.Nodup) (v : Obj) :
    ((streamTrailer pre d).set LENGTH v).has FILTER = false ∧
    ((streamTrailer pre d).set LENGTH v).get SIZE = some (.int ((d.maxId + 1 + 1 : Nat) : Int)) ∧
    ((streamTrailer pre d).set LENGTH v).get INDEX
      = some (xrefStreamIndex (streamSecs (xmapStream pre d) (d.maxId + 1))) ∧
    ((streamTrailer pre d).set LENGTH v).get W_KEY
      = some (.arr (XREF_W.map fun (w : Nat) => Obj.int (Int.ofNat w))) ∧
    (streamTrailer pre d).get LENGTH
      = some (.int (xrefStreamContent (streamSecs (xmapStream pre d) (d.maxId + 1))).length) := by
  have h4 := Dict_nodup_set _ INDEX (xrefStreamIndex (streamSecs (xmapStream pre d) (d.maxId + 1)))
    (Dict_nodup_set _ W_KEY (.arr (XREF_W.map fun (w : Nat) => Obj.int (Int.ofNat w)))
      (Dict_nodup_set _ SIZE (.int (d.maxId + 1 + 1))
        (Dict_nodup_set d.trailer TYPE (.name XREF_NAME) hnd)))
  have k1 : ¬ LENGTH = FILTER := by decide
  have k2 : ¬ LENGTH = SIZE := by decide
  have k3 : ¬ LENGTH = INDEX := by decide
  have k4 : ¬ LENGTH = W_KEY := by decide
  have k5 : ¬ FILTER = SIZE := by decide
  have k6 : ¬ FILTER = INDEX := by decide
  have k7 : ¬ FILTER = W_KEY := by decide
  have k8 : ¬ INDEX = SIZE := by decide
  have k9 : ¬ INDEX = W_KEY := by decide
  have k10 : ¬ W_KEY = SIZE := by decide
  refine ⟨?_, ?_, ?_, ?_, ?_⟩
  · simp only [Dict_has_eq, streamTrailer, Dict_get_set, k1, if_false, Dict_get_remove _ _ _ h4, if_true]
    rfl
  · simp only [streamTrailer, Dict_get_set, k2, if_false, Dict_get_remove _ _ _ h4, k5, k8, k10, if_true]
    rfl
  · simp only [streamTrailer, Dict_get_set, k3, if_false, Dict_get_remove _ _ _ h4, k6, if_true]
  · simp only [streamTrailer, Dict_get_set, k4, if_false, Dict_get_remove _ _ _ h4, k7, k9, if_true]
  · simp only [streamTrailer, Dict_get_set, if_true]

theorem xmapStream_ok (pre : Bytes) (d : SDoc) (hg : GensOk d) : XrefMapOk (xmapStream pre d) := by
  intro n off g hget
  unfold xmapStream at hget
  by_cases hn : n = d.maxId + 1
  · subst hn
    rw [XrefMap.get_insert_same] at hget
    injection hget with hget
    injection hget with h1 h2
    subst h1; subst h2
    exact ⟨Nat.mod_lt _ (by omega), by omega⟩
  · rw [XrefMap.get_insert_other _ _ _ _ hn] at hget
    exact xmapOf_ok pre d hg n off g hget

/-- the trailer `decode_xref_stream` returns for a cross-reference-stream save -/
def streamTrailerRead (pre : Bytes) (d : SDoc) : Dict :=
  ((((streamTrailer pre d).set LENGTH
    (.int (xrefStreamContent (streamSecs (xmapStream pre d) (d.maxId + 1))).length)).remove LENGTH).remove W_KEY).remove INDEX

/-- **Loading a cross-reference-stream save reconstructs the writer's table (C01/C03).** For every
document saved with a cross-reference stream (file < 4 GiB, `Size = max_id + 2 ≤ u32::MAX`, `u16`
generations, distinct trailer keys — an `IndexMap`) whose stream dictionary reads back
(object-level round trip): the reader finds `startxref`; `xref_and_trailer` there fails over from
`xref` to `indirect_object`, reads the stream through `Length`, and `decode_xref_stream` returns
a table that holds `normal off g` for object `n` iff `1 ≤ n ≤ max_id + 1` and the writer
recorded `n ↦ (off, g)` — including the entry of the cross-reference stream itself; hence every
entry the reader holds points at the bytes `n g obj\n` of the file. `Size` = `max_id + 2`. -/
theorem load_xref_of_save_stream (pre : Bytes) (d : SDoc) (out : Bytes) (d' : SDoc)
    (hk : d.xrefKind = .stream) (h : saveFrom pre d = some (out, d')) (hlen : out.length < 4294967296)
    (hmax : d.maxId + 2 ≤ 4294967295) (hg : GensOk d) (hnd : d.trailer.keys.Nodup)
    (hD : DictReadsBack d'.trailer (STREAM_KW ++ (xrefStreamContent (streamSecs (xmapStream pre d) (d.maxId + 1))
      ++ (ENDSTREAM_KW ++ 32 :: (ENDOBJ_TAIL ++ (STARTXREF_KW ++ natDigits (bodyOf pre d).length ++ EOF_KW)))))) :
    ∃ xs table, getXrefStart out = some xs ∧ xs ≤ out.length ∧
      xrefAndTrailer (out.drop xs) = .ok (table, d.maxId + 2, streamTrailerRead pre d) ∧
      (∀ n, table.get n = if 1 ≤ n ∧ n ≤ d.maxId + 1 then normalOf (xmapStream pre d) n else none) ∧
      (∀ n off g, table.get n = some (.normal off g) → HeaderAt out off n g) ∧
      (table.map (·.1)).Nodup := by
  obtain ⟨hout, htr⟩ := saveFrom_stream_eq pre d out d' hk h
  have hb := body_le_out pre d out d' h
  have hbl : (bodyOf pre d).length < 4294967296 := by omega
  have hoff : OffsetsOk (bodyOf pre d) (xmapOf pre d) :=
    save_offsets pre d (by unfold bodyOf hdrOf at hbl; exact hbl)
  rw [htr] at hD
  generalize hc : xrefStreamContent (streamSecs (xmapStream pre d) (d.maxId + 1)) = content at hD hout
  generalize htail : STARTXREF_KW ++ natDigits (bodyOf pre d).length ++ EOF_KW = tail at hD
  obtain ⟨f1, f2, f3, f4, f5⟩ := streamTrailer_facts pre d hnd (.int content.length)
  rw [hc] at f5
  have e : out = bodyOf pre d ++ (writeIndirect (d.maxId + 1) 0 (.stream (streamTrailer pre d) content) ++ tail) := by
    rw [hout, ← htail]; simp only [List.append_assoc]
  obtain ⟨table, hdec, hget, hnodup⟩ := xref_stream_rt (xmapStream pre d) (d.maxId + 1)
    ((streamTrailer pre d).set LENGTH (.int content.length)) ((d.maxId + 1 + 1 : Nat) : Int)
    (xmapStream_ok pre d hg) (by omega)
    ⟨d.maxId + 1, by omega, by omega, by simp [xmapStream, XrefMap.get_insert_same]⟩ f1 f2 f3 f4
  rw [hc] at hdec
  have hmod : ((((d.maxId + 1 + 1 : Nat) : Int)) % (U32 : Int)).toNat = d.maxId + 2 := by
    simp [U32]; omega
  refine ⟨(bodyOf pre d).length, table,
    startxref_found pre d out d' h hlen, hb, ?_, hget, ?_, hnodup⟩
  · have hdrop : out.drop (bodyOf pre d).length
        = writeIndirect (d.maxId + 1) 0 (.stream (streamTrailer pre d) content) ++ tail := by
      rw [e, List.drop_left]
    rw [hdrop, xrefAndTrailer_xrefStream (d.maxId + 1) (streamTrailer pre d) content tail
      (by simp [U32_MAX]; omega) f5 hD, hdec, hmod, streamTrailerRead, hc]
  · intro n off g hn
    rw [hget n] at hn
    split at hn
    · simp only [normalOf] at hn
      cases hx : (xmapStream pre d).get n with
      | none => simp [hx] at hn
      | some p =>
        obtain ⟨a, b⟩ := p
        simp [hx] at hn
        obtain ⟨rfl, rfl⟩ := hn
        rw [e]
        by_cases hnn : n = d.maxId + 1
        · subst hnn
          simp only [xmapStream, XrefMap.get_insert_same] at hx
          injection hx with hx
          injection hx with h1 h2
          subst h1; subst h2
          rw [Nat.mod_eq_of_lt hbl]
          unfold HeaderAt
          rw [List.drop_left]
          exact List.IsPrefix.trans (writeIndirect_header _ _ _) (List.prefix_append _ _)
        · simp only [xmapStream, XrefMap.get_insert_other _ _ _ _ hnn] at hx
          exact HeaderAt_append _ _ _ _ _ (hoff n a b hx)
    · cases hn

end Lopdf.FileRT
