import LopdfModel.Thm.C02Composite
import LopdfModel.Thm.C02StartXref
/-
  C02 — dictionaries at top level, the `trailer`, indirect objects `n g obj … endobj` and streams
  with a direct `Length`, each in every spelling (free spacing / comments between all tokens).
-/
namespace Lopdf.Grammar
open Lopdf Gen
open Lopdf.ObjRt (StopCtx)

/-! ### `dictionary` and `trailer` -/

/-- **`dictionary`, every spelling** (the parser used for the trailer and for stream dictionaries) -/
theorem dictionary_complete {d : Nat} {es : List (Bytes × Obj)} {bs : Bytes} (sp rest : Bytes)
    (hsp : DerivesSpace sp) (hes : DerivesEntries d es bs) (hd : 1 + d ≤ MAX_NESTING) :
    pDictionary (60 :: 60 :: sp ++ bs ++ [62, 62] ++ rest) = some (setEntries [] es, rest) := by
  have e : 60 :: 60 :: sp ++ bs ++ [62, 62] ++ rest = 60 :: 60 :: (sp ++ (bs ++ 62 :: 62 :: rest)) := by simp
  rw [e]
  have hs := space_complete sp _ hsp (entries_spaceStop hes rest)
  have hl := objEntries_length hes
  have hm := entries_complete hes ((60 :: 60 :: (sp ++ (bs ++ 62 :: 62 :: rest))).length + 1) 1
    ((60 :: 60 :: (sp ++ (bs ++ 62 :: 62 :: rest))).length + 1) rest [] hd
    (by simp only [List.length_cons, List.length_append]; omega)
    (by simp only [List.length_cons, List.length_append]; omega)
  simp only [pDictionary, hs, hm]

def TRAILER_KW : Bytes := [116, 114, 97, 105, 108, 101, 114]

/-- **The trailer, every spelling**: `trailer`, any white space / comments, the dictionary in
any spelling, any white space / comments. -/
theorem trailer_complete {d : Nat} {es : List (Bytes × Obj)} {bs : Bytes} (sp0 sp sp1 rest : Bytes)
    (hsp0 : DerivesSpace sp0) (hsp : DerivesSpace sp) (hes : DerivesEntries d es bs) (hd : 1 + d ≤ MAX_NESTING)
    (hsp1 : DerivesSpace sp1) (hst : SpaceStop rest) :
    pTrailer (TRAILER_KW ++ (sp0 ++ ((60 :: 60 :: sp ++ bs ++ [62, 62]) ++ (sp1 ++ rest)))) =
      some (setEntries [] es, rest) := by
  have h1 : tag TRAILER_WORD (TRAILER_KW ++ (sp0 ++ ((60 :: 60 :: sp ++ bs ++ [62, 62]) ++ (sp1 ++ rest)))) =
      some (sp0 ++ ((60 :: 60 :: sp ++ bs ++ [62, 62]) ++ (sp1 ++ rest))) := tag_append TRAILER_WORD _
  have h2 : space (sp0 ++ ((60 :: 60 :: sp ++ bs ++ [62, 62]) ++ (sp1 ++ rest))) =
      (60 :: 60 :: sp ++ bs ++ [62, 62]) ++ (sp1 ++ rest) :=
    space_complete sp0 _ hsp0 (by intro b r e; simp only [List.cons_append] at e; injection e with e _; subst e; decide)
  have h3 := dictionary_complete sp (sp1 ++ rest) hsp hes hd
  unfold pTrailer
  simp only [h1, Option.bind, h2, h3, Option.map, space_complete sp1 rest hsp1 hst]

/-! ### what is not a dictionary -/

theorem hex_head {s hbs : Bytes} (h : DerivesHex s hbs) (z : Bytes) : ∃ c r, hbs ++ 62 :: z = c :: r ∧ c ≠ 60 := by
  have ws_or : ∀ (w : Bytes) (x : UInt8) (t : Bytes), AllWs w → x ≠ 60 → ∃ c r, w ++ x :: t = c :: r ∧ c ≠ 60 := by
    intro w x t hw hx
    cases w with
    | nil => exact ⟨x, t, rfl, hx⟩
    | cons a as =>
      refine ⟨a, as ++ x :: t, rfl, ?_⟩
      have := hw a (by simp)
      intro h60; subst h60; simp [isWhitespace, WHITESPACE] at this
  have hexd : ∀ x : UInt8, isHexDigit x = true → x ≠ 60 := by
    intro x hx h60; subst h60; simp [isHexDigit] at hx
  match h with
  | .nil w hw => exact ws_or w 62 z hw (by decide)
  | .odd w1 w2 x hw1 hw2 hx =>
    obtain ⟨c, r, h1, h2⟩ := ws_or w1 x (w2 ++ 62 :: z) hw1 (hexd x hx)
    exact ⟨c, r, by simpa using h1, h2⟩
  | .pair w1 w2 x1 x2 s' bs' hw1 hw2 hx1 hx2 _ =>
    obtain ⟨c, r, h1, h2⟩ := ws_or w1 x1 (w2 ++ x2 :: bs' ++ 62 :: z) hw1 (hexd x1 hx1)
    exact ⟨c, r, by simpa using h1, h2⟩

theorem pDictionary_none_first (c : UInt8) (r : Bytes) (h : c ≠ 60) : pDictionary (c :: r) = none := by
  unfold pDictionary
  split
  · rename_i heq; injection heq with e _; exact absurd e h
  · rfl

theorem pDictionary_none_second (c : UInt8) (r : Bytes) (h : c ≠ 60) : pDictionary (60 :: c :: r) = none := by
  unfold pDictionary
  split
  · rename_i heq; injection heq with _ e; injection e with e _; exact absurd e h
  · rfl

def ENDOBJ_KW : Bytes := [101, 110, 100, 111, 98, 106]
def OBJ_KW : Bytes := [111, 98, 106]

/-- an object that is followed by `endobj` is not taken for a stream -/
theorem pStream_plain {d : Nat} {o : Obj} {bs : Bytes} (h : DerivesObj d o bs) (hd : d ≤ MAX_NESTING)
    (len : ObjId → Option Int) (sp4 rest : Bytes) (hsp4 : DerivesSpace sp4) :
    pStream len (bs ++ (sp4 ++ (ENDOBJ_KW ++ rest))) = .error := by
  have first : ∀ c r, bs ++ (sp4 ++ (ENDOBJ_KW ++ rest)) = c :: r → c ≠ 60 →
      pStream len (bs ++ (sp4 ++ (ENDOBJ_KW ++ rest))) = .error := by
    intro c r e hc; rw [e]; simp [pStream, pDictionary_none_first c r hc]
  match h with
  | .null _ => exact first 110 _ rfl (by decide)
  | .true _ => exact first 116 _ rfl (by decide)
  | .false _ => exact first 102 _ rfl (by decide)
  | .int _ i b hi =>
    obtain ⟨c, r, h1, h2⟩ := int_head i b (sp4 ++ (ENDOBJ_KW ++ rest)) hi
    exact first c r h1 (by rcases h2 with h | h | h | h <;> (intro e; subst e; simp [isDigit] at h))
  | .real _ b hr =>
    obtain ⟨c, r, h1, h2⟩ := real_head b (sp4 ++ (ENDOBJ_KW ++ rest)) hr
    exact first c r h1 (by rcases h2 with h | h | h | h <;> (intro e; subst e; simp [isDigit] at h))
  | .name _ n b hn => exact first 47 _ rfl (by decide)
  | .lit _ s b hl => exact first 40 (b ++ [41] ++ (sp4 ++ (ENDOBJ_KW ++ rest))) (by simp) (by decide)
  | .ref _ n g d1 sp1 d2 sp2 h1 hn h2 hg hs1 hs2 =>
    obtain ⟨c, r, hh, hdg⟩ := head_digit h1 (sp1 ++ d2 ++ sp2 ++ [82] ++ (sp4 ++ (ENDOBJ_KW ++ rest)))
    exact first c r (by simpa using hh) (by intro e; subst e; simp [isDigit] at hdg)
  | .arr d' items sp b hsp hi => exact first 91 (sp ++ b ++ [93] ++ (sp4 ++ (ENDOBJ_KW ++ rest))) (by simp) (by decide)
  | .hex _ s b hh =>
    obtain ⟨c, r, h1, h2⟩ := hex_head hh (sp4 ++ (ENDOBJ_KW ++ rest))
    have e : (60 :: b ++ [62]) ++ (sp4 ++ (ENDOBJ_KW ++ rest)) = 60 :: c :: r := by simp [← h1]
    rw [e]; simp [pStream, pDictionary_none_second c r h2]
  | .dict d' es sp b hsp he =>
    have hdict := dictionary_complete sp (sp4 ++ (ENDOBJ_KW ++ rest)) hsp he (by omega)
    have hs : space (sp4 ++ (ENDOBJ_KW ++ rest)) = ENDOBJ_KW ++ rest :=
      space_complete sp4 _ hsp4 (by intro b' r e; injection e with e _; subst e; decide)
    have ht : tag STREAM_WORD (ENDOBJ_KW ++ rest) = none := by simp [STREAM_WORD, ENDOBJ_KW, tag]
    unfold pStream
    simp only [hdict, hs, ht]

/-! ### indirect objects -/

/-- the head `n g obj` of an indirect object, with free spacing -/
theorem indirect_head (n g : Nat) (sp0 d1 sp1 d2 sp2 X : Bytes) (hsp0 : DerivesSpace sp0)
    (h1 : DerivesNat n d1) (hn : n ≤ 4294967295) (hs1 : IsGap sp1) (h2 : DerivesNat g d2) (hg : g ≤ 65535)
    (hs2 : IsGap sp2) :
    pUnsigned U32_MAX (space (sp0 ++ (d1 ++ (sp1 ++ (d2 ++ (sp2 ++ (OBJ_KW ++ X))))))) =
      some (n, sp1 ++ (d2 ++ (sp2 ++ (OBJ_KW ++ X)))) ∧
    pUnsigned U16_MAX (space (sp1 ++ (d2 ++ (sp2 ++ (OBJ_KW ++ X))))) = some (g, sp2 ++ (OBJ_KW ++ X)) ∧
    tag OBJ_WORD (space (sp2 ++ (OBJ_KW ++ X))) = some X := by
  have digitStop : ∀ {m : Nat} {ds : Bytes} (_ : DerivesNat m ds) (t : Bytes), SpaceStop (ds ++ t) := by
    intro m ds hd t
    obtain ⟨c, r, hcr, hc⟩ := head_digit hd t
    rw [hcr]; intro b r' e; injection e with e _; subst e
    exact ⟨digit_not_ws' _ hc, by intro h37; rw [h37] at hc; simp [isDigit] at hc⟩
  refine ⟨?_, ?_, ?_⟩
  · rw [space_complete sp0 _ hsp0 (digitStop h1 _)]
    exact unsigned_complete h1 U32_MAX hn _ (gap_head sp1 _ hs1)
  · rw [space_complete sp1 _ hs1.1 (digitStop h2 _)]
    exact unsigned_complete h2 U16_MAX hg _ (gap_head sp2 _ hs2)
  · rw [space_complete sp2 _ hs2.1 (by intro b r e; injection e with e _; subst e; decide)]
    exact tag_append OBJ_WORD X

/-- **Indirect objects (no stream), every spelling**: `n g obj <object> endobj` with any white
space / comments in front, between the numbers, after `obj` and before `endobj`; the object in any
spelling of the object grammar. `expected` is the id the cross-reference table asks for (or none). -/
theorem indirect_complete {d : Nat} {o : Obj} {bs : Bytes} (n g : Nat) (sp0 d1 sp1 d2 sp2 sp3 sp4 rest : Bytes)
    (len : ObjId → Option Int) (expected : Option ObjId) (base : Nat)
    (hsp0 : DerivesSpace sp0) (h1 : DerivesNat n d1) (hn : n ≤ 4294967295) (hs1 : IsGap sp1)
    (h2 : DerivesNat g d2) (hg : g ≤ 65535) (hs2 : IsGap sp2) (hsp3 : DerivesSpace sp3)
    (ho : DerivesObj d o bs) (hd : d ≤ MAX_NESTING) (hsp4 : DerivesSpace sp4)
    (hsep : NeedsStop o = true → sp4 ≠ [])
    (hexp : ∀ e, expected = some e → e = (n, g)) :
    pIndirect len expected base
      (sp0 ++ (d1 ++ (sp1 ++ (d2 ++ (sp2 ++ (OBJ_KW ++ (sp3 ++ (bs ++ (sp4 ++ (ENDOBJ_KW ++ rest)))))))))) =
      some ((n, g), .plain o) := by
  obtain ⟨a1, a2, a3⟩ := indirect_head n g sp0 d1 sp1 d2 sp2 (sp3 ++ (bs ++ (sp4 ++ (ENDOBJ_KW ++ rest))))
    hsp0 h1 hn hs1 h2 hg hs2
  obtain ⟨c, r, hcr, hc⟩ := obj_head ho (sp4 ++ (ENDOBJ_KW ++ rest))
  have a4 : space (sp3 ++ (bs ++ (sp4 ++ (ENDOBJ_KW ++ rest)))) = bs ++ (sp4 ++ (ENDOBJ_KW ++ rest)) :=
    space_complete sp3 _ hsp3 (by rw [hcr]; exact spaceStop_of_itemHead c r hc)
  have a5 := pStream_plain ho hd len sp4 rest hsp4
  have hafter : After o (sp4 ++ (ENDOBJ_KW ++ rest)) := by
    intro hns
    refine stopCtx_of_head sp4 _ hsp4 (space_head_stop hsp4 (hsep hns) _) ?_
    intro b r' e; injection e with e _; subst e; decide
  have a6 := obj_complete ho ((bs ++ (sp4 ++ (ENDOBJ_KW ++ rest))).length + 1) 0 _ (by omega)
    (by simp only [List.length_append]; omega) hafter
  unfold pIndirect
  simp only [a1, Option.bind, a2, a3, a4, a5, a6]
  cases expected with
  | none => rfl
  | some x => have := hexp x rfl; subst this; simp

/-! ### streams with a direct Length -/

def STREAM_KW : Bytes := [115, 116, 114, 101, 97, 109]
def ENDSTREAM_KW : Bytes := [101, 110, 100, 115, 116, 114, 101, 97, 109]

/-- end-of-line marker after the keyword `stream`: LF or CR LF (§7.3.8.1: not CR alone) -/
inductive IsStreamEol : Bytes → Prop where
  | lf : IsStreamEol [10]
  | crlf : IsStreamEol [13, 10]

/-- optional end-of-line marker before `endstream` (not counted in `Length`) -/
inductive IsOptEol : Bytes → Prop where
  | none : IsOptEol []
  | some (e : Bytes) : IsEol e → IsOptEol e

theorem dict_set_same (d : Dict) (k : Bytes) (v : Obj) (h : d.get k = some v) : d.set k v = d := by
  induction d with
  | nil => simp [Dict.get] at h
  | cons p rest ih =>
    obtain ⟨k', v'⟩ := p
    by_cases hk : k' = k
    · subst hk; simp [Dict.get] at h; subst h; simp [Dict.set]
    · simp only [Dict.get, hk, if_false] at h
      simp [Dict.set, hk, ih h]

/-- **Stream objects with a direct `Length`, every spelling**: the dictionary in any spelling,
any white space / comments before `stream`, optional blanks, LF or CR LF, exactly `Length` bytes
of data (ANY bytes), an optional end-of-line marker, `endstream`. -/
theorem stream_complete {d : Nat} {es : List (Bytes × Obj)} {ebs : Bytes} (sp sp5 bl e data e' tail : Bytes)
    (len : ObjId → Option Int) (hsp : DerivesSpace sp) (hes : DerivesEntries d es ebs) (hd : 1 + d ≤ MAX_NESTING)
    (hsp5 : DerivesSpace sp5) (hbl : ∀ b ∈ bl, (b == 32 || b == 9) = true) (he : IsStreamEol e)
    (hlen : (setEntries [] es).get LENGTH = some (.int data.length)) (he' : IsOptEol e') :
    pStream len ((60 :: 60 :: sp ++ ebs ++ [62, 62]) ++ (sp5 ++ (STREAM_KW ++ (bl ++ (e ++ (data ++ (e' ++ (ENDSTREAM_KW ++ tail)))))))) =
      .ok (.plain (.stream (setEntries [] es) data)) tail := by
  have b1 := dictionary_complete sp (sp5 ++ (STREAM_KW ++ (bl ++ (e ++ (data ++ (e' ++ (ENDSTREAM_KW ++ tail))))))) hsp hes hd
  have b2 : space (sp5 ++ (STREAM_KW ++ (bl ++ (e ++ (data ++ (e' ++ (ENDSTREAM_KW ++ tail))))))) =
      STREAM_KW ++ (bl ++ (e ++ (data ++ (e' ++ (ENDSTREAM_KW ++ tail))))) :=
    space_complete sp5 _ hsp5 (by intro b r e0; injection e0 with e0 _; subst e0; decide)
  have b3 : tag STREAM_WORD (STREAM_KW ++ (bl ++ (e ++ (data ++ (e' ++ (ENDSTREAM_KW ++ tail)))))) =
      some (bl ++ (e ++ (data ++ (e' ++ (ENDSTREAM_KW ++ tail))))) := tag_append STREAM_WORD _
  have b4 : space0 (bl ++ (e ++ (data ++ (e' ++ (ENDSTREAM_KW ++ tail))))) = e ++ (data ++ (e' ++ (ENDSTREAM_KW ++ tail))) := by
    unfold space0
    rw [spanP_append (fun b => b == 32 || b == 9) bl _ hbl (by
      intro b r e0
      cases he with
      | lf => injection e0 with e0 _; subst e0; decide
      | crlf => injection e0 with e0 _; subst e0; decide)]
  have b5 : ∃ m, eol (e ++ (data ++ (e' ++ (ENDSTREAM_KW ++ tail)))) = some (m, data ++ (e' ++ (ENDSTREAM_KW ++ tail))) := by
    cases he with
    | lf => exact ⟨_, rfl⟩
    | crlf => exact ⟨_, rfl⟩
  obtain ⟨m, b5⟩ := b5
  have b6 : List.take data.length (data ++ (e' ++ (ENDSTREAM_KW ++ tail))) = data := List.take_left' rfl
  have b7 : List.drop data.length (data ++ (e' ++ (ENDSTREAM_KW ++ tail))) = e' ++ (ENDSTREAM_KW ++ tail) := List.drop_left' rfl
  have b8 : (eol (e' ++ (ENDSTREAM_KW ++ tail)) = none ∧ e' = []) ∨
      ∃ m', eol (e' ++ (ENDSTREAM_KW ++ tail)) = some (m', ENDSTREAM_KW ++ tail) := by
    cases he' with
    | none => left; simp [ENDSTREAM_KW, eol]
    | some _ hee =>
      right
      obtain ⟨m', r, h1, h2⟩ := eol_general e' (ENDSTREAM_KW ++ tail) hee
      rcases h2 with rfl | ⟨_, h2⟩
      · exact ⟨m', h1⟩
      · simp [ENDSTREAM_KW] at h2
  have b9 : tag ENDSTREAM_WORD (ENDSTREAM_KW ++ tail) = some tail := tag_append ENDSTREAM_WORD tail
  have hlt : ¬ ((data.length : Int) < 0) := by omega
  have hge : ¬ ((data ++ (e' ++ (ENDSTREAM_KW ++ tail))).length < data.length) := by simp
  unfold pStream
  simp only [b1, b2, b3, b4, b5, hlen, hlt, if_false, Int.toNat_natCast, hge, b6, b7,
    dict_set_same _ _ _ hlen]
  rcases b8 with ⟨h0, rfl⟩ | ⟨m', h0⟩
  · simp only [List.nil_append] at h0 ⊢
    simp only [h0, b9]
  · simp only [h0, b9]

/-- **Indirect stream objects, every spelling** -/
theorem indirect_stream_complete {d : Nat} {es : List (Bytes × Obj)} {ebs : Bytes} (n g : Nat)
    (sp0 d1 sp1 d2 sp2 sp3 sp sp5 bl e data e' tail : Bytes)
    (len : ObjId → Option Int) (expected : Option ObjId) (base : Nat)
    (hsp0 : DerivesSpace sp0) (h1 : DerivesNat n d1) (hn : n ≤ 4294967295) (hs1 : IsGap sp1)
    (h2 : DerivesNat g d2) (hg : g ≤ 65535) (hs2 : IsGap sp2) (hsp3 : DerivesSpace sp3)
    (hsp : DerivesSpace sp) (hes : DerivesEntries d es ebs) (hd : 1 + d ≤ MAX_NESTING)
    (hsp5 : DerivesSpace sp5) (hbl : ∀ b ∈ bl, (b == 32 || b == 9) = true) (he : IsStreamEol e)
    (hlen : (setEntries [] es).get LENGTH = some (.int data.length)) (he' : IsOptEol e')
    (hexp : ∀ x, expected = some x → x = (n, g)) :
    pIndirect len expected base
      (sp0 ++ (d1 ++ (sp1 ++ (d2 ++ (sp2 ++ (OBJ_KW ++ (sp3 ++
        ((60 :: 60 :: sp ++ ebs ++ [62, 62]) ++ (sp5 ++ (STREAM_KW ++ (bl ++ (e ++ (data ++ (e' ++ (ENDSTREAM_KW ++ tail))))))))))))))) =
      some ((n, g), .plain (.stream (setEntries [] es) data)) := by
  obtain ⟨a1, a2, a3⟩ := indirect_head n g sp0 d1 sp1 d2 sp2
    (sp3 ++ ((60 :: 60 :: sp ++ ebs ++ [62, 62]) ++ (sp5 ++ (STREAM_KW ++ (bl ++ (e ++ (data ++ (e' ++ (ENDSTREAM_KW ++ tail)))))))))
    hsp0 h1 hn hs1 h2 hg hs2
  have a4 : space (sp3 ++ ((60 :: 60 :: sp ++ ebs ++ [62, 62]) ++ (sp5 ++ (STREAM_KW ++ (bl ++ (e ++ (data ++ (e' ++ (ENDSTREAM_KW ++ tail))))))))) =
      (60 :: 60 :: sp ++ ebs ++ [62, 62]) ++ (sp5 ++ (STREAM_KW ++ (bl ++ (e ++ (data ++ (e' ++ (ENDSTREAM_KW ++ tail))))))) :=
    space_complete sp3 _ hsp3 (by intro b r e0; simp only [List.cons_append] at e0; injection e0 with e0 _; subst e0; decide)
  have a5 := stream_complete sp sp5 bl e data e' tail len hsp hes hd hsp5 hbl he hlen he'
  unfold pIndirect
  simp only [a1, Option.bind, a2, a3, a4, a5]
  cases expected with
  | none => rfl
  | some x => have := hexp x rfl; subst this; simp

end Lopdf.Grammar
