import LopdfModel.Thm.FileIncr
/-
  C01 (file level) — the FRONT of `Reader::read` on a saved file: `%PDF-` is found at offset 0,
  the header and the binary mark are read back, `startxref` is found, the cross-reference
  section is decoded, the `Prev` loop ends immediately, and the reader enters its object pass
  with exactly the table the writer recorded.
-/
namespace Lopdf.FileRT
open Lopdf Gen

/-- the rest of `Reader::read` after the cross-reference data are known (the code of
`loadDocWith` from the object pass on, verbatim) -/
def objectPass (arr : List Block → List Block) (arr2 : List ObjId → List ObjId) (buf version mark : Bytes) (x : XTable) (tr : Dict) (xs : Nat) :
    Outcome Loaded :=
  let size := x.maxId + 1
  let xs' := x.sorted
  let nEntries := xs'.length
  match xs'.foldl (loadStep buf x nEntries) (.ok ([], [])) with
  | .panic s => .panic s
  | .err e => .err e
  | .ok (os, fromStm) =>
    let arrived := arr fromStm
    let os1 := mergeBlocksX x os arrived
    let os2 := (arr2 (pendingIds os1)).foldl (completeOne buf) os1
    let fin := os2.map fun (p : ObjId × LObj) =>
      match p.2 with
      | .plain o => (p.1, o)
      | .pending d _ => (p.1, Obj.stream d [])
    let objects := fin.foldr (fun (p : ObjId × Obj) acc => insertSortedO p.1 p.2 acc) []
    .ok { version := version, binaryMark := mark, trailer := tr, objects := objects,
          maxId := size - 1, xrefStart := xs }

theorem tag_append (t r : Bytes) : tag t (t ++ r) = some r := by
  induction t with
  | nil => cases r <;> rfl
  | cons a t ih => simp [tag, ih]

theorem findFrom_nl : ∀ (a : Bytes) (r : Bytes) (fuel i : Nat), (∀ c ∈ a, c ≠ 10) → a.length + 1 ≤ fuel →
    findFrom [10] fuel (a ++ 10 :: r) i = some (i + a.length) := by
  intro a
  induction a with
  | nil =>
    intro r fuel i _ hf
    cases fuel with
    | zero => simp at hf
    | succ f => simp [findFrom, List.isPrefixOf]
  | cons c a ih =>
    intro r fuel i hc hf
    cases fuel with
    | zero => simp at hf
    | succ f =>
      have hc0 : c ≠ 10 := hc c (by simp)
      have : ([10] : Bytes).isPrefixOf (c :: (a ++ 10 :: r)) = false := by
        simp [List.isPrefixOf, Ne.symm hc0]
      simp only [List.cons_append, findFrom, this, Bool.false_eq_true, if_false]
      rw [ih r f (i + 1) (fun c' h' => hc c' (by simp [h'])) (by simp at hf ⊢; omega)]
      simp only [List.length_cons]
      congr 1; omega

theorem mark_notEol : ∀ b : UInt8, b ≥ 128 → notEol b = true := by
  apply forall_uint8; decide +kernel

/-- **The front of `Reader::read`** on any file of the shape `%PDF-<version>\n%<mark>\n…` whose
`startxref` is found: the reader enters the object pass with the table and trailer its `Prev`
walk computes. -/
theorem load_front_chain (arr : List Block → List Block) (arr2 : List ObjId → List ObjId) (out version mark R : Bytes)
    (hout : out = PDF_KW ++ (version ++ 10 :: 37 :: (mark ++ 10 :: R)))
    (hv1 : ∀ b ∈ version, notEol b = true) (hv2 : validUtf8 version = true)
    (hmark : (mark.all fun b => b ≥ 128) = true)
    (xs : Nat) (hxs : getXrefStart out = some xs) (hle : xs ≤ out.length)
    (x0 : XTable) (sz : Nat) (tr0 : Dict) (hxt : xrefAndTrailer (out.drop xs) = .ok (x0, sz, tr0))
    (x : XTable) (tr : Dict)
    (hpl : prevLoop out (out.length + 2) (tr0.get PREV) [] x0 (tr0.remove PREV) = .ok (x, tr))
    (hmax : x.maxId + 1 < U32) (henc : tr.has ENCRYPT = false) :
    loadDocWith arr arr2 out = objectPass arr arr2 out version mark x tr xs := by
  have hoff : findFrom PDF_KW (out.length + 1) out 0 = some 0 := by
    rw [hout]; simp [PDF_KW, findFrom, List.isPrefixOf]
  have hhead : pHeader out = some version := by
    unfold pHeader
    rw [hout, tag_append]
    simp only [Option.bind_some]
    rw [spanP_append notEol version (10 :: 37 :: (mark ++ 10 :: R)) hv1
      (by intro b r h; injection h with h1 _; subst h1; decide)]
    simp [eol, hv2]
  have hv10 : ∀ c ∈ PDF_KW ++ version, c ≠ 10 := by
    intro c hc
    rw [List.mem_append] at hc
    rcases hc with hc | hc
    · simp [PDF_KW] at hc; rcases hc with h | h | h | h | h <;> subst h <;> decide
    · have := hv1 c hc
      intro e; subst e; simp [notEol] at this
  have hpos : findFrom [10] (out.length + 1) out 0 = some ((PDF_KW ++ version).length) := by
    have e : out = (PDF_KW ++ version) ++ 10 :: (37 :: (mark ++ 10 :: R)) := by rw [hout]; simp
    have := findFrom_nl (PDF_KW ++ version) (37 :: (mark ++ 10 :: R)) (out.length + 1) 0 hv10
      (by rw [e]; simp only [List.length_append, List.length_cons]; omega)
    rw [← e] at this
    simpa using this
  have hdrop : out.drop ((PDF_KW ++ version).length + 1) = 37 :: (mark ++ 10 :: R) := by
    have e : out = ((PDF_KW ++ version) ++ [10]) ++ (37 :: (mark ++ 10 :: R)) := by rw [hout]; simp
    have hl : (PDF_KW ++ version).length + 1 = ((PDF_KW ++ version) ++ [10]).length := by simp; omega
    rw [hl, e, List.drop_left]
  have hbm : pBinaryMark (37 :: (mark ++ 10 :: R)) = some mark := by
    unfold pBinaryMark
    simp only
    rw [spanP_append notEol mark (10 :: R)
      (by intro b hb; exact mark_notEol b (by have := List.all_eq_true.mp hmark b hb; simpa using this))
      (by intro b r h; injection h with h1 _; subst h1; decide)]
    simp [eol]
  have hnot : ¬ (xs > out.length) := by omega
  have hmx : ¬ (x.maxId + 1 ≥ U32) := by omega
  unfold loadDocWith
  simp only [hoff, List.drop_zero, hhead, hpos, hdrop, hbm, hmark, if_true, hxs, hnot, if_false, hxt, hpl,
    hmx, henc, Bool.false_eq_true]
  rfl

/-- **The front of `Reader::read`** on any file of the shape `%PDF-<version>\n%<mark>\n…` whose
`startxref` is found and whose newest section has no `Prev`: the reader enters the object pass
with that section's table and trailer. -/
theorem load_front (arr : List Block → List Block) (arr2 : List ObjId → List ObjId) (out version mark R : Bytes)
    (hout : out = PDF_KW ++ (version ++ 10 :: 37 :: (mark ++ 10 :: R)))
    (hv1 : ∀ b ∈ version, notEol b = true) (hv2 : validUtf8 version = true)
    (hmark : (mark.all fun b => b ≥ 128) = true)
    (xs : Nat) (hxs : getXrefStart out = some xs) (hle : xs ≤ out.length)
    (x0 : XTable) (sz : Nat) (tr0 : Dict) (hxt : xrefAndTrailer (out.drop xs) = .ok (x0, sz, tr0))
    (hprev : tr0.get PREV = none) (hmax : x0.maxId + 1 < U32) (henc : tr0.has ENCRYPT = false) :
    loadDocWith arr arr2 out = objectPass arr arr2 out version mark x0 tr0 xs := by
  apply load_front_chain arr arr2 out version mark R hout hv1 hv2 hmark xs hxs hle x0 sz tr0 hxt x0 tr0 ?_ hmax henc
  simp [prevLoop, hprev, Dict_remove_absent tr0 PREV hprev]

theorem XTable_mem_get (t : XTable) (k : Nat) (v : XEntry) (h : (k, v) ∈ t) : (t.get k).isSome = true := by
  induction t with
  | nil => simp at h
  | cons p rest ih =>
    obtain ⟨k', v'⟩ := p
    by_cases hk : k' = k
    · simp [XTable.get, hk]
    · simp only [List.mem_cons, Prod.mk.injEq] at h
      rcases h with ⟨h1, _⟩ | h
      · exact absurd h1.symm hk
      · simp [XTable.get, hk, ih h]

theorem foldl_max_le (t : XTable) (B : Nat) : ∀ m0, m0 ≤ B → (∀ p ∈ t, p.1 ≤ B) →
    t.foldl (fun m (p : Nat × XEntry) => max m p.1) m0 ≤ B := by
  induction t with
  | nil => intro m0 h _; simpa using h
  | cons p rest ih =>
    intro m0 h hb
    simp only [List.foldl_cons]
    apply ih
    · have := hb p (by simp); omega
    · intro q hq; exact hb q (by simp [hq])

theorem XTable_maxId_le (t : XTable) (B : Nat) (hb : ∀ p ∈ t, p.1 ≤ B) : t.maxId ≤ B := by
  unfold XTable.maxId
  exact foldl_max_le t B 0 (by omega) hb

/-- the bytes of a plain save start with the header -/
theorem saveFrom_header (d : SDoc) (out : Bytes) (d' : SDoc) (h : saveFrom [] d = some (out, d')) :
    ∃ R, out = PDF_KW ++ (d.version ++ 10 :: 37 :: (d.binaryMark ++ 10 :: R)) := by
  have h1 : hdrOf [] d <+: bodyOf [] d := writeObjects_prefix _ _ _
  have h2 : bodyOf [] d <+: out := by
    cases hk : d.xrefKind with
    | table =>
      rw [(saveFrom_table_eq [] d out d' hk h).1]
      simp only [List.append_assoc]; exact List.prefix_append _ _
    | stream =>
      rw [(saveFrom_stream_eq [] d out d' hk h).1]
      simp only [List.append_assoc]; exact List.prefix_append _ _
  obtain ⟨R, hR⟩ := List.IsPrefix.trans h1 h2
  exact ⟨R, by rw [← hR]; simp [hdrOf]⟩

theorem saveFrom_mark (pre : Bytes) (d : SDoc) (out : Bytes) (d' : SDoc) (h : saveFrom pre d = some (out, d')) :
    (d.binaryMark.all fun b => b ≥ 128) = true := by
  unfold saveFrom at h
  split at h
  · cases h
  · rename_i hm; simpa using hm

/-- **`Reader::read` on a table save, up to the object pass (C01).** For every document saved
plainly with a classic table (file < 4 GiB, `max_id + 1 ≤ u32::MAX`, `u16` generations, version
text without line breaks and valid UTF-8, trailer without `Prev`/`Encrypt`, trailer dictionary
reads back): the reader finds `%PDF-` at offset 0, reads header and binary mark back, finds
`startxref`, decodes the table, leaves the `Prev` loop at once and runs its object pass on
exactly the recorded table — every entry of which points at its object's `n g obj` header. -/
theorem load_front_of_save_tableN (arr : List Block → List Block) (arr2 : List ObjId → List ObjId) (d : SDoc) (out : Bytes) (d' : SDoc) (tr' : Dict)
    (hk : d.xrefKind = .table) (h : saveFrom [] d = some (out, d')) (hlen : out.length < 4294967296)
    (hmax : d.maxId + 1 ≤ 4294967295) (hg : GensOk d)
    (hD : DictReadsBackN d'.trailer tr' (STARTXREF_KW ++ natDigits (bodyOf [] d).length ++ EOF_KW))
    (hsz : tr'.get SIZE = some (.int ((d.maxId + 1 : Nat) : Int)))
    (hv1 : ∀ b ∈ d.version, notEol b = true) (hv2 : validUtf8 d.version = true)
    (hprev : tr'.get PREV = none) (henc : tr'.has ENCRYPT = false) :
    ∃ table,
      (∀ n, table.get n = if 1 ≤ n ∧ n < d.maxId + 1 then normalOf (xmapOf [] d) n else none) ∧
      (∀ n off g, table.get n = some (.normal off g) → HeaderAt out off n g) ∧
      (table.map (·.1)).Nodup ∧
      loadDocWith arr arr2 out
        = objectPass arr arr2 out d.version d.binaryMark table tr' (bodyOf [] d).length := by
  obtain ⟨xs, table, hxs, hle, hxt, hget, hhdr, hnodup⟩ := load_xref_of_save_tableN [] d out d' tr' hk h hlen hmax hg hD hsz
  have hxs' : xs = (bodyOf [] d).length := by
    have := startxref_found [] d out d' h hlen
    rw [hxs] at this; injection this
  subst hxs'
  obtain ⟨R, hR⟩ := saveFrom_header d out d' h
  refine ⟨table, hget, hhdr, hnodup, ?_⟩
  apply load_front arr arr2 out d.version d.binaryMark R hR hv1 hv2 (saveFrom_mark [] d out d' h) _ hxs hle
    table (d.maxId + 1) tr' hxt
  · exact hprev
  · have : table.maxId ≤ d.maxId := by
      apply XTable_maxId_le
      intro p hp
      have h1 := XTable_mem_get table p.1 p.2 hp
      rw [hget p.1] at h1
      split at h1
      · omega
      · simp at h1
    simp only [U32]; omega
  · exact henc

theorem load_front_of_save_table (arr : List Block → List Block) (arr2 : List ObjId → List ObjId) (d : SDoc) (out : Bytes) (d' : SDoc)
    (hk : d.xrefKind = .table) (h : saveFrom [] d = some (out, d')) (hlen : out.length < 4294967296)
    (hmax : d.maxId + 1 ≤ 4294967295) (hg : GensOk d)
    (hD : DictReadsBack d'.trailer (STARTXREF_KW ++ natDigits (bodyOf [] d).length ++ EOF_KW))
    (hv1 : ∀ b ∈ d.version, notEol b = true) (hv2 : validUtf8 d.version = true)
    (hprev : d.trailer.get PREV = none) (henc : d.trailer.has ENCRYPT = false) :
    ∃ table,
      (∀ n, table.get n = if 1 ≤ n ∧ n < d.maxId + 1 then normalOf (xmapOf [] d) n else none) ∧
      (∀ n off g, table.get n = some (.normal off g) → HeaderAt out off n g) ∧
      (table.map (·.1)).Nodup ∧
      loadDocWith arr arr2 out
        = objectPass arr arr2 out d.version d.binaryMark table d'.trailer (bodyOf [] d).length := by
  obtain ⟨_, htr⟩ := saveFrom_table_eq [] d out d' hk h
  have k1 : ¬ SIZE = PREV := by decide
  have k2 : ¬ SIZE = ENCRYPT := by decide
  apply load_front_of_save_tableN arr arr2 d out d' d'.trailer hk h hlen hmax hg hD ?_ hv1 hv2
  · rw [htr, Dict_get_set]; simp only [k1, if_false]; exact hprev
  · rw [Dict_has_eq, htr, Dict_get_set]; simp only [k2, if_false]
    rw [← Dict_has_eq]; exact henc
  · rw [htr, Dict.get_set_same]; simp

end Lopdf.FileRT
