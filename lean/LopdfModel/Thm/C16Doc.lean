import LopdfModel.Model.ExtractText
import LopdfModel.Lemmas.ExtractBridge
import LopdfModel.Thm.C16Page
/-
  C16 — `Document::extract_text` of a built page, as the composition of the models
  (C13's `Q13.extractPage` / `Q13.extractTextDoc`): page dictionary → fonts of its resource
  dictionary (`get_page_fonts`) → content stream (`get_page_content`, filters as the parameter
  `ext`/C09) → `Content::decode` → the text loop.

  `c16g_extract_built_page`: a page whose `/Resources` is a direct dictionary with a direct `/Font`
  dictionary of direct font dictionaries F1..Fk (predefined encodings, names in `BTreeMap` order),
  with no inherited resource references, and whose `/Contents` references one stream holding the
  bytes `Content::encode` wrote for an admissible text program, extracts to `c16fSpecText`.
  `c16g_extract_text_doc` lifts it to `extract_text(&[n])`, taking from C12 that `get_pages`
  enumerates the page as number `n`.
-/
namespace Lopdf
open Gen Spec Q13

/-! ### lookups of direct objects -/

theorem c16g_deref_nonref (os : Objects) (o : Obj) (h : ∀ a b, o ≠ .ref a b) : deref os o = some o := by
  unfold deref
  cases o with
  | ref a b => exact absurd rfl (h a b)
  | _ => simp [derefAux]

theorem c16g_getDictionary (os : Objects) (id : ObjId) (d : Dict) (h : os.get id = some (.dict d)) :
    getDictionary os id = some d := by
  simp [getDictionary, getObject, h, c16g_deref_nonref os (.dict d) (by simp), Obj.asDict]

theorem c16g_getStream (os : Objects) (id : ObjId) (d : Dict) (c : Bytes) (h : os.get id = some (.stream d c)) :
    (getObject os id).bind Obj.asStream = some (d, c) := by
  simp [getObject, h, c16g_deref_nonref os (.stream d c) (by simp), Obj.asStream]

/-! ### `BTreeMap` order of the font names -/

theorem c16g_bytesLt_irrefl : ∀ (a : Bytes), bytesLt a a = false
  | [] => rfl
  | x :: xs => by simp [bytesLt, c16g_bytesLt_irrefl xs]

theorem c16g_bytesLt_asymm : ∀ (a b : Bytes), bytesLt a b = true → bytesLt b a = false
  | [], [], h => by simp [bytesLt] at h
  | [], _ :: _, _ => rfl
  | _ :: _, [], h => by simp [bytesLt] at h
  | x :: xs, y :: ys, h => by
    simp only [bytesLt, Bool.or_eq_true, decide_eq_true_eq, Bool.and_eq_true, beq_iff_eq] at h
    simp only [bytesLt, Bool.or_eq_false_iff, decide_eq_false_iff_not, Bool.and_eq_false_imp, beq_iff_eq]
    rcases h with h | ⟨rfl, h⟩
    · refine ⟨?_, ?_⟩
      · exact fun h' => absurd (UInt8.lt_trans h h') (UInt8.lt_irrefl _)
      · intro e; subst e; exact absurd h (UInt8.lt_irrefl _)
    · exact ⟨UInt8.lt_irrefl _, fun _ => c16g_bytesLt_asymm xs ys h⟩

/-- names strictly increasing in the byte order of `BTreeMap<Vec<u8>, _>` -/
def C16gSorted : List Bytes → Prop
  | [] => True
  | k :: rest => (∀ k' ∈ rest, bytesLt k k' = true) ∧ C16gSorted rest

theorem c16g_insert_last {α} (k : Bytes) (v : α) : ∀ (acc : List (Bytes × α)),
    (∀ p ∈ acc, bytesLt p.1 k = true) → insertSorted true k v acc = acc ++ [(k, v)]
  | [], _ => rfl
  | (k', v') :: rest, h => by
    have h1 := h (k', v') (by simp)
    have hne : k' ≠ k := by intro e; subst e; rw [c16g_bytesLt_irrefl] at h1; cases h1
    have hnl : bytesLt k k' = false := c16g_bytesLt_asymm k' k h1
    simp [insertSorted, hne, hnl, c16g_insert_last k v rest (fun p hp => h p (by simp [hp]))]

/-- `collect_fonts_from_resources`' loop over direct font dictionaries in increasing name order;
`f` is the loop body, which on a direct dictionary inserts it unless the name is present -/
theorem c16g_fonts_fold (f : List (Bytes × Dict) → Bytes × Obj → List (Bytes × Dict))
    (hf : ∀ acc k d, f acc (k, Obj.dict d) = insertSorted true k d acc) :
    ∀ (F : C16fFonts) (acc : List (Bytes × Dict)),
    C16gSorted (F.map (·.1)) → (∀ p ∈ acc, ∀ x ∈ F, bytesLt p.1 x.1 = true) →
    (F.map fun x => (x.1, Obj.dict x.2.1)).foldl f acc = acc ++ F.map fun x => (x.1, x.2.1)
  | [], acc, _, _ => by simp
  | (k, d, t) :: rest, acc, hs, hacc => by
    simp only [List.map_cons, List.foldl_cons, hf]
    rw [c16g_insert_last k d acc (fun p hp => hacc p hp (k, d, t) (by simp))]
    simp only [List.map_cons, C16gSorted] at hs
    rw [c16g_fonts_fold f hf rest (acc ++ [(k, d)]) hs.2 (by
      intro p hp x hx
      simp only [List.mem_append, List.mem_cons, List.not_mem_nil, or_false] at hp
      rcases hp with hp | rfl
      · exact hacc p hp x (by simp [hx])
      · exact hs.1 x.1 (List.mem_map.mpr ⟨x, hx, rfl⟩))]
    simp

theorem c16g_collectFonts (os : Objects) (res : Dict) (F : C16fFonts)
    (hfont : res.get K_Font = some (.dict (F.map fun x => (x.1, Obj.dict x.2.1))))
    (hsorted : C16gSorted (F.map (·.1))) : collectFonts os res [] = F.map fun x => (x.1, x.2.1) := by
  simp only [collectFonts, hfont]
  rw [c16g_fonts_fold _ (fun acc k d => rfl) F [] hsorted (by simp)]
  simp

/-! ### the built page -/

/-- a page as a producer builds it: a direct `/Resources` dictionary whose `/Font` entry is a
direct dictionary of direct font dictionaries, one content stream behind `/Contents`, and no
resource dictionaries inherited by reference (`collectResources … = some []`: no `/Parent`, or
parents without a referenced `/Resources`) -/
def C16gPage (ext : Ext) (os : Objects) (pid : ObjId) (F : C16fFonts) (data : Bytes) : Prop :=
  ∃ (page res : Dict) (cid : ObjId) (sd : Dict) (raw : Bytes),
    os.get pid = some (.dict page) ∧
    page.get K_Resources = some (.dict res) ∧
    res.get K_Font = some (.dict (F.map fun x => (x.1, Obj.dict x.2.1))) ∧
    C16gSorted (F.map (·.1)) ∧
    collectResources os page [] [] = some [] ∧
    page.get K_Contents = some (.ref cid.1 cid.2) ∧
    os.get cid = some (.stream sd raw) ∧
    -- the stream's filters (property C09, flate2 / weezl behind `ext`) give back the content bytes,
    -- or there is no usable `/Filter` and the raw bytes are the content
    (decompOf ext sd raw = .ok data ∨ (∃ e, decompOf ext sd raw = .err e ∧ raw = data))

theorem c16g_no_parent (os : Objects) (page : Dict) (hp : page.get K_Parent = none)
    (hr : (page.get K_Resources).bind Obj.asRef = none) : collectResources os page [] [] = some [] := by
  rw [collectResources]; simp [hp, hr]

theorem c16g_getPageFonts (ext : Ext) (os : Objects) (pid : ObjId) (F : C16fFonts) (data : Bytes)
    (h : C16gPage ext os pid F data) : getPageFonts os pid = .ok (F.map fun x => (x.1, x.2.1)) := by
  obtain ⟨page, res, cid, sd, raw, hpage, hres, hfont, hsorted, hinh, _, _, _⟩ := h
  simp only [getPageFonts, getPageResources, c16g_getDictionary os pid page hpage, hinh, hres, Option.bind_some,
    Obj.asDict, c16g_collectFonts os res F hfont hsorted, List.foldl_nil]

theorem c16g_getPageContent (ext : Ext) (os : Objects) (pid : ObjId) (F : C16fFonts) (data : Bytes)
    (h : C16gPage ext os pid F data) : getPageContent (decompOf ext) os pid = .ok data := by
  obtain ⟨page, res, cid, sd, raw, hpage, _, _, _, _, hcont, hstream, hdata⟩ := h
  have hpc : getPageContents os pid = [cid] := by
    simp [getPageContents, c16g_getDictionary os pid page hpage, hcont, contentsAux, hstream]
  simp only [getPageContent, hpc, List.foldl_cons, List.foldl_nil, c16g_getStream os cid sd raw hstream]
  rcases hdata with hd | ⟨e, hd, rfl⟩ <;> simp [hd]

/-- **`extract_text` of a built page.** For every page of the shape `C16gPage` whose fonts select
predefined one-byte encodings and whose content stream holds what `Content::encode` wrote for an
admissible text program, `extract_text` returns the program's shown text. -/
theorem c16g_extract_built_page (ext : Ext) (os : Objects) (pid : ObjId) (F : C16fFonts)
    (hF : ∀ x ∈ F, getFontEncoding x.2.1 = some (.oneByte x.2.2))
    (cmds : List C16fCmd) (hok : C16fOk F none cmds)
    (h : C16gPage ext os pid F (encodeContent (c16fOps F none cmds))) :
    extractPage ext os pid = .ok (c16fSpecText F none [] cmds) := by
  have hmain := (c16f_extract_page F hF cmds hok).2
  simp only [extractTextOfContent] at hmain
  -- C13's `extractPage` runs the `FontEnc` loop; without ToUnicode fonts that is C16's loop (Lemmas/ExtractBridge)
  have hencs : fontEncs ext os (F.map fun x => (x.1, x.2.1)) = .ok (stdEncs (c16fEncs F)) := by
    simpa [c16fEncs] using fontEncs_std ext os F hF
  simp only [extractPage, c16g_getPageFonts ext os pid F _ h, c16g_getPageContent ext os pid F _ h, hencs]
  cases hd : decodeContent (encodeContent (c16fOps F none cmds)) with
  | ok ops =>
    simp only [hd, extractText, c16f_fontEncodings F hF] at hmain
    have hb := extractLoopF_std (c16fEncs F) (opsView ops) { cur := none, done := [], text := [] }
    simp only [XState.embed, Option.map_none, opsView] at hb hmain
    simp only [hb]
    exact hmain
  | err e => simp [hd] at hmain
  | panic s => simp [hd] at hmain

/-- **`Document::extract_text(&[n])`**, given (property C12) that `get_pages` enumerates the page as number `n` -/
theorem c16g_extract_text_doc (memMax : Nat) (ext : Ext) (trailer : Dict) (os : Objects) (pages : List ObjId)
    (n : Nat) (pid : ObjId) (hpages : getPages memMax trailer os = .ok pages) (hn : pageByNumber pages n = some pid)
    (F : C16fFonts) (hF : ∀ x ∈ F, getFontEncoding x.2.1 = some (.oneByte x.2.2))
    (cmds : List C16fCmd) (hok : C16fOk F none cmds)
    (h : C16gPage ext os pid F (encodeContent (c16fOps F none cmds))) :
    extractTextDoc memMax ext trailer os [n] = .ok (c16fSpecText F none [] cmds) := by
  simp [extractTextDoc, hpages, hn, joinPages, c16g_extract_built_page ext os pid F hF cmds hok h]

/-- non-vacuity: the two-font sample program of `Thm/C16Page` installed in a page object -/
def c16gSampleObjects : Objects :=
  [((1, 0), .dict [(TYPE, .name PAGE),
      (K_Resources, .dict [(K_Font, .dict (c16fSampleFonts.map fun x => (x.1, Obj.dict x.2.1)))]),
      (K_Contents, .ref 2 0)]),
   ((2, 0), .stream [] (encodeContent (c16fOps c16fSampleFonts none c16fSampleCmds)))]

example (ext : Ext) : extractPage ext c16gSampleObjects (1, 0)
    = .ok [0x28, 0x5C, 0x29, 0x20AC, 0x41, 0x20, 0x28, 0x20, 0xC4, 10] := by
  rw [← c16f_sample_spec]
  apply c16g_extract_built_page ext c16gSampleObjects (1, 0) c16fSampleFonts _ c16fSampleCmds c16f_sample_ok
  · refine ⟨_, _, (2, 0), [], _, rfl, rfl, rfl, ?_, ?_, rfl, rfl, Or.inr ⟨"filter", rfl, rfl⟩⟩
    · simp only [c16fSampleFonts, List.map_cons, List.map_nil, C16gSorted]
      refine ⟨?_, ⟨by simp, trivial⟩⟩
      intro k hk
      simp only [List.mem_cons, List.not_mem_nil, or_false] at hk
      subst hk; decide
    · exact c16g_no_parent _ _ (by decide) (by decide)
  · intro x hx
    simp only [c16fSampleFonts, List.mem_cons, List.not_mem_nil, or_false] at hx
    rcases hx with rfl | rfl <;> decide +kernel

end Lopdf
