import LopdfModel.Thm.C02FileStm
import LopdfModel.Thm.C02ObjStm
import LopdfModel.Thm.C07
import LopdfModel.Thm.C02IndirectRef
import LopdfModel.Spec.GrammarFileStm
/-
  C02 — WHOLE FILES with OBJECT STREAMS (cross-reference-stream style, one revision): type-2
  entries load the member of the container they name.  `loadDoc_of_defined_objstm` is the
  table-independent half (any cross-reference map whose type-1 bindings are defined by the file,
  some of them as object-stream containers); `loadDoc_complete_objstm` composes it with the
  cross-reference-stream section.
-/
namespace Lopdf.Grammar
open Lopdf Gen

/-! ### the skeleton of `Reader::read` with object-stream blocks -/

theorem allPlain_mergeBlocks (blocks : List Block) : ∀ (os : LObjects), AllPlain os → AllPlain (mergeBlocks os blocks) := by
  unfold mergeBlocks
  generalize (blocks.map (·.2)).flatten = l
  induction l with
  | nil => intro os h; exact h
  | cons p rest ih =>
    intro os h
    simp only [List.foldl_cons]
    apply ih
    cases hg : os.get p.1 with
    | some _ => exact h
    | none =>
      intro q hq
      rcases List.mem_append.mp hq with hq | hq
      · exact h q hq
      · simp at hq; exact ⟨p.2, by rw [hq]⟩

/-- the skeleton of `Reader::read`: header, `startxref`, the newest cross-reference section, the
`Prev` walk (result `x`, `tr`), the loading pass over `x` (result `os`, `blocks`) -/
theorem loadDoc_skeleton (file version : Bytes) (xs : Nat)
    (x0 : XTable) (size0 : Nat) (tr0 : Dict) (x : XTable) (tr : Dict) (os : LObjects) (blocks : List Block)
    (h0 : findFrom PDF_KW (file.length + 1) file 0 = some 0)
    (h1 : pHeader file = some version)
    (h2 : getXrefStart file = some xs) (h2' : xs ≤ file.length)
    (h3 : xrefAndTrailer (file.drop xs) = .ok (x0, size0, tr0))
    (h4 : prevLoop file (file.length + 2) (tr0.get PREV) [] x0 (tr0.remove PREV) = .ok (x, tr))
    (h5 : x.maxId + 1 < U32) (h6 : tr.has ENCRYPT = false)
    (h7 : x.sorted.foldl (loadStep file x x.sorted.length) (.ok ([], [])) = .ok (os, blocks))
    (h9 : AllPlain os) :
    ∃ mark, loadDoc file =
      .ok (Loaded.mk version mark tr (asObjects ((mergeBlocksX x os blocks).map fun p => (p.1, unplain p.2)))
        x.maxId xs) := by
  have hx : ¬ (xs > file.length) := by omega
  have hm : ¬ (x.maxId + 1 ≥ U32) := by omega
  have hpl : AllPlain (mergeBlocksX x os blocks) := allPlain_mergeBlocks _ os h9
  refine ⟨markOf file, ?_⟩
  unfold loadDoc loadDocOrd loadDocOrd2 loadDocWith
  simp only [h0, List.drop_zero, h1, h2, hx, if_false, h3, h4, hm, h6,
    Bool.false_eq_true, h7, id, Nat.add_sub_cancel, pendingIds_allPlain _ hpl, List.foldl_nil]
  have hmap : ∀ (F : ObjId × LObj → ObjId × Obj), (∀ p ∈ mergeBlocksX x os blocks, F p = (p.1, unplain p.2)) →
      (mergeBlocksX x os blocks).map F = (mergeBlocksX x os blocks).map fun p => (p.1, unplain p.2) :=
    fun F hF => List.map_congr_left hF
  rw [hmap _ (by
    intro p hp
    obtain ⟨o, ho⟩ := hpl p hp
    simp only [ho]
    cases o <;> simp [unplain])]
  rfl

theorem prevLoop_none (file : Bytes) (x0 : XTable) (tr0 : Dict) (h4 : tr0.get PREV = none) :
    prevLoop file (file.length + 2) (tr0.get PREV) [] x0 (tr0.remove PREV) = .ok (x0, tr0) := by
  rw [h4, remove_absent tr0 PREV h4]
  simp [prevLoop]

/-! ### the loading pass -/

def isNormalE : XEntry → Bool
  | .normal _ _ => true
  | .compressed _ _ => false

/-- objects read directly: one per type-1 binding -/
def loadedOfN (val : Nat → Nat × Obj) (os : LObjects) (l : XTable) : LObjects :=
  l.foldl (fun acc p => if isNormalE p.2 then acc.insert (p.1, (val p.1).1) (.plain (val p.1).2) else acc) os

/-- the blocks of members: one per type-1 binding that is a (non-empty) object-stream container -/
def blocksOf (cont : Nat → List (Nat × Obj)) (l : XTable) : List Block :=
  l.filterMap fun p => if isNormalE p.2 && !(cont p.1).isEmpty then some (p.1, memberPairs (cont p.1)) else none

/-- what the file provides for one binding of the cross-reference map -/
def EntryOk (buf : Bytes) (len : ObjId → Option Int) (val : Nat → Nat × Obj) (cont : Nat → List (Nat × Obj))
    (p : Nat × XEntry) : Prop :=
  match p.2 with
  | .normal off g =>
    g = (val p.1).1 ∧ off ≤ buf.length ∧
    pIndirect len none off (buf.drop off) = some ((p.1, g), .plain (val p.1).2) ∧
    ((NotObjStm (val p.1).2 ∧ cont p.1 = []) ∨
     (∃ dct c, (val p.1).2 = .stream dct c ∧ Dict.getTypeIs dct OBJSTM = true ∧
        objStmObjects dct c = .ok (memberPairs (cont p.1)) ∧ cont p.1 ≠ []))
  | .compressed _ _ => True

theorem loadSteps_blocks (buf : Bytes) (x : XTable) (N : Nat) (val : Nat → Nat × Obj) (cont : Nat → List (Nat × Obj)) :
    ∀ (l : XTable) (os : LObjects) (bl : List Block), (∀ p ∈ l, EntryOk buf (lengthOf buf x (N + 1) []) val cont p) →
    l.foldl (loadStep buf x N) (.ok (os, bl)) = .ok (loadedOfN val os l, bl ++ blocksOf cont l) := by
  intro l
  induction l with
  | nil => intro os bl _; simp [loadedOfN, blocksOf]
  | cons p rest ih =>
    intro os bl h
    have hp := h p (by simp)
    have ih' := fun os' bl' => ih os' bl' (fun q hq => h q (List.mem_cons_of_mem _ hq))
    obtain ⟨k, e⟩ := p
    cases e with
    | compressed c i =>
      have : loadStep buf x N (.ok (os, bl)) (k, .compressed c i) = .ok (os, bl) := by simp [loadStep]
      simp only [List.foldl_cons, this, ih', loadedOfN, blocksOf, isNormalE, Bool.false_eq_true, if_false,
        Bool.false_and, List.filterMap_cons]
    | normal off g =>
      simp only [EntryOk] at hp
      obtain ⟨hg, hoff, hind, hkind⟩ := hp
      subst hg
      have h1 : ¬ (off > buf.length) := by omega
      have e1 : loadedOfN val os ((k, .normal off (val k).1) :: rest) =
          loadedOfN val (os.insert (k, (val k).1) (.plain (val k).2)) rest := rfl
      rcases hkind with ⟨hno, hc⟩ | ⟨dct, c, hv, hty, hobjs, hc⟩
      · have hstep : loadStep buf x N (.ok (os, bl)) (k, .normal off (val k).1) =
            .ok (os.insert (k, (val k).1) (.plain (val k).2), bl) := by
          unfold loadStep
          simp only [h1, if_false, hind]
          cases hvo : (val k).2 with
          | stream d c =>
            have := getTypeIs_notObjStm d (hno d c hvo)
            simp [this]
          | _ => rfl
        have e2 : blocksOf cont ((k, .normal off (val k).1) :: rest) = blocksOf cont rest := by
          simp only [blocksOf, List.filterMap_cons, isNormalE, hc, List.isEmpty_nil, Bool.not_true, Bool.and_false,
            Bool.false_eq_true, if_false]
        rw [List.foldl_cons, hstep, ih', e1, e2]
      · have hstep : loadStep buf x N (.ok (os, bl)) (k, .normal off (val k).1) =
            .ok (os.insert (k, (val k).1) (.plain (val k).2), bl ++ [(k, memberPairs (cont k))]) := by
          unfold loadStep
          simp only [h1, if_false, hind, hv, hty, if_true, hobjs]
        have hne : (cont k).isEmpty = false := by
          cases hck : cont k with
          | nil => exact absurd hck hc
          | cons a as => rfl
        have e2 : blocksOf cont ((k, .normal off (val k).1) :: rest) =
            (k, memberPairs (cont k)) :: blocksOf cont rest := by
          simp only [blocksOf, List.filterMap_cons, isNormalE, hne, Bool.not_false, Bool.and_self, if_true]
        rw [List.foldl_cons, hstep, ih', e1, e2]
        simp

theorem allPlain_loadedOfN (val : Nat → Nat × Obj) : ∀ (l : XTable) (os : LObjects), AllPlain os →
    AllPlain (loadedOfN val os l) := by
  intro l
  induction l with
  | nil => intro os h; exact h
  | cons p rest ih =>
    intro os h
    have : loadedOfN val os (p :: rest) =
        loadedOfN val (if isNormalE p.2 then os.insert (p.1, (val p.1).1) (.plain (val p.1).2) else os) rest := rfl
    rw [this]
    apply ih
    split
    · exact allPlain_insert os _ _ h
    · exact h

theorem loadedOfN_get (val : Nat → Nat × Obj) : ∀ (l : XTable) (os : LObjects) (id : ObjId),
    (loadedOfN val os l).get id =
      if (∃ p ∈ l, p.1 = id.1 ∧ isNormalE p.2 = true) ∧ id.2 = (val id.1).1 then some (.plain (val id.1).2)
      else os.get id := by
  intro l
  induction l with
  | nil => intro os id; simp [loadedOfN]
  | cons p rest ih =>
    intro os id
    have hcons : loadedOfN val os (p :: rest) =
        loadedOfN val (if isNormalE p.2 then os.insert (p.1, (val p.1).1) (.plain (val p.1).2) else os) rest := rfl
    rw [hcons, ih]
    by_cases hcond : (∃ q ∈ rest, q.1 = id.1 ∧ isNormalE q.2 = true) ∧ id.2 = (val id.1).1
    · have : (∃ q ∈ p :: rest, q.1 = id.1 ∧ isNormalE q.2 = true) ∧ id.2 = (val id.1).1 := by
        obtain ⟨⟨q, hq, h⟩, h2⟩ := hcond
        exact ⟨⟨q, List.mem_cons_of_mem _ hq, h⟩, h2⟩
      rw [if_pos hcond, if_pos this]
    · rw [if_neg hcond]
      by_cases hp : (p.1 = id.1 ∧ isNormalE p.2 = true) ∧ id.2 = (val id.1).1
      · have : (∃ q ∈ p :: rest, q.1 = id.1 ∧ isNormalE q.2 = true) ∧ id.2 = (val id.1).1 :=
          ⟨⟨p, by simp, hp.1⟩, hp.2⟩
        rw [if_pos this]
        have hid : (p.1, (val p.1).1) = id := by
          obtain ⟨a, b⟩ := id
          obtain ⟨⟨h1, _⟩, h2⟩ := hp
          simp only at h1 h2
          subst h1; rw [h2]
        simp only [hp.1.2, if_true, lget_insert, hid]
        rw [← hid]
      · have : ¬ ((∃ q ∈ p :: rest, q.1 = id.1 ∧ isNormalE q.2 = true) ∧ id.2 = (val id.1).1) := by
          rintro ⟨⟨q, hq, h⟩, h2⟩
          rcases List.mem_cons.mp hq with rfl | hq
          · exact hp ⟨h, h2⟩
          · exact hcond ⟨⟨q, hq, h⟩, h2⟩
        rw [if_neg this]
        by_cases hn : isNormalE p.2 = true
        · simp only [hn, if_true, lget_insert]
          have : (p.1, (val p.1).1) ≠ id := by
            intro h
            apply hp
            rw [← h]
            exact ⟨⟨rfl, hn⟩, rfl⟩
          simp [this]
        · simp [hn]

/-! ### the blocks -/

theorem blocksOf_mem (cont : Nat → List (Nat × Obj)) (l : XTable) (b : Block) (h : b ∈ blocksOf cont l) :
    b.2 = memberPairs (cont b.1) ∧ cont b.1 ≠ [] ∧ ∃ e, (b.1, e) ∈ l ∧ isNormalE e = true := by
  unfold blocksOf at h
  rw [List.mem_filterMap] at h
  obtain ⟨p, hp, hb⟩ := h
  split at hb
  · rename_i hc
    injection hb with hb; subst hb
    simp only [Bool.and_eq_true, Bool.not_eq_true', List.isEmpty_eq_false_iff] at hc
    exact ⟨rfl, hc.2, p.2, hp, hc.1⟩
  · cases hb

theorem blocksOf_distinct (cont : Nat → List (Nat × Obj)) (l : XTable) (h : KeysAsc l) :
    DistinctKeys (blocksOf cont l) := by
  unfold DistinctKeys
  induction l with
  | nil => simp [blocksOf]
  | cons p rest ih =>
    have hp := List.pairwise_cons.mp h
    have ih' := ih hp.2
    have hcons : blocksOf cont (p :: rest) =
        (if isNormalE p.2 && !(cont p.1).isEmpty then [(p.1, memberPairs (cont p.1))] else []) ++ blocksOf cont rest := by
      simp only [blocksOf, List.filterMap_cons]
      split <;> simp_all
    rw [hcons]
    split
    · simp only [List.cons_append, List.nil_append, List.map_cons, List.nodup_cons]
      refine ⟨?_, ih'⟩
      intro hmem
      obtain ⟨b, hb, hk⟩ := List.mem_map.mp hmem
      obtain ⟨_, _, e, he, _⟩ := blocksOf_mem cont rest b hb
      have := hp.1 (b.1, e) he
      simp only at this hk
      omega
    · simpa using ih'

theorem blocksOf_find_some (cont : Nat → List (Nat × Obj)) (l : XTable) (c : Nat) (e : XEntry)
    (he : (c, e) ∈ l) (hn : isNormalE e = true) (hc : cont c ≠ []) :
    (blocksOf cont l).find? (fun b => b.1 == c) = some (c, memberPairs (cont c)) := by
  have hmem : (c, memberPairs (cont c)) ∈ blocksOf cont l := by
    unfold blocksOf
    rw [List.mem_filterMap]
    refine ⟨(c, e), he, ?_⟩
    have : (cont c).isEmpty = false := by
      cases hck : cont c with
      | nil => exact absurd hck hc
      | cons a as => rfl
    simp [hn, this]
  cases hf : (blocksOf cont l).find? (fun b => b.1 == c) with
  | none =>
    rw [List.find?_eq_none] at hf
    exact absurd (by simp) (hf _ hmem)
  | some b =>
    have hb := List.mem_of_find?_eq_some hf
    have hk := List.find?_some hf
    simp only [beq_iff_eq] at hk
    obtain ⟨h1, _, _⟩ := blocksOf_mem cont l b hb
    obtain ⟨bk, bv⟩ := b
    simp only at hk h1; subst hk; rw [h1]

theorem blocksOf_find_none (cont : Nat → List (Nat × Obj)) (l : XTable) (c : Nat)
    (h : ¬ ((∃ e, (c, e) ∈ l ∧ isNormalE e = true) ∧ cont c ≠ [])) :
    (blocksOf cont l).find? (fun b => b.1 == c) = none := by
  rw [List.find?_eq_none]
  intro b hb hk
  simp only [beq_iff_eq] at hk
  obtain ⟨_, h2, e, he, hn⟩ := blocksOf_mem cont l b hb
  subst hk
  exact h ⟨⟨e, he, hn⟩, h2⟩

/-- first object listed under the number -/
def lookupMember : List (Nat × Obj) → Nat → Option Obj
  | [], _ => none
  | (n, o) :: r, k => if n = k then some o else lookupMember r k

theorem firstGet_memberPairs (l : List (Nat × Obj)) (id : ObjId) :
    firstGet (memberPairs l) id = if id.2 = 0 then lookupMember l id.1 else none := by
  induction l with
  | nil => simp [memberPairs, firstGet, lookupMember]
  | cons p rest ih =>
    obtain ⟨n, o⟩ := p
    obtain ⟨a, b⟩ := id
    have : memberPairs ((n, o) :: rest) = ((n, 0), o) :: memberPairs rest := rfl
    rw [this]
    simp only [firstGet, ih, lookupMember]
    by_cases h0 : b = 0
    · subst h0
      by_cases hn : n = a
      · subst hn; simp
      · have : ¬ ((n, 0) = (a, 0)) := by intro h; injection h with h _; exact hn h
        simp [this, hn]
    · have : ¬ ((n, 0) = (a, b)) := by intro h; injection h with _ h; exact h0 h.symm
      simp [this, h0]

theorem firstGet_none_of_not_mem (l : List (ObjId × Obj)) (id : ObjId) (h : ∀ p ∈ l, p.1 ≠ id) : firstGet l id = none := by
  induction l with
  | nil => rfl
  | cons p rest ih =>
    obtain ⟨i, o⟩ := p
    have := h (i, o) (by simp)
    simp only [firstGet, this, if_false]
    exact ih (fun q hq => h q (List.mem_cons_of_mem _ hq))

/-! ### the table-independent whole-file theorem with object streams -/

/-- what `Reader::read` loads under an id, as the file defines it: a type-1 binding loads the
object defined at its offset (under its generation), a type-2 binding loads the member with that
NUMBER of the container it names (generation 0), nothing else is loaded -/
def definedObject (x0 : XTable) (val : Nat → Nat × Obj) (cont : Nat → List (Nat × Obj)) (id : ObjId) : Option Obj :=
  match x0.get id.1 with
  | some (.normal _ _) => if id.2 = (val id.1).1 then some (val id.1).2 else none
  | some (.compressed c _) => if id.2 = 0 then lookupMember (cont c) id.1 else none
  | none => none

theorem lookupMember_mem (l : List (Nat × Obj)) (k : Nat) (o : Obj) (h : lookupMember l k = some o) : (k, o) ∈ l := by
  induction l with
  | nil => simp [lookupMember] at h
  | cons p rest ih =>
    obtain ⟨n, v⟩ := p
    simp only [lookupMember] at h
    by_cases hn : n = k
    · simp only [hn, if_true] at h; injection h with h; subst h; subst hn; simp
    · simp only [hn, if_false] at h; exact List.mem_cons_of_mem _ (ih h)

theorem loadDoc_of_defined_gen (file ver : Bytes) (xs : Nat) (xn : XTable) (size0 : Nat) (trn : Dict)
    (x0 : XTable) (tr0 : Dict)
    (val : Nat → Nat × Obj) (cont : Nat → List (Nat × Obj))
    (g0 : findFrom PDF_KW (file.length + 1) file 0 = some 0) (g1 : pHeader file = some ver)
    (g2 : getXrefStart file = some xs) (g2' : xs ≤ file.length)
    (g3 : xrefAndTrailer (file.drop xs) = .ok (xn, size0, trn))
    (g4 : prevLoop file (file.length + 2) (trn.get PREV) [] xn (trn.remove PREV) = .ok (x0, tr0))
    (henc : tr0.get ENCRYPT = none) (hmax : x0.maxId + 1 < 4294967296)
    (hent : ∀ k e, x0.get k = some e → EntryOk file (lengthOf file x0 (x0.sorted.length + 1) []) val cont (k, e))
    (hcont : ∀ k, (∀ off g, x0.get k ≠ some (.normal off g)) → cont k = [])
    (hlisted : ∀ k, ∀ p ∈ cont k, ∃ i, x0.get p.1 = some (.compressed k i)) :
    ∃ L, loadDoc file = .ok L ∧ L.version = ver ∧ L.trailer = tr0 ∧ L.xrefStart = xs ∧ L.maxId = x0.maxId ∧
      ∀ id : ObjId, L.objects.get id = definedObject x0 val cont id := by
  have hfold := loadSteps_blocks file x0 x0.sorted.length val cont x0.sorted [] []
    (fun p hp => by obtain ⟨k, e⟩ := p; exact hent k e ((mem_sorted_iff _ k e).mp hp))
  simp only [List.nil_append] at hfold
  have g9 : AllPlain (loadedOfN val [] x0.sorted) := allPlain_loadedOfN val _ [] (by intro p hp; simp at hp)
  have g6 : tr0.has ENCRYPT = false := by simp [Dict.has, henc]
  obtain ⟨mark, hload⟩ := loadDoc_skeleton file ver _ xn _ trn x0 tr0 _ _
    g0 g1 g2 g2' g3 g4 (by simpa [U32] using hmax) g6 hfold g9
  refine ⟨_, hload, rfl, rfl, rfl, rfl, ?_⟩
  intro id
  show Objects.get (asObjects _) id = _
  rw [asObjects_get]
  have hdist := blocksOf_distinct cont x0.sorted (keysAsc_sorted x0)
  -- what the direct pass has under `id`
  have hos : (loadedOfN val [] x0.sorted).get id =
      match x0.get id.1 with
      | some (.normal _ _) => if id.2 = (val id.1).1 then some (.plain (val id.1).2) else none
      | _ => none := by
    rw [loadedOfN_get]
    cases hx : x0.get id.1 with
    | none =>
      have : ¬ ((∃ p ∈ x0.sorted, p.1 = id.1 ∧ isNormalE p.2 = true) ∧ id.2 = (val id.1).1) := by
        rintro ⟨⟨p, hp, h1, _⟩, _⟩
        obtain ⟨pk, pe⟩ := p
        have := (mem_sorted_iff _ pk pe).mp hp
        simp only at h1; subst h1; rw [hx] at this; cases this
      rw [if_neg this]; rfl
    | some e =>
      cases e with
      | compressed c i =>
        have : ¬ ((∃ p ∈ x0.sorted, p.1 = id.1 ∧ isNormalE p.2 = true) ∧ id.2 = (val id.1).1) := by
          rintro ⟨⟨p, hp, h1, h2⟩, _⟩
          obtain ⟨pk, pe⟩ := p
          have := (mem_sorted_iff _ pk pe).mp hp
          simp only at h1 h2; subst h1; rw [hx] at this; injection this with this; subst this
          simp [isNormalE] at h2
        rw [if_neg this]; rfl
      | normal off g =>
        have hex : ∃ p ∈ x0.sorted, p.1 = id.1 ∧ isNormalE p.2 = true :=
          ⟨(id.1, .normal off g), (mem_sorted_iff _ _ _).mpr hx, rfl, rfl⟩
        by_cases hg : id.2 = (val id.1).1
        · rw [if_pos ⟨hex, hg⟩]; simp [hg]
        · rw [if_neg (fun h => hg h.2)]; simp [hg, LObjects.get]
  unfold definedObject
  cases hx : x0.get id.1 with
  | some e =>
    cases e with
    | compressed c i =>
      rw [objstm_xref_container_wins x0 _ _ id c i hx hdist, hos, hx]
      simp only [Option.orElse]
      unfold memberOf
      by_cases hcond : (∃ e, (c, e) ∈ x0.sorted ∧ isNormalE e = true) ∧ cont c ≠ []
      · obtain ⟨⟨e, he, hn⟩, hc⟩ := hcond
        rw [blocksOf_find_some cont x0.sorted c e he hn hc]
        simp only [Option.bind, firstGet_memberPairs]
        by_cases h0 : id.2 = 0 <;> simp [h0]
        cases lookupMember (cont c) id.1 <;> simp [unplain]
      · rw [blocksOf_find_none cont x0.sorted c hcond]
        have hce : cont c = [] := by
          by_cases hc : cont c = []
          · exact hc
          · apply hcont
            intro off g hxc
            exact hcond ⟨⟨.normal off g, (mem_sorted_iff _ _ _).mpr hxc, rfl⟩, hc⟩
        simp [hce, lookupMember]
    | normal off g =>
      have hnomem : firstGet (((sortBlocks (blocksOf cont x0.sorted)).map (filterBlock x0)).map (·.2)).flatten id = none := by
        apply firstGet_none_of_not_mem
        intro p hp hpid
        rw [List.mem_flatten] at hp
        obtain ⟨l, hl, hpl⟩ := hp
        simp only [List.map_map, List.mem_map] at hl
        obtain ⟨b, hb, rfl⟩ := hl
        have hb' : b ∈ blocksOf cont x0.sorted := (sortBlocks_perm _).subset hb
        obtain ⟨h1, _, _⟩ := blocksOf_mem cont _ b hb'
        simp only [Function.comp, filterBlock] at hpl
        have hp2 := (List.mem_filter.mp hpl).1
        rw [h1, memberPairs, List.mem_map] at hp2
        obtain ⟨q, hq, rfl⟩ := hp2
        obtain ⟨i, hi⟩ := hlisted b.1 q hq
        simp only at hpid
        rw [← hpid] at hx
        simp only at hx
        rw [hx] at hi; cases hi
      unfold mergeBlocksX
      rw [mergeBlocks_get, hnomem, hos, hx]
      by_cases hg : id.2 = (val id.1).1 <;> simp [hg, unplain]
  | none =>
    have hnomem : firstGet (((sortBlocks (blocksOf cont x0.sorted)).map (filterBlock x0)).map (·.2)).flatten id = none := by
      apply firstGet_none_of_not_mem
      intro p hp hpid
      rw [List.mem_flatten] at hp
      obtain ⟨l, hl, hpl⟩ := hp
      simp only [List.map_map, List.mem_map] at hl
      obtain ⟨b, hb, rfl⟩ := hl
      have hb' : b ∈ blocksOf cont x0.sorted := (sortBlocks_perm _).subset hb
      obtain ⟨h1, _, _⟩ := blocksOf_mem cont _ b hb'
      simp only [Function.comp, filterBlock] at hpl
      have hp2 := (List.mem_filter.mp hpl).1
      rw [h1, memberPairs, List.mem_map] at hp2
      obtain ⟨q, hq, rfl⟩ := hp2
      obtain ⟨i, hi⟩ := hlisted b.1 q hq
      simp only at hpid
      rw [← hpid] at hx
      simp only at hx
      rw [hx] at hi; cases hi
    unfold mergeBlocksX
    rw [mergeBlocks_get, hnomem, hos, hx]
    rfl

/-- one revision: no `Prev` in the trailer -/
theorem loadDoc_of_defined_objstm (file ver : Bytes) (xs : Nat) (x0 : XTable) (size0 : Nat) (tr0 : Dict)
    (val : Nat → Nat × Obj) (cont : Nat → List (Nat × Obj))
    (g0 : findFrom PDF_KW (file.length + 1) file 0 = some 0) (g1 : pHeader file = some ver)
    (g2 : getXrefStart file = some xs) (g2' : xs ≤ file.length)
    (g3 : xrefAndTrailer (file.drop xs) = .ok (x0, size0, tr0))
    (hprev : tr0.get PREV = none) (henc : tr0.get ENCRYPT = none) (hmax : x0.maxId + 1 < 4294967296)
    (hent : ∀ k e, x0.get k = some e → EntryOk file (lengthOf file x0 (x0.sorted.length + 1) []) val cont (k, e))
    (hcont : ∀ k, (∀ off g, x0.get k ≠ some (.normal off g)) → cont k = [])
    (hlisted : ∀ k, ∀ p ∈ cont k, ∃ i, x0.get p.1 = some (.compressed k i)) :
    ∃ L, loadDoc file = .ok L ∧ L.version = ver ∧ L.trailer = tr0 ∧ L.xrefStart = xs ∧ L.maxId = x0.maxId ∧
      ∀ id : ObjId, L.objects.get id = definedObject x0 val cont id :=
  loadDoc_of_defined_gen file ver xs x0 size0 tr0 x0 tr0 val cont g0 g1 g2 g2' g3
    (prevLoop_none file x0 tr0 hprev) henc hmax hent hcont hlisted

/-! ### from the file grammar -/

theorem indirectRef_any {id lid : ObjId} {dct : Dict} {data ibs : Bytes} (h : DerivesIndirectRef id lid dct data ibs)
    (sp0 rest : Bytes) (hsp0 : DerivesSpace sp0) (len : ObjId → Option Int) (expected : Option ObjId) (base : Nat)
    (hres : len lid = some (data.length : Int)) (hexp : ∀ e, expected = some e → e = id) :
    pIndirect len expected base (sp0 ++ (ibs ++ rest)) =
      some (id, .plain (.stream (dct.set LENGTH (.int data.length)) data)) := by
  match h with
  | .mk d n g ln lg es d1 sp1 d2 sp2 sp3 sp ebs sp5 bl e data e' sp6 h1 hn hs1 h2 hg hs2 hsp3 hsp hes hd hsp5 hbl he
      hlen he' hsp6 =>
    have he2 : IsStreamEol e := by cases he; exact .lf; exact .crlf
    have he3 : IsOptEol e' := by cases he' with | none => exact .none | some _ h => exact .some _ h
    have := indirect_stream_ref_complete n g sp0 d1 sp1 d2 sp2 sp3 sp sp5 bl e data e'
      (sp6 ++ ([101, 110, 100, 111, 98, 106] ++ rest)) len expected base hsp0 h1 hn ⟨hs1.1, hs1.2⟩
      h2 hg ⟨hs2.1, hs2.2⟩ hsp3 hsp hes hd hsp5 hbl he2 ln lg hlen hres he3 hexp
    simpa [OBJ_KW, STREAM_KW, ENDSTREAM_KW, streamSpelling] using this

/-- the reader resolves an indirect `Length` that the cross-reference map binds and the file
defines as an integer object -/
theorem lengthOf_defined (file : Bytes) (x : XTable) (f : Nat) (lid : ObjId) (loff : Nat) (n : Int)
    (hx : x.get lid.1 = some (.normal loff lid.2)) (hdef : DefinesAt file loff lid.1 lid.2 (.int n)) :
    lengthOf file x (f + 1) [] lid = some n := by
  obtain ⟨h2, sp', ibs, rest, h3, h4, h5, _⟩ := hdef
  have hp := indirect_any h5 sp' rest h4 (lengthOf file x f [lid]) (some lid) loff
    (by intro e he; injection he with he; rw [← he])
  have hle : ¬ (loff > file.length) := by omega
  unfold lengthOf
  simp only [List.contains_nil, Bool.false_eq_true, if_false, hx, ne_eq, not_true_eq_false, hle, h3, hp]

theorem entryOk_of_binding (file : Bytes) (x : XTable) (f : Nat) (val : Nat → Nat × Obj)
    (cont : Nat → List (Nat × Obj)) (k : Nat)
    (e : XEntry) (h : BindingDefined file x val cont k e) :
    EntryOk file (lengthOf file x (f + 1) []) val cont (k, e) := by
  cases e with
  | compressed c i => simp [EntryOk]
  | normal off g =>
    simp only [BindingDefined] at h
    obtain ⟨hg, hkind⟩ := h
    simp only [EntryOk]
    rcases hkind with ⟨⟨h2, sp', ibs, rest, h3, h4, h5, h6⟩, hc⟩ |
      ⟨dct, content, hv, h2, sp', ibs, rest, first, nval, h3, h4, h5, hty, hfl, hfi, hn, hos, hne, hnd⟩ |
      ⟨lid, loff, dct, data, hv, ⟨h2, sp', ibs, rest, h3, h4, h5⟩, hx, hld, hno, hc⟩
    · refine ⟨hg, h2, ?_, Or.inl ⟨h6, hc⟩⟩
      rw [h3]
      exact indirect_any h5 sp' rest h4 _ none off (by intro e he; cases he)
    · refine ⟨hg, h2, ?_, Or.inr ⟨dct, content, hv, ?_, ?_, hne⟩⟩
      · rw [h3, hv]
        exact indirect_any h5 sp' rest h4 _ none off (by intro e he; cases he)
      · have : Dict.get dct TYPE = some (Obj.name OBJSTM) := hty
        simp [Dict.getTypeIs, this, Obj.asName]
      · exact objStmObjects_complete hos dct nval (by simp [Dict.has, FILTER, hfl]) hfi hn hne hnd
    · refine ⟨hg, h2, ?_, Or.inl ⟨hno, hc⟩⟩
      rw [h3, hv]
      exact indirectRef_any h5 sp' rest h4 _ none off (lengthOf_defined file x f lid loff _ hx hld)
        (by intro e he; cases he)

/-- **Whole files with object streams (cross-reference-stream style, one revision), every
spelling.**  As `loadDoc_complete_stream`, and now the rows may be of type 2: every type-1 binding
is defined by the file at its offset, either as an ordinary object (`DefinesAt`) or as an
object-stream container (`DefinesContainerAt`: unfiltered `/ObjStm` whose content derives from the
object-stream grammar, members `cont k`); every member of a container is listed by a type-2 row
naming that container.  Then `Reader::read` succeeds and the document contains EXACTLY
(`definedObject`): under `(k, g)` the object a type-1 row defines, under `(k, 0)` the member
numbered `k` of the container a type-2 row names — and nothing else. -/
theorem loadDoc_complete_objstm {id : ObjId} {ibs : Bytes} (ver e0 body : Bytes) (dct : Dict) (size : Int)
    (w1 w2 w3 : Nat) (subs : List SSub) (sp7 e1 s1 ds s2 e2 post : Bytes) (val : Nat → Nat × Obj)
    (cont : Nat → List (Nat × Obj))
    (hv : ∀ b ∈ ver, b < 128 ∧ notEol b = true) (he0 : IsEol e0)
    (hX : DerivesIndirect id (.stream dct (encodeSubs w1 w2 w3 subs)) ibs)
    (hF : dct.has FILTER = false) (hS : dct.get SIZE = some (.int size))
    (hW : dct.get W_KEY = some (.arr [.int w1, .int w2, .int w3])) (hI : IndexDenotes dct size subs)
    (hok : SubsOk w1 w2 w3 subs) (hrows : 0 < totalRows subs) (hwid : 0 < w1 + w2 + w3)
    (hprev : (((dct.remove LENGTH).remove W_KEY).remove INDEX).get PREV = none)
    (henc : (((dct.remove LENGTH).remove W_KEY).remove INDEX).get ENCRYPT = none)
    (he1 : IsEol e1) (hs1 : AllSp s1) (hds : DerivesNat (PDF_KW ++ (ver ++ (e0 ++ body))).length ds)
    (hs2 : AllSp s2) (he2 : IsEol e2) (hpost : IsFileEnd post)
    (hshort : (STARTXREF ++ (e1 ++ (s1 ++ (ds ++ (s2 ++ e2))))).length ≤ 25)
    (hmax : (streamTableOf subs).maxId + 1 < 4294967296)
    (file : Bytes)
    (hfile : file = (PDF_KW ++ (ver ++ (e0 ++ body))) ++ (ibs ++ (sp7 ++ (STARTXREF ++ (e1 ++ (s1 ++ (ds ++
      (s2 ++ (e2 ++ (EOF_MARK ++ post))))))))))
    (hdef : ∀ k e, (streamTableOf subs).get k = some e → BindingDefined file (streamTableOf subs) val cont k e)
    (hcont : ∀ k, (∀ off g, (streamTableOf subs).get k ≠ some (.normal off g)) → cont k = [])
    (hlisted : ∀ k, ∀ p ∈ cont k, ∃ i, (streamTableOf subs).get p.1 = some (.compressed k i)) :
    ∃ L, loadDoc file = .ok L ∧ L.version = ver ∧
      L.trailer = ((dct.remove LENGTH).remove W_KEY).remove INDEX ∧
      L.xrefStart = (PDF_KW ++ (ver ++ (e0 ++ body))).length ∧ L.maxId = (streamTableOf subs).maxId ∧
      ∀ id : ObjId, L.objects.get id = definedObject (streamTableOf subs) val cont id := by
  obtain ⟨g0, g1, g2, g2', g3⟩ := streamFile_parts ver e0 body dct size w1 w2 w3 subs sp7 e1 s1 ds s2 e2 post hv he0 hX
    hF hS hW hI hok hrows hwid he1 hs1 hds hs2 he2 hpost hshort file hfile
  exact loadDoc_of_defined_objstm file ver _ _ _ _ val cont g0 g1 g2 g2' g3 hprev henc hmax
    (fun k e hke => entryOk_of_binding file _ _ val cont k e (hdef k e hke)) hcont hlisted

end Lopdf.Grammar
