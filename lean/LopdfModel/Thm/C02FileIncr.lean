import LopdfModel.Thm.C02FileObjStm
import LopdfModel.Thm.FilePrev
/-
  C02 — WHOLE FILES with an INCREMENTAL UPDATE (table style, two revisions): a base file followed
  by an appended revision whose trailer names the base's cross-reference section by `Prev`.
  Every object number loads to its NEWEST definition: the entry of the appended section if it has
  one, else the entry of the base section.
-/
namespace Lopdf.Grammar
open Lopdf Gen

/-- the newest in-use entry of a number over two sections (appended section first) -/
def newestEntry (x2 x1 : XTable) (k : Nat) : Option XEntry := (x2.get k).orElse fun _ => x1.get k

theorem mergeChain2_get (x2 x1 : XTable) (k : Nat) : (mergeChain [x2, x1]).get k = newestEntry x2 x1 k := by
  rw [chain_latest_wins]
  simp only [List.findSome?_cons, List.findSome?_nil, newestEntry]
  cases x2.get k <;> cases x1.get k <;> rfl

/-- **Whole files, two revisions (table style), every spelling.**
The file: header, ANY body, the base cross-reference table `xb1` and its trailer (integer `Size`,
no `Prev`), ANY bytes `mid` that start with a token (the base's `startxref` section and the new
objects), the appended table `xb2` and its trailer (integer `Size`, `Prev` = the offset of `xb1`,
no `XRefStm`, no `Encrypt`), the final `startxref` section stating the offset of `xb2`.
If every number bound by the MERGED map (`newestEntry`: the appended section's entry, else the
base section's) is defined by the file at the bound offset, `Reader::read` succeeds with the
appended trailer without `Prev`, and EXACTLY the objects of the newest definitions.
(An entry marked FREE in the appended section does not remove the base section's entry: lopdf
ignores free entries — an object that a later revision marks free is therefore still loaded from the older one; entries that free an object are outside C02's claimed domain, the behaviour is recorded as an observation in the C02 evidence.) -/
theorem loadDoc_complete_two_revisions {d1 : Nat} {es1 : List (Bytes × Obj)} {ebs1 : Bytes}
    {d2 : Nat} {es2 : List (Bytes × Obj)} {ebs2 : Bytes}
    (ver e0 body : Bytes) (secs1 : List TSub) (xb1 sp01 spd1 sp11 mid : Bytes) (size1 : Int)
    (secs2 : List TSub) (xb2 sp02 spd2 sp12 e1 s1 ds s2 e2 post : Bytes) (size2 : Int)
    (val : Nat → Nat × Obj) (cont : Nat → List (Nat × Obj))
    (hv : ∀ b ∈ ver, b < 128 ∧ notEol b = true) (he0 : IsEol e0)
    -- the base section
    (hx1 : DerivesXrefTable secs1 xb1) (hsp01 : DerivesSpace sp01) (hspd1 : DerivesSpace spd1)
    (hes1 : DerivesEntries d1 es1 ebs1) (hd1 : 1 + d1 ≤ MAX_NESTING) (hsp11 : DerivesSpace sp11)
    (hsize1 : (setEntries [] es1).get SIZE = some (.int size1)) (hprev1 : (setEntries [] es1).get PREV = none)
    (hmid : SpaceStop mid) (hmidne : mid ≠ [])
    -- the appended section
    (hx2 : DerivesXrefTable secs2 xb2) (hsp02 : DerivesSpace sp02) (hspd2 : DerivesSpace spd2)
    (hes2 : DerivesEntries d2 es2 ebs2) (hd2 : 1 + d2 ≤ MAX_NESTING) (hsp12 : DerivesSpace sp12)
    (hsize2 : (setEntries [] es2).get SIZE = some (.int size2))
    (hprev2 : (setEntries [] es2).get PREV = some (.int (PDF_KW ++ (ver ++ (e0 ++ body))).length))
    (hstm : ((setEntries [] es2).remove PREV).get XREFSTM = none)
    (henc : ((setEntries [] es2).remove PREV).get ENCRYPT = none)
    -- the final startxref section
    (he1 : IsEol e1) (hs1 : AllSp s1) (hs2 : AllSp s2) (he2 : IsEol e2) (hpost : IsFileEnd post)
    (hshort : (STARTXREF ++ (e1 ++ (s1 ++ (ds ++ (s2 ++ e2))))).length ≤ 25)
    (hds : DerivesNat ((PDF_KW ++ (ver ++ (e0 ++ body))) ++ (xb1 ++ (TRAILER_KW ++ (sp01 ++
      ((60 :: 60 :: spd1 ++ ebs1 ++ [62, 62]) ++ (sp11 ++ mid)))))).length ds)
    (hmax : (mergeChain [tableOf secs2, tableOf secs1]).maxId + 1 < 4294967296)
    (file : Bytes)
    (hfile : file = (PDF_KW ++ (ver ++ (e0 ++ body))) ++ (xb1 ++ (TRAILER_KW ++ (sp01 ++
      ((60 :: 60 :: spd1 ++ ebs1 ++ [62, 62]) ++ (sp11 ++ (mid ++ (xb2 ++ (TRAILER_KW ++ (sp02 ++
        ((60 :: 60 :: spd2 ++ ebs2 ++ [62, 62]) ++ (sp12 ++ (STARTXREF ++ (e1 ++ (s1 ++ (ds ++ (s2 ++ (e2 ++
          (EOF_MARK ++ post)))))))))))))))))))
    (hdef : ∀ k e, newestEntry (tableOf secs2) (tableOf secs1) k = some e →
      BindingDefined file (mergeChain [tableOf secs2, tableOf secs1]) val cont k e)
    (hcont : ∀ k, (∀ off g, newestEntry (tableOf secs2) (tableOf secs1) k ≠ some (.normal off g)) → cont k = [])
    (hlisted : ∀ k, ∀ p ∈ cont k, ∃ i, newestEntry (tableOf secs2) (tableOf secs1) p.1 = some (.compressed k i)) :
    ∃ L, loadDoc file = .ok L ∧ L.version = ver ∧ L.trailer = (setEntries [] es2).remove PREV ∧
      (∀ id : ObjId, L.objects.get id =
        match newestEntry (tableOf secs2) (tableOf secs1) id.1 with
        | some (.normal _ _) => if id.2 = (val id.1).1 then some (val id.1).2 else none
        | some (.compressed c _) => if id.2 = 0 then lookupMember (cont c) id.1 else none
        | none => none) := by
  -- shapes of the file
  have hlenX : ((PDF_KW ++ (ver ++ (e0 ++ body))) ++ (xb1 ++ (TRAILER_KW ++ (sp01 ++
      ((60 :: 60 :: spd1 ++ ebs1 ++ [62, 62]) ++ (sp11 ++ mid)))))).length ≤ I64MAX := by
    obtain ⟨_, hdig, hval⟩ := derivesNat_facts hds
    have hl : ds.length ≤ 15 := by
      have h1 : 1 ≤ e1.length := by cases he1 <;> simp
      have h2 : 1 ≤ e2.length := by cases he2 <;> simp
      simp only [List.length_append, STARTXREF, List.length_cons, List.length_nil] at hshort
      omega
    have hb := digitsVal_lt_pow ds hdig
    rw [hval] at hb
    have : 10 ^ ds.length ≤ 10 ^ 15 := Nat.pow_le_pow_right (by decide) hl
    simp only [I64MAX]; omega
  have hfileA : file = ((PDF_KW ++ (ver ++ (e0 ++ body))) ++ (xb1 ++ (TRAILER_KW ++ (sp01 ++
      ((60 :: 60 :: spd1 ++ ebs1 ++ [62, 62]) ++ (sp11 ++ mid)))))) ++ (xb2 ++ (TRAILER_KW ++ (sp02 ++
        ((60 :: 60 :: spd2 ++ ebs2 ++ [62, 62]) ++ (sp12 ++ (STARTXREF ++ (e1 ++ (s1 ++ (ds ++ (s2 ++ (e2 ++
          (EOF_MARK ++ post)))))))))))) := by rw [hfile]; simp
  have hfileB : file = (((PDF_KW ++ (ver ++ (e0 ++ body))) ++ (xb1 ++ (TRAILER_KW ++ (sp01 ++
      ((60 :: 60 :: spd1 ++ ebs1 ++ [62, 62]) ++ (sp11 ++ mid)))))) ++ (xb2 ++ (TRAILER_KW ++ (sp02 ++
        ((60 :: 60 :: spd2 ++ ebs2 ++ [62, 62]) ++ sp12))))) ++ (STARTXREF ++ (e1 ++ (s1 ++ (ds ++ (s2 ++ (e2 ++
          (EOF_MARK ++ post))))))) := by rw [hfile]; simp
  have hfileC : file = PDF_KW ++ (ver ++ (e0 ++ (body ++ (xb1 ++ (TRAILER_KW ++ (sp01 ++
      ((60 :: 60 :: spd1 ++ ebs1 ++ [62, 62]) ++ (sp11 ++ (mid ++ (xb2 ++ (TRAILER_KW ++ (sp02 ++
        ((60 :: 60 :: spd2 ++ ebs2 ++ [62, 62]) ++ (sp12 ++ (STARTXREF ++ (e1 ++ (s1 ++ (ds ++ (s2 ++ (e2 ++
          (EOF_MARK ++ post))))))))))))))))))))) := by rw [hfile]; simp
  have hlong : 25 < ((((PDF_KW ++ (ver ++ (e0 ++ body))) ++ (xb1 ++ (TRAILER_KW ++ (sp01 ++
      ((60 :: 60 :: spd1 ++ ebs1 ++ [62, 62]) ++ (sp11 ++ mid)))))) ++ (xb2 ++ (TRAILER_KW ++ (sp02 ++
        ((60 :: 60 :: spd2 ++ ebs2 ++ [62, 62]) ++ sp12))))) ++ (STARTXREF ++ (e1 ++ (s1 ++ (ds ++ (s2 ++ e2)))))).length := by
    simp only [List.length_append, PDF_KW, TRAILER_KW, STARTXREF, List.length_cons, List.length_nil]
    omega
  have g0 : findFrom PDF_KW (file.length + 1) file 0 = some 0 := by
    rw [hfileC]; exact findFrom_prefix PDF_KW _ (by decide)
  have g1 : pHeader file = some ver := by rw [hfileC]; exact header_complete ver e0 _ hv he0
  have g2 := by
    have := getXrefStart_complete _ _ e1 s1 ds s2 e2 post he1 hs1 hds hlenX hs2 he2 hpost hshort hlong
    rw [← hfileB] at this
    exact this
  have g2' : ((PDF_KW ++ (ver ++ (e0 ++ body))) ++ (xb1 ++ (TRAILER_KW ++ (sp01 ++
      ((60 :: 60 :: spd1 ++ ebs1 ++ [62, 62]) ++ (sp11 ++ mid)))))).length ≤ file.length := by
    rw [hfileA]; simp only [List.length_append]; omega
  have g3 : xrefAndTrailer (file.drop ((PDF_KW ++ (ver ++ (e0 ++ body))) ++ (xb1 ++ (TRAILER_KW ++ (sp01 ++
      ((60 :: 60 :: spd1 ++ ebs1 ++ [62, 62]) ++ (sp11 ++ mid)))))).length) =
      .ok (tableOf secs2, (size2 % (U32 : Int)).toNat, setEntries [] es2) := by
    rw [hfileA, List.drop_left]
    exact xrefAndTrailer_complete secs2 xb2 sp02 spd2 sp12 _ size2 hx2 hsp02 hspd2 hes2 hd2 hsp12
      (by intro b r e; injection e with e _; subst e; decide) hsize2
  -- the Prev walk
  have hbase : xrefAndTrailer (file.drop (PDF_KW ++ (ver ++ (e0 ++ body))).length) =
      .ok (tableOf secs1, (size1 % (U32 : Int)).toNat, setEntries [] es1) := by
    rw [hfile, List.drop_left]
    exact xrefAndTrailer_complete secs1 xb1 sp01 spd1 sp11 _ size1 hx1 hsp01 hspd1 hes1 hd1 hsp11
      (by
        cases mid with
        | nil => exact absurd rfl hmidne
        | cons c r => intro b r' e; simp only [List.cons_append] at e; injection e with e _; subst e; exact hmid _ r rfl)
      hsize1
  have hplen : (PDF_KW ++ (ver ++ (e0 ++ body))).length ≤ file.length := by
    rw [hfile]; simp only [List.length_append]; omega
  have hchain : FileRT.ChainOk file ((setEntries [] es2).get PREV) []
      [(((PDF_KW ++ (ver ++ (e0 ++ body))).length : Int), tableOf secs1, setEntries [] es1)] := by
    refine ⟨by rw [hprev2]; rfl, by simp, Int.natCast_nonneg _, by rw [Int.toNat_natCast]; exact hplen,
      ⟨_, by rw [Int.toNat_natCast]; exact hbase⟩, ?_⟩
    rw [hprev1]; simp [FileRT.ChainOk]
  have g4 := (FileRT.prevLoop_chain file ((setEntries [] es2).remove PREV) hstm _ _ [] (tableOf secs2) hchain).1
  simp only [List.map_cons, List.map_nil] at g4
  -- the objects
  obtain ⟨L, h1, h2, h3, _, _, h6⟩ := loadDoc_of_defined_gen file ver _ (tableOf secs2) _ (setEntries [] es2)
    (mergeChain [tableOf secs2, tableOf secs1]) ((setEntries [] es2).remove PREV) val cont g0 g1 g2 g2' g3 g4 henc hmax
    (fun k e hke => entryOk_of_binding file _ _ val cont k e (hdef k e (by rw [← mergeChain2_get]; exact hke)))
    (fun k hk => hcont k (fun off g h => hk off g (by rw [mergeChain2_get]; exact h)))
    (fun k p hp => by obtain ⟨i, hi⟩ := hlisted k p hp; exact ⟨i, by rw [mergeChain2_get]; exact hi⟩)
  refine ⟨L, h1, h2, h3, ?_⟩
  intro id
  rw [h6, definedObject, mergeChain2_get]
  generalize newestEntry (tableOf secs2) (tableOf secs1) id.fst = e
  cases e with
  | none => rfl
  | some e => cases e <;> rfl

end Lopdf.Grammar
