import LopdfModel.Model.Read
/-
  C02 — the skeleton of `Reader::read` for a single-revision file without object streams and
  without encryption: when the pieces of the file are read as stated (header, `startxref`,
  cross-reference section + trailer, every listed object), `loadDoc` returns the document made of
  exactly these pieces.  (The pieces are discharged from the file grammar in Thm/C02File.lean.)
-/
namespace Lopdf.Grammar
open Lopdf Gen

/-- the object of a fully loaded entry -/
def unplain : LObj → Obj
  | .plain o => o
  | .pending d _ => .stream d []

def AllPlain (os : LObjects) : Prop := ∀ p ∈ os, ∃ o, p.2 = .plain o

/-- `BTreeMap<ObjectId, Object>` from the loaded pairs -/
def asObjects (l : List (ObjId × Obj)) : Objects :=
  l.foldr (fun (p : ObjId × Obj) acc => insertSortedO p.1 p.2 acc) []

theorem idxOf_none (d : Dict) (k : Bytes) (h : d.get k = none) : d.idxOf k = none := by
  induction d with
  | nil => rfl
  | cons p rest ih =>
    obtain ⟨k', v⟩ := p
    by_cases hk : k' = k
    · simp [Dict.get, hk] at h
    · simp only [Dict.get, hk, if_false] at h
      simp [Dict.idxOf, hk, ih h]

theorem remove_absent (d : Dict) (k : Bytes) (h : d.get k = none) : d.remove k = d := by
  simp [Dict.remove, idxOf_none d k h]

theorem mergeBlocksX_nil (x : XTable) (os : LObjects) : mergeBlocksX x os [] = os := by
  simp [mergeBlocksX, sortBlocks, mergeBlocks]

/-- the binary mark `Reader::read` records (second line of the file when it is a comment of
bytes ≥ 128) -/
def markOf (buf : Bytes) : Bytes :=
  match findFrom [10] (buf.length + 1) buf 0 with
  | some pos =>
    (match pBinaryMark (buf.drop (pos + 1)) with
     | some m => if m.all (fun b => b ≥ 128) then m else DEFAULT_MARK
     | none => DEFAULT_MARK)
  | none => DEFAULT_MARK

theorem pendingIds_allPlain (os : LObjects) (h : AllPlain os) : pendingIds os = [] := by
  unfold pendingIds
  rw [List.filterMap_eq_nil_iff]
  intro p hp
  obtain ⟨o, ho⟩ := h p hp
  simp [ho]

theorem loadDocWith_of_parts (arr : List Block → List Block) (arr2 : List ObjId → List ObjId) (file version : Bytes) (xs : Nat)
    (x0 : XTable) (size0 : Nat) (tr0 : Dict) (os : LObjects)
    (h0 : findFrom PDF_KW (file.length + 1) file 0 = some 0)
    (h1 : pHeader file = some version)
    (h2 : getXrefStart file = some xs) (h2' : xs ≤ file.length)
    (h3 : xrefAndTrailer (file.drop xs) = .ok (x0, size0, tr0))
    (h4 : tr0.get PREV = none) (h5 : x0.maxId + 1 < U32) (h6 : tr0.has ENCRYPT = false)
    (h7 : x0.sorted.foldl (loadStep file x0 x0.sorted.length) (.ok ([], [])) = .ok (os, []))
    (h8 : arr [] = []) (h8' : arr2 [] = []) (h9 : AllPlain os) :
    ∃ mark, loadDocWith arr arr2 file =
      .ok (Loaded.mk version mark tr0 (asObjects (os.map fun p => (p.1, unplain p.2))) x0.maxId xs) := by
  have hprev : prevLoop file (file.length + 2) none [] x0 tr0 = .ok (x0, tr0) := by
    simp [prevLoop]
  have hx : ¬ (xs > file.length) := by omega
  have hm : ¬ (x0.maxId + 1 ≥ U32) := by omega
  refine ⟨markOf file, ?_⟩
  unfold loadDocWith
  simp only [h0, List.drop_zero, h1, h2, hx, if_false, h3, h4, remove_absent tr0 PREV h4, hprev, hm, h6,
    Bool.false_eq_true, h7, h8, mergeBlocksX_nil, Nat.add_sub_cancel, pendingIds_allPlain os h9, h8', List.foldl_nil]
  have hmap : ∀ (F : ObjId × LObj → ObjId × Obj), (∀ p ∈ os, F p = (p.1, unplain p.2)) →
      os.map F = os.map fun p => (p.1, unplain p.2) := fun F hF => List.map_congr_left hF
  rw [hmap _ (by
    intro p hp
    obtain ⟨o, ho⟩ := h9 p hp
    simp only [ho]
    cases o <;> simp [unplain])]
  rfl

end Lopdf.Grammar
