import LopdfModel.Thm.FileRt
/-
  Normal forms (real numbers) for the cross-reference-stream dictionary: the facts the readers
  need about `normD (streamTrailer pre d)` when the document's trailer contains real numbers.
-/
namespace Lopdf.FileRT
open Lopdf Gen Lopdf.ObjRt

/-- the cross-reference stream object a stream-style save appends to `pre` -/
def xrefObjP (pre : Bytes) (d : SDoc) : Obj :=
  .stream (streamTrailer pre d) (xrefStreamContent (streamSecs (xmapStream pre d) (d.maxId + 1)))

theorem xrefObj_eq (d : SDoc) : xrefObj d = xrefObjP [] d := rfl

/-- a value is fine for the normal-form theorems (reals allowed) -/
def ValOKN (o : Obj) : Prop := WF (fun _ => True) o ∧ height o ≤ MAX_NESTING - 1

theorem streamTrailer_values_okN (pre : Bytes) (d : SDoc) (hmax : d.maxId + 2 ≤ 4294967295) (hg : GensOk d)
    (hlen : (xrefStreamContent (streamSecs (xmapStream pre d) (d.maxId + 1))).length ≤ 4294967296)
    (htr : ∀ p ∈ d.trailer, ValOKN p.2) : ∀ p ∈ streamTrailer pre d, ValOKN p.2 := by
  intro p hp
  unfold streamTrailer at hp
  simp only at hp
  have hint : ∀ n : Nat, n ≤ 4294967296 → ValOKN (.int (n : Int)) := fun n hn => ⟨(int_ok n hn).1, (int_ok n hn).2.1⟩
  have harr : ∀ l : List Obj, (∀ o ∈ l, ∃ n : Nat, o = .int (n : Int) ∧ n ≤ 4294967296) → ValOKN (.arr l) :=
    fun l h => ⟨(intArr_ok l h).1, (intArr_ok l h).2.1⟩
  rcases Dict_mem_set _ _ _ _ hp with hp | hp
  · have hp := Dict_mem_remove _ _ _ hp
    rcases Dict_mem_set _ _ _ _ hp with hp | hp
    · rcases Dict_mem_set _ _ _ _ hp with hp | hp
      · rcases Dict_mem_set _ _ _ _ hp with hp | hp
        · rcases Dict_mem_set _ _ _ _ hp with hp | hp
          · exact htr p hp
          · subst hp; exact ⟨by simp [WF], by simp [height]⟩
        · subst hp
          have := hint (d.maxId + 1 + 1) (by omega)
          simpa using this
      · subst hp
        apply harr
        intro o ho
        simp [XREF_W] at ho
        rcases ho with h | h | h <;> subst h
        · exact ⟨1, rfl, by omega⟩
        · exact ⟨4, rfl, by omega⟩
        · exact ⟨2, rfl, by omega⟩
    · subst hp
      apply harr
      intro o ho
      simp only [xrefStreamIndex, List.mem_flatten, List.mem_map] at ho
      obtain ⟨l, ⟨sec, hsec, rfl⟩, ho⟩ := ho
      obtain ⟨hb, _⟩ := streamSecs_ok (xmapStream pre d) (d.maxId + 1) (xmapStream_ok pre d hg) (by omega) sec hsec
      simp only [List.mem_cons, List.mem_nil_iff, or_false] at ho
      rcases ho with h | h <;> subst h
      · exact ⟨sec.1, rfl, by omega⟩
      · exact ⟨sec.2.length, rfl, by omega⟩
  · subst hp
    exact hint _ hlen

theorem xrefObjP_okN (pre : Bytes) (d : SDoc) (out : Bytes) (d' : SDoc) (hk : d.xrefKind = .stream)
    (h : saveFrom pre d = some (out, d')) (hlen : out.length < 4294967296) (hmax : d.maxId + 2 ≤ 4294967295)
    (hg : GensOk d) (htr : WFObj (.dict d.trailer) ∧ height (.dict d.trailer) ≤ MAX_NESTING) :
    ObjOKN (xrefObjP pre d) := by
  obtain ⟨hout, _⟩ := saveFrom_stream_eq pre d out d' hk h
  obtain ⟨t1, t2⟩ := htr
  simp only [WFObj, WF] at t1
  have hnd : d.trailer.keys.Nodup := t1.1
  have hclen : (xrefStreamContent (streamSecs (xmapStream pre d) (d.maxId + 1))).length ≤ 4294967296 := by
    have : (xrefStreamContent (streamSecs (xmapStream pre d) (d.maxId + 1))).length ≤ out.length := by
      rw [hout]
      simp only [List.length_append, writeIndirect, writeObj]
      omega
    omega
  have hvals : ∀ p ∈ d.trailer, ValOKN p.2 := by
    intro p hp
    refine ⟨(WFD_iff d.trailer).mp t1.2 p hp, ?_⟩
    simp only [height] at t2
    exact (heightD_le_iff d.trailer (MAX_NESTING - 1)).mp (by omega) p hp
  have hsv := streamTrailer_values_okN pre d hmax hg hclen hvals
  obtain ⟨_, _, _, _, f5⟩ := streamTrailer_facts pre d hnd (.int 0)
  refine ⟨?_, ?_, f5⟩
  · simp only [WFObj, WF]
    exact ⟨streamTrailer_nodup pre d hnd, (WFD_iff _).mpr (fun p hp => (hsv p hp).1)⟩
  · simp only [height]
    have := (heightD_le_iff (streamTrailer pre d) (MAX_NESTING - 1)).mpr (fun p hp => (hsv p hp).2)
    have : 2 ≤ MAX_NESTING := by decide
    omega

theorem norm_intArr (l : List Obj) (h : ∀ o ∈ l, ∃ n : Nat, o = .int (n : Int) ∧ n ≤ 4294967296) :
    norm (.arr l) = .arr l := norm_noReal _ (intArr_ok l h).2.2

/-- the keys the cross-reference machinery reads, in the NORMAL FORM of the stream dictionary -/
theorem normD_streamTrailer_facts (pre : Bytes) (d : SDoc) (hnd : d.trailer.keys.Nodup)
    (hmax : d.maxId + 2 ≤ 4294967295) (hg : GensOk d) :
    Dict.has (normD (streamTrailer pre d)) FILTER = false ∧
    Dict.get (normD (streamTrailer pre d)) SIZE = some (.int ((d.maxId + 1 + 1 : Nat) : Int)) ∧
    Dict.get (normD (streamTrailer pre d)) INDEX = some (xrefStreamIndex (streamSecs (xmapStream pre d) (d.maxId + 1))) ∧
    Dict.get (normD (streamTrailer pre d)) W_KEY = some (.arr (XREF_W.map fun (w : Nat) => Obj.int (Int.ofNat w))) ∧
    Dict.get (normD (streamTrailer pre d)) LENGTH
      = some (.int (xrefStreamContent (streamSecs (xmapStream pre d) (d.maxId + 1))).length) ∧
    Dict.get (normD (streamTrailer pre d)) TYPE = some (.name XREF_NAME) := by
  obtain ⟨f1, f2, f3, f4, f5⟩ := streamTrailer_facts pre d hnd
    (.int (xrefStreamContent (streamSecs (xmapStream pre d) (d.maxId + 1))).length)
  rw [Dict_set_same _ _ _ f5] at f1 f2 f3 f4
  have hidx : norm (xrefStreamIndex (streamSecs (xmapStream pre d) (d.maxId + 1)))
      = xrefStreamIndex (streamSecs (xmapStream pre d) (d.maxId + 1)) := by
    unfold xrefStreamIndex
    apply norm_intArr
    intro o ho
    simp only [List.mem_flatten, List.mem_map] at ho
    obtain ⟨l, ⟨sec, hsec, rfl⟩, ho⟩ := ho
    obtain ⟨hb, _⟩ := streamSecs_ok (xmapStream pre d) (d.maxId + 1) (xmapStream_ok pre d hg) (by omega) sec hsec
    simp only [List.mem_cons, List.mem_nil_iff, or_false] at ho
    rcases ho with h | h <;> subst h
    · exact ⟨sec.1, rfl, by omega⟩
    · exact ⟨sec.2.length, rfl, by omega⟩
  have hw : norm (.arr (XREF_W.map fun (w : Nat) => Obj.int (Int.ofNat w)))
      = .arr (XREF_W.map fun (w : Nat) => Obj.int (Int.ofNat w)) := by
    apply norm_intArr
    intro o ho
    simp [XREF_W] at ho
    rcases ho with h | h | h <;> subst h
    · exact ⟨1, rfl, by omega⟩
    · exact ⟨4, rfl, by omega⟩
    · exact ⟨2, rfl, by omega⟩
  refine ⟨?_, ?_, ?_, ?_, ?_, ?_⟩
  · rw [Dict_has_eq, normD_get]
    have : (Dict.get (streamTrailer pre d) FILTER).isSome = false := f1
    cases hg' : Dict.get (streamTrailer pre d) FILTER with
    | none => rfl
    | some v => rw [hg'] at this; simp at this
  · rw [normD_get, f2]; rfl
  · rw [normD_get, f3]; simp only [Option.map_some, hidx]
  · rw [normD_get, f4]; simp only [Option.map_some, hw]
  · rw [normD_get, f5]; rfl
  · rw [normD_get, streamTrailer_get_type pre d hnd]; rfl

end Lopdf.FileRT
