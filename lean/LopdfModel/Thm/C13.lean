import LopdfModel.Model.Outlines
import LopdfModel.Gen.Tables
/-
  C13 — read-only queries are total on arbitrary object graphs: property theorems.

  Full statement (FALSE of the current code, see the witnesses below):
      every read-only query returns a value or an error on every document.
  What is proved:
  * for every document, the queries that really are total never panic
    (`getObjectMut_total`, `getPageContent_ok`, `getPageResources_total`, `getPageFonts_total`,
    `getPageAnnotations_total`, `getFontEncoding_total`, …; the Option-valued models
    `deref`, `getObject`, `getDictionary`, `catalog`, `getPageContents`, `getEncrypted`,
    `getCryptFilters`, `pageIter` contain no panicking operation at all and terminate by their
    fuel-free definitions);
  * exact panic conditions / `_partial` theorems for the queries that are not total
    (`get_page_images`, `build_outline_result`, `get_named_destinations`, `get_pages`),
    each with a concrete counter-witness;
  * the unguarded walkers diverge on cyclic documents for EVERY fuel.
-/
namespace Lopdf
open Gen

/-! ## dereference / lookup -/

/-- the result of `dereference` is never a reference -/
theorem derefAux_not_ref (os : Objects) : ∀ (n : Nat) (o o' : Obj), derefAux os n o = some o' → o'.isRef = false := by
  intro n
  induction n with
  | zero =>
    intro o o' h
    cases o <;> simp [derefAux] at h <;> try (subst h; rfl)
    split at h <;> simp at h
  | succ n ih =>
    intro o o' h
    cases o <;> simp [derefAux] at h <;> try (subst h; rfl)
    split at h
    · simp at h
    · exact ih _ _ h

/-- `get_object` never returns a reference (the recursion of `build_outline_result` stops after one step) -/
theorem getObject_not_ref (os : Objects) (id : ObjId) (o : Obj) (h : getObject os id = some o) : o.isRef = false := by
  unfold getObject at h
  cases hg : os.get id with
  | none => simp [hg] at h
  | some o0 => simp [hg, deref] at h; exact derefAux_not_ref os _ _ _ h

/-- `dereference` with and without the id agree on the object -/
theorem derefIdAux_snd (os : Objects) : ∀ (n : Nat) (id : Option ObjId) (o : Obj),
    (derefIdAux os n id o).map (·.2) = derefAux os n o := by
  intro n
  induction n with
  | zero =>
    intro id o; cases o <;> simp [derefIdAux, derefAux]
    rename_i a b; cases os.get (a, b) <;> simp
  | succ n ih =>
    intro id o; cases o <;> simp [derefIdAux, derefAux]
    rename_i a b; cases os.get (a, b) <;> simp [ih]

/-- invariant of the reference walk: the id returned with the object is an existing object
holding exactly that object -/
theorem derefIdAux_id (os : Objects) : ∀ (n : Nat) (id : Option ObjId) (o : Obj) (rid : Option ObjId) (o' : Obj),
    (∀ x, id = some x → os.get x = some o) →
    derefIdAux os n id o = some (rid, o') → (∀ x, rid = some x → os.get x = some o') ∧ (rid = none → id = none ∧ o' = o) := by
  intro n
  induction n with
  | zero =>
    intro id o rid o' hinv h
    cases o <;> simp [derefIdAux] at h <;> try (obtain ⟨h1, h2⟩ := h; subst h1; subst h2; exact ⟨hinv, fun h => ⟨h, rfl⟩⟩)
    split at h <;> simp at h
  | succ n ih =>
    intro id o rid o' hinv h
    cases o <;> simp [derefIdAux] at h <;> try (obtain ⟨h1, h2⟩ := h; subst h1; subst h2; exact ⟨hinv, fun h => ⟨h, rfl⟩⟩)
    rename_i a b
    split at h
    · simp at h
    · rename_i o1 hg
      have := ih (some (a, b)) o1 rid o' (by intro x hx; cases hx; exact hg) h
      refine ⟨this.1, ?_⟩
      intro hr; have := (this.2 hr).1; simp at this

/-- **`get_object_mut` is total**: the `unwrap()` on `objects.get_mut(ref_id.unwrap_or(id))` cannot
fail, and the object it returns is the one `get_object` returns. -/
theorem getObjectMut_eq_getObject (os : Objects) (id : ObjId) :
    getObjectMut os id = Outcome.ofOpt (getObject os id) := by
  unfold getObjectMut getObject
  cases hg : os.get id with
  | none => simp [Outcome.ofOpt]
  | some o =>
    simp only [Option.bind_some]
    have hsnd := derefIdAux_snd os DEREF_LIMIT none o
    cases hd : derefId os o with
    | none =>
      unfold derefId at hd; rw [hd] at hsnd; simp at hsnd
      simp [deref, ← hsnd, Outcome.ofOpt]
    | some p =>
      obtain ⟨rid, o'⟩ := p
      unfold derefId at hd; rw [hd] at hsnd; simp at hsnd
      have hinv := derefIdAux_id os DEREF_LIMIT none o rid o' (by intro x hx; cases hx) hd
      simp only [deref, ← hsnd, Outcome.ofOpt]
      cases rid with
      | none =>
        have := (hinv.2 rfl).2; subst this
        simp [hg]
      | some x => simp [hinv.1 x rfl]

theorem getObjectMut_total (os : Objects) (id : ObjId) (s : String) : getObjectMut os id ≠ .panic s := by
  rw [getObjectMut_eq_getObject]; cases getObject os id <;> simp [Outcome.ofOpt]

/-! ## page content, resources, fonts, annotations, font encoding: total on every document -/

/-- `get_page_content` always returns `Ok`, for every document and every behaviour of the filters -/
theorem getPageContent_ok (decomp : Dict → Bytes → Option Bytes) (os : Objects) (pid : ObjId) :
    ∃ b, getPageContent decomp os pid = .ok b := ⟨_, rfl⟩

/-- `get_page_resources` is total: the `Parent` walk is guarded by `already_seen`
(its termination is `collectResources`' own fuel-free definition) and nothing in it can panic -/
theorem getPageResources_total (os : Objects) (pid : ObjId) (s : String) :
    getPageResources os pid ≠ .panic s := by
  unfold getPageResources
  split
  · simp
  · split <;> simp

theorem getPageFonts_total (os : Objects) (pid : ObjId) (s : String) : getPageFonts os pid ≠ .panic s := by
  unfold getPageFonts
  split
  · simp
  · simp
  · rename_i s' h; exact absurd h (getPageResources_total os pid s')

theorem getPageAnnotations_total (os : Objects) (pid : ObjId) (s : String) :
    getPageAnnotations os pid ≠ .panic s := by
  unfold getPageAnnotations
  split
  · simp
  · split
    · split <;> simp
    · simp
    · simp

theorem getFontEncoding_total (os : Objects) (font : Dict) (s : String) : getFontEncoding os font ≠ .panic s := by
  unfold getFontEncoding
  repeat' split
  all_goals simp

/-! ## get_page_images -/

/-- the only panic of the `ColorSpace` match is the unchecked `array[0]` on an empty array -/
theorem imageColorSpace_panic_iff (d : Dict) (s : String) :
    imageColorSpace d = .panic s ↔ d.get K_ColorSpace = some (.arr []) ∧ s = S_IMAGES_CS := by
  unfold imageColorSpace
  split
  · rename_i h; simp [h]; exact eq_comm
  · rename_i h; simp [h]; split <;> simp
  · rename_i h; simp [h]
  · rename_i h1 h2 h3
    simp
    intro h; exact absurd h (h1 )

theorem imageFilters_total (d : Dict) (s : String) : imageFilters d ≠ .panic s := by
  unfold imageFilters; repeat' split
  all_goals simp

theorem imageBpc_total (d : Dict) (s : String) : imageBpc d ≠ .panic s := by
  unfold imageBpc; repeat' split
  all_goals simp

theorem bind_asStream {o : Option Obj} {d : Dict} {c : Bytes} (h : o.bind Obj.asStream = some (d, c)) :
    o = some (.stream d c) := by
  cases o with
  | none => simp at h
  | some x => cases x <;> simp [Obj.asStream] at h; obtain ⟨h1, h2⟩ := h; subst h1; subst h2; rfl

theorem imageOf_panic (os : Objects) (xv : Obj) (s : String) (h : imageOf os xv = .panic s) :
    ∃ (id : ObjId) (d : Dict) (c : Bytes), getObject os id = some (.stream d c) ∧ d.get K_ColorSpace = some (.arr []) := by
  unfold imageOf at h
  repeat' split at h
  all_goals first
    | (simp at h; done)
    | (exfalso; exact imageFilters_total _ _ ‹_›)
    | (exfalso; exact imageBpc_total _ _ ‹_›)
    | exact ⟨_, _, _, bind_asStream ‹_›, ((imageColorSpace_panic_iff _ _).mp ‹_›).1⟩

theorem imagesLoop_panic (os : Objects) : ∀ (l : List (Bytes × Obj)) (s : String), imagesLoop os l = .panic s →
    ∃ (id : ObjId) (d : Dict) (c : Bytes), getObject os id = some (.stream d c) ∧ d.get K_ColorSpace = some (.arr []) := by
  intro l
  induction l with
  | nil => intro s h; simp [imagesLoop] at h
  | cons p rest ih =>
    intro s h
    obtain ⟨k, xv⟩ := p
    unfold imagesLoop at h
    split at h
    · rename_i s' hp; exact imageOf_panic os xv s' hp
    · simp at h
    · exact ih s h
    · cases hr : imagesLoop os rest with
      | ok l => simp [hr, Outcome.map] at h
      | err e => simp [hr, Outcome.map] at h
      | panic s2 => exact ih s2 hr

/-- **C13 for `get_page_images`, partial**: on every document in which no stream that `get_object`
can return binds `ColorSpace` to the empty array, `get_page_images` returns a value or an error
for every page id. (Full statement false: `getPageImages_witness`.) -/
theorem getPageImages_partial (os : Objects)
    (guard : ∀ (id : ObjId) (d : Dict) (c : Bytes), getObject os id = some (.stream d c) → d.get K_ColorSpace ≠ some (.arr []))
    (pid : ObjId) (s : String) : getPageImages os pid ≠ .panic s := by
  intro h
  unfold getPageImages at h
  split at h; · simp at h
  split at h; · simp at h
  split at h; · simp at h
  obtain ⟨id, d, c, h1, h2⟩ := imagesLoop_panic os _ s h
  exact guard id d c h1 h2

/-- witness document of F-C13-a: page 3 with an image XObject whose `ColorSpace` is `[]` -/
def imgWitness : Objects :=
  [((3, 0), .dict [(TYPE, .name PAGE), (K_Resources, .dict [(K_XObject, .dict [([73, 109, 49], .ref 30 0)])])]),
   ((30, 0), .stream [(K_Subtype, .name K_Image), (K_Width, .int 1), (K_Height, .int 1), (K_ColorSpace, .arr [])] [])]

/-- **F-C13-a**: the full statement is false for `get_page_images` -/
theorem getPageImages_witness : getPageImages imgWitness (3, 0) = .panic S_IMAGES_CS := by decide

/-- non-vacuity of the guard: a document with an image whose ColorSpace is `[/DeviceRGB]` -/
example : getPageImages
    [((3, 0), .dict [(K_Resources, .dict [(K_XObject, .dict [([73], .ref 30 0)])])]),
     ((30, 0), .stream [(K_Subtype, .name K_Image), (K_Width, .int 1), (K_Height, .int 2),
        (K_ColorSpace, .arr [.name [82]])] [])] (3, 0)
    = .ok [⟨(30, 0), 1, 2, true, none, 0⟩] := by decide

/-! ## build_outline_result / get_outline / get_outlines -/

/-- the destination `build_outline_result` finally inspects -/
def resolveDest (os : Objects) (dest : Obj) : Option Obj :=
  match dest with
  | .ref a b => getObject os (a, b)
  | d => some d

theorem buildDirect_panic_iff (dest title : Obj) (named : Named) (s : String) :
    buildDirect dest title named = .panic s ↔
      (dest = .arr [] ∧ s = S_OUTLINE_0) ∨ (∃ x, dest = .arr [x] ∧ s = S_OUTLINE_1) := by
  unfold buildDirect
  split
  · split
    · simp; exact eq_comm
    · simp; exact eq_comm
    · simp
  · split <;> simp
  · rename_i h1 h2
    constructor
    · intro h; simp at h
    · rintro (⟨h, _⟩ | ⟨x, h, _⟩) <;> exact (h1 _ h).elim

/-- **exact panic condition of `build_outline_result`** (F-C13-c): it panics iff the destination,
after following a reference, is an array with fewer than two elements -/
theorem buildOutlineResult_panic_iff (os : Objects) (dest title : Obj) (named : Named) :
    (∃ s, buildOutlineResult os dest title named = .panic s) ↔
      ∃ a, resolveDest os dest = some (.arr a) ∧ a.length < 2 := by
  have key : ∀ d : Obj, (∃ s, buildDirect d title named = .panic s) ↔ ∃ a, d = .arr a ∧ a.length < 2 := by
    intro d
    constructor
    · rintro ⟨s, h⟩
      rcases (buildDirect_panic_iff d title named s).mp h with ⟨h1, _⟩ | ⟨x, h1, _⟩
      · exact ⟨[], h1, by simp⟩
      · exact ⟨[x], h1, by simp⟩
    · rintro ⟨a, h1, h2⟩
      match a, h2 with
      | [], _ => exact ⟨_, (buildDirect_panic_iff d title named _).mpr (Or.inl ⟨h1, rfl⟩)⟩
      | [x], _ => exact ⟨_, (buildDirect_panic_iff d title named _).mpr (Or.inr ⟨x, h1, rfl⟩)⟩
  unfold buildOutlineResult resolveDest
  split
  · rename_i a b
    cases hg : getObject os (a, b) with
    | none =>
      constructor
      · rintro ⟨s, h⟩; simp at h
      · rintro ⟨a, h, _⟩; simp only [] at h; rw [hg] at h; cases h
    | some d' =>
      show (∃ s, buildDirect d' title named = Outcome.panic s) ↔ _
      rw [key d']; simp [hg]
  · rename_i hnr
    rw [key dest]
    cases dest <;> simp
    exact (hnr _ _ rfl).elim

/-- **partial totality of `build_outline_result`** -/
theorem buildOutlineResult_partial (os : Objects) (dest title : Obj) (named : Named)
    (guard : ∀ a, resolveDest os dest = some (.arr a) → 2 ≤ a.length) (s : String) :
    buildOutlineResult os dest title named ≠ .panic s := by
  intro h
  obtain ⟨a, h1, h2⟩ := (buildOutlineResult_panic_iff os dest title named).mp ⟨s, h⟩
  have := guard a h1; omega

/-- `get_outline` adds no panic of its own: it panics only through `build_outline_result` -/
theorem getOutline_panic (os : Objects) (node : Dict) (named : Named) (s : String)
    (h : getOutline os node named = .panic s) :
    ∃ dest title, buildOutlineResult os dest title named = .panic s := by
  unfold getOutline at h
  repeat' split at h
  all_goals first
    | (simp at h; done)
    | exact ⟨_, _, h⟩

theorem firstStep_no_panic (walk : Dict → List Outline → Named → WalkRes) (os : Objects)
    (hw : ∀ n a m s, walk n a m ≠ some (.panic s)) (node : Dict) (st : List Outline × Named) (s : String) :
    firstStep walk os node st ≠ some (.panic s) := by
  unfold firstStep
  split
  · simp
  · split
    · simp
    · split
      · simp
      · rename_i sub other hne
        intro h; exact hw _ _ _ _ h

theorem nextStep_no_panic (walk : Dict → List Outline → Named → WalkRes) (os : Objects)
    (hw : ∀ n a m s, walk n a m ≠ some (.panic s)) (node : Dict) (r : WalkRes) (s : String)
    (hr : r ≠ some (.panic s)) : nextStep walk os node r ≠ some (.panic s) := by
  unfold nextStep
  split
  · split
    · exact hw _ _ _ _
    · simp
  · exact hr

/-- the walker adds no panic of its own either: if `get_outline` cannot panic on this document,
`get_outlines` (any fuel, any start node) does not panic -/
theorem walkOutlines_no_own_panic (os : Objects)
    (hsafe : ∀ node named s, getOutline os node named ≠ .panic s) :
    ∀ (fuel : Nat) (node : Dict) (acc : List Outline) (named : Named) (s : String),
      walkOutlines os fuel node acc named ≠ some (.panic s) := by
  intro fuel
  induction fuel with
  | zero => intro node acc named s; simp [walkOutlines]
  | succ n ih =>
    intro node acc named s
    unfold walkOutlines
    split
    · rename_i s' hp; exact absurd hp (hsafe _ _ _)
    · exact nextStep_no_panic _ os ih node _ s (firstStep_no_panic _ os ih node _ s)

/-! ### non-termination on cyclic links (F-C13-b, F-C13-b2) -/

def catRef : Dict := [(ROOT, .ref 1 0)]

/-- outline item 11 whose `Next` is itself -/
def nextCycleDoc : Objects :=
  [((1, 0), .dict [(K_Outlines, .ref 10 0)]),
   ((10, 0), .dict [(K_First, .ref 11 0)]),
   ((11, 0), .dict [(K_Title, .str [84] .lit), (K_Next, .ref 11 0)])]

def item11 : Dict := [(K_Title, .str [84] .lit), (K_Next, .ref 11 0)]

theorem nextCycle_walk : ∀ (n : Nat) (acc : List Outline) (named : Named),
    walkOutlines nextCycleDoc n item11 acc named = none := by
  intro n
  induction n with
  | zero => intro acc named; rfl
  | succ n ih =>
    intro acc named
    unfold walkOutlines
    have h1 : getOutline nextCycleDoc item11 named = .err "e" := by rfl
    have h2 : getDictInDict nextCycleDoc item11 K_Next = some item11 := by rfl
    have h3 : Dict.get item11 K_First = none := by rfl
    simp only [h1, firstStep, nextStep, h3, h2]
    exact ih _ _

/-- **F-C13-b**: `get_outlines` (hence `get_toc`) does not terminate on a cyclic `Next` link:
the fuelled model runs out of EVERY fuel. -/
theorem getOutlines_next_cycle_diverges : ∀ n, getOutlines catRef nextCycleDoc n = none := by
  intro n
  unfold getOutlines
  have hc : catalog catRef nextCycleDoc = some [(K_Outlines, .ref 10 0)] := by rfl
  have ho : getDictInDict nextCycleDoc [(K_Outlines, .ref 10 0)] K_Outlines = some [(K_First, .ref 11 0)] := by rfl
  have hf : getDictInDict nextCycleDoc [(K_First, .ref 11 0)] K_First = some item11 := by rfl
  have hd : destTree nextCycleDoc [(K_Outlines, .ref 10 0)] = none := by rfl
  simp only [hc, ho, hf, hd]
  exact nextCycle_walk n [] []

/-- outline item 11 whose `First` is itself -/
def firstCycleDoc : Objects :=
  [((1, 0), .dict [(K_Outlines, .ref 10 0)]),
   ((10, 0), .dict [(K_First, .ref 11 0)]),
   ((11, 0), .dict [(K_Title, .str [84] .lit), (K_First, .ref 11 0)])]

def item11f : Dict := [(K_Title, .str [84] .lit), (K_First, .ref 11 0)]

theorem firstCycle_walk : ∀ (n : Nat) (acc : List Outline) (named : Named),
    walkOutlines firstCycleDoc n item11f acc named = none := by
  intro n
  induction n with
  | zero => intro acc named; rfl
  | succ n ih =>
    intro acc named
    unfold walkOutlines
    have h1 : getOutline firstCycleDoc item11f named = .err "e" := by rfl
    have h3 : Dict.get item11f K_First = some (.ref 11 0) := by rfl
    have h4 : outlineNode firstCycleDoc (.ref 11 0) = some item11f := by rfl
    simp only [h1, firstStep, nextStep, h3, h4, ih]

/-- **F-C13-b2**: unbounded recursion of `get_outlines` on a cyclic `First` link -/
theorem getOutlines_first_cycle_diverges : ∀ n, getOutlines catRef firstCycleDoc n = none := by
  intro n
  unfold getOutlines
  have hc : catalog catRef firstCycleDoc = some [(K_Outlines, .ref 10 0)] := by rfl
  have ho : getDictInDict firstCycleDoc [(K_Outlines, .ref 10 0)] K_Outlines = some [(K_First, .ref 11 0)] := by rfl
  have hf : getDictInDict firstCycleDoc [(K_First, .ref 11 0)] K_First = some item11f := by rfl
  have hd : destTree firstCycleDoc [(K_Outlines, .ref 10 0)] = none := by rfl
  simp only [hc, ho, hf, hd]
  exact firstCycle_walk n [] []

/-- `get_toc` inherits the divergence -/
theorem getToc_next_cycle_diverges (memMax : Nat) : ∀ n, getToc memMax catRef nextCycleDoc n = none := by
  intro n; unfold getToc; rw [getOutlines_next_cycle_diverges]

/-- **F-C13-c witness**: an outline item with `Dest []` -/
theorem getOutlines_dest_empty_panics :
    getOutlines catRef
      [((1, 0), .dict [(K_Outlines, .ref 10 0)]), ((10, 0), .dict [(K_First, .ref 11 0)]),
       ((11, 0), .dict [(K_Title, .str [84] .lit), (K_Dest, .arr [])])] 3 = some (.panic S_OUTLINE_0) := by rfl

theorem getOutlines_dest_short_panics :
    getOutlines catRef
      [((1, 0), .dict [(K_Outlines, .ref 10 0)]), ((10, 0), .dict [(K_First, .ref 11 0)]),
       ((11, 0), .dict [(K_Title, .str [84] .lit), (K_Dest, .arr [.ref 3 0])])] 3 = some (.panic S_OUTLINE_1) := by rfl

/-- non-vacuity: a well-formed two-item outline is walked to the end with little fuel -/
example : (getOutlines catRef
      [((1, 0), .dict [(K_Outlines, .ref 10 0)]), ((10, 0), .dict [(K_First, .ref 11 0)]),
       ((11, 0), .dict [(K_Title, .str [84] .lit), (K_Dest, .arr [.ref 3 0, .name [70]]), (K_Next, .ref 12 0)]),
       ((12, 0), .dict [(K_Title, .str [85] .lit), (K_Dest, .arr [.ref 3 0, .name [70]])])] 3).isSome = true := by rfl

/-! ## get_named_destinations -/

/-- **exact panic condition of the destination insertion** (F-C13-d2, F-C13-d3): the unchecked
`val[0]`, `val[1]` and `key.as_str().unwrap()` -/
theorem insertDest_panic_iff (sIdx sKey : String) (key : Obj) (val : List Obj) (named : Named) (s : String) :
    insertDest sIdx sKey key val named = .panic s ↔
      (val.length < 2 ∧ s = sIdx) ∨ (2 ≤ val.length ∧ key.asStr = none ∧ s = sKey) := by
  unfold insertDest
  split
  · simp; exact eq_comm
  · simp; exact eq_comm
  · rename_i v0 v1 tl
    have hlen : ¬ ((v0 :: v1 :: tl).length < 2) := by simp
    have hlen2 : 2 ≤ (v0 :: v1 :: tl).length := by simp
    split
    · constructor
      · intro h; simp at h
      · rintro (⟨h, _⟩ | ⟨_, h, _⟩)
        · exact absurd h hlen
        · simp [Obj.asStr] at h
    · rename_i hk
      constructor
      · intro h
        refine Or.inr ⟨hlen2, ?_, by simp at h; exact h.symm⟩
        cases key <;> simp [Obj.asStr]
        exact (hk _ _ rfl).elim
      · rintro (⟨h, _⟩ | ⟨_, _, h⟩)
        · exact absurd h hlen
        · simp [h]

/-- the dictionary form panics in addition when `D` is missing (F-C13-d) -/
theorem insertDestFromDict_panic_iff (sD sIdx sKey : String) (key : Obj) (d : Dict) (named : Named) (s : String) :
    insertDestFromDict sD sIdx sKey key d named = .panic s ↔
      (d.get K_D = none ∧ s = sD) ∨
      (∃ val, (d.get K_D).bind Obj.asArr = some val ∧ insertDest sIdx sKey key val named = .panic s) := by
  unfold insertDestFromDict
  split
  · rename_i h; simp [h]; exact eq_comm
  · rename_i dv h
    split
    · rename_i h2; simp [h, h2]
    · rename_i val h2; simp [h, h2]

theorem namesLoop_cons (os : Objects) (key val : Obj) (rest : List Obj) (named : Named) :
    namesLoop os (key :: val :: rest) named =
      match destOfPair os key val named with
      | .ok named' => namesLoop os rest named'
      | .err e => .err e
      | .panic s => .panic s := by
  rw [namesLoop]; cases destOfPair os key val named <;> rfl

/-- the `Names` loop adds no panic of its own: **partial totality** under the guard that no pair
of the array triggers one of the three unchecked operations -/
theorem namesLoop_partial (os : Objects)
    (guard : ∀ key val named s, destOfPair os key val named ≠ .panic s) :
    ∀ (n : Nat) (l : List Obj) (named : Named) (s : String), l.length ≤ n → namesLoop os l named ≠ .panic s := by
  intro n
  induction n with
  | zero => intro l named s hl; cases l <;> simp_all [namesLoop]
  | succ n ih =>
    intro l named s hl
    match l with
    | [] => simp [namesLoop]
    | [_] => simp [namesLoop]
    | key :: val :: rest =>
      rw [namesLoop_cons]
      split
      · exact ih rest _ s (by simp at hl; omega)
      · simp
      · rename_i s' h; exact absurd h (guard _ _ _ _)

/-- tree 15 whose `Kids` contains itself -/
def kidsCycleDoc : Objects := [((15, 0), .dict [(KIDS, .arr [.ref 15 0])])]
def tree15 : Dict := [(KIDS, .arr [.ref 15 0])]

/-- **F-C13-d4**: `get_named_destinations` recurses without bound on a cyclic `Kids` link -/
theorem namedDests_kids_cycle_diverges : ∀ (n : Nat) (named : Named), namedDests kidsCycleDoc n tree15 named = none := by
  intro n
  induction n with
  | zero => intro named; rfl
  | succ n ih =>
    intro named
    unfold namedDests
    have h1 : Dict.get tree15 KIDS = some (.arr [.ref 15 0]) := by rfl
    have h2 : (Obj.ref 15 0).asRef.bind (getDictionary kidsCycleDoc) = some tree15 := by rfl
    simp only [h1, Obj.asArr, List.foldl, h2, ih]

/-- **F-C13-d witness**: a named destination dictionary without `D` -/
theorem namedDests_missing_D_panics :
    namedDests [((31, 0), .dict [([88], .null)])] 2 [(K_Names, .arr [.str [107] .lit, .ref 31 0])] []
      = some (.panic S_DEST_REFDICT_D) := by rfl

/-- **F-C13-d2 witness**: destination array of length 1 -/
theorem namedDests_short_array_panics :
    namedDests [((31, 0), .arr [.ref 3 0])] 2 [(K_Names, .arr [.str [107] .lit, .ref 31 0])] []
      = some (.panic S_DEST_REFARR_IDX) := by rfl

/-- **F-C13-d3 witness**: the key of a pair is not a string -/
theorem namedDests_key_not_string_panics :
    namedDests [] 2 [(K_Names, .arr [.name [107], .dict [(K_D, .arr [.ref 3 0, .name [70]])]])] []
      = some (.panic S_DEST_DICT_KEY) := by rfl

/-- non-vacuity: a well-formed leaf is loaded -/
example : (namedDests [((31, 0), .dict [(K_D, .arr [.ref 3 0, .name [70]])])] 2
    [(K_Names, .arr [.str [107] .lit, .ref 31 0])] []).isSome = true := by rfl

/-! ## get_toc -/

/-- `get_toc` adds no panic of its own: it panics only through `get_outlines` or `get_pages` -/
theorem getToc_panic (memMax : Nat) (trailer : Dict) (os : Objects) (fuel : Nat) (s : String)
    (h : getToc memMax trailer os fuel = some (.panic s)) :
    getOutlines trailer os fuel = some (.panic s) ∨ getPages memMax trailer os = .panic s := by
  unfold getToc at h
  split at h
  · simp at h
  · simp at h
  · rename_i s' h'; simp at h; subst h; exact Or.inl h'
  · split at h
    · simp at h
    · split at h
      · simp at h
      · rename_i s' h'; simp at h; subst h; exact Or.inr h'
      · simp at h

/-! ## decode_text with the one-byte tables -/

/-- `bytes_to_string` does `String::from_utf16(..).expect(..)`: it cannot fail because no cell of
the tables `get_font_encoding` can select is a UTF-16 surrogate (tables regenerated from the source) -/
def noSurrogate (t : List (Option Nat)) : Bool :=
  t.length == 256 && t.all fun c => match c with
    | some v => !(0xD800 ≤ v && v ≤ 0xDFFF)
    | none => true

theorem oneByte_tables_no_surrogate :
    noSurrogate STANDARD_ENCODING = true ∧ noSurrogate MAC_ROMAN_ENCODING = true ∧
    noSurrogate MAC_EXPERT_ENCODING = true ∧ noSurrogate WIN_ANSI_ENCODING = true ∧
    noSurrogate PDF_DOC_ENCODING = true := by
  refine ⟨?_, ?_, ?_, ?_, ?_⟩ <;> decide +kernel

/-! ## get_pages: size_hint and collect -/

/-- a property of iterator states that the iterator's own transitions preserve -/
structure IterInv (cls : Obj → Cls) (Inv : Option (List Obj) → List (List Obj) → Prop) : Prop where
  skip : ∀ kid rest stk, Inv (some (kid :: rest)) stk → Inv (some rest) stk
  down : ∀ kid rest stk ks, Inv (some (kid :: rest)) stk → cls kid = .pages ks →
    stk.length < PAGE_TREE_DEPTH_LIMIT → Inv ks (if rest.isEmpty then stk else rest :: stk)
  popS : ∀ top st, Inv (some []) (top :: st) → Inv (some top) st
  popN : ∀ top st, Inv none (top :: st) → Inv (some top) st

theorem satAdd1_le (n : Nat) : satAdd1 n ≤ n + 1 := by
  unfold satAdd1; split
  · omega
  · rename_i h; simp [USIZE] at *; omega

theorem allocCheck_ok (esz memMax cap C : Nat) (hc : cap ≤ C) (hmem : C * esz ≤ memMax) (hM : memMax ≤ ISIZE_MAX) :
    allocCheck esz memMax cap = .ok () := by
  have : cap * esz ≤ C * esz := Nat.mul_le_mul_right _ hc
  unfold allocCheck
  rw [if_neg (by omega), if_neg (by omega)]

theorem afterYield_ok (hint : Option (List Obj) → List (List Obj) → Nat) (esz memMax H L : Nat)
    (k : Option (List Obj)) (stk : List (List Obj)) (len cap : Nat)
    (hH : hint k stk ≤ H) (hmem : (2 * L + H + 4) * esz ≤ memMax) (hM : memMax ≤ ISIZE_MAX) (hesz : 1 ≤ esz)
    (hlen : len ≤ L) (hcap : cap ≤ 2 * L + H + 4) :
    ∃ cap', afterYield hint esz memMax k stk len cap = .ok cap' ∧ cap' ≤ 2 * L + H + 4 := by
  have hC : 2 * L + H + 4 ≤ ISIZE_MAX := by
    have : (2 * L + H + 4) * 1 ≤ (2 * L + H + 4) * esz := Nat.mul_le_mul_left _ hesz
    omega
  have hU : ISIZE_MAX < USIZE := by decide
  have hs := satAdd1_le (hint k stk)
  unfold afterYield
  split
  · rw [if_neg (by omega)]
    unfold growCap
    split
    · have hc : max 4 (satAdd1 (hint k stk)) ≤ 2 * L + H + 4 := by omega
      dsimp only
      rw [allocCheck_ok esz memMax _ _ hc hmem hM]
      exact ⟨_, rfl, hc⟩
    · rw [if_neg (by omega)]
      have hc : max (max (2 * cap) (len + satAdd1 (hint k stk))) 4 ≤ 2 * L + H + 4 := by
        rename_i h1 h2
        have : len = cap := by omega
        omega
      dsimp only
      rw [allocCheck_ok esz memMax _ _ hc hmem hM]
      exact ⟨_, rfl, hc⟩
  · exact ⟨cap, rfl, hcap⟩

/-- **`get_pages` / `page_iter().collect()`, partial**: if on every iterator state the run can
reach (any transition-closed `Inv`) `size_hint` stays below a bound `H` for which the vector's
final capacity still fits the memory the process can obtain, the collection neither panics nor
aborts. (Full statement false: `getPages_*_witness` — `Count` is attacker-chosen.) -/
theorem runCap_partial (cls : Obj → Cls) (hint : Option (List Obj) → List (List Obj) → Nat)
    (esz memMax H L : Nat) (Inv : Option (List Obj) → List (List Obj) → Prop) (hinv : IterInv cls Inv)
    (hH : ∀ k s, Inv k s → hint k s ≤ H)
    (hmem : (2 * L + H + 4) * esz ≤ memMax) (hM : memMax ≤ ISIZE_MAX) (hesz : 1 ≤ esz) :
    ∀ (k : Option (List Obj)) (stk : List (List Obj)) (lim len cap : Nat),
      Inv k stk → len + lim ≤ L → cap ≤ 2 * L + H + 4 →
      ∀ s, runCap cls hint esz memMax k stk lim len cap ≠ .panic s := by
  intro k stk lim len cap
  fun_induction runCap cls hint esz memMax k stk lim len cap with
  | case1 kid rest stack len cap => intro _ _ _ s; simp
  | case2 kid rest stack limit len cap h hc ih =>
    intro hI hl hcp s; exact ih (hinv.skip _ _ _ hI) (by omega) hcp s
  | case3 kid rest stack limit len cap h id hc s' hay =>
    intro hI hl hcp s
    obtain ⟨c', h1, _⟩ := afterYield_ok hint esz memMax H L (some rest) stack len cap
      (hH _ _ (hinv.skip _ _ _ hI)) hmem hM hesz (by omega) hcp
    rw [h1] at hay; cases hay
  | case4 kid rest stack limit len cap h id hc e hay =>
    intro _ _ _ s; simp
  | case5 kid rest stack limit len cap h id hc cap' hay l hr ih =>
    intro _ _ _ s; simp
  | case6 kid rest stack limit len cap h id hc cap' hay e hr ih =>
    intro _ _ _ s; simp
  | case7 kid rest stack limit len cap h id hc cap' hay s' hr ih =>
    intro hI hl hcp s
    obtain ⟨c', h1, h2⟩ := afterYield_ok hint esz memMax H L (some rest) stack len cap
      (hH _ _ (hinv.skip _ _ _ hI)) hmem hM hesz (by omega) hcp
    rw [h1] at hay; cases hay
    exact absurd hr (ih (hinv.skip _ _ _ hI) (by omega) h2 s')
  | case8 kid rest stack limit len cap h ks hc hd ih =>
    intro hI hl hcp s; exact ih (hinv.down _ _ _ _ hI hc hd) (by omega) hcp s
  | case9 kid rest stack limit len cap h ks hc hd ih =>
    intro hI hl hcp s; exact ih (hinv.skip _ _ _ hI) (by omega) hcp s
  | case10 top st limit len cap ih => intro hI hl hcp s; exact ih (hinv.popS _ _ hI) hl hcp s
  | case11 top st limit len cap ih => intro hI hl hcp s; exact ih (hinv.popN _ _ hI) hl hcp s
  | case12 l len cap => intro _ _ _ s; simp
  | case13 l len cap => intro _ _ _ s; simp

/-- when the collection succeeds, the collected ids are exactly C12's enumeration: the capacity
bookkeeping never changes which pages are found -/
theorem runCap_ok_eq_run (cls : Obj → Cls) (hint : Option (List Obj) → List (List Obj) → Nat) (esz memMax : Nat) :
    ∀ (k : Option (List Obj)) (stk : List (List Obj)) (lim len cap : Nat) (l : List ObjId),
      runCap cls hint esz memMax k stk lim len cap = .ok l → l = run cls k stk lim := by
  intro k stk lim len cap
  fun_induction runCap cls hint esz memMax k stk lim len cap with
  | case1 kid rest stack len cap => intro l h; rw [run]; simp at h; simp [h]
  | case2 kid rest stack limit len cap h hc ih => intro l hl; rw [run]; simp [h, hc]; exact ih l hl
  | case3 kid rest stack limit len cap h id hc s' hay => intro l hl; simp at hl
  | case4 kid rest stack limit len cap h id hc e hay => intro l hl; simp at hl
  | case5 kid rest stack limit len cap h id hc cap' hay l' hr ih =>
    intro l hl; rw [run]; simp [h, hc]; simp at hl; subst hl; simp; exact ih l' hr
  | case6 kid rest stack limit len cap h id hc cap' hay e hr ih => intro l hl; simp at hl
  | case7 kid rest stack limit len cap h id hc cap' hay s' hr ih => intro l hl; simp at hl
  | case8 kid rest stack limit len cap h ks hc hd ih =>
    intro l hl; rw [run]; simp [h, hc, hd]; have := ih l hl; simpa using this
  | case9 kid rest stack limit len cap h ks hc hd ih => intro l hl; rw [run]; simp [h, hc, hd]; exact ih l hl
  | case10 top st limit len cap ih => intro l hl; rw [run]; exact ih l hl
  | case11 top st limit len cap ih => intro l hl; rw [run]; exact ih l hl
  | case12 l len cap => intro l' hl; rw [run]; simp at hl; simp [hl]
  | case13 l len cap => intro l' hl; rw [run]; simp at hl; simp [hl]

/-- `get_pages`, when it returns, returns C12's `page_iter` enumeration -/
theorem getPages_ok_eq_pageIter (memMax : Nat) (trailer : Dict) (os : Objects) (l : List ObjId)
    (h : getPages memMax trailer os = .ok l) : l = pageIter trailer os := by
  unfold getPages collectPages at h
  unfold pageIter
  simp only [pageRoot] at h ⊢
  split at h
  · rename_i pid hp; simp only [hp]; exact runCap_ok_eq_run _ _ _ _ _ _ _ _ _ _ h
  · rename_i hp; simp only [hp]; simp at h; exact h

/-- root `Kids` = [page 3, `Pages` node 20, 21, 22 with the given `Count`s] -/
def countDoc (c1 c2 c3 : Int) : Objects :=
  [((1, 0), .dict [(PAGES, .ref 2 0)]),
   ((2, 0), .dict [(TYPE, .name PAGES), (KIDS, .arr [.ref 3 0, .ref 20 0, .ref 21 0, .ref 22 0])]),
   ((3, 0), .dict [(TYPE, .name PAGE)]),
   ((20, 0), .dict [(TYPE, .name PAGES), (KIDS, .arr []), (K_Count, .int c1)]),
   ((21, 0), .dict [(TYPE, .name PAGES), (KIDS, .arr []), (K_Count, .int c2)]),
   ((22, 0), .dict [(TYPE, .name PAGES), (KIDS, .arr []), (K_Count, .int c3)])]

theorem getPages_first_yield (memMax : Nat) (c1 c2 c3 : Int) (s : String)
    (h : afterYield (sizeHintRaw (countDoc c1 c2 c3)) 12 memMax (some [.ref 20 0, .ref 21 0, .ref 22 0]) [] 0 0 = .panic s) :
    getPages memMax catRef (countDoc c1 c2 c3) = .panic s := by
  have hroot : pageRoot catRef (countDoc c1 c2 c3) = some (2, 0) := by rfl
  have hk : kidsOf (countDoc c1 c2 c3) (2, 0) = some [.ref 3 0, .ref 20 0, .ref 21 0, .ref 22 0] := by rfl
  have hc : classify (countDoc c1 c2 c3) (.ref 3 0) = .page (3, 0) := by rfl
  have hl : (countDoc c1 c2 c3).length = 6 := rfl
  unfold getPages collectPages
  rw [hroot]; simp only []; rw [hk, hl, runCap]
  simp [hc, h]

/-- **F-C13-f**: three `Pages` nodes with `Count` = i64::MAX, i64::MAX, 2: the checked `usize` sum in
`size_hint` overflows -/
theorem getPages_sum_overflow_witness (memMax : Nat) :
    getPages memMax catRef (countDoc (2^63 - 1) (2^63 - 1) 2) = .panic S_SUM := by
  apply getPages_first_yield
  have hh : sizeHintRaw (countDoc (2^63 - 1) (2^63 - 1) 2) (some [.ref 20 0, .ref 21 0, .ref 22 0]) [] = 2 ^ 64 := by decide
  unfold afterYield
  simp only [hh, true_or, if_true]
  rw [if_pos (by decide)]

/-- **F-C13-f2**: `Count` = 2^62: `Vec::with_capacity(Count + 1)` exceeds `isize::MAX` bytes -/
theorem getPages_capacity_witness (memMax : Nat) :
    getPages memMax catRef (countDoc (2^62) 0 0) = .panic S_CAP := by
  apply getPages_first_yield
  have hh : sizeHintRaw (countDoc (2^62) 0 0) (some [.ref 20 0, .ref 21 0, .ref 22 0]) [] = 2 ^ 62 := by decide
  unfold afterYield
  simp only [hh, true_or, if_true]
  rw [if_neg (by decide)]
  unfold growCap allocCheck
  simp only [if_true]
  have : max 4 (satAdd1 (2 ^ 62)) = 2 ^ 62 + 1 := by decide
  rw [this, if_pos (by decide)]

/-- **F-C13-f3**: `Count` = 2^40: a 12 TB allocation; with less memory than that the process aborts -/
theorem getPages_alloc_witness (memMax : Nat) (h : memMax < 2 ^ 40 * 12) :
    getPages memMax catRef (countDoc (2^40) 0 0) = .panic S_ALLOC := by
  apply getPages_first_yield
  have hh : sizeHintRaw (countDoc (2^40) 0 0) (some [.ref 20 0, .ref 21 0, .ref 22 0]) [] = 2 ^ 40 := by decide
  unfold afterYield
  simp only [hh, true_or, if_true]
  rw [if_neg (by decide)]
  unfold growCap allocCheck
  simp only [if_true]
  have : max 4 (satAdd1 (2 ^ 40)) = 2 ^ 40 + 1 := by decide
  rw [this, if_neg (by decide), if_pos (by omega)]

/-! ### instantiation of `runCap_partial` for concrete documents -/

/-- the arrays the iterator can ever hold: some node's `Kids` -/
def IsKidsArr (os : Objects) (A : List Obj) : Prop := ∃ id, kidsOf os id = some A

/-- every list the iterator holds is a suffix of some `Kids` array; the stack respects the depth limit -/
def SuffInv (os : Objects) (k : Option (List Obj)) (stk : List (List Obj)) : Prop :=
  (∀ l, k = some l → ∃ A, IsKidsArr os A ∧ l <:+ A) ∧
  (∀ l ∈ stk, ∃ A, IsKidsArr os A ∧ l <:+ A) ∧ stk.length ≤ PAGE_TREE_DEPTH_LIMIT

theorem classify_pages (os : Objects) (kid : Obj) (ks : Option (List Obj)) (h : classify os kid = .pages ks) :
    ∃ id, ks = kidsOf os id := by
  unfold classify at h
  split at h
  · cases h
  · rename_i id _
    split at h
    · cases h
    · split at h
      · cases h
      · split at h
        · cases h; exact ⟨id, rfl⟩
        · cases h

theorem suffInv_iterInv (os : Objects) : IterInv (classify os) (SuffInv os) where
  skip := by
    intro kid rest stk ⟨h1, h2, h3⟩
    refine ⟨?_, h2, h3⟩
    intro l hl; cases hl
    obtain ⟨A, hA, hs⟩ := h1 _ rfl
    exact ⟨A, hA, (List.suffix_cons kid rest).trans hs⟩
  down := by
    intro kid rest stk ks ⟨h1, h2, h3⟩ hc hd
    obtain ⟨id, hid⟩ := classify_pages os kid ks hc
    refine ⟨?_, ?_, ?_⟩
    · intro l hl; exact ⟨l, ⟨id, by rw [← hid, hl]⟩, List.suffix_refl l⟩
    · intro l hl
      split at hl
      · exact h2 l hl
      · rcases List.mem_cons.mp hl with rfl | hl
        · obtain ⟨A, hA, hs⟩ := h1 _ rfl
          exact ⟨A, hA, (List.suffix_cons kid l).trans hs⟩
        · exact h2 l hl
    · split
      · exact h3
      · simp only [List.length_cons]; omega
  popS := by
    intro top st ⟨_, h2, h3⟩
    refine ⟨?_, fun l hl => h2 l (List.mem_cons_of_mem _ hl), by simp only [List.length_cons] at h3; omega⟩
    intro l hl; cases hl; exact h2 _ List.mem_cons_self
  popN := by
    intro top st ⟨_, h2, h3⟩
    refine ⟨?_, fun l hl => h2 l (List.mem_cons_of_mem _ hl), by simp only [List.length_cons] at h3; omega⟩
    intro l hl; cases hl; exact h2 _ List.mem_cons_self

theorem sum_map_suffix_le (f : Obj → Nat) (l A : List Obj) (h : l <:+ A) : (l.map f).sum ≤ (A.map f).sum := by
  obtain ⟨t, rfl⟩ := h
  simp [List.map_append, List.sum_append]

theorem sum_flatten_le (f : Obj → Nat) (B : Nat) : ∀ (stk : List (List Obj)),
    (∀ l ∈ stk, (l.map f).sum ≤ B) → ((stk.flatten).map f).sum ≤ stk.length * B := by
  intro stk
  induction stk with
  | nil => intro _; simp
  | cons a rest ih =>
    intro h
    have h1 := h a List.mem_cons_self
    have h2 := ih (fun l hl => h l (List.mem_cons_of_mem _ hl))
    simp only [List.flatten_cons, List.map_append, List.sum_append, List.length_cons]
    have : (rest.length + 1) * B = rest.length * B + B := by rw [Nat.add_mul]; simp
    omega

/-- on the states the iterator can reach, `size_hint` is at most (depth limit + 1) × the largest
summed `Count` hint of a single `Kids` array -/
theorem sizeHint_le_of_suffInv (os : Objects) (B0 : Nat)
    (hB : ∀ A, IsKidsArr os A → (A.map (kidCount os)).sum ≤ B0)
    (k : Option (List Obj)) (stk : List (List Obj)) (h : SuffInv os k stk) :
    sizeHintRaw os k stk ≤ (PAGE_TREE_DEPTH_LIMIT + 1) * B0 := by
  obtain ⟨h1, h2, h3⟩ := h
  unfold sizeHintRaw
  simp only [List.map_append, List.sum_append]
  have hk : ((k.getD []).map (kidCount os)).sum ≤ B0 := by
    cases k with
    | none => simp
    | some l =>
      obtain ⟨A, hA, hs⟩ := h1 l rfl
      exact Nat.le_trans (sum_map_suffix_le _ _ _ hs) (hB A hA)
  have hs := sum_flatten_le (kidCount os) B0 stk (by
    intro l hl
    obtain ⟨A, hA, hs⟩ := h2 l hl
    exact Nat.le_trans (sum_map_suffix_le _ _ _ hs) (hB A hA))
  have : stk.length * B0 ≤ PAGE_TREE_DEPTH_LIMIT * B0 := Nat.mul_le_mul_right _ h3
  have e : (PAGE_TREE_DEPTH_LIMIT + 1) * B0 = PAGE_TREE_DEPTH_LIMIT * B0 + B0 := by rw [Nat.add_mul]; simp
  omega

/-- **C13 for `get_pages`, partial, concrete documents**: if in every `Kids` array of the document
the `Count` hints (1 per page / foreign kid, `max(0, Count)` per `Pages` kid) sum to at most `B0`, and
`(2·|objects| + 257·B0 + 4)·12` bytes are available (≤ isize::MAX), then `get_pages` returns — for
documents of every size and shape, cyclic or not. -/
theorem getPages_partial (memMax : Nat) (trailer : Dict) (os : Objects) (B0 : Nat)
    (hB : ∀ A, IsKidsArr os A → (A.map (kidCount os)).sum ≤ B0)
    (hmem : (2 * os.length + (PAGE_TREE_DEPTH_LIMIT + 1) * B0 + 4) * 12 ≤ memMax) (hM : memMax ≤ ISIZE_MAX)
    (s : String) : getPages memMax trailer os ≠ .panic s := by
  unfold getPages collectPages
  split
  · rename_i pid _
    refine runCap_partial (classify os) (sizeHintRaw os) 12 memMax ((PAGE_TREE_DEPTH_LIMIT + 1) * B0) os.length
      (SuffInv os) (suffInv_iterInv os) (sizeHint_le_of_suffInv os B0 hB) hmem hM (by decide)
      (kidsOf os pid) [] os.length 0 0 ?_ (by omega) (by omega) s
    refine ⟨?_, by simp, by simp⟩
    intro l hl; exact ⟨l, ⟨pid, hl⟩, List.suffix_refl l⟩
  · simp

/-- non-vacuity: a one-node tree with a dangling kid meets the guard with `B0 = 1` -/
example : ∀ A, IsKidsArr [((2, 0), .dict [(KIDS, .arr [.ref 3 0])])] A →
    (A.map (kidCount [((2, 0), .dict [(KIDS, .arr [.ref 3 0])])])).sum ≤ 1 := by
  intro A ⟨id, h⟩
  by_cases hid : ((2, 0) : ObjId) = id
  · subst hid
    have : kidsOf [((2, 0), .dict [(KIDS, .arr [.ref 3 0])])] (2, 0) = some [.ref 3 0] := by rfl
    rw [this] at h; cases h; decide
  · simp [kidsOf, getDictionary, getObject, Objects.get, hid] at h

end Lopdf
