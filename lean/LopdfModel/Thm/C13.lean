import LopdfModel.Model.Outlines
import LopdfModel.Thm.C12
import LopdfModel.Gen.Tables
/-
  C13 — read-only queries are total on arbitrary object graphs: property theorems
  (state of the code after the fixes e8b231c, cc9b602, 6000f3a, 79a3229, fc8a978).

  * For EVERY document no read-only query panics: `getObjectMut_total`, `getPageContent_ok`,
    `getPageResources_total`, `getPageFonts_total`, `getPageAnnotations_total`,
    `getFontEncoding_total`, `getPageImages_total`, `buildOutlineResult_total`, `getOutline_total`,
    `namedDests_no_panic`, `getOutlines_no_panic`, `getPages_total` / `getPages_eq_pageIter`,
    `getObjectPage_total`, `getToc_no_panic` (the Option-valued models `deref`, `getObject`,
    `getDictionary`, `catalog`, `getPageContents`, `getEncrypted`, `getCryptFilters`, `pageIter`
    contain no panicking operation and terminate by their fuel-free definitions).
  * `get_pages` allocates at most max(4, 2·pages) elements (`collectPages_capacity`).
  * The `Next` loop of `get_outlines` is defined without fuel (seen_next measure); fuel runs out
    only through nested `First` links (`walkOutlines_none`); a cyclic `Next` is an error
    (`getOutlines_next_cycle_errors`).
  * Still FALSE of the code (open findings F-C13-b2, F-C13-d4): cyclic `First` and cyclic name-tree
    `Kids` recurse without bound — `getOutlines_first_cycle_diverges`, `namedDests_kids_cycle_diverges`.
-/
namespace Lopdf.Q13
open Gen

/-! ## dereference / lookup -/

/-- the result of `dereference` is never a reference -/
theorem derefAux_not_ref (os : Objects) : ∀ (n : Nat) (o o' : Obj), derefAux os n o = some o' → o'.isRef = false := by
  intro n
  induction n with
  | zero =>
    intro o o' h
    cases o <;> simp [derefAux] at h <;> try (subst h; rfl)
    split at h <;> simp at h
  | succ n ih =>
    intro o o' h
    cases o <;> simp [derefAux] at h <;> try (subst h; rfl)
    split at h
    · simp at h
    · exact ih _ _ h

/-- `get_object` never returns a reference (the recursion of `build_outline_result` stops after one step) -/
theorem getObject_not_ref (os : Objects) (id : ObjId) (o : Obj) (h : getObject os id = some o) : o.isRef = false := by
  unfold getObject at h
  cases hg : os.get id with
  | none => simp [hg] at h
  | some o0 => simp [hg, deref] at h; exact derefAux_not_ref os _ _ _ h

/-- `dereference` with and without the id agree on the object -/
theorem derefIdAux_snd (os : Objects) : ∀ (n : Nat) (id : Option ObjId) (o : Obj),
    (derefIdAux os n id o).map (·.2) = derefAux os n o := by
  intro n
  induction n with
  | zero =>
    intro id o; cases o <;> simp [derefIdAux, derefAux]
    rename_i a b; cases os.get (a, b) <;> simp
  | succ n ih =>
    intro id o; cases o <;> simp [derefIdAux, derefAux]
    rename_i a b; cases os.get (a, b) <;> simp [ih]

/-- invariant of the reference walk: the id returned with the object is an existing object
holding exactly that object -/
theorem derefIdAux_id (os : Objects) : ∀ (n : Nat) (id : Option ObjId) (o : Obj) (rid : Option ObjId) (o' : Obj),
    (∀ x, id = some x → os.get x = some o) →
    derefIdAux os n id o = some (rid, o') → (∀ x, rid = some x → os.get x = some o') ∧ (rid = none → id = none ∧ o' = o) := by
  intro n
  induction n with
  | zero =>
    intro id o rid o' hinv h
    cases o <;> simp [derefIdAux] at h <;> try (obtain ⟨h1, h2⟩ := h; subst h1; subst h2; exact ⟨hinv, fun h => ⟨h, rfl⟩⟩)
    split at h <;> simp at h
  | succ n ih =>
    intro id o rid o' hinv h
    cases o <;> simp [derefIdAux] at h <;> try (obtain ⟨h1, h2⟩ := h; subst h1; subst h2; exact ⟨hinv, fun h => ⟨h, rfl⟩⟩)
    rename_i a b
    split at h
    · simp at h
    · rename_i o1 hg
      have := ih (some (a, b)) o1 rid o' (by intro x hx; cases hx; exact hg) h
      refine ⟨this.1, ?_⟩
      intro hr; have := (this.2 hr).1; simp at this

/-- **`get_object_mut` is total**: the `unwrap()` on `objects.get_mut(ref_id.unwrap_or(id))` cannot
fail, and the object it returns is the one `get_object` returns. -/
theorem getObjectMut_eq_getObject (os : Objects) (id : ObjId) :
    getObjectMut os id = Outcome.ofOpt (getObject os id) := by
  unfold getObjectMut getObject
  cases hg : os.get id with
  | none => simp [Outcome.ofOpt]
  | some o =>
    simp only [Option.bind_some]
    have hsnd := derefIdAux_snd os DEREF_LIMIT none o
    cases hd : derefId os o with
    | none =>
      unfold derefId at hd; rw [hd] at hsnd; simp at hsnd
      simp [deref, ← hsnd, Outcome.ofOpt]
    | some p =>
      obtain ⟨rid, o'⟩ := p
      unfold derefId at hd; rw [hd] at hsnd; simp at hsnd
      have hinv := derefIdAux_id os DEREF_LIMIT none o rid o' (by intro x hx; cases hx) hd
      simp only [deref, ← hsnd, Outcome.ofOpt]
      cases rid with
      | none =>
        have := (hinv.2 rfl).2; subst this
        simp [hg]
      | some x => simp [hinv.1 x rfl]

theorem getObjectMut_total (os : Objects) (id : ObjId) (s : String) : getObjectMut os id ≠ .panic s := by
  rw [getObjectMut_eq_getObject]; cases getObject os id <;> simp [Outcome.ofOpt]

/-! ## page content, resources, fonts, annotations, font encoding: total on every document -/

/-- `get_page_content` always returns `Ok`, for every document and every behaviour of the filters -/
theorem getPageContent_ok (decomp : Dict → Bytes → Option Bytes) (os : Objects) (pid : ObjId) :
    ∃ b, getPageContent decomp os pid = .ok b := ⟨_, rfl⟩

/-- `get_page_resources` is total: the `Parent` walk is guarded by `already_seen`
(its termination is `collectResources`' own fuel-free definition) and nothing in it can panic -/
theorem getPageResources_total (os : Objects) (pid : ObjId) (s : String) :
    getPageResources os pid ≠ .panic s := by
  unfold getPageResources
  split
  · simp
  · split <;> simp

theorem getPageFonts_total (os : Objects) (pid : ObjId) (s : String) : getPageFonts os pid ≠ .panic s := by
  unfold getPageFonts
  split
  · simp
  · simp
  · rename_i s' h; exact absurd h (getPageResources_total os pid s')

theorem getPageAnnotations_total (os : Objects) (pid : ObjId) (s : String) :
    getPageAnnotations os pid ≠ .panic s := by
  unfold getPageAnnotations
  split
  · simp
  · split
    · split <;> simp
    · simp
    · simp

theorem getFontEncoding_total (os : Objects) (font : Dict) (s : String) : getFontEncoding os font ≠ .panic s := by
  unfold getFontEncoding
  repeat' split
  all_goals simp

/-! ## get_page_images -/

theorem imageColorSpace_total (d : Dict) (s : String) : imageColorSpace d ≠ .panic s := by
  unfold imageColorSpace; repeat' split
  all_goals simp

theorem imageFilters_total (d : Dict) (s : String) : imageFilters d ≠ .panic s := by
  unfold imageFilters; repeat' split
  all_goals simp

theorem imageBpc_total (d : Dict) (s : String) : imageBpc d ≠ .panic s := by
  unfold imageBpc; repeat' split
  all_goals simp

theorem imageOf_total (os : Objects) (xv : Obj) (s : String) : imageOf os xv ≠ .panic s := by
  intro h
  unfold imageOf at h
  repeat' split at h
  all_goals first
    | (simp at h; done)
    | (exfalso; exact imageFilters_total _ _ ‹_›)
    | (exfalso; exact imageBpc_total _ _ ‹_›)
    | (exfalso; exact imageColorSpace_total _ _ ‹_›)

theorem imagesLoop_total (os : Objects) : ∀ (l : List (Bytes × Obj)) (s : String), imagesLoop os l ≠ .panic s := by
  intro l
  induction l with
  | nil => intro s h; simp [imagesLoop] at h
  | cons p rest ih =>
    intro s h
    obtain ⟨k, xv⟩ := p
    unfold imagesLoop at h
    split at h
    · rename_i s' hp; exact imageOf_total os xv s' hp
    · simp at h
    · exact ih s h
    · cases hr : imagesLoop os rest with
      | ok l => simp [hr, Outcome.map] at h
      | err e => simp [hr, Outcome.map] at h
      | panic s2 => exact ih s2 hr

/-- **C13 for `get_page_images`** (full, after e8b231c): for every document and page id the query
returns a value or an error -/
theorem getPageImages_total (os : Objects) (pid : ObjId) (s : String) : getPageImages os pid ≠ .panic s := by
  intro h
  unfold getPageImages at h
  split at h; · simp at h
  split at h; · simp at h
  split at h; · simp at h
  exact imagesLoop_total os _ s h

/-- the former witness of F-C13-a (image XObject with `ColorSpace []`) now yields an image without colour space -/
example : getPageImages
    [((3, 0), .dict [(TYPE, .name PAGE), (K_Resources, .dict [(K_XObject, .dict [([73, 109, 49], .ref 30 0)])])]),
     ((30, 0), .stream [(K_Subtype, .name K_Image), (K_Width, .int 1), (K_Height, .int 1), (K_ColorSpace, .arr [])] [])]
    (3, 0) = .ok [⟨(30, 0), 1, 1, false, none, 0⟩] := by decide

/-! ## build_outline_result / get_outline / get_outlines -/

theorem buildDirect_total (dest title : Obj) (named : Named) (s : String) : buildDirect dest title named ≠ .panic s := by
  unfold buildDirect; repeat' split
  all_goals simp

/-- **`build_outline_result` is total** (after cc9b602) -/
theorem buildOutlineResult_total (os : Objects) (dest title : Obj) (named : Named) (s : String) :
    buildOutlineResult os dest title named ≠ .panic s := by
  unfold buildOutlineResult
  split
  · split
    · simp
    · exact buildDirect_total _ _ _ _
  · exact buildDirect_total _ _ _ _

/-- **`get_outline` is total** -/
theorem getOutline_total (os : Objects) (node : Dict) (named : Named) (s : String) :
    getOutline os node named ≠ .panic s := by
  intro h
  unfold getOutline at h
  repeat' split at h
  all_goals first
    | (simp at h; done)
    | exact buildOutlineResult_total _ _ _ _ _ h

theorem firstStep_no_panic (sub : Obj → Named → WalkRes) (hs : ∀ f m s, sub f m ≠ some (.panic s))
    (node : Dict) (st : List Outline × Named) (s : String) : firstStep sub node st ≠ some (.panic s) := by
  unfold firstStep
  split
  · simp
  · split
    · simp
    · intro h; exact hs _ _ _ h

theorem firstStep_none (sub : Obj → Named → WalkRes) (node : Dict) (st : List Outline × Named)
    (h : firstStep sub node st = none) : ∃ f m, sub f m = none := by
  unfold firstStep at h
  split at h
  · simp at h
  · split at h
    · simp at h
    · exact ⟨_, _, h⟩

/-- the `Next` loop never panics if the `First` recursion does not -/
theorem nextLoop_no_panic (os : Objects) (sub : Obj → Named → WalkRes) (hs : ∀ f m s, sub f m ≠ some (.panic s)) :
    ∀ (node : Dict) (acc : List Outline) (named : Named) (seen : List ObjId) (s : String),
      nextLoop os sub node acc named seen ≠ some (.panic s) := by
  intro node acc named seen
  fun_induction nextLoop os sub node acc named seen <;> intro s
  all_goals first
    | (rename_i hp; intro _; exact getOutline_total _ _ _ _ hp)
    | (rename_i ih; exact ih s)
    | (simp; done)
    | (rename_i hfs; rw [hfs]; simp; done)
    | (intro h; rename_i hfs _; rw [h] at hfs; exact firstStep_no_panic sub hs _ _ _ hfs)
    | (exact firstStep_no_panic sub hs _ _ s)
    | skip

/-- **the `Next` loop itself always terminates**: being defined without fuel it returns `none`
(= out of fuel) only when the recursion over some `First` link does -/
theorem nextLoop_none (os : Objects) (sub : Obj → Named → WalkRes) :
    ∀ (node : Dict) (acc : List Outline) (named : Named) (seen : List ObjId),
      nextLoop os sub node acc named seen = none → ∃ f m, sub f m = none := by
  intro node acc named seen
  fun_induction nextLoop os sub node acc named seen
  all_goals first
    | (intro h; simp at h; done)
    | (rename_i ih; exact ih)
    | (intro h; rename_i hfs _; rw [h] at hfs; exact firstStep_none sub _ _ hfs)
    | (exact firstStep_none sub _ _)
    | skip

/-- **`get_outlines` never panics**, for every document, node and fuel -/
theorem walkOutlines_no_panic (os : Objects) :
    ∀ (fuel : Nat) (node : Dict) (acc : List Outline) (named : Named) (s : String),
      walkOutlines os fuel node acc named ≠ some (.panic s) := by
  intro fuel
  induction fuel with
  | zero => intro node acc named s; simp [walkOutlines]
  | succ n ih =>
    intro node acc named s
    unfold walkOutlines
    apply nextLoop_no_panic
    intro f m s'
    split
    · simp
    · exact ih _ _ _ _

/-- fuel runs out only through NESTED `First` links: if `n+1` levels are not enough, some `First`
object resolves to a node on which `n` levels are not enough -/
theorem walkOutlines_none (os : Objects) (n : Nat) (node : Dict) (acc : List Outline) (named : Named)
    (h : walkOutlines os (n + 1) node acc named = none) :
    ∃ first sub m, outlineNode os first = some sub ∧ walkOutlines os n sub [] m = none := by
  unfold walkOutlines at h
  obtain ⟨f, m, hf⟩ := nextLoop_none os _ _ _ _ _ h
  split at hf
  · simp at hf
  · rename_i sub hsub; exact ⟨f, sub, m, hsub, hf⟩

/-! ### cyclic links -/

def catRef : Dict := [(ROOT, .ref 1 0)]

/-- outline item 11 whose `Next` is itself -/
def nextCycleDoc : Objects :=
  [((1, 0), .dict [(K_Outlines, .ref 10 0)]),
   ((10, 0), .dict [(K_First, .ref 11 0)]),
   ((11, 0), .dict [(K_Title, .str [84] .lit), (K_Next, .ref 11 0)])]

def item11 : Dict := [(K_Title, .str [84] .lit), (K_Next, .ref 11 0)]

/-- **F-C13-b is repaired** (79a3229): on a cyclic `Next` link `get_outlines` stops with an error,
with any fuel ≥ 1 (the former witness of non-termination) -/
theorem getOutlines_next_cycle_errors : ∀ n, getOutlines catRef nextCycleDoc (n + 1) = some (.err "e") := by
  intro n
  unfold getOutlines
  have hc : catalog catRef nextCycleDoc = some [(K_Outlines, .ref 10 0)] := by rfl
  have ho : getDictInDict nextCycleDoc [(K_Outlines, .ref 10 0)] K_Outlines = some [(K_First, .ref 11 0)] := by rfl
  have hf : getDictInDict nextCycleDoc [(K_First, .ref 11 0)] K_First = some item11 := by rfl
  have hd : destTree nextCycleDoc [(K_Outlines, .ref 10 0)] = none := by rfl
  simp only [hc, ho, hf, hd]
  have h1 : ∀ named, getOutline nextCycleDoc item11 named = .err "e" := fun _ => rfl
  have h3 : Dict.get item11 K_First = none := by rfl
  have h4 : Dict.get item11 K_Next = some (.ref 11 0) := by rfl
  have h5 : getDictionary nextCycleDoc (11, 0) = some item11 := by rfl
  unfold walkOutlines
  rw [nextLoop]
  simp [h1, firstStep, h3, pushOutline]
  split
  · rename_i a b hn; rw [h4] at hn; cases hn
    split
    · rename_i next hd; rw [h5] at hd; cases hd
      rw [nextLoop]
      simp [h1, firstStep, h3, pushOutline]
      split
      · rename_i a b hn; rw [h4] at hn; cases hn; simp
      · rename_i hn; rw [h4] at hn; cases hn
      · rename_i hn _; exact absurd h4 (by intro h; exact (hn _ _ h))
    · rename_i hd; rw [h5] at hd; cases hd
  · rename_i hn; rw [h4] at hn; cases hn
  · rename_i hn _; exact absurd h4 (by intro h; exact (hn _ _ h))

/-- outline item 11 whose `First` is itself -/
def firstCycleDoc : Objects :=
  [((1, 0), .dict [(K_Outlines, .ref 10 0)]),
   ((10, 0), .dict [(K_First, .ref 11 0)]),
   ((11, 0), .dict [(K_Title, .str [84] .lit), (K_First, .ref 11 0)])]

def item11f : Dict := [(K_Title, .str [84] .lit), (K_First, .ref 11 0)]

theorem firstCycle_walk : ∀ (n : Nat) (acc : List Outline) (named : Named),
    walkOutlines firstCycleDoc n item11f acc named = none := by
  intro n
  induction n with
  | zero => intro acc named; rfl
  | succ n ih =>
    intro acc named
    unfold walkOutlines
    have h1 : ∀ named, getOutline firstCycleDoc item11f named = .err "e" := fun _ => rfl
    have h3 : Dict.get item11f K_First = some (.ref 11 0) := by rfl
    have h4 : outlineNode firstCycleDoc (.ref 11 0) = some item11f := by rfl
    rw [nextLoop]
    simp [h1, firstStep, h3, h4, ih]

/-- **F-C13-b2 (open)**: unbounded recursion of `get_outlines` on a cyclic `First` link — the fuelled
model runs out of EVERY fuel -/
theorem getOutlines_first_cycle_diverges : ∀ n, getOutlines catRef firstCycleDoc n = none := by
  intro n
  unfold getOutlines
  have hc : catalog catRef firstCycleDoc = some [(K_Outlines, .ref 10 0)] := by rfl
  have ho : getDictInDict firstCycleDoc [(K_Outlines, .ref 10 0)] K_Outlines = some [(K_First, .ref 11 0)] := by rfl
  have hf : getDictInDict firstCycleDoc [(K_First, .ref 11 0)] K_First = some item11f := by rfl
  have hd : destTree firstCycleDoc [(K_Outlines, .ref 10 0)] = none := by rfl
  simp only [hc, ho, hf, hd]
  exact firstCycle_walk n [] []

/-- `get_toc` inherits the divergence -/
theorem getToc_first_cycle_diverges (memMax : Nat) : ∀ n, getToc memMax catRef firstCycleDoc n = none := by
  intro n; unfold getToc; rw [getOutlines_first_cycle_diverges]

/-! ## get_named_destinations -/

theorem insertDestFromDict_total (key : Obj) (d : Dict) (named : Named) (s : String) :
    insertDestFromDict key d named ≠ .panic s := by
  unfold insertDestFromDict; repeat' split
  all_goals simp

theorem destOfPair_total (os : Objects) (key val : Obj) (named : Named) (s : String) :
    destOfPair os key val named ≠ .panic s := by
  unfold destOfPair
  repeat' split
  all_goals first
    | exact insertDestFromDict_total _ _ _ _
    | simp

/-- the `Names` loop is total (after 6000f3a), for arrays of any length -/
theorem namesLoop_total (os : Objects) :
    ∀ (n : Nat) (l : List Obj) (named : Named) (s : String), l.length ≤ n → namesLoop os l named ≠ .panic s := by
  intro n
  induction n with
  | zero => intro l named s hl; cases l <;> simp_all [namesLoop]
  | succ n ih =>
    intro l named s hl
    match l with
    | [] => simp [namesLoop]
    | [_] => simp [namesLoop]
    | key :: val :: rest =>
      rw [namesLoop]
      split
      · exact ih rest _ s (by simp at hl; omega)
      · simp
      · rename_i s' h; exact absurd h (destOfPair_total _ _ _ _ _)

theorem namesPart_total (os : Objects) (tree : Dict) (named : Named) (s : String) : namesPart os tree named ≠ .panic s := by
  unfold namesPart
  split
  · simp
  · split
    · simp
    · exact namesLoop_total os _ _ _ _ (Nat.le_refl _)

/-- **`get_named_destinations` never panics**, for every document, tree and fuel -/
theorem namedDests_no_panic (os : Objects) :
    ∀ (fuel : Nat) (tree : Dict) (named : Named) (s : String), namedDests os fuel tree named ≠ some (.panic s) := by
  intro fuel
  induction fuel with
  | zero => intro tree named s; simp [namedDests]
  | succ n ih =>
    intro tree named s
    unfold namedDests
    have hfold : ∀ (ks : List Obj) (a : Option (Outcome Named)), a ≠ some (.panic s) →
        ks.foldl (fun (acc : Option (Outcome Named)) (kid : Obj) =>
            match acc with
            | some (.ok nm) =>
              match kid.asRef.bind (getDictionary os) with
              | some kd => namedDests os n kd nm
              | none => some (.ok nm)
            | other => other) a ≠ some (.panic s) := by
      intro ks
      induction ks with
      | nil => intro a ha; simpa using ha
      | cons k rest ihk =>
        intro a ha
        simp only [List.foldl_cons]
        apply ihk
        split
        · split
          · exact ih _ _ _
          · simp
        · exact ha
    intro h
    simp only at h
    split at h
    · rename_i nm hk
      simp at h; exact namesPart_total os tree nm s h
    · rename_i other hne
      split at h
      · simp at h
      · split at h
        · simp at h
        · exact hfold _ _ (by simp) h

/-- tree 15 whose `Kids` contains itself -/
def kidsCycleDoc : Objects := [((15, 0), .dict [(KIDS, .arr [.ref 15 0])])]
def tree15 : Dict := [(KIDS, .arr [.ref 15 0])]

/-- **F-C13-d4 (open)**: `get_named_destinations` recurses without bound on a cyclic `Kids` link -/
theorem namedDests_kids_cycle_diverges : ∀ (n : Nat) (named : Named), namedDests kidsCycleDoc n tree15 named = none := by
  intro n
  induction n with
  | zero => intro named; rfl
  | succ n ih =>
    intro named
    unfold namedDests
    have h1 : Dict.get tree15 KIDS = some (.arr [.ref 15 0]) := by rfl
    have h2 : (Obj.ref 15 0).asRef.bind (getDictionary kidsCycleDoc) = some tree15 := by rfl
    simp only [h1, Obj.asArr, List.foldl, h2, ih]

/-- the former witnesses of F-C13-d / d2 / d3 are now skipped entries -/
example : namedDests [((31, 0), .dict [([88], .null)])] 2 [(K_Names, .arr [.str [107] .lit, .ref 31 0])] []
    = some (.ok []) := by rfl
example : namedDests [((31, 0), .arr [.ref 3 0])] 2 [(K_Names, .arr [.str [107] .lit, .ref 31 0])] []
    = some (.ok []) := by rfl
example : namedDests [] 2 [(K_Names, .arr [.name [107], .dict [(K_D, .arr [.ref 3 0, .name [70]])]])] []
    = some (.ok []) := by rfl
/-- a well-formed leaf is loaded -/
example : (namedDests [((31, 0), .dict [(K_D, .arr [.ref 3 0, .name [70]])])] 2
    [(K_Names, .arr [.str [107] .lit, .ref 31 0])] []).map (fun r => r.map List.length) = some (.ok 1) := by rfl

/-- **`get_outlines(None, None, ..)` never panics**, for every document and fuel -/
theorem getOutlines_no_panic (trailer : Dict) (os : Objects) (fuel : Nat) (s : String) :
    getOutlines trailer os fuel ≠ some (.panic s) := by
  intro h
  unfold getOutlines at h
  split at h; · simp at h
  split at h; · simp at h
  simp only at h
  split at h
  · simp at h
  · simp at h
  · rename_i s' hn
    split at hn
    · simp at hn
    · exact namedDests_no_panic _ _ _ _ _ hn
  · exact walkOutlines_no_panic _ _ _ _ _ _ h

/-! ## decode_text with the one-byte tables -/

/-- `bytes_to_string` does `String::from_utf16(..).expect(..)`: it cannot fail because no cell of
the tables `get_font_encoding` can select is a UTF-16 surrogate (tables regenerated from the source) -/
def noSurrogate (t : List (Option Nat)) : Bool :=
  t.length == 256 && t.all fun c => match c with
    | some v => !(0xD800 ≤ v && v ≤ 0xDFFF)
    | none => true

theorem oneByte_tables_no_surrogate :
    noSurrogate STANDARD_ENCODING = true ∧ noSurrogate MAC_ROMAN_ENCODING = true ∧
    noSurrogate MAC_EXPERT_ENCODING = true ∧ noSurrogate WIN_ANSI_ENCODING = true ∧
    noSurrogate PDF_DOC_ENCODING = true := by
  refine ⟨?_, ?_, ?_, ?_, ?_⟩ <;> decide +kernel

/-! ## get_pages: `collect()` over the page iterator -/

theorem satAdd1_zero : satAdd1 0 = 1 := by decide

theorem allocCheck_ok (esz memMax cap C : Nat) (hc : cap ≤ C) (hmem : C * esz ≤ memMax) (hM : memMax ≤ ISIZE_MAX) :
    allocCheck esz memMax cap = .ok () := by
  have : cap * esz ≤ C * esz := Nat.mul_le_mul_right _ hc
  unfold allocCheck
  rw [if_neg (by omega), if_neg (by omega)]

/-- room for one more element: the new capacity is at most max(4, 2·(len+1)) — it depends on the
number of elements only, not on anything in the file (`SIZE_HINT_LOWER = 0`, regenerated) -/
theorem afterYield_ok (esz memMax L len cap : Nat)
    (hmem : (2 * L + 4) * esz ≤ memMax) (hM : memMax ≤ ISIZE_MAX) (hesz : 1 ≤ esz)
    (hlen : len + 1 ≤ L) (hcap : cap ≤ max 4 (2 * len)) :
    ∃ cap', afterYield esz memMax len cap = .ok cap' ∧ cap' ≤ max 4 (2 * (len + 1)) := by
  have hC : 2 * L + 4 ≤ ISIZE_MAX := by
    have : (2 * L + 4) * 1 ≤ (2 * L + 4) * esz := Nat.mul_le_mul_left _ hesz
    omega
  have hU : ISIZE_MAX < USIZE := by decide
  unfold afterYield
  split
  · unfold growCap
    simp only [SIZE_HINT_LOWER, satAdd1_zero]
    split
    · have hc : max 4 1 ≤ 2 * L + 4 := by omega
      rw [allocCheck_ok esz memMax _ _ hc hmem hM]
      exact ⟨_, rfl, by omega⟩
    · rw [if_neg (by omega)]
      have hc : max (max (2 * cap) (len + 1)) 4 ≤ max 4 (2 * (len + 1)) := by
        rename_i h1 h2
        have : len = cap := by omega
        omega
      rw [allocCheck_ok esz memMax _ (2 * L + 4) (by omega) hmem hM]
      exact ⟨_, rfl, hc⟩
  · exact ⟨cap, rfl, by omega⟩

theorem step_len {len limit L : Nat} (h : ¬limit = 0) (hl : len + limit ≤ L) :
    len + 1 ≤ L ∧ len + 1 + (limit - 1) ≤ L := by omega

/-- **specification of `page_iter().collect()`** (after fc8a978), all documents: with memory for
max(4, 2·|objects|) elements the collection returns exactly C12's enumeration `run`, and the
vector's capacity is at most max(4, 2·number of pages) -/
theorem runCap_spec (cls : Obj → Cls) (esz memMax L : Nat)
    (hmem : (2 * L + 4) * esz ≤ memMax) (hM : memMax ≤ ISIZE_MAX) (hesz : 1 ≤ esz) :
    ∀ (k : Option (List Obj)) (stk : List (List Obj)) (lim len cap : Nat),
      len + lim ≤ L → cap ≤ max 4 (2 * len) →
      ∃ c, runCap cls esz memMax k stk lim len cap = .ok (run cls k stk lim, c) ∧
        c ≤ max 4 (2 * (len + (run cls k stk lim).length)) := by
  intro k stk lim len cap
  fun_induction runCap cls esz memMax k stk lim len cap with
  | case1 kid rest stack len cap => intro _ hc; rw [run]; simp; omega
  | case2 kid rest stack limit len cap h hc ih =>
    intro hl hcp; rw [run]; simp only [h, hc, if_false]; exact ih (by omega) hcp
  | case3 kid rest stack limit len cap h id hc s' hay =>
    intro hl hcp
    obtain ⟨c', h1, _⟩ := afterYield_ok esz memMax L len cap hmem hM hesz (step_len h hl).1 hcp
    rw [h1] at hay; cases hay
  | case4 kid rest stack limit len cap h id hc e hay =>
    intro hl hcp
    obtain ⟨c', h1, _⟩ := afterYield_ok esz memMax L len cap hmem hM hesz (step_len h hl).1 hcp
    rw [h1] at hay; cases hay
  | case5 kid rest stack limit len cap h id hc cap' hay l c hr ih =>
    intro hl hcp
    obtain ⟨c', h1, h2⟩ := afterYield_ok esz memMax L len cap hmem hM hesz (step_len h hl).1 hcp
    rw [h1] at hay; cases hay
    obtain ⟨c2, h3, h4⟩ := ih (step_len h hl).2 h2
    rw [hr] at h3; cases h3
    rw [run]; simp only [h, hc, if_false, List.length_cons]
    exact ⟨_, rfl, by have e : len + 1 + (run cls (some rest) stack (limit - 1)).length = len + ((run cls (some rest) stack (limit - 1)).length + 1) := by omega
                      rw [← e]; exact h4⟩
  | case6 kid rest stack limit len cap h id hc cap' hay e hr ih =>
    intro hl hcp
    obtain ⟨c', h1, h2⟩ := afterYield_ok esz memMax L len cap hmem hM hesz (step_len h hl).1 hcp
    rw [h1] at hay; cases hay
    obtain ⟨c2, h3, _⟩ := ih (step_len h hl).2 h2
    rw [hr] at h3; cases h3
  | case7 kid rest stack limit len cap h id hc cap' hay s' hr ih =>
    intro hl hcp
    obtain ⟨c', h1, h2⟩ := afterYield_ok esz memMax L len cap hmem hM hesz (step_len h hl).1 hcp
    rw [h1] at hay; cases hay
    obtain ⟨c2, h3, _⟩ := ih (step_len h hl).2 h2
    rw [hr] at h3; cases h3
  | case8 kid rest stack limit len cap h ks hc hd ih =>
    intro hl hcp; rw [run]; simp only [h, hc, hd, if_false, if_true]
    have := ih (by omega) hcp; simpa using this
  | case9 kid rest stack limit len cap h ks hc hd ih =>
    intro hl hcp; rw [run]; simp only [h, hc, hd, if_false]; exact ih (by omega) hcp
  | case10 top st limit len cap ih => intro hl hcp; rw [run]; exact ih hl hcp
  | case11 top st limit len cap ih => intro hl hcp; rw [run]; exact ih hl hcp
  | case12 l len cap => intro _ hc; rw [run]; simp; omega
  | case13 l len cap => intro _ hc; rw [run]; simp; omega

theorem pageIter_eq (trailer : Dict) (os : Objects) :
    pageIter trailer os = match pageRoot trailer os with
      | some pid => run (classify os) (kidsOf os pid) [] os.length
      | none => [] := by
  unfold pageIter pageRoot; rfl

/-- **`get_pages` is total and equals C12's enumeration** (full statement, every document — cyclic,
ill-typed, any `Count`): given memory for max(4, 2·|objects|) twelve-byte elements it returns
`page_iter`'s ids. `Count` no longer influences anything. -/
theorem getPages_eq_pageIter (memMax : Nat) (trailer : Dict) (os : Objects)
    (hmem : (2 * os.length + 4) * 12 ≤ memMax) (hM : memMax ≤ ISIZE_MAX) :
    getPages memMax trailer os = .ok (pageIter trailer os) := by
  rw [pageIter_eq]
  unfold getPages collectPages
  cases hr : pageRoot trailer os with
  | some pid =>
    obtain ⟨c, h, _⟩ := runCap_spec (classify os) 12 memMax os.length hmem hM (by decide)
      (kidsOf os pid) [] os.length 0 0 (by omega) (by omega)
    simp [h, Outcome.map]
  | none => simp [Outcome.map]

theorem getPages_total (memMax : Nat) (trailer : Dict) (os : Objects)
    (hmem : (2 * os.length + 4) * 12 ≤ memMax) (hM : memMax ≤ ISIZE_MAX) (s : String) :
    getPages memMax trailer os ≠ .panic s := by
  rw [getPages_eq_pageIter memMax trailer os hmem hM]; simp

/-- **no allocation beyond what the objects justify**: the collected vector's capacity is at most
max(4, 2·pages found) ≤ max(4, 2·|objects|) elements, whatever the file says -/
theorem collectPages_capacity (esz memMax : Nat) (trailer : Dict) (os : Objects)
    (hmem : (2 * os.length + 4) * esz ≤ memMax) (hM : memMax ≤ ISIZE_MAX) (hesz : 1 ≤ esz) :
    ∃ c, collectPages esz memMax trailer os = .ok (pageIter trailer os, c) ∧
      c ≤ max 4 (2 * (pageIter trailer os).length) ∧ (pageIter trailer os).length ≤ os.length := by
  rw [pageIter_eq]
  unfold collectPages
  cases hr : pageRoot trailer os with
  | some pid =>
    obtain ⟨c, h, hc⟩ := runCap_spec (classify os) esz memMax os.length hmem hM hesz
      (kidsOf os pid) [] os.length 0 0 (by omega) (by omega)
    exact ⟨c, h, by simpa using hc, run_length_le _ _ _ _⟩
  | none => exact ⟨0, rfl, by simp, by simp⟩

/-- `get_object_page` is total -/
theorem getObjectPage_total (memMax : Nat) (trailer : Dict) (os : Objects) (id : ObjId)
    (hmem : (2 * os.length + 4) * 12 ≤ memMax) (hM : memMax ≤ ISIZE_MAX) (s : String) :
    getObjectPage memMax trailer os id ≠ .panic s := by
  unfold getObjectPage
  rw [getPages_eq_pageIter memMax trailer os hmem hM]
  simp only
  generalize pageIter trailer os = pages
  induction pages with
  | nil => simp [objectPageLoop]
  | cons p rest ih =>
    unfold objectPageLoop
    repeat' split
    all_goals first
      | (simp; done)
      | exact ih

/-! ## get_toc -/

/-- **`get_toc` never panics**, for every document and fuel -/
theorem getToc_no_panic (memMax : Nat) (trailer : Dict) (os : Objects) (fuel : Nat)
    (hmem : (2 * os.length + 4) * 12 ≤ memMax) (hM : memMax ≤ ISIZE_MAX) (s : String) :
    getToc memMax trailer os fuel ≠ some (.panic s) := by
  intro h
  unfold getToc at h
  split at h
  · simp at h
  · simp at h
  · rename_i s' h'; exact getOutlines_no_panic _ _ _ _ h'
  · split at h
    · simp at h
    · rw [getPages_eq_pageIter memMax trailer os hmem hM] at h
      simp at h


end Lopdf.Q13
