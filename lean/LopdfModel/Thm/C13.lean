import LopdfModel.Model.Outlines
import LopdfModel.Thm.C12
import LopdfModel.Model.ExtractText
import LopdfModel.Thm.C04
import LopdfModel.Lemmas.C09Ops
import LopdfModel.Thm.C16
import LopdfModel.Thm.C04CMap
import LopdfModel.Gen.Tables
/-
  C13 — read-only queries are total on arbitrary object graphs: property theorems
  (code with all C13 repairs, incl. the seen sets of bca5e67 and ba860eb).

  For EVERY document every read-only query returns a value or an error:
  * no panic: `getObjectMut_total`, `getPageContent_filters_ok`, `extractText_no_panic`, `getPageResources_total`,
    `getPageFonts_total`, `getPageAnnotations_total`, `getFontEncoding_total`, `getPageImages_total`,
    `buildOutlineResult_total`, `getOutline_total`, `namedDests_total`, `getOutlines_total`,
    `getPages_total` / `getPages_eq_pageIter`, `getObjectPage_total`, `getToc_total`
    (the Option-valued models `deref`, `getObject`, `getDictionary`, `catalog`, `getPageContents`,
    `getEncrypted`, `getCryptFilters`, `pageIter` contain no panicking operation);
  * termination: no model function takes fuel; each walker is defined by well-founded recursion
    on the guard the code has, so termination on every document is part of the definitions;
  * cyclic `First` / `Kids` links are errors (`getOutlines_first_cycle_errors`,
    `namedDests_kids_cycle_errors`); `get_pages` allocates at most max(4, 2·pages) elements.
-/
namespace Lopdf.Q13
open Gen

/-! ## dereference / lookup -/

/-- the result of `dereference` is never a reference -/
theorem derefAux_not_ref (os : Objects) : ∀ (n : Nat) (o o' : Obj), derefAux os n o = some o' → o'.isRef = false := by
  intro n
  induction n with
  | zero =>
    intro o o' h
    cases o <;> simp [derefAux] at h <;> try (subst h; rfl)
    split at h <;> simp at h
  | succ n ih =>
    intro o o' h
    cases o <;> simp [derefAux] at h <;> try (subst h; rfl)
    split at h
    · simp at h
    · exact ih _ _ h

/-- `get_object` never returns a reference (the recursion of `build_outline_result` stops after one step) -/
theorem getObject_not_ref (os : Objects) (id : ObjId) (o : Obj) (h : getObject os id = some o) : o.isRef = false := by
  unfold getObject at h
  cases hg : os.get id with
  | none => simp [hg] at h
  | some o0 => simp [hg, deref] at h; exact derefAux_not_ref os _ _ _ h

/-- `dereference` with and without the id agree on the object -/
theorem derefIdAux_snd (os : Objects) : ∀ (n : Nat) (id : Option ObjId) (o : Obj),
    (derefIdAux os n id o).map (·.2) = derefAux os n o := by
  intro n
  induction n with
  | zero =>
    intro id o; cases o <;> simp [derefIdAux, derefAux]
    rename_i a b; cases os.get (a, b) <;> simp
  | succ n ih =>
    intro id o; cases o <;> simp [derefIdAux, derefAux]
    rename_i a b; cases os.get (a, b) <;> simp [ih]

/-- invariant of the reference walk: the id returned with the object is an existing object
holding exactly that object -/
theorem derefIdAux_id (os : Objects) : ∀ (n : Nat) (id : Option ObjId) (o : Obj) (rid : Option ObjId) (o' : Obj),
    (∀ x, id = some x → os.get x = some o) →
    derefIdAux os n id o = some (rid, o') → (∀ x, rid = some x → os.get x = some o') ∧ (rid = none → id = none ∧ o' = o) := by
  intro n
  induction n with
  | zero =>
    intro id o rid o' hinv h
    cases o <;> simp [derefIdAux] at h <;> try (obtain ⟨h1, h2⟩ := h; subst h1; subst h2; exact ⟨hinv, fun h => ⟨h, rfl⟩⟩)
    split at h <;> simp at h
  | succ n ih =>
    intro id o rid o' hinv h
    cases o <;> simp [derefIdAux] at h <;> try (obtain ⟨h1, h2⟩ := h; subst h1; subst h2; exact ⟨hinv, fun h => ⟨h, rfl⟩⟩)
    rename_i a b
    split at h
    · simp at h
    · rename_i o1 hg
      have := ih (some (a, b)) o1 rid o' (by intro x hx; cases hx; exact hg) h
      refine ⟨this.1, ?_⟩
      intro hr; have := (this.2 hr).1; simp at this

/-- **`get_object_mut` is total**: the `unwrap()` on `objects.get_mut(ref_id.unwrap_or(id))` cannot
fail, and the object it returns is the one `get_object` returns. -/
theorem getObjectMut_eq_getObject (os : Objects) (id : ObjId) :
    getObjectMut os id = Outcome.ofOpt (getObject os id) := by
  unfold getObjectMut getObject
  cases hg : os.get id with
  | none => simp [Outcome.ofOpt]
  | some o =>
    simp only [Option.bind_some]
    have hsnd := derefIdAux_snd os DEREF_LIMIT none o
    cases hd : derefId os o with
    | none =>
      unfold derefId at hd; rw [hd] at hsnd; simp at hsnd
      simp [deref, ← hsnd, Outcome.ofOpt]
    | some p =>
      obtain ⟨rid, o'⟩ := p
      unfold derefId at hd; rw [hd] at hsnd; simp at hsnd
      have hinv := derefIdAux_id os DEREF_LIMIT none o rid o' (by intro x hx; cases hx) hd
      simp only [deref, ← hsnd, Outcome.ofOpt]
      cases rid with
      | none =>
        have := (hinv.2 rfl).2; subst this
        simp [hg]
      | some x => simp [hinv.1 x rfl]

theorem getObjectMut_total (os : Objects) (id : ObjId) (s : String) : getObjectMut os id ≠ .panic s := by
  rw [getObjectMut_eq_getObject]; cases getObject os id <;> simp [Outcome.ofOpt]

/-! ## page content, resources, fonts, annotations, font encoding: total on every document -/

/-- `get_page_resources` is total: the `Parent` walk is guarded by `already_seen`
(its termination is `collectResources`' own fuel-free definition) and nothing in it can panic -/
theorem getPageResources_total (os : Objects) (pid : ObjId) (s : String) :
    getPageResources os pid ≠ .panic s := by
  unfold getPageResources
  split
  · simp
  · split <;> simp

theorem getPageFonts_total (os : Objects) (pid : ObjId) (s : String) : getPageFonts os pid ≠ .panic s := by
  unfold getPageFonts
  split
  · simp
  · simp
  · rename_i s' h; exact absurd h (getPageResources_total os pid s')

theorem getPageAnnotations_total (os : Objects) (pid : ObjId) (s : String) :
    getPageAnnotations os pid ≠ .panic s := by
  unfold getPageAnnotations
  split
  · simp
  · split
    · split <;> simp
    · simp
    · simp

theorem getFontEncoding_total (os : Objects) (font : Dict) (s : String) : getFontEncoding os font ≠ .panic s := by
  unfold getFontEncoding
  repeat' split
  all_goals simp

/-! ## get_page_images -/

theorem imageColorSpace_total (d : Dict) (s : String) : imageColorSpace d ≠ .panic s := by
  unfold imageColorSpace; repeat' split
  all_goals simp

theorem imageFilters_total (d : Dict) (s : String) : imageFilters d ≠ .panic s := by
  unfold imageFilters; repeat' split
  all_goals simp

theorem imageBpc_total (d : Dict) (s : String) : imageBpc d ≠ .panic s := by
  unfold imageBpc; repeat' split
  all_goals simp

theorem imageOf_total (os : Objects) (xv : Obj) (s : String) : imageOf os xv ≠ .panic s := by
  intro h
  unfold imageOf at h
  repeat' split at h
  all_goals first
    | (simp at h; done)
    | (exfalso; exact imageFilters_total _ _ ‹_›)
    | (exfalso; exact imageBpc_total _ _ ‹_›)
    | (exfalso; exact imageColorSpace_total _ _ ‹_›)

theorem imagesLoop_total (os : Objects) : ∀ (l : List (Bytes × Obj)) (s : String), imagesLoop os l ≠ .panic s := by
  intro l
  induction l with
  | nil => intro s h; simp [imagesLoop] at h
  | cons p rest ih =>
    intro s h
    obtain ⟨k, xv⟩ := p
    unfold imagesLoop at h
    split at h
    · rename_i s' hp; exact imageOf_total os xv s' hp
    · simp at h
    · exact ih s h
    · cases hr : imagesLoop os rest with
      | ok l => simp [hr, Outcome.map] at h
      | err e => simp [hr, Outcome.map] at h
      | panic s2 => exact ih s2 hr

/-- **C13 for `get_page_images`** (full, after e8b231c): for every document and page id the query
returns a value or an error -/
theorem getPageImages_total (os : Objects) (pid : ObjId) (s : String) : getPageImages os pid ≠ .panic s := by
  intro h
  unfold getPageImages at h
  split at h; · simp at h
  split at h; · simp at h
  split at h; · simp at h
  exact imagesLoop_total os _ s h

/-- the former witness of F-C13-a (image XObject with `ColorSpace []`) now yields an image without colour space -/
example : getPageImages
    [((3, 0), .dict [(TYPE, .name PAGE), (K_Resources, .dict [(K_XObject, .dict [([73, 109, 49], .ref 30 0)])])]),
     ((30, 0), .stream [(K_Subtype, .name K_Image), (K_Width, .int 1), (K_Height, .int 1), (K_ColorSpace, .arr [])] [])]
    (3, 0) = .ok [⟨(30, 0), 1, 1, false, none, 0⟩] := by decide

/-! ## build_outline_result / get_outline / get_outlines -/

theorem buildDirect_total (dest title : Obj) (named : Named) (s : String) : buildDirect dest title named ≠ .panic s := by
  unfold buildDirect; repeat' split
  all_goals simp

/-- **`build_outline_result` is total** (after cc9b602) -/
theorem buildOutlineResult_total (os : Objects) (dest title : Obj) (named : Named) (s : String) :
    buildOutlineResult os dest title named ≠ .panic s := by
  unfold buildOutlineResult
  split
  · split
    · simp
    · exact buildDirect_total _ _ _ _
  · exact buildDirect_total _ _ _ _

/-- **`get_outline` is total** -/
theorem getOutline_total (os : Objects) (node : Dict) (named : Named) (s : String) :
    getOutline os node named ≠ .panic s := by
  intro h
  unfold getOutline at h
  repeat' split at h
  all_goals first
    | (simp at h; done)
    | exact buildOutlineResult_total _ _ _ _ _ h

theorem wrapSub_no_panic (st : List Outline × Named) (r : WalkOut) (s : String) (h : r.1 ≠ .panic s) :
    (wrapSub st r).1 ≠ .panic s := by
  unfold wrapSub
  split
  · simp
  · simp
  · rename_i s' hs; intro h'; simp at h'; subst h'; exact h hs

/-- well-founded induction on the walker's own measure (objects not yet seen, size of an inline node) -/
theorem walkG_no_panic_aux (os : Objects) (hgo : ∀ node named s, getOutline os node named ≠ .panic s) :
    ∀ (u sz : Nat) (node : Dict) (acc : List Outline) (named : Named) (seen : List ObjId),
      unseen os seen = u → sizeOf node = sz → ∀ s, (walkG os node acc named seen).val.1 ≠ .panic s := by
  intro u
  induction u using Nat.strongRecOn with
  | ind u ihu =>
    intro sz
    induction sz using Nat.strongRecOn with
    | ind sz ihsz =>
      intro node acc named seen hu hsz s
      have IH1 : ∀ (node' : Dict) acc' named' seen', unseen os seen' < unseen os seen →
          ∀ s, (walkG os node' acc' named' seen').val.1 ≠ .panic s :=
        fun node' acc' named' seen' h s => ihu _ (hu ▸ h) _ node' acc' named' seen' rfl rfl s
      have IH2 : ∀ (node' : Dict) acc' named' seen', unseen os seen' ≤ unseen os seen → sizeOf node' < sizeOf node →
          ∀ s, (walkG os node' acc' named' seen').val.1 ≠ .panic s := by
        intro node' acc' named' seen' h1 h2 s
        rcases Nat.lt_or_eq_of_le h1 with h | h
        · exact IH1 _ _ _ _ h s
        · exact ihsz _ (hsz ▸ h2) node' acc' named' seen' (h.trans hu) rfl s
      rw [walkG]
      split
      · rename_i s' hp; exact absurd hp (hgo _ _ _)
      · extract_lets st fr
        have Ffr : ∀ s', fr.val.1 ≠ .panic s' := by
          intro s'
          simp only [fr]
          split
          · simp
          · rename_i d hf
            apply wrapSub_no_panic
            apply IH2 _ _ _ _ (Nat.le_refl _)
            have := Dict.sizeOf_get_lt hf
            simp at this; omega
          · rename_i a b hf
            split
            · simp
            · split
              · simp
              · rename_i hs d hd
                apply wrapSub_no_panic
                obtain ⟨o, hm⟩ := getDictionary_mem hd
                exact IH1 _ _ _ _ (unseen_lt os seen (a, b) o hm hs) _
          · simp
        split
        · rename_i acc2 named2 hok
          split
          · rename_i a b hn
            split
            · simp
            · split
              · rename_i hs next hd
                obtain ⟨o, hm⟩ := getDictionary_mem hd
                exact IH1 _ _ _ _ (Nat.lt_of_lt_of_le (unseen_lt os fr.val.2 (a, b) o hm hs) fr.property) _
              · simp
          · rename_i d hn
            apply IH2 _ _ _ _ fr.property
            have := Dict.sizeOf_get_lt hn
            simp at this; omega
          · simp
        · simp
        · rename_i s' hp; exact absurd hp (Ffr s')

/-- **`get_outlines` never panics and always terminates** — the guarded walker (`seen` set threaded
through `First` and `Next`, bca5e67) is defined without fuel, so this is a statement about every
document, every start node and every `seen` set; termination is part of the definition. -/
theorem walkG_no_panic (os : Objects) (node : Dict) (acc : List Outline) (named : Named) (seen : List ObjId)
    (s : String) : (walkG os node acc named seen).val.1 ≠ .panic s :=
  walkG_no_panic_aux os (fun _ _ _ => getOutline_total _ _ _ _) _ _ node acc named seen rfl rfl s

/-! ### cyclic links are errors now -/

/-- a `First` reference that was already entered is an error: the walk stops instead of recursing -/
theorem walkG_first_seen_err (os : Objects) (node : Dict) (acc : List Outline) (named : Named) (seen : List ObjId)
    (a b : Nat) (hgo : ∀ s, getOutline os node named ≠ .panic s)
    (hf : node.get K_First = some (.ref a b)) (hs : (a, b) ∈ seen) :
    (walkG os node acc named seen).val.1 = .err "e" := by
  rw [walkG]
  split
  · rename_i s' hp; exact absurd hp (hgo _)
  · extract_lets st fr
    have hfr : fr.val.1 = .err "e" := by
      simp only [fr]
      split
      · rename_i h; rw [hf] at h; cases h
      · rename_i h; rw [hf] at h; cases h
      · rename_i a' b' h; rw [hf] at h; cases h; simp [hs]
      · rfl
    split
    · rename_i h; rw [hfr] at h; cases h
    · rename_i e h; rw [hfr] at h; cases h; rfl
    · rename_i h; rw [hfr] at h; cases h

def catRef : Dict := [(ROOT, .ref 1 0)]
def firstCycleDoc : Objects :=
  [((1, 0), .dict [(K_Outlines, .ref 10 0)]),
   ((10, 0), .dict [(K_First, .ref 11 0)]),
   ((11, 0), .dict [(K_Title, .str [84] .lit), (K_First, .ref 11 0)])]
def item11f : Dict := [(K_Title, .str [84] .lit), (K_First, .ref 11 0)]

/-- **F-C13-b2 is repaired**: on the former witness of unbounded recursion (outline item whose
`First` is itself) `get_outlines` returns an error -/
theorem getOutlines_first_cycle_errors : getOutlines catRef firstCycleDoc = .err "e" := by
  unfold getOutlines
  have hc : catalog catRef firstCycleDoc = some [(K_Outlines, .ref 10 0)] := by rfl
  have ho : getDictInDict firstCycleDoc [(K_Outlines, .ref 10 0)] K_Outlines = some [(K_First, .ref 11 0)] := by rfl
  have hf : getDictInDict firstCycleDoc [(K_First, .ref 11 0)] K_First = some item11f := by rfl
  have hd : destTree firstCycleDoc [(K_Outlines, .ref 10 0)] = none := by rfl
  simp only [hc, ho, hf, hd]
  have h1 : ∀ named, getOutline firstCycleDoc item11f named = .err "e" := fun _ => rfl
  have h3 : Dict.get item11f K_First = some (.ref 11 0) := by rfl
  have h5 : getDictionary firstCycleDoc (11, 0) = some item11f := by rfl
  have inner : ∀ acc named, (walkG firstCycleDoc item11f acc named [(11, 0)]).val.1 = .err "e" :=
    fun acc named => walkG_first_seen_err _ _ _ _ _ 11 0 (by intro s; rw [h1]; simp) h3 (by simp)
  rw [walkG]
  split
  · rename_i s' hp; rw [h1] at hp; cases hp
  · extract_lets st fr
    have hfr : fr.val.1 = .err "e" := by
      simp only [fr]
      split
      · rename_i h; rw [h3] at h; cases h
      · rename_i h; rw [h3] at h; cases h
      · rename_i a' b' h; rw [h3] at h; cases h
        split
        · rename_i hs; simp at hs
        · split
          · rfl
          · rename_i d hd'; rw [h5] at hd'; cases hd'
            simp only [wrapSub, inner]
      · rfl
    split
    · rename_i h; rw [hfr] at h; cases h
    · rename_i e h; rw [hfr] at h; cases h; rfl
    · rename_i h; rw [hfr] at h; cases h

/-! ## get_named_destinations -/

theorem insertDestFromDict_total (key : Obj) (d : Dict) (named : Named) (s : String) :
    insertDestFromDict key d named ≠ .panic s := by
  unfold insertDestFromDict; repeat' split
  all_goals simp

theorem destOfPair_total (os : Objects) (key val : Obj) (named : Named) (s : String) :
    destOfPair os key val named ≠ .panic s := by
  unfold destOfPair
  repeat' split
  all_goals first
    | exact insertDestFromDict_total _ _ _ _
    | simp

/-- the `Names` loop is total (after 6000f3a), for arrays of any length -/
theorem namesLoop_total (os : Objects) :
    ∀ (n : Nat) (l : List Obj) (named : Named) (s : String), l.length ≤ n → namesLoop os l named ≠ .panic s := by
  intro n
  induction n with
  | zero => intro l named s hl; cases l <;> simp_all [namesLoop]
  | succ n ih =>
    intro l named s hl
    match l with
    | [] => simp [namesLoop]
    | [_] => simp [namesLoop]
    | key :: val :: rest =>
      rw [namesLoop]
      split
      · exact ih rest _ s (by simp at hl; omega)
      · simp
      · rename_i s' h; exact absurd h (destOfPair_total _ _ _ _ _)

theorem namesPart_total (os : Objects) (tree : Dict) (named : Named) (s : String) : namesPart os tree named ≠ .panic s := by
  unfold namesPart
  split
  · simp
  · split
    · simp
    · exact namesLoop_total os _ _ _ _ (Nat.le_refl _)

/-- **`get_named_destinations` never panics and always terminates**: the guarded recursion over
`Kids` (ba860eb) is defined without fuel (stack machine, measure = objects not yet seen, pending
work); every document, every stack, every `seen` set. -/
theorem ndRun_no_panic (os : Objects) (fs : List NdFrame) (named : Named) (seen : List ObjId) (s : String) :
    ndRun os fs named seen ≠ .panic s := by
  fun_induction ndRun os fs named seen
  all_goals first
    | (simp; done)
    | assumption
    | (rename_i hp; exact absurd hp (namesPart_total _ _ _ _))
    | skip

theorem namedDests_total (os : Objects) (tree : Dict) (named : Named) (s : String) :
    namedDests os tree named ≠ .panic s := by
  unfold namedDests
  split
  · simp
  · exact ndRun_no_panic _ _ _ _ _

/-- a kid that was already entered is an error: the walk stops instead of recursing -/
theorem ndRun_reenter_err (os : Objects) (kid : Obj) (kids : List Obj) (tree : Dict) (rest : List NdFrame)
    (named : Named) (seen : List ObjId) (id : ObjId) (kd : Dict)
    (hk : kid.asRef = some id) (hd : getDictionary os id = some kd) (hs : id ∈ seen) :
    ndRun os ((kid :: kids, tree) :: rest) named seen = .err "e" := by
  rw [ndRun]
  split
  · rename_i h; rw [hk] at h; cases h
  · rename_i id' h; rw [hk] at h; cases h
    split
    · rename_i h; rw [hd] at h; cases h
    · simp [hs]

/-- tree 15 whose `Kids` contains itself -/
def kidsCycleDoc : Objects := [((15, 0), .dict [(KIDS, .arr [.ref 15 0])])]
def tree15 : Dict := [(KIDS, .arr [.ref 15 0])]

/-- **F-C13-d4 is repaired**: on the former witness of unbounded recursion (name tree whose `Kids`
contains itself) `get_named_destinations` returns an error -/
theorem namedDests_kids_cycle_errors (named : Named) : namedDests kidsCycleDoc tree15 named = .err "e" := by
  unfold namedDests
  have he : ndEnter tree15 = some ([.ref 15 0], tree15) := by rfl
  have hd : getDictionary kidsCycleDoc (15, 0) = some tree15 := by rfl
  simp only [he]
  rw [ndRun]
  split
  · rename_i h; simp [Obj.asRef] at h
  · rename_i id h; simp [Obj.asRef] at h; subst h
    split
    · rename_i h; rw [hd] at h; cases h
    · rename_i kd h; rw [hd] at h; cases h
      simp only [List.not_mem_nil, dite_false, he]
      exact ndRun_reenter_err _ _ _ _ _ _ _ (15, 0) tree15 rfl hd (by simp)

/-- malformed leaves are skipped; a well-formed leaf is loaded -/
example : namedDests [((31, 0), .dict [(K_D, .arr [.ref 3 0, .name [70]])])]
    [(K_Names, .arr [.str [107] .lit, .ref 31 0])] [] = .ok [([107], .dict (mkDest (.str [107] .lit) (.ref 3 0) (.name [70])))] := by
  unfold namedDests
  have he : ndEnter [(K_Names, .arr [.str [107] .lit, .ref 31 0])] = some ([], [(K_Names, .arr [.str [107] .lit, .ref 31 0])]) := by rfl
  simp only [he]
  rw [ndRun]
  have hn : namesPart [((31, 0), .dict [(K_D, .arr [.ref 3 0, .name [70]])])] [(K_Names, .arr [.str [107] .lit, .ref 31 0])] []
      = .ok [([107], .dict (mkDest (.str [107] .lit) (.ref 3 0) (.name [70])))] := by rfl
  simp only [hn]
  rw [ndRun]

/-- **`get_outlines(None, None, ..)` is total**: for every document it returns a value or an error -/
theorem getOutlines_total (trailer : Dict) (os : Objects) (s : String) : getOutlines trailer os ≠ .panic s := by
  intro h
  unfold getOutlines at h
  split at h; · simp at h
  split at h; · simp at h
  simp only at h
  split at h
  · simp at h
  · rename_i s' hn
    split at hn
    · simp at hn
    · exact namedDests_total _ _ _ _ hn
  · exact walkG_no_panic _ _ _ _ _ _ h

/-! ## decode_text with the one-byte tables -/

/-- `bytes_to_string` does `String::from_utf16(..).expect(..)`: it cannot fail because no cell of
the tables `get_font_encoding` can select is a UTF-16 surrogate (tables regenerated from the source) -/
def noSurrogate (t : List (Option Nat)) : Bool :=
  t.length == 256 && t.all fun c => match c with
    | some v => !(0xD800 ≤ v && v ≤ 0xDFFF)
    | none => true

theorem oneByte_tables_no_surrogate :
    noSurrogate STANDARD_ENCODING = true ∧ noSurrogate MAC_ROMAN_ENCODING = true ∧
    noSurrogate MAC_EXPERT_ENCODING = true ∧ noSurrogate WIN_ANSI_ENCODING = true ∧
    noSurrogate PDF_DOC_ENCODING = true := by
  refine ⟨?_, ?_, ?_, ?_, ?_⟩ <;> decide +kernel

/-! ## get_pages: `collect()` over the page iterator -/

theorem satAdd1_zero : satAdd1 0 = 1 := by decide

theorem allocCheck_ok (esz memMax cap C : Nat) (hc : cap ≤ C) (hmem : C * esz ≤ memMax) (hM : memMax ≤ ISIZE_MAX) :
    allocCheck esz memMax cap = .ok () := by
  have : cap * esz ≤ C * esz := Nat.mul_le_mul_right _ hc
  unfold allocCheck
  rw [if_neg (by omega), if_neg (by omega)]

/-- room for one more element: the new capacity is at most max(4, 2·(len+1)) — it depends on the
number of elements only, not on anything in the file (`SIZE_HINT_LOWER = 0`, regenerated) -/
theorem afterYield_ok (esz memMax L len cap : Nat)
    (hmem : (2 * L + 4) * esz ≤ memMax) (hM : memMax ≤ ISIZE_MAX) (hesz : 1 ≤ esz)
    (hlen : len + 1 ≤ L) (hcap : cap ≤ max 4 (2 * len)) :
    ∃ cap', afterYield esz memMax len cap = .ok cap' ∧ cap' ≤ max 4 (2 * (len + 1)) := by
  have hC : 2 * L + 4 ≤ ISIZE_MAX := by
    have : (2 * L + 4) * 1 ≤ (2 * L + 4) * esz := Nat.mul_le_mul_left _ hesz
    omega
  have hU : ISIZE_MAX < USIZE := by decide
  unfold afterYield
  split
  · unfold growCap
    simp only [SIZE_HINT_LOWER, satAdd1_zero]
    split
    · have hc : max 4 1 ≤ 2 * L + 4 := by omega
      rw [allocCheck_ok esz memMax _ _ hc hmem hM]
      exact ⟨_, rfl, by omega⟩
    · rw [if_neg (by omega)]
      have hc : max (max (2 * cap) (len + 1)) 4 ≤ max 4 (2 * (len + 1)) := by
        rename_i h1 h2
        have : len = cap := by omega
        omega
      rw [allocCheck_ok esz memMax _ (2 * L + 4) (by omega) hmem hM]
      exact ⟨_, rfl, hc⟩
  · exact ⟨cap, rfl, by omega⟩

theorem step_len {len limit L : Nat} (h : ¬limit = 0) (hl : len + limit ≤ L) :
    len + 1 ≤ L ∧ len + 1 + (limit - 1) ≤ L := by omega

/-- **specification of `page_iter().collect()`** (after fc8a978), all documents: with memory for
max(4, 2·|objects|) elements the collection returns exactly C12's enumeration `run`, and the
vector's capacity is at most max(4, 2·number of pages) -/
theorem runCap_spec (cls : Obj → Cls) (esz memMax L : Nat)
    (hmem : (2 * L + 4) * esz ≤ memMax) (hM : memMax ≤ ISIZE_MAX) (hesz : 1 ≤ esz) :
    ∀ (k : Option (List Obj)) (stk : List (List Obj)) (lim len cap : Nat),
      len + lim ≤ L → cap ≤ max 4 (2 * len) →
      ∃ c, runCap cls esz memMax k stk lim len cap = .ok (run cls k stk lim, c) ∧
        c ≤ max 4 (2 * (len + (run cls k stk lim).length)) := by
  intro k stk lim len cap
  fun_induction runCap cls esz memMax k stk lim len cap with
  | case1 kid rest stack len cap => intro _ hc; rw [run]; simp; omega
  | case2 kid rest stack limit len cap h hc ih =>
    intro hl hcp; rw [run]; simp only [h, hc, if_false]; exact ih (by omega) hcp
  | case3 kid rest stack limit len cap h id hc s' hay =>
    intro hl hcp
    obtain ⟨c', h1, _⟩ := afterYield_ok esz memMax L len cap hmem hM hesz (step_len h hl).1 hcp
    rw [h1] at hay; cases hay
  | case4 kid rest stack limit len cap h id hc e hay =>
    intro hl hcp
    obtain ⟨c', h1, _⟩ := afterYield_ok esz memMax L len cap hmem hM hesz (step_len h hl).1 hcp
    rw [h1] at hay; cases hay
  | case5 kid rest stack limit len cap h id hc cap' hay l c hr ih =>
    intro hl hcp
    obtain ⟨c', h1, h2⟩ := afterYield_ok esz memMax L len cap hmem hM hesz (step_len h hl).1 hcp
    rw [h1] at hay; cases hay
    obtain ⟨c2, h3, h4⟩ := ih (step_len h hl).2 h2
    rw [hr] at h3; cases h3
    rw [run]; simp only [h, hc, if_false, List.length_cons]
    exact ⟨_, rfl, by have e : len + 1 + (run cls (some rest) stack (limit - 1)).length = len + ((run cls (some rest) stack (limit - 1)).length + 1) := by omega
                      rw [← e]; exact h4⟩
  | case6 kid rest stack limit len cap h id hc cap' hay e hr ih =>
    intro hl hcp
    obtain ⟨c', h1, h2⟩ := afterYield_ok esz memMax L len cap hmem hM hesz (step_len h hl).1 hcp
    rw [h1] at hay; cases hay
    obtain ⟨c2, h3, _⟩ := ih (step_len h hl).2 h2
    rw [hr] at h3; cases h3
  | case7 kid rest stack limit len cap h id hc cap' hay s' hr ih =>
    intro hl hcp
    obtain ⟨c', h1, h2⟩ := afterYield_ok esz memMax L len cap hmem hM hesz (step_len h hl).1 hcp
    rw [h1] at hay; cases hay
    obtain ⟨c2, h3, _⟩ := ih (step_len h hl).2 h2
    rw [hr] at h3; cases h3
  | case8 kid rest stack limit len cap h ks hc hd ih =>
    intro hl hcp; rw [run]; simp only [h, hc, hd, if_false, if_true]
    have := ih (by omega) hcp; simpa using this
  | case9 kid rest stack limit len cap h ks hc hd ih =>
    intro hl hcp; rw [run]; simp only [h, hc, hd, if_false]; exact ih (by omega) hcp
  | case10 top st limit len cap ih => intro hl hcp; rw [run]; exact ih hl hcp
  | case11 top st limit len cap ih => intro hl hcp; rw [run]; exact ih hl hcp
  | case12 l len cap => intro _ hc; rw [run]; simp; omega
  | case13 l len cap => intro _ hc; rw [run]; simp; omega

theorem pageIter_eq (trailer : Dict) (os : Objects) :
    pageIter trailer os = match pageRoot trailer os with
      | some pid => run (classify os) (kidsOf os pid) [] os.length
      | none => [] := by
  unfold pageIter pageRoot; rfl

/-- **`get_pages` is total and equals C12's enumeration** (full statement, every document — cyclic,
ill-typed, any `Count`): given memory for max(4, 2·|objects|) twelve-byte elements it returns
`page_iter`'s ids. `Count` no longer influences anything. -/
theorem getPages_eq_pageIter (memMax : Nat) (trailer : Dict) (os : Objects)
    (hmem : (2 * os.length + 4) * 12 ≤ memMax) (hM : memMax ≤ ISIZE_MAX) :
    getPages memMax trailer os = .ok (pageIter trailer os) := by
  rw [pageIter_eq]
  unfold getPages collectPages
  cases hr : pageRoot trailer os with
  | some pid =>
    obtain ⟨c, h, _⟩ := runCap_spec (classify os) 12 memMax os.length hmem hM (by decide)
      (kidsOf os pid) [] os.length 0 0 (by omega) (by omega)
    simp [h, Outcome.map]
  | none => simp [Outcome.map]

theorem getPages_total (memMax : Nat) (trailer : Dict) (os : Objects)
    (hmem : (2 * os.length + 4) * 12 ≤ memMax) (hM : memMax ≤ ISIZE_MAX) (s : String) :
    getPages memMax trailer os ≠ .panic s := by
  rw [getPages_eq_pageIter memMax trailer os hmem hM]; simp

/-- **no allocation beyond what the objects justify**: the collected vector's capacity is at most
max(4, 2·pages found) ≤ max(4, 2·|objects|) elements, whatever the file says -/
theorem collectPages_capacity (esz memMax : Nat) (trailer : Dict) (os : Objects)
    (hmem : (2 * os.length + 4) * esz ≤ memMax) (hM : memMax ≤ ISIZE_MAX) (hesz : 1 ≤ esz) :
    ∃ c, collectPages esz memMax trailer os = .ok (pageIter trailer os, c) ∧
      c ≤ max 4 (2 * (pageIter trailer os).length) ∧ (pageIter trailer os).length ≤ os.length := by
  rw [pageIter_eq]
  unfold collectPages
  cases hr : pageRoot trailer os with
  | some pid =>
    obtain ⟨c, h, hc⟩ := runCap_spec (classify os) esz memMax os.length hmem hM hesz
      (kidsOf os pid) [] os.length 0 0 (by omega) (by omega)
    exact ⟨c, h, by simpa using hc, run_length_le _ _ _ _⟩
  | none => exact ⟨0, rfl, by simp, by simp⟩

/-- `get_object_page` is total -/
theorem getObjectPage_total (memMax : Nat) (trailer : Dict) (os : Objects) (id : ObjId)
    (hmem : (2 * os.length + 4) * 12 ≤ memMax) (hM : memMax ≤ ISIZE_MAX) (s : String) :
    getObjectPage memMax trailer os id ≠ .panic s := by
  unfold getObjectPage
  rw [getPages_eq_pageIter memMax trailer os hmem hM]
  simp only
  generalize pageIter trailer os = pages
  induction pages with
  | nil => simp [objectPageLoop]
  | cons p rest ih =>
    unfold objectPageLoop
    repeat' split
    all_goals first
      | (simp; done)
      | exact ih

/-! ## get_toc -/

/-- **`get_toc` is total**: for every document it returns a value or an error -/
theorem getToc_total (memMax : Nat) (trailer : Dict) (os : Objects)
    (hmem : (2 * os.length + 4) * 12 ≤ memMax) (hM : memMax ≤ ISIZE_MAX) (s : String) :
    getToc memMax trailer os ≠ .panic s := by
  intro h
  unfold getToc at h
  split at h
  · simp at h
  · rename_i s' h'; exact getOutlines_total _ _ _ h'
  · split at h
    · simp at h
    · rw [getPages_eq_pageIter memMax trailer os hmem hM] at h
      simp at h

/-! ## get_page_content / extract_text on top of the filter, content and text models -/

theorem frameLoop_no_panic (bpp rowLen : Nat) (content prev : Bytes) (s : String) :
    frameLoop bpp rowLen content prev ≠ .panic s := by
  fun_induction frameLoop bpp rowLen content prev
  · simp
  · simp
  · simp
  · rename_i ih
    cases h : frameLoop bpp rowLen _ _ <;> simp_all [Outcome.map]

theorem decompressPredictor_no_panic (data : Bytes) (params : Option Dict) (s : String) :
    decompressPredictor data params ≠ .panic s := by
  unfold decompressPredictor
  split
  · simp
  · simp only []
    split
    · split
      · simp
      · unfold decodeFrame
        split
        · simp
        · split
          · simp
          · exact frameLoop_no_panic _ _ _ _ _
    · simp

theorem applyFilter_no_panic (ext : Ext) (params : Option Dict) (name input : Bytes) (s : String) :
    applyFilter ext params name input ≠ .panic s := by
  unfold applyFilter
  split
  · exact decompressPredictor_no_panic _ _ _
  · split
    · exact decompressPredictor_no_panic _ _ _
    · split
      · exact a85_no_panic' _ _
      · simp

theorem filterLoop_no_panic (ext : Ext) (params : Nat → Option Dict) : ∀ (fs : List Bytes) (i : Nat) (input : Bytes) (s : String),
    filterLoop ext params i fs input ≠ .panic s := by
  intro fs
  induction fs with
  | nil => intro i input s; simp [filterLoop]
  | cons f fs ih =>
    intro i input s
    unfold filterLoop
    cases h : applyFilter ext (params i) f input with
    | ok v => simp [Outcome.bind]; exact ih (i + 1) v s
    | err e => simp [Outcome.bind]
    | panic s' => exact absurd h (applyFilter_no_panic _ _ _ _ _)

/-- **`Stream::decompressed_content` never panics**, for every stream dictionary, content and every
behaviour of flate2 / weezl -/
theorem decompressedContent_no_panic (ext : Ext) (st : Strm) (s : String) : decompressedContent ext st ≠ .panic s := by
  unfold decompressedContent
  split
  · simp
  · simp
  · exact filterLoop_no_panic _ _ _ _ _ _

/-- `get_page_content` returns `Ok` whenever the filters do not panic -/
theorem getPageContent_ok (decomp : Dict → Bytes → Outcome Bytes) (hd : ∀ d c s, decomp d c ≠ .panic s)
    (os : Objects) (pid : ObjId) : ∃ b, getPageContent decomp os pid = .ok b := by
  unfold getPageContent
  generalize getPageContents os pid = ids
  suffices h : ∀ (ids : List ObjId) (b0 : Bytes), ∃ b, ids.foldl (fun (acc : Outcome Bytes) id =>
      match acc with
      | .ok sofar =>
        match (getObject os id).bind Obj.asStream with
        | none => .ok sofar
        | some (d, c) =>
          match decomp d c with
          | .ok data => .ok (sofar ++ data)
          | .err _ => .ok (sofar ++ c)
          | .panic s => .panic s
      | other => other) (.ok b0) = .ok b from h ids []
  intro ids
  induction ids with
  | nil => intro b0; exact ⟨b0, rfl⟩
  | cons id rest ih =>
    intro b0
    simp only [List.foldl_cons]
    split
    · exact ih b0
    · rename_i d c _
      cases hdc : decomp d c with
      | ok data => exact ih _
      | err e => exact ih _
      | panic s => exact absurd hdc (hd d c s)

/-- **`get_page_content` with the real filter chain (C09's model) always returns `Ok`** -/
theorem getPageContent_filters_ok (ext : Ext) (os : Objects) (pid : ObjId) :
    ∃ b, getPageContent (decompOf ext) os pid = .ok b :=
  getPageContent_ok _ (fun _ _ _ => decompressedContent_no_panic _ _ _) os pid

theorem getPlainContent_no_panic (ext : Ext) (st : Strm) (s : String) : getPlainContent ext st ≠ .panic s := by
  unfold getPlainContent
  split
  · exact decompressedContent_no_panic _ _ _
  · simp

/-- a font encoding is *safe* when its one-byte table is one of the regenerated tables, or its CMap
was built by `from_sections` -/
def SafeFontEnc : FontEnc → Prop
  | .std e => SafeEnc e
  | .cmap m => ∀ c l, (CMap.get m c l).isPanic = false

theorem cmapDecode_no_panic (m : CMap.UMap) (hg : ∀ c l, (CMap.get m c l).isPanic = false) (bs : Bytes) (s : String) :
    cmapDecode m bs ≠ .panic s := by
  unfold cmapDecode CMap.bytesToUnits
  have := CMap.segLoop_no_panic m hg (bs.map UInt8.toNat) (0, 0)
  cases hr : CMap.segLoop m (0, 0) (bs.map UInt8.toNat) with
  | ok v => simp [Outcome.map]
  | err e => simp [Outcome.map]
  | panic s' => rw [hr] at this; simp [Outcome.isPanic] at this

theorem FontEnc.decode_no_panic (e : FontEnc) (he : SafeFontEnc e) (bs : Bytes) (s : String) : e.decode bs ≠ .panic s := by
  cases e with
  | std e => exact decodeText_no_panic e he bs s
  | cmap m => exact cmapDecode_no_panic m he bs s

/-- **`get_font_encoding` never panics and only returns safe encodings** — for every document, font
dictionary, ToUnicode stream content (any bytes) and behaviour of flate2 / weezl -/
theorem fontEnc_safe (ext : Ext) (os : Objects) (font : Dict) :
    (∀ s, fontEnc ext os font ≠ .panic s) ∧ ∀ e, fontEnc ext os font = .ok e → SafeFontEnc e := by
  have hk := font_tables_known
  simp only [Bool.and_eq_true, List.all_eq_true, List.contains_iff_mem] at hk
  have hcm : ∀ d c, (∀ s, cmapOfStream ext d c ≠ .panic s) ∧ ∀ e, cmapOfStream ext d c = .ok e → SafeFontEnc e := by
    intro d c
    unfold cmapOfStream
    cases hp : getPlainContent ext ⟨d, c⟩ with
    | err e => simp
    | panic s' => exact absurd hp (getPlainContent_no_panic _ _ _)
    | ok text =>
      simp only []
      cases hm : (CMap.parseCMap text).bind CMap.fromSections with
      | none => simp
      | some m =>
        refine ⟨by simp, ?_⟩
        intro e he
        simp at he; subst he
        cases hps : CMap.parseCMap text with
        | none => rw [hps] at hm; simp at hm
        | some ss =>
          rw [hps] at hm; simp only [Option.bind_some] at hm
          exact CMap.cmap_get_never_panics ss m hm
  unfold fontEnc
  split
  · simp
  · split
    · rename_i n _
      split
      · rename_i t hl
        refine ⟨by simp, ?_⟩
        intro e he; simp at he; subst he
        intro t' ht'; cases ht'
        exact hk.1 (_, t) (lookupName_mem _ _ _ hl)
      · split
        · split
          · exact hcm _ _
          · simp
        · refine ⟨by simp, ?_⟩
          intro e he; simp at he; subst he
          intro t' ht'; cases ht'
    · split
      · exact hcm _ _
      · refine ⟨by simp, ?_⟩
        intro e he; simp at he; subst he
        intro t' ht'; cases ht'
        exact hk.2

theorem fontEncs_safe (ext : Ext) (os : Objects) : ∀ (fonts : List (Bytes × Dict)),
    (∀ s, fontEncs ext os fonts ≠ .panic s) ∧
    ∀ encs, fontEncs ext os fonts = .ok encs → ∀ p ∈ encs, SafeFontEnc p.2 := by
  intro fonts
  induction fonts with
  | nil => refine ⟨by simp [fontEncs], ?_⟩; intro encs h; simp [fontEncs] at h; subst h; simp
  | cons p rest ih =>
    obtain ⟨n, f⟩ := p
    obtain ⟨h1, h2⟩ := fontEnc_safe ext os f
    obtain ⟨i1, i2⟩ := ih
    unfold fontEncs
    cases hf : fontEnc ext os f with
    | panic s' => exact absurd hf (h1 s')
    | err e =>
      cases hr : fontEncs ext os rest with
      | panic s' => exact absurd hr (i1 s')
      | err e' => simp
      | ok es => simp
    | ok e =>
      cases hr : fontEncs ext os rest with
      | panic s' => exact absurd hr (i1 s')
      | err e' => simp
      | ok es =>
        refine ⟨by simp, ?_⟩
        intro encs he; simp at he; subst he
        intro q hq
        rcases List.mem_cons.mp hq with rfl | hq
        · exact h2 e hf
        · exact i2 es hr q hq

mutual
theorem collectObjF_no_panic (e : FontEnc) (he : SafeFontEnc e) (site : String) :
    ∀ (o : Obj) (text : UStr), collectObjF e text o ≠ .panic site
  | .str bs f, text => by
    have := FontEnc.decode_no_panic e he bs
    unfold collectObjF
    cases h : e.decode bs with
    | ok v => simp
    | err x => simp
    | panic x => exact absurd h (this x)
  | .arr items, text => by
    have := collectListF_no_panic e he site items text
    unfold collectObjF
    cases h : collectListF e text items with
    | ok v => simp
    | err x => simp
    | panic x => simp; intro hx; subst hx; exact this h
  | .int i, text => by unfold collectObjF; simp
  | .null, text => by unfold collectObjF; simp
  | .bool _, text => by unfold collectObjF; simp
  | .real _, text => by unfold collectObjF; simp
  | .name _, text => by unfold collectObjF; simp
  | .dict _, text => by unfold collectObjF; simp
  | .stream _ _, text => by unfold collectObjF; simp
  | .ref _ _, text => by unfold collectObjF; simp
theorem collectListF_no_panic (e : FontEnc) (he : SafeFontEnc e) (site : String) :
    ∀ (os : List Obj) (text : UStr), collectListF e text os ≠ .panic site
  | [], text => by unfold collectListF; simp
  | o :: os, text => by
    have h1 := collectObjF_no_panic e he site o text
    unfold collectListF
    cases h : collectObjF e text o with
    | ok t => exact collectListF_no_panic e he site os t
    | err x => simp
    | panic x => simp; intro hx; subst hx; exact h1 h
end

theorem lookupFontEnc_mem : ∀ (encs : List (Bytes × FontEnc)) (n : Bytes) (e : FontEnc),
    lookupFontEnc n encs = some e → ∃ k, (k, e) ∈ encs
  | [], _, _, h => by simp [lookupFontEnc] at h
  | (k, e') :: rest, n, e, h => by
    simp only [lookupFontEnc] at h
    split at h
    · simp at h; subst h; exact ⟨k, List.mem_cons_self⟩
    · obtain ⟨k', hk'⟩ := lookupFontEnc_mem rest n e h
      exact ⟨k', List.mem_cons_of_mem _ hk'⟩

theorem extractLoopF_no_panic (encs : List (Bytes × FontEnc)) (hs : ∀ p ∈ encs, SafeFontEnc p.2) (site : String) :
    ∀ (ops : List (Bytes × List Obj)) (st : XStateF), (∀ e, st.cur = some e → SafeFontEnc e) →
      extractLoopF encs ops st ≠ .panic site
  | [], st, _ => by simp [extractLoopF]
  | (op, operands) :: rest, st, hc => by
    unfold extractLoopF
    split
    · split
      · simp
      · split
        · simp
        · rename_i n hn
          apply extractLoopF_no_panic encs hs site rest
          intro e he
          obtain ⟨k, hk⟩ := lookupFontEnc_mem encs n e he
          exact hs (k, e) hk
    · split
      · split
        · exact extractLoopF_no_panic encs hs site rest st hc
        · rename_i e he
          have h1 := collectListF_no_panic e (hc e he) site operands st.text
          cases hcl : collectListF e st.text operands with
          | ok t => exact extractLoopF_no_panic encs hs site rest _ (fun e' he' => hc e' he')
          | err x => simp
          | panic x => simp; intro hx; subst hx; exact h1 hcl
      · split
        · exact extractLoopF_no_panic encs hs site rest _ (fun e' he' => hc e' he')
        · exact extractLoopF_no_panic encs hs site rest st hc

theorem extractPage_no_panic (ext : Ext) (os : Objects) (pid : ObjId) (s : String) : extractPage ext os pid ≠ .panic s := by
  unfold extractPage
  split
  · simp
  · rename_i s' h; exact absurd h (getPageFonts_total _ _ _)
  · rename_i fonts _
    obtain ⟨f1, f2⟩ := fontEncs_safe ext os fonts
    split
    · rename_i s' h; exact absurd h (f1 s')
    · rename_i encs hne
      obtain ⟨b, hb⟩ := getPageContent_filters_ok ext os pid
      rw [hb]
      simp only []
      split
      · simp
      · rename_i s' h
        exact absurd h ((noPanic_iff _).mp (decodeContent_never_panics b) s')
      · split
        · rename_i es hes
          exact extractLoopF_no_panic es (f2 es hes) s _ _ (by intro e h; simp at h)
        · simp
        · rename_i s' h; exact absurd h (f1 s')

theorem joinPages_no_panic : ∀ (rs : List (Outcome UStr)), (∀ r ∈ rs, ∀ s, r ≠ .panic s) → ∀ s, joinPages rs ≠ .panic s := by
  intro rs
  induction rs with
  | nil => intro _ s; simp [joinPages]
  | cons r rest ih =>
    intro h s
    have hr := h r List.mem_cons_self
    have hrest := ih (fun r' hr' => h r' (List.mem_cons_of_mem _ hr'))
    unfold joinPages
    split
    · exact hr s
    · rename_i s' _ hj; exact absurd hj (hrest s')
    · simp
    · simp
    · simp

/-- **`extract_text` never panics** (ToUnicode CMaps included): for every document, every list
of page numbers and every behaviour of flate2 / weezl, composing page lookup (C12/C13), fonts (C13),
the filter chain (C09), the content parser (C04/C14) and the text loop with the one-byte tables
(C16). Memory bound as for `get_pages`. -/
theorem extractText_no_panic (memMax : Nat) (ext : Ext) (trailer : Dict) (os : Objects) (nums : List Nat)
    (hmem : (2 * os.length + 4) * 12 ≤ memMax) (hM : memMax ≤ ISIZE_MAX) (s : String) :
    extractTextDoc memMax ext trailer os nums ≠ .panic s := by
  unfold extractTextDoc
  rw [getPages_eq_pageIter memMax trailer os hmem hM]
  simp only []
  apply joinPages_no_panic
  intro r hr s'
  simp only [List.mem_map] at hr
  obtain ⟨n, _, rfl⟩ := hr
  split
  · simp
  · exact extractPage_no_panic _ _ _ _

end Lopdf.Q13
