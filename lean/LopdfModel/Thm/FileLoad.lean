import LopdfModel.Thm.FileStart
/-
  C01/C03 (file level) — **loading a saved file reconstructs the cross-reference table the
  writer recorded** (both kinds), composed from `xref_table_rt`, `xref_stream_rt`,
  `getXrefStart_tail` and the shape of `saveFrom`; with `writeObjects_offsets` every entry the
  READER holds points at its object's `n g obj` header.
-/
namespace Lopdf.FileRT
open Lopdf Gen

/-! ### the exact bytes of a save -/

def hdrOf (pre : Bytes) (d : SDoc) : Bytes := pre ++ PDF_KW ++ d.version ++ [10] ++ [37] ++ d.binaryMark ++ [10]
/-- header and objects: everything before the cross-reference section -/
def bodyOf (pre : Bytes) (d : SDoc) : Bytes := (writeObjects d.objects (hdrOf pre d) []).1
/-- the entries the object loop recorded -/
def xmapOf (pre : Bytes) (d : SDoc) : XrefMap := (writeObjects d.objects (hdrOf pre d) []).2

/-- the map of a cross-reference-stream save: the stream's own entry added -/
def xmapStream (pre : Bytes) (d : SDoc) : XrefMap :=
  (xmapOf pre d).insert (d.maxId + 1) ((bodyOf pre d).length % 4294967296, 0)

def streamTrailer (pre : Bytes) (d : SDoc) : Dict :=
  let secs := streamSecs (xmapStream pre d) (d.maxId + 1)
  ((((((d.trailer.set TYPE (.name XREF_NAME)).set SIZE (.int (d.maxId + 1 + 1))).set W_KEY
    (.arr (XREF_W.map fun (w : Nat) => Obj.int (Int.ofNat w)))).set INDEX (xrefStreamIndex secs)).remove FILTER).set
    LENGTH (.int (xrefStreamContent secs).length))

theorem saveFrom_table_eq (pre : Bytes) (d : SDoc) (out : Bytes) (d' : SDoc) (hk : d.xrefKind = .table)
    (h : saveFrom pre d = some (out, d')) :
    out = bodyOf pre d ++ writeXrefTable (xmapOf pre d) (d.maxId + 1) ++ TRAILER_KW
        ++ writeObj (.dict (d.trailer.set SIZE (.int (d.maxId + 1))))
        ++ STARTXREF_KW ++ natDigits (bodyOf pre d).length ++ EOF_KW
      ∧ d'.trailer = d.trailer.set SIZE (.int (d.maxId + 1)) := by
  unfold saveFrom at h
  split at h
  · cases h
  · simp only [hk] at h
    injection h with h
    injection h with h1 h2
    subst h1; subst h2
    exact ⟨rfl, rfl⟩

theorem saveFrom_stream_eq (pre : Bytes) (d : SDoc) (out : Bytes) (d' : SDoc) (hk : d.xrefKind = .stream)
    (h : saveFrom pre d = some (out, d')) :
    out = bodyOf pre d ++ writeIndirect (d.maxId + 1) 0
          (.stream (streamTrailer pre d) (xrefStreamContent (streamSecs (xmapStream pre d) (d.maxId + 1))))
        ++ STARTXREF_KW ++ natDigits (bodyOf pre d).length ++ EOF_KW
      ∧ d'.trailer = streamTrailer pre d := by
  unfold saveFrom at h
  split at h
  · cases h
  · simp only [hk] at h
    injection h with h
    injection h with h1 h2
    subst h1; subst h2
    have e : d.maxId + 2 = (d.maxId + 1) + 1 := rfl
    simp only [streamTrailer, xmapStream, bodyOf, xmapOf, hdrOf, ← xrefStreamLoop_secs, e]
    exact ⟨rfl, rfl⟩

theorem body_le_out (pre : Bytes) (d : SDoc) (out : Bytes) (d' : SDoc)
    (h : saveFrom pre d = some (out, d')) : (bodyOf pre d).length ≤ out.length := by
  cases hk : d.xrefKind with
  | table =>
    rw [(saveFrom_table_eq pre d out d' hk h).1]
    simp only [List.length_append]; omega
  | stream =>
    rw [(saveFrom_stream_eq pre d out d' hk h).1]
    simp only [List.length_append]; omega

/-- **`startxref` is found (C01/C03).** For every document and every prefix `pre` (`[]` for a
plain save, the previous revisions for an incremental one): on the bytes `save` wrote,
`Reader::get_xref_start` returns exactly the length of the body — the offset at which the
writer put the cross-reference section. Hypothesis: the file is shorter than 4 GiB (lopdf's
offsets are `u32`; what is actually used is |body| < 10^14, so that `startxref` lies within the
25 bytes before `%%EOF` that the reader searches). Nothing follows the final `%%EOF` because it
is the suffix of the output, so "last occurrence" is the real marker. -/
theorem startxref_found (pre : Bytes) (d : SDoc) (out : Bytes) (d' : SDoc)
    (h : saveFrom pre d = some (out, d')) (hlen : out.length < 4294967296) :
    getXrefStart out = some (bodyOf pre d).length := by
  have hb := body_le_out pre d out d' h
  cases hk : d.xrefKind with
  | table =>
    rw [(saveFrom_table_eq pre d out d' hk h).1]
    apply getXrefStart_tail
    · simp only [List.length_append, writeXrefTable]
      simp [XREF_KW, TRAILER_KW]; omega
    · omega
  | stream =>
    rw [(saveFrom_stream_eq pre d out d' hk h).1]
    apply getXrefStart_tail
    · have h1 : 1 ≤ (natDigits (d.maxId + 1)).length := by
        obtain ⟨a, as, e, _⟩ := natDigits_head (d.maxId + 1)
        rw [e]; simp
      simp only [List.length_append, writeIndirect]
      simp; omega
    · omega

/-! ### white space in front of the trailer and the stream -/

theorem space_stop (b : UInt8) (r : Bytes) (h1 : isWhitespace b = false) (h2 : b ≠ 37) :
    space (b :: r) = b :: r := by
  have hc : comment (b :: r) = none := by
    unfold comment
    split
    · rename_i heq; injection heq with e _; exact absurd e h2
    · rfl
  unfold space
  simp only [spaceF, spanP, h1, Bool.false_eq_true, if_false, hc]

theorem space_nl_stop (b : UInt8) (r : Bytes) (h1 : isWhitespace b = false) (h2 : b ≠ 37) :
    space (10 :: b :: r) = b :: r := by
  have hw : isWhitespace 10 = true := by decide
  have hc : comment (b :: r) = none := by
    unfold comment
    split
    · rename_i heq; injection heq with e _; exact absurd e h2
    · rfl
  unfold space
  simp only [List.length_cons, spaceF, spanP, hw, if_true, h1, Bool.false_eq_true, if_false, hc]

/-- the object-level fact the file theorems are composed with (C01 `obj_rt` for dictionaries):
the dictionary `tr` written by `write_dictionary` is read back by `dictionary` as `tr` when
followed by `rest` -/
def DictReadsBack (tr : Dict) (rest : Bytes) : Prop :=
  pDictionary (writeObj (.dict tr) ++ rest) = some (tr, rest)

/-- general form: the written dictionary `tr` is read back as `tr'` (e.g. with reals normalised) -/
def DictReadsBackN (tr tr' : Dict) (rest : Bytes) : Prop :=
  pDictionary (writeObj (.dict tr) ++ rest) = some (tr', rest)

theorem writeObj_dict_cons (tr : Dict) : ∃ w, writeObj (.dict tr) = 60 :: 60 :: w := by
  exact ⟨writeDictBody tr ++ [62, 62], by simp [writeObj]⟩

theorem writeObjects_mapOk : ∀ (os : Objects) (out : Bytes) (x : XrefMap),
    XrefMapOk x → (∀ p ∈ os, p.1.2 < 65536) → XrefMapOk (writeObjects os out x).2 := by
  intro os
  induction os with
  | nil => intro out x hx _; simpa [writeObjects] using hx
  | cons p rest ih =>
    intro out x hx hg
    obtain ⟨⟨n, g⟩, o⟩ := p
    simp only [writeObjects]
    split
    · exact ih out x hx (fun q hq => hg q (by simp [hq]))
    · apply ih _ _ _ (fun q hq => hg q (by simp [hq]))
      intro m off g' hget
      have hgg := hg ((n, g), o) (by simp)
      simp only at hgg
      by_cases hm : m = n
      · subst hm
        rw [XrefMap.get_insert_same] at hget
        injection hget with hget
        injection hget with h1 h2
        subst h1; subst h2
        exact ⟨Nat.mod_lt _ (by omega), hgg⟩
      · rw [XrefMap.get_insert_other _ _ _ _ hm] at hget
        exact hx m off g' hget

/-- generations are `u16` (`ObjectId = (u32, u16)`) -/
def GensOk (d : SDoc) : Prop := ∀ p ∈ d.objects, p.1.2 < 65536

theorem xmapOf_ok (pre : Bytes) (d : SDoc) (hg : GensOk d) : XrefMapOk (xmapOf pre d) :=
  writeObjects_mapOk _ _ [] (by intro n off g h; simp [XrefMap.get] at h) hg

theorem noDigit_trailer (r : Bytes) : NoDigitAhead (TRAILER_KW ++ r) := by
  intro b r' h; simp [TRAILER_KW] at h; obtain ⟨rfl, _⟩ := h; decide

/-- `xref_and_trailer` on a written table + trailer, whatever follows the trailer dictionary
(`tail`), given that the dictionary reads back there -/
theorem xrefAndTrailer_tableN (x : XrefMap) (size : Nat) (tr tr' : Dict) (tail : Bytes)
    (hx : XrefMapOk x) (hs : size ≤ 4294967295) (hD : DictReadsBackN tr tr' tail)
    (hsz : tr'.get SIZE = some (.int (size : Int))) :
    ∃ table, xrefAndTrailer (writeXrefTable x size ++ (TRAILER_KW ++ (writeObj (.dict tr) ++ tail)))
        = .ok (table, size, tr') ∧
      (∀ n, table.get n = if 1 ≤ n ∧ n < size then normalOf x n else none) ∧
      (table.map (·.1)).Nodup := by
  obtain ⟨table, hp, hget⟩ := xref_table_rt x size (TRAILER_KW ++ (writeObj (.dict tr) ++ tail)) hx hs
    (noDigit_trailer _)
  have hnodup : (table.map (·.1)).Nodup := by
    obtain ⟨table', hp', hn'⟩ := xref_table_rt_nodup x size (TRAILER_KW ++ (writeObj (.dict tr) ++ tail)) hx hs
      (noDigit_trailer _)
    rw [hp] at hp'
    injection hp' with hp'
    injection hp' with hp'
    injection hp' with hp' _
    rw [hp']; exact hn'
  refine ⟨table, ?_, hget, hnodup⟩
  obtain ⟨w, hw⟩ := writeObj_dict_cons tr
  have hsp : space (TRAILER_KW ++ (writeObj (.dict tr) ++ tail)) = TRAILER_KW ++ (writeObj (.dict tr) ++ tail) := by
    simp only [TRAILER_KW, List.cons_append]
    exact space_stop 116 _ (by decide) (by decide)
  have htg : tag TRAILER_WORD (TRAILER_KW ++ (writeObj (.dict tr) ++ tail))
      = some (10 :: (writeObj (.dict tr) ++ tail)) := by
    simp [TRAILER_KW, TRAILER_WORD, tag]
  have hsp2 : space (10 :: (writeObj (.dict tr) ++ tail)) = writeObj (.dict tr) ++ tail := by
    rw [hw]
    simp only [List.cons_append]
    exact space_nl_stop 60 _ (by decide) (by decide)
  have hsz' : (tr'.get SIZE).bind Obj.asInt = some (size : Int) := by
    rw [hsz]; simp [Obj.asInt]
  have hmod : ((size : Int) % (U32 : Int)).toNat = size := by
    simp [U32]; omega
  unfold DictReadsBackN at hD
  unfold xrefAndTrailer
  rw [hp]
  simp only [hsp, pTrailer, htg, Option.bind_some, hsp2, hD, Option.map_some, hsz', hmod]

theorem xrefAndTrailer_table (x : XrefMap) (size : Nat) (tr : Dict) (tail : Bytes)
    (hx : XrefMapOk x) (hs : size ≤ 4294967295) (hD : DictReadsBack tr tail)
    (hsz : tr.get SIZE = some (.int (size : Int))) :
    ∃ table, xrefAndTrailer (writeXrefTable x size ++ (TRAILER_KW ++ (writeObj (.dict tr) ++ tail)))
        = .ok (table, size, tr) ∧
      (∀ n, table.get n = if 1 ≤ n ∧ n < size then normalOf x n else none) ∧
      (table.map (·.1)).Nodup :=
  xrefAndTrailer_tableN x size tr tr tail hx hs hD hsz

/-- **Loading a table save reconstructs the writer's table (C01/C03).** For every document saved
with a classic table (file < 4 GiB, `max_id + 1 ≤ u32::MAX`, `u16` generations) whose trailer
dictionary reads back (object-level round trip): the reader finds `startxref`, and
`xref_and_trailer` at that offset returns a table that holds `normal off g` for object `n` iff
`1 ≤ n ≤ max_id` and the writer recorded `n ↦ (off, g)`; hence (offset invariant) every entry
the reader holds points at the bytes `n g obj\n` of the file. `Size` read back is `max_id + 1`. -/
theorem load_xref_of_save_tableN (pre : Bytes) (d : SDoc) (out : Bytes) (d' : SDoc) (tr' : Dict)
    (hk : d.xrefKind = .table) (h : saveFrom pre d = some (out, d')) (hlen : out.length < 4294967296)
    (hmax : d.maxId + 1 ≤ 4294967295) (hg : GensOk d)
    (hD : DictReadsBackN d'.trailer tr' (STARTXREF_KW ++ natDigits (bodyOf pre d).length ++ EOF_KW))
    (hsz : tr'.get SIZE = some (.int ((d.maxId + 1 : Nat) : Int))) :
    ∃ xs table, getXrefStart out = some xs ∧ xs ≤ out.length ∧
      xrefAndTrailer (out.drop xs) = .ok (table, d.maxId + 1, tr') ∧
      (∀ n, table.get n = if 1 ≤ n ∧ n < d.maxId + 1 then normalOf (xmapOf pre d) n else none) ∧
      (∀ n off g, table.get n = some (.normal off g) → HeaderAt out off n g) ∧
      (table.map (·.1)).Nodup := by
  obtain ⟨hout, htr⟩ := saveFrom_table_eq pre d out d' hk h
  have hb := body_le_out pre d out d' h
  have hoff : OffsetsOk (bodyOf pre d) (xmapOf pre d) :=
    save_offsets pre d (by unfold bodyOf hdrOf at hb; omega)
  have hxok := xmapOf_ok pre d hg
  generalize htail : STARTXREF_KW ++ natDigits (bodyOf pre d).length ++ EOF_KW = tail at hD
  have e : out = bodyOf pre d ++ (writeXrefTable (xmapOf pre d) (d.maxId + 1)
      ++ (TRAILER_KW ++ (writeObj (.dict d'.trailer) ++ tail))) := by
    rw [hout, htr, ← htail]; simp only [List.append_assoc]
  obtain ⟨table, hxt, hget, hnodup⟩ := xrefAndTrailer_tableN (xmapOf pre d) (d.maxId + 1) d'.trailer tr' tail hxok hmax hD
    hsz
  refine ⟨(bodyOf pre d).length, table, startxref_found pre d out d' h hlen, hb, ?_, hget, ?_, hnodup⟩
  · rw [e, List.drop_left]
    exact hxt
  · intro n off g hn
    rw [hget n] at hn
    split at hn
    · simp only [normalOf] at hn
      cases hx : (xmapOf pre d).get n with
      | none => simp [hx] at hn
      | some p =>
        obtain ⟨a, b⟩ := p
        simp [hx] at hn
        obtain ⟨rfl, rfl⟩ := hn
        rw [e]
        exact HeaderAt_append _ _ _ _ _ (hoff n a b hx)
    · cases hn

theorem load_xref_of_save_table (pre : Bytes) (d : SDoc) (out : Bytes) (d' : SDoc)
    (hk : d.xrefKind = .table) (h : saveFrom pre d = some (out, d')) (hlen : out.length < 4294967296)
    (hmax : d.maxId + 1 ≤ 4294967295) (hg : GensOk d)
    (hD : DictReadsBack d'.trailer (STARTXREF_KW ++ natDigits (bodyOf pre d).length ++ EOF_KW)) :
    ∃ xs table, getXrefStart out = some xs ∧ xs ≤ out.length ∧
      xrefAndTrailer (out.drop xs) = .ok (table, d.maxId + 1, d'.trailer) ∧
      (∀ n, table.get n = if 1 ≤ n ∧ n < d.maxId + 1 then normalOf (xmapOf pre d) n else none) ∧
      (∀ n off g, table.get n = some (.normal off g) → HeaderAt out off n g) ∧
      (table.map (·.1)).Nodup :=
  load_xref_of_save_tableN pre d out d' d'.trailer hk h hlen hmax hg hD
    (by rw [(saveFrom_table_eq pre d out d' hk h).2, Dict.get_set_same]; simp)

end Lopdf.FileRT
