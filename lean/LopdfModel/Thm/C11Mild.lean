import LopdfModel.Thm.C11Refs
/-
  C11 — property theorems, part 6: the editing calls that rewrite objects one at a time are mild steps.
-/
namespace Lopdf.Ed
open Lopdf Lopdf.DictL

/-! ### the editing calls that are mild steps -/

theorem derefAux_mem (os : Objects) : ∀ (n : Nat) (o o' : Obj), derefAux os n o = some o' → o' = o ∨ ∃ k, os.get k = some o' := by
  intro n
  induction n with
  | zero =>
    intro o o' h
    cases o <;> simp only [derefAux] at h <;> try (cases h; exact Or.inl rfl)
    split at h <;> cases h
  | succ n ih =>
    intro o o' h
    cases o <;> simp only [derefAux] at h <;> try (cases h; exact Or.inl rfl)
    split at h
    · cases h
    · rename_i o1 hg
      rcases ih o1 o' h with e | e
      · subst e; exact Or.inr ⟨_, hg⟩
      · exact Or.inr e

/-- a dictionary `get_dictionary` returns is the value of some object -/
theorem getDictionary_mem (os : Objects) (id : ObjId) (page : Dict) (h : getDictionary os id = some page) :
    ∃ k, os.get k = some (.dict page) := by
  unfold getDictionary getObject at h
  cases hg : os.get id with
  | none => rw [hg] at h; cases h
  | some o =>
    rw [hg] at h; simp only [Option.bind_some] at h
    cases hd : deref os o with
    | none => rw [hd] at h; cases h
    | some o' =>
      rw [hd] at h; simp only [Option.bind_some] at h
      have : o' = .dict page := by cases o' <;> simp [Obj.asDict] at h; rw [h]
      subst this
      rcases derefAux_mem os _ o _ hd with e | e
      · subst e; exact ⟨id, hg⟩
      · exact e

theorem inheritedResAux_refs (os : Objects) : ∀ (fuel : Nat) (st : Option ObjId) (res : Dict),
    inheritedResAux os fuel st = some res → ∀ r ∈ refsOfD res, ∃ k o, os.get k = some o ∧ r ∈ refsOf o := by
  intro fuel
  induction fuel with
  | zero => intro st res h; simp [inheritedResAux] at h
  | succ fuel ih =>
    intro st res h r hr
    cases st with
    | none => simp [inheritedResAux] at h
    | some id =>
      simp only [inheritedResAux] at h
      cases hg : getDictionary os id with
      | none => rw [hg] at h; cases h
      | some anc =>
        rw [hg] at h; simp only at h
        obtain ⟨k0, hk0⟩ := getDictionary_mem os id anc hg
        split at h
        · rename_i n g _
          obtain ⟨k1, hk1⟩ := getDictionary_mem os (n, g) res h
          exact ⟨k1, _, hk1, by simpa [refsOf] using hr⟩
        · rename_i r' hres
          cases h
          exact ⟨k0, _, hk0, by simp only [refsOf]; exact refs_of_get anc kResources _ hres r (by simpa [refsOf] using hr)⟩
        · cases h
        · exact ih _ res h r hr

theorem inheritedRes_refs (os : Objects) (node : Dict) (r : ObjId) (hr : r ∈ refsOfD (inheritedRes os node)) :
    ∃ k o, os.get k = some o ∧ r ∈ refsOf o := by
  unfold inheritedRes at hr
  cases h : inheritedResAux os (os.length + 1) ((Dict.get node PARENT).bind Obj.asRef) with
  | none => rw [h] at hr; simp [refsOfD] at hr
  | some res => rw [h] at hr; exact inheritedResAux_refs os _ _ res h r (by simpa using hr)

theorem contents_notProt : CONTENTS ∉ Prot := by decide
theorem annots_notProt : kAnnots ∉ Prot := by decide
theorem resources_notProt : kResources ∉ Prot := by decide
theorem xobject_notProt : kXObject ∉ Prot := by decide
theorem extgstate_notProt : kExtGState ∉ Prot := by decide

theorem mildStep_setDictEntry (Ex : ObjId → Prop) (d : Doc) (id : ObjId) (key : Bytes) (v : Obj) (hk : key ∉ Prot)
    (hr : ∀ r ∈ refsOf v, Ex r) : MildStep Ex d (setDictEntry d id key v).1 := by
  rcases setDictEntry_frame d id key v with ⟨_, he⟩ | ⟨t, pd, _, hg, f1, _, f3, f4⟩
  · rw [he]; exact mildStep_refl Ex d
  · refine ⟨f1, ?_, ?_⟩
    · intro k o ho
      by_cases e : k = t
      · subst e; rw [hg] at ho; cases ho
        exact ⟨_, f3, mild_dictSet Ex pd key v hk (fun r h => Or.inr (hr r h))⟩
      · exact ⟨o, by rw [f4 k e]; exact ho, mild_refl Ex o⟩
    · intro k o' h1 h2
      by_cases e : k = t
      · subst e; rw [hg] at h1; cases h1
      · rw [f4 k e, h1] at h2; cases h2

theorem refs_contentsList (page : Dict) (r : ObjId) (h : r ∈ refsOfL (contentsList page)) : r ∈ refsOfD page := by
  unfold contentsList at h
  split at h
  · rename_i n g hc; exact refs_of_get page CONTENTS _ hc r (by simpa [refsOfL, refsOf] using h)
  · rename_i a hc; exact refs_of_get page CONTENTS _ hc r (by simpa [refsOf] using h)
  · simp [refsOfL] at h

theorem refs_streamNew (c : Bytes) : refsOf (streamNew [] c) = [] := by
  simp [streamNew, Dict.set, refsOf, refsOfD]

/-- `add_page_contents` -/
theorem mildStep_addPageContents (d : Doc) (pg : ObjId) (content : Bytes) (d' : Doc) (out : Out) (hinv : Inv d)
    (h : addPageContents d pg content = .ok (d', out)) :
    MildStep (fun r => (r = (d.maxId + 1, 0) ∧ (d'.objects.get r).isSome) ∨ HasRef d r) d d' := by
  unfold addPageContents at h
  cases hg : getDictionary d.objects pg with
  | none => rw [hg] at h; cases h; exact mildStep_refl _ d
  | some page =>
    rw [hg] at h; simp only at h
    split at h
    · cases h
    · have e := Outcome.ok.inj h
      have e1 := congrArg Prod.fst e
      simp only at e1
      have hnew : (d'.objects.get (d.maxId + 1, 0)).isSome := by
        rw [← e1]
        exact mildStep_isSome (mildStep_setDictEntry (fun _ => True) _ pg CONTENTS _ contents_notProt (fun _ _ => trivial))
          _ (by rw [addObject_get]; simp)
      rw [← e1] at hnew ⊢
      obtain ⟨k0, hk0⟩ := getDictionary_mem d.objects pg page hg
      apply mildStep_trans (mildStep_addObject _ d (streamNew [] content) (fresh_id d hinv) (by rw [refs_streamNew]; simp))
      apply mildStep_setDictEntry _ _ _ _ _ contents_notProt
      intro r hr
      simp only [refsOf] at hr
      obtain ⟨x, hx, hrx⟩ := (mem_refsOfL_iff r _).mp hr
      rcases List.mem_append.mp hx with hx | hx
      · exact Or.inr (Or.inr ⟨k0, _, hk0, by simp only [refsOf]; exact refs_contentsList page r ((mem_refsOfL_iff r _).mpr ⟨x, hx, hrx⟩)⟩)
      · simp at hx; subst hx; simp [refsOf] at hrx; subst hrx; exact Or.inl ⟨rfl, hnew⟩

theorem refs_retain (id : ObjId) (a : List Obj) (r : ObjId) (h : r ∈ refsOfL (retainNotRef id a)) : r ∈ refsOfL a := by
  obtain ⟨x, hx, hr⟩ := (mem_refsOfL_iff r _).mp h
  exact (mem_refsOfL_iff r _).mpr ⟨x, (List.mem_filter.mp hx).1, hr⟩

theorem mild_of_annotRel (Ex : ObjId → Prop) (id : ObjId) (o o' : Obj) (h : AnnotRel id o o') : Mild Ex o o' := by
  rcases h with rfl | ⟨pd, a, rfl, hg, rfl⟩
  · exact mild_refl Ex _
  · apply mild_dictSet Ex pd kAnnots _ annots_notProt
    intro r hr
    simp only [refsOf] at hr
    exact Or.inl (refs_of_get pd kAnnots _ hg r (by simp only [refsOf]; exact refs_retain id a r hr))

/-- `remove_object` -/
theorem mildStep_removeAnnot (Ex : ObjId → Prop) (id : ObjId) (pages : List ObjId) (d : Doc) :
    MildStep Ex d (removeAnnot id pages d).1 := by
  obtain ⟨f1, _, f3⟩ := removeAnnot_frame id pages d
  refine ⟨f1, ?_, ?_⟩
  · intro k o ho
    obtain ⟨o', e, r⟩ := (f3 k).2 o ho
    exact ⟨o', e, mild_of_annotRel Ex id o o' r⟩
  · intro k o' h1 h2
    rw [(f3 k).1 h1] at h2; cases h2

/-- `get_or_create_resources`: at most one page dictionary gains a `Resources` entry (a copy of inherited ones) -/
theorem mildStep_getOrCreate (Ex : ObjId → Prop) (d : Doc) (pg : ObjId) (d1 : Doc) (loc : ResLoc)
    (hex : ∀ r, HasRef d r → Ex r)
    (h : getOrCreateResources d pg = some (d1, loc)) : MildStep Ex d d1 := by
  unfold getOrCreateResources at h
  cases hg : getDictionary d.objects pg with
  | none => rw [hg] at h; cases h
  | some page =>
    rw [hg] at h; simp only at h
    split at h
    · cases ho : objectMutId d.objects _ with
      | none => rw [ho] at h; cases h
      | some t => rw [ho] at h; cases h; exact mildStep_refl _ d
    · cases ho : objectMutId d.objects pg with
      | none => rw [ho] at h; cases h
      | some t =>
        rw [ho] at h; simp only at h
        cases hpd : d.objects.get t with
        | none => rw [hpd] at h; cases h
        | some o =>
          rw [hpd] at h
          cases o <;> simp only at h <;> try (cases h; done)
          rename_i pd
          split at h
          · cases h; exact mildStep_refl _ d
          · cases h
            apply mildStep_setObj _ d t _ _ hpd
            apply mild_dictSet _ pd kResources _ resources_notProt
            intro r hr
            simp only [refsOf] at hr
            obtain ⟨k, o, hk, hro⟩ := inheritedRes_refs d.objects page r hr
            exact Or.inr (hex r (Or.inr ⟨k, o, hk, hro⟩))

/-- the resource dictionary with the sub-dictionary `cat` (created empty when missing) gaining `name -> tgt` -/
theorem mild_subEntry (Ex : ObjId → Prop) (res : Dict) (cat name : Bytes) (tgt : ObjId) (hc : cat ∉ Prot) (hx : Ex tgt)
    (sd : Dict) (hsd : Dict.get (if Dict.has res cat then res else Dict.set res cat (.dict [])) cat = some (.dict sd)) :
    Mild Ex (.dict res) (.dict (Dict.set (if Dict.has res cat then res else Dict.set res cat (.dict [])) cat
      (.dict (Dict.set sd name (.ref tgt.1 tgt.2))))) := by
  have h1 : Mild Ex (.dict res) (.dict (if Dict.has res cat then res else Dict.set res cat (.dict []))) := by
    split
    · exact mild_refl Ex _
    · exact mild_dictSet Ex res cat _ hc (by intro r hr; simp [refsOf, refsOfD] at hr)
  apply mild_trans h1
  apply mild_dictSet Ex _ cat _ hc
  intro r hr
  simp only [refsOf] at hr
  rcases refs_dictSet sd name _ r hr with h | h
  · exact Or.inl (refs_of_get _ cat _ hsd r (by simpa [refsOf] using h))
  · simp [refsOf] at h; subst h; exact Or.inr hx

theorem mildStep_writeLoc (Ex : ObjId → Prop) (d1 : Doc) (loc : ResLoc) (res v : Dict)
    (h : readLoc d1.objects loc = some (.dict res)) (hm : Mild Ex (.dict res) (.dict v)) :
    MildStep Ex d1 { d1 with objects := writeLoc d1.objects loc (.dict v) } := by
  cases loc with
  | obj id =>
    simp only [readLoc] at h
    simp only [writeLoc]
    exact mildStep_setObj Ex d1 id _ _ h hm
  | entry t =>
    simp only [readLoc] at h
    simp only [writeLoc]
    split at h
    · rename_i pd hpd
      apply mildStep_setObj Ex d1 t _ _ hpd
      apply mild_dictSet Ex pd kResources _ resources_notProt
      intro r hr
      rcases hm.1 r hr with h1 | h1
      · exact Or.inl (refs_of_get pd kResources _ h r h1)
      · exact Or.inr h1
    · cases h

/-- `add_xobject` -/
theorem mildStep_addXObject (d : Doc) (pg : ObjId) (name : Bytes) (xid : ObjId) (hn : name ∉ Prot) :
    MildStep (fun r => r = xid ∨ HasRef d r) d (addXObject d pg name xid).1 := by
  unfold addXObject
  cases hgo : getOrCreateResources d pg with
  | none => exact mildStep_refl _ d
  | some p =>
    obtain ⟨d1, loc⟩ := p
    have m1' : MildStep (fun r => r = xid ∨ HasRef d r) d d1 :=
      mildStep_getOrCreate _ d pg d1 loc (fun r hr => Or.inr hr) hgo
    simp only
    split
    · rename_i res hres
      split
      · rename_i n g hx
        split
        · exact m1'
        · rename_i t ht
          split
          · rename_i xd hxd
            apply mildStep_trans m1'
            apply mildStep_setObj _ d1 t _ _ hxd
            apply mild_dictSet _ xd name _ hn
            intro r hr; simp [refsOf] at hr; subst hr; exact Or.inr (Or.inl rfl)
          · exact m1'
      · rename_i xd hx
        apply mildStep_trans m1'
        exact mildStep_writeLoc _ d1 loc res _ hres (mild_subEntry _ res kXObject name xid xobject_notProt (Or.inl rfl) xd hx)
      · exact m1'
    · exact m1'

/-- `add_graphics_state` -/
theorem mildStep_addGState (d : Doc) (pg : ObjId) (name : Bytes) (gid : ObjId) :
    MildStep (fun r => r = gid ∨ HasRef d r) d (addGraphicsState d pg name gid).1 := by
  unfold addGraphicsState
  cases hgo : getOrCreateResources d pg with
  | none => exact mildStep_refl _ d
  | some p =>
    obtain ⟨d1, loc⟩ := p
    have m1' : MildStep (fun r => r = gid ∨ HasRef d r) d d1 :=
      mildStep_getOrCreate _ d pg d1 loc (fun r hr => Or.inr hr) hgo
    simp only
    split
    · rename_i res hres
      split
      · rename_i sd hx
        apply mildStep_trans m1'
        exact mildStep_writeLoc _ d1 loc res _ hres (mild_subEntry _ res kExtGState name gid extgstate_notProt (Or.inl rfl) sd hx)
      · exact m1'
    · exact m1'

theorem keep_stream (d : Dict) (c : Bytes) (o' : Obj) : Keep (.stream d c) o' := fun nd e => by cases e

theorem refs_plainThenCompress (deflated : Bytes) (dict : Dict) (c : Bytes) (r : ObjId)
    (h : r ∈ refsOf (plainThenCompress deflated dict c)) : r ∈ refsOfD dict := by
  have h1 : ∀ r, r ∈ refsOfD (Dict.set (Dict.remove (Dict.remove dict kDecodeParms) kFilter) LENGTHE (.int c.length)) →
      r ∈ refsOfD dict := by
    intro r hr
    rcases refs_dictSet _ _ _ r hr with hr | hr
    · exact refs_dictRemove _ _ r (refs_dictRemove _ _ r hr)
    · simp [refsOf] at hr
  unfold plainThenCompress at h
  simp only at h
  split at h
  · simp only [refsOf] at h
    rcases refs_dictSet _ _ _ r h with h | h
    · rcases refs_dictSet _ _ _ r h with h | h
      · exact h1 r (refs_dictRemove _ _ r h)
      · simp [refsOf] at h
    · simp [refsOf] at h
  · simp only [refsOf] at h; exact h1 r h

/-- `change_content_stream` -/
theorem mildStep_changeContentStream (Ex : ObjId → Prop) (f : Bytes → Bytes) (d : Doc) (sid : ObjId) (c : Bytes) :
    MildStep Ex d (changeContentStream f d sid c) := by
  unfold changeContentStream
  cases hg : d.objects.get sid with
  | none => exact mildStep_refl Ex d
  | some o =>
    cases o <;> simp only <;> try exact mildStep_refl Ex d
    rename_i dict c0
    apply mildStep_setObj Ex d sid _ _ hg
    exact ⟨fun r hr => Or.inl (by simp only [refsOf]; exact refs_plainThenCompress _ dict c r hr), keep_stream _ _ _⟩

/-- `change_page_content` -/
theorem mildStep_changePageContent (f : Bytes → Bytes) (d : Doc) (pg : ObjId) (c : Bytes) (d' : Doc) (out : Out) (hinv : Inv d)
    (h : changePageContent f d pg c = .ok (d', out)) :
    MildStep (fun r => r = (d.maxId + 1, 0) ∧ (d'.objects.get r).isSome) d d' := by
  unfold changePageContent at h
  split at h
  · cases h; exact mildStep_refl _ d
  · cases h; exact mildStep_changeContentStream _ f d _ c
  · cases h; exact mildStep_changeContentStream _ f d _ c
  · cases h; exact mildStep_refl _ d
  · split at h
    · cases h
    · have e := congrArg Prod.fst (Outcome.ok.inj h)
      simp only at e
      have hnew : (d'.objects.get (d.maxId + 1, 0)).isSome := by
        rw [← e]
        exact mildStep_isSome (mildStep_setDictEntry (fun _ => True) _ pg CONTENTS _ contents_notProt (fun _ _ => trivial))
          _ (by rw [addObject_get]; simp)
      rw [← e] at hnew ⊢
      apply mildStep_trans (mildStep_addObject _ d (streamNew [] c) (fresh_id d hinv) (by rw [refs_streamNew]; simp))
      apply mildStep_setDictEntry _ _ _ _ _ contents_notProt
      intro r hr; simp [refsOf] at hr; subst hr; exact ⟨rfl, hnew⟩
  · cases h; exact mildStep_refl _ d

theorem refs_removeKeysSeq (ks : List Bytes) : ∀ (d : Dict) (r : ObjId), r ∈ refsOfD (removeKeysSeq d ks) → r ∈ refsOfD d := by
  induction ks with
  | nil => intro d r h; exact h
  | cons k ks ih =>
    intro d r h
    simp only [removeKeysSeq] at h
    exact refs_dictRemove d k r (ih (Dict.remove d k) r h)

theorem refs_setContent (s : Strm) (c : Bytes) (r : ObjId) (h : r ∈ refsOfD (setContent s c).dict) : r ∈ refsOfD s.dict := by
  simp only [setContent] at h
  rcases refs_dictSet _ _ _ r h with h | h
  · exact h
  · simp [lenObj, refsOf] at h

theorem mild_compressObj (Ex : ObjId → Prop) (f : Bytes → Bytes) (al : ObjId → Bool) (id : ObjId) (o : Obj) :
    Mild Ex o (compressObj f al id o) := by
  cases o <;> simp only [compressObj] <;> try exact mild_refl Ex _
  rename_i d c
  split
  · refine ⟨fun r hr => Or.inl ?_, keep_stream _ _ _⟩
    simp only [refsOf] at hr ⊢
    unfold compress at hr
    split at hr
    · exact hr
    · simp only at hr
      split at hr
      · have := refs_setContent _ _ r hr
        simp only at this
        rcases refs_dictSet _ _ _ r this with h | h
        · exact refs_dictRemove _ _ r h
        · simp [refsOf] at h
      · exact hr
  · exact mild_refl Ex _

theorem mild_decompressObj (Ex : ObjId → Prop) (ext : Ext) (o : Obj) : Mild Ex o (decompressObj ext o) := by
  cases o <;> simp only [decompressObj] <;> try exact mild_refl Ex _
  rename_i d c
  split
  · rename_i s hs
    refine ⟨fun r hr => Or.inl ?_, keep_stream _ _ _⟩
    simp only [refsOf] at hr ⊢
    unfold decompress at hs
    cases hd : decompressedContent ext ⟨d, c⟩ with
    | ok data =>
      rw [hd] at hs; simp only [Outcome.map] at hs; cases hs
      have := refs_setContent _ _ r hr
      simp only at this
      exact refs_removeKeysSeq _ _ r this
    | err e => rw [hd] at hs; simp [Outcome.map] at hs
    | panic e => rw [hd] at hs; simp [Outcome.map] at hs
  · exact mild_refl Ex _

/-- `Document::compress` -/
theorem mildStep_compress (Ex : ObjId → Prop) (f : Bytes → Bytes) (al : ObjId → Bool) (d : Doc) :
    MildStep Ex d { d with objects := docCompress f al d.objects } := by
  refine ⟨rfl, ?_, ?_⟩
  · intro k o ho; exact ⟨_, by simp only [docCompress_get, ho, Option.map_some], mild_compressObj Ex f al k o⟩
  · intro k o' h1 h2; simp only [docCompress_get, h1, Option.map_none] at h2; cases h2

/-- `Document::decompress` -/
theorem mildStep_decompress (Ex : ObjId → Prop) (ext : Ext) (d : Doc) :
    MildStep Ex d { d with objects := docDecompress ext d.objects } := by
  refine ⟨rfl, ?_, ?_⟩
  · intro k o ho; exact ⟨_, by simp only [docDecompress_get, ho, Option.map_some], mild_decompressObj Ex ext o⟩
  · intro k o' h1 h2; simp only [docDecompress_get, h1, Option.map_none] at h2; cases h2

end Lopdf.Ed
