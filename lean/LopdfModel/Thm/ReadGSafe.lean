import LopdfModel.Thm.ReadG
import LopdfModel.Thm.C04
import LopdfModel.Thm.C13
/-
  C04 for the reader WITH filtered structural streams in the model: `loadDocWithG` never panics
  for any structural-stream decoder that does not panic, and `flateDec` (Stream::decompress over
  the specification codecs, then the unfiltered decoding) is such a decoder — for EVERY behaviour
  of the codecs (`decompressedContent_no_panic` holds for any `Ext`).
  Hence `loadDocF_never_panics`: every byte string, every schedule, Flate / LZW / ASCII85-coded
  cross-reference streams and object streams with any predictor parameters included.
-/
namespace Lopdf
open Gen Q13

/-- a structural-stream decoder that cannot panic -/
def StructDec.safe (sd : StructDec) : Prop :=
  (∀ d c s, sd.xref d c ≠ .panic s) ∧ (∀ d c s, sd.objstm d c ≠ .panic s) ∧ (∀ d s, sd.deferred d ≠ .panic s)

theorem xrefAndTrailerG_ne_panic (sd : StructDec) (h : sd.safe) (inp : Bytes) (s : String) :
    xrefAndTrailerG sd inp ≠ .panic s := by
  have hx := h.1
  unfold xrefAndTrailerG xrefStreamAltG
  repeat' split
  all_goals (first | (simp_all; done) | exact hx _ _ _ | simp)

theorem hybridMergeG_ne_panic (sd : StructDec) (h : sd.safe) (buf : Bytes) (x1 : XTable) (stm : Option Obj) (s : String) :
    hybridMergeG sd buf x1 stm ≠ .panic s := by
  unfold hybridMergeG
  repeat' split
  all_goals (first | (simp; done) | skip)
  rename_i hp
  exact absurd hp (xrefAndTrailerG_ne_panic sd h _ _)

theorem prevLoopG_ne_panic (sd : StructDec) (h : sd.safe) (buf : Bytes) : ∀ (fuel : Nat) (p : Option Obj) (seen : List Int)
    (x : XTable) (tr : Dict) (s : String), prevLoopG sd buf fuel p seen x tr ≠ .panic s := by
  intro fuel
  induction fuel with
  | zero => intro p seen x tr s; simp [prevLoopG]
  | succ n ih =>
    intro p seen x tr s
    unfold prevLoopG
    split
    · simp
    · split
      · simp
      · split
        · simp
        · split
          · rename_i hp; exact absurd hp (xrefAndTrailerG_ne_panic sd h _ _)
          · simp
          · simp only
            split
            · exact ih _ _ _ _ _
            · simp
            · rename_i hp; exact absurd hp (hybridMergeG_ne_panic sd h _ _ _ _)

theorem loadStepG_noPanic (sd : StructDec) (h : sd.safe) (buf : Bytes) (x : XTable) (n : Nat)
    (acc : Outcome (LObjects × List Block)) (e : Nat × XEntry) (ha : acc.noPanic) : (loadStepG sd buf x n acc e).noPanic := by
  have ho := h.2.1
  have hd := h.2.2
  rw [noPanic_iff] at *
  intro s
  unfold loadStepG
  repeat' split
  all_goals (first | (simp_all; done) | skip)
  all_goals (rename_i hp; first | exact absurd hp (ho _ _ _) | exact absurd hp (hd _ _))

theorem foldl_loadStepG_noPanic (sd : StructDec) (h : sd.safe) (buf : Bytes) (x : XTable) (n : Nat) :
    ∀ (l : List (Nat × XEntry)) (acc : Outcome (LObjects × List Block)), acc.noPanic →
      (l.foldl (loadStepG sd buf x n) acc).noPanic := by
  intro l
  induction l with
  | nil => intro acc ha; simpa using ha
  | cons e rest ih => intro acc ha; exact ih _ (loadStepG_noPanic sd h buf x n acc e ha)

/-- the generic reader never panics when its structural-stream decoder does not -/
theorem loadDocWithG_never_panics (sd : StructDec) (h : sd.safe) (arr : List Block → List Block) (arr2 : List ObjId → List ObjId)
    (file : Bytes) : (loadDocWithG sd arr arr2 file).noPanic := by
  rw [noPanic_iff]
  intro s
  have hx : ∀ inp s', (xrefAndTrailerG sd inp = Outcome.panic s') = False := by
    intro inp s'; simp [xrefAndTrailerG_ne_panic sd h]
  have hp : ∀ buf fuel p seen x tr s', (prevLoopG sd buf fuel p seen x tr = Outcome.panic s') = False := by
    intro buf fuel p seen x tr s'; simp [prevLoopG_ne_panic sd h]
  have hf : ∀ buf x n (l : List (Nat × XEntry)) s', (l.foldl (loadStepG sd buf x n) (.ok ([], [])) = Outcome.panic s') = False := by
    intro buf x n l s'
    have := (noPanic_iff _).mp (foldl_loadStepG_noPanic sd h buf x n l (.ok ([], [])) (by simp [Outcome.noPanic])) s'
    simpa using this
  unfold loadDocWithG
  repeat' split
  all_goals (try simp_all)
  all_goals (repeat' split)
  all_goals (try simp_all)
  all_goals (repeat' split)
  all_goals (try simp_all)

theorem decompress_no_panic (ext : Ext) (st : Strm) (s : String) : decompress ext st ≠ .panic s := by
  unfold decompress
  cases h : decompressedContent ext st with
  | ok v => simp [Outcome.map]
  | err e => simp [Outcome.map]
  | panic p => exact absurd h (decompressedContent_no_panic ext st p)

/-- `Stream::decompress` over the specification codecs followed by the unfiltered decoders cannot panic -/
theorem flateDec_safe : flateDec.safe := by
  refine ⟨?_, ?_, ?_⟩
  · intro d c s
    simp only [flateDec]
    split
    · split
      · simp
      · split
        · simp
        · simp
        · rename_i hp; exact absurd hp (decompress_no_panic _ _ _)
    · simp
  · intro d c s
    simp only [flateDec]
    split
    · split
      · simp
      · split
        · split <;> simp_all
        · simp
    · split <;> simp_all
  · intro d s
    simp only [flateDec]
    split
    · split
      · simp
      · split
        · split <;> simp
        · simp
        · rename_i hp; exact absurd hp (decompress_no_panic _ _ _)
    · simp

/-- **C04, Flate-coded structural streams included**: the reader the driver runs against lopdf —
`loadDocF2`, every schedule — never panics, for every byte string. -/
theorem loadDocF_never_panics (order : Option (List Nat)) (zero : Option Nat) (file : Bytes) :
    (loadDocF2 order zero file).noPanic :=
  loadDocWithG_never_panics flateDec flateDec_safe _ _ file

end Lopdf
