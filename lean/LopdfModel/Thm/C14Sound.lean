import LopdfModel.Thm.C14Inline
import LopdfModel.Thm.C01Sound
/-
  C14 — decode → encode → decode for inline images with the well-formedness hypothesis of
  `image_redecode` DISCHARGED by the soundness of the object parser: the entry values of a decoded
  inline image are parsed objects, hence well-formed and nested at most MAX_NESTING deep.
  The residue that remains a hypothesis is stated precisely: every real among the values is in
  `Display` form, and the data length fits i64.
-/
namespace Lopdf.Grammar
open Lopdf Gen
open Lopdf.ObjRt (WFD heightD normD)
open Lopdf.InlineRt

/-- the entry values of a decoded inline image are parsed objects -/
theorem inline_decoded_sound (inp : Bytes) (op : Operation) (r : Bytes) (h : inlineImageImpl inp = .ok op r) :
    ∃ d0 c, op = imageOp (Dict.set d0 imageDataStream.LENGTH_KEY (.int c.length)) c ∧
      WFParsedD d0 ∧ heightD d0 ≤ MAX_NESTING := by
  unfold inlineImageImpl at h
  simp only at h
  split at h
  · cases h
  · rename_i d0 r1 hd
    split at h
    · cases h
    · rename_i r2 _
      split at h
      · rename_i st r3 hst
        split at h
        · rename_i r4 _
          injection h with h1 _
          obtain ⟨c, hc, hl, hs⟩ := imageDataStream_shape _ _ _ _ hst
          have g := dict_sound (inp.length + 1) 0 (fun i o r hh => directObjects_sound _ 0 i o r hh) _ _ [] d0 r1 hd
            ⟨trivial, fun _ => by simp [heightD]⟩
          refine ⟨d0, c, ?_, g.1, ?_⟩
          · rw [← h1, hs]; rfl
          · have := g.2 (by omega); omega
        · cases h
      · cases h
      · cases h

theorem imageOp_inj (d d' : Dict) (c c' : Bytes) (h : imageOp d c = imageOp d' c') : d = d' ∧ c = c' := by
  unfold imageOp at h
  injection h with _ h2
  injection h2 with h3 _
  injection h3 with h4 h5
  exact ⟨h4, h5⟩

/-- **decode → encode → decode, hypothesis discharged.** Whatever inline image the decoder
returned: encoding it and decoding again returns EXACTLY the same image, provided only that the
reals among its entry values are in `Display` form (`[-]digits.digits*`: a decoded `.5` or `+1.`
is printed differently by lopdf) and that the data length fits `i64`.  Well-formedness of the
values (integer ranges, reference ranges, distinct keys, nesting height) is a THEOREM about the
parser now (`directObjects_sound`), not a hypothesis. -/
theorem image_redecode_sound (inp : Bytes) (op : Operation) (r : Bytes) (h : inlineImageImpl inp = .ok op r) :
    ∃ d c, op = imageOp d c ∧
      (c.length ≤ I64_MAX → WFParsedD d ∧ heightD d ≤ MAX_NESTING) ∧
      (c.length ≤ I64_MAX → DisplayRealsD d → decodeContent (encodeContent [op]) = .ok [op]) := by
  obtain ⟨d0, c, e, hw, hh⟩ := inline_decoded_sound inp op r h
  have hgood : c.length ≤ I64_MAX →
      GoodD 0 (Dict.set d0 imageDataStream.LENGTH_KEY (.int c.length)) := by
    intro hl
    refine goodD_set 0 d0 _ _ ⟨hw, fun _ => by omega⟩ ⟨?_, fun _ => by simp [ObjRt.height]⟩
    simp only [WFParsed]
    constructor
    · have : (0 : Int) ≤ (c.length : Int) := Int.natCast_nonneg _
      simp only [I64_MAX] at *; omega
    · simp only [I64_MAX] at *; omega
  refine ⟨_, c, e, fun hl => ⟨(hgood hl).1, by have := (hgood hl).2 (by omega); omega⟩, fun hl hdr => ?_⟩
  obtain ⟨d', c', e', himp⟩ := image_redecode inp op r h
  obtain ⟨hd, hc⟩ := imageOp_inj _ _ _ _ (e.symm.trans e')
  subst hc; subst hd
  have hg := hgood hl
  rw [himp (wfD_of_parsed _ hg.1 hdr) (by have := hg.2 (by omega); omega), normD_parsed _ hg.1, ← e]

/-- the residue is not empty: `.5` is a parsed real that is not in `Display` form -/
example : WFParsed (.real [46, 53]) ∧ ¬ DisplayReals (.real [46, 53]) := by
  refine ⟨.mk [] [] [53] .none (by intro b hb; simp at hb) (by intro b hb; simp at hb; subst hb; decide) (by simp), ?_⟩
  simp only [DisplayReals]
  rintro ⟨neg, d1, d2, h, hne, hd, _⟩
  cases neg
  · cases d1 with
    | nil => exact hne rfl
    | cons a as =>
      simp at h
      have := hd a (by simp); rw [← h.1] at this; simp [isDigit] at this
  · simp at h

end Lopdf.Grammar
