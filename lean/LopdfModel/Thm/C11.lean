import LopdfModel.Lemmas.Move
import LopdfModel.Model.Edit
/-
  C11 — property theorems (editing operations keep the document sound).
  * `Inv`, `fresh_id`, `step_add_fresh`, `inv_step`, `inv_run`: allocation invariant by induction over
    ARBITRARY lists of guarded operations; a freshly allocated id never collides.
  * `prune_exact`, `prune_ids`: prune removes exactly objects \ Reach(trailer) (declarative closure),
    through `traverse_eq_reach` (Lemmas/Traverse.lean).
  * `frame_newId`, `frame_set`, `step_add_fresh`, `delete_effect`: frame lemmas.
  * FALSE parts with proved witnesses: `delete_leaves_trailer_ref_witness` (F-C11-a),
    `set_above_max_witness` (F-C11-b).
  FULL STATEMENT (false of the code, kept visible): for every operation list the invariant holds and after
  `delete_object id` no reference to `id` is left anywhere in the document.
-/
namespace Lopdf

/-- allocation invariant: `max_id` is at least every object number in use -/
def Inv (d : Doc) : Prop := ∀ k, (d.objects.get k).isSome → k.1 ≤ d.maxId

/-- **fresh id**: under the invariant, the id `add_object` / `new_object_id` hands out is not in use -/
theorem fresh_id (d : Doc) (h : Inv d) : d.objects.get (d.maxId + 1, 0) = none := by
  cases hg : d.objects.get (d.maxId + 1, 0) with
  | none => rfl
  | some o => have := h (d.maxId + 1, 0) (by simp [hg]); simp at this; omega

theorem step_add_fresh (d : Doc) (o : Obj) (h : Inv d) (d' : Doc) (i : ObjId)
    (hs : step d (.add o) = .ok (d', .id i)) : d.objects.get i = none ∧ (d'.objects.get i).isSome ∧
      ∀ k, k ≠ i → d'.objects.get k = d.objects.get k := by
  simp only [step] at hs
  split at hs
  · cases hs
  · cases hs
    refine ⟨fresh_id d h, by simp [Objects.get_insert], ?_⟩
    intro k hk; simp [Objects.get_insert, Ne.symm hk]

theorem get_foldl_remove (ids : List ObjId) (os : Objects) (k : ObjId) :
    (ids.foldl Objects.remove os).get k = if k ∈ ids then none else os.get k := by
  induction ids generalizing os with
  | nil => simp
  | cons x xs ih =>
    simp only [List.foldl_cons, ih, Objects.get_remove, List.mem_cons]
    by_cases h1 : k ∈ xs
    · simp [h1]
    · by_cases h2 : x = k
      · simp [h2]
      · have : ¬ k = x := fun e => h2 e.symm
        simp [h1, h2, this]

/-- `traverse_objects` never creates or removes a key -/
theorem traverse_isSome (a : Action) (tr : Dict) (os : Objects) (k : ObjId) :
    ((traverse a tr os).2.1.get k).isSome = (os.get k).isSome := by
  rw [(traverse_visits_once a tr os).2.2 k]; split <;> simp

theorem deleteObject_isSome (d : Doc) (id k : ObjId) (h : ((deleteObject d id).1.objects.get k).isSome) :
    (d.objects.get k).isSome := by
  simp only [deleteObject, Objects.get_remove] at h
  split at h
  · simp at h
  · rwa [traverse_isSome] at h

theorem deleteObject_maxId (d : Doc) (id : ObjId) : (deleteObject d id).1.maxId = d.maxId := rfl

theorem inv_deleteObject (d : Doc) (id : ObjId) (h : Inv d) : Inv (deleteObject d id).1 := by
  intro k hk; rw [deleteObject_maxId]; exact h k (deleteObject_isSome d id k hk)

theorem inv_foldl_delete (ids : List ObjId) (d : Doc) (h : Inv d) :
    Inv (ids.foldl (fun d id => (deleteObject d id).1) d) := by
  induction ids generalizing d with
  | nil => exact h
  | cons x xs ih => simp only [List.foldl_cons]; exact ih _ (inv_deleteObject d x h)

/-- operations covered by the inductive invariant theorem; `set_object` only at numbers `≤ max_id`
(above it the invariant is FALSE: `set_above_max_witness`) -/
def Op.guarded (d : Doc) : Op → Prop
  | .set id _ => id.1 ≤ d.maxId
  | .renumber _ => False
  | .delPages _ => False
  | .addContent _ _ => False
  | _ => True

theorem inv_step (d : Doc) (op : Op) (h : Inv d) (hg : op.guarded d) (d' : Doc) (out : Out)
    (hs : step d op = .ok (d', out)) : Inv d' := by
  cases op with
  | newId =>
    simp only [step] at hs; split at hs
    · cases hs
    · cases hs; intro k hk; have := h k hk; simp; omega
  | add o =>
    simp only [step] at hs; split at hs
    · cases hs
    · cases hs; intro k hk
      simp only [Objects.get_insert] at hk
      split at hk
      · rename_i e; subst e; simp
      · have := h k hk; simp; omega
  | set id o =>
    simp only [step] at hs; cases hs
    intro k hk
    simp only [Objects.get_insert] at hk
    split at hk
    · rename_i e; subst e; exact hg
    · exact h k hk
  | del id => simp only [step] at hs; cases hs; exact inv_deleteObject d id h
  | prune =>
    simp only [step] at hs; cases hs
    intro k hk
    simp only [pruneObjects, get_foldl_remove] at hk
    split at hk
    · simp at hk
    · rw [traverse_isSome] at hk; exact h k hk
  | delZero => simp only [step] at hs; cases hs; exact inv_foldl_delete _ d h
  | renumber s => exact hg.elim
  | delPages n => exact hg.elim
  | addContent p c => exact hg.elim

/-- **C11, allocation invariant over arbitrary programs.** For every list of guarded operations, the
invariant holds after the whole program (induction over the operation list, any length). -/
inductive GuardedRun : Doc → List Op → Doc → Prop
  | nil (d) : GuardedRun d [] d
  | cons {d op d' out rest d''} : op.guarded d → step d op = .ok (d', out) → GuardedRun d' rest d'' →
      GuardedRun d (op :: rest) d''

theorem inv_run (d : Doc) (ops : List Op) (d' : Doc) (h : Inv d) (hr : GuardedRun d ops d') : Inv d' := by
  induction hr with
  | nil => exact h
  | cons hg hs _ ih => exact ih (inv_step _ _ h hg _ _ hs)

example : Inv ⟨[], [((3, 0), .null)], 5, [], []⟩ := by
  intro k hk
  by_cases e : k = (3, 0)
  · subst e; decide
  · simp [Objects.get, Ne.symm e] at hk

/-- **F-C11-b (counter-witness).** `set_object` above `max_id` breaks the invariant and the next
`add_object` overwrites the object: max_id 5, set (6,0) := 1, add 2 returns (6,0) and (6,0) now holds 2. -/
theorem set_above_max_witness :
    ∃ d1 d2, step ⟨[], [((5, 0), .null)], 5, [], []⟩ (.set (6, 0) (.int 1)) = .ok (d1, .unit) ∧
      ¬ Inv d1 ∧ step d1 (.add (.int 2)) = .ok (d2, .id (6, 0)) ∧
      (d1.objects.get (6, 0)).bind Obj.asInt = some 1 ∧ (d2.objects.get (6, 0)).bind Obj.asInt = some 2 := by
  refine ⟨_, _, rfl, ?_, rfl, by decide, by decide⟩
  intro h
  have := h (6, 0) (by decide)
  simp at this

/-- traversing with the empty action changes nothing -/
theorem deep_id :
    (∀ o, deepObj idAct o = o) ∧ (∀ es, deepDict idAct es = es) ∧ (∀ items, deepList idAct items = items) := by
  apply deepObj.mutual_induct idAct
    (motive1 := fun o => deepObj idAct o = o)
    (motive2 := fun es => deepDict idAct es = es)
    (motive3 := fun items => deepList idAct items = items)
  · intro o items h ih; rw [deepObj_arr h, ih]; exact h.symm
  · intro o es h ih; rw [deepObj_dict h, ih]; exact h.symm
  · intro o es c h ih; rw [deepObj_stream h, ih]; exact h.symm
  · intro o h1 h2 h3
    rw [deepObj_other (fun i hh => h1 i hh) (fun i hh => h2 i hh) (fun i c hh => h3 i c hh)]; rfl
  · rw [deepDict]
  · intro k v es ih1 ih2; rw [deepDict]; simp [ih1, ih2]
  · rw [deepList]
  · intro x xs ih1 ih2; rw [deepList]; simp [ih1, ih2]

/-- **C11, prune_exact.** `prune_objects` keeps the trailer, keeps every object reachable from the
trailer unchanged and removes every other object — "reachable" being the declarative closure `Reach`
of the document's own graph. -/
theorem prune_exact (d : Doc) :
    (pruneObjects d).1.trailer = d.trailer ∧
    ∀ k, (Reach (refsOfD d.trailer) (fun id => d.objects.get id) k →
            (pruneObjects d).1.objects.get k = d.objects.get k) ∧
         (¬ Reach (refsOfD d.trailer) (fun id => d.objects.get id) k →
            (pruneObjects d).1.objects.get k = none) := by
  have hv := traverse_visits_once idAct d.trailer d.objects
  have htr : (traverse idAct d.trailer d.objects).1 = d.trailer := by rw [hv.1, deep_id.2.1]
  have hos : ∀ q, (traverse idAct d.trailer d.objects).2.1.get q = d.objects.get q := by
    intro q; rw [hv.2.2 q]; split
    · cases d.objects.get q <;> simp [deep_id.1]
    · rfl
  have hreach : ∀ q, q ∈ (traverse idAct d.trailer d.objects).2.2 ↔
      Reach (refsOfD d.trailer) (fun id => d.objects.get id) q := by
    intro q
    rw [traverse_eq_reach, htr]
    have : (fun id => (traverse idAct d.trailer d.objects).2.1.get id) = (fun id => d.objects.get id) := by
      funext id; exact hos id
    rw [this]
  refine ⟨htr, ?_⟩
  intro k
  simp only [pruneObjects, get_foldl_remove, List.mem_filter, hos]
  constructor
  · intro hr
    have := (hreach k).mpr hr
    simp [this]
  · intro hr
    have hnot : k ∉ (traverse idAct d.trailer d.objects).2.2 := fun hm => hr ((hreach k).mp hm)
    by_cases hk : k ∈ (traverse idAct d.trailer d.objects).2.1.keys
    · simp [hk, hnot]
    · simp only [hk, false_and, if_false]
      have := Objects.get_none_of_not_mem _ k hk
      rw [hos] at this; exact this

/-- what `prune_objects` returns is exactly the list of unreachable keys -/
theorem prune_ids (d : Doc) (k : ObjId) :
    k ∈ (pruneObjects d).2 ↔ (d.objects.get k).isSome ∧ ¬ Reach (refsOfD d.trailer) (fun id => d.objects.get id) k := by
  have hv := traverse_visits_once idAct d.trailer d.objects
  have htr : (traverse idAct d.trailer d.objects).1 = d.trailer := by rw [hv.1, deep_id.2.1]
  have hos : ∀ q, (traverse idAct d.trailer d.objects).2.1.get q = d.objects.get q := by
    intro q; rw [hv.2.2 q]; split
    · cases d.objects.get q <;> simp [deep_id.1]
    · rfl
  have hreach : k ∈ (traverse idAct d.trailer d.objects).2.2 ↔
      Reach (refsOfD d.trailer) (fun id => d.objects.get id) k := by
    rw [traverse_eq_reach, htr]
    have : (fun id => (traverse idAct d.trailer d.objects).2.1.get id) = (fun id => d.objects.get id) := by
      funext id; exact hos id
    rw [this]
  simp only [pruneObjects, List.mem_filter, Objects.mem_keys_iff, hos]
  simp [hreach]

/-- frame lemmas: the calls that are not deletions leave every other object as it was -/
theorem frame_newId (d d' : Doc) (out : Out) (h : step d .newId = .ok (d', out)) :
    d'.objects = d.objects ∧ d'.trailer = d.trailer := by
  simp only [step] at h; split at h
  · cases h
  · cases h; exact ⟨rfl, rfl⟩

theorem frame_set (d d' : Doc) (id : ObjId) (o : Obj) (out : Out) (h : step d (.set id o) = .ok (d', out)) :
    d'.trailer = d.trailer ∧ ∀ k, k ≠ id → d'.objects.get k = d.objects.get k := by
  simp only [step] at h; cases h
  refine ⟨rfl, ?_⟩
  intro k hk; simp [Objects.get_insert, Ne.symm hk]

/-- `delete_object`: the object is gone, every unvisited object is untouched, every visited one is
rewritten once by the action (which strips the first array occurrence and direct dictionary entries only) -/
theorem delete_effect (d : Doc) (id : ObjId) :
    (deleteObject d id).1.objects.get id = none ∧
    (deleteObject d id).1.trailer = deepDict (delAct id) d.trailer ∧
    ∀ k, k ≠ id → (deleteObject d id).1.objects.get k =
      if k ∈ (traverse (delAct id) d.trailer d.objects).2.2 then (d.objects.get k).map (deepObj (delAct id))
      else d.objects.get k := by
  have hv := traverse_visits_once (delAct id) d.trailer d.objects
  refine ⟨by simp [deleteObject, Objects.get_remove], hv.1, ?_⟩
  intro k hk
  simp only [deleteObject, Objects.get_remove, Ne.symm hk, if_false]
  exact hv.2.2 k

/-- **F-C11-a (counter-witness).** A reference held directly in the trailer survives `delete_object`:
the action is applied to the trailer's *values*, and a bare reference is neither an array nor a dictionary. -/
theorem delete_leaves_trailer_ref_witness (os : Objects) :
    (deleteObject ⟨[([73], .ref 5 0)], os, 9, [], []⟩ (5, 0)).1.trailer = [([73], .ref 5 0)] := by
  rw [(delete_effect _ _).2.1]
  rw [deepDict, deepObj_other] <;> simp [delAct, delFn, deepDict]

end Lopdf
