import LopdfModel.Lemmas.Edit
import LopdfModel.Lemmas.EditLen
/-
  C11 — property theorems (editing operations keep the document sound).
  * `WF`, `wf_step`, `wf_run`: allocation invariant (max_id >= every object number) and BTreeMap
    sortedness by induction over ARBITRARY lists of the modelled operations, any arguments.
  * `fresh_id`, `step_add_fresh`: a freshly allocated id never collides.
  * `prune_exact`, `prune_ids`: prune removes exactly objects \ Reach(trailer) (declarative closure).
  * frame lemmas; `delete_effect`; FALSE part with proved witness: `delete_leaves_trailer_ref_witness` (F-C11-a).
  FULL STATEMENT (false of the code, kept visible): after `delete_object id` no reference to `id`
  is left anywhere in the document.
-/
namespace Lopdf

/-- allocation invariant: `max_id` is at least every object number in use -/
def Inv (d : Doc) : Prop := ∀ k, (d.objects.get k).isSome → k.1 ≤ d.maxId

theorem WF.inv {d : Doc} (h : WF d) : Inv d := h.1

/-- **fresh id**: under the invariant, the id `add_object` / `new_object_id` hands out is not in use -/
theorem fresh_id (d : Doc) (h : Inv d) : d.objects.get (d.maxId + 1, 0) = none := by
  cases hg : d.objects.get (d.maxId + 1, 0) with
  | none => rfl
  | some o => have := h (d.maxId + 1, 0) (by simp [hg]); simp at this; omega

theorem step_add_fresh (d : Doc) (o : Obj) (h : Inv d) (d' : Doc) (i : ObjId)
    (hs : step d (.add o) = .ok (d', .id i)) : d.objects.get i = none ∧ (d'.objects.get i).isSome ∧
      ∀ k, k ≠ i → d'.objects.get k = d.objects.get k := by
  simp only [step] at hs
  split at hs
  · cases hs
  · cases hs
    refine ⟨fresh_id d h, by simp [addObject, Objects.get_insert], ?_⟩
    intro k hk; simp [addObject, Objects.get_insert, Ne.symm hk]

/-- **every modelled editing call preserves well-formedness** (allocation invariant + sorted object map) -/
theorem wf_step (d : Doc) (op : Op) (h : WF d) (d' : Doc) (out : Out)
    (hs : step d op = .ok (d', out)) : WF d' := by
  cases op with
  | newId =>
    simp only [step] at hs; split at hs
    · cases hs
    · cases hs; exact ⟨fun k hk => by have := h.1 k hk; simp only; omega, h.2⟩
  | add o =>
    simp only [step] at hs; split at hs
    · cases hs
    · cases hs; exact wf_addObject d o h
  | set id o =>
    simp only [step] at hs; cases hs
    refine ⟨?_, Objects.sorted_insert _ _ _ h.2⟩
    intro k hk
    simp only [Objects.get_insert] at hk
    split at hk
    · rename_i e; subst e; simp only; exact Nat.le_max_right _ _
    · have := h.1 k hk; simp only; exact Nat.le_trans this (Nat.le_max_left _ _)
  | del id => simp only [step] at hs; cases hs; exact wf_deleteObject d id h
  | prune => simp only [step] at hs; cases hs; exact wf_prune d h
  | delZero => simp only [step] at hs; cases hs; exact wf_foldl_delete _ d h
  | renumber s =>
    simp only [step] at hs
    split at hs
    · rename_i d2 hr; cases hs
      exact wf_densePass (pagePass d) s (pagePass_sorted d h.2) _ hr
    · cases hs
    · cases hs
  | delPages n => simp only [step] at hs; cases hs; exact (wf_deletePages d n h).1
  | addContent p c => simp only [step] at hs; exact wf_addPageContents d p c h d' out hs
  | removeAnnot id =>
    simp only [step] at hs; have e := Outcome.ok.inj hs
    have := wf_removeAnnot id (pageIter d.trailer d.objects) d h; rw [e] at this; exact this
  | addXObject p n x =>
    simp only [step] at hs; have e := Outcome.ok.inj hs
    have := wf_addXObject d p n x h; rw [e] at this; exact this
  | addGState p n x =>
    simp only [step] at hs; have e := Outcome.ok.inj hs
    have := wf_addGraphicsState d p n x h; rw [e] at this; exact this
  | changeStream sid c f => simp only [step] at hs; cases hs; exact wf_changeContentStream _ d sid c h
  | changePage p c f => simp only [step] at hs; exact wf_changePageContent _ d p c h d' out hs
  | compress f => simp only [step] at hs; cases hs; exact wf_of_keys_eq d _ h (docCompress_keys _ _ _)
  | decompress e => simp only [step] at hs; cases hs; exact wf_of_keys_eq d _ h (docDecompress_keys _ _)

/-- **C11, invariant over arbitrary programs.** For every finite list of modelled editing calls (any
operations, any arguments, any length) that runs to completion, well-formedness — in particular
`max_id ≥` every object number — holds at the end (induction over the operation list). -/
theorem wf_run (ops : List Op) (d : Doc) (h : WF d) (d' : Doc) (hr : runOps d ops = .ok d') : WF d' := by
  induction ops generalizing d with
  | nil => simp [runOps] at hr; subst hr; exact h
  | cons op rest ih =>
    simp only [runOps] at hr
    split at hr
    · rename_i d1 out hs; exact ih d1 (wf_step d op h d1 out hs) hr
    · cases hr
    · cases hr

/-- corollary in the property's words: after any program, `max_id ≥` every object number, so the next
allocated id is free -/
theorem fresh_after_run (ops : List Op) (d : Doc) (h : WF d) (d' : Doc) (hr : runOps d ops = .ok d') :
    d'.objects.get (d'.maxId + 1, 0) = none :=
  fresh_id d' (wf_run ops d h d' hr).1

example : WF ⟨[], [((3, 0), .null)], 5, [], []⟩ := by
  refine ⟨?_, by simp [Objects.Sorted, Objects.keys]⟩
  intro k hk
  by_cases e : k = (3, 0)
  · subst e; decide
  · simp [Objects.get, Ne.symm e] at hk

/-- traversing with the empty action changes nothing -/
theorem deep_id :
    (∀ o, deepObj idAct o = o) ∧ (∀ es, deepDict idAct es = es) ∧ (∀ items, deepList idAct items = items) := by
  apply deepObj.mutual_induct idAct
    (motive1 := fun o => deepObj idAct o = o)
    (motive2 := fun es => deepDict idAct es = es)
    (motive3 := fun items => deepList idAct items = items)
  · intro o items h ih; rw [deepObj_arr h, ih]; exact h.symm
  · intro o es h ih; rw [deepObj_dict h, ih]; exact h.symm
  · intro o es c h ih; rw [deepObj_stream h, ih]; exact h.symm
  · intro o h1 h2 h3
    rw [deepObj_other (fun i hh => h1 i hh) (fun i hh => h2 i hh) (fun i c hh => h3 i c hh)]; rfl
  · rw [deepDict]
  · intro k v es ih1 ih2; rw [deepDict]; simp [ih1, ih2]
  · rw [deepList]
  · intro x xs ih1 ih2; rw [deepList]; simp [ih1, ih2]

/-- **C11, prune_exact.** `prune_objects` keeps the trailer, keeps every object reachable from the
trailer unchanged and removes every other object — "reachable" being the declarative closure `Reach`
of the document's own graph. -/
theorem prune_exact (d : Doc) :
    (pruneObjects d).1.trailer = d.trailer ∧
    ∀ k, (Reach (refsOfD d.trailer) (fun id => d.objects.get id) k →
            (pruneObjects d).1.objects.get k = d.objects.get k) ∧
         (¬ Reach (refsOfD d.trailer) (fun id => d.objects.get id) k →
            (pruneObjects d).1.objects.get k = none) := by
  have hv := traverse_visits_once idAct d.trailer d.objects
  have htr : (traverse idAct d.trailer d.objects).1 = d.trailer := by rw [hv.1, deep_id.2.1]
  have hos : ∀ q, (traverse idAct d.trailer d.objects).2.1.get q = d.objects.get q := by
    intro q; rw [hv.2.2 q]; split
    · cases d.objects.get q <;> simp [deep_id.1]
    · rfl
  have hreach : ∀ q, q ∈ (traverse idAct d.trailer d.objects).2.2 ↔
      Reach (refsOfD d.trailer) (fun id => d.objects.get id) q := by
    intro q
    rw [traverse_eq_reach, htr]
    have : (fun id => (traverse idAct d.trailer d.objects).2.1.get id) = (fun id => d.objects.get id) := by
      funext id; exact hos id
    rw [this]
  refine ⟨htr, ?_⟩
  intro k
  simp only [pruneObjects, get_foldl_remove, List.mem_filter, hos]
  constructor
  · intro hr
    have := (hreach k).mpr hr
    simp [this]
  · intro hr
    have hnot : k ∉ (traverse idAct d.trailer d.objects).2.2 := fun hm => hr ((hreach k).mp hm)
    by_cases hk : k ∈ (traverse idAct d.trailer d.objects).2.1.keys
    · simp [hk, hnot]
    · simp only [hk, false_and, if_false]
      have := Objects.get_none_of_not_mem _ k hk
      rw [hos] at this; exact this

/-- what `prune_objects` returns is exactly the list of unreachable keys -/
theorem prune_ids (d : Doc) (k : ObjId) :
    k ∈ (pruneObjects d).2 ↔ (d.objects.get k).isSome ∧ ¬ Reach (refsOfD d.trailer) (fun id => d.objects.get id) k := by
  have hv := traverse_visits_once idAct d.trailer d.objects
  have htr : (traverse idAct d.trailer d.objects).1 = d.trailer := by rw [hv.1, deep_id.2.1]
  have hos : ∀ q, (traverse idAct d.trailer d.objects).2.1.get q = d.objects.get q := by
    intro q; rw [hv.2.2 q]; split
    · cases d.objects.get q <;> simp [deep_id.1]
    · rfl
  have hreach : k ∈ (traverse idAct d.trailer d.objects).2.2 ↔
      Reach (refsOfD d.trailer) (fun id => d.objects.get id) k := by
    rw [traverse_eq_reach, htr]
    have : (fun id => (traverse idAct d.trailer d.objects).2.1.get id) = (fun id => d.objects.get id) := by
      funext id; exact hos id
    rw [this]
  simp only [pruneObjects, List.mem_filter, Objects.mem_keys_iff, hos]
  simp [hreach]

/-- frame lemmas: the calls that are not deletions leave every other object as it was -/
theorem frame_newId (d d' : Doc) (out : Out) (h : step d .newId = .ok (d', out)) :
    d'.objects = d.objects ∧ d'.trailer = d.trailer := by
  simp only [step] at h; split at h
  · cases h
  · cases h; exact ⟨rfl, rfl⟩

theorem frame_set (d d' : Doc) (id : ObjId) (o : Obj) (out : Out) (h : step d (.set id o) = .ok (d', out)) :
    d'.trailer = d.trailer ∧ ∀ k, k ≠ id → d'.objects.get k = d.objects.get k := by
  simp only [step] at h; cases h
  refine ⟨rfl, ?_⟩
  intro k hk; simp [Objects.get_insert, Ne.symm hk]

/-- `delete_object` (since the fix of F-C11-a): the object is gone, direct trailer entries pointing at it are
removed, every unvisited object is untouched, every visited one is rewritten once by the action — which
strips EVERY array occurrence and the direct entries of plain and stream dictionaries -/
theorem delete_effect (d : Doc) (id : ObjId) :
    (deleteObject d id).1.objects.get id = none ∧
    (deleteObject d id).1.trailer = deepDict (delAct id) (stripDict id d.trailer) ∧
    ∀ k, k ≠ id → (deleteObject d id).1.objects.get k =
      if k ∈ (traverse (delAct id) (stripDict id d.trailer) d.objects).2.2 then (d.objects.get k).map (deepObj (delAct id))
      else d.objects.get k := by
  have hv := traverse_visits_once (delAct id) (stripDict id d.trailer) d.objects
  refine ⟨by simp [deleteObject, Objects.get_remove], hv.1, ?_⟩
  intro k hk
  simp only [deleteObject, Objects.get_remove, Ne.symm hk, if_false]
  exact hv.2.2 k

/-- (F-C11-a, trailer position, fixed) a reference held directly in the trailer is removed by `delete_object` -/
theorem delete_strips_trailer_example (os : Objects) :
    (deleteObject ⟨[([73], .ref 5 0)], os, 9, [], []⟩ (5, 0)).1.trailer = [] := by
  rw [(delete_effect _ _).2.1]
  have : stripDict (5, 0) [([73], Obj.ref 5 0)] = [] := by decide
  rw [this, deepDict]

/-! ### resources and content -/

theorem Dict.get_set_c11 (d : Dict) (k : Bytes) (v : Obj) (q : Bytes) :
    Dict.get (Dict.set d k v) q = if k = q then some v else Dict.get d q := by
  induction d with
  | nil => simp [Dict.set, Dict.get]
  | cons p rest ih =>
    obtain ⟨k0, v0⟩ := p
    simp only [Dict.set]
    by_cases h1 : k0 = k
    · subst h1; simp only [if_true, Dict.get]
      by_cases h3 : k0 = q <;> simp [h3]
    · simp only [h1, if_false, Dict.get, ih]
      by_cases h3 : k0 = q
      · subst h3; simp [Ne.symm h1]
      · simp [h3]

theorem readLoc_writeLoc (os : Objects) (loc : ResLoc) (o v : Obj) (h : readLoc os loc = some o) :
    readLoc (writeLoc os loc v) loc = some v := by
  cases loc with
  | obj id =>
    simp only [readLoc, writeLoc, Objects.get_set] at *
    simp [h]
  | entry t =>
    simp only [readLoc] at h
    split at h
    · rename_i pd hg
      simp only [writeLoc, hg, readLoc, Objects.get_set]
      simp [Dict.get_set_c11]
    · cases h

/-- adding `name ↦ v` to the sub-dictionary `sub` of category `cat`: every other category and every other
name of that category is exactly as before -/
theorem withEntry_monotone (res sub : Dict) (cat name : Bytes) (v : Obj) :
    (∀ c, c ≠ cat → Dict.get (Dict.set res cat (.dict (Dict.set sub name v))) c = Dict.get res c) ∧
    Dict.get (Dict.set res cat (.dict (Dict.set sub name v))) cat = some (.dict (Dict.set sub name v)) ∧
    (∀ n, n ≠ name → Dict.get (Dict.set sub name v) n = Dict.get sub n) ∧
    Dict.get (Dict.set sub name v) name = some v := by
  refine ⟨?_, by simp [Dict.get_set_c11], ?_, by simp [Dict.get_set_c11]⟩
  · intro c hc; simp [Dict.get_set_c11, Ne.symm hc]
  · intro n hn; simp [Dict.get_set_c11, Ne.symm hn]

/-- **C11, resources_monotone (partial: the resource dictionary the call works on).** If
`get_or_create_resources` locates a resource dictionary `res` for the page, then after
`add_graphics_state` the dictionary at that location keeps every category other than `ExtGState`
unchanged, and an existing `ExtGState` sub-dictionary keeps every name other than the new one. -/
theorem addGraphicsState_monotone_partial (d : Doc) (pg : ObjId) (name : Bytes) (gid : ObjId) (d1 : Doc) (loc : ResLoc)
    (res : Dict) (hg : getOrCreateResources d pg = some (d1, loc)) (hr : readLoc d1.objects loc = some (.dict res)) :
    ∃ res', readLoc (addGraphicsState d pg name gid).1.objects loc = some (.dict res') ∧
      (∀ c, c ≠ kExtGState → Dict.get res' c = Dict.get res c) ∧
      (∀ sd, Dict.get res kExtGState = some (.dict sd) →
        ∃ sd', Dict.get res' kExtGState = some (.dict sd') ∧ ∀ n, n ≠ name → Dict.get sd' n = Dict.get sd n) := by
  unfold addGraphicsState
  simp only [hg, hr]
  by_cases hh : Dict.has res kExtGState = true
  · simp only [hh, if_true]
    cases hge : Dict.get res kExtGState with
    | none => simp [Dict.has, hge] at hh
    | some v =>
      cases v with
      | dict sd =>
        simp only
        refine ⟨_, readLoc_writeLoc _ _ _ _ hr, ?_, ?_⟩
        · exact (withEntry_monotone res sd kExtGState name _).1
        · intro sd0 h0; cases h0
          exact ⟨_, (withEntry_monotone res sd kExtGState name _).2.1, (withEntry_monotone res sd kExtGState name _).2.2.1⟩
      | _ => exact ⟨res, hr, fun _ _ => rfl, fun sd h0 => by cases h0⟩
  · have hh' : Dict.has res kExtGState = false := by simpa using hh
    have hnone : Dict.get res kExtGState = none := by
      simp only [Dict.has] at hh'; cases hx : Dict.get res kExtGState <;> simp_all
    simp only [hh', Bool.false_eq_true, if_false, Dict.get_set_c11, if_true]
    refine ⟨_, readLoc_writeLoc _ _ _ _ hr, ?_, ?_⟩
    · intro c hc
      rw [(withEntry_monotone _ [] kExtGState name _).1 c hc, Dict.get_set_c11]; simp [Ne.symm hc]
    · intro sd h0; rw [hnone] at h0; cases h0

/-- the same for `add_xobject` when the `XObject` entry is a direct dictionary or absent (when it is a
reference the sub-dictionary lives in another object and `res` itself is not written) -/
theorem addXObject_monotone_partial (d : Doc) (pg : ObjId) (name : Bytes) (xid : ObjId) (d1 : Doc) (loc : ResLoc)
    (res : Dict) (hg : getOrCreateResources d pg = some (d1, loc)) (hr : readLoc d1.objects loc = some (.dict res))
    (hnr : ∀ n g, Dict.get res kXObject ≠ some (.ref n g)) :
    ∃ res', readLoc (addXObject d pg name xid).1.objects loc = some (.dict res') ∧
      (∀ c, c ≠ kXObject → Dict.get res' c = Dict.get res c) ∧
      (∀ sd, Dict.get res kXObject = some (.dict sd) →
        ∃ sd', Dict.get res' kXObject = some (.dict sd') ∧ ∀ n, n ≠ name → Dict.get sd' n = Dict.get sd n) := by
  unfold addXObject
  simp only [hg, hr]
  by_cases hh : Dict.has res kXObject = true
  · simp only [hh, if_true]
    cases hge : Dict.get res kXObject with
    | none => simp [Dict.has, hge] at hh
    | some v =>
      cases v with
      | dict sd =>
        simp only
        refine ⟨_, readLoc_writeLoc _ _ _ _ hr, ?_, ?_⟩
        · exact (withEntry_monotone res sd kXObject name _).1
        · intro sd0 h0; cases h0
          exact ⟨_, (withEntry_monotone res sd kXObject name _).2.1, (withEntry_monotone res sd kXObject name _).2.2.1⟩
      | ref n g => exact absurd hge (hnr n g)
      | _ => exact ⟨res, hr, fun _ _ => rfl, fun sd h0 => by cases h0⟩
  · have hh' : Dict.has res kXObject = false := by simpa using hh
    have hnone : Dict.get res kXObject = none := by
      simp only [Dict.has] at hh'; cases hx : Dict.get res kXObject <;> simp_all
    simp only [hh', Bool.false_eq_true, if_false, Dict.get_set_c11, if_true]
    refine ⟨_, readLoc_writeLoc _ _ _ _ hr, ?_, ?_⟩
    · intro c hc
      rw [(withEntry_monotone _ [] kXObject name _).1 c hc, Dict.get_set_c11]; simp [Ne.symm hc]
    · intro sd h0; rw [hnone] at h0; cases h0

/-- (F-C11-e fixed) Page 2 has no own `Resources` and inherits `/Font /F1` from its parent 3: `add_xobject`
gives the page an own `Resources` that starts as a copy of the inherited one, so `Font` stays in effect. -/
def wres : Doc :=
  { trailer := [], maxId := 5, bookmarks := [], bmTable := [],
    objects := [((2,0), .dict [(TYPE, .name PAGE), (PARENT, .ref 3 0)]),
                ((3,0), .dict [(TYPE, .name PAGES), (KIDS, .arr [.ref 2 0]),
                               (kResources, .dict [([70,111,110,116], .dict [([70,49], .ref 5 0)])])]),
                ((5,0), .dict [])] }

theorem inherited_kept_example :
    ((wres.objects.get (2,0)).bind Obj.asDict).bind (fun pd => Dict.get pd kResources) = none ∧
    ((((addXObject wres (2,0) [73,109,49] (5,0)).1.objects.get (2,0)).bind Obj.asDict).bind
        (fun pd => (Dict.get pd kResources).bind Obj.asDict)).map Dict.keys = some [[70,111,110,116], kXObject] := by
  constructor <;> decide

/-- decoding of a stream as `get_page_content` needs it here: no filter, or FlateDecode through the codec -/
def decodeStream (inflate : Bytes → Option Bytes) : Obj → Option Bytes
  | .stream dict content =>
    match Dict.get dict kFilter with
    | none => some content
    | some (.name n) => if n = kFlateDecode then inflate content else none
    | some _ => none
  | _ => none

/-- **C11, content edits.** With a codec satisfying `inflate (deflate x) = x`, the stream that
`change_content_stream` stores (plain, or FlateDecode when that saves more than the margin) decodes to the
new content, and its `Length` is the stored length. `hplain` is the one fact about the dictionary that is
used: after `set_plain_content` no `Filter` key is left (true of every `IndexMap`, i.e. duplicate-free, dictionary). -/
theorem change_content_decodes (inflate : Bytes → Option Bytes) (deflate : Bytes → Bytes)
    (hcodec : ∀ x, inflate (deflate x) = some x) (dict : Dict) (c : Bytes)
    (hplain : Dict.get (Dict.remove (Dict.remove dict kDecodeParms) kFilter) kFilter = none) :
    decodeStream inflate (plainThenCompress (deflate c) dict c) = some c := by
  unfold plainThenCompress
  simp only
  split
  · simp only [decodeStream, Dict.get_set_c11]
    have h1 : ¬ (LENGTHE = kFilter) := by decide
    simp [h1, hcodec]
  · simp only [decodeStream, Dict.get_set_c11]
    have h1 : ¬ (LENGTHE = kFilter) := by decide
    simp [h1, hplain]

theorem change_content_length (deflated : Bytes) (dict : Dict) (c : Bytes) :
    ∃ d' content', plainThenCompress deflated dict c = .stream d' content' ∧
      Dict.get d' LENGTHE = some (.int content'.length) := by
  unfold plainThenCompress
  simp only
  split
  · exact ⟨_, _, rfl, by simp [Dict.get_set_c11]⟩
  · exact ⟨_, _, rfl, by simp [Dict.get_set_c11]⟩

example : Dict.get (Dict.remove (Dict.remove [(kFilter, .name [65]), (LENGTHE, .int 3), (kDecodeParms, .null)] kDecodeParms) kFilter) kFilter = none := by
  decide

end Lopdf

namespace Lopdf.Ed
open Lopdf

/-! ### stream `Length` consistency; `compress` / `decompress` frame -/

/-- the stream objects a caller hands to `add_object` / `set_object` must themselves be consistent -/
def opLenGuard : Op → Prop
  | .add o => LenOK o
  | .set _ o => LenOK o
  | _ => True

/-- **C11, stream `Length` consistency, one step**: every modelled call keeps "each stream's `Length` is the
length of its stored content" — the calls that set content (add_page_contents, change_content_stream,
change_page_content, compress, decompress) establish it for the streams they write. -/
theorem len_step (d : Doc) (op : Op) (h : LenInv d) (hg : opLenGuard op) (d' : Doc) (out : Out)
    (hs : step d op = .ok (d', out)) : LenInv d' := by
  cases op with
  | newId => simp only [step] at hs; split at hs <;> cases hs; exact h
  | add o => simp only [step] at hs; split at hs <;> cases hs; exact lenInv_addObject d o h hg
  | set id o => simp only [step] at hs; cases hs; exact valsOK_insert _ _ _ h hg
  | del id => simp only [step] at hs; cases hs; exact lenInv_deleteObject d id h
  | prune =>
    simp only [step] at hs; cases hs
    exact valsOK_foldl_remove _ _ (lenInv_traverse _ tame_id _ _ h)
  | delZero => simp only [step] at hs; cases hs; exact lenInv_foldl_delete _ d h
  | renumber s =>
    simp only [step] at hs
    split at hs
    · rename_i d2 hr; cases hs; exact lenInv_densePass (pagePass d) s (lenInv_pagePass d h) _ hr
    · cases hs
    · cases hs
  | delPages n => simp only [step] at hs; cases hs; exact lenInv_deletePages d n h
  | addContent p c => simp only [step] at hs; exact lenInv_addPageContents d p c h d' out hs
  | removeAnnot id =>
    simp only [step] at hs; have e := Outcome.ok.inj hs
    have := lenInv_removeAnnot id (pageIter d.trailer d.objects) d h; rw [e] at this; exact this
  | addXObject p n x =>
    simp only [step] at hs; have e := Outcome.ok.inj hs
    have := lenInv_addXObject d p n x h; rw [e] at this; exact this
  | addGState p n x =>
    simp only [step] at hs; have e := Outcome.ok.inj hs
    have := lenInv_addGraphicsState d p n x h; rw [e] at this; exact this
  | changeStream sid c f => simp only [step] at hs; cases hs; exact lenInv_changeContentStream _ d sid c h
  | changePage p c f => simp only [step] at hs; exact lenInv_changePageContent _ d p c h d' out hs
  | compress f =>
    simp only [step] at hs; cases hs
    intro k o hk
    simp only at hk; rw [docCompress_get] at hk
    cases hos : d.objects.get k with
    | none => rw [hos] at hk; cases hk
    | some o0 => rw [hos] at hk; simp at hk; subst hk; exact lenOK_compressObj _ _ _ _ (h k o0 hos)
  | decompress e =>
    simp only [step] at hs; cases hs
    intro k o hk
    simp only at hk; rw [docDecompress_get] at hk
    cases hos : d.objects.get k with
    | none => rw [hos] at hk; cases hk
    | some o0 => rw [hos] at hk; simp at hk; subst hk; exact lenOK_decompressObj _ _ (h k o0 hos)

/-- guarded programs: every `add_object` / `set_object` argument is `Length`-consistent -/
def lenGuards : List Op → Prop
  | [] => True
  | op :: rest => opLenGuard op ∧ lenGuards rest

/-- **C11, `Length` consistency over arbitrary programs** -/
theorem len_run (ops : List Op) (d : Doc) (h : LenInv d) (hg : lenGuards ops) (d' : Doc)
    (hr : runOps d ops = .ok d') : LenInv d' := by
  induction ops generalizing d with
  | nil => simp [runOps] at hr; subst hr; exact h
  | cons op rest ih =>
    simp only [runOps] at hr
    split at hr
    · rename_i d1 out hs; exact ih d1 (len_step d op h hg.1 d1 out hs) hg.2 hr
    · cases hr
    · cases hr

example : LenOK (.stream [(LENGTHE, .int 3)] [1, 2, 3]) := by simp [LenOK, Dict.get, DictL.NoDup]

/-- **frame of `Document::compress` / `Document::decompress`**: trailer, `max_id` and the key set are
untouched; every object that is not a stream is returned as it was; a stream is replaced by its
(de)compressed form as C09's `compress` / `decompress` describe it. -/
theorem compress_frame (d : Doc) (f : Bytes → Bytes) (d' : Doc) (out : Out) (hs : step d (.compress f) = .ok (d', out)) :
    d'.trailer = d.trailer ∧ d'.maxId = d.maxId ∧ d'.objects.keys = d.objects.keys ∧
    ∀ k, d'.objects.get k = (d.objects.get k).map (compressObj f (fun _ => true) k) := by
  simp only [step] at hs; cases hs
  exact ⟨rfl, rfl, by simpa using docCompress_keys f (fun _ => true) d.objects, fun k => by simpa using docCompress_get f (fun _ => true) d.objects k⟩

theorem decompress_frame (d : Doc) (e : Ext) (d' : Doc) (out : Out) (hs : step d (.decompress e) = .ok (d', out)) :
    d'.trailer = d.trailer ∧ d'.maxId = d.maxId ∧ d'.objects.keys = d.objects.keys ∧
    ∀ k, d'.objects.get k = (d.objects.get k).map (decompressObj e) := by
  simp only [step] at hs; cases hs
  exact ⟨rfl, rfl, by simpa using docDecompress_keys e d.objects, fun k => by simpa using docDecompress_get e d.objects k⟩

/-! ### resources: the reference case -/

/-- the object a resource location lives in -/
def locObj : ResLoc → ObjId
  | .obj id => id
  | .entry t => t

theorem readLoc_set_other (os : Objects) (loc : ResLoc) (t : ObjId) (v : Obj) (h : locObj loc ≠ t) :
    readLoc (os.set t v) loc = readLoc os loc := by
  cases loc with
  | obj id => simp only [readLoc, Objects.get_set]; simp [locObj] at h; simp [Ne.symm h]
  | entry p => simp only [readLoc, Objects.get_set]; simp [locObj] at h; simp [Ne.symm h]

/-- **C11, resources_monotone for `add_xobject` when the `XObject` entry is a REFERENCE** (the case the
guard of `addXObject_monotone_partial` excludes): the sub-dictionary lives in another object `t`; if that
object is not the one holding the resource dictionary itself (no aliasing), the resource dictionary is
returned exactly as it was, and in the sub-dictionary every name other than the new one is unchanged. -/
theorem addXObject_ref_monotone_partial (d : Doc) (pg : ObjId) (name : Bytes) (xid : ObjId) (d1 : Doc) (loc : ResLoc)
    (res : Dict) (n g : Nat) (t : ObjId) (xd : Dict)
    (hg : getOrCreateResources d pg = some (d1, loc)) (hr : readLoc d1.objects loc = some (.dict res))
    (hx : Dict.get res kXObject = some (.ref n g)) (ht : objectMutId d1.objects (n, g) = some t)
    (hxd : d1.objects.get t = some (.dict xd)) (hna : locObj loc ≠ t) :
    readLoc (addXObject d pg name xid).1.objects loc = some (.dict res) ∧
    ∃ xd', (addXObject d pg name xid).1.objects.get t = some (.dict xd') ∧
      Dict.get xd' name = some (.ref xid.1 xid.2) ∧ ∀ m, m ≠ name → Dict.get xd' m = Dict.get xd m := by
  have hh : Dict.has res kXObject = true := by simp [Dict.has, hx]
  unfold addXObject
  simp only [hg, hr, hh, if_true, hx, ht, hxd]
  refine ⟨by rw [readLoc_set_other _ _ _ _ hna]; exact hr, Dict.set xd name (.ref xid.1 xid.2), by simp [Objects.get_set, hxd], ?_, ?_⟩
  · simp [Dict.get_set_c11]
  · intro m hm; simp [Dict.get_set_c11, Ne.symm hm]

/-- without the no-aliasing hypothesis the statement is false: a resource dictionary (object 7) whose
`XObject` entry refers back to itself loses its `Font` category when an XObject NAMED `Font` is added -/
def walias : Doc :=
  { trailer := [], maxId := 7, bookmarks := [], bmTable := [],
    objects := [((2,0), .dict [(TYPE, .name PAGE), (kResources, .ref 7 0)]),
                ((7,0), .dict [([70,111,110,116], .dict [([70,49], .ref 5 0)]), (kXObject, .ref 7 0)])] }

theorem xobject_alias_witness :
    (((walias.objects.get (7,0)).bind Obj.asDict).bind (fun r => Dict.get r [70,111,110,116])).bind Obj.asDict ≠ none ∧
    ((((addXObject walias (2,0) [70,111,110,116] (5,0)).1.objects.get (7,0)).bind Obj.asDict).bind
        (fun r => Dict.get r [70,111,110,116])).bind Obj.asDict = none := by
  constructor <;> decide


end Lopdf.Ed
