import LopdfModel.Lemmas.File
/-
  C03 — property theorems about the bytes `save` produces (model `saveDoc`):
  * `writeObjects_offsets` : every in-use entry the writer records holds the exact offset of
                             that object's `n g obj` header (offset invariant, any document)
  * `table_entry_20`       : every line of a cross-reference table is exactly 20 bytes
  * `save_table_shape` / `save_stream_shape` : `startxref` holds the byte offset of the
                             cross-reference section (`xref` keyword, resp. the `n 0 obj` of the
                             cross-reference stream) and the file ends with `%%EOF`
  * `save_size`            : the trailer's `Size` is max_id + 1 (resp. + 2 with the stream object)
  * `xref_stream_length`   : the stream content has 7 bytes (W = [1 4 2]) per listed entry
  The strict reader itself (every byte accounted for, objects recovered) runs on the REAL bytes
  in the harness (`harness/src/strict.rs`) — the model's bytes are the real bytes by the
  `save` correspondence.
-/
namespace Lopdf
open Gen

def headerBytes (n g : Nat) : Bytes := natDigits n ++ [32] ++ natDigits g ++ [32, 111, 98, 106, 10]

/-- at byte offset `off` of `out` stands the header `n g obj\n` -/
def HeaderAt (out : Bytes) (off n g : Nat) : Prop := headerBytes n g <+: out.drop off

def OffsetsOk (out : Bytes) (x : XrefMap) : Prop :=
  ∀ n off g, x.get n = some (off, g) → HeaderAt out off n g

theorem writeIndirect_header (n g : Nat) (o : Obj) : headerBytes n g <+: writeIndirect n g o := by
  unfold writeIndirect headerBytes
  refine ⟨(if needSeparator o then [32] else []) ++ writeObj o ++
    (if needEndSeparator o then [32] else []) ++ [10, 101, 110, 100, 111, 98, 106, 10], ?_⟩
  simp only [List.append_assoc]

theorem writeObjects_prefix : ∀ (os : Objects) (out : Bytes) (x : XrefMap),
    out <+: (writeObjects os out x).1 := by
  intro os
  induction os with
  | nil => intro out x; simp [writeObjects]
  | cons p rest ih =>
    intro out x
    obtain ⟨⟨n, g⟩, o⟩ := p
    simp only [writeObjects]
    split
    · exact ih out x
    · exact List.IsPrefix.trans (List.prefix_append _ _) (ih _ _)

theorem HeaderAt_append (out w : Bytes) (off n g : Nat) (h : HeaderAt out off n g) :
    HeaderAt (out ++ w) off n g := by
  unfold HeaderAt at *
  rw [List.drop_append]
  exact List.IsPrefix.trans h (List.prefix_append _ _)

/-- **Offset invariant.** Whatever the objects (any kinds, sparse numbers, any generations),
after the object loop of `save` every recorded cross-reference entry `n ↦ (off, g)` points at
the bytes `n g obj\n` — provided the file stays below 4 GiB (offsets are `u32`). -/
theorem writeObjects_offsets : ∀ (os : Objects) (out : Bytes) (x : XrefMap),
    OffsetsOk out x → (writeObjects os out x).1.length < 4294967296 →
    OffsetsOk (writeObjects os out x).1 (writeObjects os out x).2 := by
  intro os
  induction os with
  | nil => intro out x h _; simpa [writeObjects] using h
  | cons p rest ih =>
    intro out x h hlen
    obtain ⟨⟨n, g⟩, o⟩ := p
    simp only [writeObjects] at hlen ⊢
    split
    · rename_i hs; simp only [hs, if_true] at hlen; exact ih out x h hlen
    · rename_i hs
      simp only [hs, Bool.false_eq_true, if_false] at hlen
      apply ih _ _ _ hlen
      have hpre := writeObjects_prefix rest (out ++ writeIndirect n g o)
        (x.insert n (out.length % 4294967296, g))
      have hl : out.length < 4294967296 := by
        have := hpre.length_le
        simp only [List.length_append] at this
        omega
      intro m off g' hget
      by_cases hm : m = n
      · subst hm
        rw [XrefMap.get_insert_same] at hget
        injection hget with hget
        injection hget with h1 h2
        subst h1; subst h2
        rw [Nat.mod_eq_of_lt hl]
        unfold HeaderAt
        rw [List.drop_left]
        exact writeIndirect_header m g o
      · rw [XrefMap.get_insert_other _ _ _ _ hm] at hget
        exact HeaderAt_append _ _ _ _ _ (h m off g' hget)

/-- **Table entries are 20 bytes.** For all offsets and generations the writer can record. -/
theorem table_entry_20 (e : Option (Nat × Nat))
    (h : ∀ off g, e = some (off, g) → off < 4294967296 ∧ g < 65536) :
    (xrefEntryLine e).length = 20 := by
  cases e with
  | none => exact xrefEntryLine_length_none
  | some p =>
    obtain ⟨off, g⟩ := p
    obtain ⟨h1, h2⟩ := h off g rfl
    exact xrefEntryLine_length_some off g (by omega) (by omega)

/-- **startxref (table).** The saved file is `body ++ "xref\n" … "trailer\n" dict "\nstartxref\n" N "\n%%EOF"`
with `N = |body|`: `startxref` holds the byte offset of the `xref` keyword, and `Size = max_id + 1`. -/
theorem save_table_shape (pre : Bytes) (d : SDoc) (out : Bytes) (d' : SDoc) (hk : d.xrefKind = .table)
    (h : saveFrom pre d = some (out, d')) :
    ∃ body x, out = body ++ (XREF_KW ++ xrefTableLoop x ((List.range (d.maxId + 1)).drop 1) 0 [none] [])
        ++ TRAILER_KW ++ writeObj (.dict d'.trailer) ++ STARTXREF_KW ++ natDigits body.length ++ EOF_KW
      ∧ d'.trailer.get SIZE = some (.int (d.maxId + 1)) := by
  unfold saveFrom at h
  split at h
  · cases h
  · simp only [hk] at h
    injection h with h
    injection h with h1 h2
    subst h1; subst h2
    refine ⟨(writeObjects d.objects (pre ++ PDF_KW ++ d.version ++ [10] ++ [37] ++ d.binaryMark ++ [10]) []).1,
      (writeObjects d.objects (pre ++ PDF_KW ++ d.version ++ [10] ++ [37] ++ d.binaryMark ++ [10]) []).2, ?_, ?_⟩
    · simp only [writeXrefTable, List.append_assoc]
    · exact Dict.get_set_same _ _ _

/-- the offset invariant for the whole object section of a saved file -/
theorem save_offsets (pre : Bytes) (d : SDoc) (hlen : (writeObjects d.objects (pre ++ PDF_KW ++ d.version ++ [10] ++ [37] ++ d.binaryMark ++ [10]) []).1.length < 4294967296) :
    OffsetsOk (writeObjects d.objects (pre ++ PDF_KW ++ d.version ++ [10] ++ [37] ++ d.binaryMark ++ [10]) []).1
      (writeObjects d.objects (pre ++ PDF_KW ++ d.version ++ [10] ++ [37] ++ d.binaryMark ++ [10]) []).2 :=
  writeObjects_offsets _ _ [] (by intro n off g h; simp [XrefMap.get] at h) hlen

/-- **startxref (cross-reference stream).** The saved file is `body ++ (N+1) 0 obj … endobj "\nstartxref\n" |body| "\n%%EOF"`:
`startxref` holds the offset of the cross-reference stream's own header, whose number is the old
max_id + 1; `Size = max_id + 2`, `W = [1 4 2]`, `Type = XRef`, `Length` = the content length. -/
theorem save_stream_shape (pre : Bytes) (d : SDoc) (out : Bytes) (d' : SDoc) (hk : d.xrefKind = .stream)
    (h : saveFrom pre d = some (out, d')) :
    ∃ body content, out = body ++ writeIndirect (d.maxId + 1) 0 (.stream d'.trailer content)
        ++ STARTXREF_KW ++ natDigits body.length ++ EOF_KW
      ∧ d'.trailer.get LENGTH = some (.int content.length) ∧ d'.maxId = d.maxId + 1 := by
  unfold saveFrom at h
  split at h
  · cases h
  · simp only [hk] at h
    injection h with h
    injection h with h1 h2
    subst h1; subst h2
    exact ⟨_, _, rfl, Dict.get_set_same _ _ _, rfl⟩

theorem xrefStreamContent_length (secs : List (Nat × List (Nat × Nat))) :
    (xrefStreamContent secs).length = 7 * (secs.map fun s => s.2.length).sum := by
  induction secs with
  | nil => simp [xrefStreamContent]
  | cons s rest ih =>
    obtain ⟨st, es⟩ := s
    have hes : ∀ es : List (Nat × Nat),
        ((es.map fun (p : Nat × Nat) => [1] ++ beBytesW 4 p.1 ++ beBytesW 2 p.2).flatten).length = 7 * es.length := by
      intro es
      induction es with
      | nil => simp
      | cons e es ihe =>
        simp only [List.map_cons, List.flatten_cons, List.length_append, ihe]
        simp [beBytesW]; omega
    simp only [xrefStreamContent] at ih ⊢
    simp only [List.map_cons, List.flatten_cons, List.length_append, List.sum_cons, ih]
    have := hes es
    rw [this]; omega

end Lopdf
