import LopdfModel.Thm.C02File
/-
  C02 — bytes before the header: `Reader::read` starts at the first `%PDF-`; all offsets of the
  file are relative to it.  Whatever precedes the header (without containing `%PDF-` itself) does
  not change what is loaded.
-/
namespace Lopdf.Grammar
open Lopdf Gen

theorem findFrom_skip (pat : Bytes) : ∀ (junk rest : Bytes) (fuel i : Nat), junk.length < fuel →
    (∀ j, j < junk.length → pat.isPrefixOf ((junk ++ rest).drop j) = false) →
    findFrom pat fuel (junk ++ rest) i = findFrom pat (fuel - junk.length) rest (i + junk.length) := by
  intro junk
  induction junk with
  | nil => intro rest fuel i _ _; simp
  | cons a as ih =>
    intro rest fuel i hf hno
    cases fuel with
    | zero => simp at hf
    | succ f =>
      have h0 := hno 0 (by simp)
      simp only [List.drop_zero] at h0
      simp only [List.cons_append] at h0 ⊢
      simp only [findFrom, h0, Bool.false_eq_true, if_false]
      rw [ih rest f (i + 1) (by simp at hf; omega) (fun j hj => by
        have := hno (j + 1) (by simp; omega)
        simpa using this)]
      simp only [List.length_cons]
      congr 1 <;> omega

/-- the first byte of the pattern does not occur in the junk: no occurrence starts there -/
theorem no_occurrence_of_first (p0 : UInt8) (ps junk rest : Bytes) (h : p0 ∉ junk) :
    ∀ j, j < junk.length → (p0 :: ps).isPrefixOf ((junk ++ rest).drop j) = false := by
  intro j hj
  have hd : (junk ++ rest).drop j = junk.drop j ++ rest := by
    rw [List.drop_append_of_le_length (by omega)]
  rw [hd]
  cases hjd : junk.drop j with
  | nil =>
    have := congrArg List.length hjd
    simp at this; omega
  | cons x xs =>
    have hx : x ∈ junk := List.mem_of_mem_drop (by rw [hjd]; simp)
    have : p0 ≠ x := fun e => h (e ▸ hx)
    simp [List.isPrefixOf, this]

/-- **Junk before the header.** Bytes in front of `%PDF-` in which no `%PDF-` starts are
skipped: the file loads exactly as without them (all offsets relative to the header). -/
theorem loadDoc_junk_prefix (junk file : Bytes)
    (hno : ∀ j, j < junk.length → PDF_KW.isPrefixOf ((junk ++ file).drop j) = false)
    (hfile : findFrom PDF_KW (file.length + 1) file 0 = some 0) :
    loadDoc (junk ++ file) = loadDoc file := by
  have h1 : findFrom PDF_KW ((junk ++ file).length + 1) (junk ++ file) 0 = some junk.length := by
    rw [findFrom_skip PDF_KW junk file _ 0 (by simp only [List.length_append]; omega) hno]
    have e : (junk ++ file).length + 1 - junk.length = file.length + 1 := by simp only [List.length_append]; omega
    rw [e]
    -- the position counter only shifts the answer
    have shift : ∀ (b : Bytes) (fuel i k : Nat), findFrom PDF_KW fuel b i = some k →
        ∀ m, findFrom PDF_KW fuel b (i + m) = some (k + m) := by
      intro b
      induction b with
      | nil => intro fuel i k h; cases fuel <;> simp [findFrom] at h
      | cons x xs ih =>
        intro fuel i k h m
        cases fuel with
        | zero => simp [findFrom] at h
        | succ f =>
          simp only [findFrom] at h ⊢
          split at h
          · injection h with h; subst h; simp [*]
          · rename_i hp
            simp only [hp, if_false]
            have := ih f (i + 1) k h m
            rw [show i + m + 1 = i + 1 + m by omega]; exact this
    have := shift file (file.length + 1) 0 0 hfile junk.length
    simpa using this
  unfold loadDoc loadDocOrd loadDocOrd2 loadDocWith
  simp only [h1, hfile, List.drop_left, List.drop_zero]

/-- e.g. junk without any `%` byte -/
theorem loadDoc_junk_prefix_nopercent (junk file : Bytes) (h : (37 : UInt8) ∉ junk)
    (hfile : findFrom PDF_KW (file.length + 1) file 0 = some 0) : loadDoc (junk ++ file) = loadDoc file :=
  loadDoc_junk_prefix junk file (no_occurrence_of_first 37 _ junk file h) hfile

example : (37 : UInt8) ∉ [0xef, 0xbb, 0xbf, 106, 117, 110, 107, 10] := by decide

end Lopdf.Grammar
