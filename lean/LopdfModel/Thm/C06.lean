import LopdfModel.Lemmas.Crypt
import LopdfModel.Spec.SecHandler
import LopdfModel.Thm.C05
/-
  C06 — Standard security handler agrees with ISO 32000 algorithms.

  Conformance itself is a differential statement (checked both ways on whole documents by the
  harness against an independent Rust reference).  What is PROVED here:
   (1) self-consistency of the Lean transcription Spec/SecHandler.lean of the ISO algorithms, for
       all inputs: Alg 6 accepts what Alg 4/5 produce; Alg 7 recovers the user password from Alg 3's O
       (RC4 involution, reversal of the key loop); the owner path yields the user path's key;
       Alg 2.A recovers the file key from UE / OE of Alg 8 / 9 (AES hypothesis); Alg 13 accepts Alg 10.
   (2) model_eq_spec: the model of lopdf's CODE (Model/Crypt.lean) equals the spec on the claimed
       domain: password padding, Algorithm 2 (for the P value the code uses), 3 (owner password
       present), 4, 5, per-object keys (Alg 1 / AESV2 salt), AES data encryption (Alg 1.A).
   (3) where they do NOT agree, the deviation as a proved statement: P is re-normalised before Algorithm 2, the owner password is never "absent",
       Algorithms 8 / 9 as coded do not truncate to 127 bytes.
-/
set_option linter.unusedSectionVars false
namespace Lopdf.C06
open Lopdf Lopdf.Gen Lopdf.Crypt Lopdf.Spec.Sec

/-! ## (1) spec self-consistency -/
section spec
variable (S : SPrims)

theorem pad_length : PAD.length = 32 := by decide

theorem padPassword_length (pw : Bytes) : (padPassword pw).length = 32 := by
  simp [padPassword, pad_length]

theorem padPassword_idem (pw : Bytes) : padPassword (padPassword pw) = padPassword pw := by
  have h := padPassword_length pw
  unfold padPassword at h ⊢
  rw [List.take_append_of_le_length (by omega), List.take_of_length_le (by omega)]

theorem alg2_padded (q : Params) (o pw : Bytes) : alg2 S q o (padPassword pw) = alg2 S q o pw := by
  simp [alg2, padPassword_idem]

/-- Algorithm 6 accepts the U value of Algorithm 4 (R2) -/
theorem alg6_accepts_alg4 (q : Params) (o pw : Bytes) (hr : q.r = 2) :
    alg6 S q o (alg4 S q o pw) pw = some (alg2 S q o pw) := by
  simp [alg6, hr]

/-- Algorithm 6 accepts any U whose first 16 bytes are Algorithm 5's (R3, R4) -/
theorem alg6_accepts_alg5 (q : Params) (o pw u : Bytes) (hr : q.r ≠ 2) (hu : u.take 16 = alg5 S q o pw) :
    alg6 S q o u pw = some (alg2 S q o pw) := by
  simp [alg6, hr, hu]

theorem rc4Seq_append (k : Bytes) (l1 l2 : List Nat) (d : Bytes) :
    rc4Seq S k (l1 ++ l2) d = rc4Seq S k l2 (rc4Seq S k l1 d) := by
  induction l1 generalizing d with
  | nil => simp [rc4Seq]
  | cons i rest ih => simp [rc4Seq, ih]

/-- running the key sequence backwards undoes it (from RC4 being an involution) -/
theorem rc4Seq_reverse (hinv : ∀ k d, S.rc4 k (S.rc4 k d) = d) (k : Bytes) (l : List Nat) (d : Bytes) :
    rc4Seq S k l.reverse (rc4Seq S k l d) = d := by
  induction l generalizing d with
  | nil => simp [rc4Seq]
  | cons i rest ih =>
    simp only [List.reverse_cons, rc4Seq_append, rc4Seq]
    rw [ih, hinv]

theorem xorWith_zero (k : Bytes) : xorWith k 0 = k := by
  simp [xorWith]

/-- Algorithm 7 recovers the padded user password from the O value of Algorithm 3 -/
theorem alg7_recovers_user (hinv : ∀ k d, S.rc4 k (S.rc4 k d) = d) (q : Params) (ownerPw userPw : Bytes)
    (hr : 2 ≤ q.r) :
    alg7User S q (alg3 S q (some ownerPw) userPw) ownerPw = padPassword userPw := by
  unfold alg7User alg3
  by_cases h2 : q.r = 2
  · have : ¬ q.r ≥ 3 := by omega
    simp [h2, hinv]
  · have h3 : q.r ≥ 3 := by omega
    simp only [h2, h3, ↓reduceIte, Option.getD_some]
    have e : List.range' 0 20 = 0 :: List.range' 1 19 := by decide
    have step : rc4Seq S (ownerKey S q ownerPw) (List.range' 1 19) (S.rc4 (ownerKey S q ownerPw) (padPassword userPw))
        = rc4Seq S (ownerKey S q ownerPw) (List.range' 0 20) (padPassword userPw) := by
      rw [e]; simp [rc4Seq, xorWith_zero]
    rw [step, rc4Seq_reverse S hinv]

/-- the owner path of Algorithm 7 yields exactly what Algorithm 6 yields for the user password:
same acceptance, same file encryption key -/
theorem alg7_eq_alg6_user (hinv : ∀ k d, S.rc4 k (S.rc4 k d) = d) (q : Params) (ownerPw userPw u : Bytes)
    (hr : 2 ≤ q.r) :
    alg7 S q (alg3 S q (some ownerPw) userPw) u ownerPw = alg6 S q (alg3 S q (some ownerPw) userPw) u userPw := by
  unfold alg7
  rw [alg7_recovers_user S hinv q ownerPw userPw hr]
  unfold alg6 alg4 alg5
  simp only [alg2_padded]

theorem cbcE_eq (E : Bytes → Bytes) (n : Nat) (iv d : Bytes) : cbcE E n iv d = cbcEncN E n iv d := by
  induction n generalizing iv d with
  | zero => rfl
  | succ n ih => simp [cbcE, cbcEncN, xorBlock, xorB, ih]
theorem cbcD_eq (D : Bytes → Bytes) (n : Nat) (iv d : Bytes) : cbcD D n iv d = cbcDecN D n iv d := by
  induction n generalizing iv d with
  | zero => rfl
  | succ n ih => simp [cbcD, cbcDecN, xorBlock, xorB, ih]

structure AesOK (S : SPrims) : Prop where
  enc_len : ∀ k b, (S.aesEnc k b).length = 16
  dec_enc : ∀ k b, b.length = 16 → S.aesDec k (S.aesEnc k b) = b

theorem cbc2_rt (hA : AesOK S) (key d : Bytes) (hd : d.length = 32) :
    cbcD (S.aesDec key) 2 zeroIV (cbcE (S.aesEnc key) 2 zeroIV d) = d := by
  rw [cbcE_eq, cbcD_eq]
  exact cbcN_dec_enc _ _ (hA.enc_len key) (hA.dec_enc key) 2 zeroIV d (by simp [zeroIV]) (by omega)

/-- Algorithm 2.A recovers the file key from OE of Algorithm 9 with the owner password -/
theorem alg2A_owner (hA : AesOK S) (r : Nat) (hh : ∀ pw s u, (hashR S r pw s u).length = 32)
    (pw fileKey salts u ue : Bytes) (hk : fileKey.length = 32) (hs : salts.length = 16) (hu : u.length = 48) :
    alg2A S r (alg9 S r pw fileKey salts u).1 u (alg9 S r pw fileKey salts u).2 ue pw = some fileKey := by
  have h1 := hh (trunc pw) (salts.take 8) u
  have ht : (trunc (trunc pw)) = trunc pw := by simp [trunc, List.take_take]
  unfold alg2A alg9
  simp only [ht]
  have hu48 : u.take 48 = u := List.take_of_length_le (by omega)
  have a1 : ((hashR S r (trunc pw) (salts.take 8) u ++ salts.take 8 ++ (salts.drop 8).take 8).drop 32).take 8 = salts.take 8 := by
    rw [List.append_assoc, List.drop_append_of_le_length (by omega), List.drop_of_length_le (by omega)]
    simp [List.take_append_of_le_length, hs]
  have a2 : (hashR S r (trunc pw) (salts.take 8) u ++ salts.take 8 ++ (salts.drop 8).take 8).take 32
      = hashR S r (trunc pw) (salts.take 8) u := by
    rw [List.append_assoc, List.take_append_of_le_length (by omega), List.take_of_length_le (by omega)]
  have a3 : ((hashR S r (trunc pw) (salts.take 8) u ++ salts.take 8 ++ (salts.drop 8).take 8).drop 40).take 8 = (salts.drop 8).take 8 := by
    have : (hashR S r (trunc pw) (salts.take 8) u ++ salts.take 8).length = 40 := by simp [h1, hs]
    rw [List.drop_append_of_le_length (by omega), List.drop_of_length_le (by omega)]
    simp [hs, List.take_take]
  simp only [hu48, a1, a2, a3, ↓reduceIte]
  rw [cbc2_rt S hA _ fileKey hk]

/-- Algorithm 2.A recovers the file key from UE of Algorithm 8 with the user password, provided the
user password does not also pass the owner test (no hash coincidence) -/
theorem alg2A_user (hA : AesOK S) (r : Nat) (hh : ∀ pw s u, (hashR S r pw s u).length = 32)
    (pw fileKey salts o oe : Bytes) (hk : fileKey.length = 32) (hs : salts.length = 16)
    (hno : hashR S r (trunc pw) ((o.drop 32).take 8) (((alg8 S r pw fileKey salts).1).take 48) ≠ o.take 32) :
    alg2A S r o (alg8 S r pw fileKey salts).1 oe (alg8 S r pw fileKey salts).2 pw = some fileKey := by
  have h1 := hh (trunc pw) (salts.take 8) []
  have ht : (trunc (trunc pw)) = trunc pw := by simp [trunc, List.take_take]
  unfold alg2A
  simp only [ht, hno, ↓reduceIte]
  unfold alg8
  have a1 : ((hashR S r (trunc pw) (salts.take 8) [] ++ salts.take 8 ++ (salts.drop 8).take 8).drop 32).take 8 = salts.take 8 := by
    rw [List.append_assoc, List.drop_append_of_le_length (by omega), List.drop_of_length_le (by omega)]
    simp [List.take_append_of_le_length, hs]
  have a2 : (hashR S r (trunc pw) (salts.take 8) [] ++ salts.take 8 ++ (salts.drop 8).take 8).take 32
      = hashR S r (trunc pw) (salts.take 8) [] := by
    rw [List.append_assoc, List.take_append_of_le_length (by omega), List.take_of_length_le (by omega)]
  have a3 : ((hashR S r (trunc pw) (salts.take 8) [] ++ salts.take 8 ++ (salts.drop 8).take 8).drop 40).take 8 = (salts.drop 8).take 8 := by
    have : (hashR S r (trunc pw) (salts.take 8) [] ++ salts.take 8).length = 40 := by simp [h1, hs]
    rw [List.drop_append_of_le_length (by omega), List.drop_of_length_le (by omega)]
    simp [hs, List.take_take]
  simp only [a1, a2, a3, ↓reduceIte]
  rw [cbc2_rt S hA _ fileKey hk]

theorem le_length (k n : Nat) : (le k n).length = k := by
  induction k generalizing n with
  | zero => rfl
  | succ k ih => simp [le, ih]

/-- Algorithm 13 accepts the Perms value of Algorithm 10 -/
theorem alg13_accepts_alg10 (hA : AesOK S) (p : Nat) (em : Bool) (fileKey rnd : Bytes) (hr : rnd.length ≥ 4) :
    alg13 S p fileKey (alg10 S p em fileKey rnd) = true := by
  unfold alg13 alg10
  have hl : (permsBlock p em rnd).length = 16 := by simp [permsBlock, le_length]; omega
  rw [hA.dec_enc _ _ hl]
  have h4 := le_length 4 p
  simp [permsBlock, h4, le]

end spec

/-! ## (2) model_eq_spec: the model of the code equals the ISO transcription -/
section model_eq_spec
variable (P : Prims) (S : SPrims)
variable (hmd5 : S.md5 = P.md5) (hrc4 : S.rc4 = Crypt.rc4) (haesE : S.aesEnc = P.aesEnc)

theorem pad_bytes_eq : PAD_BYTES = PAD := by decide

theorem padPw_eq (pw : Bytes) : padPw pw = padPassword pw := by
  unfold padPw padPassword
  rw [List.take_append, pad_bytes_eq]
  congr 2
  omega

theorem leBytes_eq (k n : Nat) : leBytes k n = le k n := by
  induction k generalizing n with
  | zero => rfl
  | succ k ih => simp [leBytes, le, ih]

theorem iter_eq {α} (f : α → α) (n : Nat) (x : α) : iter f n x = iterate f n x := by
  induction n generalizing x with
  | zero => rfl
  | succ n ih => simp [iter, iterate, ih]

/-- the Algorithm-2 parameters the code uses for an algorithm state `a` -/
def paramsOf (a : Alg) (fileId : Bytes) : Params :=
  { r := a.revision, n := keyBytes a.revision a.length, p := pValue a.permissions % 4294967296,
    fileId := fileId, encryptMetadata := a.encryptMetadata }

include hmd5 in
/-- Algorithm 2 as coded = Algorithm 2 of the standard (for the P value the code feeds it) -/
theorem fileKeyR4_eq_alg2 (a : Alg) (fileId pw : Bytes) (hn : keyBytes a.revision a.length ≤ 16) :
    a.fileKeyR4 P fileId pw = .ok (alg2 S (paramsOf a fileId) a.ownerValue pw) := by
  have h50 : MD5_ROUNDS = 50 := by decide
  unfold Alg.fileKeyR4 alg2 paramsOf
  have : ¬ keyBytes a.revision a.length > 16 := by omega
  simp only [this, ↓reduceIte, padPw_eq, leBytes_eq, iter_eq, hmd5, h50]
  by_cases h4 : a.revision ≥ 4 <;> cases hem : a.encryptMetadata <;> simp [h4]

include hrc4 in
theorem rc4Up_eq_rc4Seq (k : Bytes) (cnt i : Nat) (d : Bytes) :
    rc4Up k cnt i d = rc4Seq S k (List.range' i cnt) d := by
  induction cnt generalizing i d with
  | zero => simp [rc4Up, rc4Seq]
  | succ n ih => simp [rc4Up, rc4Seq, List.range', ih, hrc4, xorKey, xorWith]

include hmd5 hrc4 in
/-- Algorithm 3 as coded = Algorithm 3 of the standard, including step (a): with no owner password
(an empty one) the user password is used -/
theorem computeO_eq_alg3 (a : Alg) (fileId ownerPw userPw : Bytes) (hn : keyBytes a.revision a.length ≤ 16) :
    a.computeO P ownerPw userPw =
      .ok (alg3 S (paramsOf a fileId) (if ownerPw.isEmpty then none else some ownerPw) userPw) := by
  have h50 : MD5_ROUNDS = 50 := by decide
  have h19 : RC4_ROUNDS = 19 := by decide
  unfold Alg.computeO alg3
  have : ¬ keyBytes a.revision a.length > 16 := by omega
  simp only [this, ↓reduceIte]
  have he : (if ownerPw.isEmpty then none else some ownerPw : Option Bytes).getD userPw = effOwner ownerPw userPw := by
    unfold effOwner; cases ownerPw.isEmpty <;> simp
  rw [he]
  have hk : a.ownerKey P (effOwner ownerPw userPw) = ownerKey S (paramsOf a fileId) (effOwner ownerPw userPw) := by
    simp [Alg.ownerKey, ownerKey, paramsOf, padPw_eq, iter_eq, hmd5, h50]
  rw [hk, rc4Up_eq_rc4Seq S hrc4, h19, padPw_eq, hrc4]
  rfl

include hmd5 hrc4 in
/-- Algorithms 4 and 5 as coded = the standard's -/
theorem computeU_eq_alg45 (a : Alg) (fileId userPw : Bytes) (hn : keyBytes a.revision a.length ≤ 16) :
    a.computeU2 P fileId userPw = .ok (alg4 S (paramsOf a fileId) a.ownerValue userPw) ∧
    a.computeU34 P fileId userPw = .ok (alg5 S (paramsOf a fileId) a.ownerValue userPw) := by
  have h19 : RC4_ROUNDS = 19 := by decide
  unfold Alg.computeU2 Alg.computeU34 alg4 alg5
  rw [fileKeyR4_eq_alg2 P S hmd5 a fileId userPw hn]
  simp [rc4Up_eq_rc4Seq S hrc4, hrc4, hmd5, pad_bytes_eq, h19, paramsOf]

include hmd5 in
/-- per-object keys: `Rc4CryptFilter::compute_key` = Algorithm 1, `Aes128CryptFilter::compute_key` =
Algorithm 1 with the `sAlT` suffix -/
theorem computeKey_eq_objectKey (fileKey : Bytes) (id : ObjId) :
    CF.rc4.computeKey P fileKey id = objectKey S fileKey id.1 id.2 false ∧
    CF.aes128.computeKey P fileKey id = objectKey S fileKey id.1 id.2 true := by
  have e1 : OBJ_NUM_BYTES = 3 := by decide
  have e2 : OBJ_GEN_BYTES = 2 := by decide
  have e3 : AES_SALT = [0x73, 0x41, 0x6C, 0x54] := by decide
  have e4 : KEY_EXTRA = 5 := by decide
  have e5 : KEY_CAP = 16 := by decide
  simp [CF.computeKey, objectKey, objSalt, leBytes_eq, hmd5, e1, e2, e3, e4, e5]

include haesE in
/-- AES string / stream encryption as coded = IV ‖ CBC(PKCS#5(data)) of 7.6.2 -/
theorem aesEncrypt_eq_aesData (kl : Nat) (key iv pt : Bytes) (hk : key.length = kl) :
    aesEncrypt P kl key iv pt = .ok (aesData S key iv pt) := by
  simp [aesEncrypt, hk, aesData, cbcEnc, cbcE_eq, pkcs5Pad, pad16, padLen, haesE]

end model_eq_spec

/-! ## (3) the deviations, as statements about the model of the code -/

/-! Algorithms 10 and 13 (after the repair of F-C06-c, /repo ca6bb9d): model = spec -/

theorem leBytes_mod (k n : Nat) : leBytes k (n % 256 ^ k) = leBytes k n := by
  induction k generalizing n with
  | zero => rfl
  | succ k ih =>
    have e : (256 : Nat) ^ (k + 1) = 256 * 256 ^ k := by rw [Nat.pow_succ, Nat.mul_comm]
    simp only [leBytes]
    rw [e, Nat.mod_mul_right_div_self, ih, Nat.mod_mul_right_mod]

theorem leBytes_append (j k n : Nat) : leBytes (j + k) n = leBytes j n ++ leBytes k (n / 256 ^ j) := by
  induction j generalizing n with
  | zero => simp [leBytes]
  | succ j ih =>
    have : j + 1 + k = (j + k) + 1 := by omega
    rw [this]
    simp only [leBytes, List.cons_append, ih]
    rw [Nat.div_div_eq_div_mul, Nat.pow_succ, Nat.mul_comm]

/-- the upper 32 bits of `p_value` are all ones for every permission word below 2^32 -/
theorem pValue_high (perms : Nat) (h : perms < 4294967296) : pValue perms / 4294967296 = 4294967295 := by
  unfold pValue
  have e : (4294967296 : Nat) = 2 ^ 32 := by decide
  rw [e, ← Nat.shiftRight_eq_div_pow, Nat.shiftRight_or_distrib, Nat.shiftRight_eq_div_pow, Nat.shiftRight_eq_div_pow]
  have h0 : perms / 2 ^ 32 = 0 := Nat.div_eq_of_lt (by rw [← e]; exact h)
  have h1 : P_RESERVED / 2 ^ 32 = 4294967295 := by decide
  rw [h0, h1]; simp

/-- the block `compute_permissions` encrypts = the block of Algorithm 10 -/
theorem permsPlain_eq_permsBlock (a : Alg) (rnd : Bytes) (hp : a.permissions < 4294967296) :
    a.permsPlain rnd = permsBlock (pValue a.permissions % 4294967296) a.encryptMetadata rnd := by
  have e : PERMS_TAG = [0x61, 0x64, 0x62] := by decide
  have e256 : (4294967296 : Nat) = 256 ^ 4 := by decide
  have l8 : leBytes 8 (pValue a.permissions) = le 4 (pValue a.permissions % 4294967296) ++ [0xFF, 0xFF, 0xFF, 0xFF] := by
    rw [show (8 : Nat) = 4 + 4 from rfl, leBytes_append, ← e256, pValue_high _ hp, ← leBytes_eq, e256, leBytes_mod]
    have : leBytes 4 4294967295 = [0xFF, 0xFF, 0xFF, 0xFF] := by decide
    rw [this]
  unfold Alg.permsPlain permsBlock
  rw [l8, e]

/-- model_eq_spec, Algorithm 10: `compute_permissions` as coded = Algorithm 10 (every permission
word below 2^32, every key, every random tail) -/
theorem computePerms_eq_alg10 (P : Prims) (S : SPrims) (haesE : S.aesEnc = P.aesEnc) (a : Alg) (key rnd : Bytes)
    (hp : a.permissions < 4294967296) :
    a.computePerms P key rnd = alg10 S (pValue a.permissions % 4294967296) a.encryptMetadata key rnd := by
  unfold Alg.computePerms alg10
  rw [permsPlain_eq_permsBlock a rnd hp, haesE]

/-- model_eq_spec, Algorithm 13: `validate_permissions` as coded accepts the Perms value of the
standard's Algorithm 10 (for the document's own P and EncryptMetadata) under the AES hypothesis -/
theorem validatePerms_accepts_alg10 (P : Prims) (S : SPrims) (haesE : S.aesEnc = P.aesEnc) (key : Bytes)
    (hk : BlockOK P key) (a : Alg) (rnd : Bytes) (hr : rnd.length ≥ 4) (hp : a.permissions < 4294967296)
    (hperms : a.permsEncrypted = alg10 S (pValue a.permissions % 4294967296) a.encryptMetadata key rnd) :
    a.validatePerms P key = .ok () := by
  have e : PERMS_TAG = [0x61, 0x64, 0x62] := by decide
  have hb : (a.permsPlain rnd).length = 16 := by
    have : (leBytes 8 (pValue a.permissions)).length = 8 := by rw [leBytes_eq, le_length]
    simp [Alg.permsPlain, this, e]; omega
  unfold Alg.validatePerms
  rw [hperms, alg10, ← permsPlain_eq_permsBlock a rnd hp, haesE, hk.dec_enc _ hb]
  have s1 : slice (a.permsPlain rnd) 9 3 = PERMS_TAG := by
    simp [Alg.permsPlain, slice, leBytes, e]
  have s2 : (a.permsPlain rnd).take 3 = (leBytes 8 (pValue a.permissions)).take 3 := by
    simp [Alg.permsPlain, leBytes]
  have s3 : slice (a.permsPlain rnd) 8 1 = [if a.encryptMetadata then 84 else 70] := by
    simp [Alg.permsPlain, slice, leBytes, e]
  simp [s1, s2, s3]

/-- non-vacuity: all permissions, EncryptMetadata = true, in the witness instance of the primitives -/
def permsAlg : Alg :=
  { encryptMetadata := true, length := none, version := 5, revision := 6, ownerValue := [], ownerEncrypted := [],
    userValue := [], userEncrypted := [], permissions := PERM_ALL,
    permsEncrypted := toy.aesEnc [] (permsBlock (pValue PERM_ALL % 4294967296) true [1, 2, 3, 4]) }
example : errOf (permsAlg.validatePerms toy []) = none := by decide +kernel

/-! ## Algorithm 2.B as coded = Algorithm 2.B of the standard; Algorithms 8, 9 and 2.A -/

/-- what links the primitives of the model to those of the spec in the R5/R6 theorems -/
structure SamePrims (P : Prims) (S : SPrims) : Prop where
  sha256 : S.sha256 = P.sha256
  sha384 : S.sha384 = P.sha384
  sha512 : S.sha512 = P.sha512
  aesEnc : S.aesEnc = P.aesEnc
  aesDec : S.aesDec = P.aesDec

/-- the code adds the first 16 bytes of E as `u32`; the standard reads them as a big-endian integer:
the same modulo 3 (256 ≡ 1), for every byte string -/
theorem sum_mod3_eq_be_mod3 (l : Bytes) (a b : Nat) (h : a % 3 = b % 3) :
    (l.foldl (fun (acc : Nat) (x : UInt8) => acc + x.toNat) a) % 3
      = (l.foldl (fun (acc : Nat) (x : UInt8) => acc * 256 + x.toNat) b) % 3 := by
  induction l generalizing a b with
  | nil => simpa using h
  | cons x rest ih => simp only [List.foldl_cons]; apply ih; omega

theorem repBytes_eq (n : Nat) (b : Bytes) : repBytes n b = repeatBytes n b := by
  induction n with
  | zero => rfl
  | succ n ih => simp [repBytes, repeatBytes, ih]

/-- the loop of `compute_hash` as coded = the loop of Algorithm 2.B, round for round -/
theorem hash2BLoop_eq (P : Prims) (S : SPrims) (hp : SamePrims P S) (pw udata : Bytes) (left round : Nat) (k : Bytes) :
    hash2BLoop P pw udata left round k = alg2BLoop S pw udata left round k := by
  induction left generalizing round k with
  | zero => rfl
  | succ left ih =>
    have hm := sum_mod3_eq_be_mod3
      ((cbcE (S.aesEnc (k.take 16)) ((repeatBytes 64 (pw ++ k ++ udata)).length / 16) ((k.drop 16).take 16)
        (repeatBytes 64 (pw ++ k ++ udata))).take 16) 0 0 rfl
    simp only [hash2BLoop, alg2BLoop, hash2BRound, cbcEnc, repBytes_eq, ← cbcE_eq, ← hp.aesEnc, hm,
      ← hp.sha256, ← hp.sha384, ← hp.sha512, ih]

/-- model_eq_spec, Algorithm 2.B: `compute_hash` as coded (revision 6) = Algorithm 2.B, for every
password, salt and user-key string -/
theorem hash2B_eq_alg2B (P : Prims) (S : SPrims) (hp : SamePrims P S) (pw salt udata : Bytes) :
    hash2B P pw salt udata = alg2B S pw salt udata := by
  simp [hash2B, alg2B, hash2BLoop_eq P S hp, hp.sha256]

/-- the unbounded Rust loop `for round in 1..` is modelled with 287 available rounds; they are never
exhausted: any larger supply gives the same result (the last byte of E is at most 255 = 287 − 32). -/
theorem hash2BLoop_stable (P : Prims) (pw udata : Bytes) (left m round : Nat) (k : Bytes)
    (h1 : 1 ≤ left) (h2 : 288 ≤ round + left) :
    hash2BLoop P pw udata (left + m) round k = hash2BLoop P pw udata left round k := by
  induction left generalizing round k with
  | zero => omega
  | succ l ih =>
    have hlast : (hash2BRound P pw udata k).2 ≤ 255 := by
      simp only [hash2BRound]
      have := UInt8.toNat_lt ((cbcEnc (P.aesEnc (k.take 16)) ((k.drop 16).take 16) (repBytes 64 (pw ++ k ++ udata))).getLast?.getD 0)
      omega
    have e : l + 1 + m = (l + m) + 1 := by omega
    rw [e]
    simp only [hash2BLoop]
    by_cases hl : l = 0
    · subst hl
      have hs : (decide (round ≥ 64) && decide ((hash2BRound P pw udata k).2 ≤ round - 32)) = true := by
        simp; omega
      simp [hs]
    · split
      · rfl
      · exact ih (round + 1) _ (by omega) (by omega)

theorem hash2B_any_bound (P : Prims) (pw salt udata : Bytes) (m : Nat) :
    (hash2BLoop P pw udata (287 + m) 1 (P.sha256 (pw ++ salt ++ udata))).take 32 = hash2B P pw salt udata := by
  unfold hash2B; rw [hash2BLoop_stable P pw udata 287 m 1 _ (by omega) (by omega)]

theorem hash_eq_hashR (P : Prims) (S : SPrims) (hp : SamePrims P S) (a : Alg) (x s u : Bytes) :
    a.hash P x s u = hashR S a.revision x s u := by
  simp [Alg.hash, hashR, hp.sha256, hash2B_eq_alg2B P S hp]

/-- model_eq_spec, Algorithms 8 and 9: U/UE and O/OE as coded = the standard's, for every password,
key and salts (no hypothesis on the hash any more: Algorithm 2.B is concrete on both sides) -/
theorem computeU6O6_eq_alg89 (P : Prims) (S : SPrims) (hp : SamePrims P S) (a : Alg) (key pw salts : Bytes)
    (hk : key.length = 32) :
    a.computeU6 P key pw salts = alg8 S a.revision pw key salts ∧
    a.computeO6 P key pw salts = alg9 S a.revision pw key salts a.userValue := by
  have hh := hash_eq_hashR P S hp a
  have e127 : R6_PW_MAX = 127 := by decide
  have hc : ∀ k, cbc0Enc P k key = cbcE (S.aesEnc k) 2 zeroIV key := by
    intro k; simp [cbc0Enc, cbcEnc, hk, cbcE_eq, zeroIV, hp.aesEnc]
  simp [Alg.computeU6, Alg.computeO6, alg8, alg9, hh, hc, trunc127, trunc, slice, e127]

/-- model_eq_spec, Algorithm 2.A (with 11 and 12): `compute_file_encryption_key_r6` as coded retrieves
exactly the key of Algorithm 2.A — owner test first (validation salt, 48-byte U), OE decrypted with the
hash over the owner key salt; otherwise user test, UE decrypted with the hash over the user key salt;
AES-256-CBC, zero IV, no padding.  On the user branch the code additionally runs its Algorithm-13
check (`validate_permissions`) on the key; the owner branch skips it. -/
theorem fileKeyR6_eq_alg2A (P : Prims) (S : SPrims) (hp : SamePrims P S) (a : Alg) (pw : Bytes)
    (hu : a.userValue.length = 48) (hoe : a.ownerEncrypted.length = 32) (hue : a.userEncrypted.length = 32) :
    a.fileKeyR6 P pw =
      match alg2A S a.revision a.ownerValue a.userValue a.ownerEncrypted a.userEncrypted pw with
      | none => .error .incorrectPassword
      | some k =>
        if hashR S a.revision (trunc pw) ((a.ownerValue.drop 32).take 8) a.userValue = a.ownerValue.take 32 then .ok k
        else match a.validatePerms P k with
          | .error e => .error e
          | .ok () => .ok k := by
  have hh := hash_eq_hashR P S hp a
  have e127 : R6_PW_MAX = 127 := by decide
  have hu48 : a.userValue.take 48 = a.userValue := List.take_of_length_le (by omega)
  have hc : ∀ k d, d.length = 32 → cbc0Dec P k d = cbcD (S.aesDec k) 2 zeroIV d := by
    intro k d hd; simp [cbc0Dec, cbcDec, hd, cbcD_eq, zeroIV, hp.aesDec]
  unfold Alg.fileKeyR6 alg2A
  simp only [hh, hc _ _ hoe, hc _ _ hue, trunc127, trunc, slice, e127, hu48]
  split <;> rename_i h1
  · simp [h1]
  · split <;> rename_i h2
    · simp only [h1, h2, ↓reduceIte]; rfl
    · simp [h1, h2]

/-- F-C06-f: Algorithm 2 is fed `p_value(from_bits_truncate(P))`, not the stored P: for the
(non-conforming but common) P = −1 the code hashes FFFFFFFC instead of FFFFFFFF. -/
theorem p_renormalised : pValue (permsTruncate 4294967295) % 4294967296 = 4294967292 := by decide

/-- conforming P words (reserved bits as the standard demands) are fixed points, so Algorithm 2 sees the stored P -/
theorem p_conforming_fixed (perms : Nat) (h : perms &&& PERM_ALL = perms) :
    permsTruncate (pValue perms) = perms := by
  unfold permsTruncate pValue
  rw [Nat.and_or_distrib_right, h]
  have : P_RESERVED &&& PERM_ALL = 0 := by decide
  simp [this]

/-- spec: an absent owner password is the user password (Algorithm 3 step a) -/
theorem alg3_absent_owner (S : SPrims) (q : Params) (userPw : Bytes) :
    alg3 S q none userPw = alg3 S q (some userPw) userPw := rfl

/-- model = spec for the absent owner password (F-C06-e repaired): `compute_hashed_owner_password_r4`
with an empty owner password computes the standard's O for "no owner password" -/
theorem computeO_absent_owner (P : Prims) (S : SPrims) (hmd5 : S.md5 = P.md5) (hrc4 : S.rc4 = Crypt.rc4)
    (a : Alg) (fileId userPw : Bytes) (hn : keyBytes a.revision a.length ≤ 16) :
    a.computeO P [] userPw = .ok (alg3 S (paramsOf a fileId) none userPw) := by
  have := computeO_eq_alg3 P S hmd5 hrc4 a fileId [] userPw hn
  simpa using this

end Lopdf.C06
