import LopdfModel.Thm.FileRevs
/-
  C01 — the `max_id` a reload computes, exactly: `Reader::read` recomputes it from the merged
  cross-reference table (largest key).  For a table save that is the largest object number the
  document holds (0 for an empty one); for a cross-reference-stream save it is the number of the
  stream itself, `max_id + 1`.
-/
namespace Lopdf.FileRT
open Lopdf Gen Lopdf.ObjRt

/-- the largest object number of a document (0 if it has no objects) -/
def maxNum (d : SDoc) : Nat := (d.objects.map (·.1.1)).foldl max 0

theorem foldl_max_ge (l : List Nat) : ∀ m, m ≤ l.foldl max m := by
  induction l with
  | nil => intro m; exact Nat.le_refl _
  | cons a r ih => intro m; simp only [List.foldl_cons]; have := ih (max m a); omega

theorem le_foldl_max (l : List Nat) : ∀ m, ∀ a ∈ l, a ≤ l.foldl max m := by
  induction l with
  | nil => intro m a h; simp at h
  | cons b r ih =>
    intro m a h
    simp only [List.foldl_cons]
    simp only [List.mem_cons] at h
    rcases h with rfl | h
    · have := foldl_max_ge r (max m a); omega
    · exact ih _ a h

theorem foldl_max_mem (l : List Nat) : ∀ m, l.foldl max m = m ∨ l.foldl max m ∈ l := by
  induction l with
  | nil => intro m; exact Or.inl rfl
  | cons b r ih =>
    intro m
    simp only [List.foldl_cons]
    rcases ih (max m b) with h | h
    · rw [h]
      by_cases hb : m ≤ b
      · right; simp [Nat.max_eq_right hb]
      · left; omega
    · right; simp [h]

theorem XTable_maxId_eq (t : XTable) : t.maxId = (t.map (·.1)).foldl max 0 := by
  unfold XTable.maxId
  rw [List.foldl_map]

theorem objectPass_maxId (arr : List Block → List Block) (arr2 : List ObjId → List ObjId) (buf v m : Bytes)
    (x : XTable) (tr : Dict) (xs : Nat) (L : Loaded) (h : objectPass arr arr2 buf v m x tr xs = .ok L) :
    L.maxId = x.maxId := by
  unfold objectPass at h
  simp only at h
  split at h
  · cases h
  · cases h
  · injection h with h
    rw [← h]
    simp

/-- **`max_id` after reloading a table save, exactly (C01).** Under the hypotheses of
`file_rt_table`: the reloaded document's `max_id` is the largest object number the document holds
(not the `max_id` field it had, which may be larger). -/
theorem file_rt_table_maxId (order : Option (List Nat)) (d : SDoc) (out : Bytes) (d' : SDoc)
    (hk : d.xrefKind = .table) (h : saveFrom [] d = some (out, d')) (hlen : out.length < 4294967296)
    (hmax : d.maxId + 1 ≤ 4294967295) (hwf : DocWF d)
    (htr : WFObj (.dict d.trailer) ∧ height (.dict d.trailer) ≤ MAX_NESTING ∧ NoRealD d.trailer)
    (hv1 : ∀ b ∈ d.version, notEol b = true) (hv2 : validUtf8 d.version = true)
    (hprev : d.trailer.get PREV = none) (henc : d.trailer.has ENCRYPT = false)
    (L : Loaded) (hL : loadDocOrd order out = .ok L) : L.maxId = maxNum d := by
  obtain ⟨_, htr'⟩ := saveFrom_table_eq [] d out d' hk h
  have hD := setSize_readsBack d.trailer d.maxId (by omega) htr
  rw [← htr'] at hD
  obtain ⟨arr, _, hord⟩ : ∃ arr : List Block → List Block, arr [] = [] ∧
      loadDocOrd order out = loadDocWith arr id out := ⟨_, loadDocOrd_arr_nil order, rfl⟩
  obtain ⟨table, hget, _, hnodup, hload⟩ :=
    load_front_of_save_table arr id d out d' hk h hlen hmax hwf.gens (hD _) hv1 hv2 hprev henc
  have hL' := hL
  rw [hord, hload] at hL'
  rw [objectPass_maxId _ _ _ _ _ _ _ _ L hL', XTable_maxId_eq]
  unfold maxNum
  apply Nat.le_antisymm
  · -- every key is an object number
    rcases foldl_max_mem (table.map (·.1)) 0 with h0 | hm
    · rw [h0]; exact Nat.zero_le _
    · obtain ⟨p, hp, hpk⟩ := List.mem_map.mp hm
      rw [← hpk]
      have hs := XTable_mem_get table p.1 p.2 hp
      rw [hget p.1] at hs
      split at hs
      · simp only [normalOf] at hs
        have hnum : p.1 ∈ d.objects.map (·.1.1) := by
          cases hmm : decide (p.1 ∈ d.objects.map (·.1.1)) with
          | true => simpa using hmm
          | false =>
            have hm' : p.1 ∉ d.objects.map (·.1.1) := by simpa using hmm
            have := writeObjects_get_other d.objects (hdrOf [] d) [] p.1 hm'
            unfold xmapOf at hs
            rw [this] at hs
            simp [XrefMap.get] at hs
        exact le_foldl_max _ 0 _ hnum
      · simp at hs
  · -- the largest object number is a key
    rcases foldl_max_mem (d.objects.map (·.1.1)) 0 with h0 | hm
    · rw [h0]; exact Nat.zero_le _
    · obtain ⟨p, hp, hpk⟩ := List.mem_map.mp hm
      obtain ⟨off, hx⟩ := writeObjects_complete d.objects (hdrOf [] d) [] hwf.nodup p hp (hwf.kept _ hp)
      obtain ⟨hr1, hr2⟩ := hwf.range p hp
      have hg : table.get p.1.1 = some (.normal off p.1.2) := by
        rw [hget p.1.1]
        have : 1 ≤ p.1.1 ∧ p.1.1 < d.maxId + 1 := by omega
        simp only [this, and_self, if_true, normalOf]
        have hx' : (xmapOf [] d).get p.1.1 = some (off, p.1.2) := hx
        rw [hx']; rfl
      have hmem := XTable_mem_of_get table _ _ hg
      rw [← hpk]
      exact le_foldl_max _ 0 _ (List.mem_map.mpr ⟨_, hmem, rfl⟩)

/-- **`max_id` after reloading a cross-reference-stream save, exactly (C01).** It is the number
the writer gave the cross-reference stream: the old `max_id` + 1. -/
theorem file_rt_stream_maxId (order : Option (List Nat)) (d : SDoc) (out : Bytes) (d' : SDoc)
    (hk : d.xrefKind = .stream) (h : saveFrom [] d = some (out, d')) (hlen : out.length < 4294967296)
    (hmax : d.maxId + 2 ≤ 4294967295) (hwf : DocWF d)
    (htr : WFObj (.dict d.trailer) ∧ height (.dict d.trailer) ≤ MAX_NESTING ∧ NoRealD d.trailer)
    (hv1 : ∀ b ∈ d.version, notEol b = true) (hv2 : validUtf8 d.version = true)
    (hprev : d.trailer.get PREV = none) (henc : d.trailer.has ENCRYPT = false)
    (L : Loaded) (hL : loadDocOrd order out = .ok L) : L.maxId = d.maxId + 1 := by
  obtain ⟨_, htr'⟩ := saveFrom_stream_eq [] d out d' hk h
  have hnd : d.trailer.keys.Nodup := by
    have := htr.1; simp only [WFObj, WF] at this; exact this.1
  obtain ⟨x1, x2, x3, _⟩ := xrefObjP_ok [] d out d' hk h hlen hmax hwf.gens htr
  have hD : ∀ rest, DictReadsBack d'.trailer rest := by
    intro rest; rw [htr']; exact pDictionary_rt_noReal _ _ x1 x2 x3
  obtain ⟨arr, _, hord⟩ : ∃ arr : List Block → List Block, arr [] = [] ∧
      loadDocOrd order out = loadDocWith arr id out := ⟨_, loadDocOrd_arr_nil order, rfl⟩
  obtain ⟨table, hget, hnodup, hload⟩ :=
    load_front_of_save_stream arr id d out d' hk h hlen hmax hwf.gens hnd (hD _) hv1 hv2 hprev henc
  have hL' := hL
  rw [hord, hload] at hL'
  rw [objectPass_maxId _ _ _ _ _ _ _ _ L hL', XTable_maxId_eq]
  apply Nat.le_antisymm
  · rcases foldl_max_mem (table.map (·.1)) 0 with h0 | hm
    · rw [h0]; exact Nat.zero_le _
    · obtain ⟨p, hp, hpk⟩ := List.mem_map.mp hm
      rw [← hpk]
      have hs := XTable_mem_get table p.1 p.2 hp
      rw [hget p.1] at hs
      split at hs
      · omega
      · simp at hs
  · have hg : table.get (d.maxId + 1) = some (.normal ((bodyOf [] d).length % 4294967296) 0) := by
      rw [hget (d.maxId + 1)]
      have : 1 ≤ d.maxId + 1 ∧ d.maxId + 1 ≤ d.maxId + 1 := by omega
      simp [this, normalOf, xmapStream, XrefMap.get_insert_same]
    have hmem := XTable_mem_of_get table _ _ hg
    exact le_foldl_max _ 0 _ (List.mem_map.mpr ⟨_, hmem, rfl⟩)

example : maxNum (SDoc.mk [49] [] [] [((1, 0), .null), ((7, 0), .null), ((3, 0), .null)] 20 .table) = 7 := by
  decide

end Lopdf.FileRT
