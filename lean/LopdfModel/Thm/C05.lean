import LopdfModel.Lemmas.Crypt
import LopdfModel.Lemmas.CryptStrip
/-
  C05 — Encrypt then decrypt restores every string and stream.

  FULL STATEMENT (property text): for every document, every supported version / key length,
  every assignment of crypt filters and every user/owner password pair, `decrypt ∘ encrypt`
  with either password restores every string and stream and removes the encryption dictionary.

  What is proved here about the model of the code (Model/Crypt.lean), for ALL inputs:
    * rc4_involutive, pkcs5_unpad_pad, cbc_dec_enc, filter_rt (every filter, key, IV)
    * walker_rt: decrypt_object ∘ encrypt_object = normLen on EVERY object (arbitrary nesting, strings
      of stream dictionaries included),
      every filter assignment, every IV supply — where `normLen` only rewrites `Length` of
      processed streams (Stream::set_content), so contents and strings are restored exactly;
      walker_rt_exact under the guard "every stream's Length is its content length".
    * aes_ct_ne_pt: AES ciphertext never equals the plaintext (length).
  All three places where the full statement was false of the code are repaired in /repo and are now
  positive theorems: the owner password with R2–R4 (doc_rt_owner_r234), R5/R6 passwords longer than
  127 bytes (doc_rt_over127), and non-PDFDoc passwords for R≤4, which are rejected instead of being
  shortened (sanitize_rejects_non_pdfdoc, sanitize_decodes, sanitize_injective).
-/
set_option linter.unusedSectionVars false
namespace Lopdf.Crypt
open Lopdf Lopdf.Gen

/-- RC4 is an involution for every key and every data (the keystream depends on the key only). -/
theorem rc4_involutive (key data : Bytes) : rc4 key (rc4 key data) = data :=
  prga_involutive _ _ _ _

example : rc4 [75, 101, 121] (rc4 [75, 101, 121] [1, 2, 3]) = [1, 2, 3] := rc4_involutive _ _

section walker
variable (P : Prims) (st : EncState) (id : ObjId) (ivs : IVs)

/- Both walkers preserve `strip`: they change nothing but string bytes, stream data and the
`Length` of processed streams — in particular no name, so every decision (XRef / Metadata
exemption, Crypt override, default filter) is taken identically when decrypting. -/
mutual
theorem encObj_strip (o : Obj) (k : Nat) (r : Obj × Nat) (h : encObj P st id ivs o k = .ok r) :
    strip r.1 = strip o := by
  match o with
  | .arr items =>
    simp only [encObj] at h
    split at h
    · rename_i items' k' he
      injection h with h; subst h
      simp [strip, encList_strip items k _ he]
    · cases h
  | .dict es =>
    simp only [encObj] at h
    split at h
    · injection h with h; subst h; rfl
    · split at h
      · rename_i es' k' he
        injection h with h; subst h
        simp [strip, encDict_strip es k _ he]
      · cases h
  | .str s f =>
    simp only [encObj] at h
    split at h
    · injection h with h; subst h; simp [strip]
    · cases h
  | .stream d c =>
    simp only [encObj] at h
    split at h
    · injection h with h; subst h; rfl
    · split at h
      · cases h
      · rename_i d' k1 hd
        have hs := encDict_strip d k _ hd
        simp at hs
        split at h
        · injection h with h; subst h; simp [strip, hs]
        · split at h
          · injection h with h; subst h
            simp [setContent, strip, stripDict_set, set_set, hs]
          · cases h
  | .null => simp [encObj] at h; subst h; rfl
  | .bool _ => simp [encObj] at h; subst h; rfl
  | .int _ => simp [encObj] at h; subst h; rfl
  | .real _ => simp [encObj] at h; subst h; rfl
  | .name _ => simp [encObj] at h; subst h; rfl
  | .ref _ _ => simp [encObj] at h; subst h; rfl
theorem encList_strip (os : List Obj) (k : Nat) (r : List Obj × Nat) (h : encList P st id ivs os k = .ok r) :
    stripList r.1 = stripList os := by
  match os with
  | [] => simp [encList] at h; subst h; rfl
  | o :: rest =>
    simp only [encList] at h
    split at h
    · cases h
    · rename_i o' k' ho
      split at h
      · cases h
      · rename_i rest' k'' hr
        injection h with h; subst h
        have h1 := encObj_strip o k _ ho
        have h2 := encList_strip rest k' _ hr
        simp at h1 h2
        simp [stripList, h1, h2]
theorem encDict_strip (es : List (Bytes × Obj)) (k : Nat) (r : List (Bytes × Obj) × Nat)
    (h : encDict P st id ivs es k = .ok r) : stripDict r.1 = stripDict es := by
  match es with
  | [] => simp [encDict] at h; subst h; rfl
  | (key, o) :: rest =>
    simp only [encDict] at h
    split at h
    · cases h
    · rename_i o' k' ho
      split at h
      · cases h
      · rename_i rest' k'' hr
        injection h with h; subst h
        have h1 := encObj_strip o k _ ho
        have h2 := encDict_strip rest k' _ hr
        simp at h1 h2
        simp [stripDict, h1, h2]
end

mutual
theorem decObj_strip (o o' : Obj) (h : decObj P st id o = .ok o') : strip o' = strip o := by
  match o with
  | .arr items =>
    simp only [decObj] at h
    split at h
    · rename_i items' he
      injection h with h; subst h
      simp [strip, decList_strip items _ he]
    · cases h
  | .dict es =>
    simp only [decObj] at h
    split at h
    · injection h with h; subst h; rfl
    · split at h
      · rename_i es' he
        injection h with h; subst h
        simp [strip, decDict_strip es _ he]
      · cases h
  | .str s f =>
    simp only [decObj] at h
    split at h
    · injection h with h; subst h; simp [strip]
    · cases h
  | .stream d c =>
    simp only [decObj] at h
    split at h
    · injection h with h; subst h; rfl
    · split at h
      · cases h
      · rename_i d' hd
        have hs := decDict_strip d _ hd
        split at h
        · injection h with h; subst h; simp [strip, hs]
        · split at h
          · injection h with h; subst h
            simp [setContent, strip, stripDict_set, set_set, hs]
          · cases h
  | .null => simp [decObj] at h; subst h; rfl
  | .bool _ => simp [decObj] at h; subst h; rfl
  | .int _ => simp [decObj] at h; subst h; rfl
  | .real _ => simp [decObj] at h; subst h; rfl
  | .name _ => simp [decObj] at h; subst h; rfl
  | .ref _ _ => simp [decObj] at h; subst h; rfl
theorem decList_strip (os os' : List Obj) (h : decList P st id os = .ok os') : stripList os' = stripList os := by
  match os with
  | [] => simp [decList] at h; subst h; rfl
  | o :: rest =>
    simp only [decList] at h
    split at h
    · cases h
    · rename_i o1 ho
      split at h
      · cases h
      · rename_i rest1 hr
        injection h with h; subst h
        simp [stripList, decObj_strip o _ ho, decList_strip rest _ hr]
theorem decDict_strip (es es' : List (Bytes × Obj)) (h : decDict P st id es = .ok es') : stripDict es' = stripDict es := by
  match es with
  | [] => simp [decDict] at h; subst h; rfl
  | (key, o) :: rest =>
    simp only [decDict] at h
    split at h
    · cases h
    · rename_i o1 ho
      split at h
      · cases h
      · rename_i rest1 hr
        injection h with h; subst h
        simp [stripDict, decObj_strip o _ ho, decDict_strip rest _ hr]
end

/-- encryption never changes the Type / Linearized classification of a dictionary (names are not
encrypted), so the Metadata exemption is decided identically when decrypting -/
theorem encDict_getType (es : List (Bytes × Obj)) (k : Nat) (r : List (Bytes × Obj) × Nat)
    (h : encDict P st id ivs es k = .ok r) : Dict.getType r.1 = Dict.getType es := by
  rw [← getType_strip, encDict_strip P st id ivs es k r h, getType_strip]

/-- decrypting a dictionary in which an integer entry was set afterwards (`Length`, by
`Stream::set_content`) = setting it after decrypting -/
theorem decDict_set_int (es dd : List (Bytes × Obj)) (key : Bytes) (n : Int)
    (h : decDict P st id es = .ok dd) :
    decDict P st id (Dict.set es key (.int n)) = .ok (Dict.set dd key (.int n)) := by
  induction es generalizing dd with
  | nil => simp [decDict] at h; subst h; simp [Dict.set, decDict, decObj]
  | cons e rest ih =>
    obtain ⟨a, v⟩ := e
    simp only [decDict] at h
    split at h
    · cases h
    · rename_i v1 hv
      split at h
      · cases h
      · rename_i rest1 hr
        injection h with h; subst h
        by_cases ha : a = key
        · subst ha; simp [Dict.set, decDict, decObj, hr]
        · simp [Dict.set, ha, decDict, hv, ih rest1 hr]

variable (hk : ∀ key, BlockOK P key) (hiv : ∀ n, (ivs n).length = 16)
include hk hiv

mutual
theorem walker_rt_obj (o : Obj) (k : Nat) (r : Obj × Nat) (h : encObj P st id ivs o k = .ok r) :
    decObj P st id r.1 = .ok (normLen st o) := by
  match o with
  | .arr items =>
    simp only [encObj] at h
    split at h
    · rename_i items' k' he
      injection h with h; subst h
      simp [decObj, normLen, walker_rt_list items k _ he]
    · cases h
  | .dict es =>
    simp only [encObj] at h
    split at h
    · injection h with h; subst h; rename_i hm; simp [decObj, normLen, hm]
    · split at h
      · rename_i hm _ es' k' he
        injection h with h; subst h
        have hs := encDict_strip P st id ivs es k _ he
        have hm' : metadataExempt st (.dict es') = metadataExempt st (.dict es) :=
          (decisions_of_strip st es es' hs [] []).2.2.2
        simp [decObj, normLen, hm', hm, walker_rt_dict es k _ he]
      · cases h
  | .str s f =>
    simp only [encObj] at h
    split at h
    · rename_i c he
      injection h with h; subst h
      simp [decObj, normLen, filter_rt P _ _ _ _ _ (hk _) (hiv k) he]
    · cases h
  | .stream d c =>
    simp only [encObj] at h
    split at h
    · injection h with h; subst h; rename_i hx; simp [decObj, normLen, hx]
    · rename_i hx
      split at h
      · cases h
      · rename_i d' k1 hd
        have hs : stripDict d' = stripDict d := by
          have := encDict_strip P st id ivs d k _ hd; simpa using this
        have hdec : decDict P st id d' = .ok (normLenDict st d) := by
          have := walker_rt_dict d k _ hd; simpa using this
        have hs2 : stripDict (normLenDict st d) = stripDict d' := decDict_strip P st id d' _ hdec
        obtain ⟨hcf, hxr, hme, _⟩ := decisions_of_strip st d d' hs c c
        obtain ⟨hcf2, hxr2, hme2, _⟩ := decisions_of_strip st d' (normLenDict st d) hs2 c c
        split at h
        · -- exempt Metadata stream: dictionary strings processed, data untouched
          rename_i hm
          injection h with h; subst h
          simp only [decObj, hxr, hx, hdec, hme2, hm, normLen, hme ▸ hm]
          simp
        · rename_i hm
          split at h
          · rename_i c' he
            injection h with h; subst h
            have hdec' := decDict_set_int P st id d' _ K_LENGTH (c'.length : Int) hdec
            simp only [setContent, decObj, isXref_setLength d' _ c c', hxr, hx]
            simp only [hdec', metadataExempt_setLength st (normLenDict st d) _ c c', hme2, hm,
              streamCF_setLength, hcf2]
            simp [filter_rt P _ _ _ _ _ (hk _) (hiv k1) he, normLen, hx, hme ▸ hm, setContent, set_set]
          · cases h
  | .null => simp [encObj] at h; subst h; simp [decObj, normLen]
  | .bool _ => simp [encObj] at h; subst h; simp [decObj, normLen]
  | .int _ => simp [encObj] at h; subst h; simp [decObj, normLen]
  | .real _ => simp [encObj] at h; subst h; simp [decObj, normLen]
  | .name _ => simp [encObj] at h; subst h; simp [decObj, normLen]
  | .ref _ _ => simp [encObj] at h; subst h; simp [decObj, normLen]
theorem walker_rt_list (os : List Obj) (k : Nat) (r : List Obj × Nat) (h : encList P st id ivs os k = .ok r) :
    decList P st id r.1 = .ok (normLenList st os) := by
  match os with
  | [] => simp [encList] at h; subst h; simp [decList, normLenList]
  | o :: rest =>
    simp only [encList] at h
    split at h
    · cases h
    · rename_i o' k' ho
      split at h
      · cases h
      · rename_i rest' k'' hr
        injection h with h; subst h
        simp [decList, normLenList, walker_rt_obj o k _ ho, walker_rt_list rest k' _ hr]
theorem walker_rt_dict (es : List (Bytes × Obj)) (k : Nat) (r : List (Bytes × Obj) × Nat)
    (h : encDict P st id ivs es k = .ok r) :
    decDict P st id r.1 = .ok (normLenDict st es) := by
  match es with
  | [] => simp [encDict] at h; subst h; simp [decDict, normLenDict]
  | (key, o) :: rest =>
    simp only [encDict] at h
    split at h
    · cases h
    · rename_i o' k' ho
      split at h
      · cases h
      · rename_i rest' k'' hr
        injection h with h; subst h
        simp [decDict, normLenDict, walker_rt_obj o k _ ho, walker_rt_dict rest k' _ hr]
end

/-- decrypt_object ∘ encrypt_object on EVERY object, every filter assignment, every IV supply. -/
theorem walker_rt (o : Obj) (k : Nat) (r : Obj × Nat) (h : encObj P st id ivs o k = .ok r) :
    decObj P st id r.1 = .ok (normLen st o) := walker_rt_obj P st id ivs hk hiv o k r h

end walker

/-! `normLen` is the identity on objects whose streams carry their true `Length`. -/

theorem set_of_get (d : Dict) (k : Bytes) (v : Obj) (h : d.get k = some v) : d.set k v = d := by
  induction d with
  | nil => simp [Dict.get] at h
  | cons e rest ih =>
    obtain ⟨a, b⟩ := e
    by_cases ha : a = k
    · subst ha; simp [Dict.get] at h; simp [Dict.set, h]
    · simp only [Dict.get, ha, ↓reduceIte] at h; simp only [Dict.set, ha, ↓reduceIte]; rw [ih h]

mutual
def LengthOK : Obj → Bool
  | .arr items => LengthOKList items
  | .dict es => LengthOKDict es
  | .stream d c => (match Dict.get d K_LENGTH with
    | some (.int i) => i == (c.length : Int)
    | _ => false) && LengthOKDict d
  | _ => true
def LengthOKList : List Obj → Bool
  | [] => true
  | o :: rest => LengthOK o && LengthOKList rest
def LengthOKDict : List (Bytes × Obj) → Bool
  | [] => true
  | (_, o) :: rest => LengthOK o && LengthOKDict rest
end

mutual
theorem normLen_id (st : EncState) (o : Obj) (h : LengthOK o = true) : normLen st o = o := by
  match o with
  | .arr items => simp only [LengthOK] at h; simp [normLen, normLenList_id st items h]
  | .dict es => simp only [LengthOK] at h; simp [normLen, normLenDict_id st es h]
  | .stream d c =>
    simp only [LengthOK, Bool.and_eq_true] at h
    obtain ⟨hl, hd⟩ := h
    have hdd := normLenDict_id st d hd
    split at hl
    · rename_i i hg
      simp at hl; subst hl
      by_cases hx : isXrefStream (.stream d c) <;> by_cases hm : metadataExempt st (.stream d c) <;>
        simp [normLen, hx, hm, hdd, setContent, set_of_get d K_LENGTH _ hg]
    · cases hl
  | .null | .bool _ | .int _ | .real _ | .name _ | .ref _ _ | .str _ _ => simp [normLen]
theorem normLenList_id (st : EncState) (os : List Obj) (h : LengthOKList os = true) : normLenList st os = os := by
  match os with
  | [] => simp [normLenList]
  | o :: rest =>
    simp [LengthOKList] at h
    simp [normLenList, normLen_id st o h.1, normLenList_id st rest h.2]
theorem normLenDict_id (st : EncState) (es : List (Bytes × Obj)) (h : LengthOKDict es = true) : normLenDict st es = es := by
  match es with
  | [] => simp [normLenDict]
  | (k, o) :: rest =>
    simp [LengthOKDict] at h
    simp [normLenDict, normLen_id st o h.1, normLenDict_id st rest h.2]
end

/-- Exact restoration under the guard "every stream's Length entry is its content length". -/
theorem walker_rt_exact (P : Prims) (st : EncState) (id : ObjId) (ivs : IVs)
    (hk : ∀ key, BlockOK P key) (hiv : ∀ n, (ivs n).length = 16)
    (o : Obj) (hl : LengthOK o = true) (k : Nat) (r : Obj × Nat) (h : encObj P st id ivs o k = .ok r) :
    decObj P st id r.1 = .ok o := by
  rw [walker_rt P st id ivs hk hiv o k r h, normLen_id st o hl]

/-- the guard is needed: a stream without `Length` comes back with one (Stream::set_content). -/
theorem walker_rt_exact_needs_guard :
    normLen { version := 1, revision := 2, keyLength := none, encryptMetadata := true, cryptFilters := [],
              fileKey := [], stmF := [], strF := [], ownerValue := [], ownerEncrypted := [], userValue := [],
              userEncrypted := [], permissions := 0, permsEncrypted := [] } (.stream [] [1])
      = .stream [(K_LENGTH, .int 1)] [1] := by
  simp [normLen, normLenDict, isXrefStream, metadataExempt, hasType, Dict.get, setContent, Dict.set]

/-- AES output never equals its plaintext: it is at least 17 bytes longer. -/
theorem aes_ct_ne_pt (P : Prims) (kl : Nat) (key iv pt ct : Bytes) (hk : BlockOK P key)
    (hiv : iv.length = 16) (h : aesEncrypt P kl key iv pt = .ok ct) : ct ≠ pt ∧ ct.length ≥ pt.length + 17 := by
  have hl := aesEncrypt_length P kl key iv pt ct hk hiv h
  have := padLen_pos pt.length
  constructor
  · intro e; rw [e] at hl; omega
  · omega

theorem cbc_dec_enc' (E D : Bytes → Bytes) (hE : ∀ b, (E b).length = 16)
    (hD : ∀ b, b.length = 16 → D (E b) = b) (iv d : Bytes)
    (hiv : iv.length = 16) (hd : d.length % 16 = 0) : cbcDec D iv (cbcEnc E iv d) = d :=
  cbc_dec_enc E D hE hD iv d hiv hd


/-! ## Whole object maps: the loops of `Document::encrypt` / `decrypt_raw` -/

/-- Walking all objects of a document with `encrypt_object` and then with `decrypt_object`
(skipping an id that is not among them — the Encrypt dictionary added afterwards) restores every
object up to `normLen`: for every object map, every state, every IV supply. -/
theorem objects_rt (P : Prims) (st : EncState) (ivs : IVs)
    (hk : ∀ key, BlockOK P key) (hiv : ∀ n, (ivs n).length = 16) (skip : Option ObjId)
    (os : Objects) (k : Nat) (r : Objects × Nat) (h : encObjects P st ivs os k = .ok r)
    (hs : ∀ e ∈ os, some e.1 ≠ skip) :
    decObjects P st skip r.1 = .ok (os.map fun e => (e.1, normLen st e.2)) := by
  induction os generalizing k r with
  | nil => simp [encObjects] at h; subst h; simp [decObjects]
  | cons e rest ih =>
    obtain ⟨id, o⟩ := e
    simp only [encObjects] at h
    split at h
    · cases h
    · rename_i o' k' ho
      split at h
      · cases h
      · rename_i rest' k'' hr
        injection h with h; subst h
        have hid : some id ≠ skip := hs (id, o) (by simp)
        have hrest := ih k' _ hr (fun e he => hs e (by simp [he]))
        have hw := walker_rt P st id ivs hk hiv o k _ ho
        simp only [decObjects, hid, ↓reduceIte]
        simp at hw hrest
        simp [hw, hrest]

/-- the object walk of `Document::encrypt` touches nothing but strings and streams: ids are kept -/
theorem encObjects_ids (P : Prims) (st : EncState) (ivs : IVs) (os : Objects) (k : Nat) (r : Objects × Nat)
    (h : encObjects P st ivs os k = .ok r) : r.1.map (·.1) = os.map (·.1) := by
  induction os generalizing k r with
  | nil => simp [encObjects] at h; subst h; rfl
  | cons e rest ih =>
    obtain ⟨id, o⟩ := e
    simp only [encObjects] at h
    split at h
    · cases h
    · split at h
      · cases h
      · rename_i rest' k'' hr
        injection h with h; subst h
        simp [ih _ _ hr]

/-! ## Counter-witnesses: where the full statement is false of the code

The model is parametric in the hash functions and the block cipher, so a concrete execution needs an
instance.  `toy` is one that satisfies every hypothesis the positive theorems make (`BlockOK`,
16-byte MD5, 32-byte SHA-256 / Algorithm 2.B) — the failures below therefore cannot be excluded by
any property of the primitives short of collisions; the harness replays each witness on the real
code with the real primitives (`c.witness`). -/

def fit (n : Nat) (b : Bytes) : Bytes := (b ++ List.replicate n 0).take n

def toy : Prims :=
  { md5 := fun x => fit 16 x
    sha256 := fun x => fit 32 ((x.length % 256).toUInt8 :: x)
    aesEnc := fun _ b => fit 16 (b.map (fun (x : UInt8) => x + 1))
    aesDec := fun _ c => c.map (fun (x : UInt8) => x - 1),
    sha384 := fun x => fit 48 ((x.length % 256).toUInt8 :: x)
    sha512 := fun x => fit 64 ((x.length % 256).toUInt8 :: x) }

theorem toy_blockOK (key : Bytes) : BlockOK toy key := by
  constructor
  · intro b; simp [toy, fit]
  · intro b hb
    have : fit 16 (b.map (fun (x : UInt8) => x + 1)) = b.map (fun (x : UInt8) => x + 1) := by
      simp [fit, List.take_append_of_le_length, hb]
    simp [toy, this, List.map_map]
    have : ((fun (x : UInt8) => x - 1) ∘ fun (x : UInt8) => x + 1) = id := by
      funext x; simp
    simp [this]

def errOf {α} : Except Err α → Option Err
  | .ok _ => none
  | .error e => some e

def firstStr (d : Doc) : Option Bytes :=
  match d.objects with
  | (_, .str s _) :: _ => some s
  | _ => none

def wDoc : Doc :=
  { trailer := [(K_ID, .arr [.str (List.replicate 16 7) .hex, .str (List.replicate 16 9) .hex])],
    objects := [((1, 0), .str [115, 101, 99, 114, 101, 116, 32, 116, 101, 120, 116] .lit)],   -- "secret text"
    maxId := 1 }

def wCfg (ver : Version) (owner user : Bytes) : Config :=
  { ver := ver, cryptFilters := [([83], .aes256)], stmF := [83], strF := [83],
    fileKey := List.replicate 32 5, ownerPw := owner, userPw := user, permissions := PERM_ALL }

def wRnd : Rand := { uTail := List.replicate 16 1, uSalts := (List.range 16).map Nat.toUInt8,
                     oSalts := (List.range 16).map (fun n => (n + 16).toUInt8), permsRnd := [1, 2, 3, 4] }

/-- encrypt with `cfg`, then `decrypt_raw(pw)` -/
def wRun (cfg : Config) (pw : Bytes) : Except Err Doc :=
  match stateOfConfig toy cfg (List.replicate 16 7) wRnd with
  | .error e => .error e
  | .ok st =>
    match wDoc.encrypt toy st (fun _ => List.replicate 16 3) with
    | .error e => .error e
    | .ok enc => enc.decryptRaw toy pw

def OWNER : Bytes := [111, 119, 110, 101, 114]
def USER : Bytes := [117, 115, 101, 114]

def wText (cfg : Config) (pw : Bytes) : Option Bytes :=
  match wRun cfg pw with
  | .ok d => firstStr d
  | .error _ => none

def SECRET : Bytes := [115, 101, 99, 114, 101, 116, 32, 116, 101, 120, 116]

/-- sanity of the witness set-up: the user password restores the text (V1 and R6). -/
theorem witness_user_ok_r6 : wText (wCfg .r5 OWNER USER) USER = some SECRET := by decide +kernel

/-! ### F-C05-a, symbolically (all primitives): Algorithm 7 authenticates the owner, `decode` then
derives the key from the owner password as if it were the user password. -/

theorem padPw_length (pw : Bytes) : (padPw pw).length = 32 := by
  have : PAD_BYTES.length = 32 := by decide
  simp [padPw, this]; omega

theorem padPw_idem (pw : Bytes) : padPw (padPw pw) = padPw pw := by
  have h := padPw_length pw
  unfold padPw at h ⊢
  rw [List.take_of_length_le (by omega)]
  simp [h]

theorem rc4Up_snoc (k : Bytes) (cnt i : Nat) (d : Bytes) :
    rc4Up k (cnt + 1) i d = rc4 (xorKey k (i + cnt)) (rc4Up k cnt i d) := by
  induction cnt generalizing i d with
  | zero => simp [rc4Up]
  | succ n ih =>
    rw [rc4Up, ih (i + 1) (rc4 (xorKey k i) d)]
    simp only [rc4Up]
    have : i + 1 + n = i + (n + 1) := by omega
    rw [this]

/-- the 19 … 1 loop of Algorithm 7 undoes the 1 … 19 loop of Algorithm 3 (for every count) -/
theorem rc4Down_rc4Up (k : Bytes) (cnt i : Nat) (d : Bytes) :
    rc4Down k cnt (i + cnt - 1) (rc4Up k cnt i d) = d := by
  induction cnt generalizing d with
  | zero => simp [rc4Down, rc4Up]
  | succ n ih =>
    rw [rc4Up_snoc]
    have : i + (n + 1) - 1 = i + n := by omega
    rw [this, rc4Down, rc4_involutive]
    exact ih d

theorem fileKeyR4_padPw (P : Prims) (a : Alg) (fileId pw : Bytes) :
    a.fileKeyR4 P fileId (padPw pw) = a.fileKeyR4 P fileId pw := by
  simp [Alg.fileKeyR4, padPw_idem]

theorem authUserR4_padPw (P : Prims) (a : Alg) (fileId pw : Bytes) :
    a.authUserR4 P fileId (padPw pw) = a.authUserR4 P fileId pw := by
  simp [Alg.authUserR4, Alg.computeU2, Alg.computeU34, fileKeyR4_padPw]

/-- Algorithm 7 as coded recovers the (padded) user password from the `O` of Algorithm 3 as coded. -/
theorem recoverUser_computeO (P : Prims) (a : Alg) (ownerPw0 userPw o : Bytes)
    (h : a.computeO P ownerPw0 userPw = .ok o) :
    ({ a with ownerValue := o } : Alg).recoverUser P (effOwner ownerPw0 userPw) = padPw userPw := by
  unfold Alg.computeO at h
  generalize effOwner ownerPw0 userPw = ownerPw at h ⊢
  split at h
  · cases h
  · injection h with h
    unfold Alg.recoverUser
    have hk : ({ a with ownerValue := o } : Alg).ownerKey P ownerPw = a.ownerKey P ownerPw := rfl
    rw [hk]
    by_cases hr : a.revision ≥ 3
    · simp only [hr, ↓reduceIte] at h ⊢
      rw [← h]
      have := rc4Down_rc4Up (a.ownerKey P ownerPw) RC4_ROUNDS 1 (rc4 (a.ownerKey P ownerPw) (padPw userPw))
      have e : 1 + RC4_ROUNDS - 1 = RC4_ROUNDS := by decide
      rw [e] at this
      simp [this, rc4_involutive]
    · simp only [hr, ↓reduceIte] at h ⊢
      rw [← h, rc4_involutive]

/-- the owner password authenticates whenever the user password does (R2–R4, as coded) -/
theorem authOwnerR4_of_user (P : Prims) (a : Alg) (fileId ownerPw userPw : Bytes)
    (hO : a.computeO P ownerPw userPw = .ok a.ownerValue)
    (hU : a.authUserR4 P fileId userPw = .ok ()) :
    a.authOwnerR4 P fileId (effOwner ownerPw userPw) = .ok () := by
  have hrec := recoverUser_computeO P a ownerPw userPw a.ownerValue hO
  have ha : ({ a with ownerValue := a.ownerValue } : Alg) = a := rfl
  rw [ha] at hrec
  unfold Alg.authOwnerR4
  have hn : ¬ keyBytes a.revision a.length > 16 := by
    intro hn; simp [Alg.computeO, hn] at hO
  simp only [hn, ↓reduceIte]
  rw [hrec, authUserR4_padPw]; exact hU

/-- `EncryptionState::decode` (R2–R4): the key is Algorithm 2 applied to the password AS GIVEN —
also when that password authenticated as the owner password. -/
theorem decode_key_r4 (P : Prims) (enc : Dict) (fileId pw : Bytes) (st : EncState)
    (h : decodeState P enc fileId pw = .ok st) :
    ∃ a, algOfDict enc = .ok a ∧ a.fileKey P fileId pw = .ok st.fileKey := by
  unfold decodeState at h
  split at h
  · cases h
  · rename_i a ha
    split at h
    · cases h
    · rename_i k hk
      injection h with h
      exact ⟨a, ha, by rw [hk, ← h]⟩

/-! ### (F-C05-a repaired) R2–R4: the owner password opens the document exactly like the user password -/

theorem okB_ok {ε α} (x : Except ε α) (a : α) (h : x = .ok a) : okB x = true := by subst h; rfl

/-- `compute_file_encryption_key` with the OWNER password yields the key Algorithm 2 derives from
the USER password — for all primitives, every owner / user password pair (an empty owner password
standing for "none"), revisions 2–4. -/
theorem owner_key_r234 (P : Prims) (a : Alg) (fileId ownerPw userPw : Bytes)
    (hr : 2 ≤ a.revision ∧ a.revision ≤ 4)
    (hO : a.computeO P ownerPw userPw = .ok a.ownerValue)
    (hU : a.authUserR4 P fileId userPw = .ok ()) :
    a.fileKey P fileId (effOwner ownerPw userPw) = a.fileKeyR4 P fileId userPw := by
  have hrec := recoverUser_computeO P a ownerPw userPw a.ownerValue hO
  have ha : ({ a with ownerValue := a.ownerValue } : Alg) = a := rfl
  rw [ha] at hrec
  have hn : keyBytes a.revision a.length ≤ 16 := by
    apply Nat.le_of_not_gt; intro hn; simp [Alg.computeO, hn] at hO
  unfold Alg.fileKey
  have h1 : (decide (2 ≤ a.revision) && decide (a.revision ≤ 4)) = true := by simp [hr.1, hr.2]
  rw [hrec, authUserR4_padPw, fileKeyR4_padPw]
  simp [h1, hn, okB_ok _ _ hU]

/-- … and with the user password too, unless the user password itself passes the owner test with a
different recovered password (a hash / RC4 coincidence). -/
theorem user_key_r234 (P : Prims) (a : Alg) (fileId userPw : Bytes)
    (hr : 2 ≤ a.revision ∧ a.revision ≤ 4)
    (hno : okB (a.authUserR4 P fileId (a.recoverUser P userPw)) = false) :
    a.fileKey P fileId userPw = a.fileKeyR4 P fileId userPw := by
  unfold Alg.fileKey
  simp [hr.1, hr.2, hno]

/-- `EncryptionState::decode` gives the same state for both passwords … -/
theorem decodeState_owner_eq_user (P : Prims) (enc : Dict) (a : Alg) (fileId ownerPw userPw : Bytes)
    (ha : algOfDict enc = .ok a) (hr : 2 ≤ a.revision ∧ a.revision ≤ 4)
    (hO : a.computeO P ownerPw userPw = .ok a.ownerValue)
    (hU : a.authUserR4 P fileId userPw = .ok ())
    (hno : okB (a.authUserR4 P fileId (a.recoverUser P userPw)) = false) :
    decodeState P enc fileId (effOwner ownerPw userPw) = decodeState P enc fileId userPw := by
  unfold decodeState
  simp only [ha]
  rw [owner_key_r234 P a fileId ownerPw userPw hr hO hU, user_key_r234 P a fileId userPw hr hno]

theorem authAny_ok_of_user (P : Prims) (a : Alg) (fileId pw : Bytes) (h : a.authUser P fileId pw = .ok ()) :
    a.authAny P fileId pw = .ok () := by
  unfold Alg.authAny
  split
  · rfl
  · exact h

/-- `doc_rt_owner` for R2–R4: on EVERY encrypted document whose O and U entries are those of
Algorithms 3 and 4/5 for an (owner, user) password pair, `decrypt_raw` with the owner password
returns exactly what it returns with the user password — every object, the trailer, or the same
error.  (With `objects_rt` and the correspondence of the user-password path this is the owner half
of the property; before /repo cc32d41 the result was garbage.) -/
theorem doc_rt_owner_r234 (P : Prims) (d : Doc) (enc : Dict) (a : Alg) (ownerPw userPw : Bytes)
    (hd : d.getEncrypted = some enc) (ha : algOfDict enc = .ok a) (hr : 2 ≤ a.revision ∧ a.revision ≤ 4)
    (hO : a.computeO P ownerPw userPw = .ok a.ownerValue)
    (hU : a.authUserR4 P (d.fileId.getD []) userPw = .ok ())
    (hno : okB (a.authUserR4 P (d.fileId.getD []) (a.recoverUser P userPw)) = false) :
    d.decryptRaw P (effOwner ownerPw userPw) = d.decryptRaw P userPw := by
  have hrev : (decide (2 ≤ a.revision) && decide (a.revision ≤ 4)) = true := by simp [hr.1, hr.2]
  have hOwn : a.authAny P (d.fileId.getD []) (effOwner ownerPw userPw) = .ok () := by
    unfold Alg.authAny Alg.authOwner
    simp only [hrev, ↓reduceIte, authOwnerR4_of_user P a _ ownerPw userPw hO hU]
  have hUsr : a.authAny P (d.fileId.getD []) userPw = .ok () := by
    apply authAny_ok_of_user; unfold Alg.authUser; simp only [hrev, ↓reduceIte, hU]
  unfold Doc.decryptRaw
  simp only [hd, ha, hOwn, hUsr, decodeState_owner_eq_user P enc a _ ownerPw userPw ha hr hO hU hno]

/-- with R6 the owner password does restore the text. -/
theorem witness_owner_r6_ok : wText (wCfg .r5 OWNER USER) OWNER = some SECRET := by decide +kernel

/-- (F-C05-c, repaired in /repo 422f3cc) R5 / R6 passwords of more than 127 bytes: `try_from` now
truncates like every check does, so a 128-byte user and a 200-byte owner password open the document. -/
theorem doc_rt_over127 :
    wText (wCfg .r5 (List.replicate 200 111) (List.replicate 128 117)) (List.replicate 128 117) = some SECRET ∧
    wText (wCfg .r5 (List.replicate 200 111) (List.replicate 128 117)) (List.replicate 200 111) = some SECRET := by
  constructor <;> decide +kernel

/-- … for all primitives and all passwords: creation looks only at the first 127 bytes, exactly like the checks -/
theorem create_r6_truncates (P : Prims) (a : Alg) (key pw salts : Bytes) :
    a.computeU6 P key pw salts = a.computeU6 P key (pw.take R6_PW_MAX) salts ∧
    a.computeO6 P key pw salts = a.computeO6 P key (pw.take R6_PW_MAX) salts := by
  simp [Alg.computeU6, Alg.computeO6, trunc127, List.take_take]

theorem trunc127_take (pw : Bytes) : trunc127 (pw.take R6_PW_MAX) = trunc127 pw := by
  simp [trunc127, List.take_take]

/-- the checks never look beyond byte 127 (for all primitives, all passwords) -/
theorem auth_r6_truncates (P : Prims) (a : Alg) (pw : Bytes) :
    a.authUserR6 P pw = a.authUserR6 P (pw.take R6_PW_MAX) ∧ a.authOwnerR6 P pw = a.authOwnerR6 P (pw.take R6_PW_MAX)
    ∧ a.fileKeyR6 P pw = a.fileKeyR6 P (pw.take R6_PW_MAX) := by
  unfold Alg.authUserR6 Alg.authOwnerR6 Alg.fileKeyR6
  rw [trunc127_take]
  exact ⟨rfl, rfl, rfl⟩

/-! ### (F-C05-b repaired) R ≤ 4 password preparation never changes the password silently -/

/-- "пароль" and "密码" are rejected (they used to collapse to the empty password), and one
unrepresentable character rejects the whole password. -/
theorem sanitize_rejects_non_pdfdoc :
    sanitizeR4 [0x43f, 0x430, 0x440, 0x43e, 0x43b, 0x44c] = none ∧ sanitizeR4 [0x5bc6, 0x7801] = none ∧
    sanitizeR4 [0x70, 0x43f, 0x77] = none ∧ sanitizeR4 [0x70, 0x77, 0xe9] = some [0x70, 0x77, 0xe9] := by decide +kernel

/-- no character is ever dropped: an accepted password keeps its length … -/
theorem sanitize_length (us : List Nat) (bs : Bytes) (h : sanitizeR4 us = some bs) : bs.length = us.length := by
  induction us generalizing bs with
  | nil => simp [sanitizeR4] at h; subst h; rfl
  | cons u rest ih =>
    simp only [sanitizeR4] at h
    split at h
    · rename_i i bs' _ hr
      injection h with h; subst h
      simp [ih bs' hr]
    · cases h

theorem pdfdoc_length : PDF_DOC_ENCODING.length = 256 := by decide +kernel

/-- … and every byte of it is a PDFDocEncoding code of the corresponding character: the prepared
password decodes back to the password given, for every accepted password. -/
theorem sanitize_decodes (us : List Nat) (bs : Bytes) (h : sanitizeR4 us = some bs) :
    bs.map (fun (b : UInt8) => PDF_DOC_ENCODING[b.toNat]?) = us.map (fun u => some (some u)) := by
  induction us generalizing bs with
  | nil => simp [sanitizeR4] at h; subst h; rfl
  | cons u rest ih =>
    simp only [sanitizeR4] at h
    split at h
    · rename_i i bs' hi hr
      injection h with h; subst h
      have hlt : i < PDF_DOC_ENCODING.length := (List.findIdx?_eq_some_iff_getElem.mp hi).1
      have hget := (List.findIdx?_eq_some_iff_getElem.mp hi).2.1
      have h256 : i < 256 := by rw [← pdfdoc_length]; exact hlt
      have hn : i.toUInt8.toNat = i := by simp [Nat.toUInt8, UInt8.toNat_ofNat']; omega
      simp only [List.map_cons, hn, ih bs' hr]
      congr 1
      rw [List.getElem?_eq_getElem hlt]
      simpa using hget
    · cases h

/-- hence two different accepted passwords never collapse into one -/
theorem sanitize_injective (us vs : List Nat) (bs : Bytes) (h1 : sanitizeR4 us = some bs) (h2 : sanitizeR4 vs = some bs) :
    us = vs := by
  have e := (sanitize_decodes us bs h1).symm.trans (sanitize_decodes vs bs h2)
  have inj : ∀ (a b : List Nat), a.map (fun u => some (some u)) = b.map (fun u => some (some u)) → a = b := by
    intro a
    induction a with
    | nil => intro b hb; cases b <;> simp_all
    | cons x xs ih => intro b hb; cases b with
      | nil => simp at hb
      | cons y ys => simp at hb; rw [hb.1, ih ys hb.2]
  exact inj us vs e

end Lopdf.Crypt
