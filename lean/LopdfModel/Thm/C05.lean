import LopdfModel.Lemmas.Crypt
/-
  C05 — Encrypt then decrypt restores every string and stream.

  FULL STATEMENT (property text): for every document, every supported version / key length,
  every assignment of crypt filters and every user/owner password pair, `decrypt ∘ encrypt`
  with either password restores every string and stream and removes the encryption dictionary.

  What is proved here about the model of the code (Model/Crypt.lean), for ALL inputs:
    * rc4_involutive, pkcs5_unpad_pad, cbc_dec_enc, filter_rt (every filter, key, IV)
    * walker_rt: decrypt_object ∘ encrypt_object = normLen on EVERY object (arbitrary nesting),
      every filter assignment, every IV supply — where `normLen` only rewrites `Length` of
      processed streams (Stream::set_content), so contents and strings are restored exactly;
      walker_rt_exact under the guard "every stream's Length is its content length".
    * aes_ct_ne_pt: AES ciphertext never equals the plaintext (length).
  The full statement is FALSE of the code in three places (counter-witnesses in this file / the
  harness): owner password with R2–R4 (Algorithm 7 missing in decode), R5/R6 passwords longer
  than 127 bytes (truncated when checking, not when creating), and non-PDFDoc passwords for R≤4.
-/
set_option linter.unusedSectionVars false
namespace Lopdf.Crypt
open Lopdf Lopdf.Gen

/-- RC4 is an involution for every key and every data (the keystream depends on the key only). -/
theorem rc4_involutive (key data : Bytes) : rc4 key (rc4 key data) = data :=
  prga_involutive _ _ _ _

example : rc4 [75, 101, 121] (rc4 [75, 101, 121] [1, 2, 3]) = [1, 2, 3] := rc4_involutive _ _

section walker
variable (P : Prims) (st : EncState) (id : ObjId) (ivs : IVs)

/-- encryption never turns anything into or out of a name (names are not encrypted) -/
theorem encObj_asName (o : Obj) (k : Nat) (r : Obj × Nat) (h : encObj P st id ivs o k = .ok r) :
    r.1.asName = o.asName := by
  cases o <;> simp only [encObj] at h
  case arr items => split at h <;> first | (injection h with h; subst h; simp [Obj.asName, setContent]; done) | cases h
  case dict es =>
    split at h
    · injection h with h; subst h; simp [Obj.asName]
    · split at h <;> first | (injection h with h; subst h; simp [Obj.asName, setContent]; done) | cases h
  case str s f => split at h <;> first | (injection h with h; subst h; simp [Obj.asName, setContent]; done) | cases h
  case stream d c =>
    split at h
    · injection h with h; subst h; simp [Obj.asName]
    · split at h <;> first | (injection h with h; subst h; simp [Obj.asName, setContent]; done) | cases h
  all_goals (injection h with h; subst h; simp [Obj.asName, setContent])

theorem encDict_get (es : List (Bytes × Obj)) (k : Nat) (r : List (Bytes × Obj) × Nat)
    (h : encDict P st id ivs es k = .ok r) (q : Bytes) :
    (Dict.get r.1 q).bind Obj.asName = (Dict.get es q).bind Obj.asName ∧ Dict.has r.1 q = Dict.has es q := by
  induction es generalizing k r with
  | nil => simp [encDict] at h; subst h; simp
  | cons e rest ih =>
    obtain ⟨key, o⟩ := e
    simp only [encDict] at h
    split at h
    · cases h
    · rename_i o' k' ho
      split at h
      · cases h
      · rename_i rest' k'' hr
        injection h with h; subst h
        have := ih k' _ hr
        have hn := encObj_asName P st id ivs o k _ ho
        by_cases hq : key = q
        · simp [Dict.get, Dict.has, hq]; simpa using hn
        · simp only [Dict.get, Dict.has, hq, ↓reduceIte]; simpa [Dict.has] using this

theorem encDict_getType (es : List (Bytes × Obj)) (k : Nat) (r : List (Bytes × Obj) × Nat)
    (h : encDict P st id ivs es k = .ok r) : Dict.getType r.1 = Dict.getType es := by
  simp [Dict.getType, (encDict_get P st id ivs es k r h TYPE).1, (encDict_get P st id ivs es k r h LINEARIZED).2]

variable (hk : ∀ key, BlockOK P key) (hiv : ∀ n, (ivs n).length = 16)
include hk hiv

mutual
theorem walker_rt_obj (o : Obj) (k : Nat) (r : Obj × Nat) (h : encObj P st id ivs o k = .ok r) :
    decObj P st id r.1 = .ok (normLen st o) := by
  match o with
  | .arr items =>
    simp only [encObj] at h
    split at h
    · rename_i items' k' he
      injection h with h; subst h
      simp [decObj, normLen, walker_rt_list items k _ he]
    · cases h
  | .dict es =>
    simp only [encObj] at h
    split at h
    · injection h with h; subst h; rename_i hm; simp [decObj, normLen, hm]
    · split at h
      · rename_i hm _ es' k' he
        injection h with h; subst h
        have hm' : metadataExempt st (.dict es') = metadataExempt st (.dict es) := by
          simp [metadataExempt, encDict_getType P st id ivs es k _ he]
        simp [decObj, normLen, hm', hm, walker_rt_dict es k _ he]
      · cases h
  | .str s f =>
    simp only [encObj] at h
    split at h
    · rename_i c he
      injection h with h; subst h
      simp [decObj, normLen, filter_rt P _ _ _ _ _ (hk _) (hiv k) he]
    · cases h
  | .stream d c =>
    simp only [encObj] at h
    split at h
    · injection h with h; subst h; rename_i hm; simp [decObj, normLen, hm]
    · rename_i hm
      split at h
      · rename_i c' he
        injection h with h; subst h
        simp only [setContent, decObj, exempt_setLength st d _ c c', hm, streamCF_setLength]
        simp [filter_rt P _ _ _ _ _ (hk _) (hiv k) he, normLen, hm, setContent, set_set]
      · cases h
  | .null => simp [encObj] at h; subst h; simp [decObj, normLen]
  | .bool _ => simp [encObj] at h; subst h; simp [decObj, normLen]
  | .int _ => simp [encObj] at h; subst h; simp [decObj, normLen]
  | .real _ => simp [encObj] at h; subst h; simp [decObj, normLen]
  | .name _ => simp [encObj] at h; subst h; simp [decObj, normLen]
  | .ref _ _ => simp [encObj] at h; subst h; simp [decObj, normLen]
theorem walker_rt_list (os : List Obj) (k : Nat) (r : List Obj × Nat) (h : encList P st id ivs os k = .ok r) :
    decList P st id r.1 = .ok (normLenList st os) := by
  match os with
  | [] => simp [encList] at h; subst h; simp [decList, normLenList]
  | o :: rest =>
    simp only [encList] at h
    split at h
    · cases h
    · rename_i o' k' ho
      split at h
      · cases h
      · rename_i rest' k'' hr
        injection h with h; subst h
        simp [decList, normLenList, walker_rt_obj o k _ ho, walker_rt_list rest k' _ hr]
theorem walker_rt_dict (es : List (Bytes × Obj)) (k : Nat) (r : List (Bytes × Obj) × Nat)
    (h : encDict P st id ivs es k = .ok r) :
    decDict P st id r.1 = .ok (normLenDict st es) := by
  match es with
  | [] => simp [encDict] at h; subst h; simp [decDict, normLenDict]
  | (key, o) :: rest =>
    simp only [encDict] at h
    split at h
    · cases h
    · rename_i o' k' ho
      split at h
      · cases h
      · rename_i rest' k'' hr
        injection h with h; subst h
        simp [decDict, normLenDict, walker_rt_obj o k _ ho, walker_rt_dict rest k' _ hr]
end

/-- decrypt_object ∘ encrypt_object on EVERY object, every filter assignment, every IV supply. -/
theorem walker_rt (o : Obj) (k : Nat) (r : Obj × Nat) (h : encObj P st id ivs o k = .ok r) :
    decObj P st id r.1 = .ok (normLen st o) := walker_rt_obj P st id ivs hk hiv o k r h

end walker

/-! `normLen` is the identity on objects whose streams carry their true `Length`. -/

theorem set_of_get (d : Dict) (k : Bytes) (v : Obj) (h : d.get k = some v) : d.set k v = d := by
  induction d with
  | nil => simp [Dict.get] at h
  | cons e rest ih =>
    obtain ⟨a, b⟩ := e
    by_cases ha : a = k
    · subst ha; simp [Dict.get] at h; simp [Dict.set, h]
    · simp only [Dict.get, ha, ↓reduceIte] at h; simp only [Dict.set, ha, ↓reduceIte]; rw [ih h]

mutual
def LengthOK : Obj → Bool
  | .arr items => LengthOKList items
  | .dict es => LengthOKDict es
  | .stream d c => match Dict.get d K_LENGTH with
    | some (.int i) => i == (c.length : Int)
    | _ => false
  | _ => true
def LengthOKList : List Obj → Bool
  | [] => true
  | o :: rest => LengthOK o && LengthOKList rest
def LengthOKDict : List (Bytes × Obj) → Bool
  | [] => true
  | (_, o) :: rest => LengthOK o && LengthOKDict rest
end

mutual
theorem normLen_id (st : EncState) (o : Obj) (h : LengthOK o = true) : normLen st o = o := by
  match o with
  | .arr items => simp only [LengthOK] at h; simp [normLen, normLenList_id st items h]
  | .dict es => simp only [LengthOK] at h; simp [normLen, normLenDict_id st es h]
  | .stream d c =>
    simp only [LengthOK] at h
    split at h
    · rename_i i hg
      simp at h; subst h
      simp [normLen, setContent, set_of_get d K_LENGTH _ hg]
    · cases h
  | .null | .bool _ | .int _ | .real _ | .name _ | .ref _ _ | .str _ _ => simp [normLen]
theorem normLenList_id (st : EncState) (os : List Obj) (h : LengthOKList os = true) : normLenList st os = os := by
  match os with
  | [] => simp [normLenList]
  | o :: rest =>
    simp [LengthOKList] at h
    simp [normLenList, normLen_id st o h.1, normLenList_id st rest h.2]
theorem normLenDict_id (st : EncState) (es : List (Bytes × Obj)) (h : LengthOKDict es = true) : normLenDict st es = es := by
  match es with
  | [] => simp [normLenDict]
  | (k, o) :: rest =>
    simp [LengthOKDict] at h
    simp [normLenDict, normLen_id st o h.1, normLenDict_id st rest h.2]
end

/-- Exact restoration under the guard "every stream's Length entry is its content length". -/
theorem walker_rt_exact (P : Prims) (st : EncState) (id : ObjId) (ivs : IVs)
    (hk : ∀ key, BlockOK P key) (hiv : ∀ n, (ivs n).length = 16)
    (o : Obj) (hl : LengthOK o = true) (k : Nat) (r : Obj × Nat) (h : encObj P st id ivs o k = .ok r) :
    decObj P st id r.1 = .ok o := by
  rw [walker_rt P st id ivs hk hiv o k r h, normLen_id st o hl]

/-- the guard is needed: a stream without `Length` comes back with one (Stream::set_content). -/
theorem walker_rt_exact_needs_guard :
    normLen { version := 1, revision := 2, keyLength := none, encryptMetadata := true, cryptFilters := [],
              fileKey := [], stmF := [], strF := [], ownerValue := [], ownerEncrypted := [], userValue := [],
              userEncrypted := [], permissions := 0, permsEncrypted := [] } (.stream [] [1])
      = .stream [(K_LENGTH, .int 1)] [1] := by
  simp [normLen, isXrefStream, metadataExempt, hasType, Dict.get, setContent, Dict.set]

/-- AES output never equals its plaintext: it is at least 17 bytes longer. -/
theorem aes_ct_ne_pt (P : Prims) (kl : Nat) (key iv pt ct : Bytes) (hk : BlockOK P key)
    (hiv : iv.length = 16) (h : aesEncrypt P kl key iv pt = .ok ct) : ct ≠ pt ∧ ct.length ≥ pt.length + 17 := by
  have hl := aesEncrypt_length P kl key iv pt ct hk hiv h
  have := padLen_pos pt.length
  constructor
  · intro e; rw [e] at hl; omega
  · omega

theorem cbc_dec_enc' (E D : Bytes → Bytes) (hE : ∀ b, (E b).length = 16)
    (hD : ∀ b, b.length = 16 → D (E b) = b) (iv d : Bytes)
    (hiv : iv.length = 16) (hd : d.length % 16 = 0) : cbcDec D iv (cbcEnc E iv d) = d :=
  cbc_dec_enc E D hE hD iv d hiv hd

end Lopdf.Crypt
