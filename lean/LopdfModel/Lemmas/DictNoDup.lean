import LopdfModel.Model.Obj
/-
  Helper lemmas: `Dictionary` as an `IndexMap` — with pairwise distinct keys, `get` is membership,
  `remove` (= `swap_remove`: the last entry moves into the hole) is a permutation of "all entries but
  the removed key", and `set` / `remove` keep the keys distinct.
-/
namespace Lopdf.DictL
open Lopdf

/-- keys pairwise distinct (what `IndexMap` guarantees) -/
def NoDup (d : Dict) : Prop := (d.map (·.1)).Nodup

theorem get_some_of_mem {d : Dict} (hn : NoDup d) {k : Bytes} {v : Obj} (h : (k, v) ∈ d) : Dict.get d k = some v := by
  induction d with
  | nil => cases h
  | cons p rest ih =>
    obtain ⟨k0, v0⟩ := p
    simp only [NoDup, List.map_cons, List.nodup_cons] at hn
    simp only [Dict.get]
    rcases List.mem_cons.mp h with e | h'
    · cases e; simp
    · have : ¬ k0 = k := by
        intro e; subst e; exact hn.1 (List.mem_map_of_mem (f := (·.1)) h')
      simp only [this, if_false]; exact ih hn.2 h'

theorem mem_of_get {d : Dict} {k : Bytes} {v : Obj} (h : Dict.get d k = some v) : (k, v) ∈ d := by
  induction d with
  | nil => simp [Dict.get] at h
  | cons p rest ih =>
    obtain ⟨k0, v0⟩ := p
    simp only [Dict.get] at h
    split at h
    · rename_i e; cases h; subst e; exact List.mem_cons_self
    · exact List.mem_cons_of_mem _ (ih h)

theorem get_none_of_not_key {d : Dict} {k : Bytes} (h : k ∉ d.map (·.1)) : Dict.get d k = none := by
  cases hg : Dict.get d k with
  | none => rfl
  | some v => exact absurd (List.mem_map_of_mem (f := (·.1)) (mem_of_get hg)) h

/-- `get` depends only on the set of entries -/
theorem get_perm {d1 d2 : Dict} (h1 : NoDup d1) (h2 : NoDup d2) (hp : d1.Perm d2) (k : Bytes) : Dict.get d1 k = Dict.get d2 k := by
  cases hg : Dict.get d1 k with
  | some v => exact (get_some_of_mem h2 (hp.mem_iff.mp (mem_of_get hg))).symm
  | none =>
    cases hg2 : Dict.get d2 k with
    | none => rfl
    | some v => have := get_some_of_mem h1 (hp.mem_iff.mpr (mem_of_get hg2)); rw [hg] at this; cases this

theorem idxOf_split (d : Dict) (k : Bytes) (i : Nat) (h : Dict.idxOf d k = some i) :
    ∃ A x B, d = A ++ x :: B ∧ A.length = i ∧ x.1 = k ∧ k ∉ A.map (·.1) := by
  induction d generalizing i with
  | nil => simp [Dict.idxOf] at h
  | cons p rest ih =>
    obtain ⟨k0, v0⟩ := p
    simp only [Dict.idxOf] at h
    by_cases e : k0 = k
    · simp only [e, if_true] at h; cases h
      exact ⟨[], (k0, v0), rest, rfl, rfl, e, by simp⟩
    · simp only [e, if_false, Option.map_eq_some_iff] at h
      obtain ⟨j, hj, rfl⟩ := h
      obtain ⟨A, x, B, hd, hl, hx, hA⟩ := ih j hj
      refine ⟨(k0, v0) :: A, x, B, by rw [hd]; rfl, by simp [hl], hx, ?_⟩
      simp only [List.map_cons, List.mem_cons, not_or]
      exact ⟨fun e' => e e'.symm, hA⟩

theorem idxOf_none (d : Dict) (k : Bytes) (h : Dict.idxOf d k = none) : k ∉ d.map (·.1) := by
  induction d with
  | nil => simp
  | cons p rest ih =>
    obtain ⟨k0, v0⟩ := p
    simp only [Dict.idxOf] at h
    by_cases e : k0 = k
    · simp [e] at h
    · simp only [e, if_false, Option.map_eq_none_iff] at h
      simp only [List.map_cons, List.mem_cons, not_or]
      exact ⟨fun e' => e e'.symm, ih h⟩

theorem filter_ne_of_not_key (A : Dict) (k : Bytes) (h : k ∉ A.map (·.1)) : A.filter (fun p => !decide (p.1 = k)) = A := by
  apply List.filter_eq_self.mpr
  intro p hp
  have : p.1 ≠ k := fun e => h (e ▸ List.mem_map_of_mem (f := (·.1)) hp)
  simp [this]

/-- **`swap_remove` is a permutation of the entries with another key** -/
theorem remove_perm {d : Dict} (hn : NoDup d) (k : Bytes) :
    (Dict.remove d k).Perm (d.filter (fun p => !decide (p.1 = k))) := by
  unfold Dict.remove
  cases hi : Dict.idxOf d k with
  | none => simp only; rw [filter_ne_of_not_key d k (idxOf_none d k hi)]
  | some i =>
    obtain ⟨A, x, B, hd, hl, hx, hA⟩ := idxOf_split d k i hi
    subst hd
    have hnB : k ∉ B.map (·.1) := by
      simp only [NoDup, List.map_append, List.map_cons] at hn
      have := (List.nodup_append.mp hn).2.1
      simp only [List.nodup_cons] at this
      rw [← hx]; exact this.1
    have hfil : (A ++ x :: B).filter (fun p => !decide (p.1 = k)) = A ++ B := by
      rw [List.filter_append, List.filter_cons, filter_ne_of_not_key A k hA, filter_ne_of_not_key B k hnB]
      simp [hx]
    simp only
    rw [hfil]
    rcases List.eq_nil_or_concat B with rfl | ⟨B', last, hB⟩
    · -- the removed entry is the last one
      have h1 : (A ++ [x]).getLast? = some x := List.getLast?_concat
      have h2 : (A ++ [x]).dropLast = A := List.dropLast_concat
      simp only [h1, h2, hl, if_true, List.append_nil]
      exact List.Perm.refl _
    · rw [List.concat_eq_append] at hB
      subst hB
      have e : A ++ x :: (B' ++ [last]) = (A ++ x :: B') ++ [last] := by simp
      have h1 : (A ++ x :: (B' ++ [last])).getLast? = some last := by rw [e]; exact List.getLast?_concat
      have h2 : (A ++ x :: (B' ++ [last])).dropLast = A ++ x :: B' := by rw [e]; exact List.dropLast_concat
      have h3 : ¬ (i = (A ++ x :: B').length) := by simp [← hl]
      simp only [h1, h2, h3, if_false]
      have h4 : (A ++ x :: B').set i last = A ++ last :: B' := by
        rw [← hl, List.set_append_right _ _ (Nat.le_refl _)]; simp
      rw [h4]
      have p1 : (A ++ last :: B').Perm (last :: (A ++ B')) := List.perm_middle
      have p2 : ((A ++ B') ++ [last]).Perm (last :: (A ++ B')) := List.perm_append_singleton last (A ++ B')
      have e2 : A ++ (B' ++ [last]) = (A ++ B') ++ [last] := by simp
      rw [e2]
      exact p1.trans p2.symm

theorem nodup_filter {d : Dict} (hn : NoDup d) (p : Bytes × Obj → Bool) : NoDup (d.filter p) :=
  List.Nodup.sublist (List.Sublist.map (·.1) (List.filter_sublist (l := d) (p := p))) hn

theorem nodup_remove {d : Dict} (hn : NoDup d) (k : Bytes) : NoDup (Dict.remove d k) := by
  have hp := remove_perm hn k
  have h2 : NoDup (d.filter (fun p => !decide (p.1 = k))) := nodup_filter hn _
  unfold NoDup at *
  exact (hp.map (fun (x : Bytes × Obj) => x.1)).nodup_iff.mpr h2

/-- **`Dictionary::remove` at the level of `get`** (duplicate-free keys) -/
theorem get_remove {d : Dict} (hn : NoDup d) (k q : Bytes) :
    Dict.get (Dict.remove d k) q = if k = q then none else Dict.get d q := by
  rw [get_perm (nodup_remove hn k) (nodup_filter hn _) (remove_perm hn k) q]
  by_cases e : k = q
  · subst e
    simp only [if_true]
    apply get_none_of_not_key
    intro hm
    obtain ⟨p, hp, hpk⟩ := List.mem_map.mp hm
    have := (List.mem_filter.mp hp).2
    simp [hpk] at this
  · simp only [e, if_false]
    cases hg : Dict.get d q with
    | some v =>
      apply get_some_of_mem (nodup_filter hn _)
      have hne : ¬ q = k := fun e' => e e'.symm
      exact List.mem_filter.mpr ⟨mem_of_get hg, by simp [hne]⟩
    | none =>
      apply get_none_of_not_key
      intro hm
      obtain ⟨p, hp, hpk⟩ := List.mem_map.mp hm
      have hmem := (List.mem_filter.mp hp).1
      have := get_some_of_mem hn (show (q, p.2) ∈ d by rw [← hpk]; exact hmem)
      rw [hg] at this; cases this

theorem keys_set (d : Dict) (k : Bytes) (v : Obj) :
    (Dict.set d k v).map (·.1) = if k ∈ d.map (·.1) then d.map (·.1) else d.map (·.1) ++ [k] := by
  induction d with
  | nil => simp [Dict.set]
  | cons p rest ih =>
    obtain ⟨k0, v0⟩ := p
    simp only [Dict.set]
    by_cases e : k0 = k
    · simp [e]
    · have e' : ¬ k = k0 := fun x => e x.symm
      simp only [e, if_false, List.map_cons, ih, List.mem_cons, e', false_or]
      split <;> simp

theorem nodup_set {d : Dict} (hn : NoDup d) (k : Bytes) (v : Obj) : NoDup (Dict.set d k v) := by
  unfold NoDup at *
  rw [keys_set]
  split
  · exact hn
  · rename_i h
    rw [List.nodup_append]
    exact ⟨hn, by simp, fun a ha b hb => by simp at hb; subst hb; intro e; exact h (e ▸ ha)⟩

end Lopdf.DictL
