import LopdfModel.Lemmas.RangeMap
import LopdfModel.Spec.CMapSpec
/-
  C15 — from sections to the stored maps: `from_sections` is a left fold of `put` over the
  flattened definition list, and after the fold every per-length range map is valid and
  stores, for every code, the `BfRangeTarget` chosen for the LAST covering definition.
-/
namespace Lopdf.CMap
open Lopdf Lopdf.Gen Lopdf.CMapSpec

set_option linter.unusedSimpArgs false

/-- the `BfRangeTarget` `from_sections` / `put_char` choose for a definition -/
def storedOf : Def → Target
  | .char code _ [u] => .cp (wrappingSub u code)
  | .char code _ dst => .hex code dst
  | .range lo _ _ [[u]] => .cp (wrappingSub u lo)
  | .range lo _ _ [t] => .hex lo t
  | .range lo _ _ dsts => .arr lo dsts

def defsOfChars (ms : List ((Nat × Nat) × List Nat)) : List Def :=
  ms.map fun ((c, l), d) => .char c l d
def defsOfRanges (ms : List ((Nat × Nat × Nat) × List (List Nat))) : List Def :=
  ms.map fun ((lo, hi, l), ds) => .range lo hi l ds

/-- the definitions of a parsed CMap, in file order -/
def defsOf : List Section → List Def
  | [] => []
  | .csRange _ :: ss => defsOf ss
  | .bfChar ms :: ss => defsOfChars ms ++ defsOf ss
  | .bfRange ms :: ss => defsOfRanges ms ++ defsOf ss

def putDef (m : UMap) (d : Def) : UMap := put m d.lo d.hi d.len (storedOf d)

def buildFrom (m : UMap) : List Def → UMap
  | [] => m
  | d :: ds => buildFrom (putDef m d) ds

/-- what `from_sections` checks itself: `end >= start`, at least one target -/
def rangeOk : Def → Prop
  | .range lo hi _ dsts => lo ≤ hi ∧ dsts ≠ []
  | .char _ _ _ => True

theorem buildFrom_append (m : UMap) (a b : List Def) :
    buildFrom m (a ++ b) = buildFrom (buildFrom m a) b := by
  induction a generalizing m with
  | nil => rfl
  | cons d a ih => exact ih (putDef m d)

theorem putChar_eq (m : UMap) (code len : Nat) (dst : List Nat) :
    putChar m code len dst = putDef m (.char code len dst) := by
  cases dst with
  | nil => rfl
  | cons u t => cases t <;> rfl

theorem putRangeLine_eq (m : UMap) (lo hi len : Nat) (dsts : List (List Nat))
    (h : rangeOk (.range lo hi len dsts)) :
    putRangeLine m ((lo, hi, len), dsts) = some (putDef m (.range lo hi len dsts)) := by
  obtain ⟨hlh, hne⟩ := h
  have hn : ¬ hi < lo := by omega
  cases dsts with
  | nil => exact absurd rfl hne
  | cons t rest =>
    cases rest with
    | nil =>
      cases t with
      | nil => simp [putRangeLine, hn, putDef, storedOf, Def.lo, Def.hi, Def.len]
      | cons u t' =>
        cases t' <;> simp [putRangeLine, hn, putDef, storedOf, Def.lo, Def.hi, Def.len]
    | cons t2 rest2 => simp [putRangeLine, hn, putDef, storedOf, Def.lo, Def.hi, Def.len]

theorem putCharLines_eq (m : UMap) (ms : List ((Nat × Nat) × List Nat)) :
    putCharLines m ms = buildFrom m (defsOfChars ms) := by
  induction ms generalizing m with
  | nil => rfl
  | cons x ms ih =>
    obtain ⟨⟨c, l⟩, d⟩ := x
    show putCharLines (putChar m c l d) ms = _
    rw [ih, putChar_eq]; rfl

theorem putRangeLines_eq (m : UMap) (ms : List ((Nat × Nat × Nat) × List (List Nat)))
    (h : ∀ d ∈ defsOfRanges ms, rangeOk d) :
    putRangeLines m ms = some (buildFrom m (defsOfRanges ms)) := by
  induction ms generalizing m with
  | nil => rfl
  | cons x ms ih =>
    obtain ⟨⟨lo, hi, l⟩, ds⟩ := x
    have h0 : rangeOk (.range lo hi l ds) := h _ (by simp [defsOfRanges])
    have h1 : ∀ d ∈ defsOfRanges ms, rangeOk d := fun d hd => h d (by
      simp only [defsOfRanges, List.map_cons, List.mem_cons]; exact Or.inr hd)
    unfold putRangeLines
    rw [putRangeLine_eq m lo hi l ds h0]
    simp only
    rw [ih _ h1]; rfl

/-- **`from_sections` is the fold of `put` over the definitions** (and never fails on
definitions that pass its own two checks). -/
theorem fromSectionsFrom_eq (ss : List Section) (m : UMap) (h : ∀ d ∈ defsOf ss, rangeOk d) :
    fromSectionsFrom m ss = some (buildFrom m (defsOf ss)) := by
  induction ss generalizing m with
  | nil => rfl
  | cons s ss ih =>
    cases s with
    | csRange rs => exact ih m h
    | bfChar ms =>
      have h1 : ∀ d ∈ defsOf ss, rangeOk d := fun d hd => h d (by
        simp only [defsOf, List.mem_append]; exact Or.inr hd)
      show fromSectionsFrom (putCharLines m ms) ss = _
      rw [ih _ h1, putCharLines_eq]
      simp only [defsOf, buildFrom_append]
    | bfRange ms =>
      have h0 : ∀ d ∈ defsOfRanges ms, rangeOk d := fun d hd => h d (by
        simp only [defsOf, List.mem_append]; exact Or.inl hd)
      have h1 : ∀ d ∈ defsOf ss, rangeOk d := fun d hd => h d (by
        simp only [defsOf, List.mem_append]; exact Or.inr hd)
      unfold fromSectionsFrom
      rw [putRangeLines_eq m ms h0]
      simp only
      rw [ih _ h1]
      simp only [defsOf, buildFrom_append]

theorem badLen_false {l : Nat} (h1 : 1 ≤ l) (h4 : l ≤ 4) : badLen l = false := by
  have a : ¬ l > 4 := by omega
  have b : ¬ l = 0 := by omega
  simp [badLen, CMAP_MAX_CODE_LEN, CMAP_BAD_CODE_LEN, a, b]

theorem badLen_true {l : Nat} (h : ¬ (1 ≤ l ∧ l ≤ 4)) : badLen l = true := by
  by_cases a : l > 4
  · simp [badLen, CMAP_MAX_CODE_LEN, CMAP_BAD_CODE_LEN, a]
  · have b : l = 0 := by omega
    simp [badLen, CMAP_MAX_CODE_LEN, CMAP_BAD_CODE_LEN, b]

theorem lastCoveringFrom_some {acc : Option Def} {ds : List Def} {c l : Nat} {D : Def}
    (h : lastCoveringFrom acc ds c l = some D) : (D ∈ ds ∧ D.covers c l = true) ∨ acc = some D := by
  induction ds generalizing acc with
  | nil => exact Or.inr h
  | cons d ds ih =>
    unfold lastCoveringFrom at h
    cases ih h with
    | inl h' => exact Or.inl ⟨List.mem_cons_of_mem _ h'.1, h'.2⟩
    | inr h' =>
      by_cases hc : d.covers c l = true
      · simp only [hc, if_true] at h'
        injection h' with h'
        subst h'
        exact Or.inl ⟨List.mem_cons_self, hc⟩
      · simp only [hc] at h'
        exact Or.inr h'

/-- nothing covers → the scan keeps its start value -/
theorem lastCoveringFrom_none_cover {acc : Option Def} {ds : List Def} {c l : Nat}
    (h : ∀ d ∈ ds, d.covers c l = false) : lastCoveringFrom acc ds c l = acc := by
  induction ds generalizing acc with
  | nil => rfl
  | cons d ds ih =>
    unfold lastCoveringFrom
    rw [h d List.mem_cons_self]
    simp only [Bool.false_eq_true, if_false]
    exact ih (fun d' hd' => h d' (List.mem_cons_of_mem _ hd'))

/-- shape hypotheses `put` needs to behave: a usable code length and `lo ≤ hi` -/
def putOk (d : Def) : Prop := d.lo ≤ d.hi ∧ 1 ≤ d.len ∧ d.len ≤ 4

/-- **The stored maps after the fold**: every per-length map is valid, and the value stored
for a code is the target chosen for the last definition covering it. -/
theorem build_val (ds : List Def) :
    ∀ (m : UMap) (g : Nat → Nat → Option Def),
      (∀ l, Inv 0 none (m l)) →
      (∀ c l, rmVal (m l) c = (g c l).map storedOf) →
      (∀ d ∈ ds, putOk d) →
      (∀ l, Inv 0 none (buildFrom m ds l)) ∧
      ∀ c l, rmVal (buildFrom m ds l) c = (lastCoveringFrom (g c l) ds c l).map storedOf := by
  induction ds with
  | nil => intro m g hi hv _; exact ⟨hi, hv⟩
  | cons d ds ih =>
    intro m g hi hv hok
    obtain ⟨hlh, hl1, hl4⟩ := hok d List.mem_cons_self
    have hb := badLen_false hl1 hl4
    have hput : ∀ l, putDef m d l = if l = d.len then rmInsert (m d.len) d.lo d.hi (storedOf d) else m l := by
      intro l; simp [putDef, put, hb]
    apply ih (putDef m d) (fun c l => if d.covers c l then some d else g c l)
    · intro l
      rw [hput]
      by_cases hl : l = d.len
      · simp only [hl, if_true]; exact rm_inv_insert (hi _) hlh _
      · simp only [hl, if_false]; exact hi l
    · intro c l
      rw [hput]
      by_cases hl : l = d.len
      · subst hl
        simp only [if_true]
        rw [rmVal_insert_gen (m d.len) 0 none d.lo d.hi (storedOf d) c (hi _) hlh]
        by_cases hc : d.lo ≤ c ∧ c ≤ d.hi
        · have : d.covers c d.len = true := by simp [Def.covers, hc.1, hc.2]
          simp [hc, this]
        · have : d.covers c d.len = false := by
            simp only [Def.covers, decide_true, Bool.true_and, Bool.and_eq_false_iff, decide_eq_false_iff_not]
            omega
          simp [hc, this, hv]
      · have : d.covers c l = false := by
          simp [Def.covers]; intro h; exact absurd h.symm hl
        simp [hl, this, hv]
    · exact fun d' hd' => hok d' (List.mem_cons_of_mem _ hd')

theorem inv_empty (l : Nat) : Inv 0 (none : Option Target) (UMap.empty l) := trivial

/-- `from_sections` on definitions with usable shapes: succeeds, all maps valid, stored value =
target of the last covering definition. -/
theorem fromSections_val (ss : List Section) (hok : ∀ d ∈ defsOf ss, putOk d ∧ rangeOk d) :
    ∃ m, fromSections ss = some m ∧ (∀ l, Inv 0 none (m l)) ∧
      ∀ c l, rmVal (m l) c = (lastCovering (defsOf ss) c l).map storedOf := by
  refine ⟨buildFrom UMap.empty (defsOf ss), fromSectionsFrom_eq ss _ (fun d hd => (hok d hd).2), ?_⟩
  have := build_val (defsOf ss) UMap.empty (fun _ _ => none) inv_empty (fun c l => rfl)
    (fun d hd => (hok d hd).1)
  exact this

end Lopdf.CMap
