import LopdfModel.Lemmas.Move
import LopdfModel.Model.Edit
/-
  Helper lemmas for C11: the object map stays a sorted BTreeMap through every operation
  (insert / remove / get_mut / traversal / move passes), keys never appear out of nothing,
  and the per-operation preservation of `WF` (allocation invariant + sortedness).
-/
namespace Lopdf

theorem Objects.keys_remove_sublist (os : Objects) (k : ObjId) : (os.remove k).keys.Sublist os.keys := by
  induction os with
  | nil => simp [Objects.remove, Objects.keys]
  | cons p rest ih =>
    obtain ⟨k0, v0⟩ := p
    simp only [Objects.remove]
    split
    · exact List.Sublist.cons _ ih
    · exact List.Sublist.cons₂ _ ih

theorem Objects.sorted_remove (os : Objects) (k : ObjId) (h : os.Sorted) : (os.remove k).Sorted :=
  List.Pairwise.sublist (Objects.keys_remove_sublist os k) h

theorem Objects.sorted_set (os : Objects) (k : ObjId) (v : Obj) (h : os.Sorted) : (os.set k v).Sorted := by
  unfold Objects.Sorted; rw [Objects.keys_set]; exact h

theorem Objects.sorted_nodup (os : Objects) (h : os.Sorted) : os.keys.Nodup := by
  unfold Objects.Sorted at h
  exact List.Pairwise.imp (fun {a b} hab e => by subst e; rw [idLt_irrefl] at hab; cases hab) h

theorem travLoop_keys (a : Action) (os : Objects) (refs : List ObjId) (index : Nat) (hn : refs.Nodup) :
    (travLoop a os refs index hn).1.keys = os.keys := by
  induction os, refs, index, hn using travLoop.induct (a := a) with
  | case1 os refs index hn hi o hg ih =>
    rw [travLoop]; simp only [hi, dite_true]
    split
    · rename_i o' hg'
      have : o' = o := by rw [hg] at hg'; exact (Option.some.inj hg').symm
      subst this
      rw [ih, Objects.keys_set]
    · rename_i hg'; rw [hg] at hg'; cases hg'
  | case2 os refs index hn hi hg ih =>
    rw [travLoop]; simp only [hi, dite_true]
    split
    · rename_i o' hg'; rw [hg] at hg'; cases hg'
    · exact ih
  | case3 os refs index hn hi =>
    rw [travLoop]; simp only [hi, dite_false]

theorem traverse_keys (a : Action) (tr : Dict) (os : Objects) : (traverse a tr os).2.1.keys = os.keys := by
  unfold traverse; exact travLoop_keys _ _ _ _ _

theorem traverse_sorted (a : Action) (tr : Dict) (os : Objects) (h : os.Sorted) : (traverse a tr os).2.1.Sorted := by
  unfold Objects.Sorted; rw [traverse_keys]; exact h

theorem sorted_foldl_insert (l : Objects) (acc : Objects) (h : acc.Sorted) :
    (l.foldl (fun acc kv => acc.insert kv.1 kv.2) acc).Sorted := by
  induction l generalizing acc with
  | nil => exact h
  | cons p rest ih => simp only [List.foldl_cons]; exact ih _ (Objects.sorted_insert _ _ _ h)

theorem sorted_foldl_remove (ids : List ObjId) (os : Objects) (h : os.Sorted) : (ids.foldl Objects.remove os).Sorted := by
  induction ids generalizing os with
  | nil => exact h
  | cons x xs ih => simp only [List.foldl_cons]; exact ih _ (Objects.sorted_remove _ _ h)

theorem moveObj_objects_sorted (st : MoveSt) (p : ObjId × ObjId) (h : st.objects.Sorted) : (moveObj st p).objects.Sorted := by
  unfold moveObj; split
  · exact Objects.sorted_remove _ _ h
  · exact h

theorem foldl_move_objects_sorted (bks : List Nat) (pairs : List (ObjId × ObjId)) (st : MoveSt) (h : st.objects.Sorted) :
    (pairs.foldl (moveStep bks) st).objects.Sorted := by
  induction pairs generalizing st with
  | nil => exact h
  | cons p rest ih =>
    simp only [List.foldl_cons]; apply ih
    rw [(moveStep_eq bks st p).1]; exact moveObj_objects_sorted st p h

theorem movePass_sorted (bks : List Nat) (os : Objects) (bm : BkTable) (pairs : List (ObjId × ObjId)) (h : os.Sorted) :
    (movePass bks os bm pairs).objects.Sorted := by
  unfold movePass
  exact sorted_foldl_insert _ _ (foldl_move_objects_sorted bks pairs ⟨os, [], [], bm⟩ h)

theorem pagePass_sorted (d : Doc) (h : d.objects.Sorted) : (pagePass d).objects.Sorted := by
  unfold pagePass; split
  · exact traverse_sorted _ _ _ (movePass_sorted _ _ _ _ h)
  · exact h

theorem get_foldl_remove (ids : List ObjId) (os : Objects) (k : ObjId) :
    (ids.foldl Objects.remove os).get k = if k ∈ ids then none else os.get k := by
  induction ids generalizing os with
  | nil => simp
  | cons x xs ih =>
    simp only [List.foldl_cons, ih, Objects.get_remove, List.mem_cons]
    by_cases h1 : k ∈ xs
    · simp [h1]
    · by_cases h2 : x = k
      · simp [h2]
      · have : ¬ k = x := fun e => h2 e.symm
        simp [h1, h2, this]

theorem traverse_isSome (a : Action) (tr : Dict) (os : Objects) (k : ObjId) :
    ((traverse a tr os).2.1.get k).isSome = (os.get k).isSome := by
  rw [(traverse_visits_once a tr os).2.2 k]; split <;> simp

theorem deleteObject_isSome (d : Doc) (id k : ObjId) (h : ((deleteObject d id).1.objects.get k).isSome) :
    (d.objects.get k).isSome := by
  simp only [deleteObject, Objects.get_remove] at h
  split at h
  · simp at h
  · rwa [traverse_isSome] at h

theorem deleteObject_maxId (d : Doc) (id : ObjId) : (deleteObject d id).1.maxId = d.maxId := rfl

theorem densePairs_some (ids : List ObjId) (s : Nat) (acc : List (ObjId × ObjId)) (p : List (ObjId × ObjId)) (n : Nat)
    (h : densePairs ids s acc = some (p, n)) : p = acc ++ denseSpec ids s ∧ n = s + ids.length := by
  induction ids generalizing s acc with
  | nil => simp [densePairs] at h; simp [denseSpec, h.1.symm, h.2.symm]
  | cons id rest ih =>
    simp only [densePairs] at h
    split at h
    · cases h
    · obtain ⟨h1, h2⟩ := ih _ _ h
      refine ⟨?_, by simp [h2]; omega⟩
      rw [h1]; simp only [denseSpec]
      split <;> simp

theorem assign_lt (ids : List ObjId) (s : Nat) : ∀ p ∈ assign ids s, p.2.1 < s + ids.length := by
  induction ids generalizing s with
  | nil => simp [assign]
  | cons id rest ih =>
    intro p hp; simp only [assign, List.mem_cons] at hp
    rcases hp with rfl | hp
    · simp
    · have := ih _ p hp; simp; omega

/-- document well-formedness carried by every editing call: the allocation invariant, and the object
map is a `BTreeMap` (keys strictly increasing) -/
def WF (d : Doc) : Prop := (∀ k, (d.objects.get k).isSome → k.1 ≤ d.maxId) ∧ d.objects.Sorted

theorem wf_densePass (d1 : Doc) (start : Nat) (hs : d1.objects.Sorted) (d' : Doc)
    (h : densePass d1 start = .ok d') : WF d' := by
  unfold densePass at h
  split at h
  · cases h
  · rename_i pairs newId hp
    obtain ⟨hp1, hp2⟩ := densePairs_some _ _ _ _ _ hp
    simp only [List.nil_append] at hp1
    cases h
    have hperm := sortBy_perm idLeE d1.objects.keys
    have hn : (sortBy idLeE d1.objects.keys).Nodup := hperm.nodup_iff.mpr (Objects.sorted_nodup _ hs)
    have hk : ∀ k, k ∈ sortBy idLeE d1.objects.keys ↔ (d1.objects.get k).isSome := by
      intro k; rw [hperm.mem_iff]; exact Objects.mem_keys_iff _ _
    constructor
    · intro k hk'
      simp only at hk'
      rw [traverse_isSome] at hk'
      rw [hp1] at hk'
      obtain ⟨p, hpm, hpk⟩ := (dense_move_isSome d1.bookmarks d1.objects d1.bmTable _ start hn hk k).mp hk'
      have := assign_lt _ start p hpm
      simp only
      rw [← hpk, hp2]; omega
    · exact traverse_sorted _ _ _ (movePass_sorted _ _ _ _ hs)

theorem deleteObject_sorted (d : Doc) (id : ObjId) (h : d.objects.Sorted) : (deleteObject d id).1.objects.Sorted := by
  simp only [deleteObject]; exact Objects.sorted_remove _ _ (traverse_sorted _ _ _ h)

theorem wf_deleteObject (d : Doc) (id : ObjId) (h : WF d) : WF (deleteObject d id).1 :=
  ⟨fun k hk => h.1 k (deleteObject_isSome d id k hk), deleteObject_sorted d id h.2⟩

theorem wf_foldl_delete (ids : List ObjId) (d : Doc) (h : WF d) :
    WF (ids.foldl (fun d id => (deleteObject d id).1) d) := by
  induction ids generalizing d with
  | nil => exact h
  | cons x xs ih => simp only [List.foldl_cons]; exact ih _ (wf_deleteObject d x h)

theorem decCounts_spec (os : Objects) (seen : List ObjId) (r : Option ObjId) :
    (decCounts os seen r).keys = os.keys := by
  induction os, seen, r using decCounts.induct with
  | case1 os seen => rw [decCounts_none]
  | case2 os seen id hs => rw [decCounts_seen _ _ _ hs]
  | case3 os seen id hs pt hg ih =>
    rw [decCounts_dict _ _ _ pt (by simpa using hs) hg, ih, Objects.keys_set]
  | case4 os seen id hs hne =>
    rw [decCounts_other _ _ _ (by simpa using hs) (fun pt h => hne pt h)]

theorem isSome_of_keys_eq (a b : Objects) (h : a.keys = b.keys) (k : ObjId) : (a.get k).isSome = (b.get k).isSome := by
  have h1 := Objects.mem_keys_iff a k
  have h2 := Objects.mem_keys_iff b k
  rw [h] at h1
  cases ha : (a.get k).isSome <;> cases hb : (b.get k).isSome <;> simp_all

theorem wf_deletePage1 (pages : List ObjId) (a : Doc) (n : Nat) (hwa : WF a) :
    WF (deletePage1 pages a n) ∧ (deletePage1 pages a n).maxId = a.maxId := by
  unfold deletePage1
  split
  · exact ⟨hwa, rfl⟩
  · rename_i pid _
    have hwd := wf_deleteObject a pid hwa
    have hm := deleteObject_maxId a pid
    cases hdo : deleteObject a pid with
    | mk d2 ro =>
      rw [hdo] at hwd hm
      simp only at hm
      cases ro with
      | none => exact ⟨hwd, hm⟩
      | some page =>
        simp only
        have hkeys := decCounts_spec d2.objects [] ((page.asDict.bind fun pd => Dict.get pd PARENT).bind Obj.asRef)
        refine ⟨⟨?_, ?_⟩, hm⟩
        · intro k hk; simp only at hk
          rw [isSome_of_keys_eq _ _ hkeys] at hk
          exact hwd.1 k hk
        · simp only; unfold Objects.Sorted; rw [hkeys]; exact hwd.2

theorem wf_deletePages (d : Doc) (nums : List Nat) (h : WF d) :
    WF (deletePages d nums) ∧ (deletePages d nums).maxId = d.maxId := by
  unfold deletePages
  simp only
  generalize pageIter d.trailer d.objects = pages
  have key : ∀ (nums : List Nat) (acc : Doc), WF acc ∧ acc.maxId = d.maxId →
      WF (nums.foldl (fun acc n => deletePage1 pages acc n) acc) ∧
      (nums.foldl (fun acc n => deletePage1 pages acc n) acc).maxId = d.maxId := by
    intro nums
    induction nums with
    | nil => intro acc hacc; exact hacc
    | cons n rest ih =>
      intro acc hacc
      simp only [List.foldl_cons]
      apply ih
      obtain ⟨h1, h2⟩ := wf_deletePage1 pages acc n hacc.1
      exact ⟨h1, by rw [h2, hacc.2]⟩
  exact key nums d ⟨h, rfl⟩

theorem wf_addObject (d : Doc) (o : Obj) (h : WF d) : WF (addObject d o) := by
  refine ⟨?_, Objects.sorted_insert _ _ _ h.2⟩
  intro k hk
  simp only [addObject, Objects.get_insert] at hk
  split at hk
  · rename_i e; subst e; simp [addObject]
  · have := h.1 k hk; simp only [addObject]; omega

theorem set_isSome (os : Objects) (k : ObjId) (v : Obj) (q : ObjId) :
    ((os.set k v).get q).isSome = (os.get q).isSome :=
  isSome_of_keys_eq _ _ (Objects.keys_set os k v) q

theorem wf_setDictEntry (d : Doc) (id : ObjId) (key : Bytes) (v : Obj) (h : WF d) : WF (setDictEntry d id key v).1 := by
  unfold setDictEntry
  split
  · exact h
  · split
    · exact ⟨fun k hk => h.1 k (by simpa only [set_isSome] using hk), Objects.sorted_set _ _ _ h.2⟩
    · exact h

theorem wf_addPageContents (d : Doc) (pg : ObjId) (content : Bytes) (h : WF d) (d' : Doc) (out : Out)
    (hs : addPageContents d pg content = .ok (d', out)) : WF d' := by
  unfold addPageContents at hs
  split at hs
  · cases hs; exact h
  · rename_i page _
    split at hs
    · cases hs
    · have e := Outcome.ok.inj hs
      have := wf_setDictEntry (addObject d (streamNew [] content)) pg CONTENTS
        (Obj.arr (contentsList page ++ [Obj.ref (d.maxId + 1) 0])) (wf_addObject d _ h)
      rw [e] at this; exact this

theorem wf_prune (d : Doc) (h : WF d) : WF (pruneObjects d).1 := by
  constructor
  · intro k hk
    simp only [pruneObjects, get_foldl_remove] at hk
    split at hk
    · simp at hk
    · rw [traverse_isSome] at hk; exact h.1 k hk
  · simp only [pruneObjects]
    exact sorted_foldl_remove _ _ (traverse_sorted _ _ _ h.2)



theorem wf_setObj (d : Doc) (k : ObjId) (v : Obj) (h : WF d) : WF { d with objects := d.objects.set k v } :=
  ⟨fun q hq => h.1 q (by simpa only [set_isSome] using hq), Objects.sorted_set _ _ _ h.2⟩

theorem wf_removeAnnot (id : ObjId) (pages : List ObjId) (d : Doc) (h : WF d) : WF (removeAnnot id pages d).1 := by
  induction pages generalizing d with
  | nil => exact h
  | cons p rest ih =>
    simp only [removeAnnot]
    split
    · exact h
    · split
      · split
        · exact ih _ (wf_setObj d _ _ h)
        · exact h
      · exact h

theorem wf_writeLoc (d : Doc) (loc : ResLoc) (v : Obj) (h : WF d) : WF { d with objects := writeLoc d.objects loc v } := by
  unfold writeLoc
  cases loc with
  | obj id => exact wf_setObj d id v h
  | entry t =>
    simp only
    split
    · exact wf_setObj d t _ h
    · exact h

theorem wf_getOrCreateResources (d : Doc) (pg : ObjId) (h : WF d) (d1 : Doc) (loc : ResLoc)
    (hg : getOrCreateResources d pg = some (d1, loc)) : WF d1 := by
  unfold getOrCreateResources at hg
  split at hg
  · cases hg
  · simp only at hg
    split at hg
    · simp only [Option.map_eq_some_iff] at hg
      obtain ⟨t, _, he⟩ := hg; cases he; exact h
    · split at hg
      · cases hg
      · split at hg
        · split at hg
          · cases hg; exact h
          · cases hg; exact wf_setObj d _ _ h
        · cases hg

theorem wf_addXObject (d : Doc) (pg : ObjId) (name : Bytes) (xid : ObjId) (h : WF d) : WF (addXObject d pg name xid).1 := by
  unfold addXObject
  split
  · exact h
  · rename_i d1 loc hg
    have h1 := wf_getOrCreateResources d pg h d1 loc hg
    split
    · simp only
      split
      · split
        · exact h1
        · split
          · exact wf_setObj d1 _ _ h1
          · exact h1
      · exact wf_writeLoc d1 loc _ h1
      · exact h1
    · exact h1

theorem wf_addGraphicsState (d : Doc) (pg : ObjId) (name : Bytes) (gid : ObjId) (h : WF d) : WF (addGraphicsState d pg name gid).1 := by
  unfold addGraphicsState
  split
  · exact h
  · rename_i d1 loc hg
    have h1 := wf_getOrCreateResources d pg h d1 loc hg
    split
    · simp only
      split
      · exact wf_writeLoc d1 loc _ h1
      · exact h1
    · exact h1

theorem wf_changeContentStream (f : Bytes → Bytes) (d : Doc) (sid : ObjId) (c : Bytes) (h : WF d) :
    WF (changeContentStream f d sid c) := by
  unfold changeContentStream
  split
  · exact wf_setObj d _ _ h
  · exact h

theorem wf_changePageContent (f : Bytes → Bytes) (d : Doc) (pg : ObjId) (c : Bytes) (h : WF d) (d' : Doc) (out : Out)
    (hs : changePageContent f d pg c = .ok (d', out)) : WF d' := by
  unfold changePageContent at hs
  split at hs
  · cases hs; exact h
  · cases hs; exact wf_changeContentStream f d _ c h
  · cases hs; exact wf_changeContentStream f d _ c h
  · cases hs; exact h
  · split at hs
    · cases hs
    · cases hs; exact wf_setDictEntry _ _ _ _ (wf_addObject d _ h)
  · cases hs; exact h


theorem docCompress_keys (f : Bytes → Bytes) (al : ObjId → Bool) (os : Objects) : (docCompress f al os).keys = os.keys := by
  unfold docCompress Objects.keys
  rw [List.map_map]
  apply List.map_congr_left
  intro p _
  obtain ⟨id, o⟩ := p
  simp only [Function.comp]
  cases o <;> simp
  split <;> rfl

theorem docDecompress_keys (ext : Ext) (os : Objects) : (docDecompress ext os).keys = os.keys := by
  unfold docDecompress Objects.keys
  rw [List.map_map]
  apply List.map_congr_left
  intro p _
  obtain ⟨id, o⟩ := p
  simp only [Function.comp]
  cases o <;> simp
  split <;> rfl

theorem wf_of_keys_eq (d : Doc) (os' : Objects) (h : WF d) (hk : os'.keys = d.objects.keys) : WF { d with objects := os' } :=
  ⟨fun q hq => h.1 q (by rw [← isSome_of_keys_eq _ _ hk]; exact hq), by unfold Objects.Sorted; rw [hk]; exact h.2⟩

end Lopdf
