import LopdfModel.Lemmas.C09Paeth
namespace Lopdf
open Gen Spec.Png

def M : Spec.Png.FilterType → PngFilter
  | .none => .none | .sub => .sub | .up => .up | .avg => .avg | .paeth => .paeth

theorem forall_uint8' (P : UInt8 → Prop) (h : ∀ i : Fin 256, P (UInt8.ofNat i.val)) : ∀ b, P b := by
  intro b
  have := h ⟨b.toNat, UInt8.toNat_lt b⟩
  simpa using this

theorem half_eq : ∀ p : UInt8, p / 2 = UInt8.ofNat (p.toNat / 2) := by
  apply forall_uint8'; decide +kernel

theorem paethPredict_eq (a b c : UInt8) : paethPredict a b c = paeth a b c := by
  simp [paethPredict, paethPredictO_eq]

theorem tabulateFrom_length (g : Nat → UInt8) : ∀ n i, (tabulateFrom g i n).length = n := by
  intro n; induction n with
  | zero => intro i; rfl
  | succ n ih => intro i; simp [tabulateFrom, ih]

theorem encodeRow_length (t : FilterType) (bpp : Nat) (prev cur : Bytes) :
    (encodeRow t bpp prev cur).length = cur.length := by
  simp [encodeRow, tabulateFrom_length]

theorem getD_take (l : Bytes) (i j : Nat) (h : j < i) : (l.take i)[j]? = l[j]? := by
  simp [h]

theorem rowPred_match (t : FilterType) (bpp : Nat) (hb : 1 ≤ bpp) (prev cur : Bytes) (i : Nat) (hi : i < cur.length) (x : UInt8) :
    rowPred (M t) (min bpp cur.length) prev (cur.take i) i x
      = pred t (leftOf cur bpp i) (prev.getD i 0) (leftOf prev bpp i) := by
  have hm0 : min bpp cur.length ≠ 0 := by omega
  by_cases hlt : i < bpp
  · have hlt' : i < min bpp cur.length := by omega
    cases t <;> simp [rowPred, M, pred, leftOf, hlt, hlt', paethPredict_eq, half_eq]
  · have hm : min bpp cur.length = bpp := by omega
    have hj : i - bpp < i := by omega
    cases t <;> simp [rowPred, M, pred, leftOf, hlt, hm, paethPredict_eq, getD_take _ _ _ hj, show bpp ≠ 0 by omega]

theorem rowLoop_tab (t : FilterType) (bpp : Nat) (hb : 1 ≤ bpp) (prev cur : Bytes) :
    ∀ k i, i + k = cur.length →
      rowLoop (M t) (min bpp cur.length) prev i (cur.take i) (tabulateFrom (filtAt t bpp prev cur) i k) = cur := by
  intro k
  induction k with
  | zero => intro i h; simp [tabulateFrom, rowLoop, show i = cur.length by omega]
  | succ k ih =>
    intro i h
    have hi : i < cur.length := by omega
    rw [tabulateFrom, rowLoop, rowPred_match t bpp hb prev cur i hi]
    have : cur.take i ++ [filtAt t bpp prev cur i + pred t (leftOf cur bpp i) (prev.getD i 0) (leftOf prev bpp i)] = cur.take (i + 1) := by
      rw [List.take_add_one]
      simp [filtAt, List.getD, List.getElem?_eq_getElem hi, UInt8.sub_add_cancel]
    rw [this]
    exact ih (i + 1) (by omega)

theorem row_rt' (t : FilterType) (bpp : Nat) (hb : 1 ≤ bpp) (prev cur : Bytes) :
    decodeRow (M t) bpp prev (encodeRow t bpp prev cur) = cur := by
  rw [decodeRow, encodeRow_length, encodeRow]
  exact rowLoop_tab t bpp hb prev cur cur.length 0 (by omega)

theorem ofByte_typeByte (t : FilterType) : PngFilter.ofByte (typeByte t) = some (M t) := by
  cases t <;> decide

theorem frameLoop_cons (bpp n : Nat) (t : UInt8) (rest prev : Bytes) (ft : PngFilter)
    (h : PngFilter.ofByte t = some ft) (hl : ¬ rest.length < n) :
    frameLoop bpp n (t :: rest) prev
      = (frameLoop bpp n (rest.drop n) (decodeRow ft bpp prev (rest.take n))).map (decodeRow ft bpp prev (rest.take n) ++ ·) := by
  rw [frameLoop.eq_def]
  simp only [h, hl, if_false]

def joinRows : List (FilterType × Bytes) → Bytes
  | [] => []
  | (_, r) :: rest => r ++ joinRows rest

theorem frameLoop_rt (bpp : Nat) (hb : 1 ≤ bpp) (n : Nat) :
    ∀ (rows : List (FilterType × Bytes)) (prev : Bytes), (∀ r ∈ rows, r.2.length = n) →
      frameLoop bpp n (encodeFrame bpp prev rows) prev = .ok (joinRows rows) := by
  intro rows
  induction rows with
  | nil => intro prev _; rw [encodeFrame, frameLoop.eq_def]; rfl
  | cons r rest ih =>
    intro prev h
    obtain ⟨t, row⟩ := r
    have hlen : row.length = n := h (t, row) (by simp)
    have hel : (encodeRow t bpp prev row).length = n := by rw [encodeRow_length, hlen]
    have h1 : ¬ ((encodeRow t bpp prev row ++ encodeFrame bpp row rest).length < n) := by
      rw [List.length_append]; omega
    rw [encodeFrame, List.cons_append, frameLoop_cons _ _ _ _ _ _ (ofByte_typeByte t) h1]
    have h2 : (encodeRow t bpp prev row ++ encodeFrame bpp row rest).take n = encodeRow t bpp prev row := by
      rw [← hel]; exact List.take_left' rfl
    have h3 : (encodeRow t bpp prev row ++ encodeFrame bpp row rest).drop n = encodeFrame bpp row rest := by
      rw [← hel]; exact List.drop_left' rfl
    rw [h2, h3, row_rt' t bpp hb, ih row (fun r hr => h r (by simp [hr]))]
    simp [Outcome.map, joinRows]

/-- the frame encoder of the PNG specification: the row above the first row is all zero -/
def encodeImage (bpp rowLen : Nat) (rows : List (FilterType × Bytes)) : Bytes :=
  encodeFrame bpp (List.replicate rowLen 0) rows

theorem frame_rt' (bpp ppr : Nat) (hb : 1 ≤ bpp) (hsz : bpp * ppr ≤ FLT_ISIZE_MAX)
    (rows : List (FilterType × Bytes)) (h : ∀ r ∈ rows, r.2.length = bpp * ppr) :
    decodeFrame (encodeImage bpp (bpp * ppr) rows) bpp ppr = .ok (joinRows rows) := by
  have h1 : ¬ bpp * ppr > FLT_USIZE_MAX := by simp only [FLT_ISIZE_MAX, FLT_USIZE_MAX] at *; omega
  have h2 : ¬ bpp * ppr > FLT_ISIZE_MAX := by omega
  simp only [decodeFrame, h1, h2, if_false, encodeImage]
  exact frameLoop_rt bpp hb _ rows _ h
end Lopdf
