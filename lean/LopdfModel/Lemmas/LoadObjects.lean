import LopdfModel.Thm.FileLoadFront
/-
  Generic lemmas for the object pass of `Reader::read`: association-list look-ups through
  `LObjects.insert`, `insertSortedO`, `XTable.sorted`, `mergeBlocks` with no blocks.
-/
namespace Lopdf.FileRT
open Lopdf Gen

theorem LObjects_get_insert (os : LObjects) (id id' : ObjId) (v : LObj) :
    (os.insert id v).get id' = if id = id' then some v else os.get id' := by
  induction os with
  | nil => simp [LObjects.insert, LObjects.get]
  | cons p rest ih =>
    obtain ⟨i, o⟩ := p
    by_cases h : i = id
    · subst h
      by_cases h' : i = id' <;> simp [LObjects.insert, LObjects.get, h']
    · by_cases h' : i = id'
      · subst h'
        simp [LObjects.insert, LObjects.get, h, Ne.symm h]
      · simp [LObjects.insert, LObjects.get, h, h', ih]

/-- look-up is not disturbed by where `insertSortedO` puts the pair (an equal key goes in front) -/
theorem Objects_get_insertSortedO (k : ObjId) (v : Obj) (l : Objects) (id : ObjId) :
    Objects.get (insertSortedO k v l) id = if k = id then some v else Objects.get l id := by
  induction l with
  | nil => simp [insertSortedO, Objects.get]
  | cons p rest ih =>
    obtain ⟨k', v'⟩ := p
    simp only [insertSortedO]
    split
    · simp [Objects.get]
    · rename_i hle
      have hne : k ≠ k' := by
        intro e; subst e
        apply hle
        simp [idLe]
      by_cases h1 : k' = id
      · subst h1
        simp [Objects.get, hne]
      · simp [Objects.get, h1, ih]

theorem Objects_get_foldr_sorted (l : List (ObjId × Obj)) (id : ObjId) :
    Objects.get (l.foldr (fun (p : ObjId × Obj) acc => insertSortedO p.1 p.2 acc) []) id = Objects.get l id := by
  induction l with
  | nil => rfl
  | cons p rest ih =>
    obtain ⟨k, v⟩ := p
    simp only [List.foldr_cons, Objects_get_insertSortedO, ih, Objects.get]

theorem Objects_get_map (os : LObjects) (g : ObjId × LObj → ObjId × Obj) (hg : ∀ p, (g p).1 = p.1) (id : ObjId) :
    Objects.get (os.map g) id = (os.get id).map fun lo => (g (id, lo)).2 := by
  induction os with
  | nil => rfl
  | cons p rest ih =>
    obtain ⟨i, lo⟩ := p
    have h1 := hg (i, lo)
    simp only at h1
    simp only [List.map_cons, LObjects.get]
    by_cases h : i = id
    · subst h
      have : g (i, lo) = (i, (g (i, lo)).2) := Prod.ext h1 rfl
      rw [this]
      simp [Objects.get]
    · have : g (i, lo) = (i, (g (i, lo)).2) := Prod.ext h1 rfl
      rw [this]
      simp [Objects.get, h, ih]

/-! ### sorted table -/

theorem mem_insertSorted (k : Nat) (v : XEntry) (l : XTable) (hk : ∀ q ∈ l, q.1 ≠ k) (p : Nat × XEntry) :
    p ∈ insertSorted k v l ↔ p = (k, v) ∨ p ∈ l := by
  induction l with
  | nil => simp [insertSorted]
  | cons q rest ih =>
    obtain ⟨k', v'⟩ := q
    have hne : ¬ k = k' := fun e => hk (k', v') (by simp) e.symm
    have ih' := ih (fun q hq => hk q (by simp [hq]))
    simp only [insertSorted, hne, if_false]
    split
    · simp
    · simp only [List.mem_cons, ih']
      constructor
      · rintro (h | h | h) <;> simp [h]
      · rintro (h | h | h) <;> simp [h]

/-- on a table with one binding per key, sorting keeps exactly the bindings -/
theorem mem_sorted (x : XTable) (hn : (x.map (·.1)).Nodup) : ∀ p : Nat × XEntry, p ∈ x.sorted ↔ p ∈ x := by
  unfold XTable.sorted
  induction x with
  | nil => intro p; simp
  | cons q rest ih =>
    intro p
    obtain ⟨k, v⟩ := q
    simp only [List.map_cons, List.nodup_cons] at hn
    have ih' := ih hn.2
    have hk : ∀ q ∈ List.foldr (fun (x : Nat × XEntry) acc => insertSorted x.1 x.2 acc) [] rest, q.1 ≠ k := by
      intro q hq e
      have hq' : q ∈ rest := (ih' q).mp hq
      exact hn.1 (e ▸ List.mem_map.mpr ⟨q, hq', rfl⟩)
    simp only [List.foldr_cons]
    rw [mem_insertSorted k v _ hk, ih' p, List.mem_cons]

theorem XTable_get_of_mem (t : XTable) (hn : (t.map (·.1)).Nodup) (k : Nat) (v : XEntry) (h : (k, v) ∈ t) :
    t.get k = some v := by
  induction t with
  | nil => simp at h
  | cons p rest ih =>
    obtain ⟨k', v'⟩ := p
    simp only [List.map_cons, List.nodup_cons] at hn
    simp only [List.mem_cons, Prod.mk.injEq] at h
    rcases h with ⟨h1, h2⟩ | h
    · subst h1; subst h2; simp [XTable.get]
    · have hne : k' ≠ k := by
        intro e; subst e
        exact hn.1 (List.mem_map.mpr ⟨(k', v), h, rfl⟩)
      simp [XTable.get, hne, ih hn.2 h]

theorem XTable_mem_of_get (t : XTable) (k : Nat) (v : XEntry) (h : t.get k = some v) : (k, v) ∈ t := by
  induction t with
  | nil => simp [XTable.get] at h
  | cons p rest ih =>
    obtain ⟨k', v'⟩ := p
    by_cases hk : k' = k
    · subst hk
      simp [XTable.get] at h
      subst h; simp
    · simp only [XTable.get, hk, if_false] at h
      simp [ih h]

theorem Objects_get_of_mem (objs : Objects) (hn : (objs.map (·.1.1)).Nodup) (p : ObjId × Obj) (h : p ∈ objs) :
    objs.get p.1 = some p.2 := by
  induction objs with
  | nil => simp at h
  | cons q rest ih =>
    obtain ⟨k', v'⟩ := q
    simp only [List.map_cons, List.nodup_cons] at hn
    simp only [List.mem_cons] at h
    rcases h with h | h
    · subst h; simp [Objects.get]
    · have hne : k' ≠ p.1 := by
        intro e
        apply hn.1
        rw [e]
        exact List.mem_map.mpr ⟨p, h, rfl⟩
      simp [Objects.get, hne, ih hn.2 h]

theorem Objects_mem_of_get (objs : Objects) (id : ObjId) (o : Obj) (h : objs.get id = some o) : (id, o) ∈ objs := by
  induction objs with
  | nil => simp [Objects.get] at h
  | cons q rest ih =>
    obtain ⟨k', v'⟩ := q
    by_cases hk : k' = id
    · subst hk
      simp [Objects.get] at h
      subst h; simp
    · simp only [Objects.get, hk, if_false] at h
      simp [ih h]

theorem mergeBlocksX_nil (x : XTable) (os : LObjects) : mergeBlocksX x os [] = os := by
  simp [mergeBlocksX, sortBlocks, mergeBlocks]

theorem permuteGo_nil (p : List Nat) : permuteGo [] p = [] := by
  induction p with
  | nil => rfl
  | cons i rest ih => simp [permuteGo, ih]

theorem permuteBlocks_nil (p : List Nat) : permuteBlocks [] p = [] := by
  simp [permuteBlocks, sortBlocks, permuteGo_nil]

end Lopdf.FileRT
