import LopdfModel.Lemmas.C09Ops
namespace Lopdf
open Gen

/-- the predictor stage does nothing: no parameter dictionary, or a predictor outside 10..=15 -/
def predictorInactive (params : Option Dict) : Prop :=
  match params with
  | none => True
  | some p => (predGeom p).active = false

theorem decompressPredictor_inactive (data : Bytes) (params : Option Dict) (h : predictorInactive params) :
    decompressPredictor data params = .ok data := by
  cases params with
  | none => rfl
  | some p => simp only [predictorInactive] at h; simp [decompressPredictor, h]

/-- filters of a chain, in decoding order -/
inductive Stage where | flate | lzw | a85
  deriving DecidableEq, Repr

def Stage.name : Stage → Bytes
  | .flate => F_FLATE | .lzw => F_LZW | .a85 => F_A85

/-- reference encoder of one stage (no predictor): the external encoders are parameters -/
def encStage (deflate : Bytes → Bytes) (lzwEnc : Bool → Bytes → Bytes) (early : Bool) : Stage → Bytes → Bytes
  | .flate, x => deflate x
  | .lzw, x => lzwEnc early x
  | .a85, x => Spec.A85.encode x

/-- content of a stream whose `Filter` array is `fs` (decoding order): the first filter is applied last -/
def encChain (deflate : Bytes → Bytes) (lzwEnc : Bool → Bytes → Bytes) (early : Bool) : List Stage → Bytes → Bytes
  | [], x => x
  | f :: fs, x => encStage deflate lzwEnc early f (encChain deflate lzwEnc early fs x)

theorem applyFilter_stage (ext : Ext) (deflate : Bytes → Bytes) (lzwEnc : Bool → Bytes → Bytes) (params : Option Dict)
    (hfl : ∀ x, ext.inflate (deflate x) = x) (hne : ∀ x, deflate x ≠ [])
    (hlzw : ∀ e x, ext.lzw e (lzwEnc e x) = x)
    (hp : predictorInactive params) (f : Stage) (y : Bytes) :
    applyFilter ext params f.name (encStage deflate lzwEnc (earlyChange params) f y) = .ok y := by
  cases f with
  | flate =>
    have : (deflate y).isEmpty = false := by
      cases h : deflate y with
      | nil => exact absurd h (hne y)
      | cons a b => rfl
    simp [applyFilter, Stage.name, encStage, this, hfl, decompressPredictor_inactive _ _ hp]
  | lzw =>
    have h1 : F_LZW ≠ F_FLATE := by decide
    simp [applyFilter, Stage.name, encStage, h1, hlzw, decompressPredictor_inactive _ _ hp]
  | a85 =>
    have h1 : F_A85 ≠ F_FLATE := by decide
    have h2 : F_A85 ≠ F_LZW := by decide
    simp [applyFilter, Stage.name, encStage, h1, h2, a85_rt]

/-- a final Flate / LZW stage with a PNG predictor -/
theorem applyFilter_png (ext : Ext) (deflate : Bytes → Bytes) (lzwEnc : Bool → Bytes → Bytes) (p : Dict)
    (hfl : ∀ x, ext.inflate (deflate x) = x) (hne : ∀ x, deflate x ≠ [])
    (hlzw : ∀ e x, ext.lzw e (lzwEnc e x) = x)
    (hact : (predGeom p).active = true)
    (hbits : (predGeom p).bits = 8 ∨ (predGeom p).bits = 16)
    (hsz : (predGeom p).bpp * (predGeom p).columns ≤ FLT_ISIZE_MAX)
    (hmul : (predGeom p).colors * (predGeom p).bits ≤ FLT_USIZE_MAX)
    (f : Stage) (hf : f ≠ .a85)
    (rows : List (Spec.Png.FilterType × Bytes))
    (hrows : ∀ r ∈ rows, r.2.length = Spec.Png.rowBytesSpec (predGeom p).columns (predGeom p).colors (predGeom p).bits) :
    applyFilter ext (some p) f.name
      (encStage deflate lzwEnc (earlyChange (some p)) f
        (encodeImage (Spec.Png.bppSpec (predGeom p).colors (predGeom p).bits)
          (Spec.Png.rowBytesSpec (predGeom p).columns (predGeom p).colors (predGeom p).bits) rows))
      = .ok (joinRows rows) := by
  have hcol : 1 ≤ (predGeom p).colors := by
    simp only [predGeom, COLORS_MIN]; omega
  obtain ⟨e1, e2⟩ := bpp_eq_spec' (predGeom p).colors (predGeom p).bits (predGeom p).columns hbits hcol
  have hbpp : (predGeom p).bpp = Spec.Png.bppSpec (predGeom p).colors (predGeom p).bits := e1
  have hb1 : 1 ≤ (predGeom p).bpp := by rw [hbpp]; simp [Spec.Png.bppSpec]; omega
  have key : ∀ data, data = encodeImage (Spec.Png.bppSpec (predGeom p).colors (predGeom p).bits)
          (Spec.Png.rowBytesSpec (predGeom p).columns (predGeom p).colors (predGeom p).bits) rows →
      decompressPredictor data (some p) = .ok (joinRows rows) := by
    intro data hd
    have hm : ¬ (predGeom p).colors * (predGeom p).bits > FLT_USIZE_MAX := by omega
    simp only [decompressPredictor, hact, if_true, hm, if_false]
    rw [hd, ← hbpp, ← e2]
    exact frame_rt' _ _ hb1 hsz rows (by intro r hr; rw [hrows r hr, ← e2]; rfl)
  cases f with
  | flate =>
    have : (deflate (encodeImage (Spec.Png.bppSpec (predGeom p).colors (predGeom p).bits)
          (Spec.Png.rowBytesSpec (predGeom p).columns (predGeom p).colors (predGeom p).bits) rows)).isEmpty = false := by
      cases h : deflate _ with
      | nil => exact absurd h (hne _)
      | cons a b => rfl
    simp only [applyFilter, Stage.name, encStage, this, if_true, hfl]
    exact key _ rfl
  | lzw =>
    have h1 : F_LZW ≠ F_FLATE := by decide
    simp only [applyFilter, Stage.name, encStage, h1, if_false, if_true, hlzw]
    exact key _ rfl
  | a85 => exact absurd rfl hf

/-! ### chains with PER-STAGE parameters (dictionary form: the same dictionary at every stage; array form:
the i-th element), predictors allowed at any stage -/

/-- geometry a stage's parameters denote (defaults when there are none) -/
def parmsGeom (p : Option Dict) : PredGeom := predGeom (p.getD [])

/-- one stage of an encoded chain: filter, the parameters it will be decoded with, and — when those activate a
PNG predictor — the rows of the image this stage's decoded output consists of -/
structure StageEnc where
  f : Stage
  p : Option Dict
  rows : Option (List (Spec.Png.FilterType × Bytes))

/-- reference encoder of a stage: PNG-filter the rows (if any), then the stage's own encoding -/
def encStageP (deflate : Bytes → Bytes) (lzwEnc : Bool → Bytes → Bytes) (c : StageEnc) (y : Bytes) : Bytes :=
  match c.rows with
  | none => encStage deflate lzwEnc (earlyChange c.p) c.f y
  | some rs =>
    encStage deflate lzwEnc (earlyChange c.p) c.f
      (encodeImage (Spec.Png.bppSpec (parmsGeom c.p).colors (parmsGeom c.p).bits)
        (Spec.Png.rowBytesSpec (parmsGeom c.p).columns (parmsGeom c.p).colors (parmsGeom c.p).bits) rs)

/-- the stage description is coherent with the data `y` the stage must decode to -/
def StageValid (c : StageEnc) (y : Bytes) : Prop :=
  match c.rows with
  | none => c.f = .a85 ∨ predictorInactive c.p
  | some rs =>
    ∃ d, c.p = some d ∧ c.f ≠ .a85 ∧ (predGeom d).active = true ∧
      ((predGeom d).bits = 8 ∨ (predGeom d).bits = 16) ∧
      (predGeom d).bpp * (predGeom d).columns ≤ FLT_ISIZE_MAX ∧
      (predGeom d).colors * (predGeom d).bits ≤ FLT_USIZE_MAX ∧
      (∀ r ∈ rs, r.2.length = Spec.Png.rowBytesSpec (predGeom d).columns (predGeom d).colors (predGeom d).bits) ∧
      y = joinRows rs

theorem applyFilter_stageP (ext : Ext) (deflate : Bytes → Bytes) (lzwEnc : Bool → Bytes → Bytes)
    (hfl : ∀ x, ext.inflate (deflate x) = x) (hne : ∀ x, deflate x ≠ [])
    (hlzw : ∀ e x, ext.lzw e (lzwEnc e x) = x)
    (c : StageEnc) (y : Bytes) (hv : StageValid c y) :
    applyFilter ext c.p c.f.name (encStageP deflate lzwEnc c y) = .ok y := by
  obtain ⟨f, p, rows⟩ := c
  cases rows with
  | none =>
    simp only [StageValid] at hv
    simp only [encStageP]
    rcases hv with hf | hp
    · subst hf
      have h1 : F_A85 ≠ F_FLATE := by decide
      have h2 : F_A85 ≠ F_LZW := by decide
      simp [applyFilter, Stage.name, encStage, h1, h2, a85_rt]
    · exact applyFilter_stage ext deflate lzwEnc p hfl hne hlzw hp f y
  | some rs =>
    simp only [StageValid] at hv
    obtain ⟨d, hp, hf, hact, hbits, hsz, hmul, hrows, hy⟩ := hv
    subst hp
    simp only [encStageP, parmsGeom, Option.getD]
    rw [hy]
    exact applyFilter_png ext deflate lzwEnc d hfl hne hlzw hact hbits hsz hmul f hf rs hrows

def encChainP (deflate : Bytes → Bytes) (lzwEnc : Bool → Bytes → Bytes) : List StageEnc → Bytes → Bytes
  | [], x => x
  | c :: cs, x => encStageP deflate lzwEnc c (encChainP deflate lzwEnc cs x)

def ChainValid (deflate : Bytes → Bytes) (lzwEnc : Bool → Bytes → Bytes) : List StageEnc → Bytes → Prop
  | [], _ => True
  | c :: cs, x => StageValid c (encChainP deflate lzwEnc cs x) ∧ ChainValid deflate lzwEnc cs x

/-- **chain round trip, any length, per-stage parameters, predictors at any stage** -/
theorem filterLoop_rtP (ext : Ext) (deflate : Bytes → Bytes) (lzwEnc : Bool → Bytes → Bytes)
    (hfl : ∀ x, ext.inflate (deflate x) = x) (hne : ∀ x, deflate x ≠ [])
    (hlzw : ∀ e x, ext.lzw e (lzwEnc e x) = x)
    (parms : Nat → Option Dict) (x : Bytes) :
    ∀ (cs : List StageEnc) (i : Nat), (∀ k (h : k < cs.length), parms (i + k) = cs[k].p) →
      ChainValid deflate lzwEnc cs x →
      filterLoop ext parms i (cs.map (fun c => c.f.name)) (encChainP deflate lzwEnc cs x) = .ok x := by
  intro cs
  induction cs with
  | nil => intro i _ _; rfl
  | cons c cs ih =>
    intro i hp hv
    simp only [List.map, encChainP, filterLoop]
    have h0 : parms i = c.p := by
      have := hp 0 (by simp)
      simpa [List.getElem_cons_zero] using this
    rw [h0, applyFilter_stageP ext deflate lzwEnc hfl hne hlzw c _ hv.1]
    simp only [Outcome.bind]
    apply ih (i + 1) _ hv.2
    intro k hk
    have := hp (k + 1) (by simp; omega)
    simpa [Nat.add_assoc, Nat.add_comm 1 k] using this

theorem stageParms_dict (d : Dict) (p : Dict) (i : Nat) (h : d.get K_DECODEPARMS = some (.dict p)) :
    stageParms d i = some p := by simp [stageParms, h]

theorem stageParms_arr (d : Dict) (items : List Obj) (i : Nat) (h : d.get K_DECODEPARMS = some (.arr items)) :
    stageParms d i = (items[i]?).bind Obj.asDict := by simp [stageParms, h]

theorem stageParms_none (d : Dict) (i : Nat) (h : d.get K_DECODEPARMS = none) : stageParms d i = none := by
  simp [stageParms, h]
end Lopdf
