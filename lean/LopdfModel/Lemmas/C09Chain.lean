import LopdfModel.Lemmas.C09Ops
namespace Lopdf
open Gen

/-- the predictor stage does nothing: no parameter dictionary, or a predictor outside 10..=15 -/
def predictorInactive (params : Option Dict) : Prop :=
  match params with
  | none => True
  | some p => (predGeom p).active = false

theorem decompressPredictor_inactive (data : Bytes) (params : Option Dict) (h : predictorInactive params) :
    decompressPredictor data params = .ok data := by
  cases params with
  | none => rfl
  | some p => simp only [predictorInactive] at h; simp [decompressPredictor, h]

/-- filters of a chain, in decoding order -/
inductive Stage where | flate | lzw | a85
  deriving DecidableEq, Repr

def Stage.name : Stage → Bytes
  | .flate => F_FLATE | .lzw => F_LZW | .a85 => F_A85

/-- reference encoder of one stage (no predictor): the external encoders are parameters -/
def encStage (deflate : Bytes → Bytes) (lzwEnc : Bool → Bytes → Bytes) (early : Bool) : Stage → Bytes → Bytes
  | .flate, x => deflate x
  | .lzw, x => lzwEnc early x
  | .a85, x => Spec.A85.encode x

/-- content of a stream whose `Filter` array is `fs` (decoding order): the first filter is applied last -/
def encChain (deflate : Bytes → Bytes) (lzwEnc : Bool → Bytes → Bytes) (early : Bool) : List Stage → Bytes → Bytes
  | [], x => x
  | f :: fs, x => encStage deflate lzwEnc early f (encChain deflate lzwEnc early fs x)

theorem applyFilter_stage (ext : Ext) (deflate : Bytes → Bytes) (lzwEnc : Bool → Bytes → Bytes) (params : Option Dict)
    (hfl : ∀ x, ext.inflate (deflate x) = x) (hne : ∀ x, deflate x ≠ [])
    (hlzw : ∀ e x, ext.lzw e (lzwEnc e x) = x)
    (hp : predictorInactive params) (f : Stage) (y : Bytes) :
    applyFilter ext params f.name (encStage deflate lzwEnc (earlyChange params) f y) = .ok y := by
  cases f with
  | flate =>
    have : (deflate y).isEmpty = false := by
      cases h : deflate y with
      | nil => exact absurd h (hne y)
      | cons a b => rfl
    simp [applyFilter, Stage.name, encStage, this, hfl, decompressPredictor_inactive _ _ hp]
  | lzw =>
    have h1 : F_LZW ≠ F_FLATE := by decide
    simp [applyFilter, Stage.name, encStage, h1, hlzw, decompressPredictor_inactive _ _ hp]
  | a85 =>
    have h1 : F_A85 ≠ F_FLATE := by decide
    have h2 : F_A85 ≠ F_LZW := by decide
    simp [applyFilter, Stage.name, encStage, h1, h2, a85_rt]

/-- **chain round trip, any length** (no active predictor) -/
theorem filterLoop_rt (ext : Ext) (deflate : Bytes → Bytes) (lzwEnc : Bool → Bytes → Bytes) (params : Option Dict)
    (hfl : ∀ x, ext.inflate (deflate x) = x) (hne : ∀ x, deflate x ≠ [])
    (hlzw : ∀ e x, ext.lzw e (lzwEnc e x) = x)
    (hp : predictorInactive params) (fs : List Stage) (x : Bytes) :
    filterLoop ext params (fs.map Stage.name) (encChain deflate lzwEnc (earlyChange params) fs x) = .ok x := by
  induction fs with
  | nil => rfl
  | cons f fs ih =>
    simp only [List.map, encChain, filterLoop]
    rw [applyFilter_stage ext deflate lzwEnc params hfl hne hlzw hp]
    exact ih

/-- a final Flate / LZW stage with a PNG predictor -/
theorem applyFilter_png (ext : Ext) (deflate : Bytes → Bytes) (lzwEnc : Bool → Bytes → Bytes) (p : Dict)
    (hfl : ∀ x, ext.inflate (deflate x) = x) (hne : ∀ x, deflate x ≠ [])
    (hlzw : ∀ e x, ext.lzw e (lzwEnc e x) = x)
    (hact : (predGeom p).active = true)
    (hbits : (predGeom p).bits = 8 ∨ (predGeom p).bits = 16)
    (hsz : (predGeom p).bpp * (predGeom p).columns ≤ FLT_ISIZE_MAX)
    (hmul : (predGeom p).colors * (predGeom p).bits ≤ FLT_USIZE_MAX)
    (f : Stage) (hf : f ≠ .a85)
    (rows : List (Spec.Png.FilterType × Bytes))
    (hrows : ∀ r ∈ rows, r.2.length = Spec.Png.rowBytesSpec (predGeom p).columns (predGeom p).colors (predGeom p).bits) :
    applyFilter ext (some p) f.name
      (encStage deflate lzwEnc (earlyChange (some p)) f
        (encodeImage (Spec.Png.bppSpec (predGeom p).colors (predGeom p).bits)
          (Spec.Png.rowBytesSpec (predGeom p).columns (predGeom p).colors (predGeom p).bits) rows))
      = .ok (joinRows rows) := by
  have hcol : 1 ≤ (predGeom p).colors := by
    simp only [predGeom, COLORS_MIN]; omega
  obtain ⟨e1, e2⟩ := bpp_eq_spec' (predGeom p).colors (predGeom p).bits (predGeom p).columns hbits hcol
  have hbpp : (predGeom p).bpp = Spec.Png.bppSpec (predGeom p).colors (predGeom p).bits := e1
  have hb1 : 1 ≤ (predGeom p).bpp := by rw [hbpp]; simp [Spec.Png.bppSpec]; omega
  have key : ∀ data, data = encodeImage (Spec.Png.bppSpec (predGeom p).colors (predGeom p).bits)
          (Spec.Png.rowBytesSpec (predGeom p).columns (predGeom p).colors (predGeom p).bits) rows →
      decompressPredictor data (some p) = .ok (joinRows rows) := by
    intro data hd
    have hm : ¬ (predGeom p).colors * (predGeom p).bits > FLT_USIZE_MAX := by omega
    simp only [decompressPredictor, hact, if_true, hm, if_false]
    rw [hd, ← hbpp, ← e2]
    exact frame_rt' _ _ hb1 hsz rows (by intro r hr; rw [hrows r hr, ← e2]; rfl)
  cases f with
  | flate =>
    have : (deflate (encodeImage (Spec.Png.bppSpec (predGeom p).colors (predGeom p).bits)
          (Spec.Png.rowBytesSpec (predGeom p).columns (predGeom p).colors (predGeom p).bits) rows)).isEmpty = false := by
      cases h : deflate _ with
      | nil => exact absurd h (hne _)
      | cons a b => rfl
    simp only [applyFilter, Stage.name, encStage, this, if_true, hfl]
    exact key _ rfl
  | lzw =>
    have h1 : F_LZW ≠ F_FLATE := by decide
    simp only [applyFilter, Stage.name, encStage, h1, if_false, if_true, hlzw]
    exact key _ rfl
  | a85 => exact absurd rfl hf
end Lopdf
