import LopdfModel.Lemmas.C09A85
import LopdfModel.Lemmas.C09Png
import LopdfModel.Lemmas.C09Dict
namespace Lopdf
open Gen

/-! no panic -/
theorem map_ne_panic {α β} (f : α → β) (o : Outcome α) (s : String) (h : ∀ s, o ≠ .panic s) : o.map f ≠ .panic s := by
  cases o with
  | ok a => simp [Outcome.map]
  | err e => simp [Outcome.map]
  | panic s' => exact absurd rfl (h s')

theorem a85Finish_no_panic (buf count : Nat) (s : String) : a85Finish buf count ≠ .panic s := by
  unfold a85Finish
  split
  · split <;> simp
  · simp

theorem a85Loop_no_panic : ∀ (input : Bytes) (buf count : Nat) (s : String), a85Loop input buf count ≠ .panic s := by
  intro input
  induction input with
  | nil => intro buf count s; rw [a85Loop]; exact a85Finish_no_panic buf count s
  | cons ch rest ih =>
    intro buf count s
    rw [a85Loop]
    split
    · split
      · simp
      · exact map_ne_panic _ _ s (fun s => ih _ _ s)
    · split
      · exact ih _ _ s
      · split
        · exact a85Finish_no_panic buf count s
        · split
          · simp
          · split
            · exact map_ne_panic _ _ s (fun s => ih _ _ s)
            · exact ih _ _ s

theorem a85_no_panic' (input : Bytes) (s : String) : a85Decode input ≠ .panic s :=
  a85Loop_no_panic _ _ _ s

/-! geometry -/
theorem bpp_eq_spec' (colors bits columns : Nat) (hb : bits = 8 ∨ bits = 16) (hc : 1 ≤ colors) :
    colors * bits / BPP_DIV = Spec.Png.bppSpec colors bits ∧
    colors * bits / BPP_DIV * columns = Spec.Png.rowBytesSpec columns colors bits := by
  simp only [BPP_DIV, Spec.Png.bppSpec, Spec.Png.rowBytesSpec]
  rcases hb with h | h <;> subst h
  · have e1 : colors * 8 / 8 = colors := by omega
    have e2 : (colors * 8 + 7) / 8 = colors := by omega
    have e3 : (columns * colors * 8 + 7) / 8 = columns * colors := by omega
    rw [e1, e2, e3, Nat.mul_comm]; omega
  · have e1 : colors * 16 / 8 = colors * 2 := by omega
    have e2 : (colors * 16 + 7) / 8 = colors * 2 := by omega
    have e3 : (columns * colors * 16 + 7) / 8 = columns * colors * 2 := by omega
    rw [e1, e2, e3]
    constructor
    · omega
    · rw [Nat.mul_comm, Nat.mul_assoc]

/-! dictionary lemmas -/
theorem Dict.get_set_same_c09 (d : Dict) (k : Bytes) (v : Obj) : (d.set k v).get k = some v := by
  induction d with
  | nil => simp [Dict.set, Dict.get]
  | cons e rest ih =>
    obtain ⟨k', v'⟩ := e
    by_cases h : k' = k
    · simp [Dict.set, Dict.get, h]
    · simp [Dict.set, Dict.get, h, ih]

theorem Dict.get_set_other_c09 (d : Dict) (k k2 : Bytes) (v : Obj) (h : k ≠ k2) : (d.set k v).get k2 = d.get k2 := by
  induction d with
  | nil => simp [Dict.set, Dict.get, h]
  | cons e rest ih =>
    obtain ⟨k', v'⟩ := e
    by_cases h1 : k' = k
    · subst h1; simp [Dict.set, Dict.get, h]
    · by_cases h2 : k' = k2
      · subst h2; simp [Dict.set, Dict.get, h1]
      · simp [Dict.set, Dict.get, h1, h2, ih]

/-- `Length` entry equals the content length -/
def LengthOk (s : Strm) : Prop := s.dict.get K_LENGTH = some (.int s.content.length)

theorem setContent_length (s : Strm) (c : Bytes) : LengthOk (setContent s c) ∧ (setContent s c).content = c := by
  simp [LengthOk, setContent, Dict.get_set_same_c09, lenObj]

theorem setPlainContent_length (s : Strm) (c : Bytes) : LengthOk (setPlainContent s c) ∧ (setPlainContent s c).content = c := by
  simp only [LengthOk, setPlainContent]
  have : SET_PLAIN_KEYS.getD 2 [] = K_LENGTH := by decide
  rw [this]
  simp [Dict.get_set_same_c09, lenObj]

theorem compress_cases (deflate : Bytes → Bytes) (s : Strm) :
    compress deflate s = s ∨
    (s.dict.has K_FILTER = false ∧ (deflate s.content).length + COMPRESS_MARGIN < s.content.length ∧
      compress deflate s = setContent { s with dict := (s.dict.remove K_DECODEPARMS).set K_FILTER (.name F_FLATE) } (deflate s.content)) := by
  unfold compress
  have e1 : COMPRESS_GUARD_KEY = K_FILTER := by decide
  have e2 : COMPRESS_SET_KEY = K_FILTER := by decide
  have e3 : COMPRESS_SET_NAME = F_FLATE := by decide
  have e4 : COMPRESS_REMOVE_KEY = K_DECODEPARMS := by decide
  rw [e1, e2, e3, e4]
  by_cases h : s.dict.has K_FILTER = true
  · simp [h]
  · simp only [h]
    by_cases h2 : (deflate s.content).length + COMPRESS_MARGIN < s.content.length
    · right; simp [h2]
    · left; simp [h2]

theorem compress_length (deflate : Bytes → Bytes) (s : Strm) :
    compress deflate s = s ∨ LengthOk (compress deflate s) := by
  rcases compress_cases deflate s with h | ⟨_, _, h⟩
  · left; exact h
  · right; rw [h]; exact (setContent_length _ _).1

theorem decompress_length (ext : Ext) (s s' : Strm) (h : decompress ext s = .ok s') : LengthOk s' := by
  unfold decompress at h
  cases hd : decompressedContent ext s with
  | ok data => rw [hd] at h; simp [Outcome.map] at h; rw [← h]; exact (setContent_length _ _).1
  | err e => rw [hd] at h; simp [Outcome.map] at h
  | panic p => rw [hd] at h; simp [Outcome.map] at h

theorem compress_not_longer' (deflate : Bytes → Bytes) (s : Strm) :
    (compress deflate s).content.length ≤ s.content.length ∧
    (compress deflate s ≠ s → (compress deflate s).content.length + COMPRESS_MARGIN < s.content.length) := by
  rcases compress_cases deflate s with h | ⟨_, hlt, h⟩
  · rw [h]; simp
  · rw [h]; simp only [setContent]; constructor
    · omega
    · intro _; exact hlt
end Lopdf
