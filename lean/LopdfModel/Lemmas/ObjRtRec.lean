import LopdfModel.Lemmas.ObjRtBase
/-
  Object-level round trip, part 2: well-formed direct objects, the normal form `norm`, the
  stop-context invariant `StopCtx` established by `write_array` / `write_dictionary` for the
  next item, and the mutual induction over arrays and dictionaries.
-/
namespace Lopdf.ObjRt
open Lopdf Gen

/-! ### reals -/

/-- the writer's test `value >= 2^63 || value < -2^63` on the `Display` text (see `writeReal`) -/
def realOutside (t : Bytes) : Bool :=
  match t with
  | 45 :: ds => ds.all isDigit && digitsVal ds > 9223372586610589696
  | ds => ds.all isDigit && digitsVal ds ≥ 9223371761976868864

theorem writeReal_eq (t : Bytes) : writeReal t = if realOutside t then t ++ [46, 48] else t := rfl

/-- the integer a sign-and-digits text denotes -/
def intOfText : Bytes → Int
  | 45 :: ds => -(Int.ofNat (digitsVal ds))
  | ds => Int.ofNat (digitsVal ds)

/-- what a written real reads back as: the same text when it has a fraction, the text with the
writer's `.0` when its value is outside the `i64` range, otherwise the integer it denotes -/
def normReal (t : Bytes) : Obj :=
  if t.contains 46 then .real t
  else if realOutside t then .real (t ++ [46, 48])
  else .int (intOfText t)

/-- sign and digits: the `Display` text of an integral-valued real -/
def IsIntText (t : Bytes) : Prop := ∃ (neg : Bool) (ds : Bytes), t = sgn neg ++ ds ∧ ds ≠ [] ∧ AllDigits ds

/-- admissible real texts: `[-]digits.digits*` or `[-]digits`; excluded are the integral texts
in the gap `-(2^63 + 2^39) ≤ v < -2^63`, which no `f32` prints (the spacing of `f32` there is 2^40)
and which the writer would emit as an integer that `i64::from_str` rejects. -/
def RealOK (t : Bytes) : Prop :=
  IsDecimal t ∨ ∃ (neg : Bool) (ds : Bytes), t = sgn neg ++ ds ∧ ds ≠ [] ∧ AllDigits ds ∧
    ¬ (neg = true ∧ I64_MAX + 1 < digitsVal ds ∧ digitsVal ds ≤ 9223372586610589696)

theorem all_isDigit_of (ds : Bytes) (h : AllDigits ds) : ds.all isDigit = true := by
  simpa [AllDigits] using h

theorem not_all_digits_dot (d1 d2 : Bytes) : (d1 ++ [46] ++ d2).all isDigit = false := by
  simp [show isDigit 46 = false by decide]

theorem realOutside_pos (a : UInt8) (as : Bytes) (h : a ≠ 45) :
    realOutside (a :: as) = ((a :: as).all isDigit && decide (digitsVal (a :: as) ≥ 9223371761976868864)) := by
  unfold realOutside
  split
  · rename_i heq; injection heq with e _; exact absurd e h
  · rfl

theorem intOfText_pos (a : UInt8) (as : Bytes) (h : a ≠ 45) : intOfText (a :: as) = Int.ofNat (digitsVal (a :: as)) := by
  unfold intOfText
  split
  · rename_i heq; injection heq with e _; exact absurd e h
  · rfl

theorem contains_dot_digits (neg : Bool) (ds : Bytes) (hd : AllDigits ds) : (sgn neg ++ ds).contains 46 = false := by
  have : ∀ b ∈ ds, b ≠ 46 := fun b hb => (digit_facts b (hd b hb)).2.2.2.2.2.1
  cases neg <;> simp [sgn] <;> intro hc <;> exact this 46 hc rfl

/-- the two shapes of a written real -/
theorem real_cases (t : Bytes) (h : RealOK t) :
    (IsDecimal (writeReal t) ∧ normReal t = .real (writeReal t)) ∨
    (∃ (neg : Bool) (ds : Bytes), writeReal t = sgn neg ++ ds ∧ ds ≠ [] ∧ AllDigits ds ∧
      (if neg then digitsVal ds ≤ I64_MAX + 1 else digitsVal ds ≤ I64_MAX) ∧
      normReal t = .int (if neg then -(Int.ofNat (digitsVal ds)) else Int.ofNat (digitsVal ds))) := by
  rcases h with h | ⟨neg, ds, rfl, hne, hd, hgap⟩
  · left
    obtain ⟨neg, d1, d2, rfl, hne, h1, h2⟩ := h.parts
    have hout : realOutside ((if neg = true then [45] else []) ++ d1 ++ [46] ++ d2) = false := by
      cases neg
      · obtain ⟨a, as, rfl⟩ := List.exists_cons_of_ne_nil hne
        have ha := digit_facts a (h1 a (by simp))
        simp only [Bool.false_eq_true, if_false, List.nil_append, List.cons_append]
        rw [realOutside_pos a _ ha.2.2.2.2.1]
        have := not_all_digits_dot (a :: as) d2
        simp only [List.cons_append] at this
        simp only [this, Bool.false_and]
      · simp only [if_true, List.cons_append, List.nil_append]
        unfold realOutside
        simp only [not_all_digits_dot d1 d2, Bool.false_and]
    rw [writeReal_eq, hout]
    refine ⟨⟨neg, d1, d2, rfl, hne, h1, h2⟩, ?_⟩
    unfold normReal
    simp
  · have hc := contains_dot_digits neg ds hd
    have hall := all_isDigit_of ds hd
    by_cases hout : realOutside (sgn neg ++ ds) = true
    · left
      rw [writeReal_eq, hout]
      simp only [if_true]
      refine ⟨⟨neg, ds, [48], by cases neg <;> simp [sgn], hne, hd, by intro b hb; simp at hb; subst hb; decide⟩, ?_⟩
      simp only [normReal, hc, hout, Bool.false_eq_true, if_false, if_true]
    · right
      have hout' : realOutside (sgn neg ++ ds) = false := by simpa using hout
      refine ⟨neg, ds, by rw [writeReal_eq, hout']; simp, hne, hd, ?_, ?_⟩
      · cases neg
        · obtain ⟨a, as, rfl⟩ := List.exists_cons_of_ne_nil hne
          have ha := digit_facts a (hd a (by simp))
          simp only [sgn, Bool.false_eq_true, if_false, List.nil_append] at hout' ⊢
          rw [realOutside_pos a _ ha.2.2.2.2.1, hall] at hout'
          simp at hout'
          simp [I64_MAX]; omega
        · simp only [sgn, if_true, List.cons_append, List.nil_append] at hout' ⊢
          unfold realOutside at hout'
          simp only [hall, Bool.true_and, decide_eq_false_iff_not] at hout'
          simp only [true_and] at hgap
          simp [I64_MAX] at hgap ⊢
          omega
      · unfold normReal
        simp only [hc, hout', Bool.false_eq_true, if_false]
        cases neg
        · obtain ⟨a, as, rfl⟩ := List.exists_cons_of_ne_nil hne
          have ha := digit_facts a (hd a (by simp))
          simp only [sgn, Bool.false_eq_true, if_false, List.nil_append]
          rw [intOfText_pos a _ ha.2.2.2.2.1]
        · simp [sgn, intOfText]

/-! ### well-formed direct objects, normal form, measures -/

/-- `literal_string` reads back what `write_string` wrote, whatever follows -/
def LitOK (s : Bytes) : Prop := ∀ rest, pLiteral (writeString s .lit ++ rest) = some (s, rest)

mutual
/-- direct objects in the scope of the round trip; `L` constrains literal strings -/
def WF (L : Bytes → Prop) : Obj → Prop
  | .null => True
  | .bool _ => True
  | .int i => -(I64_MAX : Int) - 1 ≤ i ∧ i ≤ I64_MAX
  | .real t => RealOK t
  | .name _ => True
  | .str s .lit => L s
  | .str _ .hex => True
  | .arr items => WFL L items
  | .dict es => (es.map (·.1)).Nodup ∧ WFD L es
  | .stream _ _ => False
  | .ref n g => n ≤ U32_MAX ∧ g ≤ U16_MAX
def WFL (L : Bytes → Prop) : List Obj → Prop
  | [] => True
  | o :: r => WF L o ∧ WFL L r
def WFD (L : Bytes → Prop) : List (Bytes × Obj) → Prop
  | [] => True
  | (_, v) :: r => WF L v ∧ WFD L r
end

mutual
/-- the object the parser returns for a written object -/
def norm : Obj → Obj
  | .real t => normReal t
  | .arr items => .arr (normL items)
  | .dict es => .dict (normD es)
  | .null => .null
  | .bool b => .bool b
  | .int i => .int i
  | .name n => .name n
  | .str s f => .str s f
  | .stream es c => .stream es c
  | .ref n g => .ref n g
def normL : List Obj → List Obj
  | [] => []
  | o :: r => norm o :: normL r
def normD : List (Bytes × Obj) → List (Bytes × Obj)
  | [] => []
  | (k, v) :: r => (k, norm v) :: normD r
end

mutual
/-- array / dictionary nesting height -/
def height : Obj → Nat
  | .arr items => 1 + heightL items
  | .dict es => 1 + heightD es
  | _ => 0
def heightL : List Obj → Nat
  | [] => 0
  | o :: r => max (height o) (heightL r)
def heightD : List (Bytes × Obj) → Nat
  | [] => 0
  | (_, v) :: r => max (height v) (heightD r)
end

mutual
/-- number of nodes: a sufficient amount of parser fuel -/
def size : Obj → Nat
  | .arr items => 1 + sizeL items
  | .dict es => 1 + sizeD es
  | _ => 1
def sizeL : List Obj → Nat
  | [] => 0
  | o :: r => size o + sizeL r
def sizeD : List (Bytes × Obj) → Nat
  | [] => 0
  | (_, v) :: r => size v + sizeD r
end

theorem size_pos (o : Obj) : 1 ≤ size o := by
  cases o <;> simp [size] <;> omega

theorem length_le_sizeL (items : List Obj) : items.length ≤ sizeL items := by
  induction items with
  | nil => simp [sizeL]
  | cons o r ih => have := size_pos o; simp [sizeL]; omega

theorem length_le_sizeD (es : List (Bytes × Obj)) : es.length ≤ sizeD es := by
  induction es with
  | nil => simp [sizeD]
  | cons e r ih => obtain ⟨k, v⟩ := e; have := size_pos v; simp [sizeD]; omega

def isIntObj : Obj → Bool
  | .int _ => true
  | _ => false

/-- what must follow a written object for it to be read back (`wr`: the grammar in use has the
`reference` alternative). Only numbers and names constrain the following text. -/
def Follow (wr : Bool) (o : Obj) (rest : Bytes) : Prop :=
  match o with
  | .int _ => IntStop0 rest ∧ (wr = true → refTail rest = none)
  | .real t => NoDigitAhead rest ∧
      (isIntObj (normReal t) = true → (∀ r, rest ≠ 46 :: r) ∧ (wr = true → refTail rest = none))
  | .name _ => NameStop rest
  | _ => True

/-- **the stop-context invariant**: what `write_array` / `write_dictionary` put after an item.
The first byte (if any) is white space or a delimiter; the reference look-ahead `space u16 space R`
fails on it; and after skipping `space` it does not start with `R`. -/
def StopCtx (rest : Bytes) : Prop :=
  NameStop rest ∧ refTail rest = none ∧ ∀ r, space rest ≠ 82 :: r

theorem regular_facts : ∀ b : UInt8, isRegular b = false → isDigit b = false ∧ b ≠ 46 ∧ b ≠ 82 := by
  apply forall_uint8; decide +kernel

theorem nameStop_noDigit {rest : Bytes} (h : NameStop rest) : NoDigitAhead rest :=
  fun b r e => (regular_facts b (h b r e)).1

theorem nameStop_noDot {rest : Bytes} (h : NameStop rest) : ∀ r, rest ≠ 46 :: r := by
  intro r e
  exact (regular_facts 46 (h 46 r e)).2.1 rfl

theorem StopCtx.follow {rest : Bytes} (h : StopCtx rest) (wr : Bool) (o : Obj) : Follow wr o rest := by
  cases o <;> simp only [Follow]
  · exact ⟨⟨(nameStop_noDigit h.1), (nameStop_noDot h.1)⟩, fun _ => h.2.1⟩
  · exact ⟨(nameStop_noDigit h.1), fun _ => ⟨(nameStop_noDot h.1), fun _ => h.2.1⟩⟩
  · exact h.1

/-- a delimiter (not white space, not `%`) starts a stop context -/
theorem stop_delim (b : UInt8) (r : Bytes) (hreg : isRegular b = false) (hw : isWhitespace b = false)
    (hp : b ≠ 37) : StopCtx (b :: r) := by
  have hf := regular_facts b hreg
  have hs : space (b :: r) = b :: r := space_head _ ⟨b, r, rfl, hw, hp⟩
  refine ⟨?_, ?_, ?_⟩
  · intro b' r' e; injection e with e _; subst e; exact hreg
  · unfold refTail; rw [hs]; exact refTailS_nondigit b r hf.1
  · intro r' e; rw [hs] at e; injection e with e _; exact hf.2.2 e

/-! ### first bytes of written objects -/

theorem natDigits_head (n : Nat) : ∃ a as, natDigits n = a :: as ∧ isDigit a = true := by
  obtain ⟨a, as, h⟩ := List.exists_cons_of_ne_nil (natDigits_ne_nil n)
  exact ⟨a, as, h, natDigits_all_digit n a (by rw [h]; simp)⟩

theorem writeInt_shape (i : Int) : ∃ (neg : Bool) (m : Nat), writeInt i = sgn neg ++ natDigits m ∧
    i = (if neg then -(Int.ofNat m) else Int.ofNat m) := by
  cases i with
  | ofNat n => exact ⟨false, n, by simp [writeInt, sgn], by simp⟩
  | negSucc n => exact ⟨true, n + 1, by simp [writeInt, sgn], by simp [Int.negSucc_eq]⟩

/-- shape of a written number -/
theorem sgn_digits_head (neg : Bool) (ds x : Bytes) (hne : ds ≠ []) (hd : AllDigits ds) :
    ∃ b r, sgn neg ++ ds ++ x = b :: r ∧ isWhitespace b = false ∧ b ≠ 37 ∧ b ≠ 82 := by
  cases neg
  · obtain ⟨a, as, rfl⟩ := List.exists_cons_of_ne_nil hne
    have ha := digit_facts a (hd a (by simp))
    exact ⟨a, as ++ x, by simp [sgn], ha.2.2.2.2.2.2.2.2.1, ha.2.2.2.2.2.2.2.1, ha.2.2.2.2.2.2.1⟩
  · exact ⟨45, ds ++ x, by simp [sgn], by decide, by decide, by decide⟩

theorem decimal_shape (t : Bytes) (h : IsDecimal t) : ∃ (neg : Bool) (d1 d2 : Bytes),
    t = sgn neg ++ d1 ++ 46 :: d2 ∧ d1 ≠ [] ∧ AllDigits d1 ∧ AllDigits d2 := by
  obtain ⟨neg, d1, d2, rfl, hne, h1, h2⟩ := h.parts
  exact ⟨neg, d1, d2, by simp [sgn], hne, h1, h2⟩

/-- every written well-formed object starts with a byte that is neither white space, `%` nor `R` -/
theorem head_obj (L : Bytes → Prop) (o : Obj) (x : Bytes) (h : WF L o) :
    ∃ b r, writeObj o ++ x = b :: r ∧ isWhitespace b = false ∧ b ≠ 37 ∧ b ≠ 82 := by
  cases o with
  | null => exact ⟨110, _, rfl, by decide, by decide, by decide⟩
  | bool b =>
    cases b
    · exact ⟨102, _, rfl, by decide, by decide, by decide⟩
    · exact ⟨116, _, rfl, by decide, by decide, by decide⟩
  | int i =>
    obtain ⟨neg, m, e, _⟩ := writeInt_shape i
    simp only [writeObj, e]
    exact sgn_digits_head neg _ x (natDigits_ne_nil m) (natDigits_all_digit m)
  | real t =>
    simp only [WF] at h
    simp only [writeObj]
    rcases real_cases t h with ⟨hd, _⟩ | ⟨neg, ds, e, hne, hd, _, _⟩
    · obtain ⟨neg, d1, d2, e, hne, h1, _⟩ := decimal_shape _ hd
      rw [e]
      obtain ⟨b, r, e2, hb⟩ := sgn_digits_head neg d1 (46 :: d2 ++ x) hne h1
      exact ⟨b, r, by rw [← e2]; simp, hb⟩
    · rw [e]; exact sgn_digits_head neg ds x hne hd
  | name n => exact ⟨47, _, rfl, by decide, by decide, by decide⟩
  | str s f =>
    cases f
    · exact ⟨40, _, rfl, by decide, by decide, by decide⟩
    · exact ⟨60, _, rfl, by decide, by decide, by decide⟩
  | arr items => exact ⟨91, _, rfl, by decide, by decide, by decide⟩
  | dict es => exact ⟨60, _, rfl, by decide, by decide, by decide⟩
  | stream es c => simp [WF] at h
  | ref n g =>
    simp only [writeObj, List.append_assoc]
    obtain ⟨b, r, e, hb⟩ := sgn_digits_head false (natDigits n) ([32] ++ (natDigits g ++ ([32, 82] ++ x)))
      (natDigits_ne_nil n) (natDigits_all_digit n)
    exact ⟨b, r, by rw [← e]; simp [sgn], hb⟩

theorem headTok_obj (L : Bytes → Prop) (o : Obj) (x : Bytes) (h : WF L o) : HeadTok (writeObj o ++ x) := by
  obtain ⟨b, r, e, h1, h2, _⟩ := head_obj L o x h
  exact ⟨b, r, e, h1, h2⟩

/-- objects written without a separator start with a delimiter -/
theorem nosep_head (L : Bytes → Prop) (o : Obj) (x : Bytes) (h : WF L o) (hs : needSeparator o = false) :
    ∃ b r, writeObj o ++ x = b :: r ∧ isRegular b = false ∧ isWhitespace b = false ∧ b ≠ 37 := by
  cases o with
  | null => simp [needSeparator] at hs
  | bool b => simp [needSeparator] at hs
  | int i => simp [needSeparator] at hs
  | real t => simp [needSeparator] at hs
  | ref n g => simp [needSeparator] at hs
  | name n => exact ⟨47, _, rfl, by decide, by decide, by decide⟩
  | str s f =>
    cases f
    · exact ⟨40, _, rfl, by decide, by decide, by decide⟩
    · exact ⟨60, _, rfl, by decide, by decide, by decide⟩
  | arr items => exact ⟨91, _, rfl, by decide, by decide, by decide⟩
  | dict es => exact ⟨60, _, rfl, by decide, by decide, by decide⟩
  | stream es c => simp [WF] at h

/-! ### the invariant is established for the next item -/

theorem refTailS_inttext (neg : Bool) (ds C : Bytes) (hne : ds ≠ []) (hd : AllDigits ds) (hC : StopCtx C) :
    refTailS (sgn neg ++ ds ++ C) = none := by
  cases neg
  · simp only [sgn, Bool.false_eq_true, if_false, List.nil_append]
    unfold refTailS
    rw [pUnsigned_digits _ ds C hne hd (nameStop_noDigit hC.1)]
    split
    · simp only [Option.bind_some]
      split
      · rename_i r3 heq; exact absurd heq (hC.2.2 r3)
      · rfl
    · rfl
  · simpa [sgn] using refTailS_nondigit 45 (ds ++ C) (by decide)

theorem refTailS_decimal (t C : Bytes) (h : IsDecimal t) : refTailS (t ++ C) = none := by
  obtain ⟨neg, d1, d2, rfl, hne, h1, _⟩ := decimal_shape t h
  cases neg
  · have hnd : NoDigitAhead (46 :: (d2 ++ C)) := by
      intro b r hb; injection hb with hb _; subst hb; decide
    have e : sgn false ++ d1 ++ 46 :: d2 ++ C = d1 ++ (46 :: (d2 ++ C)) := by simp [sgn]
    rw [e]
    unfold refTailS
    rw [pUnsigned_digits _ d1 _ hne h1 hnd]
    split
    · simp only [Option.bind_some]
      rw [space_head _ ⟨46, _, rfl, by decide, by decide⟩]
      simp
    · rfl
  · simpa [sgn] using refTailS_nondigit 45 (d1 ++ 46 :: d2 ++ C) (by decide)

theorem refTailS_ref (n g : Nat) (C : Bytes) :
    refTailS (natDigits n ++ [32] ++ natDigits g ++ [32, 82] ++ C) = none := by
  have e : natDigits n ++ [32] ++ natDigits g ++ [32, 82] ++ C =
      natDigits n ++ (32 :: (natDigits g ++ (32 :: 82 :: C))) := by simp
  rw [e]
  have hnd : NoDigitAhead (32 :: (natDigits g ++ (32 :: 82 :: C))) := by
    intro b r hb; injection hb with hb _; subst hb; decide
  unfold refTailS
  rw [pUnsigned_digits _ _ _ (natDigits_ne_nil n) (natDigits_all_digit n) hnd]
  split
  · simp only [Option.bind_some]
    obtain ⟨a, as, ha, hda⟩ := natDigits_head g
    have hf := digit_facts a hda
    rw [space_sp_head _ ⟨a, as ++ (32 :: 82 :: C), by rw [ha]; simp, hf.2.2.2.2.2.2.2.2.1, hf.2.2.2.2.2.2.2.1⟩]
    rw [ha]
    simp only [List.cons_append]
    split
    · rename_i r3 heq; injection heq with e1 _; exact absurd e1 hf.2.2.2.2.2.2.1
    · rfl
  · rfl

/-- an item that needs a separator, written after the blank, in front of a stop context -/
theorem stop_sep (L : Bytes → Prop) (o : Obj) (C : Bytes) (h : WF L o) (hs : needSeparator o = true)
    (hC : StopCtx C) : StopCtx (32 :: (writeObj o ++ C)) := by
  have hsp : space (32 :: (writeObj o ++ C)) = writeObj o ++ C := space_sp_head _ (headTok_obj L o C h)
  refine ⟨?_, ?_, ?_⟩
  · intro b r e; injection e with e _; subst e; decide
  · unfold refTail
    rw [hsp]
    cases o with
    | null => exact refTailS_nondigit 110 _ (by decide)
    | bool b =>
      cases b
      · exact refTailS_nondigit 102 _ (by decide)
      · exact refTailS_nondigit 116 _ (by decide)
    | int i =>
      obtain ⟨neg, m, e, _⟩ := writeInt_shape i
      simp only [writeObj, e]
      exact refTailS_inttext neg _ C (natDigits_ne_nil m) (natDigits_all_digit m) hC
    | real t =>
      simp only [WF] at h
      simp only [writeObj]
      rcases real_cases t h with ⟨hd, _⟩ | ⟨neg, ds, e, hne, hd, _, _⟩
      · exact refTailS_decimal _ C hd
      · rw [e]; exact refTailS_inttext neg ds C hne hd hC
    | ref n g => simp only [writeObj]; exact refTailS_ref n g C
    | name n => simp [needSeparator] at hs
    | str s f => simp [needSeparator] at hs
    | arr items => simp [needSeparator] at hs
    | dict es => simp [needSeparator] at hs
    | stream es c => simp [needSeparator] at hs
  · intro r e
    rw [hsp] at e
    obtain ⟨b, r', e', _, _, hb⟩ := head_obj L o C h
    rw [e'] at e; injection e with e _; exact hb e

theorem stop_nosep (L : Bytes → Prop) (o : Obj) (x : Bytes) (h : WF L o) (hs : needSeparator o = false) :
    StopCtx (writeObj o ++ x) := by
  obtain ⟨b, r, e, h1, h2, h3⟩ := nosep_head L o x h hs
  rw [e]; exact stop_delim b r h1 h2 h3

theorem writeArr_cons (first : Bool) (o : Obj) (r : List Obj) :
    writeArr first (o :: r) = (if !first && needSeparator o then [32] else []) ++ writeObj o ++ writeArr false r := by
  simp [writeArr]

/-- what follows an array item — the next items and `]` — is a stop context -/
theorem stop_arr (L : Bytes → Prop) (items : List Obj) (rest : Bytes) (h : WFL L items) :
    StopCtx (writeArr false items ++ 93 :: rest) := by
  induction items with
  | nil => simpa [writeArr] using stop_delim 93 rest (by decide) (by decide) (by decide)
  | cons o r ih =>
    simp only [WFL] at h
    rw [writeArr_cons]
    by_cases hs : needSeparator o = true
    · simp only [hs, Bool.not_false, Bool.and_self, if_true, List.cons_append, List.nil_append, List.append_assoc]
      exact stop_sep L o _ h.1 hs (ih h.2)
    · have hs' : needSeparator o = false := by simpa using hs
      simp only [hs', Bool.and_false, Bool.false_eq_true, if_false, List.nil_append, List.append_assoc]
      exact stop_nosep L o _ h.1 hs'

/-- `space` in front of the remaining items only removes the separating blank -/
theorem space_arr (L : Bytes → Prop) (items : List Obj) (rest : Bytes) (h : WFL L items) :
    space (writeArr false items ++ 93 :: rest) = writeArr true items ++ 93 :: rest := by
  cases items with
  | nil => simpa [writeArr] using space_head (93 :: rest) ⟨93, rest, rfl, by decide, by decide⟩
  | cons o r =>
    simp only [WFL] at h
    rw [writeArr_cons, writeArr_cons]
    by_cases hs : needSeparator o = true
    · simp only [hs, Bool.not_false, Bool.not_true, Bool.and_self, Bool.false_and, if_true, Bool.false_eq_true,
        if_false, List.cons_append, List.nil_append, List.append_assoc]
      exact space_sp_head _ (headTok_obj L o _ h.1)
    · have hs' : needSeparator o = false := by simpa using hs
      simp only [hs', Bool.and_false, Bool.false_eq_true, if_false, List.nil_append, List.append_assoc]
      exact space_head _ (headTok_obj L o _ h.1)

theorem writeDictBody_cons (k : Bytes) (v : Obj) (r : List (Bytes × Obj)) :
    writeDictBody ((k, v) :: r) =
      writeName k ++ (if needSeparator v then [32] else []) ++ writeObj v ++ writeDictBody r := by
  simp [writeDictBody]

/-- what follows a dictionary value — the next key or `>>` — is a stop context -/
theorem stop_dict (es : List (Bytes × Obj)) (rest : Bytes) :
    StopCtx (writeDictBody es ++ 62 :: 62 :: rest) ∧ HeadTok (writeDictBody es ++ 62 :: 62 :: rest) := by
  cases es with
  | nil =>
    exact ⟨by simpa [writeDictBody] using stop_delim 62 (62 :: rest) (by decide) (by decide) (by decide),
      ⟨62, 62 :: rest, by simp [writeDictBody], by decide, by decide⟩⟩
  | cons e r =>
    obtain ⟨k, v⟩ := e
    rw [writeDictBody_cons]
    simp only [writeName, List.cons_append, List.append_assoc]
    exact ⟨stop_delim 47 _ (by decide) (by decide) (by decide), ⟨47, _, rfl, by decide, by decide⟩⟩

/-! ### dictionaries are rebuilt in order -/

def setAll (acc : Dict) : List (Bytes × Obj) → Dict
  | [] => acc
  | (k, v) :: r => setAll (acc.set k v) r

theorem set_fresh (acc : Dict) (k : Bytes) (v : Obj) (h : k ∉ acc.map (·.1)) :
    Dict.set acc k v = acc ++ [(k, v)] := by
  induction acc with
  | nil => rfl
  | cons e r ih =>
    obtain ⟨k', v'⟩ := e
    simp only [List.map_cons, List.mem_cons, not_or] at h
    simp only [Dict.set, Ne.symm h.1, if_false, List.cons_append, ih h.2]

theorem setAll_nodup (es : List (Bytes × Obj)) : ∀ (acc : Dict), ((acc ++ es).map (·.1)).Nodup →
    setAll acc es = acc ++ es := by
  induction es with
  | nil => intro acc _; simp [setAll]
  | cons e r ih =>
    intro acc h
    obtain ⟨k, v⟩ := e
    have hk : k ∉ acc.map (·.1) := by
      intro hc
      simp only [List.map_append, List.map_cons] at h
      have := (List.nodup_append.mp h).2.2 k hc k (by simp)
      exact this rfl
    simp only [setAll]
    rw [set_fresh acc k v hk, ih (acc ++ [(k, v)]) (by simpa using h)]
    simp

theorem normD_keys (es : List (Bytes × Obj)) : (normD es).map (·.1) = es.map (·.1) := by
  induction es with
  | nil => rfl
  | cons e r ih => obtain ⟨k, v⟩ := e; simp [normD, ih]

/-! ### scalar objects -/

def isScalar : Obj → Bool
  | .arr _ | .dict _ | .stream _ _ => false
  | _ => true

/-- every scalar object through the scalar alternatives (`wr = false`: no references) -/
theorem scalar_core (L : Bytes → Prop) (hL : ∀ s, L s → LitOK s) (wr : Bool) (o : Obj) (rest : Bytes)
    (h : WF L o) (hsc : isScalar o = true) (hwr : wr = false → ∀ n g, o ≠ .ref n g)
    (hf : Follow wr o rest) : scalars wr (writeObj o ++ rest) = some (norm o, rest) := by
  cases o with
  | null => exact scalars_null wr rest
  | bool b =>
    cases b
    · exact scalars_false wr rest
    · exact scalars_true wr rest
  | int i =>
    obtain ⟨neg, m, e, hi⟩ := writeInt_shape i
    simp only [WF] at h
    simp only [Follow] at hf
    simp only [writeObj, e, norm]
    have := scalars_inttext wr neg (natDigits m) rest (natDigits_ne_nil m) (natDigits_all_digit m) hf.1 hf.2
      (by
        rw [digitsVal_natDigits]
        cases neg
        · simp at hi ⊢; omega
        · simp at hi ⊢; omega)
    rw [this, digitsVal_natDigits, hi]
  | real t =>
    simp only [WF] at h
    simp only [Follow] at hf
    simp only [writeObj, norm]
    rcases real_cases t h with ⟨hd, hn⟩ | ⟨neg, ds, e, hne, hd, hrange, hn⟩
    · rw [hn]; exact scalars_decimal wr _ rest hd hf.1
    · rw [hn] at hf ⊢
      have hf2 := hf.2 rfl
      rw [e]
      exact scalars_inttext wr neg ds rest hne hd ⟨hf.1, hf2.1⟩ hf2.2 hrange
  | name n => simp only [writeObj, norm]; exact scalars_name wr n rest hf
  | str s f =>
    cases f
    · simp only [WF] at h
      simp only [writeObj, norm]
      exact scalars_lit wr s rest (hL s h rest)
    · simp only [writeObj, norm]; exact scalars_hex wr s rest
  | arr items => simp [isScalar] at hsc
  | dict es => simp [isScalar] at hsc
  | stream es c => simp [isScalar] at hsc
  | ref n g =>
    cases wr
    · exact absurd rfl (hwr rfl n g)
    · simp only [WF] at h
      simp only [writeObj, norm]
      obtain ⟨a, as, ha, hda⟩ := natDigits_head n
      have hfa := digit_facts a hda
      have e : natDigits n ++ [32] ++ natDigits g ++ [32, 82] ++ rest =
          natDigits n ++ (32 :: (natDigits g ++ (32 :: 82 :: rest))) := by simp
      rw [e]
      have hnd : NoDigitAhead (32 :: (natDigits g ++ (32 :: 82 :: rest))) := by
        intro b r hb; injection hb with hb _; subst hb; decide
      have hnd2 : NoDigitAhead (32 :: 82 :: rest) := by
        intro b r hb; injection hb with hb _; subst hb; decide
      have hrt : refTail (32 :: (natDigits g ++ (32 :: 82 :: rest))) = some (g, rest) := by
        obtain ⟨c, cs, hc, hdc⟩ := natDigits_head g
        have hfc := digit_facts c hdc
        unfold refTail
        rw [space_sp_head _ ⟨c, cs ++ (32 :: 82 :: rest), by rw [hc]; simp, hfc.2.2.2.2.2.2.2.2.1, hfc.2.2.2.2.2.2.2.1⟩]
        unfold refTailS
        rw [pUnsigned_digits _ _ _ (natDigits_ne_nil g) (natDigits_all_digit g) hnd2, digitsVal_natDigits]
        simp only [h.2, if_true, Option.bind_some]
        rw [space_sp_head _ ⟨82, rest, rfl, by decide, by decide⟩]
        rfl
      have href : pReference (natDigits n ++ (32 :: (natDigits g ++ (32 :: 82 :: rest)))) = some (.ref n g, rest) := by
        rw [pReference_eq, pUnsigned_digits _ _ _ (natDigits_ne_nil n) (natDigits_all_digit n) hnd,
          digitsVal_natDigits]
        simp [h.1, hrt]
      have htags := tags_fail a (as ++ (32 :: (natDigits g ++ (32 :: 82 :: rest)))) hfa.1 hfa.2.1 hfa.2.2.1
      unfold scalars
      rw [ha] at href ⊢
      simp only [List.cons_append] at href htags ⊢
      rw [htags.1, htags.2.1, htags.2.2]
      simp [href]

end Lopdf.ObjRt
