import LopdfModel.Lemmas.LoadObjects
/-
  Objects in `BTreeMap` order: `insertSortedO` builds a strictly sorted list, and two strictly
  sorted lists with the same look-up function are equal.
-/
namespace Lopdf.FileRT
open Lopdf Gen

/-- strict order of object ids (number, then generation) -/
def idLt (a b : ObjId) : Prop := a.1 < b.1 ∨ (a.1 = b.1 ∧ a.2 < b.2)

/-- strictly ascending ids: the iteration order of `BTreeMap<ObjectId, Object>` -/
def SortedO (l : Objects) : Prop := l.Pairwise (fun p q => idLt p.1 q.1)

theorem idLt_trans {a b c : ObjId} (h1 : idLt a b) (h2 : idLt b c) : idLt a c := by
  unfold idLt at *; omega

theorem idLt_irrefl (a : ObjId) : ¬ idLt a a := by unfold idLt; omega

theorem idLt_of_idLe_ne {a b : ObjId} (h : idLe a b = true) (hne : a ≠ b) : idLt a b := by
  obtain ⟨a1, a2⟩ := a
  obtain ⟨b1, b2⟩ := b
  simp only [idLe, Bool.or_eq_true, decide_eq_true_eq, Bool.and_eq_true] at h
  unfold idLt
  simp only
  rcases h with h | ⟨h1, h2⟩
  · exact Or.inl h
  · refine Or.inr ⟨h1, ?_⟩
    have : a2 ≠ b2 := by intro e; apply hne; rw [h1, e]
    omega

theorem idLt_of_not_idLe {a b : ObjId} (h : ¬ idLe a b = true) : idLt b a := by
  obtain ⟨a1, a2⟩ := a
  obtain ⟨b1, b2⟩ := b
  simp only [idLe, Bool.or_eq_true, decide_eq_true_eq, Bool.and_eq_true, not_or, not_and] at h
  unfold idLt
  simp only
  omega

theorem idLt_trichotomy (a b : ObjId) : idLt a b ∨ a = b ∨ idLt b a := by
  obtain ⟨a1, a2⟩ := a
  obtain ⟨b1, b2⟩ := b
  unfold idLt
  simp only [Prod.mk.injEq]
  omega

theorem mem_insertSortedO (k : ObjId) (v : Obj) (l : Objects) (p : ObjId × Obj) :
    p ∈ insertSortedO k v l ↔ p = (k, v) ∨ p ∈ l := by
  induction l with
  | nil => simp [insertSortedO]
  | cons q rest ih =>
    obtain ⟨k', v'⟩ := q
    simp only [insertSortedO]
    split
    · simp
    · simp only [List.mem_cons, ih]
      constructor
      · rintro (h | h | h) <;> simp [h]
      · rintro (h | h | h) <;> simp [h]

theorem insertSortedO_sorted (k : ObjId) (v : Obj) (l : Objects) (hl : SortedO l) (hk : ∀ p ∈ l, p.1 ≠ k) :
    SortedO (insertSortedO k v l) := by
  induction l with
  | nil => simp [insertSortedO, SortedO]
  | cons q rest ih =>
    obtain ⟨k', v'⟩ := q
    unfold SortedO at hl
    rw [List.pairwise_cons] at hl
    obtain ⟨hhead, htail⟩ := hl
    have hne : k ≠ k' := fun e => hk (k', v') (by simp) e.symm
    simp only [insertSortedO]
    split
    · rename_i hle
      have hlt := idLt_of_idLe_ne hle hne
      unfold SortedO
      rw [List.pairwise_cons]
      refine ⟨?_, by rw [List.pairwise_cons]; exact ⟨hhead, htail⟩⟩
      intro q hq
      simp only [List.mem_cons] at hq
      rcases hq with rfl | hq
      · exact hlt
      · exact idLt_trans hlt (hhead q hq)
    · rename_i hle
      have hlt := idLt_of_not_idLe hle
      unfold SortedO
      rw [List.pairwise_cons]
      refine ⟨?_, ih htail (fun p hp => hk p (by simp [hp]))⟩
      intro q hq
      rw [mem_insertSortedO] at hq
      rcases hq with rfl | hq
      · exact hlt
      · exact hhead q hq

theorem foldr_insertSortedO_sorted (l : List (ObjId × Obj)) (hn : (l.map (·.1)).Nodup) :
    SortedO (l.foldr (fun (p : ObjId × Obj) acc => insertSortedO p.1 p.2 acc) []) ∧
    ∀ p, p ∈ l.foldr (fun (p : ObjId × Obj) acc => insertSortedO p.1 p.2 acc) [] ↔ p ∈ l := by
  induction l with
  | nil => simp [SortedO]
  | cons q rest ih =>
    obtain ⟨k, v⟩ := q
    simp only [List.map_cons, List.nodup_cons] at hn
    obtain ⟨ih1, ih2⟩ := ih hn.2
    simp only [List.foldr_cons]
    constructor
    · apply insertSortedO_sorted k v _ ih1
      intro p hp e
      exact hn.1 (e ▸ List.mem_map.mpr ⟨p, (ih2 p).mp hp, rfl⟩)
    · intro p
      rw [mem_insertSortedO, ih2 p, List.mem_cons]

theorem get_none_of_lt (l : Objects) (id : ObjId) (h : ∀ q ∈ l, idLt id q.1) : Objects.get l id = none := by
  induction l with
  | nil => rfl
  | cons q rest ih =>
    obtain ⟨k, v⟩ := q
    have hne : k ≠ id := by
      intro e
      have := h (k, v) (by simp)
      rw [e] at this
      exact idLt_irrefl id this
    simp only [Objects.get, hne, if_false]
    exact ih (fun q hq => h q (by simp [hq]))

/-- **extensionality**: strictly sorted object lists with the same look-up are the same list -/
theorem sorted_ext : ∀ (l1 l2 : Objects), SortedO l1 → SortedO l2 →
    (∀ id, Objects.get l1 id = Objects.get l2 id) → l1 = l2 := by
  intro l1
  induction l1 with
  | nil =>
    intro l2 _ _ hget
    cases l2 with
    | nil => rfl
    | cons q rest =>
      obtain ⟨k, v⟩ := q
      have := hget k
      simp [Objects.get] at this
  | cons a r1 ih =>
    intro l2 h1 h2 hget
    obtain ⟨ka, va⟩ := a
    unfold SortedO at h1
    rw [List.pairwise_cons] at h1
    obtain ⟨ha, hr1⟩ := h1
    cases l2 with
    | nil =>
      have := hget ka
      simp [Objects.get] at this
    | cons b r2 =>
      obtain ⟨kb, vb⟩ := b
      unfold SortedO at h2
      rw [List.pairwise_cons] at h2
      obtain ⟨hb, hr2⟩ := h2
      have hk : ka = kb := by
        rcases idLt_trichotomy ka kb with h | h | h
        · exfalso
          have g1 := hget ka
          have : Objects.get ((kb, vb) :: r2) ka = none := by
            apply get_none_of_lt
            intro q hq
            simp only [List.mem_cons] at hq
            rcases hq with rfl | hq
            · exact h
            · exact idLt_trans h (hb q hq)
          rw [this] at g1
          simp [Objects.get] at g1
        · exact h
        · exfalso
          have g1 := hget kb
          have : Objects.get ((ka, va) :: r1) kb = none := by
            apply get_none_of_lt
            intro q hq
            simp only [List.mem_cons] at hq
            rcases hq with rfl | hq
            · exact h
            · exact idLt_trans h (ha q hq)
          rw [this] at g1
          simp [Objects.get] at g1
      subst hk
      have hv : va = vb := by
        have := hget ka
        simpa [Objects.get] using this
      subst hv
      congr 1
      apply ih r2 hr1 hr2
      intro id
      by_cases hid : ka = id
      · subst hid
        rw [get_none_of_lt r1 ka ha, get_none_of_lt r2 ka hb]
      · have := hget id
        simpa [Objects.get, hid] using this

theorem SortedO_mapval (l : Objects) (f : Obj → Obj) (h : SortedO l) :
    SortedO (l.map fun p => (p.1, f p.2)) := by
  unfold SortedO at *
  rw [List.pairwise_map]
  exact h

/-! ### keys of the loaded objects stay distinct -/

theorem LObjects_keys_insert (os : LObjects) (id : ObjId) (v : LObj) :
    (os.insert id v).map (·.1) = if id ∈ os.map (·.1) then os.map (·.1) else os.map (·.1) ++ [id] := by
  induction os with
  | nil => simp [LObjects.insert]
  | cons p rest ih =>
    obtain ⟨q, w⟩ := p
    by_cases h : q = id
    · subst h; simp [LObjects.insert]
    · have h' : ¬ id = q := fun e => h e.symm
      simp only [LObjects.insert, h, if_false, List.map_cons, ih, List.mem_cons, h', false_or]
      split <;> simp

theorem LObjects_insert_nodup (os : LObjects) (id : ObjId) (v : LObj) (h : (os.map (·.1)).Nodup) :
    ((os.insert id v).map (·.1)).Nodup := by
  rw [LObjects_keys_insert]
  split
  · exact h
  · rename_i hk
    rw [List.nodup_append]
    refine ⟨h, by simp, ?_⟩
    intro a ha b hb
    simp at hb
    subst hb
    intro e; subst e; exact hk ha

end Lopdf.FileRT
