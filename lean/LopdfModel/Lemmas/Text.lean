import LopdfModel.Lemmas.Utf16
/-
  Helper lemmas for C16: UTF-8 round trip of the std model, generic facts about
  first-position lookup in a table, byte/unit plumbing of text strings.
-/
namespace Lopdf
open Spec

theorem forall_uint8 (P : UInt8 → Prop) (h : ∀ i : Fin 256, P (UInt8.ofNat i.val)) : ∀ b, P b := by
  intro b
  have := h ⟨b.toNat, UInt8.toNat_lt b⟩
  simpa using this

/-! ### UTF-8 -/

theorem dec8_nil : dec8 [] = some [] := by rw [dec8.eq_def]

theorem dec8_cons (b0 : Nat) (r0 : List Nat) : dec8 (b0 :: r0) =
    if b0 < 0x80 then (dec8 r0).map (b0 :: ·)
    else if b0 < 0xC2 then none
    else if b0 < 0xE0 then
      match r0 with
      | b1 :: r1 =>
        if isCont b1 then (dec8 r1).map (((b0 - 0xC0) * 64 + (b1 - 0x80)) :: ·) else none
      | _ => none
    else if b0 < 0xF0 then
      match r0 with
      | b1 :: b2 :: r2 =>
        if (if b0 = 0xE0 then 0xA0 else 0x80) ≤ b1 && b1 ≤ (if b0 = 0xED then 0x9F else 0xBF) && isCont b2 then
          (dec8 r2).map (((b0 - 0xE0) * 4096 + (b1 - 0x80) * 64 + (b2 - 0x80)) :: ·)
        else none
      | _ => none
    else if b0 < 0xF5 then
      match r0 with
      | b1 :: b2 :: b3 :: r3 =>
        if (if b0 = 0xF0 then 0x90 else 0x80) ≤ b1 && b1 ≤ (if b0 = 0xF4 then 0x8F else 0xBF)
            && isCont b2 && isCont b3 then
          (dec8 r3).map (((b0 - 0xF0) * 262144 + (b1 - 0x80) * 4096 + (b2 - 0x80) * 64 + (b3 - 0x80)) :: ·)
        else none
      | _ => none
    else none := by
  rw [dec8.eq_def]; rfl

theorem isCont_low6 (x : Nat) : isCont (0x80 + x % 64) = true := by
  simp [isCont]; omega

/-- one scalar, encoded, in front of anything, decodes to itself followed by the rest -/
theorem dec8_enc8 (c : Nat) (hc : Scalar c) (r : List Nat) :
    dec8 (enc8 c ++ r) = (dec8 r).map (c :: ·) := by
  unfold Scalar at hc
  unfold enc8
  by_cases h1 : c < 0x80
  · simp only [h1, if_true, List.singleton_append]
    rw [dec8_cons]; simp [h1]
  · by_cases h2 : c < 0x800
    · simp only [h1, h2, if_true, if_false, List.cons_append, List.nil_append]
      rw [dec8_cons]
      have a1 : ¬ (0xC0 + c / 64 < 0x80) := by omega
      have a2 : ¬ (0xC0 + c / 64 < 0xC2) := by omega
      have a3 : 0xC0 + c / 64 < 0xE0 := by omega
      have e : (0xC0 + c / 64 - 0xC0) * 64 + (0x80 + c % 64 - 0x80) = c := by omega
      simp only [a1, a2, a3, if_true, if_false, isCont_low6, e]
    · by_cases h3 : c < 0x10000
      · simp only [h1, h2, h3, if_true, if_false, List.cons_append, List.nil_append]
        rw [dec8_cons]
        have a1 : ¬ (0xE0 + c / 4096 < 0x80) := by omega
        have a2 : ¬ (0xE0 + c / 4096 < 0xC2) := by omega
        have a3 : ¬ (0xE0 + c / 4096 < 0xE0) := by omega
        have a4 : 0xE0 + c / 4096 < 0xF0 := by omega
        have lo : (if 0xE0 + c / 4096 = 0xE0 then 0xA0 else 0x80) ≤ 0x80 + c / 64 % 64 := by
          split <;> omega
        have hi : 0x80 + c / 64 % 64 ≤ (if 0xE0 + c / 4096 = 0xED then 0x9F else 0xBF) := by
          split <;> omega
        have e : (0xE0 + c / 4096 - 0xE0) * 4096 + (0x80 + c / 64 % 64 - 0x80) * 64 + (0x80 + c % 64 - 0x80) = c := by
          omega
        simp only [a1, a2, a3, a4, if_true, if_false, isCont_low6, lo, hi, decide_true, Bool.and_self, e]
      · simp only [h1, h2, h3, if_false, List.cons_append, List.nil_append]
        rw [dec8_cons]
        have a1 : ¬ (0xF0 + c / 262144 < 0x80) := by omega
        have a2 : ¬ (0xF0 + c / 262144 < 0xC2) := by omega
        have a3 : ¬ (0xF0 + c / 262144 < 0xE0) := by omega
        have a4 : ¬ (0xF0 + c / 262144 < 0xF0) := by omega
        have a5 : 0xF0 + c / 262144 < 0xF5 := by omega
        have lo : (if 0xF0 + c / 262144 = 0xF0 then 0x90 else 0x80) ≤ 0x80 + c / 4096 % 64 := by
          split <;> omega
        have hi : 0x80 + c / 4096 % 64 ≤ (if 0xF0 + c / 262144 = 0xF4 then 0x8F else 0xBF) := by
          split <;> omega
        have e : (0xF0 + c / 262144 - 0xF0) * 262144 + (0x80 + c / 4096 % 64 - 0x80) * 4096
            + (0x80 + c / 64 % 64 - 0x80) * 64 + (0x80 + c % 64 - 0x80) = c := by omega
        simp only [a1, a2, a3, a4, a5, if_true, if_false, isCont_low6, lo, hi, decide_true, Bool.and_self, e]

/-- **UTF-8 round trip of the std model**, for every list of Unicode scalar values -/
theorem utf8_encode_decode : ∀ (s : UStr), (∀ c ∈ s, Scalar c) → dec8 (enc8s s) = some s
  | [], _ => dec8_nil
  | c :: cs, h => by
    have ih := utf8_encode_decode cs (fun x hx => h x (by simp [hx]))
    simp only [enc8s]
    rw [dec8_enc8 c (h c (by simp)), ih]; rfl

theorem enc8_lt (c : Nat) (hc : Scalar c) : ∀ x ∈ enc8 c, x < 256 := by
  unfold Scalar at hc
  intro x hx
  unfold enc8 at hx
  split at hx
  · simp at hx; omega
  · split at hx
    · simp at hx; omega
    · split at hx
      · simp at hx; omega
      · simp at hx; omega

theorem enc8s_lt : ∀ (s : UStr), (∀ c ∈ s, Scalar c) → ∀ x ∈ enc8s s, x < 256
  | [], _ => by simp [enc8s]
  | c :: cs, h => by
    intro x hx
    simp only [enc8s, List.mem_append] at hx
    rcases hx with hx | hx
    · exact enc8_lt c (h c (by simp)) x hx
    · exact enc8s_lt cs (fun y hy => h y (by simp [hy])) x hx

theorem map_toUInt8_toNat : ∀ (l : List Nat), (∀ x ∈ l, x < 256) →
    (l.map Nat.toUInt8).map UInt8.toNat = l
  | [], _ => rfl
  | x :: xs, h => by
    have hx := h x (by simp)
    have ih := map_toUInt8_toNat xs (fun y hy => h y (by simp [hy]))
    simp only [List.map_cons, ih]
    congr 1
    simp [Nat.toUInt8, UInt8.toNat_ofNat']
    omega

/-! ### tables: first-position lookup -/

theorem position_get : ∀ (t : Table) (u i : Nat), position t u = some i → t[i]? = some (some u)
  | [], _, _, h => by simp [position] at h
  | c :: rest, u, i, h => by
    simp only [position] at h
    by_cases hc : c = some u
    · simp [hc] at h; subst h; simp [hc]
    · simp only [hc, if_false] at h
      cases hp : position rest u with
      | none => simp [hp] at h
      | some j =>
        simp [hp] at h; subst h
        simpa using position_get rest u j hp

theorem position_of_mem : ∀ (t : Table) (u : Nat), some u ∈ t → ∃ i, position t u = some i
  | [], _, h => by simp at h
  | c :: rest, u, h => by
    simp only [position]
    by_cases hc : c = some u
    · exact ⟨0, by simp [hc]⟩
    · have : some u ∈ rest := by
        simp only [List.mem_cons] at h
        rcases h with h | h
        · exact absurd h.symm hc
        · exact h
      obtain ⟨j, hj⟩ := position_of_mem rest u this
      exact ⟨j + 1, by simp [hc, hj]⟩

theorem cell_of_get (t : Table) (i : Nat) (u : Nat) (hl : t.length ≤ 256) (h : t[i]? = some (some u)) :
    t.cell i.toUInt8 = some u := by
  have hi : i < t.length := by
    rcases Nat.lt_or_ge i t.length with h' | h'
    · exact h'
    · rw [List.getElem?_eq_none h'] at h; simp at h
  have : i.toUInt8.toNat = i := by
    simp [Nat.toUInt8, UInt8.toNat_ofNat']; omega
  simp [Table.cell, this, h]

theorem cell_mem (t : Table) (b : UInt8) (u : Nat) (h : t.cell b = some u) : some u ∈ t := by
  unfold Table.cell at h
  cases hg : t[b.toNat]? with
  | none => simp [hg] at h
  | some c =>
    simp [hg] at h
    subst h
    exact List.mem_of_getElem? hg

theorem mem_bytesToUnits (t : Table) (bs : Bytes) : ∀ u ∈ bytesToUnits t bs, some u ∈ t := by
  intro u hu
  simp only [bytesToUnits, List.mem_filterMap] at hu
  obtain ⟨b, _, hb⟩ := hu
  exact cell_mem t b u hb

/-- generic: encoding then decoding units that all occur in the table returns them -/
theorem units_roundtrip (t : Table) (hl : t.length ≤ 256) :
    ∀ (us : List Nat), (∀ u ∈ us, some u ∈ t) → bytesToUnits t (unitsToBytes t us) = us
  | [], _ => rfl
  | u :: rest, h => by
    have ih := units_roundtrip t hl rest (fun x hx => h x (by simp [hx]))
    obtain ⟨i, hi⟩ := position_of_mem t u (h u (by simp))
    have hc := cell_of_get t i u hl (position_get t u i hi)
    simp only [unitsToBytes, bytesToUnits] at ih ⊢
    simp [hi, hc, ih]

/-! ### text strings: byte plumbing -/

theorem chunkUnits_unitsBe : ∀ (us : List Nat), (∀ u ∈ us, u < 0x10000) → chunkUnits (unitsBe us) = us
  | [], _ => rfl
  | u :: rest, h => by
    have hu := h u (by simp)
    have ih := chunkUnits_unitsBe rest (fun x hx => h x (by simp [hx]))
    simp only [unitsBe, beBytes, List.cons_append, List.nil_append, chunkUnits, ih]
    congr 1
    simp [Nat.toUInt8, UInt8.toNat_ofNat']
    omega

theorem chunkUnits_unitsBe_odd : ∀ (us : List Nat) (b : UInt8), (∀ u ∈ us, u < 0x10000) →
    chunkUnits (unitsBe us ++ [b]) = us ++ [b.toNat * 256]
  | [], b, _ => rfl
  | u :: rest, b, h => by
    have hu := h u (by simp)
    have ih := chunkUnits_unitsBe_odd rest b (fun x hx => h x (by simp [hx]))
    simp only [unitsBe, beBytes, List.cons_append, List.nil_append, chunkUnits, ih]
    congr 1
    simp [Nat.toUInt8, UInt8.toNat_ofNat']
    omega

end Lopdf
