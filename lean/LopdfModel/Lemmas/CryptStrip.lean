import LopdfModel.Lemmas.Crypt
/-
  `strip` forgets exactly what encryption may change: string bytes, stream data and the `Length`
  entry of stream dictionaries.  Everything the walkers DECIDE on (Type, Filter names, DecodeParms
  Name) factors through `strip`, and both walkers preserve `strip` — so the decision taken when
  decrypting is the one taken when encrypting.
-/
namespace Lopdf.Crypt
open Lopdf Lopdf.Gen

mutual
def strip : Obj → Obj
  | .str _ f => .str [] f
  | .arr items => .arr (stripList items)
  | .dict es => .dict (stripDict es)
  | .stream d _ => .stream (Dict.set (stripDict d) K_LENGTH (.int 0)) []
  | o => o
def stripList : List Obj → List Obj
  | [] => []
  | o :: rest => strip o :: stripList rest
def stripDict : List (Bytes × Obj) → List (Bytes × Obj)
  | [] => []
  | (k, o) :: rest => (k, strip o) :: stripDict rest
end

theorem get_stripDict (d : Dict) (q : Bytes) : Dict.get (stripDict d) q = (Dict.get d q).map strip := by
  induction d with
  | nil => simp [stripDict, Dict.get]
  | cons e rest ih =>
    obtain ⟨a, b⟩ := e
    by_cases h : a = q <;> simp [stripDict, Dict.get, h, ih]

theorem stripDict_set (d : Dict) (k : Bytes) (v : Obj) :
    stripDict (Dict.set d k v) = Dict.set (stripDict d) k (strip v) := by
  induction d with
  | nil => simp [stripDict, Dict.set]
  | cons e rest ih =>
    obtain ⟨a, b⟩ := e
    by_cases h : a = k <;> simp [stripDict, Dict.set, h, ih]

theorem asName_strip (o : Obj) : (strip o).asName = o.asName := by
  cases o <;> simp [strip, Obj.asName]

theorem asDict_strip (o : Obj) : (strip o).asDict = o.asDict.map stripDict := by
  cases o <;> simp [strip, Obj.asDict]

theorem allNames_strip (items : List Obj) : allNames (stripList items) = allNames items := by
  induction items with
  | nil => rfl
  | cons o rest ih => simp [stripList, allNames, asName_strip, ih]

theorem filterNames_strip (x : Option Obj) : filterNames (x.map strip) = filterNames x := by
  cases x with
  | none => rfl
  | some o => cases o <;> simp [strip, filterNames, allNames_strip]

theorem nameOfParams_strip (p : Dict) : nameOfParams (stripDict p) = nameOfParams p := by
  unfold nameOfParams
  rw [get_stripDict]
  cases Dict.get p K_NAME <;> simp [asName_strip]

theorem getElem?_stripList (items : List Obj) (i : Nat) : (stripList items)[i]? = (items[i]?).map strip := by
  induction items generalizing i with
  | nil => simp [stripList]
  | cons o rest ih => cases i <;> simp [stripList, ih]

theorem paramsName_strip (x : Option Obj) (idx : Nat) : paramsName (x.map strip) idx = paramsName x idx := by
  cases x with
  | none => rfl
  | some o =>
    cases o <;> simp [strip, paramsName, nameOfParams_strip]
    case arr items =>
      rw [getElem?_stripList]
      cases items[idx]? with
      | none => rfl
      | some e => simp [asDict_strip]; cases e.asDict <;> simp [nameOfParams_strip]

theorem overrideFilter_strip (st : EncState) (d : Dict) : overrideFilter st (stripDict d) = overrideFilter st d := by
  simp [overrideFilter, streamFilters, get_stripDict, filterNames_strip, paramsName_strip]

theorem streamCF_strip (st : EncState) (d : Dict) : streamCF st (stripDict d) = streamCF st d := by
  simp [streamCF, overrideFilter_strip]

theorem hasType_strip (d : Dict) (t : Bytes) : hasType (stripDict d) t = hasType d t := by
  unfold hasType
  rw [get_stripDict]
  cases Dict.get d K_TYPE <;> simp [asName_strip]

theorem getType_strip (d : Dict) : Dict.getType (stripDict d) = Dict.getType d := by
  unfold Dict.getType Dict.has
  rw [get_stripDict, get_stripDict]
  cases Dict.get d TYPE <;> cases Dict.get d LINEARIZED <;> simp [asName_strip]

/-- two dictionaries with the same `strip` are treated alike by every decision of the walkers -/
theorem decisions_of_strip (st : EncState) (d d' : Dict) (h : stripDict d' = stripDict d) (c c' : Bytes) :
    streamCF st d' = streamCF st d ∧ isXrefStream (.stream d' c') = isXrefStream (.stream d c) ∧
    metadataExempt st (.stream d' c') = metadataExempt st (.stream d c) ∧
    metadataExempt st (.dict d') = metadataExempt st (.dict d) := by
  have h1 := streamCF_strip st d'; have h2 := streamCF_strip st d
  have t1 := getType_strip d'; have t2 := getType_strip d
  have x1 := hasType_strip d' K_XREF; have x2 := hasType_strip d K_XREF
  rw [h] at h1 t1 x1
  refine ⟨by rw [← h1, h2], ?_, ?_, ?_⟩
  · simp [isXrefStream, ← x1, x2]
  · simp [metadataExempt, ← t1, t2]
  · simp [metadataExempt, ← t1, t2]

end Lopdf.Crypt
