import LopdfModel.Model.Text
import LopdfModel.Spec.Utf16
/-
  The model of `str::encode_utf16` / `String::from_utf16` against the relational
  specification `Spec.Utf16`, and the two round trips that follow.
-/
namespace Lopdf
open Spec

theorem fromUtf16_nil : stdFromUtf16 [] = some [] := by rw [stdFromUtf16.eq_def]

theorem fromUtf16_cons (u : Nat) (rest : List Nat) : stdFromUtf16 (u :: rest) =
    if u < 0xD800 || 0xE000 ≤ u then (stdFromUtf16 rest).map (u :: ·)
    else if 0xDC00 ≤ u then none
    else
      match rest with
      | [] => none
      | u2 :: rest2 =>
        if 0xDC00 ≤ u2 && u2 < 0xE000 then
          (stdFromUtf16 rest2).map ((0x10000 + (u - 0xD800) * 1024 + (u2 - 0xDC00)) :: ·)
        else none := by
  rw [stdFromUtf16.eq_def]; rfl

theorem isScalar_iff (c : Nat) : isScalar c = true ↔ Scalar c := by
  simp [isScalar, Scalar]

/-- the encoder produces the specified encoding form -/
theorem encode_spec : ∀ (s : UStr), (∀ c ∈ s, Scalar c) → Utf16 s (stdEncodeUtf16 s)
  | [], _ => Utf16.nil
  | c :: cs, h => by
    have hc : Scalar c := h c (by simp)
    have ih := encode_spec cs (fun x hx => h x (by simp [hx]))
    unfold Scalar at hc
    simp only [stdEncodeUtf16, encUnit]
    by_cases hlt : c < 0x10000
    · simp only [hlt, if_true, List.singleton_append]
      exact Utf16.bmp c cs _ (by omega) ih
    · simp only [hlt, if_false, List.cons_append, List.nil_append]
      have e : c = 0x10000 + ((0xD800 + (c - 0x10000) / 1024) - 0xD800) * 1024
                 + ((0xDC00 + (c - 0x10000) % 1024) - 0xDC00) := by omega
      have := Utf16.pair (0xD800 + (c - 0x10000) / 1024) (0xDC00 + (c - 0x10000) % 1024) cs _
        (by omega) (by omega) (by omega) (by omega) ih
      rw [← e] at this
      exact this

/-- the specified form is the only thing the encoder produces -/
theorem spec_encode {s us : List Nat} (h : Utf16 s us) : stdEncodeUtf16 s = us := by
  induction h with
  | nil => rfl
  | bmp c s us hc _ ih =>
    have : c < 0x10000 := by omega
    simp [stdEncodeUtf16, encUnit, this, ih]
  | pair hi lo s us h1 h2 h3 h4 _ ih =>
    have hn : ¬ (0x10000 + (hi - 0xD800) * 1024 + (lo - 0xDC00) < 0x10000) := by omega
    have e1 : 0xD800 + (0x10000 + (hi - 0xD800) * 1024 + (lo - 0xDC00) - 0x10000) / 1024 = hi := by omega
    have e2 : 0xDC00 + (0x10000 + (hi - 0xD800) * 1024 + (lo - 0xDC00) - 0x10000) % 1024 = lo := by omega
    simp only [stdEncodeUtf16, encUnit, hn, if_false, ih, List.cons_append, List.nil_append, e1, e2]

/-- every sequence in the relation consists of scalar values -/
theorem spec_scalars {s us : List Nat} (h : Utf16 s us) : ∀ c ∈ s, Scalar c := by
  induction h with
  | nil => simp
  | bmp c s us hc _ ih =>
    intro x hx; simp only [List.mem_cons] at hx
    rcases hx with hx | hx
    · rw [hx]; unfold Scalar; omega
    · exact ih x hx
  | pair hi lo s us h1 h2 h3 h4 _ ih =>
    intro x hx; simp only [List.mem_cons] at hx
    rcases hx with hx | hx
    · rw [hx]; unfold Scalar; omega
    · exact ih x hx

/-- the decoder accepts every specified form and returns its scalars -/
theorem spec_decode {s us : List Nat} (h : Utf16 s us) : stdFromUtf16 us = some s := by
  induction h with
  | nil => exact fromUtf16_nil
  | bmp c s us hc _ ih =>
    have : (c < 0xD800 || 0xE000 ≤ c) = true := by simp; omega
    simp [fromUtf16_cons, this, ih]
  | pair hi lo s us h1 h2 h3 h4 _ ih =>
    have a : ¬ (hi < 0xD800 ∨ 0xE000 ≤ hi) := by omega
    have b : ¬ (0xDC00 ≤ hi) := by omega
    simp [fromUtf16_cons, a, b, h3, h4, ih]

/-- whatever the decoder accepts (over 16-bit units) is a specified form -/
theorem decode_spec : ∀ (n : Nat) (us s : List Nat), us.length ≤ n → (∀ u ∈ us, u < 0x10000) →
    stdFromUtf16 us = some s → Utf16 s us := by
  intro n
  induction n with
  | zero =>
    intro us s hl _ h
    cases us with
    | nil => simp [fromUtf16_nil] at h; subst h; exact Utf16.nil
    | cons a b => simp at hl
  | succ n ih =>
    intro us s hl hu h
    cases us with
    | nil => simp [fromUtf16_nil] at h; subst h; exact Utf16.nil
    | cons u rest =>
      have hu0 : u < 0x10000 := hu u (by simp)
      simp only [fromUtf16_cons] at h
      by_cases h1 : (u < 0xD800 || 0xE000 ≤ u) = true
      · simp only [h1, if_true] at h
        cases hr : stdFromUtf16 rest with
        | none => simp [hr] at h
        | some s' =>
          simp [hr] at h; subst h
          have := ih rest s' (by simp at hl; omega) (fun x hx => hu x (by simp [hx])) hr
          simp at h1
          exact Utf16.bmp u s' rest (by omega) this
      · simp only [h1] at h
        simp at h1
        by_cases h2 : 0xDC00 ≤ u
        · simp [h2] at h
        · simp only [h2, if_false] at h
          cases rest with
          | nil => simp at h
          | cons u2 rest2 =>
            simp only at h
            by_cases h3 : (0xDC00 ≤ u2 && u2 < 0xE000) = true
            · simp only [h3, if_true] at h
              cases hr : stdFromUtf16 rest2 with
              | none => simp [hr] at h
              | some s' =>
                simp [hr] at h; subst h
                have := ih rest2 s' (by simp at hl; omega) (fun x hx => hu x (by simp [hx])) hr
                simp at h3
                exact Utf16.pair u u2 s' rest2 (by omega) (by omega) (by omega) (by omega) this
            · simp [h3] at h

/-- **UTF-16 round trip, encode then decode**, for every list of Unicode scalar values -/
theorem utf16_encode_decode (s : UStr) (h : ∀ c ∈ s, Scalar c) :
    stdFromUtf16 (stdEncodeUtf16 s) = some s :=
  spec_decode (encode_spec s h)

/-- **UTF-16 round trip, decode then encode**: accepted unit sequences are reproduced -/
theorem utf16_decode_encode (us s : List Nat) (hu : ∀ u ∈ us, u < 0x10000)
    (h : stdFromUtf16 us = some s) : stdEncodeUtf16 s = us :=
  spec_encode (decode_spec us.length us s (Nat.le_refl _) hu h)

theorem encode_units_lt (s : UStr) (h : ∀ c ∈ s, Scalar c) : ∀ u ∈ stdEncodeUtf16 s, u < 0x10000 := by
  induction s with
  | nil => simp [stdEncodeUtf16]
  | cons c cs ih =>
    have hc : Scalar c := h c (by simp)
    unfold Scalar at hc
    intro u hu
    simp only [stdEncodeUtf16, encUnit, List.mem_append] at hu
    rcases hu with hu | hu
    · by_cases hlt : c < 0x10000
      · simp [hlt] at hu; omega
      · simp [hlt] at hu; omega
    · exact ih (fun x hx => h x (by simp [hx])) u hu

/-- a unit sequence without surrogates decodes to itself -/
theorem decode_no_surrogate : ∀ (us : List Nat), (∀ u ∈ us, u < 0xD800 ∨ 0xE000 ≤ u) →
    stdFromUtf16 us = some us
  | [], _ => fromUtf16_nil
  | u :: rest, h => by
    have hu := h u (by simp)
    have ih := decode_no_surrogate rest (fun x hx => h x (by simp [hx]))
    have : (u < 0xD800 || 0xE000 ≤ u) = true := by simp; omega
    simp [fromUtf16_cons, this, ih]

end Lopdf
