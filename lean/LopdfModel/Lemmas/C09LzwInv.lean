import LopdfModel.Lemmas.C09LzwBits
namespace Lopdf.Spec.LzwC
open Lopdf

/-- one decoder step on a stream that starts with the `wd`-bit code `c` -/
theorem decLoop_step (ec : Bool) (wd c : Nat) (more : List Bool) (t : Table) (prev : Option Bytes)
    (hw : wd ≠ 0) (hc : c < 2 ^ wd) :
    decLoop ec (codeBits wd c ++ more) t wd prev =
      if c = CLEAR then decLoop ec more [] 9 none
      else if c = EOD then ([], .eod)
      else
        match prev with
        | none =>
          if c < 256 then ((c.toUInt8 :: (decLoop ec more t wd (some [c.toUInt8])).1), (decLoop ec more t wd (some [c.toUInt8])).2)
          else ([], .invalid)
        | some p =>
          match (if c < 256 then some [c.toUInt8]
                 else if c < FIRST + t.length then t[c - FIRST]?
                 else if c = FIRST + t.length then some (p ++ [p.headD 0])
                 else none : Option Bytes) with
          | none => ([], .invalid)
          | some e =>
            (e ++ (decLoop ec more (if FIRST + t.length < 4096 then t ++ [p ++ [e.headD 0]] else t)
                    (bump ec wd (FIRST + (if FIRST + t.length < 4096 then t ++ [p ++ [e.headD 0]] else t).length)) (some e)).1,
             (decLoop ec more (if FIRST + t.length < 4096 then t ++ [p ++ [e.headD 0]] else t)
                    (bump ec wd (FIRST + (if FIRST + t.length < 4096 then t ++ [p ++ [e.headD 0]] else t).length)) (some e)).2) := by
  rw [decLoop]
  simp only [hw, dite_false]
  split
  · rename_i hr; rw [readBits_codeBits wd c more hc] at hr; simp at hr
  · rename_i code rest hr
    rw [readBits_codeBits wd c more hc] at hr
    simp only [Option.some.injEq, Prod.mk.injEq] at hr
    obtain ⟨rfl, rfl⟩ := hr
    rfl

/-- encoder-side invariant: widths 9–12, every assigned code fits the width, the table is not full -/
def Inv (t : Table) (wd : Nat) : Prop := 9 ≤ wd ∧ wd ≤ 12 ∧ FIRST + t.length ≤ 2 ^ wd ∧ t.length < FULL

/-- the phrase the encoder holds can be emitted: a single byte or a table entry -/
def Emittable (t : Table) (w : Bytes) : Prop := w.length = 1 ∨ t.contains w = true

/-- the classic relation: the decoder's table is the encoder's table minus its newest entry, which is the
previously decoded phrase extended by the first byte of the phrase being encoded -/
def Rel (t td : Table) (wd : Nat) (prev : Option Bytes) (w : Bytes) : Prop :=
  match prev with
  | none => t = [] ∧ td = [] ∧ wd = 9
  | some p => p ≠ [] ∧ t = td ++ [p ++ [w.headD 0]]

theorem two_pow_cases (wd : Nat) (h1 : 9 ≤ wd) (h2 : wd ≤ 12) :
    (wd = 9 ∧ 2 ^ wd = 512) ∨ (wd = 10 ∧ 2 ^ wd = 1024) ∨ (wd = 11 ∧ 2 ^ wd = 2048) ∨ (wd = 12 ∧ 2 ^ wd = 4096) := by
  have : wd = 9 ∨ wd = 10 ∨ wd = 11 ∨ wd = 12 := by omega
  rcases this with rfl | rfl | rfl | rfl <;> simp

theorem Inv_next (ec : Bool) (t : Table) (wd : Nat) (e : Bytes) (h : Inv t wd) (hf : (t ++ [e]).length ≠ FULL) :
    Inv (t ++ [e]) (bump ec wd (FIRST + t.length)) := by
  obtain ⟨h1, h2, h3, h4⟩ := h
  simp only [List.length_append, List.length_singleton, FULL] at hf
  simp only [FIRST, FULL] at h3 h4
  unfold bump
  by_cases hc : wd < 12 ∧ FIRST + t.length + (if ec then 1 else 0) ≥ 2 ^ wd
  · simp only [hc, and_self, if_true]
    refine ⟨by omega, by omega, ?_, by simp only [List.length_append, List.length_singleton, FULL]; omega⟩
    simp only [List.length_append, List.length_singleton, FIRST, Nat.pow_succ]
    omega
  · simp only [hc, if_false]
    refine ⟨h1, h2, ?_, by simp only [List.length_append, List.length_singleton, FULL]; omega⟩
    simp only [List.length_append, List.length_singleton, FIRST]
    simp only [FIRST] at hc
    rcases two_pow_cases wd h1 h2 with ⟨rfl, hp⟩ | ⟨rfl, hp⟩ | ⟨rfl, hp⟩ | ⟨rfl, hp⟩ <;>
      (rw [hp] at hc h3 ⊢; cases ec <;> simp at hc <;> omega)

theorem codeOf_lt (t : Table) (w : Bytes) (he : Emittable t w) : codeOf t w < FIRST + t.length ∧
    codeOf t w ≠ CLEAR ∧ codeOf t w ≠ EOD := by
  unfold codeOf
  split
  · rename_i b; have := UInt8.toNat_lt b; simp only [FIRST, CLEAR, EOD]; omega
  · rename_i hne
    have hc : t.contains w = true := by
      rcases he with h | h
      · exfalso
        cases w with
        | nil => simp at h
        | cons b tl => cases tl with
          | nil => exact hne b rfl
          | cons c tl => simp at h
      · exact h
    have : t.findIdx (· == w) < t.length := by
      apply List.findIdx_lt_length_of_exists
      rw [List.contains_iff_exists_mem_beq] at hc
      obtain ⟨a, ha, hb⟩ := hc
      exact ⟨a, ha, by simpa using (eq_of_beq hb).symm⟩
    simp only [FIRST, CLEAR, EOD]; omega
end Lopdf.Spec.LzwC
