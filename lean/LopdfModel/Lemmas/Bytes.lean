import LopdfModel.Model.Basic
/-
  Generic helper lemmas: quantifiers over `UInt8` by complete enumeration, digits.
-/
namespace Lopdf

/-- `∀ b : UInt8, P b` from the 256 instances (a complete enumeration, closed by `decide +kernel`). -/
theorem forall_uint8 (P : UInt8 → Prop) (h : ∀ i : Fin 256, P (UInt8.ofNat i.val)) : ∀ b, P b := by
  intro b
  have := h ⟨b.toNat, UInt8.toNat_lt b⟩
  simpa using this

theorem digitsVal_append (a : Bytes) (d : UInt8) :
    digitsVal (a ++ [d]) = digitsVal a * 10 + (d - 48).toNat := by
  simp [digitsVal, List.foldl_append]

theorem natDigits_ne_nil (n : Nat) : natDigits n ≠ [] := by
  rw [natDigits]; split <;> simp

theorem digit_of_lt10 (k : Nat) (h : k < 10) : isDigit (48 + k.toUInt8) = true ∧ ((48 + k.toUInt8) - 48).toNat = k := by
  have : k = 0 ∨ k = 1 ∨ k = 2 ∨ k = 3 ∨ k = 4 ∨ k = 5 ∨ k = 6 ∨ k = 7 ∨ k = 8 ∨ k = 9 := by omega
  rcases this with h|h|h|h|h|h|h|h|h|h <;> subst h <;> decide

theorem natDigits_all_digit (n : Nat) : ∀ d ∈ natDigits n, isDigit d = true := by
  induction n using natDigits.induct with
  | case1 n h => rw [natDigits]; simp [h]; exact (digit_of_lt10 n h).1
  | case2 n h ih =>
    rw [natDigits]; simp [h]
    intro d hd
    rcases hd with hd | hd
    · exact ih d hd
    · subst hd; exact (digit_of_lt10 (n % 10) (Nat.mod_lt _ (by omega))).1

theorem digitsVal_natDigits (n : Nat) : digitsVal (natDigits n) = n := by
  induction n using natDigits.induct with
  | case1 n h => rw [natDigits]; simp [h, digitsVal]; exact (digit_of_lt10 n h).2
  | case2 n h ih =>
    rw [natDigits]; simp only [h, dite_false]
    rw [digitsVal_append, ih, (digit_of_lt10 (n % 10) (Nat.mod_lt _ (by omega))).2]
    omega

end Lopdf
