import LopdfModel.Lemmas.C09LzwEmit
namespace Lopdf.Spec.LzwC
open Lopdf

theorem Inv_init : Inv [] 9 := by simp [Inv, FIRST, FULL]

theorem dec_clear (ec : Bool) (wd : Nat) (more : List Bool) (t : Table) (prev : Option Bytes)
    (h1 : 9 ≤ wd) (h2 : wd ≤ 12) :
    decLoop ec (codeBits wd CLEAR ++ more) t wd prev = decLoop ec more [] 9 none := by
  have hc : CLEAR < 2 ^ wd := by
    rcases two_pow_cases wd h1 h2 with ⟨_, hp⟩ | ⟨_, hp⟩ | ⟨_, hp⟩ | ⟨_, hp⟩ <;> rw [hp] <;> decide
  rw [decLoop_step ec wd _ more t prev (by omega) hc]
  simp

theorem dec_eod (ec : Bool) (wd : Nat) (more : List Bool) (t : Table) (prev : Option Bytes)
    (h1 : 9 ≤ wd) (h2 : wd ≤ 12) :
    decLoop ec (codeBits wd EOD ++ more) t wd prev = ([], .eod) := by
  have hc : EOD < 2 ^ wd := by
    rcases two_pow_cases wd h1 h2 with ⟨_, hp⟩ | ⟨_, hp⟩ | ⟨_, hp⟩ | ⟨_, hp⟩ <;> rw [hp] <;> decide
  rw [decLoop_step ec wd _ more t prev (by omega) hc]
  simp [EOD, CLEAR]

theorem bump_range (ec : Bool) (wd n : Nat) (h1 : 9 ≤ wd) (h2 : wd ≤ 12) :
    9 ≤ bump ec wd n ∧ bump ec wd n ≤ 12 := by
  unfold bump
  by_cases hc : wd < 12 ∧ n + (if ec then 1 else 0) ≥ 2 ^ wd
  · simp only [hc, and_self, if_true]; omega
  · simp only [hc, if_false]; omega

/-- **main invariant**: decoding what the encoder loop writes yields the phrase in hand and all remaining input -/
theorem encLoop_dec (ec : Bool) : ∀ (rest : Bytes) (t td : Table) (wd : Nat) (prev : Option Bytes) (w : Bytes)
    (more : List Bool), Inv t wd → w ≠ [] → Emittable t w → Rel t td wd prev w →
    decLoop ec (encLoop ec rest t wd w ++ more) td wd prev = (w ++ rest, .eod) := by
  intro rest
  induction rest with
  | nil =>
    intro t td wd prev w more hI hw hE hR
    simp only [encLoop, List.append_assoc]
    rw [dec_emit ec t td wd prev w _ hI hw hE hR]
    obtain ⟨b1, b2⟩ := bump_range ec wd (FIRST + t.length) hI.1 hI.2.1
    rw [dec_eod ec _ more t (some w) b1 b2]
  | cons b rest ih =>
    intro t td wd prev w more hI hw hE hR
    rw [encLoop]
    by_cases hc : t.contains (w ++ [b]) = true
    · simp only [hc, if_true]
      have hR' : Rel t td wd prev (w ++ [b]) := by
        cases prev with
        | none => exact hR
        | some p =>
          simp only [Rel] at hR ⊢
          have : (w ++ [b]).headD 0 = w.headD 0 := by
            cases w with
            | nil => exact absurd rfl hw
            | cons a tl => rfl
          rw [this]; exact hR
      rw [ih t td wd prev (w ++ [b]) more hI (by simp) (Or.inr hc) hR']
      simp
    · simp only [hc, Bool.false_eq_true, if_false, List.append_assoc]
      rw [dec_emit ec t td wd prev w _ hI hw hE hR]
      obtain ⟨b1, b2⟩ := bump_range ec wd (FIRST + t.length) hI.1 hI.2.1
      by_cases hfull : (t ++ [w ++ [b]]).length = FULL
      · simp only [hfull, if_true, List.append_assoc]
        rw [dec_clear ec _ _ t (some w) b1 b2]
        rw [ih [] [] 9 none [b] more Inv_init (by simp) (Or.inl rfl) ⟨rfl, rfl, rfl⟩]
        simp
      · simp only [hfull, if_false]
        rw [ih (t ++ [w ++ [b]]) t _ (some w) [b] more (Inv_next ec t wd _ hI hfull) (by simp) (Or.inl rfl)
          ⟨hw, rfl⟩]
        simp

theorem encBits_dec (ec : Bool) (x : Bytes) (more : List Bool) :
    decLoop ec (encBits ec x ++ more) [] 9 none = (x, .eod) := by
  cases x with
  | nil =>
    simp only [encBits, List.append_assoc]
    rw [dec_clear ec 9 _ [] none (by omega) (by omega), dec_eod ec 9 _ [] none (by omega) (by omega)]
  | cons b rest =>
    simp only [encBits, List.append_assoc]
    rw [dec_clear ec 9 _ [] none (by omega) (by omega)]
    rw [encLoop_dec ec rest [] [] 9 none [b] more Inv_init (by simp) (Or.inl rfl) ⟨rfl, rfl, rfl⟩]
    simp

/-- **LZW round trip** for every byte string and both EarlyChange settings -/
theorem lzw_round_trip (ec : Bool) (x : Bytes) : lzwDecode ec (lzwEncode ec x) = some x := by
  obtain ⟨tail, ht⟩ := toBits_ofBits (encBits ec x)
  simp only [lzwDecode, lzwDecodeFull, lzwEncode, ht, encBits_dec]

theorem ofBits_toBits (bs : Bytes) : ofBits (toBits bs) = bs := by
  induction bs with
  | nil => rw [toBits, ofBits]; simp
  | cons b rest ih =>
    have hl : (codeBits 8 b.toNat).length = 8 := codeBits_length 8 _
    rw [toBits, ofBits]
    have hne : codeBits 8 b.toNat ++ toBits rest ≠ [] := by
      intro h; have := congrArg List.length h; simp [hl] at this
    simp only [hne, dite_false]
    have ht : (codeBits 8 b.toNat ++ toBits rest).take 8 = codeBits 8 b.toNat := by
      rw [← hl]; exact List.take_left' rfl
    have hd : (codeBits 8 b.toNat ++ toBits rest).drop 8 = toBits rest := by
      rw [← hl]; exact List.drop_left' rfl
    rw [ht, hd, ih]
    have hb := UInt8.toNat_lt b
    have : byteOfBits (codeBits 8 b.toNat) = b := by
      have hr := readBits_codeBits 8 b.toNat [] (by omega)
      simp only [List.append_nil] at hr
      simp [byteOfBits, hl, hr]
    rw [this]
end Lopdf.Spec.LzwC
