import LopdfModel.Model.CMap
/-
  C15 — lemmas about the model of `rangemap::RangeInclusiveMap`:
  representation invariant, lookup after insert, characterisation of the stored run.
-/
namespace Lopdf.CMap

variable {V : Type} [DecidableEq V]
set_option linter.unusedSectionVars false
set_option linter.unusedSimpArgs false

/-- first run containing the key (specification-side lookup) -/
def rmFind : RangeMap V → Nat → Option (Run V)
  | [], _ => none
  | (a, b, w) :: rest, c => if a ≤ c ∧ c ≤ b then some (a, b, w) else rmFind rest c

/-- value stored for a key -/
def rmVal (m : RangeMap V) (c : Nat) : Option V := (rmFind m c).map (·.2.2)

/-- Representation invariant, relative to a lower bound `k` and the value `p` of a run that
ends at `k - 1` (if any): runs are non-empty, strictly increasing, disjoint, and two
*adjacent* runs never carry the same value (runs are maximal). -/
def Inv : Nat → Option V → RangeMap V → Prop
  | _, _, [] => True
  | k, p, (a, b, w) :: rest => k ≤ a ∧ a ≤ b ∧ (a = k → p ≠ some w) ∧ Inv (b + 1) (some w) rest

theorem rmVal_nil (c : Nat) : rmVal ([] : RangeMap V) c = none := rfl

theorem rmVal_cons (a b : Nat) (w : V) (rest : RangeMap V) (c : Nat) :
    rmVal ((a, b, w) :: rest) c = if a ≤ c ∧ c ≤ b then some w else rmVal rest c := by
  by_cases h : a ≤ c ∧ c ≤ b <;> simp [rmVal, rmFind, h]

/-- below the lower bound nothing is stored -/
theorem rmFind_below {k : Nat} {p : Option V} {m : RangeMap V} (h : Inv k p m) {c : Nat} (hc : c < k) :
    rmFind m c = none := by
  induction m generalizing k p with
  | nil => rfl
  | cons r rest ih =>
    obtain ⟨a, b, w⟩ := r
    obtain ⟨h1, h2, _, h4⟩ := h
    unfold rmFind
    have : ¬ (a ≤ c ∧ c ≤ b) := by omega
    simp only [this, if_false]
    exact ih h4 (by omega)

theorem rmVal_below {k : Nat} {p : Option V} {m : RangeMap V} (h : Inv k p m) {c : Nat} (hc : c < k) :
    rmVal m c = none := by
  unfold rmVal; rw [rmFind_below h hc]; rfl

theorem rmLastLE_below {k : Nat} {p : Option V} {m : RangeMap V} (h : Inv k p m) {c : Nat} (hc : c < k) :
    rmLastLE m c = none := by
  induction m generalizing k p with
  | nil => rfl
  | cons r rest ih =>
    obtain ⟨a, b, w⟩ := r
    obtain ⟨h1, h2, _, h4⟩ := h
    unfold rmLastLE
    have : ¬ a ≤ c := by omega
    simp only [this, if_false]
    exact ih h4 (by omega)

/-- On a map satisfying the invariant, `get_key_value` (last run starting at or before the
key, if it contains the key) finds exactly the run containing the key. -/
theorem rmGetKV_eq_find {k : Nat} {p : Option V} {m : RangeMap V} (h : Inv k p m) (c : Nat) :
    rmGetKV m c = rmFind m c := by
  induction m generalizing k p with
  | nil => rfl
  | cons r rest ih =>
    obtain ⟨a, b, w⟩ := r
    obtain ⟨h1, h2, h3, h4⟩ := h
    have ih' := ih h4
    unfold rmGetKV at ih' ⊢
    unfold rmLastLE rmFind
    by_cases hac : a ≤ c
    · by_cases hcb : c ≤ b
      · have hb : rmLastLE rest c = none := rmLastLE_below h4 (by omega)
        simp [hac, hcb, hb]
      · simp only [hac, hcb, if_true, and_false, if_false]
        rw [← ih']
        cases hl : rmLastLE rest c with
        | none => simp [hcb]
        | some r' => simp
    · have hb : rmLastLE rest c = none := rmLastLE_below h4 (by omega)
      have hf : rmFind rest c = none := rmFind_below h4 (by omega)
      simp [hac, hb, hf]

/-- The invariant is preserved by `insert` (generalised over the lower bound so that the
induction goes through the "adopt" and "truncate" branches). -/
theorem inv_insert_gen (m : RangeMap V) :
    ∀ (j : Nat) (q : Option V) (k : Nat) (p : Option V) (lo hi : Nat) (v : V),
      Inv j q m → lo ≤ hi → k ≤ lo → j ≤ hi + 1 → (lo = k → p ≠ some v) →
      (j ≤ lo → j = k ∧ q = p) → Inv k p (rmInsert m lo hi v) := by
  induction m with
  | nil =>
    intro j q k p lo hi v _ hlh hk _ hp _
    exact ⟨hk, hlh, hp, trivial⟩
  | cons r rest ih =>
    obtain ⟨a, b, w⟩ := r
    intro j q k p lo hi v hinv hlh hk hj hp hjk
    obtain ⟨h1, h2, h3, h4⟩ := hinv
    unfold rmInsert
    by_cases c1 : b + 1 < lo
    · simp only [c1, if_true]
      have ⟨e1, e2⟩ := hjk (by omega)
      subst e1; subst e2
      refine ⟨h1, h2, h3, ?_⟩
      exact ih (b + 1) (some w) (b + 1) (some w) lo hi v h4 hlh (by omega) (by omega) (by omega) (fun _ => ⟨rfl, rfl⟩)
    · simp only [c1, if_false]
      by_cases c2 : hi + 1 < a
      · simp only [c2, if_true]
        exact ⟨hk, hlh, hp, by omega, h2, by omega, h4⟩
      · simp only [c2, if_false]
        by_cases c3 : w = v
        · simp only [c3, if_true]
          subst c3
          refine ih (b + 1) (some w) k p (min a lo) (max b hi) w h4 (by omega) ?_ (by omega) ?_ (by omega)
          · by_cases hal : a < lo
            · have ⟨e1, _⟩ := hjk (by omega); omega
            · omega
          · intro hmin
            by_cases hal : a < lo
            · have ⟨e1, e2⟩ := hjk (by omega)
              subst e1; subst e2
              exact h3 (by omega)
            · exact hp (by omega)
        · simp only [c3, if_false]
          by_cases c4 : a < lo
          · simp only [c4, if_true]
            have ⟨e1, e2⟩ := hjk (by omega)
            subst e1; subst e2
            by_cases c5 : hi < b
            · simp only [c5, if_true]
              have e : lo - 1 + 1 = lo := by omega
              refine ⟨h1, by omega, h3, ?_⟩
              rw [e]
              exact ⟨Nat.le_refl _, hlh, fun _ hh => c3 (Option.some.inj hh), Nat.le_refl _, by omega,
                fun _ hh => c3 (Option.some.inj hh).symm, h4⟩
            · simp only [c5, if_false]
              refine ⟨h1, by omega, h3, ?_⟩
              have e : lo - 1 + 1 = lo := by omega
              rw [e]
              exact ih (b + 1) (some w) lo (some w) lo hi v h4 hlh (Nat.le_refl _) (by omega)
                (fun _ hh => c3 (Option.some.inj hh)) (fun hle => ⟨by omega, rfl⟩)
          · simp only [c4, if_false]
            by_cases c5 : hi < b
            · simp only [c5, if_true]
              exact ⟨hk, hlh, hp, Nat.le_refl _, by omega, fun _ hh => c3 (Option.some.inj hh).symm, h4⟩
            · simp only [c5, if_false]
              exact ih (b + 1) (some w) k p lo hi v h4 hlh hk (by omega) hp (fun hle => by omega)

/-- **Representation invariant** of the range map is preserved by `insert`. -/
theorem rm_inv_insert {m : RangeMap V} (h : Inv 0 none m) {lo hi : Nat} (hlh : lo ≤ hi) (v : V) :
    Inv 0 none (rmInsert m lo hi v) :=
  inv_insert_gen m 0 none 0 none lo hi v h hlh (Nat.zero_le _) (Nat.zero_le _) (fun _ => by simp)
    (fun _ => ⟨rfl, rfl⟩)

/-- **Lookup after insert** — for every map, range and key: the new value inside the
inserted range, the old value outside. (Needs `lo ≤ hi` and the invariant only to know
runs are non-empty.) -/
theorem rmVal_insert_gen (m : RangeMap V) :
    ∀ (j : Nat) (q : Option V) (lo hi : Nat) (v : V) (c : Nat), Inv j q m → lo ≤ hi →
      rmVal (rmInsert m lo hi v) c = if lo ≤ c ∧ c ≤ hi then some v else rmVal m c := by
  induction m with
  | nil =>
    intro j q lo hi v c _ _
    unfold rmInsert
    rw [rmVal_cons, rmVal_nil]
  | cons r rest ih =>
    obtain ⟨a, b, w⟩ := r
    intro j q lo hi v c hinv hlh
    obtain ⟨h1, h2, h3, h4⟩ := hinv
    unfold rmInsert
    by_cases c1 : b + 1 < lo
    · simp only [c1, if_true]
      rw [rmVal_cons, rmVal_cons, ih _ _ lo hi v c h4 hlh]
      by_cases hc : a ≤ c ∧ c ≤ b
      · have : ¬ (lo ≤ c ∧ c ≤ hi) := by omega
        simp [hc, this]
      · simp [hc]
    · simp only [c1, if_false]
      by_cases c2 : hi + 1 < a
      · simp only [c2, if_true]
        rw [rmVal_cons]
      · simp only [c2, if_false]
        by_cases c3 : w = v
        · simp only [c3, if_true]
          subst c3
          rw [ih _ _ (min a lo) (max b hi) w c h4 (by omega), rmVal_cons]
          by_cases hc : lo ≤ c ∧ c ≤ hi
          · have : min a lo ≤ c ∧ c ≤ max b hi := by omega
            simp [hc, this]
          · by_cases hc' : a ≤ c ∧ c ≤ b
            · have : min a lo ≤ c ∧ c ≤ max b hi := by omega
              simp [hc, hc', this]
            · have : ¬ (min a lo ≤ c ∧ c ≤ max b hi) := by omega
              simp [hc, hc', this]
        · simp only [c3, if_false]
          have hrest : ∀ x, x ≤ b → rmVal rest x = none := fun x hx => rmVal_below h4 (by omega)
          by_cases c4 : a < lo
          · simp only [c4, if_true]
            by_cases c5 : hi < b
            · simp only [c5, if_true]
              rw [rmVal_cons, rmVal_cons, rmVal_cons, rmVal_cons]
              by_cases hc : lo ≤ c ∧ c ≤ hi
              · have : ¬ (a ≤ c ∧ c ≤ lo - 1) := by omega
                simp [hc, this]
              · by_cases hc' : a ≤ c ∧ c ≤ b
                · by_cases hc2 : a ≤ c ∧ c ≤ lo - 1
                  · simp [hc, hc', hc2]
                  · have : hi + 1 ≤ c ∧ c ≤ b := by omega
                    simp [hc, hc', hc2, this]
                · have n1 : ¬ (a ≤ c ∧ c ≤ lo - 1) := by omega
                  have n2 : ¬ (hi + 1 ≤ c ∧ c ≤ b) := by omega
                  simp [hc, hc', n1, n2]
            · simp only [c5, if_false]
              rw [rmVal_cons, rmVal_cons, ih _ _ lo hi v c h4 hlh]
              by_cases hc : lo ≤ c ∧ c ≤ hi
              · have : ¬ (a ≤ c ∧ c ≤ lo - 1) := by omega
                simp [hc, this]
              · by_cases hc' : a ≤ c ∧ c ≤ b
                · have : a ≤ c ∧ c ≤ lo - 1 := by omega
                  simp [hc, hc', this]
                · have : ¬ (a ≤ c ∧ c ≤ lo - 1) := by omega
                  simp [hc, hc', this]
          · simp only [c4, if_false]
            by_cases c5 : hi < b
            · simp only [c5, if_true]
              rw [rmVal_cons, rmVal_cons, rmVal_cons]
              by_cases hc : lo ≤ c ∧ c ≤ hi
              · simp [hc]
              · by_cases hc' : a ≤ c ∧ c ≤ b
                · have : hi + 1 ≤ c ∧ c ≤ b := by omega
                  simp [hc, hc', this]
                · have : ¬ (hi + 1 ≤ c ∧ c ≤ b) := by omega
                  simp [hc, hc', this]
            · simp only [c5, if_false]
              rw [ih _ _ lo hi v c h4 hlh, rmVal_cons]
              by_cases hc : lo ≤ c ∧ c ≤ hi
              · simp [hc]
              · have : ¬ (a ≤ c ∧ c ≤ b) := by omega
                simp [hc, this]

/-- **rm_get_insert**: `get` after `insert` on a valid map, through the real lookup
(`get_key_value`): new value inside the range, old value outside. -/
theorem rm_get_insert {m : RangeMap V} (h : Inv 0 none m) {lo hi : Nat} (hlh : lo ≤ hi) (v : V) (c : Nat) :
    (rmGetKV (rmInsert m lo hi v) c).map (·.2.2) =
      if lo ≤ c ∧ c ≤ hi then some v else (rmGetKV m c).map (·.2.2) := by
  rw [rmGetKV_eq_find (rm_inv_insert h hlh v), rmGetKV_eq_find h]
  exact rmVal_insert_gen m 0 none lo hi v c h hlh

/-- Shape of the run found for a key in a valid map: it contains the key, every key of
the run has the run's value, and the keys just outside the run do NOT have that value
(or lie below the bound `k`, where the predecessor value `p` differs). -/
theorem rmFind_run {k : Nat} {p : Option V} {m : RangeMap V} (h : Inv k p m) {c s e : Nat} {v : V}
    (hf : rmFind m c = some (s, e, v)) :
    s ≤ c ∧ c ≤ e ∧ k ≤ s ∧ (∀ x, s ≤ x → x ≤ e → rmVal m x = some v) ∧
    (s = k → p ≠ some v) ∧ (k < s → rmVal m (s - 1) ≠ some v) ∧ rmVal m (e + 1) ≠ some v := by
  induction m generalizing k p with
  | nil => simp [rmFind] at hf
  | cons r rest ih =>
    obtain ⟨a, b, w⟩ := r
    obtain ⟨h1, h2, h3, h4⟩ := h
    unfold rmFind at hf
    by_cases hc : a ≤ c ∧ c ≤ b
    · simp only [hc, and_self, if_true] at hf
      injection hf with hf
      injection hf with e1 hf
      injection hf with e2 e3
      subst e1; subst e2; subst e3
      refine ⟨hc.1, hc.2, h1, ?_, h3, ?_, ?_⟩
      · intro x hx1 hx2
        rw [rmVal_cons]; simp [hx1, hx2]
      · intro hk
        rw [rmVal_cons]
        have : ¬ (a ≤ a - 1 ∧ a - 1 ≤ b) := by omega
        simp only [this, if_false]
        rw [rmVal_below h4 (by omega)]; simp
      · rw [rmVal_cons]
        have : ¬ (a ≤ b + 1 ∧ b + 1 ≤ b) := by omega
        simp only [this, if_false]
        intro hv
        -- the next run, if it starts at b+1, has a different value
        cases rest with
        | nil => simp [rmVal_nil] at hv
        | cons r' rest' =>
          obtain ⟨a', b', w'⟩ := r'
          obtain ⟨g1, g2, g3, g4⟩ := h4
          rw [rmVal_cons] at hv
          by_cases hh : a' ≤ b + 1 ∧ b + 1 ≤ b'
          · simp only [hh, and_self, if_true] at hv
            exact g3 (by omega) (by rw [Option.some.inj hv])
          · simp only [hh, if_false] at hv
            rw [rmVal_below g4 (by omega)] at hv
            simp at hv
    · simp only [hc, if_false] at hf
      have ⟨i1, i2, i3, i4, i5, i6, i7⟩ := ih h4 hf
      refine ⟨i1, i2, by omega, ?_, fun hs => by omega, ?_, ?_⟩
      · intro x hx1 hx2
        rw [rmVal_cons]
        have : ¬ (a ≤ x ∧ x ≤ b) := by omega
        simp only [this, if_false]
        exact i4 x hx1 hx2
      · intro _
        rw [rmVal_cons]
        by_cases hs : s = b + 1
        · have : a ≤ s - 1 ∧ s - 1 ≤ b := by omega
          simp only [this, and_self, if_true]
          exact fun hh => i5 hs hh
        · have : ¬ (a ≤ s - 1 ∧ s - 1 ≤ b) := by omega
          simp only [this, if_false]
          exact i6 (by omega)
      · rw [rmVal_cons]
        have : ¬ (a ≤ e + 1 ∧ e + 1 ≤ b) := by omega
        simp only [this, if_false]
        exact i7

/-- walk down from `c` while the key below still has value `v` -/
def reachDown (f : Nat → Option V) (v : V) : Nat → Nat
  | 0 => 0
  | c + 1 => if f c = some v then reachDown f v c else c + 1

theorem reachDown_eq (f : Nat → Option V) (v : V) (s : Nat) :
    ∀ (d : Nat), (∀ x, s ≤ x → x ≤ s + d → f x = some v) → (0 < s → f (s - 1) ≠ some v) →
      reachDown f v (s + d) = s := by
  intro d
  induction d with
  | zero =>
    intro _ hbelow
    cases s with
    | zero => rfl
    | succ s' =>
      show reachDown f v (s' + 1) = s' + 1
      unfold reachDown
      have := hbelow (by omega)
      simp at this
      simp [this]
  | succ d ih =>
    intro hall hbelow
    show reachDown f v (s + d + 1) = s
    unfold reachDown
    have : f (s + d) = some v := hall (s + d) (by omega) (by omega)
    simp only [this, if_true]
    exact ih (fun x h1 h2 => hall x h1 (by omega)) hbelow

/-- **rm_run_start**: in a valid map the run returned for a key starts at the least key
reachable from it downwards through keys carrying the same value — i.e. the start of the
maximal equal-valued neighbourhood, *not* the start of the range that was inserted. -/
theorem rm_run_start {m : RangeMap V} (h : Inv 0 none m) {c s e : Nat} {v : V}
    (hf : rmGetKV m c = some (s, e, v)) :
    s = reachDown (rmVal m) v c ∧ rmVal m c = some v := by
  rw [rmGetKV_eq_find h] at hf
  have ⟨i1, i2, _, i4, _, i6, _⟩ := rmFind_run h hf
  refine ⟨?_, i4 c i1 i2⟩
  have hd : c = s + (c - s) := by omega
  rw [hd]
  exact (reachDown_eq (rmVal m) v s (c - s) (fun x h1 h2 => i4 x h1 (by omega)) (fun hs => i6 hs)).symm

end Lopdf.CMap
