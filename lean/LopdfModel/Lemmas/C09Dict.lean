import LopdfModel.Model.Obj
namespace Lopdf

/-- keys of an `IndexMap` are pairwise distinct -/
def Dict.KeysNodup (d : Dict) : Prop := (d.map (·.1)).Nodup

theorem Dict.get_none_iff_c09 (d : Dict) (k : Bytes) : d.get k = none ↔ ∀ e ∈ d, e.1 ≠ k := by
  induction d with
  | nil => simp [Dict.get]
  | cons e rest ih =>
    obtain ⟨k', v⟩ := e
    by_cases h : k' = k
    · simp [Dict.get, h]
    · simp [Dict.get, h, ih]

theorem Dict.idxOf_none_c09 (d : Dict) (k : Bytes) (h : d.idxOf k = none) : ∀ e ∈ d, e.1 ≠ k := by
  induction d with
  | nil => simp
  | cons e rest ih =>
    obtain ⟨k', v⟩ := e
    by_cases hk : k' = k
    · simp [Dict.idxOf, hk] at h
    · simp [Dict.idxOf, hk] at h
      intro e he
      simp at he
      rcases he with rfl | he
      · exact hk
      · exact ih h e he

theorem Dict.idxOf_some_c09 (d : Dict) (k : Bytes) (i : Nat) (h : d.idxOf k = some i) :
    ∃ hi : i < d.length, d[i].1 = k := by
  induction d generalizing i with
  | nil => simp [Dict.idxOf] at h
  | cons e rest ih =>
    obtain ⟨k', v⟩ := e
    by_cases hk : k' = k
    · simp [Dict.idxOf, hk] at h; subst h; exact ⟨by simp, by simp [hk]⟩
    · simp [Dict.idxOf, hk] at h
      obtain ⟨j, hj, rfl⟩ := h
      obtain ⟨hi, he⟩ := ih j hj
      exact ⟨by simp; omega, by simpa using he⟩

theorem Dict.key_unique_c09 (d : Dict) (hn : Dict.KeysNodup d) (i j : Nat) (hi : i < d.length) (hj : j < d.length)
    (h : d[i].1 = d[j].1) : i = j := by
  have hp := List.pairwise_iff_getElem.mp hn
  have hi' : i < (d.map (·.1)).length := by simpa using hi
  have hj' : j < (d.map (·.1)).length := by simpa using hj
  rcases Nat.lt_trichotomy i j with hlt | heq | hgt
  · exact absurd (by simpa using h) (hp i j hi' hj' hlt)
  · exact heq
  · exact absurd (by simpa using h.symm) (hp j i hj' hi' hgt)

/-- `IndexMap::swap_remove` really removes the key -/
theorem Dict.get_remove_same_c09 (d : Dict) (k : Bytes) (hn : Dict.KeysNodup d) : (d.remove k).get k = none := by
  rw [Dict.get_none_iff_c09]
  intro e he
  unfold Dict.remove at he
  split at he
  · rename_i h; exact Dict.idxOf_none_c09 d k h e he
  · rename_i i h
    obtain ⟨hi, hk⟩ := Dict.idxOf_some_c09 d k i h
    have other : ∀ j (hj : j < d.length), j ≠ i → d[j].1 ≠ k := by
      intro j hj hne hjk
      exact hne (Dict.key_unique_c09 d hn j i hj hi (by rw [hjk, hk]))
    split at he
    · exact absurd he (by rename_i hl; simp at hl; subst hl; simp at hi)
    · rename_i last hl
      have hlast : ∃ hp : d.length - 1 < d.length, d[d.length - 1] = last := by
        have hne : d ≠ [] := by intro h0; subst h0; simp at hi
        have : d.getLast? = some (d.getLast hne) := List.getLast?_eq_some_getLast hne
        rw [this] at hl
        have hl' : d.getLast hne = last := by simpa using hl
        refine ⟨by omega, ?_⟩
        rw [← hl', List.getLast_eq_getElem]
      obtain ⟨hp, hlast⟩ := hlast
      dsimp only at he
      split at he
      · rename_i hil
        obtain ⟨j, hj, rfl⟩ := List.getElem_of_mem he
        have hj' : j < d.length - 1 := by simpa using hj
        rw [List.getElem_dropLast]
        apply other
        simp at hil; omega
      · rename_i hil
        obtain ⟨j, hj, rfl⟩ := List.getElem_of_mem he
        have hj' : j < d.length - 1 := by simpa using hj
        rw [List.getElem_set]
        split
        · rw [← hlast]; apply other; simp at hil; omega
        · rename_i hij
          rw [List.getElem_dropLast]
          apply other; omega
end Lopdf
