import LopdfModel.Lemmas.C09LzwInv
namespace Lopdf.Spec.LzwC
open Lopdf

theorem bump_first (ec : Bool) : bump ec 9 (FIRST + ([] : Table).length) = 9 := by
  cases ec <;> decide

theorem toUInt8_toNat' (b : UInt8) : b.toNat.toUInt8 = b := by simp

/-- table lookup of a phrase the encoder found in its table -/
theorem findIdx_spec (t : Table) (w : Bytes) (h : t.contains w = true) :
    ∃ hi : t.findIdx (· == w) < t.length, t[t.findIdx (· == w)] = w := by
  have hex : ∃ x ∈ t, (x == w) = true := by
    rw [List.contains_iff_exists_mem_beq] at h
    obtain ⟨a, ha, hb⟩ := h
    exact ⟨a, ha, by simpa using (eq_of_beq hb).symm⟩
  have hi := List.findIdx_lt_length_of_exists hex
  refine ⟨hi, ?_⟩
  have := List.findIdx_getElem (p := (· == w)) (xs := t) (w := hi)
  simpa using this

/-- **the decoder reads the code of the encoder's phrase `w`** and arrives at the encoder's table -/
theorem dec_emit (ec : Bool) (t td : Table) (wd : Nat) (prev : Option Bytes) (w : Bytes) (more : List Bool)
    (hI : Inv t wd) (hw : w ≠ []) (hE : Emittable t w) (hR : Rel t td wd prev w) :
    decLoop ec (codeBits wd (codeOf t w) ++ more) td wd prev =
      (w ++ (decLoop ec more t (bump ec wd (FIRST + t.length)) (some w)).1,
       (decLoop ec more t (bump ec wd (FIRST + t.length)) (some w)).2) := by
  obtain ⟨h1, h2, h3, h4⟩ := hI
  obtain ⟨hlt, hnc, hne⟩ := codeOf_lt t w hE
  rw [decLoop_step ec wd _ more td prev (by omega) (by omega)]
  simp only [hnc, hne, if_false]
  cases prev with
  | none =>
    simp only [Rel] at hR
    obtain ⟨rfl, rfl, rfl⟩ := hR
    -- w is a single byte
    have : ∃ b, w = [b] := by
      rcases hE with h | h
      · cases w with
        | nil => simp at h
        | cons b tl => cases tl with
          | nil => exact ⟨b, rfl⟩
          | cons c tl => simp at h
      · simp at h
    obtain ⟨b, rfl⟩ := this
    have hb := UInt8.toNat_lt b
    simp only [codeOf, show b.toNat < 256 from hb, if_true, toUInt8_toNat', bump_first]
    rfl
  | some p =>
    simp only [Rel] at hR
    obtain ⟨hp, ht⟩ := hR
    have htl : t.length = td.length + 1 := by rw [ht]; simp
    have hfull : FIRST + td.length < 4096 := by simp only [FIRST, FULL] at *; omega
    -- the entry the decoder computes is `w`
    have hentry : (if codeOf t w < 256 then some [(codeOf t w).toUInt8]
                 else if codeOf t w < FIRST + td.length then td[codeOf t w - FIRST]?
                 else if codeOf t w = FIRST + td.length then some (p ++ [p.headD 0])
                 else none : Option Bytes) = some w := by
      cases w with
      | nil => exact absurd rfl hw
      | cons b tl =>
        cases tl with
        | nil =>
          have hb := UInt8.toNat_lt b
          simp [codeOf, show b.toNat < 256 from hb]
        | cons c tl =>
          have hc : t.contains (b :: c :: tl) = true := by
            rcases hE with h | h
            · simp at h
            · exact h
          obtain ⟨hi, hget⟩ := findIdx_spec t _ hc
          have hcode : codeOf t (b :: c :: tl) = FIRST + t.findIdx (· == (b :: c :: tl)) := rfl
          rw [hcode]
          generalize t.findIdx (· == (b :: c :: tl)) = i at hi hget
          have h256 : ¬ (FIRST + i < 256) := by simp only [FIRST]; omega
          simp only [h256, if_false, Nat.add_sub_cancel_left]
          subst ht
          by_cases hlt2 : i < td.length
          · have : FIRST + i < FIRST + td.length := by omega
            simp only [this, if_true]
            rw [List.getElem_append_left hlt2] at hget
            rw [List.getElem?_eq_getElem hlt2, hget]
          · have heq : i = td.length := by simp at hi; omega
            subst heq
            have : ¬ (FIRST + td.length < FIRST + td.length) := by omega
            simp only [this, if_false, if_true]
            -- KwKwK: the newest encoder entry is `p ++ [first byte]` and equals the phrase itself
            rw [List.getElem_append_right (by omega)] at hget
            simp only [Nat.sub_self, List.getElem_cons_zero, List.headD_cons] at hget
            have hph : p.headD 0 = b := by
              cases p with
              | nil => exact absurd rfl hp
              | cons q ps =>
                have := congrArg (fun l => l.headD 0) hget
                simpa using this
            rw [hph, hget]
    dsimp only
    rw [hentry]
    dsimp only
    simp only [hfull, if_true]
    rw [← ht]
end Lopdf.Spec.LzwC
