import LopdfModel.Spec.LzwCodec
namespace Lopdf.Spec.LzwC
open Lopdf

theorem readBits_codeBits : ∀ (w c : Nat) (rest : List Bool), c < 2 ^ w →
    readBits w (codeBits w c ++ rest) = some (c, rest) := by
  intro w
  induction w with
  | zero => intro c rest h; simp at h; subst h; rfl
  | succ w ih =>
    intro c rest h
    have hp : 0 < 2 ^ w := Nat.two_pow_pos w
    have h2 : 2 ^ (w + 1) = 2 * 2 ^ w := by rw [Nat.pow_succ]; omega
    have hm : c % 2 ^ w < 2 ^ w := Nat.mod_lt _ hp
    have hd : c / 2 ^ w < 2 := by
      rw [Nat.div_lt_iff_lt_mul hp]; omega
    simp only [codeBits, List.cons_append, readBits, ih _ rest hm]
    have hdm := Nat.div_add_mod c (2 ^ w)
    generalize hq : c / 2 ^ w = q at hd hdm ⊢
    have hq01 : q = 0 ∨ q = 1 := by omega
    rcases hq01 with rfl | rfl
    · simp only [Nat.zero_mod, Nat.zero_ne_one, decide_false, Bool.false_eq_true, if_false]
      have : 0 + c % 2 ^ w = c := by omega
      rw [this]
    · simp only [Nat.one_mod, decide_true, if_true]
      have : 2 ^ w + c % 2 ^ w = c := by omega
      rw [this]

theorem codeBits_length : ∀ (w c : Nat), (codeBits w c).length = w := by
  intro w; induction w with
  | zero => intro c; rfl
  | succ w ih => intro c; simp [codeBits, ih]

/-- reading `w` bits of an exactly-`w`-bit list and writing the value again gives the list back -/
theorem codeBits_readBits : ∀ (w : Nat) (bs : List Bool), bs.length = w →
    ∃ v, readBits w bs = some (v, []) ∧ v < 2 ^ w ∧ codeBits w v = bs := by
  intro w
  induction w with
  | zero => intro bs h; have : bs = [] := List.length_eq_zero_iff.mp h; subst this; exact ⟨0, rfl, by decide, rfl⟩
  | succ w ih =>
    intro bs h
    cases bs with
    | nil => simp at h
    | cons b bs =>
      have hl : bs.length = w := by simpa using h
      obtain ⟨v, hr, hv, hc⟩ := ih bs hl
      have hp : 0 < 2 ^ w := Nat.two_pow_pos w
      have h2 : 2 ^ (w + 1) = 2 * 2 ^ w := by rw [Nat.pow_succ]; omega
      refine ⟨(if b then 2 ^ w else 0) + v, by simp [readBits, hr], ?_, ?_⟩
      · split <;> omega
      · simp only [codeBits]
        cases b with
        | true =>
          have e1 : (2 ^ w + v) / 2 ^ w = 1 := by
            rw [Nat.add_div_left _ hp, Nat.div_eq_of_lt hv]
          have e2 : (2 ^ w + v) % 2 ^ w = v := by
            rw [Nat.add_mod_left, Nat.mod_eq_of_lt hv]
          simp [e1, e2, hc]
        | false =>
          have e1 : (0 + v) / 2 ^ w = 0 := by simp [Nat.div_eq_of_lt hv]
          have e2 : (0 + v) % 2 ^ w = v := by simp [Nat.mod_eq_of_lt hv]
          simp only [Bool.false_eq_true, if_false, e1, e2, hc]
          simp

theorem byteBits_byteOfBits (a : List Bool) (h : a.length = 8) : codeBits 8 (byteOfBits a).toNat = a := by
  obtain ⟨v, hr, hv, hc⟩ := codeBits_readBits 8 a h
  have : byteOfBits a = v.toUInt8 := by
    simp [byteOfBits, h, hr]
  rw [this]
  have : v.toUInt8.toNat = v := by
    simp; omega
  rw [this, hc]

/-- packing bits into bytes only appends padding -/
theorem toBits_ofBits (bs : List Bool) : ∃ tail, toBits (ofBits bs) = bs ++ tail := by
  induction h : bs.length using Nat.strongRecOn generalizing bs with
  | _ n ih =>
    rw [ofBits]
    by_cases hb : bs = []
    · subst hb; exact ⟨[], by simp [toBits]⟩
    · simp only [hb, dite_false, toBits]
      by_cases hl : 8 ≤ bs.length
      · have ht : (bs.take 8).length = 8 := by simp; omega
        obtain ⟨tail, htl⟩ := ih (bs.drop 8).length (by simp; omega) (bs.drop 8) rfl
        refine ⟨tail, ?_⟩
        rw [byteBits_byteOfBits _ ht, htl, ← List.append_assoc, List.take_append_drop]
      · have hlt : bs.length < 8 := by omega
        have ht : bs.take 8 = bs := List.take_of_length_le (by omega)
        have hd : bs.drop 8 = [] := List.drop_of_length_le (by omega)
        rw [ht, hd]
        have e0 : ofBits [] = [] := by rw [ofBits]; simp
        rw [e0]
        simp only [toBits, List.append_nil]
        refine ⟨List.replicate (8 - bs.length) false, ?_⟩
        have hpl : (bs ++ List.replicate (8 - bs.length) false).length = 8 := by simp; omega
        have := byteBits_byteOfBits (bs ++ List.replicate (8 - bs.length) false) hpl
        have e : byteOfBits (bs ++ List.replicate (8 - bs.length) false) = byteOfBits bs := by
          simp [byteOfBits, hpl]
        rw [← e, this]
end Lopdf.Spec.LzwC
