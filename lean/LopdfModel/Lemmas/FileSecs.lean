import LopdfModel.Lemmas.File
import LopdfModel.Lemmas.Lex
import LopdfModel.Model.Read
/-
  The subsection structure of the two cross-reference writers (`Writer::write_xref`,
  `Writer::create_xref_steam`): both loops cut the object numbers `a, a+1, …` into maximal runs
  of numbers that have an entry.  `loopSecs` is that cutting, generic in the entry
  representation; `loopSecs_spec` says which (number, entry) assignments the runs carry.
-/
namespace Lopdf.FileRT
open Lopdf Gen

/-- the sections (start, entries) both writer loops produce; `f` = how an entry is stored -/
def loopSecs {α : Type} (x : XrefMap) (f : Nat × Nat → α) : List Nat → Nat → List α → List (Nat × List α)
  | [], start, entries => if entries.isEmpty then [] else [(start, entries)]
  | id :: rest, start, entries =>
    let start' := if entries.isEmpty then id else start
    match x.get id with
    | some e => loopSecs x f rest start' (entries ++ [f e])
    | none =>
      if entries.isEmpty then loopSecs x f rest start' entries
      else (start', entries) :: loopSecs x f rest id []

def secsBytes (secs : List (Nat × List (Option (Nat × Nat)))) : Bytes :=
  (secs.map fun s => xrefSectionBytes s.1 s.2).flatten

theorem xrefTableLoop_eq (x : XrefMap) : ∀ (ids : List Nat) (start : Nat) (entries : List (Option (Nat × Nat)))
    (out : Bytes), xrefTableLoop x ids start entries out = out ++ secsBytes (loopSecs x some ids start entries) := by
  intro ids
  induction ids with
  | nil =>
    intro start entries out
    simp only [xrefTableLoop, loopSecs]
    split <;> simp [secsBytes]
  | cons id rest ih =>
    intro start entries out
    simp only [xrefTableLoop, loopSecs]
    cases hx : x.get id with
    | some e => simp only [ih]
    | none =>
      simp only
      split
      · simp only [ih]
      · simp only [ih, secsBytes, List.map_cons, List.flatten_cons, List.append_assoc]

theorem xrefStreamLoop_eq (x : XrefMap) : ∀ (ids : List Nat) (start : Nat) (entries : List (Nat × Nat))
    (acc : List (Nat × List (Nat × Nat))),
    xrefStreamLoop x ids start entries acc = acc ++ loopSecs x id ids start entries := by
  intro ids
  induction ids with
  | nil =>
    intro start entries acc
    simp only [xrefStreamLoop, loopSecs]
    split <;> simp
  | cons i rest ih =>
    intro start entries acc
    simp only [xrefStreamLoop, loopSecs]
    cases hx : x.get i with
    | some e => simp only [ih, id]
    | none =>
      simp only
      split
      · simp only [ih]
      · simp only [ih, List.append_assoc, List.singleton_append]

/-- the (object number, entry) pairs of one section starting at `s` -/
def assignsFrom {α : Type} : Nat → List α → List (Nat × α)
  | _, [] => []
  | s, e :: es => (s, e) :: assignsFrom (s + 1) es

def assigns {α : Type} (secs : List (Nat × List α)) : List (Nat × α) :=
  (secs.map fun s => assignsFrom s.1 s.2).flatten

theorem assignsFrom_append {α : Type} (es : List α) : ∀ (s : Nat) (e : α),
    assignsFrom s (es ++ [e]) = assignsFrom s es ++ [(s + es.length, e)] := by
  induction es with
  | nil => intro s e; simp [assignsFrom]
  | cons a as ih =>
    intro s e
    simp only [List.cons_append, assignsFrom, ih, List.length_cons]
    have : s + 1 + as.length = s + (as.length + 1) := by omega
    rw [this]

/-- what an id contributes: its entry, if it has one -/
def idAssign {α : Type} (x : XrefMap) (f : Nat × Nat → α) (i : Nat) : Option (Nat × α) :=
  (x.get i).map fun e => (i, f e)

/-- **Sections = maximal runs.** On consecutive object numbers `a, …, a+k-1` (with the pending
section ending just before `a`) the sections carry exactly the pending entries followed by the
entry of every number that has one, each under its own number. -/
theorem loopSecs_spec {α : Type} (x : XrefMap) (f : Nat × Nat → α) : ∀ (k a start : Nat) (entries : List α),
    (entries ≠ [] → start + entries.length = a) →
    assigns (loopSecs x f (List.range' a k) start entries)
      = assignsFrom start entries ++ (List.range' a k).filterMap (idAssign x f) := by
  intro k
  induction k with
  | zero =>
    intro a start entries _
    simp only [List.range'_zero, loopSecs, List.filterMap_nil, List.append_nil]
    cases entries with
    | nil => simp [assigns, assignsFrom]
    | cons e es => simp [assigns]
  | succ k ih =>
    intro a start entries hinv
    simp only [List.range'_succ, loopSecs, List.filterMap_cons, idAssign]
    cases hx : x.get a with
    | some e =>
      simp only [Option.map_some]
      rw [ih]
      · cases entries with
        | nil => simp [assignsFrom]
        | cons e0 es =>
          have := hinv (by simp)
          simp only [List.isEmpty_cons, Bool.false_eq_true, if_false]
          rw [assignsFrom_append, this]
          simp
      · intro _
        cases entries with
        | nil => simp
        | cons e0 es =>
          have := hinv (by simp)
          simp only [List.isEmpty_cons, Bool.false_eq_true, if_false, List.length_append, List.length_cons,
            List.length_nil] at this ⊢
          omega
    | none =>
      simp only [Option.map_none]
      cases entries with
      | nil =>
        simp only [List.isEmpty_nil, if_true]
        rw [ih _ _ _ (by intro h; exact absurd rfl h)]
        simp [assignsFrom]
      | cons e0 es =>
        simp only [List.isEmpty_cons, Bool.false_eq_true, if_false]
        simp only [assigns, List.map_cons, List.flatten_cons]
        have := ih (a + 1) a [] (by intro h; exact absurd rfl h)
        simp only [assigns, assignsFrom, List.nil_append] at this
        rw [this]

/-- every section lies inside the numbers scanned so far, and its entries are pending ones or
images of recorded entries -/
theorem loopSecs_bounds {α : Type} (x : XrefMap) (f : Nat × Nat → α) : ∀ (k a start : Nat) (entries : List α),
    (entries ≠ [] → start + entries.length = a) →
    ∀ sec ∈ loopSecs x f (List.range' a k) start entries,
      sec.1 + sec.2.length ≤ a + k ∧
      ∀ v ∈ sec.2, v ∈ entries ∨ ∃ i e, x.get i = some e ∧ v = f e := by
  intro k
  induction k with
  | zero =>
    intro a start entries hinv sec hsec
    simp only [List.range'_zero, loopSecs] at hsec
    cases entries with
    | nil => simp at hsec
    | cons e es =>
      simp at hsec
      subst hsec
      have := hinv (by simp)
      exact ⟨by simp at this ⊢; omega, fun v hv => Or.inl hv⟩
  | succ k ih =>
    intro a start entries hinv sec hsec
    simp only [List.range'_succ, loopSecs] at hsec
    cases hx : x.get a with
    | some e =>
      simp only [hx] at hsec
      have hinv' : (entries ++ [f e] ≠ [] → (if entries.isEmpty then a else start) + (entries ++ [f e]).length = a + 1) := by
        intro _
        cases entries with
        | nil => simp
        | cons e0 es =>
          have := hinv (by simp)
          simp only [List.isEmpty_cons, Bool.false_eq_true, if_false, List.length_append, List.length_cons,
            List.length_nil] at this ⊢
          omega
      obtain ⟨h1, h2⟩ := ih (a + 1) _ _ hinv' sec hsec
      refine ⟨by omega, ?_⟩
      intro v hv
      rcases h2 v hv with h | h
      · rw [List.mem_append] at h
        rcases h with h | h
        · exact Or.inl h
        · simp at h; exact Or.inr ⟨a, e, hx, h⟩
      · exact Or.inr h
    | none =>
      simp only [hx] at hsec
      cases entries with
      | nil =>
        simp only [List.isEmpty_nil, if_true] at hsec
        obtain ⟨h1, h2⟩ := ih (a + 1) a [] (by intro h; exact absurd rfl h) sec hsec
        exact ⟨by omega, h2⟩
      | cons e0 es =>
        simp only [List.isEmpty_cons, Bool.false_eq_true, if_false, List.mem_cons] at hsec
        rcases hsec with hsec | hsec
        · subst hsec
          have := hinv (by simp)
          exact ⟨by simp at this ⊢; omega, fun v hv => Or.inl hv⟩
        · obtain ⟨h1, h2⟩ := ih (a + 1) a [] (by intro h; exact absurd rfl h) sec hsec
          refine ⟨by omega, ?_⟩
          intro v hv
          rcases h2 v hv with h | h
          · simp at h
          · exact Or.inr h

end Lopdf.FileRT
