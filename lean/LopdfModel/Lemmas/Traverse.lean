import LopdfModel.Model.Doc
/-
  Helper lemmas: the BTreeMap operations at the level of `get`, and the specification of
  `traverse_objects` (work list): every pushed id is processed exactly once, the result is
  closed under references, and nothing unreachable is pushed.
-/
namespace Lopdf
namespace Objects

theorem get_insert (os : Objects) (k : ObjId) (v : Obj) (q : ObjId) :
    (os.insert k v).get q = if k = q then some v else os.get q := by
  induction os with
  | nil => simp [insert, get]
  | cons p rest ih =>
    obtain ⟨k0, v0⟩ := p
    simp only [insert]
    by_cases h1 : k0 = k
    · subst h1; simp only [if_true, get]
      by_cases h3 : k0 = q <;> simp [h3]
    · simp only [h1, if_false]
      by_cases h2 : idLt k k0 = true
      · simp only [h2, if_true, get]
      · have h2' : idLt k k0 = false := by simpa using h2
        by_cases h3 : k0 = q
        · subst h3; simp [h2', get, Ne.symm h1]
        · simp [h2', get, h3, ih]

theorem get_remove (os : Objects) (k q : ObjId) :
    (os.remove k).get q = if k = q then none else os.get q := by
  induction os with
  | nil => simp [remove, get]
  | cons p rest ih =>
    obtain ⟨k0, v0⟩ := p
    simp only [remove]
    by_cases h1 : k0 = k
    · subst h1; simp only [if_true, ih, get]
      by_cases h3 : k0 = q <;> simp [h3]
    · simp only [h1, if_false, get, ih]
      by_cases h3 : k0 = q
      · subst h3; simp [Ne.symm h1]
      · simp [h3]

theorem get_set (os : Objects) (k : ObjId) (v : Obj) (q : ObjId) :
    (os.set k v).get q = if k = q then (os.get q).map (fun _ => v) else os.get q := by
  induction os with
  | nil => simp [set, get]
  | cons p rest ih =>
    obtain ⟨k0, v0⟩ := p
    simp only [set]
    by_cases h1 : k0 = k
    · subst h1; simp only [if_true, get, ih]
      by_cases h3 : k0 = q <;> simp [h3]
    · simp only [h1, if_false, get, ih]
      by_cases h3 : k0 = q
      · subst h3; simp [Ne.symm h1]
      · simp [h3]

end Objects


theorem mem_pushRef_self (refs : List ObjId) (x : ObjId) : x ∈ pushRef refs x := by
  unfold pushRef; split
  · rename_i h; simpa using h
  · simp
theorem mem_pushRef_of_mem (refs : List ObjId) (x y : ObjId) (h : y ∈ refs) : y ∈ pushRef refs x := by
  unfold pushRef; split
  · exact h
  · simp [h]
theorem mem_pushRef (refs : List ObjId) (x y : ObjId) (h : y ∈ pushRef refs x) : y ∈ refs ∨ y = x := by
  unfold pushRef at h; split at h
  · exact Or.inl h
  · simpa using h

theorem mem_pushAll_of_mem (ids refs : List ObjId) (y : ObjId) (h : y ∈ refs) : y ∈ pushAll refs ids := by
  induction ids generalizing refs with
  | nil => simpa [pushAll]
  | cons x xs ih => simp only [pushAll, List.foldl_cons]; exact ih _ (mem_pushRef_of_mem _ _ _ h)
theorem mem_pushAll_ids (ids refs : List ObjId) (y : ObjId) (h : y ∈ ids) : y ∈ pushAll refs ids := by
  induction ids generalizing refs with
  | nil => simp at h
  | cons x xs ih =>
    simp only [pushAll, List.foldl_cons]
    rcases List.mem_cons.mp h with rfl | h
    · exact mem_pushAll_of_mem xs _ _ (mem_pushRef_self _ _)
    · exact ih _ h
theorem mem_pushAll (ids refs : List ObjId) (y : ObjId) (h : y ∈ pushAll refs ids) : y ∈ refs ∨ y ∈ ids := by
  induction ids generalizing refs with
  | nil => left; simpa [pushAll] using h
  | cons x xs ih =>
    simp only [pushAll, List.foldl_cons] at h
    rcases ih _ h with h | h
    · rcases mem_pushRef _ _ _ h with h | h
      · exact Or.inl h
      · right; simp [h]
    · right; simp [h]

theorem drop_index_cons (refs ext : List ObjId) (index : Nat) (hi : index < refs.length) :
    (refs ++ ext).drop index = refs[index] :: (refs ++ ext).drop (index + 1) := by
  have h : index < (refs ++ ext).length := by simp; omega
  rw [List.drop_eq_getElem_cons h]
  simp [List.getElem_append_left hi]

theorem not_mem_drop_succ (l : List ObjId) (index : Nat) (hn : l.Nodup) (hi : index < l.length) :
    l[index] ∉ l.drop (index + 1) := by
  intro hm
  rw [List.mem_iff_getElem] at hm
  obtain ⟨j, hj, e⟩ := hm
  simp at hj
  simp only [List.getElem_drop] at e
  have h2 : l[index + 1 + j]? = l[index]? := by
    rw [List.getElem?_eq_getElem (by omega), List.getElem?_eq_getElem hi, e]
  have := (List.getElem?_inj (by omega) hn).mp h2
  omega

/-- what the loop started at `(os, refs, index)` guarantees about its result `R` -/
def LoopSpec (a : Action) (os : Objects) (refs : List ObjId) (index : Nat) (R : Objects × List ObjId) : Prop :=
  (∃ ext, R.2 = refs ++ ext) ∧ R.2.Nodup ∧
  (∀ q, R.1.get q = if q ∈ R.2.drop index then (os.get q).map (deepObj a) else os.get q) ∧
  (∀ q ∈ R.2.drop index, ∀ o, os.get q = some o → ∀ x ∈ refsOf (deepObj a o), x ∈ R.2)

theorem loopSpec_some (a : Action) (os : Objects) (refs : List ObjId) (index : Nat)
    (hi : index < refs.length) (o : Obj) (hg : os.get refs[index] = some o) (R : Objects × List ObjId)
    (ih : LoopSpec a (os.set refs[index] (travObj a o refs).1) (travObj a o refs).2 (index + 1) R) :
    LoopSpec a os refs index R := by
  obtain ⟨⟨ext1, he1⟩, hnd, hget, hcl⟩ := ih
  obtain ⟨ext0, he0⟩ := travObj_prefix a o refs
  have heR : R.2 = refs ++ (ext0 ++ ext1) := by rw [he1, he0]; simp
  have hdrop : R.2.drop index = refs[index] :: R.2.drop (index + 1) := by
    rw [heR]; exact drop_index_cons refs _ index hi
  have hlen : index < R.2.length := by rw [heR]; simp; omega
  have hidx : R.2[index]'hlen = refs[index] := by
    simp [heR, List.getElem_append_left hi]
  have hnot : refs[index] ∉ R.2.drop (index + 1) := by
    have := not_mem_drop_succ R.2 index hnd hlen
    rwa [hidx] at this
  have hdeep : (travObj a o refs).1 = deepObj a o := by rw [(trav_eq a).1 o refs]
  have hrefs1 : (travObj a o refs).2 = pushAll refs (refsOf (deepObj a o)) := by rw [(trav_eq a).1 o refs]
  refine ⟨⟨ext0 ++ ext1, heR⟩, hnd, ?_, ?_⟩
  · intro q
    rw [hget q, hdrop, Objects.get_set, hdeep]
    by_cases hq : refs[index] = q
    · subst hq
      simp [hnot, hg]
    · have : q ≠ refs[index] := fun e => hq e.symm
      simp [hq, this]
  · intro q hq o2 ho2 x hx
    rw [hdrop] at hq
    rcases List.mem_cons.mp hq with rfl | hq
    · rw [hg] at ho2; cases ho2
      rw [he1, hrefs1]
      exact List.mem_append_left _ (mem_pushAll_ids _ _ _ hx)
    · have hne : refs[index] ≠ q := fun e => hnot (e ▸ hq)
      exact hcl q hq o2 (by rw [Objects.get_set]; simp [hne, ho2]) x hx

theorem loopSpec_none (a : Action) (os : Objects) (refs : List ObjId) (index : Nat)
    (hi : index < refs.length) (hg : os.get refs[index] = none) (R : Objects × List ObjId)
    (ih : LoopSpec a os refs (index + 1) R) : LoopSpec a os refs index R := by
  obtain ⟨⟨ext1, he1⟩, hnd, hget, hcl⟩ := ih
  have hdrop : R.2.drop index = refs[index] :: R.2.drop (index + 1) := by
    rw [he1]; exact drop_index_cons refs _ index hi
  refine ⟨⟨ext1, he1⟩, hnd, ?_, ?_⟩
  · intro q
    rw [hget q, hdrop]
    by_cases hq : q = refs[index]
    · subst hq; simp [hg]
    · simp [hq]
  · intro q hq o2 ho2 x hx
    rw [hdrop] at hq
    rcases List.mem_cons.mp hq with rfl | hq
    · rw [hg] at ho2; cases ho2
    · exact hcl q hq o2 ho2 x hx

/-- Specification of the work-list loop. -/
theorem travLoop_spec (a : Action) (os : Objects) (refs : List ObjId) (index : Nat) (hn : refs.Nodup) :
    LoopSpec a os refs index (travLoop a os refs index hn) := by
  induction os, refs, index, hn using travLoop.induct (a := a) with
  | case1 os refs index hn hi o hg ih =>
    rw [travLoop]; simp only [hi, dite_true]
    split
    · rename_i o' hg'
      have : o' = o := by rw [hg] at hg'; exact (Option.some.inj hg').symm
      subst this
      exact loopSpec_some a os refs index hi o' hg _ ih
    · rename_i hg'; rw [hg] at hg'; cases hg'
  | case2 os refs index hn hi hg ih =>
    rw [travLoop]; simp only [hi, dite_true]
    split
    · rename_i o' hg'; rw [hg] at hg'; cases hg'
    · exact loopSpec_none a os refs index hi hg _ ih
  | case3 os refs index hn hi =>
    rw [travLoop]; simp only [hi, dite_false]
    have : refs.drop index = [] := by apply List.drop_eq_nil_of_le; omega
    refine ⟨⟨[], by simp⟩, hn, ?_, ?_⟩
    · intro q; simp [this]
    · intro q hq; simp [this] at hq

/-- ids reachable from `roots` in the graph `G` (declarative reachability) -/
inductive Reach (roots : List ObjId) (G : ObjId → Option Obj) : ObjId → Prop
  | root {r} : r ∈ roots → Reach roots G r
  | step {id o r} : Reach roots G id → G id = some o → r ∈ refsOf o → Reach roots G r

/-- nothing is pushed that is not justified by the *final* graph -/
def SubSpec (refs : List ObjId) (R : Objects × List ObjId) : Prop :=
  ∀ S : ObjId → Prop, (∀ id o r, S id → R.1.get id = some o → r ∈ refsOf o → S r) →
    (∀ r ∈ refs, S r) → ∀ r ∈ R.2, S r

theorem subSpec_some (a : Action) (os : Objects) (refs : List ObjId) (index : Nat)
    (hi : index < refs.length) (o : Obj) (hg : os.get refs[index] = some o) (R : Objects × List ObjId)
    (hspec : LoopSpec a (os.set refs[index] (travObj a o refs).1) (travObj a o refs).2 (index + 1) R)
    (ih : SubSpec (travObj a o refs).2 R) : SubSpec refs R := by
  intro S hS h0
  apply ih S hS
  obtain ⟨⟨ext1, he1⟩, hnd, hget, _⟩ := hspec
  obtain ⟨ext0, he0⟩ := travObj_prefix a o refs
  have heR : R.2 = refs ++ (ext0 ++ ext1) := by rw [he1, he0]; simp
  have hlen : index < R.2.length := by rw [heR]; simp; omega
  have hidx : R.2[index]'hlen = refs[index] := by
    simp [heR, List.getElem_append_left hi]
  have hnot : refs[index] ∉ R.2.drop (index + 1) := by
    have := not_mem_drop_succ R.2 index hnd hlen
    rwa [hidx] at this
  have hfin : R.1.get refs[index] = some (deepObj a o) := by
    rw [hget, Objects.get_set]; simp [hnot, hg, (trav_eq a).1 o refs]
  intro r hr
  rw [(trav_eq a).1 o refs] at hr
  rcases mem_pushAll _ _ _ hr with h | h
  · exact h0 r h
  · exact hS _ _ _ (h0 _ (List.getElem_mem hi)) hfin h

theorem travLoop_sub (a : Action) (os : Objects) (refs : List ObjId) (index : Nat) (hn : refs.Nodup) :
    SubSpec refs (travLoop a os refs index hn) := by
  induction os, refs, index, hn using travLoop.induct (a := a) with
  | case1 os refs index hn hi o hg ih =>
    rw [travLoop]; simp only [hi, dite_true]
    split
    · rename_i o' hg'
      have : o' = o := by rw [hg] at hg'; exact (Option.some.inj hg').symm
      subst this
      exact subSpec_some a os refs index hi o' hg _ (travLoop_spec a _ _ _ _) ih
    · rename_i hg'; rw [hg] at hg'; cases hg'
  | case2 os refs index hn hi hg ih =>
    rw [travLoop]; simp only [hi, dite_true]
    split
    · rename_i o' hg'; rw [hg] at hg'; cases hg'
    · exact ih
  | case3 os refs index hn hi =>
    rw [travLoop]; simp only [hi, dite_false]
    intro S _ h0; exact h0

/-! ### `traverse_objects` -/

/-- **visits once**: the trailer and every object whose id was pushed are rewritten by the action
exactly once (`deepObj` applies the action once per node); no other object changes; no id is pushed twice. -/
theorem traverse_visits_once (a : Action) (tr : Dict) (os : Objects) :
    (traverse a tr os).1 = deepDict a tr ∧ (traverse a tr os).2.2.Nodup ∧
    ∀ q, (traverse a tr os).2.1.get q =
      if q ∈ (traverse a tr os).2.2 then (os.get q).map (deepObj a) else os.get q := by
  unfold traverse
  have h := travLoop_spec a os (travDict a tr []).2 0 (travDict_nodup a tr [] List.nodup_nil)
  refine ⟨by simp [(trav_eq a).2.1 tr []], h.2.1, ?_⟩
  intro q; simpa using h.2.2.1 q

/-- the pushed ids are closed under the references of the *result*: trailer and processed objects -/
theorem traverse_closed (a : Action) (tr : Dict) (os : Objects) :
    (∀ r ∈ refsOfD (traverse a tr os).1, r ∈ (traverse a tr os).2.2) ∧
    (∀ q ∈ (traverse a tr os).2.2, ∀ o, (traverse a tr os).2.1.get q = some o →
      ∀ r ∈ refsOf o, r ∈ (traverse a tr os).2.2) := by
  have hv := traverse_visits_once a tr os
  unfold traverse at *
  have h := travLoop_spec a os (travDict a tr []).2 0 (travDict_nodup a tr [] List.nodup_nil)
  obtain ⟨⟨ext, he⟩, _, hget, hcl⟩ := h
  constructor
  · intro r hr
    simp only at hr ⊢
    rw [he]; apply List.mem_append_left
    rw [(trav_eq a).2.1 tr []] at hr ⊢
    exact mem_pushAll_ids _ _ _ hr
  · intro q hq o ho r hr
    simp only at hq ho ⊢
    have hq' : q ∈ List.drop 0 (travLoop a os (travDict a tr []).2 0 (travDict_nodup a tr [] List.nodup_nil)).2 := by
      simpa using hq
    rw [hget q] at ho
    simp only [hq', if_true] at ho
    cases hos : os.get q with
    | none => rw [hos] at ho; cases ho
    | some o0 =>
      rw [hos] at ho; simp at ho; subst ho
      exact hcl q hq' o0 hos r hr

/-- **traverse = reachability closure**: the ids `traverse_objects` returns are exactly the ids
reachable from the (rewritten) trailer in the (rewritten) object graph. -/
theorem traverse_eq_reach (a : Action) (tr : Dict) (os : Objects) (q : ObjId) :
    q ∈ (traverse a tr os).2.2 ↔
      Reach (refsOfD (traverse a tr os).1) (fun id => (traverse a tr os).2.1.get id) q := by
  constructor
  · intro hq
    have hs := travLoop_sub a os (travDict a tr []).2 0 (travDict_nodup a tr [] List.nodup_nil)
    have : ∀ r ∈ (travDict a tr []).2, Reach (refsOfD (traverse a tr os).1) (fun id => (traverse a tr os).2.1.get id) r := by
      intro r hr
      apply Reach.root
      unfold traverse; simp only
      rw [(trav_eq a).2.1 tr []] at hr ⊢
      rcases mem_pushAll _ _ _ hr with h | h
      · simp at h
      · exact h
    exact hs _ (fun id o r hid ho hr => Reach.step hid (by unfold traverse; exact ho) hr) this q (by unfold traverse at hq; exact hq)
  · intro hr
    have hc := traverse_closed a tr os
    induction hr with
    | root h => exact hc.1 _ h
    | step _ ho hr ih => exact hc.2 _ ih _ ho _ hr

end Lopdf
