import LopdfModel.Model.Obj
/-
  `Dictionary::{get, set, remove}` (IndexMap insert / swap_remove) on dictionaries with
  distinct keys: look-ups after updates.
-/
namespace Lopdf.FileRT
open Lopdf

theorem Dict_get_set (d : Dict) (k : Bytes) (v : Obj) (k' : Bytes) :
    (d.set k v).get k' = if k = k' then some v else d.get k' := by
  induction d with
  | nil => simp [Dict.set, Dict.get]
  | cons p rest ih =>
    obtain ⟨q, w⟩ := p
    by_cases h : q = k
    · subst h
      by_cases h' : q = k' <;> simp [Dict.set, Dict.get, h']
    · by_cases h' : q = k'
      · subst h'
        simp [Dict.set, Dict.get, h, Ne.symm h]
      · simp [Dict.set, Dict.get, h, h', ih]

theorem Dict_keys_set (d : Dict) (k : Bytes) (v : Obj) :
    (d.set k v).keys = if k ∈ d.keys then d.keys else d.keys ++ [k] := by
  induction d with
  | nil => simp [Dict.set, Dict.keys]
  | cons p rest ih =>
    obtain ⟨q, w⟩ := p
    by_cases h : q = k
    · subst h; simp [Dict.set, Dict.keys]
    · have h' : ¬ k = q := fun e => h e.symm
      simp only [Dict.keys] at ih
      simp only [Dict.set, h, if_false, Dict.keys, List.map_cons, ih, List.mem_cons, h', false_or]
      split <;> rename_i hh <;> simp [hh]

theorem Dict_nodup_set (d : Dict) (k : Bytes) (v : Obj) (h : d.keys.Nodup) : (d.set k v).keys.Nodup := by
  rw [Dict_keys_set]
  split
  · exact h
  · rename_i hk
    rw [List.nodup_append]
    refine ⟨h, by simp, ?_⟩
    intro a ha b hb
    simp at hb
    subst hb
    intro e; subst e; exact hk ha

theorem Dict_get_append (a b : Dict) (k : Bytes) :
    Dict.get (a ++ b) k = (Dict.get a k).orElse (fun _ => Dict.get b k) := by
  induction a with
  | nil => simp [Dict.get]
  | cons p rest ih =>
    obtain ⟨q, w⟩ := p
    by_cases h : q = k <;> simp [Dict.get, h, ih]

theorem Dict_get_none_iff (d : Dict) (k : Bytes) : d.get k = none ↔ k ∉ d.keys := by
  induction d with
  | nil => simp [Dict.get, Dict.keys]
  | cons p rest ih =>
    obtain ⟨q, w⟩ := p
    simp only [Dict.keys] at ih
    by_cases h : q = k
    · subst h; simp [Dict.get, Dict.keys]
    · have h' : ¬ k = q := fun e => h e.symm
      simp [Dict.get, Dict.keys, h, h', ih]

theorem Dict_idxOf_none (d : Dict) (k : Bytes) (h : Dict.idxOf d k = none) : d.get k = none := by
  induction d with
  | nil => rfl
  | cons p rest ih =>
    obtain ⟨q, w⟩ := p
    by_cases hq : q = k
    · simp [Dict.idxOf, hq] at h
    · simp only [Dict.idxOf, hq, if_false, Option.map_eq_none_iff] at h
      simp [Dict.get, hq, ih h]

theorem Dict_idxOf_split (d : Dict) (k : Bytes) : ∀ (i : Nat), Dict.idxOf d k = some i →
    ∃ a v b, d = a ++ (k, v) :: b ∧ a.length = i := by
  induction d with
  | nil => intro i h; simp [Dict.idxOf] at h
  | cons p rest ih =>
    intro i h
    obtain ⟨q, w⟩ := p
    by_cases hq : q = k
    · subst hq
      simp [Dict.idxOf] at h
      exact ⟨[], w, rest, rfl, by simpa using h⟩
    · simp only [Dict.idxOf, hq, if_false, Option.map_eq_some_iff] at h
      obtain ⟨j, hj, rfl⟩ := h
      obtain ⟨a, v, b, hd, hl⟩ := ih j hj
      exact ⟨(q, w) :: a, v, b, by simp [hd], by simp [hl]⟩

theorem set_mid {α : Type} (a : List α) (x y : α) (b : List α) : (a ++ x :: b).set a.length y = a ++ y :: b := by
  induction a with
  | nil => rfl
  | cons c a ih => simp [ih]

/-- **`swap_remove` on distinct keys**: the key is gone, every other key keeps its value -/
theorem Dict_get_remove (d : Dict) (k k' : Bytes) (hn : d.keys.Nodup) :
    (d.remove k).get k' = if k = k' then none else d.get k' := by
  unfold Dict.remove
  cases hi : Dict.idxOf d k with
  | none =>
    simp only
    split
    · rename_i e; subst e; exact Dict_idxOf_none d k hi
    · rfl
  | some i =>
    obtain ⟨a, v, b, hd, hl⟩ := Dict_idxOf_split d k i hi
    subst hd
    simp only [Dict.keys, List.map_append, List.map_cons] at hn
    rw [List.nodup_append] at hn
    obtain ⟨hna, hnb, hab⟩ := hn
    have hka : k ∉ a.map (·.1) := fun hm => hab k hm k (by simp) rfl
    have hkb : k ∉ b.map (·.1) := (List.nodup_cons.mp hnb).1
    have hga : Dict.get a k = none := (Dict_get_none_iff a k).mpr hka
    rcases List.eq_nil_or_concat b with hb | ⟨b', last, hb⟩
    · subst hb
      simp only [List.getLast?_concat, List.dropLast_concat, hl, if_true]
      split
      · rename_i e; subst e; exact hga
      · rename_i e
        rw [Dict_get_append]
        simp [Dict.get, e]
    · rw [List.concat_eq_append] at hb
      subst hb
      have e1 : a ++ (k, v) :: (b' ++ [last]) = (a ++ (k, v) :: b') ++ [last] := by simp
      rw [e1]
      simp only [List.getLast?_concat, List.dropLast_concat]
      subst hl
      have hne : ¬ a.length = (a ++ (k, v) :: b').length := by simp
      rw [if_neg hne, set_mid]
      obtain ⟨lk, lv⟩ := last
      have hlk : lk ≠ k := by
        intro e; apply hkb; simp [e]
      have hlb : lk ∉ b'.map (·.1) := by
        have := (List.nodup_cons.mp hnb).2
        simp only [List.map_append, List.map_cons, List.map_nil] at this
        rw [List.nodup_append] at this
        intro hm
        exact this.2.2 lk hm lk (by simp) rfl
      have hgb : Dict.get b' lk = none := (Dict_get_none_iff b' lk).mpr hlb
      have hgkb : Dict.get b' k = none := (Dict_get_none_iff b' k).mpr (by
        intro hm; apply hkb
        simp only [List.map_append, List.mem_append]
        exact Or.inl hm)
      by_cases e : k = k'
      · subst e
        simp [Dict_get_append, Dict.get, hga, hlk, hgkb]
      · simp only [e, if_false]
        rw [Dict_get_append a, Dict_get_append (a ++ (k, v) :: b'), Dict_get_append a]
        cases hak : Dict.get a k' with
        | some x => simp
        | none =>
          by_cases hl' : lk = k'
          · subst hl'; simp [Dict.get, e, hgb]
          · cases hbk : Dict.get b' k' <;> simp [Dict.get, e, hl', hbk]

/-- the three shapes of `swap_remove` -/
theorem Dict_remove_cases (d : Dict) (k : Bytes) :
    d.remove k = d ∨ (∃ a v, d = a ++ [(k, v)] ∧ d.remove k = a) ∨
    (∃ a v b last, d = a ++ (k, v) :: (b ++ [last]) ∧ d.remove k = a ++ last :: b) := by
  unfold Dict.remove
  cases hi : Dict.idxOf d k with
  | none => exact Or.inl rfl
  | some i =>
    obtain ⟨a, v, b, hd, hl⟩ := Dict_idxOf_split d k i hi
    subst hd
    rcases List.eq_nil_or_concat b with hb | ⟨b', last, hb⟩
    · subst hb
      refine Or.inr (Or.inl ⟨a, v, rfl, ?_⟩)
      simp only [List.getLast?_concat, List.dropLast_concat, hl, if_true]
    · rw [List.concat_eq_append] at hb
      subst hb
      refine Or.inr (Or.inr ⟨a, v, b', last, rfl, ?_⟩)
      have e1 : a ++ (k, v) :: (b' ++ [last]) = (a ++ (k, v) :: b') ++ [last] := by simp
      rw [e1]
      simp only [List.getLast?_concat, List.dropLast_concat]
      subst hl
      have hne : ¬ a.length = (a ++ (k, v) :: b').length := by simp
      rw [if_neg hne, set_mid]

theorem Dict_mem_remove (d : Dict) (k : Bytes) (p : Bytes × Obj) (h : p ∈ d.remove k) : p ∈ d := by
  rcases Dict_remove_cases d k with h1 | ⟨a, v, hd, h1⟩ | ⟨a, v, b, last, hd, h1⟩
  · rw [h1] at h; exact h
  · rw [h1] at h; rw [hd]; simp [h]
  · rw [h1] at h; rw [hd]
    simp only [List.mem_append, List.mem_cons] at h ⊢
    rcases h with h | h | h
    · exact Or.inl h
    · exact Or.inr (Or.inr (Or.inr (Or.inl h)))
    · exact Or.inr (Or.inr (Or.inl h))

theorem Dict_nodup_remove (d : Dict) (k : Bytes) (hn : d.keys.Nodup) : (d.remove k).keys.Nodup := by
  rcases Dict_remove_cases d k with h1 | ⟨a, v, hd, h1⟩ | ⟨a, v, b, last, hd, h1⟩
  · rw [h1]; exact hn
  · rw [h1]; rw [hd] at hn
    simp only [Dict.keys, List.map_append, List.map_cons, List.map_nil] at hn ⊢
    exact (List.nodup_append.mp hn).1
  · rw [h1]; rw [hd] at hn
    simp only [Dict.keys, List.map_append, List.map_cons, List.map_nil] at hn ⊢
    rw [List.nodup_append] at hn ⊢
    obtain ⟨ha, hb, hab⟩ := hn
    rw [List.nodup_cons] at hb
    obtain ⟨_, hb⟩ := hb
    rw [List.nodup_append] at hb
    obtain ⟨hb1, _, hb3⟩ := hb
    refine ⟨ha, ?_, ?_⟩
    · rw [List.nodup_cons]
      refine ⟨?_, hb1⟩
      intro hm
      exact hb3 last.1 hm last.1 (by simp) rfl
    · intro x hx y hy
      apply hab x hx y
      simp only [List.mem_cons, List.mem_append] at hy ⊢
      rcases hy with hy | hy
      · exact Or.inr (Or.inr (Or.inl hy))
      · exact Or.inr (Or.inl hy)

theorem Dict_mem_set (d : Dict) (k : Bytes) (v : Obj) (p : Bytes × Obj) (h : p ∈ d.set k v) :
    p ∈ d ∨ p = (k, v) := by
  induction d with
  | nil => simp [Dict.set] at h; exact Or.inr h
  | cons q rest ih =>
    obtain ⟨k', v'⟩ := q
    by_cases hk : k' = k
    · simp only [Dict.set, hk, if_true, List.mem_cons] at h
      rcases h with h | h
      · exact Or.inr h
      · exact Or.inl (by simp [h])
    · simp only [Dict.set, hk, if_false, List.mem_cons] at h
      rcases h with h | h
      · exact Or.inl (by simp [h])
      · rcases ih h with h' | h'
        · exact Or.inl (by simp [h'])
        · exact Or.inr h'

theorem Dict_has_eq (d : Dict) (k : Bytes) : d.has k = (d.get k).isSome := rfl

end Lopdf.FileRT
