import LopdfModel.Lemmas.Lex
/-
  Literal strings without parentheses: what `write_string` emits and how `literal_string`
  reads it back.
-/
namespace Lopdf
open Gen

/-- no `(` or `)` in the string -/
def NoParens (s : Bytes) : Prop := ∀ b ∈ s, b ≠ 40 ∧ b ≠ 41

def needsEsc (b : UInt8) : Bool := b = 92 || b = 13

/-- membership in the escape-index list computed by the first pass, for strings without
parentheses: exactly the positions of `\\` and CR (plus what was there before) -/
theorem litScan_mem_noparens (s : Bytes) (hs : NoParens s) : ∀ (i : Nat) (acc : List Nat) (j : Nat),
    j ∈ litScan i [] acc s ↔ (j ∈ acc ∨ (i ≤ j ∧ ∃ h : j - i < s.length, needsEsc (s[j - i]) = true)) := by
  induction s with
  | nil => intro i acc j; simp [litScan]
  | cons b rest ih =>
    intro i acc j
    have hb := hs b (by simp)
    have hrest : NoParens rest := fun x hx => hs x (by simp [hx])
    simp only [litScan, hb.1, hb.2, if_false]
    by_cases he : (b = 92 || b = 13) = true
    · simp only [he, if_true]
      rw [ih hrest]
      constructor
      · rintro (h | ⟨h1, h2, h3⟩)
        · rcases List.mem_cons.mp h with h | h
          · subst h; right; refine ⟨Nat.le_refl _, by simp, ?_⟩; simpa [needsEsc] using he
          · left; exact h
        · right
          refine ⟨by omega, by simp; omega, ?_⟩
          have : j - i = (j - (i + 1)) + 1 := by omega
          simp only [this, List.getElem_cons_succ]; exact h3
      · rintro (h | ⟨h1, h2, h3⟩)
        · left; exact List.mem_cons_of_mem _ h
        · by_cases hj : j = i
          · left; subst hj; simp
          · right
            have hlt : j - (i + 1) < rest.length := by simp at h2; omega
            refine ⟨by omega, hlt, ?_⟩
            have : j - i = (j - (i + 1)) + 1 := by omega
            simp only [this, List.getElem_cons_succ] at h3; exact h3
    · have he' : (b = 92 || b = 13) = false := by simpa using he
      simp only [he', Bool.false_eq_true, if_false]
      rw [ih hrest]
      constructor
      · rintro (h | ⟨h1, h2, h3⟩)
        · left; exact h
        · right
          refine ⟨by omega, by simp; omega, ?_⟩
          have : j - i = (j - (i + 1)) + 1 := by omega
          simp only [this, List.getElem_cons_succ]; exact h3
      · rintro (h | ⟨h1, h2, h3⟩)
        · left; exact h
        · by_cases hj : j = i
          · subst hj; simp [needsEsc, he'] at h3
          · right
            have hlt : j - (i + 1) < rest.length := by simp at h2; omega
            refine ⟨by omega, hlt, ?_⟩
            have : j - i = (j - (i + 1)) + 1 := by omega
            simp only [this, List.getElem_cons_succ] at h3; exact h3

/-- what the second pass emits for a string without parentheses -/
def escBytes : Bytes → Bytes
  | [] => []
  | b :: rest => (if needsEsc b then [92, if b = 13 then 114 else b] else [b]) ++ escBytes rest

theorem litEmit_noparens (esc : List Nat) : ∀ (s : Bytes) (i : Nat),
    (∀ j, i ≤ j → (esc.contains j = true ↔ ∃ h : j - i < s.length, needsEsc (s[j - i]) = true)) →
    litEmit esc i s = escBytes s := by
  intro s
  induction s with
  | nil => intro i _; simp [litEmit, escBytes]
  | cons b rest ih =>
    intro i h
    have hi := h i (Nat.le_refl _)
    simp only [Nat.sub_self, List.length_cons, Nat.zero_lt_succ, List.getElem_cons_zero, exists_true_left] at hi
    have hrest : litEmit esc (i + 1) rest = escBytes rest := by
      apply ih
      intro j hj
      rw [h j (by omega)]
      have e : j - i = (j - (i + 1)) + 1 := by omega
      constructor
      · rintro ⟨h2, h3⟩
        refine ⟨by simp at h2; omega, ?_⟩
        simp only [e, List.getElem_cons_succ] at h3; exact h3
      · rintro ⟨h2, h3⟩
        refine ⟨by simp; omega, ?_⟩
        simp only [e, List.getElem_cons_succ]; exact h3
    simp only [litEmit, escBytes, hrest]
    by_cases hb : needsEsc b = true
    · have hm : i ∈ esc := by simpa using hi.mpr hb
      simp [hm, hb]
    · have hm : i ∉ esc := by
        intro hc
        exact hb (hi.mp (by simpa using hc))
      simp [hm, hb]

theorem writeString_lit_noparens (s : Bytes) (hs : NoParens s) :
    writeString s .lit = [40] ++ escBytes s ++ [41] := by
  simp only [writeString]
  rw [litEmit_noparens _ s 0]
  intro j _
  rw [List.contains_iff_mem, litScan_mem_noparens s hs 0 [] j]
  simp

end Lopdf

namespace Lopdf
open Gen

theorem escapeSeq_backslash (r : Bytes) : escapeSeq (92 :: r) = some (some 92, r) := by
  simp [escapeSeq, octChar, isOctDigit, eol]

theorem escapeSeq_r (r : Bytes) : escapeSeq (114 :: r) = some (some 13, r) := by
  simp [escapeSeq, octChar, isOctDigit, eol]

/-- reading back the escaped form of a parenthesis-free string, up to the closing `)` -/
theorem innerLit_escBytes (depth : Nat) (rest : Bytes) : ∀ (s : Bytes), NoParens s → ∀ (fuel : Nat),
    s.length + 1 ≤ fuel → innerLit fuel depth (escBytes s ++ 41 :: rest) = (s, 41 :: rest) := by
  intro s
  induction s with
  | nil =>
    intro _ fuel hf
    cases fuel with
    | zero => simp at hf
    | succ f => simp [escBytes, innerLit]
  | cons b bs ih =>
    intro hs fuel hf
    have hb := hs b (by simp)
    have hbs : NoParens bs := fun x hx => hs x (by simp [hx])
    cases fuel with
    | zero => simp at hf
    | succ f =>
      have ih' := ih hbs f (by simp at hf ⊢; omega)
      by_cases h92 : b = 92
      · subst h92
        simp only [escBytes, needsEsc, List.cons_append, List.nil_append]
        simp only [show ((92 : UInt8) = 92 || (92 : UInt8) = 13) = true by decide, if_true,
          show ((92 : UInt8) = 13) = False by decide, if_false, List.cons_append, List.nil_append]
        unfold innerLit
        simp [escapeSeq_backslash, ih']
      · by_cases h13 : b = 13
        · subst h13
          simp only [escBytes, needsEsc, List.cons_append, List.nil_append]
          simp only [show ((13 : UInt8) = 92 || (13 : UInt8) = 13) = true by decide, if_true, List.cons_append, List.nil_append]
          unfold innerLit
          simp [escapeSeq_r, ih']
        · have hne : needsEsc b = false := by simp [needsEsc, h92, h13]
          simp only [escBytes, hne, Bool.false_eq_true, if_false, List.cons_append, List.nil_append]
          unfold innerLit
          split
          · rename_i heq; cases heq
          · rename_i r heq; injection heq with e1 _; exact absurd e1 h92
          · rename_i r heq; injection heq with e1 _; exact absurd e1 h13
          · rename_i r heq; injection heq with e1 _; exact absurd e1 h13
          · rename_i r heq; injection heq with e1 e2; subst e1; subst e2; simp [ih']
          · rename_i r heq; injection heq with e1 _; exact absurd e1 hb.1
          · rename_i heq; injection heq with e1 _; exact absurd e1 hb.2
          · rename_i heq; injection heq with e1 e2; subst e1; subst e2; simp [ih']

end Lopdf
