import LopdfModel.Model.Crypt
/- Helper lemmas for C05 / C06 (RC4, PKCS#5, CBC, dictionaries). Core Lean only. -/
namespace Lopdf.Crypt
open Lopdf Lopdf.Gen

theorem xor_cancel (a b : UInt8) : (a ^^^ b) ^^^ b = a := by
  rw [UInt8.xor_assoc, UInt8.xor_self, UInt8.xor_zero]

theorem prga_involutive (s : RState) (i j : UInt8) (d : Bytes) : prga s i j (prga s i j d) = d := by
  induction d generalizing s i j with
  | nil => simp [prga]
  | cons b rest ih => simp [prga, xor_cancel, ih]

theorem prga_length (s : RState) (i j : UInt8) (d : Bytes) : (prga s i j d).length = d.length := by
  induction d generalizing s i j with
  | nil => simp [prga]
  | cons b rest ih => simp [prga, ih]

theorem rc4_length (k d : Bytes) : (rc4 k d).length = d.length := prga_length _ _ _ _

theorem xorB_length (a b : Bytes) : (xorB a b).length = min a.length b.length := by
  simp [xorB]

theorem xorB_cancel (a b : Bytes) (h : a.length = b.length) : xorB (xorB a b) b = a := by
  induction a generalizing b with
  | nil => simp [xorB]
  | cons x xs ih =>
    cases b with
    | nil => simp at h
    | cons y ys =>
      simp at h
      have := ih ys h
      simp [xorB] at this ⊢
      exact ⟨xor_cancel x y, this⟩


theorem padLen_pos (n : Nat) : 1 ≤ padLen n ∧ padLen n ≤ 16 := by
  unfold padLen; omega

theorem pkcs5Pad_length (d : Bytes) : (pkcs5Pad d).length = d.length + padLen d.length := by
  simp [pkcs5Pad]

theorem pkcs5Pad_length_mod (d : Bytes) : (pkcs5Pad d).length % 16 = 0 := by
  rw [pkcs5Pad_length]; unfold padLen; omega

theorem pkcs5_unpad_pad (d : Bytes) : pkcs5Unpad (pkcs5Pad d) = some d := by
  have hp := padLen_pos d.length
  generalize hk : padLen d.length = k at hp
  have hk1 : k ≠ 0 := by omega
  have hv : k.toUInt8.toNat = k := by
    simp [Nat.toUInt8, UInt8.toNat_ofNat']; omega
  have hlast : (pkcs5Pad d).getLast? = some k.toUInt8 := by
    unfold pkcs5Pad; rw [hk]
    obtain ⟨m, rfl⟩ : ∃ m, k = m + 1 := ⟨k - 1, by omega⟩
    rw [List.replicate_succ', ← List.append_assoc, List.getLast?_append]
    simp
  have hne : k.toUInt8 ≠ 0 := by
    intro h; have := congrArg UInt8.toNat h; rw [hv] at this; simp at this; omega
  unfold pkcs5Unpad
  rw [hlast]
  simp only [hne, hv, false_or]
  have h16 : ¬ (k > 16) := by omega
  simp only [h16, decide_false, Bool.false_eq_true, ↓reduceIte]
  have hlen : (pkcs5Pad d).length - k = d.length := by rw [pkcs5Pad_length, hk]; omega
  rw [hlen]
  have hdrop : (pkcs5Pad d).drop d.length = List.replicate k k.toUInt8 := by
    unfold pkcs5Pad; rw [hk]; simp
  have htake : (pkcs5Pad d).take d.length = d := by
    unfold pkcs5Pad; simp
  rw [hdrop, htake]
  have : (List.replicate k k.toUInt8).dropLast.all (fun b => b == k.toUInt8) = true := by
    rw [List.dropLast_replicate, List.all_eq_true]; intro x hx
    simp [List.mem_replicate] at hx
    simp [hx.2]
  simp [this]

theorem cbcEncN_length (E : Bytes → Bytes) (hE : ∀ b, (E b).length = 16) (n : Nat) (iv d : Bytes) :
    (cbcEncN E n iv d).length = 16 * n := by
  induction n generalizing iv d with
  | zero => simp [cbcEncN]
  | succ n ih => simp [cbcEncN, hE, ih]; omega

/-- CBC decryption undoes CBC encryption for every IV and every whole number of blocks. -/
theorem cbcN_dec_enc (E D : Bytes → Bytes) (hE : ∀ b, (E b).length = 16)
    (hD : ∀ b, b.length = 16 → D (E b) = b) (n : Nat) (iv d : Bytes)
    (hiv : iv.length = 16) (hd : d.length = 16 * n) :
    cbcDecN D n iv (cbcEncN E n iv d) = d := by
  induction n generalizing iv d with
  | zero => simp at hd; simp [cbcEncN, cbcDecN, hd]
  | succ n ih =>
    simp only [cbcEncN, cbcDecN]
    have hx : (xorB (d.take 16) iv).length = 16 := by rw [xorB_length]; simp [hiv]; omega
    have hc := hE (xorB (d.take 16) iv)
    have ht : (E (xorB (d.take 16) iv) ++ cbcEncN E n (E (xorB (d.take 16) iv)) (d.drop 16)).take 16
        = E (xorB (d.take 16) iv) := by
      rw [List.take_append_of_le_length (by omega)]; rw [List.take_of_length_le (by omega)]
    have hdr : (E (xorB (d.take 16) iv) ++ cbcEncN E n (E (xorB (d.take 16) iv)) (d.drop 16)).drop 16
        = cbcEncN E n (E (xorB (d.take 16) iv)) (d.drop 16) := by
      rw [List.drop_append_of_le_length (by omega)]; rw [List.drop_of_length_le (by omega)]; simp
    rw [ht, hdr, hD _ hx, xorB_cancel _ _ (by simp [hiv]; omega), ih _ _ hc (by simp; omega)]
    exact List.take_append_drop 16 d

theorem cbc_dec_enc (E D : Bytes → Bytes) (hE : ∀ b, (E b).length = 16)
    (hD : ∀ b, b.length = 16 → D (E b) = b) (iv d : Bytes)
    (hiv : iv.length = 16) (hd : d.length % 16 = 0) :
    cbcDec D iv (cbcEnc E iv d) = d := by
  unfold cbcDec cbcEnc
  have h1 : d.length = 16 * (d.length / 16) := by omega
  rw [cbcEncN_length E hE]
  have : 16 * (d.length / 16) / 16 = d.length / 16 := by omega
  rw [this]
  exact cbcN_dec_enc E D hE hD _ iv d hiv h1

theorem cbcEnc_length (E : Bytes → Bytes) (hE : ∀ b, (E b).length = 16) (iv d : Bytes) :
    (cbcEnc E iv d).length = 16 * (d.length / 16) := cbcEncN_length E hE _ _ _


/-! ### AES filter round trip -/

/-- what the theorems need of the block cipher, per key -/
structure BlockOK (P : Prims) (key : Bytes) : Prop where
  enc_len : ∀ b, (P.aesEnc key b).length = 16
  dec_enc : ∀ b, b.length = 16 → P.aesDec key (P.aesEnc key b) = b

theorem aesEncrypt_length (P : Prims) (kl : Nat) (key iv pt ct : Bytes) (hk : BlockOK P key)
    (hiv : iv.length = 16) (h : aesEncrypt P kl key iv pt = .ok ct) :
    ct.length = 16 + (pt.length + padLen pt.length) := by
  unfold aesEncrypt at h
  split at h
  · cases h
  · injection h with h; subst h
    have := pkcs5Pad_length_mod pt
    simp [cbcEnc_length _ hk.enc_len, hiv, pkcs5Pad_length] at *
    omega

theorem aes_rt (P : Prims) (kl : Nat) (key iv pt ct : Bytes) (hk : BlockOK P key)
    (hiv : iv.length = 16) (h : aesEncrypt P kl key iv pt = .ok ct) :
    aesDecrypt P kl key ct = .ok pt := by
  have hlen := aesEncrypt_length P kl key iv pt ct hk hiv h
  have hpl := padLen_pos pt.length
  have hmod : (pt.length + padLen pt.length) % 16 = 0 := by
    have := pkcs5Pad_length_mod pt; rwa [pkcs5Pad_length] at this
  unfold aesEncrypt at h
  split at h
  · cases h
  · rename_i hkl
    injection h with h
    unfold aesDecrypt
    simp only [hkl, ↓reduceIte]
    have h1 : ¬ (ct.length % 16 ≠ 0) := by omega
    have h2 : (ct.isEmpty || decide (ct.length = 16)) = false := by
      have : ct ≠ [] := by intro e; rw [e] at hlen; simp at hlen; omega
      simp [this]; omega
    simp only [h1, h2, ↓reduceIte, Bool.false_eq_true]
    have ht : ct.take 16 = iv := by
      rw [← h, List.take_append_of_le_length (by omega), List.take_of_length_le (by omega)]
    have hd : ct.drop 16 = cbcEnc (P.aesEnc key) iv (pkcs5Pad pt) := by
      rw [← h, List.drop_append_of_le_length (by omega), List.drop_of_length_le (by omega)]; simp
    rw [ht, hd, cbc_dec_enc _ _ hk.enc_len hk.dec_enc iv _ hiv (pkcs5Pad_length_mod pt), pkcs5_unpad_pad]

/-- every crypt filter: decrypt ∘ encrypt = id, for every key, IV and plaintext -/
theorem filter_rt (P : Prims) (f : CF) (key iv pt ct : Bytes) (hk : BlockOK P key)
    (hiv : iv.length = 16) (h : f.encrypt P key iv pt = .ok ct) : f.decrypt P key ct = .ok pt := by
  cases f with
  | identity => simp [CF.encrypt] at h; simp [CF.decrypt, h]
  | rc4 =>
    simp [CF.encrypt] at h; subst h
    simp [CF.decrypt, rc4, prga_involutive]
  | aes128 => exact aes_rt P 16 key iv pt ct hk hiv h
  | aes256 => exact aes_rt P 32 key iv pt ct hk hiv h

/-! ### dictionaries -/

theorem get_set_ne (d : Dict) (k k' : Bytes) (v : Obj) (h : k ≠ k') : (d.set k v).get k' = d.get k' := by
  induction d with
  | nil => simp [Dict.set, Dict.get, h]
  | cons e rest ih =>
    obtain ⟨a, b⟩ := e
    by_cases ha : a = k
    · subst ha; simp [Dict.set, Dict.get, h]
    · simp only [Dict.set, ha, ↓reduceIte, Dict.get]; rw [ih]

theorem has_set_ne (d : Dict) (k k' : Bytes) (v : Obj) (h : k ≠ k') : (d.set k v).has k' = d.has k' := by
  simp [Dict.has, get_set_ne d k k' v h]

theorem get_set_eq (d : Dict) (k : Bytes) (v : Obj) : (d.set k v).get k = some v := by
  induction d with
  | nil => simp [Dict.set, Dict.get]
  | cons e rest ih =>
    obtain ⟨a, b⟩ := e
    by_cases ha : a = k
    · subst ha; simp [Dict.set, Dict.get]
    · simp only [Dict.set, ha, ↓reduceIte, Dict.get]; exact ih

theorem set_set (d : Dict) (k : Bytes) (v w : Obj) : (d.set k v).set k w = d.set k w := by
  induction d with
  | nil => simp [Dict.set]
  | cons e rest ih =>
    obtain ⟨a, b⟩ := e
    by_cases ha : a = k
    · subst ha; simp [Dict.set]
    · simp only [Dict.set, ha, ↓reduceIte]; rw [ih]

theorem hasType_setLength (d : Dict) (v : Obj) (t : Bytes) : hasType (d.set K_LENGTH v) t = hasType d t := by
  simp [hasType, get_set_ne d K_LENGTH K_TYPE v (by decide)]

theorem getType_setLength (d : Dict) (v : Obj) : Dict.getType (d.set K_LENGTH v) = Dict.getType d := by
  have h1 : K_LENGTH ≠ TYPE := by decide
  have h2 : K_LENGTH ≠ LINEARIZED := by decide
  simp [Dict.getType, get_set_ne d K_LENGTH TYPE v h1, has_set_ne d K_LENGTH LINEARIZED v h2]

theorem overrideFilter_setLength (st : EncState) (d : Dict) (v : Obj) :
    overrideFilter st (d.set K_LENGTH v) = overrideFilter st d := by
  simp [overrideFilter, streamFilters, get_set_ne d K_LENGTH K_FILTER v (by decide),
    get_set_ne d K_LENGTH K_DECODEPARMS v (by decide)]

theorem streamCF_setLength (st : EncState) (d : Dict) (v : Obj) :
    streamCF st (d.set K_LENGTH v) = streamCF st d := by
  simp [streamCF, overrideFilter_setLength]

theorem isXref_setLength (d : Dict) (v : Obj) (c c' : Bytes) :
    isXrefStream (.stream (d.set K_LENGTH v) c') = isXrefStream (.stream d c) := by
  simp [isXrefStream, hasType_setLength]

theorem metadataExempt_setLength (st : EncState) (d : Dict) (v : Obj) (c c' : Bytes) :
    metadataExempt st (.stream (d.set K_LENGTH v) c') = metadataExempt st (.stream d c) := by
  simp [metadataExempt, getType_setLength]

end Lopdf.Crypt
