import LopdfModel.Lemmas.Bytes
import LopdfModel.Model.Write
import LopdfModel.Model.Parse
/-
  Lemmas about the lexical layer: `spanP`, digits, the name and hex-string loops.
-/
namespace Lopdf
open Gen

/-- `spanP p (a ++ rest)` splits exactly after `a` when `a` satisfies `p` throughout and
`rest` does not start with a `p`-byte. -/
theorem spanP_append (p : UInt8 → Bool) (a rest : Bytes) (ha : ∀ b ∈ a, p b = true)
    (hr : ∀ b r, rest = b :: r → p b = false) : spanP p (a ++ rest) = (a, rest) := by
  induction a with
  | nil =>
    cases rest with
    | nil => rfl
    | cons b r => simp [spanP, hr b r rfl]
  | cons x xs ih =>
    have hx : p x = true := ha x (by simp)
    have := ih (fun b hb => ha b (by simp [hb]))
    simp [spanP, hx, this]

/-- first byte of a stop context: empty or a non-digit -/
def NoDigitAhead (rest : Bytes) : Prop := ∀ b r, rest = b :: r → isDigit b = false

theorem digit1_natDigits (n : Nat) (rest : Bytes) (hr : NoDigitAhead rest) :
    digit1 (natDigits n ++ rest) = some (natDigits n, rest) := by
  unfold digit1
  rw [spanP_append isDigit _ _ (natDigits_all_digit n) hr]
  have := natDigits_ne_nil n
  cases h : natDigits n with
  | nil => exact absurd h this
  | cons a b => rfl

/-! ### names -/

/-- per-byte facts about `write_name`'s escape decision, by complete enumeration -/
theorem name_escaped_roundtrip : ∀ b : UInt8, nameEscaped b = true →
    isHexDigit (hexDigitU (b >>> 4)) = true ∧ isHexDigit (hexDigitU (b &&& 15)) = true ∧
    (hexVal (hexDigitU (b >>> 4)) <<< 4 ||| hexVal (hexDigitU (b &&& 15))) = b := by
  apply forall_uint8; decide +kernel

theorem name_raw_regular : ∀ b : UInt8, nameEscaped b = false → (b != 35) = true ∧ isRegular b = true := by
  apply forall_uint8; decide +kernel

/-- a context in which a name ends: end of input, or a byte that is not regular
(white space or delimiter). -/
def NameStop (rest : Bytes) : Prop := ∀ b r, rest = b :: r → isRegular b = false

theorem nameBody_stop (fuel : Nat) (rest : Bytes) (h : NameStop rest) :
    nameBody fuel rest = ([], rest) := by
  cases fuel with
  | zero => rfl
  | succ f =>
    cases rest with
    | nil => rfl
    | cons b r =>
      have hb := h b r rfl
      unfold nameBody
      split
      · rename_i heq
        injection heq with h1 h2
        subst h1
        exact absurd hb (by decide)
      · rename_i b' r' heq
        injection heq with h1 h2
        subst h1
        simp [hb]
      · rename_i heq; cases heq

theorem nameBody_write (bs : Bytes) : ∀ (fuel : Nat) (rest : Bytes), NameStop rest →
    bs.length + 1 ≤ fuel → nameBody fuel (writeNameBody bs ++ rest) = (bs, rest) := by
  induction bs with
  | nil => intro fuel rest h _; simpa [writeNameBody] using nameBody_stop fuel rest h
  | cons b bs ih =>
    intro fuel rest h hf
    cases fuel with
    | zero => simp at hf
    | succ f =>
      have ih' := ih f rest h (by simp at hf ⊢; omega)
      by_cases he : nameEscaped b = true
      · obtain ⟨h1, h2, h3⟩ := name_escaped_roundtrip b he
        simp only [writeNameBody, he, if_true, hex2U, List.cons_append, List.nil_append]
        unfold nameBody
        simp [h1, h2, ih', h3]
      · have he' : nameEscaped b = false := by simpa using he
        obtain ⟨h1, h2⟩ := name_raw_regular b he'
        simp only [writeNameBody, he', Bool.false_eq_true, if_false, List.cons_append, List.nil_append]
        unfold nameBody
        split
        · rename_i heq
          injection heq with e1 e2
          subst e1
          simp at h1
        · rename_i b' r' heq
          injection heq with e1 e2
          subst e1; subst e2
          simp [h1, h2, ih']
        · rename_i heq; cases heq

theorem writeNameBody_length (n : Bytes) : n.length ≤ (writeNameBody n).length := by
  induction n with
  | nil => simp [writeNameBody]
  | cons b bs ih => simp only [writeNameBody, List.length_append, List.length_cons]; split <;> simp <;> omega

/-! ### hexadecimal strings -/

theorem writeHexBody_length (s : Bytes) : (writeHexBody s).length = 2 * s.length := by
  induction s with
  | nil => simp [writeHexBody]
  | cons b bs ih => simp [writeHexBody, hex2U, ih]; omega


theorem hexDigitU_facts : ∀ n : UInt8, n < 16 → isHexDigit (hexDigitU n) = true ∧
    isWhitespace (hexDigitU n) = false ∧ hexVal (hexDigitU n) = n := by
  apply forall_uint8; decide +kernel

theorem nibbles_join : ∀ b : UInt8, (b >>> 4) < 16 ∧ (b &&& 15) < 16 ∧ ((b >>> 4) <<< 4 ||| (b &&& 15)) = b := by
  apply forall_uint8; decide +kernel

theorem whiteSpace_nonws (d : UInt8) (r : Bytes) (h : isWhitespace d = false) :
    whiteSpace (d :: r) = d :: r := by
  simp [whiteSpace, spanP, h]

theorem hexBody_write (s : Bytes) : ∀ (fuel : Nat) (rest acc : Bytes),
    2 * s.length + 1 ≤ fuel →
    hexBody fuel (writeHexBody s ++ 62 :: rest) none acc = (acc ++ s, 62 :: rest) := by
  induction s with
  | nil =>
    intro fuel rest acc hf
    cases fuel with
    | zero => simp at hf
    | succ f =>
      simp only [writeHexBody, List.nil_append]
      unfold hexBody
      rw [whiteSpace_nonws 62 rest (by decide)]
      simp [show isHexDigit 62 = false by decide]
  | cons b s ih =>
    intro fuel rest acc hf
    obtain ⟨n1, n2, n3⟩ := nibbles_join b
    obtain ⟨a1, a2, a3⟩ := hexDigitU_facts (b >>> 4) n1
    obtain ⟨b1, b2, b3⟩ := hexDigitU_facts (b &&& 15) n2
    match fuel, hf with
    | f + 2, hf =>
      have ih' := ih f rest (acc ++ [b]) (by simp at hf ⊢; omega)
      simp only [writeHexBody, hex2U, List.cons_append, List.nil_append]
      unfold hexBody
      rw [whiteSpace_nonws _ _ a2]
      simp only [a1, if_true]
      unfold hexBody
      rw [whiteSpace_nonws _ _ b2]
      simp only [b1, if_true, a3, b3, n3]
      rw [ih']
      simp

end Lopdf
