import LopdfModel.Model.ExtractText
/-
  Bridge between the two presentations of `extract_text`'s loop: C16's `extractLoop` over `Enc`
  (Model/Text.lean) and C13's `Q13.extractLoopF` over `FontEnc` (Model/ExtractText.lean, which adds
  parsed ToUnicode CMaps).  On fonts without a ToUnicode CMap — every `FontEnc` is `.std e` — the
  two loops are the same function, and `Q13.fontEnc` returns `.std (.oneByte t)` exactly where
  C16's `getFontEncoding` returns `.oneByte t`.
-/
namespace Lopdf
open Gen Q13

/-- C16's state seen as a state of the `FontEnc` loop -/
def XState.embed (st : XState) : XStateF := { cur := st.cur.map FontEnc.std, done := st.done, text := st.text }

def stdEncs (encs : List (Bytes × Enc)) : List (Bytes × FontEnc) := encs.map fun p => (p.1, FontEnc.std p.2)

mutual
theorem collectObjF_std (e : Enc) : ∀ (o : Obj) (text : UStr), collectObjF (.std e) text o = collectObj e text o
  | .str bs f, text => by
    simp only [collectObjF, collectObj, FontEnc.decode]
    cases decodeText e bs <;> rfl
  | .arr items, text => by
    simp only [collectObjF, collectObj, collectListF_std e items text]
    cases collectList e text items <;> rfl
  | .int i, text => by simp [collectObjF, collectObj]
  | .null, text => by simp [collectObjF, collectObj]
  | .bool _, text => by simp [collectObjF, collectObj]
  | .real _, text => by simp [collectObjF, collectObj]
  | .name _, text => by simp [collectObjF, collectObj]
  | .dict _, text => by simp [collectObjF, collectObj]
  | .stream _ _, text => by simp [collectObjF, collectObj]
  | .ref _ _, text => by simp [collectObjF, collectObj]
theorem collectListF_std (e : Enc) : ∀ (os : List Obj) (text : UStr), collectListF (.std e) text os = collectList e text os
  | [], text => by simp [collectListF, collectList]
  | o :: os, text => by
    simp only [collectListF, collectList, collectObjF_std e o text]
    cases collectObj e text o with
    | ok t => exact collectListF_std e os t
    | err x => rfl
    | panic x => rfl
end

theorem lookupFontEnc_std (n : Bytes) : ∀ (encs : List (Bytes × Enc)),
    lookupFontEnc n (stdEncs encs) = (lookupEnc n encs).map FontEnc.std
  | [] => rfl
  | (k, e) :: rest => by
    simp only [stdEncs, List.map_cons, lookupFontEnc, lookupEnc]
    by_cases h : k = n
    · simp [h]
    · simp only [h, if_false]; exact lookupFontEnc_std n rest

/-- **the two loops agree** when every font encoding is a `.std` one -/
theorem extractLoopF_std (encs : List (Bytes × Enc)) : ∀ (ops : List (Bytes × List Obj)) (st : XState),
    extractLoopF (stdEncs encs) ops st.embed = extractLoop encs ops st
  | [], st => by simp [extractLoopF, extractLoop, XState.embed]
  | (op, operands) :: rest, st => by
    simp only [extractLoopF, extractLoop]
    split
    · -- Tf
      cases operands with
      | nil => rfl
      | cons f _ =>
        simp only
        cases hn : f.asName with
        | none => rfl
        | some n =>
          simp only
          have := extractLoopF_std encs rest { cur := lookupEnc n encs, done := st.done ++ st.text, text := [] }
          simpa [XState.embed, lookupFontEnc_std] using this
    · split
      · -- Tj / TJ
        cases hc : st.cur with
        | none =>
          simp only [XState.embed, hc, Option.map_none]
          have := extractLoopF_std encs rest st
          simpa [XState.embed, hc] using this
        | some e =>
          simp only [XState.embed, hc, Option.map_some, collectListF_std]
          cases hcl : collectList e st.text operands with
          | ok t =>
            simp only
            have := extractLoopF_std encs rest { st with text := t }
            simpa [XState.embed, hc] using this
          | err x => rfl
          | panic x => rfl
      · split
        · by_cases hl : st.text.getLast? = some 10
          · have := extractLoopF_std encs rest { st with text := st.text }
            simpa [XState.embed, hl] using this
          · have := extractLoopF_std encs rest { st with text := st.text ++ [10] }
            simpa [XState.embed, hl] using this
        · exact extractLoopF_std encs rest st

/-- where C16's `get_font_encoding` model answers a one-byte table, so does C13's, whatever the document -/
theorem fontEnc_of_oneByte (ext : Ext) (os : Objects) (font : Dict) (t : Table)
    (h : getFontEncoding font = some (.oneByte t)) : fontEnc ext os font = .ok (.std (.oneByte t)) := by
  have hkeys : K_Font = FONT ∧ K_Encoding = ENCODING ∧ K_ToUnicode = TOUNICODE := ⟨rfl, rfl, rfl⟩
  unfold getFontEncoding at h
  unfold fontEnc
  simp only [Dict.hasType, hkeys.1, hkeys.2.1]
  split at h
  · cases h
  · rename_i hty
    have hty' : ((font.get TYPE).bind Obj.asName == some FONT) = true := by
      simpa [bne] using hty
    simp only [hty', Bool.not_true, Bool.false_eq_true, if_false]
    split at h
    · rename_i n hn
      simp only [hn]
      split at h
      · rename_i t' hl
        simp only [Option.some.injEq, Enc.oneByte.injEq] at h
        subst h
        simp [hl]
      · split at h
        · split at h <;> cases h
        · cases h
    · rename_i hn
      simp only [hn]
      split at h
      · cases h
      · rename_i htu
        simp only [Option.some.injEq, Enc.oneByte.injEq] at h
        subst h
        have : toUnicodeStream os font = none := by
          have hg : font.get K_ToUnicode = none := by
            simpa [Dict.has, hkeys.2.2] using htu
          simp [toUnicodeStream, getDeref, hg]
        simp [this]

theorem fontEncs_std (ext : Ext) (os : Objects) : ∀ (F : List (Bytes × Dict × Table)),
    (∀ x ∈ F, getFontEncoding x.2.1 = some (.oneByte x.2.2)) →
    fontEncs ext os (F.map fun x => (x.1, x.2.1)) = .ok (stdEncs (F.map fun x => (x.1, Enc.oneByte x.2.2)))
  | [], _ => rfl
  | (k, d, t) :: rest, h => by
    have h1 := fontEnc_of_oneByte ext os d t (h (k, d, t) (by simp))
    have ih := fontEncs_std ext os rest (fun x hx => h x (by simp [hx]))
    simp only [List.map_cons, fontEncs, h1, ih, stdEncs]

end Lopdf
