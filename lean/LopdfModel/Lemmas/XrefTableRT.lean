import LopdfModel.Lemmas.FileSecs
/-
  Reading back a written cross-reference table: zero-padded fields, entry lines, subsection
  headers, `manyXrefEntries`, `pXrefSection`, `addSection`, `foldSections`.
-/
namespace Lopdf.FileRT
open Lopdf Gen

/-! ### digit fields -/

theorem digit1_digits (ds rest : Bytes) (hne : ds ≠ []) (hd : ∀ b ∈ ds, isDigit b = true)
    (hr : NoDigitAhead rest) : digit1 (ds ++ rest) = some (ds, rest) := by
  unfold digit1
  rw [spanP_append isDigit _ _ hd hr]
  cases ds with
  | nil => exact absurd rfl hne
  | cons a b => rfl

theorem digit1_none (rest : Bytes) (hr : NoDigitAhead rest) : digit1 rest = none := by
  unfold digit1
  have := spanP_append isDigit [] rest (by simp) hr
  simp only [List.nil_append] at this
  rw [this]

theorem pUnsigned_none (mx : Nat) (rest : Bytes) (hr : NoDigitAhead rest) : pUnsigned mx rest = none := by
  simp [pUnsigned, digit1_none rest hr]

theorem digitsVal_zeros (k : Nat) (ds : Bytes) : digitsVal (List.replicate k 48 ++ ds) = digitsVal ds := by
  unfold digitsVal
  rw [List.foldl_append]
  congr 1
  induction k with
  | zero => rfl
  | succ k ih => simp only [List.replicate_succ, List.foldl_cons]; simpa using ih

theorem padZero_digits (w n : Nat) : ∀ b ∈ padZero w (natDigits n), isDigit b = true := by
  intro b hb
  simp only [padZero, List.mem_append, List.mem_replicate] at hb
  rcases hb with ⟨_, rfl⟩ | hb
  · decide
  · exact natDigits_all_digit n b hb

theorem padZero_ne_nil (w n : Nat) : padZero w (natDigits n) ≠ [] := by
  simp [padZero, natDigits_ne_nil]

/-- **zero-padded field round trip**: `{:>0w}` of a number reads back as that number -/
theorem pUnsigned_padZero (mx w n : Nat) (rest : Bytes) (hn : n ≤ mx) (hr : NoDigitAhead rest) :
    pUnsigned mx (padZero w (natDigits n) ++ rest) = some (n, rest) := by
  unfold pUnsigned
  rw [digit1_digits _ _ (padZero_ne_nil w n) (padZero_digits w n) hr]
  simp [padZero, digitsVal_zeros, digitsVal_natDigits, hn]

theorem pUnsigned_natDigits (mx n : Nat) (rest : Bytes) (hn : n ≤ mx) (hr : NoDigitAhead rest) :
    pUnsigned mx (natDigits n ++ rest) = some (n, rest) := by
  unfold pUnsigned
  rw [digit1_natDigits n rest hr]
  simp [digitsVal_natDigits, hn]

/-- `pUnsigned` on a number followed by a non-digit: the number if it fits, else nothing -/
theorem pUnsigned_natDigits_cases (mx n : Nat) (rest : Bytes) (hr : NoDigitAhead rest) :
    pUnsigned mx (natDigits n ++ rest) = if n ≤ mx then some (n, rest) else none := by
  unfold pUnsigned
  rw [digit1_natDigits n rest hr]
  simp [digitsVal_natDigits]

theorem noDigit_cons (b : UInt8) (r : Bytes) (h : isDigit b = false) : NoDigitAhead (b :: r) := by
  intro b' r' e
  injection e with e1 _
  subst e1; exact h

/-! ### entry lines -/

/-- what `pXrefEntry` returns for a written line -/
def entryParsed : Option (Nat × Nat) → Nat × Nat × Bool
  | some (off, g) => (off, g, true)
  | none => (0, 65535, false)

def EntryOk : Option (Nat × Nat) → Prop
  | some (off, g) => off < 4294967296 ∧ g < 65536
  | none => True

theorem pXrefEntry_line (e : Option (Nat × Nat)) (rest : Bytes) (h : EntryOk e) :
    pXrefEntry (xrefEntryLine e ++ rest) = some (entryParsed e, rest) := by
  cases e with
  | none =>
    simp only [xrefEntryLine, List.append_assoc, List.cons_append, List.nil_append]
    unfold pXrefEntry
    rw [pUnsigned_padZero U32_MAX 10 0 _ (by decide) (noDigit_cons 32 _ (by decide))]
    simp only [Option.bind_some]
    rw [pUnsigned_padZero U32_MAX 5 65535 _ (by decide) (noDigit_cons 32 _ (by decide))]
    simp [xrefEol, entryParsed]
  | some p =>
    obtain ⟨off, g⟩ := p
    obtain ⟨h1, h2⟩ := h
    simp only [xrefEntryLine, List.append_assoc, List.cons_append, List.nil_append]
    unfold pXrefEntry
    rw [pUnsigned_padZero U32_MAX 10 off _ (by simp [U32_MAX]; omega) (noDigit_cons 32 _ (by decide))]
    simp only [Option.bind_some]
    rw [pUnsigned_padZero U32_MAX 5 g _ (by simp [U32_MAX]; omega) (noDigit_cons 32 _ (by decide))]
    simp [xrefEol, entryParsed]

/-- a subsection header is not an entry line (`manyXrefEntries` stops there) -/
theorem pXrefEntry_header (s n : Nat) (r : Bytes) :
    pXrefEntry (natDigits s ++ [32] ++ natDigits n ++ [10] ++ r) = none := by
  simp only [List.append_assoc, List.cons_append, List.nil_append]
  unfold pXrefEntry
  rw [pUnsigned_natDigits_cases U32_MAX s _ (noDigit_cons 32 _ (by decide))]
  split
  · simp only [Option.bind_some]
    rw [pUnsigned_natDigits_cases U32_MAX n _ (noDigit_cons 10 _ (by decide))]
    split <;> simp
  · simp

theorem pXrefEntry_noDigit (rest : Bytes) (hr : NoDigitAhead rest) : pXrefEntry rest = none := by
  simp [pXrefEntry, pUnsigned_none _ rest hr]

theorem manyXrefEntries_lines : ∀ (es : List (Option (Nat × Nat))) (fuel : Nat) (rest : Bytes),
    (∀ e ∈ es, EntryOk e) → pXrefEntry rest = none → es.length ≤ fuel →
    manyXrefEntries fuel ((es.map xrefEntryLine).flatten ++ rest) = (es.map entryParsed, rest) := by
  intro es
  induction es with
  | nil =>
    intro fuel rest _ hr _
    cases fuel with
    | zero => rfl
    | succ f => simp [manyXrefEntries, hr]
  | cons e es ih =>
    intro fuel rest hok hr hf
    cases fuel with
    | zero => simp at hf
    | succ f =>
      simp only [List.map_cons, List.flatten_cons, List.append_assoc, manyXrefEntries]
      rw [pXrefEntry_line e _ (hok e (by simp))]
      simp only
      rw [ih f rest (fun e' h' => hok e' (by simp [h'])) hr (by simpa using hf)]

theorem lines_length (es : List (Option (Nat × Nat))) : es.length ≤ ((es.map xrefEntryLine).flatten).length := by
  induction es with
  | nil => simp
  | cons e es ih =>
    simp only [List.map_cons, List.flatten_cons, List.length_append, List.length_cons]
    have : 1 ≤ (xrefEntryLine e).length := by
      cases e with
      | none => simp [xrefEntryLine]; omega
      | some p => simp [xrefEntryLine]; omega
    omega

/-- **one subsection reads back**: header `start count\n` and `count` 20-byte lines -/
theorem pXrefSection_bytes (s : Nat) (es : List (Option (Nat × Nat))) (rest : Bytes)
    (hs : s ≤ USIZE_MAX) (hn : es.length ≤ U32_MAX) (hok : ∀ e ∈ es, EntryOk e)
    (hr : pXrefEntry rest = none) :
    pXrefSection (xrefSectionBytes s es ++ rest) = some ((s, es.map entryParsed), rest) := by
  simp only [xrefSectionBytes, List.append_assoc, List.cons_append, List.nil_append]
  unfold pXrefSection
  rw [pUnsigned_natDigits USIZE_MAX s _ hs (noDigit_cons 32 _ (by decide))]
  simp only [Option.bind_some]
  rw [pUnsigned_natDigits U32_MAX es.length _ hn (noDigit_cons 10 _ (by decide))]
  have key := fun F h => manyXrefEntries_lines es F rest hok hr h
  have hl := lines_length es
  simp only [List.length_flatten, List.map_map] at hl
  simp [eol]
  rw [key _ (by omega)]
  simp

/-! ### `addSection` -/

/-- insert the in-use assignments into a table -/
def applyAssigns (t : XTable) : List (Nat × Option (Nat × Nat)) → XTable
  | [] => t
  | (k, some (off, g)) :: rest => applyAssigns (t.insert k (.normal off g)) rest
  | (_, none) :: rest => applyAssigns t rest

theorem applyAssigns_append (a b : List (Nat × Option (Nat × Nat))) : ∀ t : XTable,
    applyAssigns t (a ++ b) = applyAssigns (applyAssigns t a) b := by
  induction a with
  | nil => intro t; rfl
  | cons p rest ih =>
    intro t
    obtain ⟨k, e⟩ := p
    cases e with
    | none => simp only [List.cons_append, applyAssigns, ih]
    | some v => obtain ⟨off, g⟩ := v; simp only [List.cons_append, applyAssigns, ih]

theorem addSection_assigns : ∀ (es : List (Option (Nat × Nat))) (t : XTable) (s idx : Nat),
    (∀ e ∈ es, EntryOk e) → s + idx + es.length ≤ 4294967296 →
    addSection t s (es.map entryParsed) idx = .ok (applyAssigns t (assignsFrom (s + idx) es)) := by
  intro es
  induction es with
  | nil => intro t s idx _ _; rfl
  | cons e es ih =>
    intro t s idx hok hb
    have hb' : s + (idx + 1) + es.length ≤ 4294967296 := by simp at hb; omega
    have ih' := fun t => ih t s (idx + 1) (fun e' h' => hok e' (by simp [h'])) hb'
    have e1 : s + (idx + 1) = s + idx + 1 := by omega
    cases e with
    | none =>
      simp only [List.map_cons, entryParsed, addSection, assignsFrom, applyAssigns]
      simp only [Bool.false_eq_true, if_false]
      rw [ih', e1]
    | some p =>
      obtain ⟨off, g⟩ := p
      obtain ⟨h1, h2⟩ := hok (some (off, g)) (by simp)
      simp only [List.map_cons, entryParsed, addSection, assignsFrom, applyAssigns, if_true]
      have hg : g ≤ U16_MAX := by simp [U16_MAX]; omega
      have hnot : ¬ (s + idx ≥ U64) := by simp [U64]; simp at hb; omega
      have hmod : (s + idx) % U32 = s + idx := by apply Nat.mod_eq_of_lt; simp [U32]; simp at hb; omega
      simp only [hg, if_true, hnot, if_false, hmod]
      rw [ih', e1]

/-! ### all sections -/

def SecOk (sec : Nat × List (Option (Nat × Nat))) : Prop :=
  sec.1 + sec.2.length ≤ 4294967295 ∧ ∀ e ∈ sec.2, EntryOk e

theorem pXrefEntry_secsBytes (secs : List (Nat × List (Option (Nat × Nat)))) (rest : Bytes)
    (hr : NoDigitAhead rest) : pXrefEntry (secsBytes secs ++ rest) = none := by
  cases secs with
  | nil => simpa [secsBytes] using pXrefEntry_noDigit rest hr
  | cons sec more =>
    obtain ⟨s, es⟩ := sec
    simp only [secsBytes, List.map_cons, List.flatten_cons, xrefSectionBytes, List.append_assoc]
    have := pXrefEntry_header s es.length
      ((es.map xrefEntryLine).flatten ++ ((more.map fun s => xrefSectionBytes s.1 s.2).flatten ++ rest))
    simpa only [List.append_assoc, xrefSectionBytes] using this

theorem secsBytes_length (secs : List (Nat × List (Option (Nat × Nat)))) : secs.length ≤ (secsBytes secs).length := by
  induction secs with
  | nil => simp [secsBytes]
  | cons sec more ih =>
    simp only [secsBytes, List.map_cons, List.flatten_cons, List.length_append, List.length_cons] at ih ⊢
    have : 1 ≤ (xrefSectionBytes sec.1 sec.2).length := by
      simp [xrefSectionBytes]; omega
    omega

theorem pXrefSection_noDigit (rest : Bytes) (hr : NoDigitAhead rest) : pXrefSection rest = none := by
  simp [pXrefSection, pUnsigned_none _ rest hr]

/-- **`fold_many1(xref_section)`** over the written sections: all of them are read, each entry
lands under its own object number, and the fold stops at the first non-digit -/
theorem foldSections_secs : ∀ (secs : List (Nat × List (Option (Nat × Nat)))) (fuel : Nat) (rest : Bytes)
    (t : XTable) (any : Bool),
    (∀ sec ∈ secs, SecOk sec) → NoDigitAhead rest → secs.length + 1 ≤ fuel → (secs ≠ [] ∨ any = true) →
    foldSections fuel (secsBytes secs ++ rest) t any = .ok (some (applyAssigns t (assigns secs), rest)) := by
  intro secs
  induction secs with
  | nil =>
    intro fuel rest t any _ hr hf hany
    have hany : any = true := by rcases hany with h | h; exact absurd rfl h; exact h
    cases fuel with
    | zero => simp at hf
    | succ f =>
      simp [secsBytes, foldSections, pXrefSection_noDigit rest hr, hany, assigns, applyAssigns]
  | cons sec more ih =>
    intro fuel rest t any hok hr hf _
    obtain ⟨s, es⟩ := sec
    obtain ⟨hb, he⟩ := hok (s, es) (by simp)
    simp only at hb he
    cases fuel with
    | zero => simp at hf
    | succ f =>
      have hsec := pXrefSection_bytes s es (secsBytes more ++ rest) (by simp [USIZE_MAX]; omega)
        (by simp [U32_MAX]; omega) he (pXrefEntry_secsBytes more rest hr)
      have e0 : secsBytes ((s, es) :: more) ++ rest = xrefSectionBytes s es ++ (secsBytes more ++ rest) := by
        simp [secsBytes]
      rw [e0]
      simp only [foldSections, hsec]
      have ha := addSection_assigns es t s 0 he (by omega)
      simp only [Nat.add_zero] at ha
      rw [ha]
      simp only
      rw [ih f rest _ true (fun sec' h' => hok sec' (by simp [h'])) hr (by simp at hf ⊢; omega) (Or.inr rfl)]
      simp only [assigns, List.map_cons, List.flatten_cons, applyAssigns_append]

end Lopdf.FileRT
