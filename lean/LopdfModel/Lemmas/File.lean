import LopdfModel.Lemmas.Bytes
import LopdfModel.Model.File
/-
  Lemmas about the save model: digit widths, padded fields, the xref map, prefixes.
-/
namespace Lopdf
open Gen

theorem natDigits_length_le : ∀ (k n : Nat), 1 ≤ k → n < 10 ^ k → (natDigits n).length ≤ k := by
  intro k
  induction k with
  | zero => intro n h; omega
  | succ k ih =>
    intro n _ hn
    rw [natDigits]
    by_cases h : n < 10
    · simp [h]
    · simp only [h, dite_false, List.length_append, List.length_cons, List.length_nil]
      cases k with
      | zero => simp at hn; omega
      | succ k' =>
        have : n / 10 < 10 ^ (k' + 1) := by
          rw [Nat.div_lt_iff_lt_mul (by omega)]
          calc n < 10 ^ (k' + 1 + 1) := hn
            _ = 10 ^ (k' + 1) * 10 := by rw [Nat.pow_succ]
        have := ih (n / 10) (by omega) this
        omega

theorem padZero_length (w : Nat) (ds : Bytes) (h : ds.length ≤ w) : (padZero w ds).length = w := by
  simp [padZero]; omega

/-- every in-use line of a cross-reference table is exactly 20 bytes -/
theorem xrefEntryLine_length_some (off g : Nat) (ho : off < 10 ^ 10) (hg : g < 10 ^ 5) :
    (xrefEntryLine (some (off, g))).length = 20 := by
  have h1 := padZero_length 10 (natDigits off) (natDigits_length_le 10 off (by omega) ho)
  have h2 := padZero_length 5 (natDigits g) (natDigits_length_le 5 g (by omega) hg)
  simp only [xrefEntryLine, List.length_append, List.length_cons, List.length_nil, h1, h2]

theorem xrefEntryLine_length_none : (xrefEntryLine none).length = 20 := by
  have h1 := padZero_length 10 (natDigits 0) (natDigits_length_le 10 0 (by omega) (by omega))
  have h2 := padZero_length 5 (natDigits 65535) (natDigits_length_le 5 65535 (by omega) (by omega))
  simp only [xrefEntryLine, List.length_append, List.length_cons, List.length_nil, h1, h2]

/-! ### xref map -/

theorem XrefMap.get_insert_same (x : XrefMap) (n : Nat) (v : Nat × Nat) : (x.insert n v).get n = some v := by
  induction x with
  | nil => simp [XrefMap.insert, XrefMap.get]
  | cons p rest ih =>
    obtain ⟨k, v'⟩ := p
    by_cases h : k = n
    · simp [XrefMap.insert, XrefMap.get, h]
    · simp [XrefMap.insert, XrefMap.get, h, ih]

theorem XrefMap.get_insert_other (x : XrefMap) (n m : Nat) (v : Nat × Nat) (h : m ≠ n) :
    (x.insert n v).get m = x.get m := by
  induction x with
  | nil => simp [XrefMap.insert, XrefMap.get]; intro h'; exact absurd h'.symm h
  | cons p rest ih =>
    obtain ⟨k, v'⟩ := p
    by_cases hk : k = n
    · subst hk
      have : ¬ k = m := fun e => h e.symm
      simp [XrefMap.insert, XrefMap.get, this]
    · by_cases hm : k = m
      · subst hm
        simp [XrefMap.insert, XrefMap.get, h]
      · simp [XrefMap.insert, XrefMap.get, hk, hm, ih]

/-! ### dictionaries -/

theorem Dict.get_set_same (d : Dict) (k : Bytes) (v : Obj) : (d.set k v).get k = some v := by
  induction d with
  | nil => simp [Dict.set, Dict.get]
  | cons p rest ih =>
    obtain ⟨k', v'⟩ := p
    by_cases h : k' = k
    · simp [Dict.set, Dict.get, h]
    · simp [Dict.set, Dict.get, h, ih]

end Lopdf
