import LopdfModel.Lemmas.Traverse
import LopdfModel.Model.Renumber
/-
  Helper lemmas for C10: the move pass of `renumber_objects_with` at the level of `get`,
  sortedness of the temporary map, the dense assignment.
-/
namespace Lopdf

/-- the old id whose object ends at `k` (last pair with new id `k` wins, as `BTreeMap::insert` overwrites) -/
def srcOf : List (ObjId × ObjId) → ObjId → Option ObjId
  | [], _ => none
  | p :: rest, k => match srcOf rest k with
    | some o => some o
    | none => if p.2 = k then some p.1 else none

theorem moveStep_eq (bks : List Nat) (st : MoveSt) (p : ObjId × ObjId) :
    (moveStep bks st p).objects = (moveObj st p).objects ∧ (moveStep bks st p).tmp = (moveObj st p).tmp ∧
    (moveStep bks st p).replace = (moveObj st p).replace := by
  unfold moveStep; simp

theorem moveStep_objects (bks : List Nat) (st : MoveSt) (p : ObjId × ObjId) (k : ObjId) :
    (moveStep bks st p).objects.get k = if p.1 = k then none else st.objects.get k := by
  rw [(moveStep_eq bks st p).1]; unfold moveObj
  cases h : st.objects.get p.1 with
  | none =>
    by_cases hk : p.1 = k
    · subst hk; simp [h]
    · simp [hk]
  | some o => simp [Objects.get_remove]

theorem moveStep_tmp (bks : List Nat) (st : MoveSt) (p : ObjId × ObjId) (o : Obj)
    (h : st.objects.get p.1 = some o) (k : ObjId) :
    (moveStep bks st p).tmp.get k = if p.2 = k then some o else st.tmp.get k := by
  rw [(moveStep_eq bks st p).2.1]; unfold moveObj
  simp [h, Objects.get_insert]

theorem moveStep_replace (bks : List Nat) (st : MoveSt) (p : ObjId × ObjId) (o : Obj)
    (h : st.objects.get p.1 = some o) :
    (moveStep bks st p).replace = st.replace ++ [p] := by
  rw [(moveStep_eq bks st p).2.2]; unfold moveObj
  simp [h]

theorem foldl_move (bks : List Nat) (pairs : List (ObjId × ObjId)) (st : MoveSt)
    (h1 : (pairs.map (·.1)).Nodup) (h2 : ∀ p ∈ pairs, st.objects.get p.1 ≠ none) :
    (∀ k, (pairs.foldl (moveStep bks) st).objects.get k =
        if k ∈ pairs.map (·.1) then none else st.objects.get k) ∧
    (∀ k, (pairs.foldl (moveStep bks) st).tmp.get k =
        match srcOf pairs k with
        | some old => st.objects.get old
        | none => st.tmp.get k) ∧
    (pairs.foldl (moveStep bks) st).replace = st.replace ++ pairs := by
  induction pairs generalizing st with
  | nil => simp [srcOf]
  | cons p rest ih =>
    simp only [List.map_cons, List.nodup_cons] at h1
    obtain ⟨o, ho⟩ := Option.ne_none_iff_exists'.mp (h2 p (by simp))
    have h2' : ∀ q ∈ rest, (moveStep bks st p).objects.get q.1 ≠ none := by
      intro q hq
      rw [moveStep_objects]
      have : p.1 ≠ q.1 := by
        intro e; apply h1.1; rw [e]; exact List.mem_map_of_mem hq
      simp [this]; exact h2 q (by simp [hq])
    obtain ⟨i1, i2, i3⟩ := ih (moveStep bks st p) h1.2 h2'
    simp only [List.foldl_cons]
    refine ⟨?_, ?_, ?_⟩
    · intro k
      rw [i1 k, moveStep_objects]
      by_cases hk : k ∈ rest.map (·.1)
      · simp [hk]
      · by_cases hpk : p.1 = k
        · simp [hpk]
        · have : ¬ k = p.1 := fun e => hpk e.symm
          simp [hk, hpk, this]
    · intro k
      rw [i2 k]
      simp only [srcOf]
      cases hs : srcOf rest k with
      | some old =>
        simp only
        rw [moveStep_objects]
        have : p.1 ≠ old := by
          intro e; apply h1.1
          -- old is among the olds of rest
          have : ∀ (l : List (ObjId × ObjId)) k o, srcOf l k = some o → o ∈ l.map (·.1) := by
            intro l
            induction l with
            | nil => intro k o h; simp [srcOf] at h
            | cons q l ihl =>
              intro k o h
              simp only [srcOf] at h
              cases hq : srcOf l k with
              | some o' => rw [hq] at h; simp at h; subst h; simp [ihl k o' hq]
              | none => rw [hq] at h; simp at h; simp [h.2]
          rw [e]; exact this rest k old hs
        simp [this]
      | none =>
        simp only
        rw [moveStep_tmp bks st p o ho]
        by_cases hk : p.2 = k <;> simp [hk, ho]
    · rw [i3, moveStep_replace bks st p o ho]; simp

theorem idLt_iff (a b : ObjId) : idLt a b = true ↔ (a.1 < b.1 ∨ (a.1 = b.1 ∧ a.2 < b.2)) := by
  simp [idLt]
theorem idLt_trans {a b c : ObjId} (h1 : idLt a b = true) (h2 : idLt b c = true) : idLt a c = true := by
  rw [idLt_iff] at *; omega
theorem idLt_irrefl (a : ObjId) : idLt a a = false := by
  cases h : idLt a a
  · rfl
  · rw [idLt_iff] at h; omega
theorem idLt_total {a b : ObjId} (h1 : idLt a b = false) (h2 : b ≠ a) : idLt b a = true := by
  have : ¬ (idLt a b = true) := by simp [h1]
  rw [idLt_iff] at *
  have : ¬ (b.1 = a.1 ∧ b.2 = a.2) := fun e => h2 (Prod.ext e.1 e.2)
  omega

/-- keys strictly increasing -/
def Objects.Sorted (os : Objects) : Prop := os.keys.Pairwise (fun a b => idLt a b = true)

theorem Objects.mem_keys_insert (os : Objects) (k : ObjId) (v : Obj) (q : ObjId)
    (h : q ∈ (os.insert k v).keys) : q = k ∨ q ∈ os.keys := by
  induction os with
  | nil => simp [Objects.insert, Objects.keys] at h; exact Or.inl h
  | cons p rest ih =>
    obtain ⟨k0, v0⟩ := p
    simp only [Objects.insert] at h
    by_cases h1 : k0 = k
    · subst h1; simp [Objects.keys] at h ⊢; rcases h with h' | h' <;> simp [h']
    · simp only [h1, if_false] at h
      by_cases h2 : idLt k k0 = true
      · simp [h2, Objects.keys] at h ⊢; rcases h with h' | h' | h' <;> simp [h']
      · have h2' : idLt k k0 = false := by simpa using h2
        simp only [h2', Bool.false_eq_true, if_false] at h
        simp only [Objects.keys, List.map_cons, List.mem_cons] at h ⊢
        rcases h with h3 | h3
        · exact Or.inr (Or.inl h3)
        · rcases ih h3 with h4 | h4
          · exact Or.inl h4
          · exact Or.inr (Or.inr h4)

theorem Objects.sorted_insert (os : Objects) (k : ObjId) (v : Obj) (hs : os.Sorted) : (os.insert k v).Sorted := by
  induction os with
  | nil => simp [Objects.insert, Objects.Sorted, Objects.keys]
  | cons p rest ih =>
    obtain ⟨k0, v0⟩ := p
    unfold Objects.Sorted at hs ⊢
    simp only [Objects.keys, List.map_cons, List.pairwise_cons] at hs
    simp only [Objects.insert]
    by_cases h1 : k0 = k
    · subst h1; simp only [if_true, Objects.keys, List.map_cons, List.pairwise_cons]; exact hs
    · simp only [h1, if_false]
      by_cases h2 : idLt k k0 = true
      · simp only [h2, if_true, Objects.keys, List.map_cons, List.pairwise_cons]
        refine ⟨?_, hs⟩
        intro a ha
        rcases List.mem_cons.mp ha with rfl | ha
        · exact h2
        · exact idLt_trans h2 (hs.1 a ha)
      · have h2' : idLt k k0 = false := by simpa using h2
        simp only [h2', Bool.false_eq_true, if_false, Objects.keys, List.map_cons, List.pairwise_cons]
        refine ⟨?_, ih hs.2⟩
        intro a ha
        rcases Objects.mem_keys_insert rest k v a ha with rfl | ha
        · exact idLt_total h2' h1
        · exact hs.1 a ha

theorem Objects.get_none_of_not_mem (os : Objects) (k : ObjId) (h : k ∉ os.keys) : os.get k = none := by
  induction os with
  | nil => rfl
  | cons p rest ih =>
    obtain ⟨k0, v0⟩ := p
    simp only [Objects.keys, List.map_cons, List.mem_cons, not_or] at h
    simp only [Objects.get]
    have : ¬ k0 = k := fun e => h.1 e.symm
    simp [this]; exact ih h.2

/-- re-inserting a sorted map: its entries win, everything else is kept -/
theorem Objects.get_foldl_insert (l : Objects) (acc : Objects) (hs : l.Sorted) (k : ObjId) :
    (l.foldl (fun acc kv => acc.insert kv.1 kv.2) acc).get k =
      match l.get k with
      | some v => some v
      | none => acc.get k := by
  induction l generalizing acc with
  | nil => simp [Objects.get]
  | cons p rest ih =>
    obtain ⟨k0, v0⟩ := p
    unfold Objects.Sorted at hs
    simp only [Objects.keys, List.map_cons, List.pairwise_cons] at hs
    simp only [List.foldl_cons]
    rw [ih _ hs.2]
    simp only [Objects.get]
    by_cases h : k0 = k
    · subst h
      have : k0 ∉ Objects.keys rest := by
        intro hm; have := hs.1 _ hm; rw [idLt_irrefl] at this; cases this
      simp [Objects.get_none_of_not_mem rest k0 this, Objects.get_insert]
    · simp only [h, if_false]
      cases Objects.get rest k with
      | some v => rfl
      | none => simp [Objects.get_insert, h]

theorem moveObj_sorted (st : MoveSt) (p : ObjId × ObjId) (h : st.tmp.Sorted) : (moveObj st p).tmp.Sorted := by
  unfold moveObj; split
  · exact Objects.sorted_insert _ _ _ h
  · exact h

theorem foldl_move_sorted (bks : List Nat) (pairs : List (ObjId × ObjId)) (st : MoveSt) (h : st.tmp.Sorted) :
    (pairs.foldl (moveStep bks) st).tmp.Sorted := by
  induction pairs generalizing st with
  | nil => exact h
  | cons p rest ih =>
    simp only [List.foldl_cons]; apply ih
    rw [(moveStep_eq bks st p).2.1]; exact moveObj_sorted st p h

/-- **the move pass at the level of `get`**: for pairs with distinct old ids that all exist, the object
map afterwards holds, at `k`, the object of the (last) pair whose new id is `k`; an old id that was
not re-used is empty; every other key is untouched.  `replace` is exactly the list of pairs. -/
theorem movePass_get (bks : List Nat) (os : Objects) (bm : BkTable) (pairs : List (ObjId × ObjId))
    (h1 : (pairs.map (·.1)).Nodup) (h2 : ∀ p ∈ pairs, os.get p.1 ≠ none) :
    (∀ k, (movePass bks os bm pairs).objects.get k =
      match srcOf pairs k with
      | some old => os.get old
      | none => if k ∈ pairs.map (·.1) then none else os.get k) ∧
    (movePass bks os bm pairs).replace = pairs := by
  unfold movePass
  obtain ⟨i1, i2, i3⟩ := foldl_move bks pairs ⟨os, [], [], bm⟩ h1 h2
  have hs := foldl_move_sorted bks pairs ⟨os, [], [], bm⟩ (by simp [Objects.Sorted, Objects.keys])
  refine ⟨?_, by simpa using i3⟩
  intro k
  simp only
  rw [Objects.get_foldl_insert _ _ hs, i2 k, i1 k]
  cases hsrc : srcOf pairs k with
  | some old =>
    simp only
    obtain ⟨o, ho⟩ := Option.ne_none_iff_exists'.mp (h2 (old, k) (by
      have : ∀ (l : List (ObjId × ObjId)) k o, srcOf l k = some o → (o, k) ∈ l := by
        intro l
        induction l with
        | nil => intro k o h; simp [srcOf] at h
        | cons q l ihl =>
          intro k o h
          simp only [srcOf] at h
          cases hq : srcOf l k with
          | some o' => rw [hq] at h; simp at h; subst h; simp [ihl k o' hq]
          | none =>
            rw [hq] at h; simp at h
            obtain ⟨a, b⟩ := q
            simp at h; simp [← h.1, ← h.2]
      exact this pairs k old hsrc))
    simp at ho
    simp [ho]
  | none => simp [Objects.get]

/-! ### the dense pass -/

/-- the pairs the dense pass records: ids whose number changes -/
def denseSpec : List ObjId → Nat → List (ObjId × ObjId)
  | [], _ => []
  | id :: rest, s => (if id.1 ≠ s then [(id, (s, id.2))] else []) ++ denseSpec rest (s + 1)

/-- the complete assignment old id ↦ new id of the dense pass -/
def assign : List ObjId → Nat → List (ObjId × ObjId)
  | [], _ => []
  | id :: rest, s => (id, (s, id.2)) :: assign rest (s + 1)

theorem densePairs_eq (ids : List ObjId) (s : Nat) (acc : List (ObjId × ObjId)) (h : s + ids.length ≤ U32_MAXE + 1) :
    densePairs ids s acc = some (acc ++ denseSpec ids s, s + ids.length) := by
  induction ids generalizing s acc with
  | nil => simp [densePairs, denseSpec]
  | cons id rest ih =>
    simp only [List.length_cons] at h
    have h1 : ¬ (s > U32_MAXE) := by omega
    simp only [densePairs, h1, if_false]
    rw [ih (s + 1) _ (by omega)]
    simp only [denseSpec, List.length_cons]
    by_cases hid : id.1 = s
    · simp [hid]; omega
    · simp [hid]; omega

theorem assign_numbers (ids : List ObjId) (s : Nat) :
    (assign ids s).map (fun p => p.2.1) = List.range' s ids.length := by
  induction ids generalizing s with
  | nil => simp [assign]
  | cons id rest ih => simp [assign, ih, List.range'_succ]

theorem assign_gen (ids : List ObjId) (s : Nat) : ∀ p ∈ assign ids s, p.2.2 = p.1.2 := by
  induction ids generalizing s with
  | nil => simp [assign]
  | cons id rest ih =>
    intro p hp; simp only [assign, List.mem_cons] at hp
    rcases hp with rfl | hp
    · rfl
    · exact ih _ p hp

theorem assign_ge (ids : List ObjId) (s : Nat) : ∀ p ∈ assign ids s, s ≤ p.2.1 := by
  induction ids generalizing s with
  | nil => simp [assign]
  | cons id rest ih =>
    intro p hp; simp only [assign, List.mem_cons] at hp
    rcases hp with rfl | hp
    · simp
    · have := ih _ p hp; omega

theorem assign_olds (ids : List ObjId) (s : Nat) : (assign ids s).map (·.1) = ids := by
  induction ids generalizing s with
  | nil => simp [assign]
  | cons id rest ih => simp [assign, ih]

/-- one number, one object -/
theorem assign_inj (ids : List ObjId) (s : Nat) : ∀ p ∈ assign ids s, ∀ q ∈ assign ids s, p.2.1 = q.2.1 → p = q := by
  induction ids generalizing s with
  | nil => simp [assign]
  | cons id rest ih =>
    intro p hp q hq e
    simp only [assign, List.mem_cons] at hp hq
    rcases hp with rfl | hp <;> rcases hq with rfl | hq
    · rfl
    · have := assign_ge rest (s + 1) q hq; simp at e; omega
    · have := assign_ge rest (s + 1) p hp; simp at e; omega
    · exact ih _ p hp q hq e

theorem denseSpec_sub (ids : List ObjId) (s : Nat) : ∀ p ∈ denseSpec ids s, p ∈ assign ids s ∧ p.1.1 ≠ p.2.1 := by
  induction ids generalizing s with
  | nil => simp [denseSpec]
  | cons id rest ih =>
    intro p hp
    simp only [denseSpec, List.mem_append] at hp
    rcases hp with hp | hp
    · split at hp
      · simp at hp; subst hp; simp [assign]; assumption
      · simp at hp
    · have := ih _ p hp; simp [assign, this]

theorem denseSpec_mem (ids : List ObjId) (s : Nat) : ∀ p ∈ assign ids s, p.1.1 ≠ p.2.1 → p ∈ denseSpec ids s := by
  induction ids generalizing s with
  | nil => simp [assign]
  | cons id rest ih =>
    intro p hp hne
    simp only [assign, List.mem_cons] at hp
    simp only [denseSpec, List.mem_append]
    rcases hp with rfl | hp
    · left; simp at hne; simp [hne]
    · right; exact ih _ p hp hne

theorem srcOf_mem (l : List (ObjId × ObjId)) (k o : ObjId) (h : srcOf l k = some o) : (o, k) ∈ l := by
  induction l with
  | nil => simp [srcOf] at h
  | cons q l ihl =>
    simp only [srcOf] at h
    cases hq : srcOf l k with
    | some o' => rw [hq] at h; simp at h; subst h; simp [ihl hq]
    | none =>
      rw [hq] at h; simp at h
      obtain ⟨a, b⟩ := q
      simp at h; simp [← h.1, ← h.2]

theorem srcOf_some_of_mem (l : List (ObjId × ObjId)) (k o : ObjId) (h : (o, k) ∈ l) : ∃ o', srcOf l k = some o' := by
  induction l with
  | nil => simp at h
  | cons q l ihl =>
    simp only [srcOf]
    rcases List.mem_cons.mp h with rfl | h
    · cases srcOf l k <;> simp
    · obtain ⟨o', ho'⟩ := ihl h; simp [ho']

theorem insertBy_perm {α} (le : α → α → Bool) (x : α) (l : List α) : (insertBy le x l).Perm (x :: l) := by
  induction l with
  | nil => simp [insertBy]
  | cons y ys ih =>
    simp only [insertBy]; split
    · exact List.Perm.refl _
    · exact (List.Perm.cons y ih).trans (List.Perm.swap x y ys)

theorem sortBy_perm {α} (le : α → α → Bool) (l : List α) : (sortBy le l).Perm l := by
  induction l with
  | nil => simp [sortBy]
  | cons x xs ih =>
    simp only [sortBy, List.foldr_cons] at *
    exact (insertBy_perm le x _).trans (List.Perm.cons x ih)

theorem Objects.get_isSome_of_mem (os : Objects) (k : ObjId) (h : k ∈ os.keys) : (os.get k).isSome := by
  induction os with
  | nil => simp [Objects.keys] at h
  | cons p rest ih =>
    obtain ⟨k0, v0⟩ := p
    simp only [Objects.keys, List.map_cons, List.mem_cons] at h
    simp only [Objects.get]
    by_cases e : k0 = k
    · simp [e]
    · simp only [e, if_false]; apply ih
      rcases h with h | h
      · exact absurd h.symm e
      · exact h

theorem Objects.mem_keys_iff (os : Objects) (k : ObjId) : k ∈ os.keys ↔ (os.get k).isSome := by
  constructor
  · exact Objects.get_isSome_of_mem os k
  · intro h
    cases hg : os.get k with
    | none => rw [hg] at h; cases h
    | some v => exact Objects.mem_keys_of_get hg

theorem denseSpec_olds_sublist (ids : List ObjId) (s : Nat) : ((denseSpec ids s).map (·.1)).Sublist ids := by
  induction ids generalizing s with
  | nil => simp [denseSpec]
  | cons id rest ih =>
    simp only [denseSpec, List.map_append]
    split
    · simp; exact ih _
    · simp; exact List.Sublist.cons _ (ih _)

theorem eq_of_nodup_map_fst {l : List (ObjId × ObjId)} (hn : (l.map (·.1)).Nodup) {p q : ObjId × ObjId}
    (hp : p ∈ l) (hq : q ∈ l) (e : p.1 = q.1) : p = q := by
  induction l with
  | nil => simp at hp
  | cons x xs ih =>
    simp only [List.map_cons, List.nodup_cons] at hn
    rcases List.mem_cons.mp hp with rfl | hp' <;> rcases List.mem_cons.mp hq with rfl | hq'
    · rfl
    · exact absurd (e ▸ List.mem_map_of_mem hq') hn.1
    · exact absurd (e ▸ List.mem_map_of_mem hp') hn.1
    · exact ih hn.2 hp' hq'

/-- after the move pass of the dense renumbering, exactly the new ids of the assignment hold objects -/
theorem dense_move_isSome (bks : List Nat) (os : Objects) (bm : BkTable) (ids : List ObjId) (s : Nat)
    (hn : ids.Nodup) (hk : ∀ k, k ∈ ids ↔ (os.get k).isSome) (k : ObjId) :
    ((movePass bks os bm (denseSpec ids s)).objects.get k).isSome ↔ ∃ p ∈ assign ids s, p.2 = k := by
  have h1 : ((denseSpec ids s).map (·.1)).Nodup := (denseSpec_olds_sublist ids s).nodup hn
  have hmemid : ∀ p ∈ assign ids s, p.1 ∈ ids := by
    intro p hp; rw [← assign_olds ids s]; exact List.mem_map_of_mem hp
  have h2 : ∀ p ∈ denseSpec ids s, os.get p.1 ≠ none := by
    intro p hp
    have := (hk p.1).mp (hmemid p (denseSpec_sub ids s p hp).1)
    intro e; rw [e] at this; cases this
  have hasn : ((assign ids s).map (·.1)).Nodup := by rw [assign_olds]; exact hn
  rw [(movePass_get bks os bm _ h1 h2).1 k]
  constructor
  · intro h
    cases hs : srcOf (denseSpec ids s) k with
    | some old =>
      exact ⟨(old, k), (denseSpec_sub ids s _ (srcOf_mem _ _ _ hs)).1, rfl⟩
    | none =>
      rw [hs] at h; simp only at h
      by_cases hko : k ∈ (denseSpec ids s).map (·.1)
      · simp [hko] at h
      · simp only [hko, if_false] at h
        have hkid := (hk k).mpr h
        rw [← assign_olds ids s] at hkid
        obtain ⟨p, hp, hpk⟩ := List.mem_map.mp hkid
        by_cases hmv : p.1.1 = p.2.1
        · refine ⟨p, hp, ?_⟩
          rw [← hpk]; exact Prod.ext hmv.symm (assign_gen ids s p hp)
        · exact absurd (hpk ▸ List.mem_map_of_mem (denseSpec_mem ids s p hp hmv)) hko
  · rintro ⟨p, hp, rfl⟩
    by_cases hmv : p.1.1 = p.2.1
    · have hpe : p.2 = p.1 := Prod.ext hmv.symm (assign_gen ids s p hp)
      cases hs : srcOf (denseSpec ids s) p.2 with
      | some old =>
        have hq := denseSpec_sub ids s _ (srcOf_mem _ _ _ hs)
        have := assign_inj ids s _ hq.1 p hp rfl
        rw [← this] at hmv; exact absurd hmv hq.2
      | none =>
        simp only
        have hko : p.2 ∉ (denseSpec ids s).map (·.1) := by
          intro hm
          obtain ⟨q, hq, hqk⟩ := List.mem_map.mp hm
          have hq' := denseSpec_sub ids s q hq
          have : q = p := eq_of_nodup_map_fst hasn hq'.1 hp (by rw [hqk, hpe])
          rw [this] at hq'; exact hq'.2 hmv
        simp only [hko, if_false]
        rw [hpe]; exact (hk p.1).mp (hmemid p hp)
    · obtain ⟨o', ho'⟩ := srcOf_some_of_mem _ p.2 p.1 (denseSpec_mem ids s p hp hmv)
      rw [ho']; simp only
      exact (hk o').mp (hmemid _ (denseSpec_sub ids s _ (srcOf_mem _ _ _ ho')).1)


end Lopdf
