import LopdfModel.Lemmas.Lit
/-
  Literal strings, full round trip: `write_string`'s two passes (`litScan` marks the bytes to
  escape with a stack of open parentheses, `litEmit` writes them) against `inner_literal_string`.

  The string is described by a recursive specification `Seg op j t mask`: `t` scanned from stack
  height `j` never goes below `j`; `mask` says which bytes are escaped. `op = false`: the scan
  returns to height `j` (every `(` pushed in `t` is popped in `t`); `op = true`: `(` that are never
  popped may remain (they are escaped). Three facts:
    * every string scanned from height 0 has such a description (`seg_exists`),
    * `litScan` computes exactly the positions marked in `mask` (`scan_seg`),
    * `innerLit` reads back the bytes emitted for `mask` (`parse_seg`).
-/
namespace Lopdf.LitRt
open Lopdf Gen

inductive Seg : Bool → Nat → Bytes → List Bool → Prop
  | nil (op : Bool) (j : Nat) : Seg op j [] []
  | plain (op : Bool) (j : Nat) (b : UInt8) (t : Bytes) (m : List Bool) :
      b ≠ 40 → b ≠ 41 → b ≠ 92 → b ≠ 13 → Seg op j t m → Seg op j (b :: t) (false :: m)
  | esc (op : Bool) (j : Nat) (b : UInt8) (t : Bytes) (m : List Bool) :
      (b = 92 ∨ b = 13) → Seg op j t m → Seg op j (b :: t) (true :: m)
  | deep (op : Bool) (j : Nat) (t : Bytes) (m : List Bool) :
      MAX_BRACKET ≤ j → Seg op j t m → Seg op j (40 :: t) (true :: m)
  | close0 (op : Bool) (t : Bytes) (m : List Bool) :
      Seg op 0 t m → Seg op 0 (41 :: t) (true :: m)
  | unmatched (j : Nat) (t : Bytes) (m : List Bool) :
      j < MAX_BRACKET → Seg true (j + 1) t m → Seg true j (40 :: t) (true :: m)
  | group (op : Bool) (j : Nat) (t1 : Bytes) (m1 : List Bool) (t2 : Bytes) (m2 : List Bool) :
      j < MAX_BRACKET → Seg false (j + 1) t1 m1 → Seg op j t2 m2 →
      Seg op j (40 :: (t1 ++ 41 :: t2)) (false :: (m1 ++ false :: m2))

theorem Seg.length_eq {op : Bool} {j : Nat} {t : Bytes} {m : List Bool} (h : Seg op j t m) :
    m.length = t.length := by
  induction h <;> simp_all <;> omega

/-! ### every string has a description -/

theorem seg_exists : ∀ (n : Nat) (t : Bytes), t.length ≤ n → ∀ j : Nat,
    (∃ m, Seg true j t m) ∨
    (0 < j ∧ ∃ t1 t2 m1, t = t1 ++ 41 :: t2 ∧ Seg false j t1 m1) := by
  intro n
  induction n with
  | zero =>
    intro t ht j
    have : t = [] := by cases t <;> simp_all
    subst this
    exact Or.inl ⟨[], Seg.nil true j⟩
  | succ n ih =>
    intro t ht j
    cases t with
    | nil => exact Or.inl ⟨[], Seg.nil true j⟩
    | cons b r =>
      have hr : r.length ≤ n := by simp at ht; omega
      by_cases h40 : b = 40
      · subst h40
        by_cases hj : MAX_BRACKET ≤ j
        · rcases ih r hr j with ⟨m, hm⟩ | ⟨hpos, t1, t2, m1, e, h1⟩
          · exact Or.inl ⟨true :: m, Seg.deep true j r m hj hm⟩
          · exact Or.inr ⟨hpos, 40 :: t1, t2, true :: m1, by simp [e], Seg.deep false j t1 m1 hj h1⟩
        · have hj' : j < MAX_BRACKET := by omega
          rcases ih r hr (j + 1) with ⟨m, hm⟩ | ⟨_, t1, t2, m1, e, h1⟩
          · exact Or.inl ⟨true :: m, Seg.unmatched j r m hj' hm⟩
          · have ht2 : t2.length ≤ n := by
              have := congrArg List.length e
              simp at this; omega
            rcases ih t2 ht2 j with ⟨m2, hm2⟩ | ⟨hpos, t1', t2', m1', e', h1'⟩
            · exact Or.inl ⟨false :: (m1 ++ false :: m2), by rw [e]; exact Seg.group true j t1 m1 t2 m2 hj' h1 hm2⟩
            · refine Or.inr ⟨hpos, 40 :: (t1 ++ 41 :: t1'), t2', false :: (m1 ++ false :: m1'), ?_,
                Seg.group false j t1 m1 t1' m1' hj' h1 h1'⟩
              rw [e, e']; simp
      · by_cases h41 : b = 41
        · subst h41
          cases j with
          | zero =>
            rcases ih r hr 0 with ⟨m, hm⟩ | ⟨hpos, _⟩
            · exact Or.inl ⟨true :: m, Seg.close0 true r m hm⟩
            · omega
          | succ j => exact Or.inr ⟨by omega, [], r, [], rfl, Seg.nil false (j + 1)⟩
        · by_cases hesc : b = 92 ∨ b = 13
          · rcases ih r hr j with ⟨m, hm⟩ | ⟨hpos, t1, t2, m1, e, h1⟩
            · exact Or.inl ⟨true :: m, Seg.esc true j b r m hesc hm⟩
            · exact Or.inr ⟨hpos, b :: t1, t2, true :: m1, by simp [e], Seg.esc false j b t1 m1 hesc h1⟩
          · have h92 : b ≠ 92 := fun h => hesc (Or.inl h)
            have h13 : b ≠ 13 := fun h => hesc (Or.inr h)
            rcases ih r hr j with ⟨m, hm⟩ | ⟨hpos, t1, t2, m1, e, h1⟩
            · exact Or.inl ⟨false :: m, Seg.plain true j b r m h40 h41 h92 h13 hm⟩
            · exact Or.inr ⟨hpos, b :: t1, t2, false :: m1, by simp [e], Seg.plain false j b t1 m1 h40 h41 h92 h13 h1⟩

/-! ### the first pass computes the marked positions -/

/-- positions (counted from `i`) marked in a mask -/
def EscSet : Nat → List Bool → Nat → Prop
  | _, [], _ => False
  | i, m :: ms, x => (x = i ∧ m = true) ∨ EscSet (i + 1) ms x

theorem EscSet_ge : ∀ (m : List Bool) (i x : Nat), EscSet i m x → i ≤ x := by
  intro m
  induction m with
  | nil => intro i x h; simp [EscSet] at h
  | cons a ms ih =>
    intro i x h
    rcases h with ⟨rfl, _⟩ | h
    · exact Nat.le_refl _
    · have := ih (i + 1) x h; omega

theorem EscSet_append : ∀ (m1 m2 : List Bool) (i x : Nat),
    EscSet i (m1 ++ m2) x ↔ EscSet i m1 x ∨ EscSet (i + m1.length) m2 x := by
  intro m1
  induction m1 with
  | nil => intro m2 i x; simp [EscSet]
  | cons a ms ih =>
    intro m2 i x
    simp only [List.cons_append, EscSet, ih m2 (i + 1) x, List.length_cons]
    have e : i + 1 + ms.length = i + (ms.length + 1) := by omega
    rw [e]
    constructor
    · rintro (h | h | h)
      · exact Or.inl (Or.inl h)
      · exact Or.inl (Or.inr h)
      · exact Or.inr h
    · rintro ((h | h) | h)
      · exact Or.inl h
      · exact Or.inr (Or.inl h)
      · exact Or.inr (Or.inr h)

theorem litScan_plain (i : Nat) (st acc : List Nat) (b : UInt8) (r : Bytes)
    (h40 : b ≠ 40) (h41 : b ≠ 41) (h92 : b ≠ 92) (h13 : b ≠ 13) :
    litScan i st acc (b :: r) = litScan (i + 1) st acc r := by
  simp [litScan, h40, h41, h92, h13]

theorem litScan_esc (i : Nat) (st acc : List Nat) (b : UInt8) (r : Bytes) (h : b = 92 ∨ b = 13) :
    litScan i st acc (b :: r) = litScan (i + 1) st (i :: acc) r := by
  rcases h with rfl | rfl <;> simp [litScan]

theorem litScan_open_deep (i : Nat) (st acc : List Nat) (r : Bytes) (h : MAX_BRACKET ≤ st.length) :
    litScan i st acc (40 :: r) = litScan (i + 1) st (i :: acc) r := by
  simp [litScan, h]

theorem litScan_open_push (i : Nat) (st acc : List Nat) (r : Bytes) (h : st.length < MAX_BRACKET) :
    litScan i st acc (40 :: r) = litScan (i + 1) (i :: st) acc r := by
  have : ¬ MAX_BRACKET ≤ st.length := by omega
  simp [litScan, this]

theorem litScan_close_pop (i : Nat) (s0 : Nat) (st acc : List Nat) (r : Bytes) :
    litScan i (s0 :: st) acc (41 :: r) = litScan (i + 1) st acc r := by
  simp [litScan]

theorem litScan_close_empty (i : Nat) (acc : List Nat) (r : Bytes) :
    litScan i [] acc (41 :: r) = litScan (i + 1) [] (i :: acc) r := by
  simp [litScan]

theorem scan_seg {op : Bool} {j : Nat} {t : Bytes} {mask : List Bool} (h : Seg op j t mask) :
    ∀ (i : Nat) (st acc : List Nat) (u : Bytes), st.length = j →
    ∃ (st2 acc2 : List Nat), litScan i st acc (t ++ u) = litScan (i + t.length) (st2 ++ st) acc2 u ∧
      (∀ x, (x ∈ acc2 ∨ x ∈ st2) ↔ (x ∈ acc ∨ EscSet i mask x)) ∧ (op = false → st2 = []) := by
  induction h with
  | nil op j =>
    intro i st acc u _
    exact ⟨[], acc, by simp, by simp [EscSet], fun _ => rfl⟩
  | plain op j b t m h40 h41 h92 h13 _ ih =>
    intro i st acc u hst
    obtain ⟨st2, acc2, e, hx, hop⟩ := ih (i + 1) st acc u hst
    refine ⟨st2, acc2, ?_, ?_, hop⟩
    · rw [List.cons_append, litScan_plain i st acc b _ h40 h41 h92 h13, e]
      simp only [List.length_cons]
      rw [show i + 1 + t.length = i + (t.length + 1) by omega]
    · intro x; rw [hx x]; simp [EscSet]
  | esc op j b t m hb _ ih =>
    intro i st acc u hst
    obtain ⟨st2, acc2, e, hx, hop⟩ := ih (i + 1) st (i :: acc) u hst
    refine ⟨st2, acc2, ?_, ?_, hop⟩
    · rw [List.cons_append, litScan_esc i st acc b _ hb, e]
      simp only [List.length_cons]
      rw [show i + 1 + t.length = i + (t.length + 1) by omega]
    · intro x; rw [hx x]; simp only [EscSet, List.mem_cons, and_true]
      constructor
      · rintro ((h | h) | h)
        · exact Or.inr (Or.inl h)
        · exact Or.inl h
        · exact Or.inr (Or.inr h)
      · rintro (h | h | h)
        · exact Or.inl (Or.inr h)
        · exact Or.inl (Or.inl h)
        · exact Or.inr h
  | deep op j t m hj _ ih =>
    intro i st acc u hst
    obtain ⟨st2, acc2, e, hx, hop⟩ := ih (i + 1) st (i :: acc) u hst
    refine ⟨st2, acc2, ?_, ?_, hop⟩
    · rw [List.cons_append, litScan_open_deep i st acc _ (by omega), e]
      simp only [List.length_cons]
      rw [show i + 1 + t.length = i + (t.length + 1) by omega]
    · intro x; rw [hx x]; simp only [EscSet, List.mem_cons, and_true]
      constructor
      · rintro ((h | h) | h)
        · exact Or.inr (Or.inl h)
        · exact Or.inl h
        · exact Or.inr (Or.inr h)
      · rintro (h | h | h)
        · exact Or.inl (Or.inr h)
        · exact Or.inl (Or.inl h)
        · exact Or.inr h
  | close0 op t m _ ih =>
    intro i st acc u hst
    have hnil : st = [] := List.length_eq_zero_iff.mp hst
    subst hnil
    obtain ⟨st2, acc2, e, hx, hop⟩ := ih (i + 1) [] (i :: acc) u rfl
    refine ⟨st2, acc2, ?_, ?_, hop⟩
    · rw [List.cons_append, litScan_close_empty i acc _, e]
      simp only [List.length_cons]
      rw [show i + 1 + t.length = i + (t.length + 1) by omega]
    · intro x; rw [hx x]; simp only [EscSet, List.mem_cons, and_true]
      constructor
      · rintro ((h | h) | h)
        · exact Or.inr (Or.inl h)
        · exact Or.inl h
        · exact Or.inr (Or.inr h)
      · rintro (h | h | h)
        · exact Or.inl (Or.inr h)
        · exact Or.inl (Or.inl h)
        · exact Or.inr h
  | unmatched j t m hj _ ih =>
    intro i st acc u hst
    obtain ⟨st2, acc2, e, hx, _⟩ := ih (i + 1) (i :: st) acc u (by simp [hst])
    refine ⟨st2 ++ [i], acc2, ?_, ?_, fun h => by cases h⟩
    · rw [List.cons_append, litScan_open_push i st acc _ (by omega), e]
      simp only [List.length_cons, List.append_assoc, List.cons_append, List.nil_append]
      rw [show i + 1 + t.length = i + (t.length + 1) by omega]
    · intro x
      simp only [List.mem_append, List.mem_singleton, EscSet, and_true]
      have := hx x
      constructor
      · rintro (h | h | h)
        · rcases this.mp (Or.inl h) with h' | h'
          · exact Or.inl h'
          · exact Or.inr (Or.inr h')
        · rcases this.mp (Or.inr h) with h' | h'
          · exact Or.inl h'
          · exact Or.inr (Or.inr h')
        · exact Or.inr (Or.inl h)
      · rintro (h | h | h)
        · rcases this.mpr (Or.inl h) with h' | h'
          · exact Or.inl h'
          · exact Or.inr (Or.inl h')
        · exact Or.inr (Or.inr h)
        · rcases this.mpr (Or.inr h) with h' | h'
          · exact Or.inl h'
          · exact Or.inr (Or.inl h')
  | group op j t1 m1 t2 m2 hj h1 _ ih1 ih2 =>
    intro i st acc u hst
    obtain ⟨st1, acc1, e1, hx1, hop1⟩ := ih1 (i + 1) (i :: st) acc (41 :: (t2 ++ u)) (by simp [hst])
    have hst1 : st1 = [] := hop1 rfl
    subst hst1
    obtain ⟨st2, acc2, e2, hx2, hop2⟩ := ih2 (i + 1 + t1.length + 1) st acc1 u hst
    refine ⟨st2, acc2, ?_, ?_, hop2⟩
    · have ea : 40 :: (t1 ++ 41 :: t2) ++ u = 40 :: (t1 ++ 41 :: (t2 ++ u)) := by simp
      rw [ea, litScan_open_push i st acc _ (by omega), e1]
      simp only [List.nil_append]
      rw [litScan_close_pop, e2]
      simp only [List.length_cons, List.length_append]
      rw [show i + 1 + t1.length + 1 + t2.length = i + (t1.length + (t2.length + 1) + 1) by omega]
    · intro x
      rw [hx2 x]
      have h1x := hx1 x
      simp only [List.not_mem_nil, or_false] at h1x
      rw [h1x]
      simp only [EscSet, Bool.false_eq_true, and_false, false_or]
      rw [EscSet_append]
      simp only [EscSet, Bool.false_eq_true, and_false, false_or]
      rw [h1.length_eq]
      constructor
      · rintro ((h | h) | h)
        · exact Or.inl h
        · exact Or.inr (Or.inl h)
        · exact Or.inr (Or.inr h)
      · rintro (h | h | h)
        · exact Or.inl (Or.inl h)
        · exact Or.inl (Or.inr h)
        · exact Or.inr h

/-! ### the second pass -/

/-- bytes emitted for a mask -/
def emitMask : Bytes → List Bool → Bytes
  | b :: t, m :: ms => (if m then [92, if b = 13 then 114 else b] else [b]) ++ emitMask t ms
  | _, _ => []

theorem litEmit_mask (esc : List Nat) : ∀ (t : Bytes) (mask : List Bool) (i : Nat), mask.length = t.length →
    (∀ x, i ≤ x → (x ∈ esc ↔ EscSet i mask x)) → litEmit esc i t = emitMask t mask := by
  intro t
  induction t with
  | nil => intro mask i _ _; cases mask <;> simp [litEmit, emitMask]
  | cons b r ih =>
    intro mask i hl hx
    cases mask with
    | nil => simp at hl
    | cons m ms =>
      have hr : litEmit esc (i + 1) r = emitMask r ms := by
        apply ih ms (i + 1) (by simpa using hl)
        intro x hxi
        rw [hx x (by omega)]
        simp only [EscSet]
        constructor
        · rintro (⟨h, _⟩ | h)
          · omega
          · exact h
        · exact Or.inr
      have hi := hx i (Nat.le_refl _)
      simp only [EscSet, true_and] at hi
      have hno : ¬ EscSet (i + 1) ms i := fun h => by have := EscSet_ge _ _ _ h; omega
      simp only [litEmit, emitMask, hr]
      cases m
      · have : i ∉ esc := fun h => by rcases hi.mp h with h | h; exact absurd h (by simp); exact hno h
        simp [this]
      · have : i ∈ esc := hi.mpr (Or.inl rfl)
        simp [this]

/-! ### reading back -/

theorem escapeSeq_paren (b : UInt8) (r : Bytes) (h : b = 40 ∨ b = 41) : escapeSeq (b :: r) = some (some b, r) := by
  rcases h with rfl | rfl <;> simp [escapeSeq, octChar, isOctDigit, eol]

theorem innerLit_close (fuel d : Nat) (X : Bytes) : innerLit (fuel + 1) d (41 :: X) = ([], 41 :: X) := by
  simp [innerLit]

theorem innerLit_escaped (fuel d : Nat) (b c : UInt8) (r : Bytes) (h : escapeSeq (b :: r) = some (some c, r))
    (p : Bytes × Bytes) (hp : innerLit fuel d r = p) :
    innerLit (fuel + 1) d (92 :: b :: r) = (c :: p.1, p.2) := by
  unfold innerLit
  simp [h, hp]

theorem innerLit_plain (fuel d : Nat) (b : UInt8) (r : Bytes)
    (h40 : b ≠ 40) (h41 : b ≠ 41) (h92 : b ≠ 92) (h13 : b ≠ 13)
    (p : Bytes × Bytes) (hp : innerLit fuel d r = p) :
    innerLit (fuel + 1) d (b :: r) = (b :: p.1, p.2) := by
  unfold innerLit
  split
  · rename_i heq; cases heq
  · rename_i r' heq; injection heq with e1 _; exact absurd e1 h92
  · rename_i r' heq; injection heq with e1 _; exact absurd e1 h13
  · rename_i r' heq; injection heq with e1 _; exact absurd e1 h13
  · rename_i r' heq; injection heq with e1 e2; subst e1; subst e2; simp [hp]
  · rename_i r' heq; injection heq with e1 _; exact absurd e1 h40
  · rename_i heq; injection heq with e1 _; exact absurd e1 h41
  · rename_i heq; injection heq with e1 e2; subst e1; subst e2; simp [hp]

theorem innerLit_group (fuel d : Nat) (r inner r2 out r3 : Bytes)
    (h1 : innerLit fuel d r = (inner, 41 :: r2)) (h2 : innerLit fuel (d + 1) r2 = (out, r3)) :
    innerLit (fuel + 1) (d + 1) (40 :: r) = ([40] ++ inner ++ [41] ++ out, r3) := by
  unfold innerLit
  simp [h1, h2]

theorem parse_seg {op : Bool} {j : Nat} {t : Bytes} {mask : List Bool} (h : Seg op j t mask) :
    ∀ (fuel d : Nat) (X : Bytes), MAX_BRACKET ≤ d + j → (emitMask t mask).length + 1 ≤ fuel →
      innerLit fuel d (emitMask t mask ++ 41 :: X) = (t, 41 :: X) := by
  induction h with
  | nil op j =>
    intro fuel d X _ hf
    cases fuel with
    | zero => simp at hf
    | succ f => simpa [emitMask] using innerLit_close f d X
  | plain op j b t m h40 h41 h92 h13 _ ih =>
    intro fuel d X hd hf
    cases fuel with
    | zero => simp at hf
    | succ f =>
      simp only [emitMask, Bool.false_eq_true, if_false, List.cons_append, List.nil_append, List.length_cons] at hf ⊢
      rw [innerLit_plain f d b _ h40 h41 h92 h13 _ (ih f d X hd (by omega))]
  | esc op j b t m hb _ ih =>
    intro fuel d X hd hf
    cases fuel with
    | zero => simp at hf
    | succ f =>
      simp only [emitMask, if_true, List.cons_append, List.nil_append, List.length_cons] at hf ⊢
      rcases hb with rfl | rfl
      · simp only [show ((92 : UInt8) = 13) = False by decide, if_false]
        rw [innerLit_escaped f d 92 92 _ (escapeSeq_backslash _) _ (ih f d X hd (by omega))]
      · simp only [if_true]
        rw [innerLit_escaped f d 114 13 _ (escapeSeq_r _) _ (ih f d X hd (by omega))]
  | deep op j t m _ _ ih =>
    intro fuel d X hd hf
    cases fuel with
    | zero => simp at hf
    | succ f =>
      simp only [emitMask, if_true, List.cons_append, List.nil_append, List.length_cons,
        show ((40 : UInt8) = 13) = False by decide, if_false] at hf ⊢
      rw [innerLit_escaped f d 40 40 _ (escapeSeq_paren 40 _ (Or.inl rfl)) _ (ih f d X hd (by omega))]
  | close0 op t m _ ih =>
    intro fuel d X hd hf
    cases fuel with
    | zero => simp at hf
    | succ f =>
      simp only [emitMask, if_true, List.cons_append, List.nil_append, List.length_cons,
        show ((41 : UInt8) = 13) = False by decide, if_false] at hf ⊢
      rw [innerLit_escaped f d 41 41 _ (escapeSeq_paren 41 _ (Or.inr rfl)) _ (ih f d X hd (by omega))]
  | unmatched j t m _ _ ih =>
    intro fuel d X hd hf
    cases fuel with
    | zero => simp at hf
    | succ f =>
      simp only [emitMask, if_true, List.cons_append, List.nil_append, List.length_cons,
        show ((40 : UInt8) = 13) = False by decide, if_false] at hf ⊢
      rw [innerLit_escaped f d 40 40 _ (escapeSeq_paren 40 _ (Or.inl rfl)) _ (ih f d X (by omega) (by omega))]
  | group op j t1 m1 t2 m2 hj h1 h2 ih1 ih2 =>
    intro fuel d X hd hf
    cases fuel with
    | zero => simp at hf
    | succ f =>
      cases d with
      | zero => omega
      | succ d =>
        have hemit : emitMask (40 :: (t1 ++ 41 :: t2)) (false :: (m1 ++ false :: m2)) =
            40 :: (emitMask t1 m1 ++ 41 :: emitMask t2 m2) := by
          simp only [emitMask, Bool.false_eq_true, if_false, List.cons_append, List.nil_append]
          congr 1
          exact emitMask_append t1 m1 (41 :: t2) (false :: m2) h1.length_eq
        rw [hemit] at hf ⊢
        simp only [List.length_cons, List.length_append] at hf
        have e : 40 :: (emitMask t1 m1 ++ 41 :: emitMask t2 m2) ++ 41 :: X =
            40 :: (emitMask t1 m1 ++ 41 :: (emitMask t2 m2 ++ 41 :: X)) := by simp
        rw [e, innerLit_group f d _ _ _ _ _ (ih1 f d (emitMask t2 m2 ++ 41 :: X) (by omega) (by omega))
          (ih2 f (d + 1) X hd (by omega))]
        simp
where
  emitMask_append (t1 : Bytes) (m1 : List Bool) (t2 : Bytes) (m2 : List Bool) (hl : m1.length = t1.length) :
      emitMask (t1 ++ t2) (m1 ++ m2) = emitMask t1 m1 ++ emitMask t2 m2 := by
    induction t1 generalizing m1 with
    | nil => cases m1 with
      | nil => simp [emitMask]
      | cons a as => simp at hl
    | cons b r ih =>
      cases m1 with
      | nil => simp at hl
      | cons a as =>
        simp only [List.cons_append, emitMask, List.append_assoc]
        rw [ih as (by simpa using hl)]

/-! ### the theorem -/

/-- **Literal strings, every byte string.** What `write_string` writes for a literal string —
balanced parentheses raw up to `MAX_BRACKET` levels, unbalanced and deeper ones, backslash and CR
escaped — is read back by `literal_string` as exactly that string, whatever follows. -/
theorem lit_rt_full (s rest : Bytes) : pLiteral (writeString s .lit ++ rest) = some (s, rest) := by
  rcases seg_exists s.length s (Nat.le_refl _) 0 with ⟨mask, hseg⟩ | ⟨hpos, _⟩
  · obtain ⟨st2, acc2, e, hx, _⟩ := scan_seg hseg 0 [] [] [] rfl
    have hemit : litEmit (litScan 0 [] [] s) 0 s = emitMask s mask := by
      apply litEmit_mask _ s mask 0 hseg.length_eq
      intro x _
      have e' : litScan 0 [] [] s = acc2 ++ st2 := by
        have := e
        simp only [List.append_nil, Nat.zero_add] at this
        rw [this]; simp [litScan]
      rw [e', List.mem_append, hx x]
      simp
    simp only [writeString, List.cons_append, List.nil_append, List.append_assoc, hemit, pLiteral]
    rw [parse_seg hseg _ MAX_BRACKET rest (by omega) (by simp)]
    rfl
  · omega

end Lopdf.LitRt
