import LopdfModel.Lemmas.C09Chain
namespace Lopdf
open Gen

theorem mapM_names (fs : List Stage) :
    (fs.map fun f => Obj.name f.name).mapM Obj.asName = some (fs.map Stage.name) := by
  induction fs with
  | nil => rfl
  | cons f fs ih => simp [List.mapM_cons, ih, Obj.asName]

theorem streamFilters_arr (d : Dict) (fs : List Stage)
    (h : d.get K_FILTER = some (.arr (fs.map fun f => Obj.name f.name))) :
    streamFilters d = some (fs.map Stage.name) := by
  simp only [streamFilters, h]
  exact mapM_names fs

theorem streamFilters_name (d : Dict) (f : Stage) (h : d.get K_FILTER = some (.name f.name)) :
    streamFilters d = some [f.name] := by
  simp only [streamFilters, h]

theorem decoded_of_filters (ext : Ext) (s : Strm) (f : Stage) (fs : List Stage)
    (h : streamFilters s.dict = some ((f :: fs).map Stage.name)) :
    decompressedContent ext s = filterLoop ext (decodeParms s.dict) ((f :: fs).map Stage.name) s.content ∧
    getPlainContent ext s = filterLoop ext (decodeParms s.dict) ((f :: fs).map Stage.name) s.content := by
  simp only [getPlainContent, decompressedContent, h, List.map]
  exact ⟨trivial, trivial⟩

/-- compress is lossless unless a stale `DecodeParms` with a PNG predictor is present on a Filter-less stream -/
theorem compress_rt_partial' (ext : Ext) (deflate : Bytes → Bytes)
    (hfl : ∀ x, ext.inflate (deflate x) = x) (hne : ∀ x, deflate x ≠ [])
    (s : Strm) (hguard : s.dict.has K_FILTER = true ∨ predictorInactive (decodeParms s.dict)) :
    getPlainContent ext (compress deflate s) = getPlainContent ext s := by
  rcases compress_cases deflate s with h | ⟨hnf, _, h⟩
  · rw [h]
  · have hp : predictorInactive (decodeParms s.dict) := by
      rcases hguard with hg | hg
      · rw [hg] at hnf; exact absurd hnf (by simp)
      · exact hg
    have hget : s.dict.get K_FILTER = none := by
      simp only [Dict.has] at hnf
      cases hg : s.dict.get K_FILTER with
      | none => rfl
      | some v => rw [hg] at hnf; simp at hnf
    have hplain : getPlainContent ext s = .ok s.content := by
      simp [getPlainContent, streamFilters, hget]
    rw [h, hplain]
    have n1 : K_LENGTH ≠ K_FILTER := by decide
    have n2 : K_LENGTH ≠ K_DECODEPARMS := by decide
    have n3 : K_FILTER ≠ K_DECODEPARMS := by decide
    have hf : (setContent { s with dict := s.dict.set K_FILTER (.name F_FLATE) } (deflate s.content)).dict.get K_FILTER
        = some (.name (Stage.name .flate)) := by
      simp only [setContent]
      rw [Dict.get_set_other _ _ _ _ n1, Dict.get_set_same]; rfl
    have hparms : decodeParms (setContent { s with dict := s.dict.set K_FILTER (.name F_FLATE) } (deflate s.content)).dict
        = decodeParms s.dict := by
      simp only [setContent, decodeParms]
      rw [Dict.get_set_other _ _ _ _ n2, Dict.get_set_other _ _ _ _ n3]
    have hsf := streamFilters_name _ _ hf
    have := (decoded_of_filters ext _ .flate [] (by simpa using hsf)).2
    rw [this, hparms]
    have ne : (deflate s.content).isEmpty = false := by
      cases hd : deflate s.content with
      | nil => exact absurd hd (hne _)
      | cons a b => rfl
    simp [filterLoop, setContent, Stage.name, applyFilter, ne, hfl, decompressPredictor_inactive _ _ hp, Outcome.bind]

/-! ### witnesses -/

def wDeflate (x : Bytes) : Bytes := if x = List.replicate 40 9 then [1] else 0 :: x
def wInflate (y : Bytes) : Bytes := if y = [1] then List.replicate 40 9 else y.tail
def wExt : Ext := { inflate := wInflate, lzw := fun _ x => x }
/-- `<< /DecodeParms << /Predictor 12 /Columns 4 >> /Length 40 >>` with 40 bytes 0x09, no Filter -/
def wStale : Strm :=
  { dict := [(K_DECODEPARMS, .dict [(K_PREDICTOR, .int 12), (K_COLUMNS, .int 4)]), (K_LENGTH, .int 40)],
    content := List.replicate 40 9 }

theorem wInflate_wDeflate (x : Bytes) : wInflate (wDeflate x) = x := by
  unfold wDeflate
  split
  · rename_i h; simp [wInflate, h]
  · simp [wInflate]

theorem wDeflate_ne (x : Bytes) : wDeflate x ≠ [] := by
  unfold wDeflate; split <;> simp

theorem decodeFrame_bad_type : decodeFrame (List.replicate 40 9) 1 4 = .err "invalid PNG filter type" := by
  have h1 : ¬ (1 * 4 > USIZE_MAX) := by decide
  have h2 : ¬ (1 * 4 > ISIZE_MAX) := by decide
  simp only [decodeFrame, h1, h2, if_false]
  rw [show List.replicate 40 (9 : UInt8) = 9 :: List.replicate 39 9 from rfl, frameLoop.eq_def]
  have : PngFilter.ofByte 9 = none := by decide
  simp only [this]

theorem compress_stale_witness :
    (∀ x, wExt.inflate (wDeflate x) = x) ∧ (∀ x, wDeflate x ≠ []) ∧ wStale.dict.has K_FILTER = false ∧
    getPlainContent wExt wStale = .ok wStale.content ∧
    getPlainContent wExt (compress wDeflate wStale) = .err "invalid PNG filter type" := by
  refine ⟨wInflate_wDeflate, wDeflate_ne, by decide, by rfl, ?_⟩
  have h : getPlainContent wExt (compress wDeflate wStale)
      = (decompressPredictor (List.replicate 40 9) (some [(K_PREDICTOR, .int 12), (K_COLUMNS, .int 4)])).bind
          (filterLoop wExt (some [(K_PREDICTOR, .int 12), (K_COLUMNS, .int 4)]) []) := by rfl
  have g : predGeom [(K_PREDICTOR, .int 12), (K_COLUMNS, .int 4)] = ⟨12, 4, 1, 8⟩ := by decide
  have h2 : decompressPredictor (List.replicate 40 9) (some [(K_PREDICTOR, .int 12), (K_COLUMNS, .int 4)])
      = decodeFrame (List.replicate 40 9) 1 4 := by
    simp only [decompressPredictor, g]; rfl
  rw [h, h2, decodeFrame_bad_type]; rfl

/-- F-C09-b: `Filter [/FlateDecode]`, `DecodeParms [<</Predictor 12 /Columns 2>>]` (array form) vs the dictionary form -/
def wParms : Dict := [(K_PREDICTOR, .int 12), (K_COLUMNS, .int 2)]
def wArr : Strm := { dict := [(K_FILTER, .arr [.name F_FLATE]), (K_DECODEPARMS, .arr [.dict wParms])], content := [120] }
def wDict : Strm := { dict := [(K_FILTER, .arr [.name F_FLATE]), (K_DECODEPARMS, .dict wParms)], content := [120] }
def wExt2 : Ext := { inflate := fun _ => [2, 1, 2, 2, 2, 2], lzw := fun _ x => x }

theorem parms_array_witness' :
    encodeImage 1 2 [(.up, [1, 2]), (.up, [3, 4])] = [2, 1, 2, 2, 2, 2] ∧
    decompressedContent wExt2 wDict = .ok [1, 2, 3, 4] ∧
    decompressedContent wExt2 wArr = .ok [2, 1, 2, 2, 2, 2] := by
  have e : encodeImage 1 2 [(.up, [1, 2]), (.up, [3, 4])] = [2, 1, 2, 2, 2, 2] := by decide
  refine ⟨e, ?_, by rfl⟩
  have h : decompressedContent wExt2 wDict
      = (decompressPredictor [2, 1, 2, 2, 2, 2] (some wParms)).bind (filterLoop wExt2 (some wParms) []) := by rfl
  have g : predGeom wParms = ⟨12, 2, 1, 8⟩ := by decide
  have h2 : decompressPredictor [2, 1, 2, 2, 2, 2] (some wParms) = decodeFrame [2, 1, 2, 2, 2, 2] 1 2 := by
    simp only [decompressPredictor, g]; rfl
  rw [h, h2, ← e, frame_rt' 1 2 (by omega) (by decide) _ (by decide)]; rfl
end Lopdf
