import LopdfModel.Lemmas.C09Chain
namespace Lopdf
open Gen

theorem mapM_names (fs : List Stage) :
    (fs.map fun f => Obj.name f.name).mapM Obj.asName = some (fs.map Stage.name) := by
  induction fs with
  | nil => rfl
  | cons f fs ih => simp [List.mapM_cons, ih, Obj.asName]

theorem streamFilters_arr (d : Dict) (fs : List Stage)
    (h : d.get K_FILTER = some (.arr (fs.map fun f => Obj.name f.name))) :
    streamFilters d = some (fs.map Stage.name) := by
  simp only [streamFilters, h]
  exact mapM_names fs

theorem streamFilters_name (d : Dict) (f : Stage) (h : d.get K_FILTER = some (.name f.name)) :
    streamFilters d = some [f.name] := by
  simp only [streamFilters, h]

theorem decoded_of_filters (ext : Ext) (s : Strm) (f : Stage) (fs : List Stage)
    (h : streamFilters s.dict = some ((f :: fs).map Stage.name)) :
    decompressedContent ext s = filterLoop ext (stageParms s.dict) 0 ((f :: fs).map Stage.name) s.content ∧
    getPlainContent ext s = filterLoop ext (stageParms s.dict) 0 ((f :: fs).map Stage.name) s.content := by
  simp only [getPlainContent, decompressedContent, h, List.map]
  exact ⟨trivial, trivial⟩

/-- compress on a Filter-less stream, then decode: the original content — whatever else the dictionary holds
(in particular a stale `DecodeParms`, removed since fix 7763e3b). `KeysNodup` is the `IndexMap` invariant. -/
theorem compress_rt_nofilter (ext : Ext) (deflate : Bytes → Bytes)
    (hfl : ∀ x, ext.inflate (deflate x) = x) (hne : ∀ x, deflate x ≠ [])
    (s : Strm) (hnd : s.dict.KeysNodup) (hnf : s.dict.has K_FILTER = false) :
    getPlainContent ext (compress deflate s) = .ok s.content := by
  have hget : s.dict.get K_FILTER = none := by
    simp only [Dict.has] at hnf
    cases hg : s.dict.get K_FILTER with
    | none => rfl
    | some v => rw [hg] at hnf; simp at hnf
  have hplain : getPlainContent ext s = .ok s.content := by
    simp [getPlainContent, streamFilters, hget]
  rcases compress_cases deflate s with h | ⟨_, _, h⟩
  · rw [h, hplain]
  · rw [h]
    have n1 : K_LENGTH ≠ K_FILTER := by decide
    have n2 : K_LENGTH ≠ K_DECODEPARMS := by decide
    have n3 : K_FILTER ≠ K_DECODEPARMS := by decide
    have hf : (setContent { s with dict := (s.dict.remove K_DECODEPARMS).set K_FILTER (.name F_FLATE) } (deflate s.content)).dict.get K_FILTER
        = some (.name (Stage.name .flate)) := by
      simp only [setContent]
      rw [Dict.get_set_other_c09 _ _ _ _ n1, Dict.get_set_same_c09]; rfl
    have hparms : stageParms (setContent { s with dict := (s.dict.remove K_DECODEPARMS).set K_FILTER (.name F_FLATE) } (deflate s.content)).dict 0
        = none := by
      apply stageParms_none
      simp only [setContent]
      rw [Dict.get_set_other_c09 _ _ _ _ n2, Dict.get_set_other_c09 _ _ _ _ n3, Dict.get_remove_same_c09 _ _ hnd]
    have hsf := streamFilters_name _ _ hf
    have := (decoded_of_filters ext _ .flate [] (by simpa using hsf)).2
    rw [this]
    have ne : (deflate s.content).isEmpty = false := by
      cases hd : deflate s.content with
      | nil => exact absurd hd (hne _)
      | cons a b => rfl
    simp only [setContent] at hparms
    simp [filterLoop, hparms, setContent, Stage.name, applyFilter, ne, hfl, decompressPredictor, Outcome.bind]

/-- compress never changes what `get_plain_content` returns -/
theorem compress_rt' (ext : Ext) (deflate : Bytes → Bytes)
    (hfl : ∀ x, ext.inflate (deflate x) = x) (hne : ∀ x, deflate x ≠ [])
    (s : Strm) (hnd : s.dict.KeysNodup) :
    getPlainContent ext (compress deflate s) = getPlainContent ext s := by
  by_cases hf : s.dict.has K_FILTER = true
  · rcases compress_cases deflate s with h | ⟨hnf, _, _⟩
    · rw [h]
    · rw [hf] at hnf; exact absurd hnf (by simp)
  · have hnf : s.dict.has K_FILTER = false := by simpa using hf
    rw [compress_rt_nofilter ext deflate hfl hne s hnd hnf]
    have hget : s.dict.get K_FILTER = none := by
      simp only [Dict.has] at hnf
      cases hg : s.dict.get K_FILTER with
      | none => rfl
      | some v => rw [hg] at hnf; simp at hnf
    simp [getPlainContent, streamFilters, hget]

/-! ### witnesses -/

def wDeflate (x : Bytes) : Bytes := if x = List.replicate 40 9 then [1] else 0 :: x
def wInflate (y : Bytes) : Bytes := if y = [1] then List.replicate 40 9 else y.tail
def wExt : Ext := { inflate := wInflate, lzw := fun _ x => x }
/-- the former F-C09-c witness: `<< /DecodeParms << /Predictor 12 /Columns 4 >> /Length 40 >>`, 40 bytes 0x09, no Filter -/
def wStale : Strm :=
  { dict := [(K_DECODEPARMS, .dict [(K_PREDICTOR, .int 12), (K_COLUMNS, .int 4)]), (K_LENGTH, .int 40)],
    content := List.replicate 40 9 }

theorem wInflate_wDeflate (x : Bytes) : wInflate (wDeflate x) = x := by
  unfold wDeflate
  split
  · rename_i h; simp [wInflate, h]
  · simp [wInflate]

theorem wDeflate_ne (x : Bytes) : wDeflate x ≠ [] := by
  unfold wDeflate; split <;> simp

/-- regression of F-C09-c: the former witness stream now survives compress + decode, and its DecodeParms is gone -/
theorem compress_stale_regression' :
    (compress wDeflate wStale).dict.get K_DECODEPARMS = none ∧
    (compress wDeflate wStale).dict.get K_FILTER = some (.name F_FLATE) ∧
    getPlainContent wExt (compress wDeflate wStale) = .ok wStale.content :=
  ⟨by rfl, by rfl,
   compress_rt_nofilter wExt wDeflate wInflate_wDeflate wDeflate_ne wStale (by unfold Dict.KeysNodup; decide) (by decide)⟩

/-- the former F-C09-b witness: `Filter [/FlateDecode]`, `DecodeParms [<</Predictor 12 /Columns 2>>]` (array form)
and the same stream with the dictionary form -/
def wParms : Dict := [(K_PREDICTOR, .int 12), (K_COLUMNS, .int 2)]
def wArr : Strm := { dict := [(K_FILTER, .arr [.name F_FLATE]), (K_DECODEPARMS, .arr [.dict wParms])], content := [120] }
def wDict : Strm := { dict := [(K_FILTER, .arr [.name F_FLATE]), (K_DECODEPARMS, .dict wParms)], content := [120] }
def wExt2 : Ext := { inflate := fun _ => [2, 1, 2, 2, 2, 2], lzw := fun _ x => x }

theorem parms_array_regression' :
    encodeImage 1 2 [(.up, [1, 2]), (.up, [3, 4])] = [2, 1, 2, 2, 2, 2] ∧
    decompressedContent wExt2 wDict = .ok [1, 2, 3, 4] ∧
    decompressedContent wExt2 wArr = .ok [1, 2, 3, 4] := by
  have e : encodeImage 1 2 [(.up, [1, 2]), (.up, [3, 4])] = [2, 1, 2, 2, 2, 2] := by decide
  have g : predGeom wParms = ⟨12, 2, 1, 8⟩ := by decide
  have h2 : decompressPredictor [2, 1, 2, 2, 2, 2] (some wParms) = .ok [1, 2, 3, 4] := by
    have : decompressPredictor [2, 1, 2, 2, 2, 2] (some wParms) = decodeFrame [2, 1, 2, 2, 2, 2] 1 2 := by
      simp only [decompressPredictor, g]; rfl
    rw [this, ← e, frame_rt' 1 2 (by omega) (by decide) _ (by decide)]; rfl
  refine ⟨e, ?_, ?_⟩
  · have h : decompressedContent wExt2 wDict
        = (decompressPredictor [2, 1, 2, 2, 2, 2] (some wParms)).bind (filterLoop wExt2 (stageParms wDict.dict) 1 []) := by rfl
    rw [h, h2]; rfl
  · have h : decompressedContent wExt2 wArr
        = (decompressPredictor [2, 1, 2, 2, 2, 2] (some wParms)).bind (filterLoop wExt2 (stageParms wArr.dict) 1 []) := by rfl
    rw [h, h2]; rfl
end Lopdf
