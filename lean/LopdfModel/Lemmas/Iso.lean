import LopdfModel.Thm.C10
import LopdfModel.Thm.C12
/-
  Helper lemmas for C10 (two-pass composition): renaming algebra (`mapRefs` composes, commutes with
  `refsOf`), the abstract renaming step `IsoStep` with reachability transfer in both directions,
  composition of two steps, and the proofs that the dense pass and the page-order pass are such steps.
-/
namespace Lopdf.Ren
open Lopdf

mutual
theorem mapRefs_comp (f g : ObjId → ObjId) : ∀ o : Obj, mapRefs g (mapRefs f o) = mapRefs (g ∘ f) o
  | .arr items => by simp [mapRefs, mapRefsL_comp f g items]
  | .dict es => by simp [mapRefs, mapRefsD_comp f g es]
  | .stream es c => by simp [mapRefs, mapRefsD_comp f g es]
  | .ref n g' => by simp [mapRefs]
  | .null => rfl
  | .bool _ => rfl
  | .int _ => rfl
  | .real _ => rfl
  | .name _ => rfl
  | .str _ _ => rfl
theorem mapRefsL_comp (f g : ObjId → ObjId) : ∀ l : List Obj, mapRefsL g (mapRefsL f l) = mapRefsL (g ∘ f) l
  | [] => rfl
  | x :: xs => by simp [mapRefsL, mapRefs_comp f g x, mapRefsL_comp f g xs]
theorem mapRefsD_comp (f g : ObjId → ObjId) : ∀ l : List (Bytes × Obj), mapRefsD g (mapRefsD f l) = mapRefsD (g ∘ f) l
  | [] => rfl
  | (k, v) :: es => by simp [mapRefsD, mapRefs_comp f g v, mapRefsD_comp f g es]
end

mutual
theorem refsOf_mapRefs (f : ObjId → ObjId) : ∀ o : Obj, refsOf (mapRefs f o) = (refsOf o).map f
  | .arr items => by simp [mapRefs, refsOf, refsOfL_mapRefs f items]
  | .dict es => by simp [mapRefs, refsOf, refsOfD_mapRefs f es]
  | .stream es c => by simp [mapRefs, refsOf, refsOfD_mapRefs f es]
  | .ref n g' => by simp [mapRefs, refsOf]
  | .null => rfl
  | .bool _ => rfl
  | .int _ => rfl
  | .real _ => rfl
  | .name _ => rfl
  | .str _ _ => rfl
theorem refsOfL_mapRefs (f : ObjId → ObjId) : ∀ l : List Obj, refsOfL (mapRefsL f l) = (refsOfL l).map f
  | [] => rfl
  | x :: xs => by simp [mapRefsL, refsOfL, refsOf_mapRefs f x, refsOfL_mapRefs f xs]
theorem refsOfD_mapRefs (f : ObjId → ObjId) : ∀ l : List (Bytes × Obj), refsOfD (mapRefsD f l) = (refsOfD l).map f
  | [] => rfl
  | (k, v) :: es => by simp [mapRefsD, refsOfD, refsOf_mapRefs f v, refsOfD_mapRefs f es]
end

/-- reachability from a trailer in an object map -/
abbrev ReachIn (tr : Dict) (os : Objects) : ObjId → Prop := Reach (refsOfD tr) (fun id => os.get id)

/-- one renaming step `(tr, os) ↦ (tr', os')` by `rho` as the code performs it: ids without an object are
left alone, `rho` is one-to-one on the ids in use, the new key set is the image of the old one, the trailer
is renamed, and the object of `k` sits at `rho k` — renamed if the traversal (reachability in the NEW
graph) got there, untouched otherwise. -/
structure IsoStep (tr : Dict) (os : Objects) (tr' : Dict) (os' : Objects) (rho : ObjId → ObjId) : Prop where
  fix : ∀ k, os.get k = none → rho k = k
  inj : ∀ a b, (os.get a).isSome → (os.get b).isSome → rho a = rho b → a = b
  keys : ∀ q, (os'.get q).isSome ↔ ∃ k, (os.get k).isSome ∧ rho k = q
  trailer : tr' = mapRefsD rho tr
  objs : ∀ k o, os.get k = some o →
    (ReachIn tr' os' (rho k) → os'.get (rho k) = some (mapRefs rho o)) ∧
    (¬ ReachIn tr' os' (rho k) → os'.get (rho k) = some o)

variable {tr : Dict} {os : Objects} {tr' : Dict} {os' : Objects} {rho : ObjId → ObjId}

/-- whatever was reachable stays reachable under its new name (always — this is what makes captures possible) -/
theorem IsoStep.reach_fwd (h : IsoStep tr os tr' os' rho) : ∀ x, ReachIn tr os x → ReachIn tr' os' (rho x) := by
  intro x hx
  induction hx with
  | root hr =>
    apply Reach.root; rw [h.trailer, refsOfD_mapRefs]; exact List.mem_map_of_mem hr
  | @step id o r _ ho hr ih =>
    have := (h.objs id o ho).1 ih
    exact Reach.step ih this (by rw [refsOf_mapRefs]; exact List.mem_map_of_mem hr)

/-- no reachable dangling reference is answered by an object afterwards -/
def NoCap (tr : Dict) (os os' : Objects) : Prop := ∀ r, ReachIn tr os r → os.get r = none → os'.get r = none

theorem IsoStep.reach_bwd (h : IsoStep tr os tr' os' rho) (hc : NoCap tr os os') :
    ∀ q, ReachIn tr' os' q → ∃ x, q = rho x ∧ ReachIn tr os x := by
  intro q hq
  induction hq with
  | root hr =>
    rw [h.trailer, refsOfD_mapRefs] at hr
    obtain ⟨x, hx, rfl⟩ := List.mem_map.mp hr
    exact ⟨x, rfl, Reach.root hx⟩
  | @step id o' r hreach ho hr ih =>
    obtain ⟨x, rfl, hx⟩ := ih
    cases hox : os.get x with
    | none =>
      have := hc x hx hox
      rw [h.fix x hox] at ho; rw [this] at ho; cases ho
    | some o =>
      have := (h.objs x o hox).1 hreach
      rw [this] at ho; cases ho
      rw [refsOf_mapRefs] at hr
      obtain ⟨y, hy, rfl⟩ := List.mem_map.mp hr
      exact ⟨y, rfl, Reach.step hx hox hy⟩

theorem IsoStep.reach_iff (h : IsoStep tr os tr' os' rho) (hc : NoCap tr os os') (k : ObjId) (hk : (os.get k).isSome) :
    ReachIn tr' os' (rho k) ↔ ReachIn tr os k := by
  constructor
  · intro hq
    obtain ⟨x, hx, hrx⟩ := h.reach_bwd hc _ hq
    cases hox : os.get x with
    | none =>
      have h1 := hc x hrx hox
      rw [h.fix x hox] at hx
      have : (os'.get (rho k)).isSome := (h.keys _).mpr ⟨k, hk, rfl⟩
      rw [hx, h1] at this; cases this
    | some o =>
      have := h.inj k x hk (by simp [hox]) hx
      rw [this]; exact hrx
  · exact h.reach_fwd k

/-- under `NoCap` the objects are renamed exactly when they were reachable in the ORIGINAL graph -/
theorem IsoStep.objs_orig (h : IsoStep tr os tr' os' rho) (hc : NoCap tr os os') (k : ObjId) (o : Obj) (ho : os.get k = some o) :
    (ReachIn tr os k → os'.get (rho k) = some (mapRefs rho o)) ∧ (¬ ReachIn tr os k → os'.get (rho k) = some o) := by
  have hiff := h.reach_iff hc k (by simp [ho])
  exact ⟨fun hr => (h.objs k o ho).1 (hiff.mpr hr), fun hr => (h.objs k o ho).2 (fun hq => hr (hiff.mp hq))⟩

/-- guards under which one move+rename pass is an isomorphism -/
structure PassOK (os : Objects) (pairs : List (ObjId × ObjId)) : Prop where
  olds_nodup : (pairs.map (·.1)).Nodup
  olds_keys : ∀ p ∈ pairs, os.get p.1 ≠ none
  news_nodup : (pairs.map (·.2)).Nodup
  news_fresh : ∀ p ∈ pairs, ∀ k, (os.get k).isSome → k ∉ pairs.map (·.1) → p.2 ≠ k

theorem rho_fix_of_not_old (pairs : List (ObjId × ObjId)) (k : ObjId) (h : k ∉ pairs.map (·.1)) : rhoFn pairs k = k := by
  simp [rhoFn, lookupId_none pairs k h]

theorem rho_of_mem (pairs : List (ObjId × ObjId)) (hn : (pairs.map (·.1)).Nodup) (p : ObjId × ObjId) (hp : p ∈ pairs) :
    rhoFn pairs p.1 = p.2 := by
  simp [rhoFn, lookupId_of_mem pairs hn p hp]

theorem PassOK.not_old_of_none {os : Objects} {pairs : List (ObjId × ObjId)} (h : PassOK os pairs) (k : ObjId)
    (hk : os.get k = none) : k ∉ pairs.map (·.1) := by
  intro hm
  obtain ⟨p, hp, rfl⟩ := List.mem_map.mp hm
  exact h.olds_keys p hp hk

/-- **one pass is an `IsoStep`** -/
theorem pass_isoStep (bks : List Nat) (os : Objects) (bm : BkTable) (tr : Dict) (pairs : List (ObjId × ObjId))
    (h : PassOK os pairs) :
    IsoStep tr os
      (traverse (renameAct (movePass bks os bm pairs).replace) tr (movePass bks os bm pairs).objects).1
      (traverse (renameAct (movePass bks os bm pairs).replace) tr (movePass bks os bm pairs).objects).2.1
      (rhoFn pairs) := by
  obtain ⟨iso1, iso2⟩ := rename_pass_iso_partial bks os bm tr pairs h.olds_nodup h.olds_keys h.news_nodup h.news_fresh
  obtain ⟨hget, hrep⟩ := movePass_get bks os bm pairs h.olds_nodup h.olds_keys
  have hinj : ∀ a b, (os.get a).isSome → (os.get b).isSome → rhoFn pairs a = rhoFn pairs b → a = b := by
    intro a b ha hb e
    by_cases hao : a ∈ pairs.map (·.1) <;> by_cases hbo : b ∈ pairs.map (·.1)
    · obtain ⟨p, hp, rfl⟩ := List.mem_map.mp hao
      obtain ⟨q, hq, rfl⟩ := List.mem_map.mp hbo
      rw [rho_of_mem pairs h.olds_nodup p hp, rho_of_mem pairs h.olds_nodup q hq] at e
      rw [eq_of_nodup_map_snd h.news_nodup hp hq e]
    · obtain ⟨p, hp, rfl⟩ := List.mem_map.mp hao
      rw [rho_of_mem pairs h.olds_nodup p hp, rho_fix_of_not_old pairs b hbo] at e
      exact absurd e (h.news_fresh p hp b hb hbo)
    · obtain ⟨q, hq, rfl⟩ := List.mem_map.mp hbo
      rw [rho_of_mem pairs h.olds_nodup q hq, rho_fix_of_not_old pairs a hao] at e
      exact absurd e.symm (h.news_fresh q hq a ha hao)
    · rwa [rho_fix_of_not_old pairs a hao, rho_fix_of_not_old pairs b hbo] at e
  refine ⟨fun k hk => rho_fix_of_not_old pairs k (h.not_old_of_none k hk), hinj, ?_, iso1, ?_⟩
  · intro q
    rw [hrep, traverse_isSome, hget q]
    constructor
    · intro hq
      cases hs : srcOf pairs q with
      | some old =>
        rw [hs] at hq; simp only at hq
        exact ⟨old, hq, rho_of_mem pairs h.olds_nodup (old, q) (srcOf_mem _ _ _ hs)⟩
      | none =>
        rw [hs] at hq; simp only at hq
        by_cases hqo : q ∈ pairs.map (·.1)
        · simp [hqo] at hq
        · simp only [hqo, if_false] at hq
          exact ⟨q, hq, rho_fix_of_not_old pairs q hqo⟩
    · rintro ⟨k, hk, rfl⟩
      cases hok : os.get k with
      | none => rw [hok] at hk; cases hk
      | some o =>
        have := iso2 k o hok
        rw [hrep] at this
        rw [← hget, ← traverse_isSome (renameAct pairs) tr, this]; simp
  · intro k o ho
    have hobj := iso2 k o ho
    constructor
    · intro hr
      have hin := (traverse_eq_reach _ _ _ _).mpr hr
      rw [hobj]; simp [hin]
    · intro hr
      have hnin : ¬ _ := fun hin => hr ((traverse_eq_reach _ _ _ _).mp hin)
      rw [hobj]; simp [hnin]

mutual
theorem mapRefs_id : ∀ o : Obj, mapRefs id o = o
  | .arr items => by simp [mapRefs, mapRefsL_id items]
  | .dict es => by simp [mapRefs, mapRefsD_id es]
  | .stream es c => by simp [mapRefs, mapRefsD_id es]
  | .ref n g' => by simp [mapRefs]
  | .null => rfl
  | .bool _ => rfl
  | .int _ => rfl
  | .real _ => rfl
  | .name _ => rfl
  | .str _ _ => rfl
theorem mapRefsL_id : ∀ l : List Obj, mapRefsL id l = l
  | [] => rfl
  | x :: xs => by simp [mapRefsL, mapRefs_id x, mapRefsL_id xs]
theorem mapRefsD_id : ∀ l : List (Bytes × Obj), mapRefsD id l = l
  | [] => rfl
  | (k, v) :: es => by simp [mapRefsD, mapRefs_id v, mapRefsD_id es]
end

/-- doing nothing is an `IsoStep` (the page-order pass when the pages are already in id order) -/
theorem isoStep_id (tr : Dict) (os : Objects) : IsoStep tr os tr os id :=
  ⟨fun _ _ => rfl, fun _ _ _ _ e => e, fun q => ⟨fun h => ⟨q, h, rfl⟩, fun ⟨k, hk, e⟩ => by rw [← e]; exact hk⟩,
   by rw [mapRefsD_id], fun k o ho => ⟨fun _ => by simp [mapRefs_id, ho], fun _ => by simp [ho]⟩⟩

/-- **two steps compose into one renaming** `rho2 ∘ rho1`: one-to-one on the ids in use, trailer renamed,
every object renamed exactly when it was reachable in the ORIGINAL document — provided no reachable
dangling reference of the original is answered by an object after either step. -/
theorem isoStep_comp {tr0 tr1 tr2 : Dict} {os0 os1 os2 : Objects} {r1 r2 : ObjId → ObjId}
    (h1 : IsoStep tr0 os0 tr1 os1 r1) (h2 : IsoStep tr1 os1 tr2 os2 r2)
    (hc1 : NoCap tr0 os0 os1) (hc2 : NoCap tr0 os0 os2) :
    (∀ k, os0.get k = none → ReachIn tr0 os0 k → (r2 ∘ r1) k = k) ∧
    (∀ a b, (os0.get a).isSome → (os0.get b).isSome → (r2 ∘ r1) a = (r2 ∘ r1) b → a = b) ∧
    (∀ q, (os2.get q).isSome ↔ ∃ k, (os0.get k).isSome ∧ (r2 ∘ r1) k = q) ∧
    tr2 = mapRefsD (r2 ∘ r1) tr0 ∧
    (∀ k o, os0.get k = some o →
      (ReachIn tr0 os0 k → os2.get ((r2 ∘ r1) k) = some (mapRefs (r2 ∘ r1) o)) ∧
      (¬ ReachIn tr0 os0 k → os2.get ((r2 ∘ r1) k) = some o)) ∧
    (∀ x, ReachIn tr0 os0 x → ReachIn tr2 os2 ((r2 ∘ r1) x)) := by
  have key1 : ∀ k, (os0.get k).isSome → (os1.get (r1 k)).isSome := fun k hk => (h1.keys _).mpr ⟨k, hk, rfl⟩
  -- NoCap for the second step, from the guard on the original
  have hc2' : NoCap tr1 os1 os2 := by
    intro r hr hnone
    obtain ⟨x, rfl, hx⟩ := h1.reach_bwd hc1 r hr
    cases hox : os0.get x with
    | none => rw [h1.fix x hox] at hnone ⊢; exact hc2 x hx hox
    | some o => have := key1 x (by simp [hox]); rw [hnone] at this; cases this
  refine ⟨?_, ?_, ?_, ?_, ?_, ?_⟩
  · intro k hk hr
    simp only [Function.comp]
    rw [h1.fix k hk]
    exact h2.fix k (hc1 k hr hk)
  · intro a b ha hb e
    exact h1.inj a b ha hb (h2.inj _ _ (key1 a ha) (key1 b hb) e)
  · intro q
    rw [h2.keys q]
    constructor
    · rintro ⟨k1, hk1, rfl⟩
      obtain ⟨k, hk, rfl⟩ := (h1.keys k1).mp hk1
      exact ⟨k, hk, rfl⟩
    · rintro ⟨k, hk, rfl⟩
      exact ⟨r1 k, key1 k hk, rfl⟩
  · rw [h2.trailer, h1.trailer, mapRefsD_comp]
  · intro k o ho
    have hk : (os0.get k).isSome := by simp [ho]
    have hiff := h1.reach_iff hc1 k hk
    constructor
    · intro hr
      have e1 := (h1.objs_orig hc1 k o ho).1 hr
      have e2 := (h2.objs_orig hc2' (r1 k) _ e1).1 (hiff.mpr hr)
      simp only [Function.comp]; rw [e2, mapRefs_comp]
    · intro hr
      have e1 := (h1.objs_orig hc1 k o ho).2 hr
      exact (h2.objs_orig hc2' (r1 k) _ e1).2 (fun hq => hr (hiff.mp hq))
  · intro x hx
    exact h2.reach_fwd _ (h1.reach_fwd x hx)

theorem dense_passOK (os : Objects) (ids : List ObjId) (start : Nat) (hn : ids.Nodup)
    (hk : ∀ k, k ∈ ids ↔ (os.get k).isSome) : PassOK os (denseSpec ids start) := by
  have h1 : ((denseSpec ids start).map (·.1)).Nodup := (denseSpec_olds_sublist ids start).nodup hn
  have hmemid : ∀ p ∈ assign ids start, p.1 ∈ ids := by
    intro p hp; rw [← assign_olds ids start]; exact List.mem_map_of_mem hp
  refine ⟨h1, ?_, denseSpec_news_nodup ids start, ?_⟩
  · intro p hp
    have := (hk p.1).mp (hmemid p (denseSpec_sub ids start p hp).1)
    intro e; rw [e] at this; cases this
  · intro p hp k hkk hko e
    have hkid := (hk k).mpr hkk
    rw [← assign_olds ids start] at hkid
    obtain ⟨q, hq, hqk⟩ := List.mem_map.mp hkid
    have hq2 : q.2 = k := by
      by_cases hmv : q.1.1 = q.2.1
      · rw [← hqk]; exact Prod.ext hmv.symm (assign_gen ids start q hq)
      · exact absurd (hqk ▸ List.mem_map_of_mem (denseSpec_mem ids start q hq hmv)) hko
    have hpq := assign_inj ids start p (denseSpec_sub ids start p hp).1 q hq (by rw [e, hq2])
    apply hko; rw [← hqk, ← hpq]; exact List.mem_map_of_mem hp

/-- the dense pass of any document with a sorted object map, in the domain `1 ≤ start+n ≤ u32::MAX`,
returns and is an `IsoStep` with the dense assignment as renaming -/
theorem densePass_isoStep (d1 : Doc) (start : Nat) (hs : d1.objects.Sorted)
    (hhi : start + d1.objects.length ≤ U32_MAXE + 1) :
    ∃ d2, densePass d1 start = .ok d2 ∧ d2.maxId = start + d1.objects.length - 1 ∧
      IsoStep d1.trailer d1.objects d2.trailer d2.objects (rhoFn (denseSpec (sortBy idLeE d1.objects.keys) start)) ∧
      (∀ p ∈ assign (sortBy idLeE d1.objects.keys) start, rhoFn (denseSpec (sortBy idLeE d1.objects.keys) start) p.1 = p.2) := by
  have hperm := sortBy_perm idLeE d1.objects.keys
  have hlen : (sortBy idLeE d1.objects.keys).length = d1.objects.length := by
    rw [hperm.length_eq]; simp [Objects.keys]
  have hn : (sortBy idLeE d1.objects.keys).Nodup := hperm.nodup_iff.mpr (Objects.sorted_nodup _ hs)
  have hk : ∀ k, k ∈ sortBy idLeE d1.objects.keys ↔ (d1.objects.get k).isSome := by
    intro k; rw [hperm.mem_iff]; exact Objects.mem_keys_iff _ _
  generalize hids : sortBy idLeE d1.objects.keys = ids at *
  have hok := dense_passOK d1.objects ids start hn hk
  have hiso := pass_isoStep d1.bookmarks d1.objects d1.bmTable d1.trailer (denseSpec ids start) hok
  have hren : ∃ d2, densePass d1 start = .ok d2 ∧ d2.maxId = start + d1.objects.length - 1 ∧
      d2.trailer = (traverse (renameAct (movePass d1.bookmarks d1.objects d1.bmTable (denseSpec ids start)).replace) d1.trailer (movePass d1.bookmarks d1.objects d1.bmTable (denseSpec ids start)).objects).1 ∧
      d2.objects = (traverse (renameAct (movePass d1.bookmarks d1.objects d1.bmTable (denseSpec ids start)).replace) d1.trailer (movePass d1.bookmarks d1.objects d1.bmTable (denseSpec ids start)).objects).2.1 := by
    unfold densePass
    rw [hids, densePairs_eq _ _ _ (by rw [hlen]; exact hhi)]
    simp only [List.nil_append, hlen]
    exact ⟨_, rfl, rfl, rfl, rfl⟩
  obtain ⟨d2, e1, e2, e3, e4⟩ := hren
  refine ⟨d2, e1, e2, ?_, rho_assign ids start hn⟩
  rw [e3, e4]; exact hiso

theorem inj_of_nodup_map {α β} [DecidableEq β] (f : α → β) : ∀ (K : List α), (K.map f).Nodup →
    ∀ a ∈ K, ∀ b ∈ K, f a = f b → a = b := by
  intro K
  induction K with
  | nil => intro _ a ha; cases ha
  | cons x xs ih =>
    intro hn a ha b hb e
    simp only [List.map_cons, List.nodup_cons] at hn
    rcases List.mem_cons.mp ha with rfl | ha' <;> rcases List.mem_cons.mp hb with rfl | hb'
    · rfl
    · exact absurd (e ▸ List.mem_map_of_mem hb') hn.1
    · exact absurd (e ▸ List.mem_map_of_mem ha') hn.1
    · exact ih hn.2 a ha' b hb' e

theorem nodup_map_of_inj {α β} (f : α → β) : ∀ (l : List α), l.Nodup → (∀ a ∈ l, ∀ b ∈ l, f a = f b → a = b) → (l.map f).Nodup := by
  intro l
  induction l with
  | nil => intro _ _; simp
  | cons x xs ih =>
    intro hn hinj
    simp only [List.nodup_cons] at hn
    simp only [List.map_cons, List.nodup_cons]
    refine ⟨?_, ih hn.2 (fun a ha b hb => hinj a (List.mem_cons_of_mem _ ha) b (List.mem_cons_of_mem _ hb))⟩
    intro hm
    obtain ⟨y, hy, e⟩ := List.mem_map.mp hm
    have := hinj y (List.mem_cons_of_mem _ hy) x (List.mem_cons_self) e
    exact hn.1 (this ▸ hy)

theorem enum_map_snd (pages : List ObjId) :
    (((List.range pages.length).zip pages).map (fun (p : Nat × ObjId) => (p.1 + 1, p.2))).map (·.2) = pages := by
  rw [List.map_map]
  have : ((fun (x : Nat × ObjId) => x.2) ∘ fun (p : Nat × ObjId) => (p.1 + 1, p.2)) = Prod.snd := by funext p; rfl
  rw [this, List.map_snd_zip]; simp

/-- the pairs of the page-order pass satisfy the guards of a renaming pass, for every page list without
repetition whose ids exist, in a document whose object NUMBERS are pairwise distinct -/
theorem pagePairs_passOK (os : Objects) (pages : List ObjId) (pairs : List (ObjId × ObjId))
    (hp : pagePairs pages = some pairs) (g1 : pages.Nodup) (g3 : ∀ p ∈ pages, (os.get p).isSome)
    (g2 : (os.keys.map (·.1)).Nodup) : PassOK os pairs := by
  unfold pagePairs at hp
  simp only at hp
  split at hp
  · generalize hpo : (((List.range pages.length).zip pages).map (fun (p : Nat × ObjId) => (p.1 + 1, p.2))) = pageOrder at hp
    have hsnd : pageOrder.map (·.2) = pages := by rw [← hpo]; exact enum_map_snd pages
    generalize hso : sortBy (fun (a b : Nat × ObjId) => idLeE a.2 b.2) pageOrder = sorted at hp
    have hperm1 : sorted.Perm pageOrder := by rw [← hso]; exact sortBy_perm _ _
    generalize hpg : sortBy (fun (a b : Nat × ObjId) => decide (a.1 ≤ b.1)) sorted = pages' at hp
    have hperm2 : pages'.Perm sorted := by rw [← hpg]; exact sortBy_perm _ _
    have hlen : pages'.length = sorted.length := hperm2.length_eq
    cases hp
    -- olds and new numbers as permutations of the page list
    have holds : ((pages'.zip sorted).map (fun (x : (Nat × ObjId) × (Nat × ObjId)) => (x.1.2, (x.2.2.1, x.1.2.2)))).map (·.1)
        = pages'.map (·.2) := by
      rw [List.map_map]
      have : ((fun (x : ObjId × ObjId) => x.1) ∘ fun (x : (Nat × ObjId) × (Nat × ObjId)) => (x.1.2, (x.2.2.1, x.1.2.2)))
          = (fun (p : Nat × ObjId) => p.2) ∘ Prod.fst := by funext x; rfl
      rw [this, ← List.map_map, List.map_fst_zip (by omega)]
    have holdsP : (pages'.map (·.2)).Perm pages := by
      rw [← hsnd]; exact ((hperm2.trans hperm1).map _)
    have hnums : ((pages'.zip sorted).map (fun (x : (Nat × ObjId) × (Nat × ObjId)) => (x.1.2, (x.2.2.1, x.1.2.2)))).map (fun p => p.2.1)
        = sorted.map (fun p => p.2.1) := by
      rw [List.map_map]
      have : ((fun (p : ObjId × ObjId) => p.2.1) ∘ fun (x : (Nat × ObjId) × (Nat × ObjId)) => (x.1.2, (x.2.2.1, x.1.2.2)))
          = (fun (p : Nat × ObjId) => p.2.1) ∘ Prod.snd := by funext x; rfl
      rw [this, ← List.map_map, List.map_snd_zip (by omega)]
    have hnumsP : (sorted.map (fun p => p.2.1)).Perm (pages.map (·.1)) := by
      rw [← hsnd, List.map_map]; exact hperm1.map _
    have hkeymem : ∀ p ∈ pages, p ∈ os.keys := fun p hp => (Objects.mem_keys_iff os p).mpr (g3 p hp)
    have hinj := inj_of_nodup_map (fun (k : ObjId) => k.1) os.keys g2
    have hpnums : (pages.map (·.1)).Nodup :=
      nodup_map_of_inj _ pages g1 (fun a ha b hb e => hinj a (hkeymem a ha) b (hkeymem b hb) e)
    refine ⟨?_, ?_, ?_, ?_⟩
    · rw [holds]; exact holdsP.nodup_iff.mpr g1
    · intro p hp
      have : p.1 ∈ pages := by
        rw [← holdsP.mem_iff, ← holds]; exact List.mem_map_of_mem hp
      have := g3 _ this
      intro e; rw [e] at this; cases this
    · have h : ((((pages'.zip sorted).map (fun (x : (Nat × ObjId) × (Nat × ObjId)) => (x.1.2, (x.2.2.1, x.1.2.2)))).map
          (fun (x : ObjId × ObjId) => x.2)).map (fun (k : ObjId) => k.1)).Nodup := by
        rw [List.map_map]
        have e : ((fun (k : ObjId) => k.1) ∘ fun (x : ObjId × ObjId) => x.2) = fun (p : ObjId × ObjId) => p.2.1 := by funext x; rfl
        rw [e, hnums]; exact hnumsP.nodup_iff.mpr hpnums
      exact List.Pairwise.of_map (·.1) (fun a b hab e => hab (by rw [e])) h
    · intro p hp k hk hko e
      -- p.2's number is the number of a page q; k is a key with that number, so k = q is a page, hence an old id
      have hnum : p.2.1 ∈ pages.map (·.1) := by
        rw [← hnumsP.mem_iff, ← hnums]; exact List.mem_map_of_mem (f := fun p => p.2.1) hp
      obtain ⟨q, hq, hqe⟩ := List.mem_map.mp hnum
      have : q = k := hinj q (hkeymem q hq) k ((Objects.mem_keys_iff os k).mpr hk) (by rw [hqe, e])
      apply hko; rw [holds, holdsP.mem_iff, ← this]; exact hq
  · cases hp

theorem pages_are_keys (tr : Dict) (os : Objects) : ∀ p ∈ pageIter tr os, (os.get p).isSome := by
  intro p hp
  have := pageIter_only_pages tr os p hp
  cases hg : os.get p with
  | some o => rfl
  | none => simp [getDictionary, getObject, hg] at this

theorem firstOccAux_spec (seen : List ObjId) : ∀ l : List ObjId,
    (firstOccAux seen l).Nodup ∧ (∀ x ∈ firstOccAux seen l, x ∈ l ∧ x ∉ seen) := by
  intro l
  induction l generalizing seen with
  | nil => simp [firstOccAux]
  | cons x xs ih =>
    simp only [firstOccAux]
    split
    · obtain ⟨h1, h2⟩ := ih seen
      exact ⟨h1, fun y hy => ⟨List.mem_cons_of_mem _ (h2 y hy).1, (h2 y hy).2⟩⟩
    · rename_i hx
      obtain ⟨h1, h2⟩ := ih (x :: seen)
      refine ⟨List.nodup_cons.mpr ⟨fun hm => (h2 x hm).2 (by simp), h1⟩, ?_⟩
      intro y hy
      rcases List.mem_cons.mp hy with rfl | hy'
      · exact ⟨by simp, by simpa using hx⟩
      · have := h2 y hy'
        exact ⟨List.mem_cons_of_mem _ this.1, fun hs => this.2 (List.mem_cons_of_mem _ hs)⟩

theorem firstOcc_nodup (l : List ObjId) : (firstOcc l).Nodup := (firstOccAux_spec [] l).1
theorem firstOcc_sub (l : List ObjId) : ∀ x ∈ firstOcc l, x ∈ l := fun x hx => ((firstOccAux_spec [] l).2 x hx).1

/-- the page-order pass is an `IsoStep` (guard: object numbers pairwise distinct; a page the tree lists twice
is taken once since the fix of F-C11-d) -/
theorem pagePass_isoStep (d : Doc) (g2 : (d.objects.keys.map (·.1)).Nodup) :
    ∃ r1, IsoStep d.trailer d.objects (pagePass d).trailer (pagePass d).objects r1 := by
  cases hp : pagePairs (firstOcc (pageIter d.trailer d.objects)) with
  | none =>
    have : pagePass d = d := by unfold pagePass; rw [hp]
    rw [this]; exact ⟨id, isoStep_id _ _⟩
  | some pairs =>
    have hok := pagePairs_passOK d.objects _ pairs hp (firstOcc_nodup _)
      (fun p hp' => pages_are_keys _ _ p (firstOcc_sub _ p hp')) g2
    refine ⟨rhoFn pairs, ?_⟩
    have := pass_isoStep d.bookmarks d.objects d.bmTable d.trailer pairs hok
    unfold pagePass; rw [hp]; exact this

theorem perm_of_nodup_mem_iff {α} [DecidableEq α] {l1 l2 : List α} (h1 : l1.Nodup) (h2 : l2.Nodup)
    (h : ∀ a, a ∈ l1 ↔ a ∈ l2) : l1.Perm l2 := by
  rw [List.perm_iff_count]
  intro a
  rw [h1.count, h2.count]
  by_cases ha : a ∈ l1
  · simp [ha, (h a).mp ha]
  · have : a ∉ l2 := fun hh => ha ((h a).mpr hh)
    simp [ha, this]

/-- an `IsoStep` between sorted maps keeps the number of objects -/
theorem IsoStep.length_eq {tr tr' : Dict} {os os' : Objects} {rho : ObjId → ObjId}
    (h : IsoStep tr os tr' os' rho) (hs : os.Sorted) (hs' : os'.Sorted) : os'.length = os.length := by
  have hn := Objects.sorted_nodup os hs
  have hn' := Objects.sorted_nodup os' hs'
  have hinj : ∀ a ∈ os.keys, ∀ b ∈ os.keys, rho a = rho b → a = b := fun a ha b hb e =>
    h.inj a b ((Objects.mem_keys_iff os a).mp ha) ((Objects.mem_keys_iff os b).mp hb) e
  have hp : os'.keys.Perm (os.keys.map rho) := by
    apply perm_of_nodup_mem_iff hn' (nodup_map_of_inj rho os.keys hn hinj)
    intro q
    rw [Objects.mem_keys_iff, h.keys q, List.mem_map]
    constructor
    · rintro ⟨k, hk, e⟩; exact ⟨k, (Objects.mem_keys_iff os k).mpr hk, e⟩
    · rintro ⟨k, hk, e⟩; exact ⟨k, (Objects.mem_keys_iff os k).mp hk, e⟩
  have := hp.length_eq
  simpa [Objects.keys] using this


/-! ### page order under a renaming -/

section PageOrder
variable (os os' : Objects) (rho : ObjId → ObjId) (Good : ObjId → Prop)

/-- what the page walk needs from the renaming: on the ids it can meet (`Good`, closed under the references
of the objects it resolves) a renamed reference resolves to the renamed object — or to nothing, as before -/
structure Commutes : Prop where
  get : ∀ x, Good x → os'.get (rho x) = (os.get x).map (mapRefs rho)
  closed : ∀ x o, Good x → os.get x = some o → ∀ r ∈ refsOf o, Good r

variable {os os' rho Good}

theorem dictGet_mapRefsD (d : Dict) (k : Bytes) : Dict.get (mapRefsD rho d) k = (Dict.get d k).map (mapRefs rho) := by
  induction d with
  | nil => simp [mapRefsD, Dict.get]
  | cons p rest ih =>
    obtain ⟨k0, v0⟩ := p
    simp only [mapRefsD, Dict.get]
    split <;> simp [ih]

theorem mem_refsOfD_of_get (d : Dict) (k : Bytes) (v : Obj) (h : Dict.get d k = some v) : ∀ r ∈ refsOf v, r ∈ refsOfD d := by
  induction d with
  | nil => simp [Dict.get] at h
  | cons p rest ih =>
    obtain ⟨k0, v0⟩ := p
    simp only [Dict.get] at h
    intro r hr
    simp only [refsOfD, List.mem_append]
    split at h
    · cases h; exact Or.inl hr
    · exact Or.inr (ih h r hr)

theorem asName_mapRefs (o : Obj) : (mapRefs rho o).asName = o.asName := by cases o <;> simp [mapRefs, Obj.asName]
theorem asRef_mapRefs (o : Obj) : (mapRefs rho o).asRef = o.asRef.map rho := by cases o <;> simp [mapRefs, Obj.asRef]
theorem asArr_mapRefs (o : Obj) : (mapRefs rho o).asArr = o.asArr.map (mapRefsL rho) := by cases o <;> simp [mapRefs, Obj.asArr]
theorem asDict_mapRefs (o : Obj) : (mapRefs rho o).asDict = o.asDict.map (mapRefsD rho) := by cases o <;> simp [mapRefs, Obj.asDict]

theorem getType_mapRefsD (d : Dict) : Dict.getType (mapRefsD rho d) = Dict.getType d := by
  unfold Dict.getType Dict.has
  simp only [dictGet_mapRefsD]
  cases h1 : Dict.get d TYPE with
  | none => cases Dict.get d LINEARIZED <;> simp
  | some v =>
    simp only [Option.map_some, Option.bind_some, asName_mapRefs]
    cases v.asName with
    | some n => rfl
    | none => cases Dict.get d LINEARIZED <;> simp

theorem derefAux_comm (h : Commutes os os' rho Good) : ∀ (n : Nat) (o : Obj), (∀ r ∈ refsOf o, Good r) →
    derefAux os' n (mapRefs rho o) = (derefAux os n o).map (mapRefs rho) ∧
    ∀ o2, derefAux os n o = some o2 → ∀ r ∈ refsOf o2, Good r := by
  intro n
  induction n with
  | zero =>
    intro o hg
    cases o with
    | ref a b =>
      have hgab : Good (a, b) := hg (a, b) (by simp [refsOf])
      simp only [mapRefs, derefAux]
      rw [show ((rho (a, b)).1, (rho (a, b)).2) = rho (a, b) from rfl, h.get (a, b) hgab]
      cases os.get (a, b) <;> simp
    | _ => simp_all [mapRefs, derefAux]
  | succ n ih =>
    intro o hg
    cases o with
    | ref a b =>
      have hgab : Good (a, b) := hg (a, b) (by simp [refsOf])
      simp only [mapRefs, derefAux]
      rw [show ((rho (a, b)).1, (rho (a, b)).2) = rho (a, b) from rfl, h.get (a, b) hgab]
      cases hos : os.get (a, b) with
      | none => simp
      | some o' =>
        simp only [Option.map_some]
        exact ih o' (h.closed (a, b) o' hgab hos)
    | _ => simp_all [mapRefs, derefAux]

theorem getObject_comm (h : Commutes os os' rho Good) (id : ObjId) (hg : Good id) :
    getObject os' (rho id) = (getObject os id).map (mapRefs rho) ∧
    ∀ o2, getObject os id = some o2 → ∀ r ∈ refsOf o2, Good r := by
  unfold getObject deref
  rw [h.get id hg]
  cases hos : os.get id with
  | none => simp
  | some o =>
    simp only [Option.map_some, Option.bind_some]
    exact derefAux_comm h _ o (h.closed id o hg hos)

theorem getDictionary_comm (h : Commutes os os' rho Good) (id : ObjId) (hg : Good id) :
    getDictionary os' (rho id) = (getDictionary os id).map (mapRefsD rho) ∧
    ∀ d, getDictionary os id = some d → ∀ r ∈ refsOfD d, Good r := by
  unfold getDictionary
  obtain ⟨h1, h2⟩ := getObject_comm h id hg
  rw [h1]
  cases hob : getObject os id with
  | none => simp
  | some o =>
    simp only [Option.map_some, Option.bind_some, asDict_mapRefs]
    refine ⟨trivial, ?_⟩
    intro d hd r hr
    cases o <;> simp [Obj.asDict] at hd
    subst hd
    exact h2 _ hob r (by simpa [refsOf] using hr)

theorem kidsOf_comm (h : Commutes os os' rho Good) (id : ObjId) (hg : Good id) :
    kidsOf os' (rho id) = (kidsOf os id).map (mapRefsL rho) ∧
    ∀ ks, kidsOf os id = some ks → ∀ r ∈ refsOfL ks, Good r := by
  unfold kidsOf
  obtain ⟨h1, h2⟩ := getDictionary_comm h id hg
  rw [h1]
  cases hd : getDictionary os id with
  | none => simp
  | some d =>
    simp only [Option.map_some, Option.bind_some, dictGet_mapRefsD]
    cases hk : Dict.get d KIDS with
    | none => simp
    | some k =>
      simp only [Option.map_some, Option.bind_some]
      have hkg : ∀ r ∈ refsOf k, Good r := fun r hr => h2 d hd r (mem_refsOfD_of_get d KIDS k hk r hr)
      obtain ⟨e1, e2⟩ := derefAux_comm h Gen.DEREF_LIMIT k hkg
      unfold deref
      rw [e1]
      cases hdk : derefAux os Gen.DEREF_LIMIT k with
      | none => simp
      | some o2 =>
        simp only [Option.map_some, Option.bind_some, asArr_mapRefs]
        refine ⟨trivial, ?_⟩
        intro ks hks r hr
        cases o2 <;> simp [Obj.asArr] at hks
        subst hks
        exact e2 _ hdk r (by simpa [refsOf] using hr)

def mapCls (rho : ObjId → ObjId) : Cls → Cls
  | .skip => .skip
  | .page id => .page (rho id)
  | .pages ks => .pages (ks.map (mapRefsL rho))

theorem classify_comm (h : Commutes os os' rho Good) (kid : Obj) (hg : ∀ r ∈ refsOf kid, Good r) :
    classify os' (mapRefs rho kid) = mapCls rho (classify os kid) ∧
    ∀ ks, classify os kid = .pages (some ks) → ∀ r ∈ refsOfL ks, Good r := by
  unfold classify
  rw [asRef_mapRefs]
  cases hr : kid.asRef with
  | none => simp [mapCls]
  | some id =>
    have hgid : Good id := by
      cases kid <;> simp [Obj.asRef] at hr
      subst hr; exact hg _ (by simp [refsOf])
    simp only [Option.map_some]
    obtain ⟨d1, _⟩ := getDictionary_comm h id hgid
    rw [d1]
    cases hd : getDictionary os id with
    | none => simp [mapCls]
    | some d =>
      simp only [Option.map_some, Option.bind_some, getType_mapRefsD]
      cases ht : Dict.getType d with
      | none => simp [mapCls]
      | some t =>
        simp only
        by_cases hp : t = PAGE
        · simp [hp, mapCls]
        · simp only [hp, if_false]
          by_cases hps : t = PAGES
          · obtain ⟨k1, k2⟩ := kidsOf_comm h id hgid
            simp only [hps, if_true, k1, mapCls]
            refine ⟨trivial, ?_⟩
            intro ks hks
            have e : kidsOf os id = some ks := by injection hks
            exact k2 ks e
          · simp [hps, mapCls]

def GoodL (Good : ObjId → Prop) (l : List Obj) : Prop := ∀ r ∈ refsOfL l, Good r

theorem goodL_cons {Good : ObjId → Prop} {x : Obj} {xs : List Obj} (h : GoodL Good (x :: xs)) :
    (∀ r ∈ refsOf x, Good r) ∧ GoodL Good xs := by
  constructor
  · intro r hr; exact h r (by simp [refsOfL, hr])
  · intro r hr; exact h r (by simp [refsOfL, hr])

theorem mapRefsL_eq_map (l : List Obj) : mapRefsL rho l = l.map (mapRefs rho) := by
  induction l with
  | nil => rfl
  | cons x xs ih => simp [mapRefsL, ih]

/-- the drained iterator commutes with the renaming -/
theorem run_comm (cls cls' : Obj → Cls)
    (hcls : ∀ kid, (∀ r ∈ refsOf kid, Good r) →
      cls' (mapRefs rho kid) = mapCls rho (cls kid) ∧ (∀ ks, cls kid = .pages (some ks) → GoodL Good ks)) :
    ∀ (k : Option (List Obj)) (stk : List (List Obj)) (lim : Nat),
      (∀ l, k = some l → GoodL Good l) → (∀ l ∈ stk, GoodL Good l) →
      run cls' (k.map (mapRefsL rho)) (stk.map (mapRefsL rho)) lim = (run cls k stk lim).map rho := by
  intro k stk lim
  induction k, stk, lim using run.induct (cls := cls) with
  | case1 kid rest stack =>
    intro _ _
    simp only [Option.map_some, mapRefsL]
    rw [run, run]; simp
  | case2 kid rest stack limit h hc ih =>
    intro hk hs
    obtain ⟨hkid, hrest⟩ := goodL_cons (hk _ rfl)
    have hc' := (hcls kid hkid).1
    rw [hc] at hc'
    simp only [Option.map_some, mapRefsL]
    rw [run, run]; simp only [h, if_false, hc, hc', mapCls]
    exact ih (fun l hl => by cases hl; exact hrest) hs
  | case3 kid rest stack limit h pid hc ih =>
    intro hk hs
    obtain ⟨hkid, hrest⟩ := goodL_cons (hk _ rfl)
    have hc' := (hcls kid hkid).1
    rw [hc] at hc'
    simp only [Option.map_some, mapRefsL]
    rw [run, run]; simp only [h, if_false, hc, hc', mapCls, List.map_cons]
    congr 1
    exact ih (fun l hl => by cases hl; exact hrest) hs
  | case4 kid rest stack limit h ks hc hd ih =>
    intro hk hs
    obtain ⟨hkid, hrest⟩ := goodL_cons (hk _ rfl)
    have hc' := (hcls kid hkid).1
    have hks := (hcls kid hkid).2
    rw [hc] at hc'
    simp only [Option.map_some, mapRefsL]
    rw [run, run]
    have hd' : (List.map (mapRefsL rho) stack).length < Gen.PAGE_TREE_DEPTH_LIMIT := by simpa using hd
    simp only [h, if_false, hc, hc', mapCls, hd, hd', if_true]
    have hemp : (mapRefsL rho rest).isEmpty = rest.isEmpty := by cases rest <;> simp [mapRefsL]
    rw [hemp]
    by_cases he : rest.isEmpty = true
    · simp only [he, if_true, dite_true] at ih ⊢
      exact ih (fun l hl => hks l (by rw [hc, hl])) hs
    · simp only [he, if_false, dite_false] at ih ⊢
      have := ih (fun l hl => hks l (by rw [hc, hl])) (by
        intro l hl
        rcases List.mem_cons.mp hl with rfl | hl
        · exact hrest
        · exact hs l hl)
      simpa using this
  | case5 kid rest stack limit h ks hc hd ih =>
    intro hk hs
    obtain ⟨hkid, hrest⟩ := goodL_cons (hk _ rfl)
    have hc' := (hcls kid hkid).1
    rw [hc] at hc'
    simp only [Option.map_some, mapRefsL]
    rw [run, run]
    have hd' : ¬ (List.map (mapRefsL rho) stack).length < Gen.PAGE_TREE_DEPTH_LIMIT := by simpa using hd
    simp only [h, if_false, hc, hc', mapCls, hd, hd']
    exact ih (fun l hl => by cases hl; exact hrest) hs
  | case6 top st limit ih =>
    intro _ hs
    simp only [Option.map_some, mapRefsL, List.map_cons]
    rw [run, run]
    exact ih (fun l hl => by cases hl; exact hs top (by simp)) (fun l hl => hs l (by simp [hl]))
  | case7 top st limit ih =>
    intro _ hs
    simp only [Option.map_none, List.map_cons]
    rw [run, run]
    exact ih (fun l hl => by cases hl; exact hs top (by simp)) (fun l hl => hs l (by simp [hl]))
  | case8 l => intro _ _; simp only [Option.map_some, mapRefsL, List.map_nil]; rw [run, run]; simp
  | case9 l => intro _ _; simp only [Option.map_none, List.map_nil]; rw [run, run]; simp

/-- **page enumeration commutes with a renaming** that resolves renamed references to renamed objects on
everything reachable from the trailer -/
theorem pageIter_comm (tr tr' : Dict) (htr : tr' = mapRefsD rho tr) (hlen : os'.length = os.length)
    (h : Commutes os os' rho Good) (hroot : ∀ r ∈ refsOfD tr, Good r) :
    pageIter tr' os' = (pageIter tr os).map rho := by
  unfold pageIter
  simp only
  rw [htr, dictGet_mapRefsD]
  cases hr : Dict.get tr ROOT with
  | none => simp
  | some rv =>
    simp only [Option.map_some, Option.bind_some, asRef_mapRefs]
    cases hcat : rv.asRef with
    | none => simp
    | some cat =>
      have hgcat : Good cat := by
        apply hroot
        apply mem_refsOfD_of_get tr ROOT rv hr
        cases rv <;> simp [Obj.asRef] at hcat
        subst hcat; simp [refsOf]
      simp only [Option.map_some, Option.bind_some]
      obtain ⟨d1, d2⟩ := getDictionary_comm h cat hgcat
      rw [d1]
      cases hd : getDictionary os cat with
      | none => simp
      | some d =>
        simp only [Option.map_some, Option.bind_some, dictGet_mapRefsD]
        cases hp : Dict.get d PAGES with
        | none => simp
        | some pv =>
          simp only [Option.map_some, Option.bind_some, asRef_mapRefs]
          cases hpid : pv.asRef with
          | none => simp
          | some pid =>
            have hgpid : Good pid := by
              apply d2 d hd
              apply mem_refsOfD_of_get d PAGES pv hp
              cases pv <;> simp [Obj.asRef] at hpid
              subst hpid; simp [refsOf]
            simp only [Option.map_some]
            obtain ⟨k1, k2⟩ := kidsOf_comm h pid hgpid
            rw [k1, hlen]
            have := run_comm (rho := rho) (Good := Good) (classify os) (classify os') (fun kid hk => classify_comm h kid hk)
              (kidsOf os pid) [] os.length (fun l hl => k2 l hl) (by simp)
            simpa using this

end PageOrder
end Lopdf.Ren
