import LopdfModel.Lemmas.C09DictRemove
namespace Lopdf
open Gen

theorem Dict.mem_keys_set_c09 (d : Dict) (k : Bytes) (v : Obj) (x : Bytes)
    (h : x ∈ (d.set k v).map (·.1)) : x ∈ d.map (·.1) ∨ x = k := by
  induction d with
  | nil => simp [Dict.set] at h; exact Or.inr h
  | cons e rest ih =>
    obtain ⟨k', v'⟩ := e
    by_cases hk : k' = k
    · simp only [Dict.set, hk, if_true, List.map_cons, List.mem_cons] at h ⊢
      rcases h with h | h
      · exact Or.inr h
      · exact Or.inl (Or.inr h)
    · simp only [Dict.set, hk, if_false, List.map_cons, List.mem_cons] at h ⊢
      rcases h with h | h
      · exact Or.inl (Or.inl h)
      · rcases ih h with h | h
        · exact Or.inl (Or.inr h)
        · exact Or.inr h

theorem Dict.keysNodup_set_c09 (d : Dict) (k : Bytes) (v : Obj) (hn : d.KeysNodup) : (d.set k v).KeysNodup := by
  induction d with
  | nil => simp [Dict.set, Dict.KeysNodup]
  | cons e rest ih =>
    obtain ⟨k', v'⟩ := e
    unfold Dict.KeysNodup at hn ih ⊢
    simp only [List.map_cons, List.nodup_cons] at hn
    by_cases hk : k' = k
    · simp only [Dict.set, hk, if_true, List.map_cons, List.nodup_cons]
      rw [← hk]; exact hn
    · simp only [Dict.set, hk, if_false, List.map_cons, List.nodup_cons]
      refine ⟨?_, ih hn.2⟩
      intro hm
      rcases Dict.mem_keys_set_c09 rest k v k' hm with h | h
      · exact hn.1 h
      · exact hk h

/-- `Stream::decompress`, when it succeeds on a stream with distinct keys: no `Filter` and no `DecodeParms` entry
remains, the content is the decoded content, the result is plain and `Length` is right -/
theorem decompress_spec' (ext : Ext) (s s' : Strm) (hn : s.dict.KeysNodup) (h : decompress ext s = .ok s') :
    s'.dict.get K_FILTER = none ∧ s'.dict.get K_DECODEPARMS = none ∧
    decompressedContent ext s = .ok s'.content ∧ getPlainContent ext s' = .ok s'.content ∧ LengthOk s' := by
  unfold decompress at h
  cases hd : decompressedContent ext s with
  | err e => rw [hd] at h; simp [Outcome.map] at h
  | panic p => rw [hd] at h; simp [Outcome.map] at h
  | ok data =>
    rw [hd] at h
    simp only [Outcome.map, Outcome.ok.injEq] at h
    have hk : DECOMPRESS_KEYS = [K_DECODEPARMS, K_FILTER] := by decide
    rw [hk] at h
    simp only [removeKeysSeq, setContent] at h
    subst h
    have n1 : K_LENGTH ≠ K_FILTER := by decide
    have n2 : K_LENGTH ≠ K_DECODEPARMS := by decide
    have hF : (((s.dict.remove K_DECODEPARMS).remove K_FILTER).set K_LENGTH (lenObj data)).get K_FILTER = none := by
      rw [Dict.get_set_other_c09 _ _ _ _ n1]
      exact Dict.get_remove_same_c09 _ _ (Dict.keysNodup_remove_c09 _ _ hn)
    have hP : (((s.dict.remove K_DECODEPARMS).remove K_FILTER).set K_LENGTH (lenObj data)).get K_DECODEPARMS = none := by
      rw [Dict.get_set_other_c09 _ _ _ _ n2]
      exact Dict.get_remove_none_c09 _ _ _ (Dict.get_remove_same_c09 _ _ hn)
    refine ⟨hF, hP, rfl, ?_, ?_⟩
    · simp [getPlainContent, streamFilters, hF]
    · simp [LengthOk, Dict.get_set_same_c09, lenObj]

/-- what `Document::decompress` does to one stream -/
def decompS (ext : Ext) (s : Strm) : Strm :=
  match decompress ext s with
  | .ok s' => s'
  | _ => s

/-- decompressing a stream never changes its plain content (an EMPTY `Filter` array included, since lopdf 70e5e99) -/
theorem decompS_plain' (ext : Ext) (s : Strm) (hn : s.dict.KeysNodup) :
    getPlainContent ext (decompS ext s) = getPlainContent ext s := by
  unfold decompS
  cases hd : decompress ext s with
  | err e => rfl
  | panic p => rfl
  | ok s' =>
    obtain ⟨_, _, hc, hp, _⟩ := decompress_spec' ext s s' hn hd
    simp only []
    rw [hp, ← hc]
    unfold getPlainContent
    cases hf : streamFilters s.dict with
    | none => simp [decompressedContent, hf] at hc
    | some fs =>
      cases fs with
      | nil => simp [decompressedContent, hf]
      | cons f fs => rfl

theorem compress_keysNodup' (deflate : Bytes → Bytes) (s : Strm) (hn : s.dict.KeysNodup) :
    (compress deflate s).dict.KeysNodup := by
  rcases compress_cases deflate s with h | ⟨_, _, h⟩
  · rw [h]; exact hn
  · rw [h]; simp only [setContent]
    exact Dict.keysNodup_set_c09 _ _ _ (Dict.keysNodup_set_c09 _ _ _ (Dict.keysNodup_remove_c09 _ _ hn))

/-- **compress then decompress** restores the plain content of every stream -/
theorem compress_decompress_plain' (ext : Ext) (deflate : Bytes → Bytes)
    (hfl : ∀ x, ext.inflate (deflate x) = x) (hne : ∀ x, deflate x ≠ [])
    (s : Strm) (hn : s.dict.KeysNodup) :
    getPlainContent ext (decompS ext (compress deflate s)) = getPlainContent ext s := by
  rw [decompS_plain' ext _ (compress_keysNodup' deflate s hn)]
  exact compress_rt' ext deflate hfl hne s hn
end Lopdf
