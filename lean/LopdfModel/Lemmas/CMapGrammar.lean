import LopdfModel.Model.CMapParse
import LopdfModel.Spec.CMapRender
/-
  C15 — the grammar model reads back what the canonical writer wrote
  (token level → line level → section level → whole stream).
-/
namespace Lopdf.CMap
open Lopdf Lopdf.Gen Lopdf.CMapRender

set_option linter.unusedSimpArgs false

/-- not a byte `multispace0` / `space0` would consume (blank, tab, LF, CR, `%`) -/
def NonWs (b : UInt8) : Prop := b ≠ 32 ∧ b ≠ 9 ∧ b ≠ 10 ∧ b ≠ 13 ∧ b ≠ 37

theorem hexDigit_facts : ∀ n : Fin 16,
    isHexDigit (hexDigitU n.val.toUInt8) = true ∧ (hexVal (hexDigitU n.val.toUInt8)).toNat = n.val ∧
    NonWs (hexDigitU n.val.toUInt8) ∧ hexDigitU n.val.toUInt8 ≠ 62 := by
  unfold NonWs; decide

theorem hexDigit_nat (n : Nat) (h : n < 16) :
    isHexDigit (hexDigitU n.toUInt8) = true ∧ (hexVal (hexDigitU n.toUInt8)).toNat = n ∧
    NonWs (hexDigitU n.toUInt8) ∧ hexDigitU n.toUInt8 ≠ 62 := hexDigit_facts ⟨n, h⟩

theorem phexChar_hex2 (b : Nat) (hb : b < 256) (rest : Bytes) :
    phexChar (hex2 b ++ rest) = .ok b rest := by
  have ⟨a1, a2, _, _⟩ := hexDigit_nat (b / 16) (by omega)
  have ⟨b1, b2, _, _⟩ := hexDigit_nat (b % 16) (by omega)
  simp only [hex2, List.cons_append, List.nil_append, phexChar, a1, b1, Bool.and_self, if_true, a2, b2]
  congr 1; omega

theorem phexChar_gt (rest : Bytes) : phexChar (62 :: rest) = .error := by
  cases rest with
  | nil => rfl
  | cons c rest' =>
    have : isHexDigit 62 = false := by decide
    simp [phexChar, this]

theorem ptag_append (t rest : Bytes) : ptag t (t ++ rest) = .ok () rest := by
  have h1 : t.isPrefixOf (t ++ rest) = true := by
    induction t with
    | nil => simp [List.isPrefixOf]
    | cons x t ih => simp [List.isPrefixOf, ih]
  simp [ptag, h1]

theorem ptagS_append (s : String) (rest : Bytes) : ptagS s (strBytes s ++ rest) = .ok () rest :=
  ptag_append _ _

theorem ptag_cons_ne (t : Bytes) (x y : UInt8) (i : Bytes) (h : x ≠ y) : ptag (x :: t) (y :: i) = .error := by
  simp [ptag, List.isPrefixOf, h]

theorem kw_lt : strBytes "<" = [60] := by decide +kernel
theorem kw_gt : strBytes ">" = [62] := by decide +kernel
theorem kw_lb : strBytes "[" = [91] := by decide +kernel
theorem kw_rb : strBytes "]" = [93] := by decide +kernel

theorem hex2_head (b : Nat) (hb : b < 256) (rest : Bytes) :
    ∃ x t, hex2 b ++ rest = x :: t ∧ NonWs x ∧ x ≠ 62 := by
  have ⟨_, _, a3, a4⟩ := hexDigit_nat (b / 16) (by omega)
  exact ⟨_, _, rfl, a3, a4⟩

/-- `many_m_n(_, n, hex_char)` reads back the bytes written as hex pairs and stops at `>` -/
theorem manyUpTo_hex (bs : List Nat) : ∀ (n : Nat), bs.length ≤ n → (∀ b ∈ bs, b < 256) → ∀ rest : Bytes,
    manyUpTo phexChar n (bs.flatMap hex2 ++ 62 :: rest) = (bs, 62 :: rest) := by
  induction bs with
  | nil =>
    intro n _ _ rest
    cases n with
    | zero => rfl
    | succ n =>
      simp only [List.flatMap_nil, List.nil_append, manyUpTo, phexChar_gt]
  | cons b bs ih =>
    intro n hn hb rest
    cases n with
    | zero => simp at hn
    | succ n =>
      simp only [List.flatMap_cons, List.append_assoc, manyUpTo]
      rw [phexChar_hex2 b (hb b List.mem_cons_self)]
      simp only
      rw [ih n (by simpa using hn) (fun x hx => hb x (List.mem_cons_of_mem _ hx))]

theorem codeBytes_length (len c : Nat) : (codeBytes len c).length = len := by
  induction len generalizing c with
  | zero => rfl
  | succ n ih => simp [codeBytes, ih]

theorem codeBytes_lt (len c : Nat) : ∀ b ∈ codeBytes len c, b < 256 := by
  induction len generalizing c with
  | zero => intro b hb; cases hb
  | succ n ih =>
    intro b hb
    simp only [codeBytes, List.mem_append, List.mem_singleton] at hb
    rcases hb with hb | hb
    · exact ih _ b hb
    · omega

theorem codeBytes_val (len c : Nat) (h : c < 256 ^ len) :
    (codeBytes len c).foldl (fun acc b => acc * 256 + b) 0 = c := by
  induction len generalizing c with
  | zero => simp at h; simp [codeBytes, h]
  | succ n ih =>
    have : c / 256 < 256 ^ n := by
      rw [Nat.pow_succ] at h
      exact Nat.div_lt_of_lt_mul (by rw [Nat.mul_comm]; exact h)
    simp only [codeBytes, List.foldl_append, List.foldl_cons, List.foldl_nil, ih _ this]
    omega

/-- **source_code** reads back a written code with its length -/
theorem psourceCode_render (c len : Nat) (h1 : 1 ≤ len) (h4 : len ≤ 4) (hc : c < 256 ^ len) (rest : Bytes) :
    psourceCode (renderCode c len ++ rest) = .ok (c, len) rest := by
  unfold psourceCode renderCode
  have hm := manyUpTo_hex (codeBytes len c) CMAP_SRC_MAX (by rw [codeBytes_length]; exact h4)
    (codeBytes_lt len c) rest
  have t1 : ∀ r : Bytes, ptagS "<" (60 :: r) = .ok () r := fun r => by
    have := ptagS_append "<" r; rwa [kw_lt] at this
  have t2 : ∀ r : Bytes, ptagS ">" (62 :: r) = .ok () r := fun r => by
    have := ptagS_append ">" r; rwa [kw_gt] at this
  have hmin : ¬ len < CMAP_SRC_MIN := by simp [CMAP_SRC_MIN]; omega
  simp only [List.cons_append, List.append_assoc, List.nil_append, t1, PR.bind, hm, codeBytes_length, hmin,
    if_false, t2, codeBytes_val len c hc]

/-! white space -/

theorem space0_nonws {x : UInt8} (h : NonWs x) (rest : Bytes) : space0 (x :: rest) = x :: rest := by
  obtain ⟨a, b, _, _, _⟩ := h
  simp [space0, a, b]

theorem space0_blank (rest : Bytes) : space0 (32 :: rest) = space0 rest := by simp [space0]

theorem ms0_nonws {x : UInt8} (h : NonWs x) (rest : Bytes) : multispace0 (x :: rest) = x :: rest := by
  obtain ⟨a, b, c, d, e⟩ := h
  simp [multispace0, msGo, a, b, c, d, e]

theorem ms0_lf (rest : Bytes) : multispace0 (10 :: rest) = multispace0 rest := by
  simp [multispace0, msGo]

/-- `multispace1` after a written line: the LF and nothing else is consumed when the next byte is not white space -/
theorem pms1_lf {x : UInt8} (h : NonWs x) (rest : Bytes) : pms1 (10 :: x :: rest) = .ok () (x :: rest) := by
  simp [pms1, ms0_lf, ms0_nonws h]

theorem pspace1_blank {x : UInt8} (h : NonWs x) (rest : Bytes) : pspace1 (32 :: x :: rest) = .ok () (x :: rest) := by
  simp [pspace1, space0_nonws h]

theorem nonws_lt : NonWs 60 := by unfold NonWs; decide
theorem nonws_gt : NonWs 62 := by unfold NonWs; decide
theorem nonws_lb : NonWs 91 := by unfold NonWs; decide
theorem nonws_rb : NonWs 93 := by unfold NonWs; decide

theorem t_lt (r : Bytes) : ptagS "<" (60 :: r) = .ok () r := by
  have := ptagS_append "<" r; rwa [kw_lt] at this
theorem t_gt (r : Bytes) : ptagS ">" (62 :: r) = .ok () r := by
  have := ptagS_append ">" r; rwa [kw_gt] at this
theorem t_lb (r : Bytes) : ptagS "[" (91 :: r) = .ok () r := by
  have := ptagS_append "[" r; rwa [kw_lb] at this
theorem t_rb (r : Bytes) : ptagS "]" (93 :: r) = .ok () r := by
  have := ptagS_append "]" r; rwa [kw_rb] at this
theorem t_lt_ne {x : UInt8} (h : x ≠ 60) (r : Bytes) : ptagS "<" (x :: r) = .error := by
  unfold ptagS; rw [kw_lt]; exact ptag_cons_ne [] 60 x r (fun e => h e.symm)

/-! target strings -/

/-- head of what follows a written unit inside `<…>`: a hex digit or `>` — never white space -/
theorem units_tail_head (us : List Nat) (hu : ∀ u ∈ us, u < 65536) (rest : Bytes) :
    ∃ x t, us.flatMap unitHex ++ 62 :: rest = x :: t ∧ NonWs x := by
  cases us with
  | nil => exact ⟨62, rest, rfl, nonws_gt⟩
  | cons u us =>
    have hlt : u / 256 < 256 := by have := hu u List.mem_cons_self; omega
    obtain ⟨x, t, e, hx, _⟩ := hex2_head (u / 256) hlt (hex2 (u % 256) ++ (us.flatMap unitHex ++ 62 :: rest))
    exact ⟨x, t, by simp only [List.flatMap_cons, unitHex, List.append_assoc] at e ⊢; exact e, hx⟩

theorem pu16ms_unit (u : Nat) (hu : u < 65536) (rest : Bytes) {x : UInt8} {t : Bytes} (hr : rest = x :: t) (hx : NonWs x) :
    pu16ms (unitHex u ++ rest) = .ok u rest := by
  unfold pu16ms unitHex
  rw [List.append_assoc, phexChar_hex2 _ (by omega)]
  simp only [PR.bind]
  rw [phexChar_hex2 _ (by omega)]
  simp only [PR.bind]
  rw [hr, ms0_nonws hx]
  congr 1; omega

theorem manyUpTo_units (us : List Nat) : ∀ (n : Nat), us.length ≤ n → (∀ u ∈ us, u < 65536) → ∀ rest : Bytes,
    manyUpTo pu16ms n (us.flatMap unitHex ++ 62 :: rest) = (us, 62 :: rest) := by
  induction us with
  | nil =>
    intro n _ _ rest
    cases n with
    | zero => rfl
    | succ n =>
      have : pu16ms (62 :: rest) = .error := by simp [pu16ms, phexChar_gt, PR.bind]
      simp only [List.flatMap_nil, List.nil_append, manyUpTo, this]
  | cons u us ih =>
    intro n hn hu rest
    cases n with
    | zero => simp at hn
    | succ n =>
      obtain ⟨x, t, e, hx⟩ := units_tail_head us (fun v hv => hu v (List.mem_cons_of_mem _ hv)) rest
      simp only [List.flatMap_cons, List.append_assoc, manyUpTo]
      rw [pu16ms_unit u (hu u List.mem_cons_self) _ e hx]
      simp only
      rw [ih n (by simpa using hn) (fun v hv => hu v (List.mem_cons_of_mem _ hv))]

/-- a target the grammar accepts: 1..256 sixteen-bit units -/
def TargetOk (t : List Nat) : Prop := t ≠ [] ∧ t.length ≤ 256 ∧ ∀ u ∈ t, u < 65536

/-- **target_string** reads back a written target -/
theorem ptargetString_render (us : List Nat) (h : TargetOk us) (rest : Bytes) :
    ptargetString (renderUnits us ++ rest) = .ok us rest := by
  obtain ⟨hne, hlen, hu⟩ := h
  unfold ptargetString renderUnits
  have hm := manyUpTo_units us CMAP_DST_MAX (by simpa [CMAP_DST_MAX] using hlen) hu rest
  have hmin : ¬ us.length < CMAP_DST_MIN := by
    have : 0 < us.length := by cases us with | nil => exact absurd rfl hne | cons _ _ => simp
    simp [CMAP_DST_MIN]; omega
  simp only [List.cons_append, List.append_assoc, List.nil_append, t_lt, PR.bind, hm, hmin, if_false, t_gt]

theorem space0_renderCode (c len : Nat) (r : Bytes) : space0 (renderCode c len ++ r) = renderCode c len ++ r :=
  space0_nonws nonws_lt _
theorem space0_renderUnits (us : List Nat) (r : Bytes) : space0 (renderUnits us ++ r) = renderUnits us ++ r :=
  space0_nonws nonws_lt _

/-! lines -/

def CodeOk (c len : Nat) : Prop := 1 ≤ len ∧ len ≤ 4 ∧ c < 256 ^ len

/-- **bf_char_line** reads back a written line (the following text must not start with white space) -/
theorem pbfCharLine_render (l : (Nat × Nat) × List Nat) (hc : CodeOk l.1.1 l.1.2) (ht : TargetOk l.2)
    {x : UInt8} (hx : NonWs x) (rest : Bytes) :
    pbfCharLine (renderCharLine l ++ x :: rest) = .ok l (x :: rest) := by
  obtain ⟨⟨c, len⟩, dst⟩ := l
  obtain ⟨h1, h4, hcl⟩ := hc
  unfold pbfCharLine renderCharLine
  simp only [List.append_assoc, List.cons_append, List.nil_append]
  rw [space0_renderCode, psourceCode_render c len h1 h4 hcl]
  simp only [PR.bind, space0_blank]
  rw [space0_renderUnits, ptargetString_render dst ht]
  simp only [PR.bind, pms1_lf hx]

/-- the text starts with a byte that is not white space -/
def HeadNonWs (l : Bytes) : Prop := ∃ y t, l = y :: t ∧ NonWs y

theorem HeadNonWs.append {l : Bytes} (h : HeadNonWs l) (r : Bytes) : HeadNonWs (l ++ r) := by
  obtain ⟨y, t, e, hy⟩ := h; exact ⟨y, t ++ r, by rw [e]; rfl, hy⟩
theorem headNonWs_cons {x : UInt8} (h : NonWs x) (r : Bytes) : HeadNonWs (x :: r) := ⟨x, r, rfl, h⟩
theorem headNonWs_code (c len : Nat) (r : Bytes) : HeadNonWs (renderCode c len ++ r) := ⟨60, _, rfl, nonws_lt⟩

theorem pms1_lf' {l : Bytes} (h : HeadNonWs l) : pms1 (10 :: l) = .ok () l := by
  obtain ⟨y, t, e, hy⟩ := h; rw [e]; exact pms1_lf hy t
theorem pspace1_blank' {l : Bytes} (h : HeadNonWs l) : pspace1 (32 :: l) = .ok () l := by
  obtain ⟨y, t, e, hy⟩ := h; rw [e]; exact pspace1_blank hy t
theorem space0_head {l : Bytes} (h : HeadNonWs l) : space0 l = l := by
  obtain ⟨y, t, e, hy⟩ := h; rw [e]; exact space0_nonws hy t

/-- **code_range_pair** reads back `<lo> <hi>` -/
theorem pcodeRangePair_render (lo hi len : Nat) (h1 : CodeOk lo len) (h2 : CodeOk hi len) (r : Bytes) :
    pcodeRangePair (renderCode lo len ++ 32 :: (renderCode hi len ++ r)) = .ok (lo, hi, len) r := by
  unfold pcodeRangePair
  rw [psourceCode_render lo len h1.1 h1.2.1 h1.2.2]
  simp only [PR.bind, space0_blank]
  rw [space0_renderCode, psourceCode_render hi len h2.1 h2.2.1 h2.2.2]
  simp [PR.bind]

theorem renderMore_length (ts : List (List Nat)) (r : Bytes) : ts.length ≤ (renderMore ts ++ r).length := by
  induction ts with
  | nil => simp
  | cons t ts ih => simp only [renderMore, List.cons_append, List.append_assoc, List.length_cons, List.length_append] at ih ⊢; omega

theorem sepList_render (ts : List (List Nat)) : ∀ fuel, ts.length ≤ fuel → (∀ t ∈ ts, TargetOk t) → ∀ r : Bytes,
    sepListGo fuel (renderMore ts ++ 93 :: r) = (ts, 93 :: r) := by
  induction ts with
  | nil =>
    intro fuel _ _ r
    cases fuel with
    | zero => rfl
    | succ f =>
      have : pspace1 (93 :: r) = .error := by simp [pspace1]
      simp only [renderMore, List.nil_append, sepListGo, this]
  | cons t ts ih =>
    intro fuel hf ht r
    cases fuel with
    | zero => simp at hf
    | succ f =>
      simp only [renderMore, List.cons_append, List.append_assoc, sepListGo]
      rw [pspace1_blank' (l := renderUnits t ++ (renderMore ts ++ 93 :: r)) ⟨60, _, rfl, nonws_lt⟩]
      simp only
      rw [ptargetString_render t (ht t List.mem_cons_self)]
      simp only
      rw [ih f (by simpa using hf) (fun t' h' => ht t' (List.mem_cons_of_mem _ h'))]

/-- **range_target_array** reads back `[<t1> <t2> …]` -/
theorem prangeTargetArray_render (t : List Nat) (ts : List (List Nat)) (ht : ∀ x ∈ t :: ts, TargetOk x) (r : Bytes) :
    prangeTargetArray (91 :: (renderUnits t ++ renderMore ts ++ [93]) ++ r) = .ok (t :: ts) r := by
  unfold prangeTargetArray
  simp only [List.cons_append, List.append_assoc, List.nil_append, t_lb, PR.bind]
  rw [space0_renderUnits, ptargetString_render t (ht t List.mem_cons_self)]
  simp only [PR.bind]
  rw [sepList_render ts _ (renderMore_length ts _) (fun x hx => ht x (List.mem_cons_of_mem _ hx))]
  simp only [space0_nonws nonws_rb, t_rb, PR.bind]

def RangeLineOk (l : (Nat × Nat × Nat) × List (List Nat)) : Prop :=
  CodeOk l.1.1 l.1.2.2 ∧ CodeOk l.1.2.1 l.1.2.2 ∧ l.2 ≠ [] ∧ ∀ t ∈ l.2, TargetOk t

/-- the target part of a bfrange line: a plain string for one target, an array for several -/
theorem ptargets_render (dsts : List (List Nat)) (hne : dsts ≠ []) (ht : ∀ t ∈ dsts, TargetOk t) (r : Bytes) :
    palt ptargetSingle prangeTargetArray (renderTargets dsts ++ r) = .ok dsts r := by
  cases dsts with
  | nil => exact absurd rfl hne
  | cons t ts =>
    cases ts with
    | nil =>
      simp only [renderTargets, palt, ptargetSingle]
      rw [ptargetString_render t (ht t List.mem_cons_self)]
      simp [PR.bind]
    | cons t2 ts2 =>
      have hfail : ptargetString (renderTargets (t :: t2 :: ts2) ++ r) = .error := by
        simp only [renderTargets, List.cons_append, ptargetString, t_lt_ne (show (91 : UInt8) ≠ 60 by decide), PR.bind]
      simp only [palt, ptargetSingle, hfail, PR.bind]
      exact prangeTargetArray_render t (t2 :: ts2) ht r

/-- **bf_range_line** reads back a written line -/
theorem pbfRangeLine_render (l : (Nat × Nat × Nat) × List (List Nat)) (h : RangeLineOk l)
    {x : UInt8} (hx : NonWs x) (rest : Bytes) :
    pbfRangeLine (renderRangeLine l ++ x :: rest) = .ok l (x :: rest) := by
  obtain ⟨⟨lo, hi, len⟩, dsts⟩ := l
  obtain ⟨h1, h2, hne, ht⟩ := h
  unfold pbfRangeLine renderRangeLine
  simp only [List.append_assoc, List.cons_append, List.nil_append]
  rw [space0_renderCode, pcodeRangePair_render lo hi len h1 h2]
  simp only [PR.bind, space0_blank]
  have hsp : space0 (renderTargets dsts ++ 10 :: x :: rest) = renderTargets dsts ++ 10 :: x :: rest := by
    cases dsts with
    | nil => exact absurd rfl hne
    | cons t ts => cases ts with
      | nil => exact space0_nonws nonws_lt _
      | cons _ _ => exact space0_nonws nonws_lb _
  rw [hsp, ptargets_render dsts hne ht]
  simp only [PR.bind, pms1_lf hx]

def CsLineOk (l : Nat × Nat × Nat) : Prop := CodeOk l.1 l.2.2 ∧ CodeOk l.2.1 l.2.2

theorem pcsLine_render (l : Nat × Nat × Nat) (h : CsLineOk l) {x : UInt8} (hx : NonWs x) (rest : Bytes) :
    pcsLine (renderCsLine l ++ x :: rest) = .ok l (x :: rest) := by
  obtain ⟨lo, hi, len⟩ := l
  unfold pcsLine renderCsLine
  simp only [List.append_assoc, List.cons_append, List.nil_append]
  rw [space0_renderCode, pcodeRangePair_render lo hi len h.1 h.2]
  simp only [PR.bind, pms1_lf hx]

/-! repetition -/

theorem flatMap_length_ge {α} (render : α → Bytes) (ls : List α) (hpos : ∀ a ∈ ls, 0 < (render a).length) (r : Bytes) :
    ls.length ≤ (ls.flatMap render ++ r).length := by
  induction ls with
  | nil => simp
  | cons a ls ih =>
    have := ih (fun b hb => hpos b (List.mem_cons_of_mem _ hb))
    have := hpos a List.mem_cons_self
    simp only [List.flatMap_cons, List.append_assoc, List.length_append, List.length_cons] at *
    omega

/-- `many0(p)` reads back a written list of items, each of which `p` reads back, and stops at `tail` -/
theorem many0Go_render {α} (p : Bytes → PR α) (render : α → Bytes) (ok : α → Prop)
    (hp : ∀ a, ok a → ∀ (x : UInt8) (rest : Bytes), NonWs x → p (render a ++ x :: rest) = .ok a (x :: rest))
    (hhead : ∀ a, ok a → HeadNonWs (render a))
    (tail : Bytes) (htail : HeadNonWs tail) (hstop : p tail = .error) :
    ∀ (ls : List α) (fuel : Nat), ls.length ≤ fuel → (∀ a ∈ ls, ok a) →
      many0Go p fuel (ls.flatMap render ++ tail) = .ok ls tail := by
  intro ls
  induction ls with
  | nil =>
    intro fuel _ _
    cases fuel with
    | zero => rfl
    | succ f => simp [many0Go, hstop]
  | cons a ls ih =>
    intro fuel hf hok
    cases fuel with
    | zero => simp at hf
    | succ f =>
      have hnext : HeadNonWs (ls.flatMap render ++ tail) := by
        cases ls with
        | nil => simpa using htail
        | cons b ls' => simpa using ((hhead b (hok b (by simp))).append _).append _
      obtain ⟨x, t, e, hx⟩ := hnext
      obtain ⟨y, t', e', _⟩ := hhead a (hok a List.mem_cons_self)
      simp only [List.flatMap_cons, List.append_assoc, many0Go]
      rw [e, hp a (hok a List.mem_cons_self) x t hx]
      have hlen : ¬ (x :: t).length ≥ (render a ++ x :: t).length := by
        rw [e']; simp; omega
      simp only [hlen, if_false]
      rw [← e, ih f (by simpa using hf) (fun b hb => hok b (List.mem_cons_of_mem _ hb))]
      simp [PR.bind]

/-- `many1(p)` on a non-empty written list -/
theorem pmany1_render {α} (p : Bytes → PR α) (render : α → Bytes) (ok : α → Prop)
    (hp : ∀ a, ok a → ∀ (x : UInt8) (rest : Bytes), NonWs x → p (render a ++ x :: rest) = .ok a (x :: rest))
    (hhead : ∀ a, ok a → HeadNonWs (render a))
    (tail : Bytes) (htail : HeadNonWs tail) (hstop : p tail = .error)
    (ls : List α) (hne : ls ≠ []) (hok : ∀ a ∈ ls, ok a) :
    pmany1 p (ls.flatMap render ++ tail) = .ok ls tail := by
  cases ls with
  | nil => exact absurd rfl hne
  | cons a ls =>
    have hnext : HeadNonWs (ls.flatMap render ++ tail) := by
      cases ls with
      | nil => simpa using htail
      | cons b ls' => simpa using ((hhead b (hok b (by simp))).append _).append _
    obtain ⟨x, t, e, hx⟩ := hnext
    obtain ⟨y, t', e', _⟩ := hhead a (hok a List.mem_cons_self)
    unfold pmany1
    simp only [List.flatMap_cons, List.append_assoc]
    rw [e, hp a (hok a List.mem_cons_self) x t hx]
    have hlen : ¬ (x :: t).length ≥ (render a ++ x :: t).length := by rw [e']; simp; omega
    simp only [PR.bind, hlen, if_false]
    rw [← e, many0Go_render p render ok hp hhead tail htail hstop ls _
      (flatMap_length_ge render ls (fun b hb => by
        obtain ⟨y, t, e, _⟩ := hhead b (hok b (List.mem_cons_of_mem _ hb)); rw [e]; simp) tail)
      (fun b hb => hok b (List.mem_cons_of_mem _ hb))]

theorem kwb_begincodespacerange : strBytes "begincodespacerange" = [98, 101, 103, 105, 110, 99, 111, 100, 101, 115, 112, 97, 99, 101, 114, 97, 110, 103, 101] := by decide +kernel
theorem kwb_endcodespacerange : strBytes "endcodespacerange" = [101, 110, 100, 99, 111, 100, 101, 115, 112, 97, 99, 101, 114, 97, 110, 103, 101] := by decide +kernel
theorem kwb_beginbfchar : strBytes "beginbfchar" = [98, 101, 103, 105, 110, 98, 102, 99, 104, 97, 114] := by decide +kernel
theorem kwb_endbfchar : strBytes "endbfchar" = [101, 110, 100, 98, 102, 99, 104, 97, 114] := by decide +kernel
theorem kwb_beginbfrange : strBytes "beginbfrange" = [98, 101, 103, 105, 110, 98, 102, 114, 97, 110, 103, 101] := by decide +kernel
theorem kwb_endbfrange : strBytes "endbfrange" = [101, 110, 100, 98, 102, 114, 97, 110, 103, 101] := by decide +kernel
theorem kwb_endcmap : strBytes "endcmap" = [101, 110, 100, 99, 109, 97, 112] := by decide +kernel
theorem hdr_begincodespacerange : strBytes "1 begincodespacerange\n" = 49 :: 32 :: (strBytes "begincodespacerange" ++ [10]) := by decide +kernel
theorem hdr_beginbfchar : strBytes "1 beginbfchar\n" = 49 :: 32 :: (strBytes "beginbfchar" ++ [10]) := by decide +kernel
theorem hdr_beginbfrange : strBytes "1 beginbfrange\n" = 49 :: 32 :: (strBytes "beginbfrange" ++ [10]) := by decide +kernel
theorem trl_endcodespacerange : strBytes "endcodespacerange\n" = strBytes "endcodespacerange" ++ [10] := by decide +kernel
theorem trl_endbfchar : strBytes "endbfchar\n" = strBytes "endbfchar" ++ [10] := by decide +kernel
theorem trl_endbfrange : strBytes "endbfrange\n" = strBytes "endbfrange" ++ [10] := by decide +kernel

/-! sections -/

theorem pdigit1_one (r : Bytes) : pdigit1 (49 :: 32 :: r) = .ok () (32 :: r) := by
  have a : isDigit 49 = true := by decide
  have b : isDigit 32 = false := by decide
  simp [pdigit1, takeDigits, a, b]

/-- the begin-part of a section: `1 <kw>\n` followed by text that does not start with white space -/
theorem psection_begin (bk : String) (hbk : HeadNonWs (strBytes bk)) {l : Bytes} (hl : HeadNonWs l) :
    (pdigit1 >>> pspace1 >>> ptagS bk >>> pms1 >>> fun i => PR.ok () i) (49 :: 32 :: (strBytes bk ++ [10]) ++ l)
      = .ok () l := by
  simp only [pthen, List.cons_append, List.append_assoc, List.nil_append, pdigit1_one, PR.bind]
  rw [pspace1_blank' (hbk.append _), ]
  simp only [PR.bind, ptagS_append, pms1_lf' hl]

theorem psectionOf_render {α} (bk ek : String) (line : Bytes → PR α) (render : α → Bytes) (ok : α → Prop)
    (hp : ∀ a, ok a → ∀ (x : UInt8) (rest : Bytes), NonWs x → line (render a ++ x :: rest) = .ok a (x :: rest))
    (hhead : ∀ a, ok a → HeadNonWs (render a))
    (hbk : HeadNonWs (strBytes bk)) (hek : HeadNonWs (strBytes ek))
    (hstop : ∀ r, line (strBytes ek ++ r) = .error)
    (ls : List α) (hne : ls ≠ []) (hok : ∀ a ∈ ls, ok a) {x : UInt8} (hx : NonWs x) (rest : Bytes) :
    psectionOf bk ek line
      (49 :: 32 :: (strBytes bk ++ [10]) ++ ls.flatMap render ++ (strBytes ek ++ [10]) ++ x :: rest)
      = .ok ls (x :: rest) := by
  have hl : HeadNonWs (ls.flatMap render ++ ((strBytes ek ++ [10]) ++ x :: rest)) := by
    cases ls with
    | nil => exact absurd rfl hne
    | cons b ls' => simpa using ((hhead b (hok b (by simp))).append _).append _
  unfold psectionOf
  simp only [pthen, List.cons_append, List.append_assoc, List.nil_append, pdigit1_one, PR.bind]
  rw [pspace1_blank' (hbk.append _)]
  simp only [PR.bind, ptagS_append]
  rw [pms1_lf' (by simpa using hl)]
  simp only [PR.bind]
  rw [pmany1_render line render ok hp hhead (strBytes ek ++ 10 :: x :: rest) (hek.append _) (hstop _) ls hne hok]
  simp only [PR.bind, ptagS_append, pms1_lf hx]

theorem head_kw (k : String) (y : UInt8) (t : Bytes) (e : strBytes k = y :: t) (hy : NonWs y) : HeadNonWs (strBytes k) :=
  ⟨y, t, e, hy⟩

theorem nonws_b : NonWs 98 := by unfold NonWs; decide
theorem nonws_e : NonWs 101 := by unfold NonWs; decide
theorem nonws_1 : NonWs 49 := by unfold NonWs; decide

/-- a line parser fails on text starting with a non-blank byte other than `<` -/
theorem line_stops {y : UInt8} (hy : NonWs y) (h60 : y ≠ 60) (r : Bytes) :
    pbfCharLine (y :: r) = .error ∧ pbfRangeLine (y :: r) = .error ∧ pcsLine (y :: r) = .error := by
  refine ⟨?_, ?_, ?_⟩
  · simp [pbfCharLine, space0_nonws hy, psourceCode, t_lt_ne h60, PR.bind]
  · simp [pbfRangeLine, pcodeRangePair, space0_nonws hy, psourceCode, t_lt_ne h60, PR.bind]
  · simp [pcsLine, pcodeRangePair, space0_nonws hy, psourceCode, t_lt_ne h60, PR.bind]

def CharLineOk (l : (Nat × Nat) × List Nat) : Prop := CodeOk l.1.1 l.1.2 ∧ TargetOk l.2

/-- what the canonical writer can write and the grammar accepts -/
def SectionOk : Section → Prop
  | .csRange ls => ls ≠ [] ∧ ∀ l ∈ ls, CsLineOk l
  | .bfChar ls => ls ≠ [] ∧ ∀ l ∈ ls, CharLineOk l
  | .bfRange ls => ls ≠ [] ∧ ∀ l ∈ ls, RangeLineOk l

theorem renderSection_head (s : Section) : HeadNonWs (renderSection s) := by
  cases s <;> simp only [renderSection, hdr_begincodespacerange, hdr_beginbfchar, hdr_beginbfrange] <;>
    exact ⟨49, _, rfl, nonws_1⟩

theorem pcsSection_render (ls : List (Nat × Nat × Nat)) (h : SectionOk (.csRange ls)) {x : UInt8} (hx : NonWs x) (rest : Bytes) :
    pcsSection (renderSection (.csRange ls) ++ x :: rest) = .ok (.csRange ls) (x :: rest) := by
  unfold pcsSection
  simp only [renderSection, hdr_begincodespacerange, trl_endcodespacerange]
  rw [psectionOf_render "begincodespacerange" "endcodespacerange" pcsLine renderCsLine CsLineOk
    (fun a ha x r hx => pcsLine_render a ha hx r) (fun a _ => headNonWs_code _ _ _)
    (by rw [kwb_begincodespacerange]; exact headNonWs_cons nonws_b _)
    (by rw [kwb_endcodespacerange]; exact headNonWs_cons nonws_e _)
    (fun r => by rw [kwb_endcodespacerange]; exact (line_stops nonws_e (by decide) _).2.2)
    ls h.1 h.2 hx rest]
  rfl

theorem pbfCharSection_render (ls : List ((Nat × Nat) × List Nat)) (h : SectionOk (.bfChar ls)) {x : UInt8} (hx : NonWs x) (rest : Bytes) :
    pbfCharSection (renderSection (.bfChar ls) ++ x :: rest) = .ok (.bfChar ls) (x :: rest) := by
  unfold pbfCharSection
  simp only [renderSection, hdr_beginbfchar, trl_endbfchar]
  rw [psectionOf_render "beginbfchar" "endbfchar" pbfCharLine renderCharLine CharLineOk
    (fun a ha x r hx => pbfCharLine_render a ha.1 ha.2 hx r) (fun a _ => headNonWs_code _ _ _)
    (by rw [kwb_beginbfchar]; exact headNonWs_cons nonws_b _)
    (by rw [kwb_endbfchar]; exact headNonWs_cons nonws_e _)
    (fun r => by rw [kwb_endbfchar]; exact (line_stops nonws_e (by decide) _).1)
    ls h.1 h.2 hx rest]
  rfl

theorem pbfRangeSection_render (ls : List ((Nat × Nat × Nat) × List (List Nat))) (h : SectionOk (.bfRange ls)) {x : UInt8} (hx : NonWs x) (rest : Bytes) :
    pbfRangeSection (renderSection (.bfRange ls) ++ x :: rest) = .ok (.bfRange ls) (x :: rest) := by
  unfold pbfRangeSection
  simp only [renderSection, hdr_beginbfrange, trl_endbfrange]
  rw [psectionOf_render "beginbfrange" "endbfrange" pbfRangeLine renderRangeLine RangeLineOk
    (fun a ha x r hx => pbfRangeLine_render a ha hx r) (fun a _ => headNonWs_code _ _ _)
    (by rw [kwb_beginbfrange]; exact headNonWs_cons nonws_b _)
    (by rw [kwb_endbfrange]; exact headNonWs_cons nonws_e _)
    (fun r => by rw [kwb_endbfrange]; exact (line_stops nonws_e (by decide) _).2.1)
    ls h.1 h.2 hx rest]
  rfl

/-- a section parser gives a recoverable error on the header of another kind of section -/
theorem psectionOf_wrong_kw {α} (bk ek : String) (line : Bytes → PR α) (k : String) (r : Bytes)
    (hk : HeadNonWs (strBytes k)) (hne : ∀ r', ptagS bk (strBytes k ++ r') = .error) :
    psectionOf bk ek line (49 :: 32 :: (strBytes k ++ [10]) ++ r) = .error := by
  unfold psectionOf
  simp only [pthen, List.cons_append, List.append_assoc, List.nil_append, pdigit1_one, PR.bind]
  rw [pspace1_blank' (hk.append _)]
  simp only [PR.bind, hne]

theorem tag_cs_vs_char (r : Bytes) : ptagS "begincodespacerange" (strBytes "beginbfchar" ++ r) = .error := by
  unfold ptagS; rw [kwb_begincodespacerange, kwb_beginbfchar]; simp [ptag, List.isPrefixOf]
theorem tag_cs_vs_range (r : Bytes) : ptagS "begincodespacerange" (strBytes "beginbfrange" ++ r) = .error := by
  unfold ptagS; rw [kwb_begincodespacerange, kwb_beginbfrange]; simp [ptag, List.isPrefixOf]
theorem tag_char_vs_range (r : Bytes) : ptagS "beginbfchar" (strBytes "beginbfrange" ++ r) = .error := by
  unfold ptagS; rw [kwb_beginbfchar, kwb_beginbfrange]; simp [ptag, List.isPrefixOf]

/-- the `alt` of the three section parsers reads back a written section of any kind -/
theorem psectionAlt_render (s : Section) (h : SectionOk s) {x : UInt8} (hx : NonWs x) (rest : Bytes) :
    palt pcsSection (palt pbfCharSection pbfRangeSection) (renderSection s ++ x :: rest) = .ok s (x :: rest) := by
  cases s with
  | csRange ls => simp only [palt, pcsSection_render ls h hx rest]
  | bfChar ls =>
    have e1 : pcsSection (renderSection (.bfChar ls) ++ x :: rest) = .error := by
      unfold pcsSection
      simp only [renderSection, hdr_beginbfchar, List.append_assoc]
      rw [psectionOf_wrong_kw _ _ _ "beginbfchar" _ (by rw [kwb_beginbfchar]; exact headNonWs_cons nonws_b _) tag_cs_vs_char]
      rfl
    simp only [palt, e1, pbfCharSection_render ls h hx rest]
  | bfRange ls =>
    have e1 : pcsSection (renderSection (.bfRange ls) ++ x :: rest) = .error := by
      unfold pcsSection
      simp only [renderSection, hdr_beginbfrange, List.append_assoc]
      rw [psectionOf_wrong_kw _ _ _ "beginbfrange" _ (by rw [kwb_beginbfrange]; exact headNonWs_cons nonws_b _) tag_cs_vs_range]
      rfl
    have e2 : pbfCharSection (renderSection (.bfRange ls) ++ x :: rest) = .error := by
      unfold pbfCharSection
      simp only [renderSection, hdr_beginbfrange, List.append_assoc]
      rw [psectionOf_wrong_kw _ _ _ "beginbfrange" _ (by rw [kwb_beginbfrange]; exact headNonWs_cons nonws_b _) tag_char_vs_range]
      rfl
    simp only [palt, e1, e2, pbfRangeSection_render ls h hx rest]

/-- no section starts with a byte that is not a digit -/
theorem psectionAlt_stops {y : UInt8} (hd : isDigit y = false) (r : Bytes) :
    palt pcsSection (palt pbfCharSection pbfRangeSection) (y :: r) = .error := by
  simp [palt, pcsSection, pbfCharSection, pbfRangeSection, psectionOf, pthen, pdigit1, hd, PR.bind]

/-- **cmap_codespace_and_mappings reads back what the canonical writer wrote**: any non-empty list of
sections of any kinds, any number of lines, followed by text starting with a non-digit, non-blank byte. -/
theorem psections_render (ss : List Section) (hne : ss ≠ []) (hok : ∀ s ∈ ss, SectionOk s)
    {y : UInt8} (hy : NonWs y) (hd : isDigit y = false) (t : Bytes) :
    psections (ss.flatMap renderSection ++ y :: t) = .ok ss (y :: t) := by
  unfold psections
  exact pmany1_render _ renderSection SectionOk (fun s hs x r hx => psectionAlt_render s hs hx r)
    (fun s _ => renderSection_head s) (y :: t) (headNonWs_cons hy t) (psectionAlt_stops hd t) ss hne hok

/-! the whole stream -/

theorem hn_s_CIDInit : HeadNonWs (strBytes "/CIDInit") := ⟨47, (strBytes "/CIDInit").tail, (by decide +kernel), (by unfold NonWs; decide)⟩
theorem hn_s_ProcSet : HeadNonWs (strBytes "/ProcSet") := ⟨47, (strBytes "/ProcSet").tail, (by decide +kernel), (by unfold NonWs; decide)⟩
theorem hn_findresource : HeadNonWs (strBytes "findresource") := ⟨102, (strBytes "findresource").tail, (by decide +kernel), (by unfold NonWs; decide)⟩
theorem hn_begin : HeadNonWs (strBytes "begin") := ⟨98, (strBytes "begin").tail, (by decide +kernel), (by unfold NonWs; decide)⟩
theorem hn_dict : HeadNonWs (strBytes "dict") := ⟨100, (strBytes "dict").tail, (by decide +kernel), (by unfold NonWs; decide)⟩
theorem hn_begincmap : HeadNonWs (strBytes "begincmap") := ⟨98, (strBytes "begincmap").tail, (by decide +kernel), (by unfold NonWs; decide)⟩
theorem hn_s_CMapName : HeadNonWs (strBytes "/CMapName") := ⟨47, (strBytes "/CMapName").tail, (by decide +kernel), (by unfold NonWs; decide)⟩
theorem hn_Adobe_Identity_UCS : HeadNonWs (strBytes "Adobe-Identity-UCS") := ⟨65, (strBytes "Adobe-Identity-UCS").tail, (by decide +kernel), (by unfold NonWs; decide)⟩
theorem hn_def : HeadNonWs (strBytes "def") := ⟨100, (strBytes "def").tail, (by decide +kernel), (by unfold NonWs; decide)⟩
theorem hn_s_CMapType : HeadNonWs (strBytes "/CMapType") := ⟨47, (strBytes "/CMapType").tail, (by decide +kernel), (by unfold NonWs; decide)⟩
theorem hn_s_CIDSystemInfo : HeadNonWs (strBytes "/CIDSystemInfo") := ⟨47, (strBytes "/CIDSystemInfo").tail, (by decide +kernel), (by unfold NonWs; decide)⟩
theorem hn_CMapName : HeadNonWs (strBytes "CMapName") := ⟨67, (strBytes "CMapName").tail, (by decide +kernel), (by unfold NonWs; decide)⟩
theorem hn_currentdict : HeadNonWs (strBytes "currentdict") := ⟨99, (strBytes "currentdict").tail, (by decide +kernel), (by unfold NonWs; decide)⟩
theorem hn_s_CMap : HeadNonWs (strBytes "/CMap") := ⟨47, (strBytes "/CMap").tail, (by decide +kernel), (by unfold NonWs; decide)⟩
theorem hn_defineresource : HeadNonWs (strBytes "defineresource") := ⟨100, (strBytes "defineresource").tail, (by decide +kernel), (by unfold NonWs; decide)⟩
theorem hn_pop : HeadNonWs (strBytes "pop") := ⟨112, (strBytes "pop").tail, (by decide +kernel), (by unfold NonWs; decide)⟩
theorem hn_end : HeadNonWs (strBytes "end") := ⟨101, (strBytes "end").tail, (by decide +kernel), (by unfold NonWs; decide)⟩
theorem hn_endcmap : HeadNonWs (strBytes "endcmap") := ⟨101, (strBytes "endcmap").tail, (by decide +kernel), (by unfold NonWs; decide)⟩

theorem line_l1 : strBytes "/CIDInit /ProcSet findresource begin\n" = (strBytes "/CIDInit" ++ (32 :: (strBytes "/ProcSet" ++ (32 :: (strBytes "findresource" ++ (32 :: (strBytes "begin" ++ (10 :: [])))))))) := by decide +kernel
theorem line_l2 : strBytes "12 dict begin\n" = (49 :: (50 :: (32 :: (strBytes "dict" ++ (32 :: (strBytes "begin" ++ (10 :: []))))))) := by decide +kernel
theorem line_l3 : strBytes "begincmap\n" = (strBytes "begincmap" ++ (10 :: [])) := by decide +kernel
theorem line_l4 : strBytes "/CMapName /Adobe-Identity-UCS def\n" = (strBytes "/CMapName" ++ (32 :: (47 :: (strBytes "Adobe-Identity-UCS" ++ (32 :: (strBytes "def" ++ (10 :: []))))))) := by decide +kernel
theorem line_l5 : strBytes "/CMapType 2 def\n" = (strBytes "/CMapType" ++ (32 :: (50 :: (32 :: (strBytes "def" ++ (10 :: [])))))) := by decide +kernel
theorem line_t1 : strBytes "endcmap\n" = (strBytes "endcmap" ++ (10 :: [])) := by decide +kernel
theorem line_t2 : strBytes "CMapName currentdict /CMap defineresource pop\n" = (strBytes "CMapName" ++ (32 :: (strBytes "currentdict" ++ (32 :: (strBytes "/CMap" ++ (32 :: (strBytes "defineresource" ++ (32 :: (strBytes "pop" ++ (10 :: [])))))))))) := by decide +kernel
theorem line_t3 : strBytes "end\n" = (strBytes "end" ++ (10 :: [])) := by decide +kernel

theorem header_eq : header =
    (strBytes "/CIDInit" ++ (32 :: (strBytes "/ProcSet" ++ (32 :: (strBytes "findresource" ++ (32 :: (strBytes "begin" ++ (10 :: (49 :: (50 :: (32 :: (strBytes "dict" ++ (32 :: (strBytes "begin" ++ (10 :: (strBytes "begincmap" ++ (10 :: (strBytes "/CMapName" ++ (32 :: (47 :: (strBytes "Adobe-Identity-UCS" ++ (32 :: (strBytes "def" ++ (10 :: (strBytes "/CMapType" ++ (32 :: (50 :: (32 :: (strBytes "def" ++ (10 :: [])))))))))))))))))))))))))))))) := by
  unfold header
  rw [line_l1, line_l2, line_l3, line_l4, line_l5]
  simp only [List.append_assoc, List.cons_append, List.nil_append]

theorem trailer_eq : trailer =
    (strBytes "endcmap" ++ (10 :: (strBytes "CMapName" ++ (32 :: (strBytes "currentdict" ++ (32 :: (strBytes "/CMap" ++ (32 :: (strBytes "defineresource" ++ (32 :: (strBytes "pop" ++ (10 :: (strBytes "end" ++ (10 :: (strBytes "end" ++ (10 :: [])))))))))))))))) := by
  unfold trailer
  rw [line_t1, line_t2, line_t3]
  simp only [List.append_assoc, List.cons_append, List.nil_append]

theorem ms0_head {l : Bytes} (h : HeadNonWs l) : multispace0 l = l := by
  obtain ⟨y, t, e, hy⟩ := h; rw [e]; exact ms0_nonws hy t

/-- `cidinit_procset` on the canonical first line -/
theorem procset_line {l : Bytes} (hl : HeadNonWs l) :
    pcidinitProcset (strBytes "/CIDInit" ++ (32 :: (strBytes "/ProcSet" ++ (32 :: (strBytes "findresource" ++
      (32 :: (strBytes "begin" ++ (10 :: l)))))))) = .ok () l := by
  unfold pcidinitProcset
  simp only [pthen, pms0, pspace0, PR.bind]
  rw [ms0_head (hn_s_CIDInit.append _)]
  simp only [ptagS_append, space0_blank]
  rw [space0_head (hn_s_ProcSet.append _)]
  simp only [palt, ptagS_append]
  rw [pspace1_blank' (hn_findresource.append _)]
  simp only [ptagS_append]
  rw [pspace1_blank' (hn_begin.append _)]
  simp only [ptagS_append, pms1_lf' hl]

theorem pdigit1_12 (r : Bytes) : pdigit1 (49 :: 50 :: 32 :: r) = .ok () (32 :: r) := by
  have a : isDigit 49 = true := by decide
  have a' : isDigit 50 = true := by decide
  have b : isDigit 32 = false := by decide
  simp [pdigit1, takeDigits, a, a', b]

theorem pdigit1_2 (r : Bytes) : pdigit1 (50 :: 32 :: r) = .ok () (32 :: r) := by
  have a' : isDigit 50 = true := by decide
  have b : isDigit 32 = false := by decide
  simp [pdigit1, takeDigits, a', b]

/-- the `12 dict begin` line -/
theorem dict_begin_line {l : Bytes} (hl : HeadNonWs l) :
    (pdigit1 >>> pspace1 >>> ptagS "dict" >>> pspace1 >>> ptagS "begin" >>> pms1)
      (49 :: 50 :: 32 :: (strBytes "dict" ++ (32 :: (strBytes "begin" ++ (10 :: l))))) = .ok () l := by
  simp only [pthen, pdigit1_12, PR.bind]
  rw [pspace1_blank' (hn_dict.append _)]
  simp only [ptagS_append]
  rw [pspace1_blank' (hn_begin.append _)]
  simp only [ptagS_append, pms1_lf' hl]

theorem kwb_s_CIDSystemInfo : strBytes "/CIDSystemInfo" = [47, 67, 73, 68, 83, 121, 115, 116, 101, 109, 73, 110, 102, 111] := by decide +kernel
theorem kwb_s_CMapName : strBytes "/CMapName" = [47, 67, 77, 97, 112, 78, 97, 109, 101] := by decide +kernel
theorem kwb_s_CMapType : strBytes "/CMapType" = [47, 67, 77, 97, 112, 84, 121, 112, 101] := by decide +kernel
theorem kwb_Adobe_Identity_UCS : strBytes "Adobe-Identity-UCS" = [65, 100, 111, 98, 101, 45, 73, 100, 101, 110, 116, 105, 116, 121, 45, 85, 67, 83] := by decide +kernel

theorem ptagS_head_ne (k : String) (c : UInt8) (t : Bytes) (e : strBytes k = c :: t) {y : UInt8} (h : c ≠ y) (r : Bytes) :
    ptagS k (y :: r) = .error := by
  unfold ptagS; rw [e]; exact ptag_cons_ne t c y r h

theorem tag_cid_vs_name (r : Bytes) : ptagS "/CIDSystemInfo" (strBytes "/CMapName" ++ r) = .error := by
  unfold ptagS; rw [kwb_s_CIDSystemInfo, kwb_s_CMapName]; simp [ptag, List.isPrefixOf]
theorem tag_cid_vs_type (r : Bytes) : ptagS "/CIDSystemInfo" (strBytes "/CMapType" ++ r) = .error := by
  unfold ptagS; rw [kwb_s_CIDSystemInfo, kwb_s_CMapType]; simp [ptag, List.isPrefixOf]
theorem tag_name_vs_type (r : Bytes) : ptagS "/CMapName" (strBytes "/CMapType" ++ r) = .error := by
  unfold ptagS; rw [kwb_s_CMapName, kwb_s_CMapType]; simp [ptag, List.isPrefixOf]

theorem nameBody_regular (bs : Bytes) (h : ∀ b ∈ bs, isRegular b = true ∧ b ≠ 35) (r : Bytes) :
    nameBody (bs ++ 32 :: r) = 32 :: r := by
  induction bs with
  | nil =>
    have h32 : isRegular 32 = false := by decide
    have : ¬ ((32 : UInt8) = 35) := by decide
    rw [List.nil_append]
    unfold nameBody
    simp only [this, if_false, h32, Bool.false_eq_true]
  | cons b bs ih =>
    obtain ⟨h1, h2⟩ := h b List.mem_cons_self
    rw [List.cons_append]
    unfold nameBody
    simp only [h2, if_false, h1, if_true]
    exact ih (fun x hx => h x (List.mem_cons_of_mem _ hx))

theorem nameBody_adobe (r : Bytes) : nameBody (strBytes "Adobe-Identity-UCS" ++ 32 :: r) = 32 :: r := by
  rw [kwb_Adobe_Identity_UCS]
  exact nameBody_regular _ (by decide) r

theorem item_name {l : Bytes} (hl : HeadNonWs l) :
    pmetaItem (strBytes "/CMapName" ++ (32 :: (47 :: (strBytes "Adobe-Identity-UCS" ++ (32 :: (strBytes "def" ++ (10 :: l)))))))
      = .ok () l := by
  have hslash : ∀ r : Bytes, ptagS "/" (47 :: r) = .ok () r := fun r => by
    have e : strBytes "/" = [47] := by decide +kernel
    have := ptagS_append "/" r; rwa [e] at this
  have h47 : NonWs 47 := by unfold NonWs; decide
  unfold pmetaItem pcidSystemInfo pcmapName
  simp only [palt, pthen, tag_cid_vs_name, PR.bind, ptagS_append, pspace0, space0_blank, space0_nonws h47, pname, hslash,
    nameBody_adobe]
  rw [pspace1_blank' (hn_def.append _)]
  simp only [ptagS_append, pms1_lf' hl]

theorem item_type {l : Bytes} (hl : HeadNonWs l) :
    pmetaItem (strBytes "/CMapType" ++ (32 :: (50 :: (32 :: (strBytes "def" ++ (10 :: l)))))) = .ok () l := by
  have h50 : NonWs 50 := by unfold NonWs; decide
  unfold pmetaItem pcidSystemInfo pcmapName pcmapType
  simp only [palt, pthen, tag_cid_vs_type, tag_name_vs_type, PR.bind, ptagS_append, pspace1_blank h50, pdigit1_2]
  rw [pspace1_blank' (hn_def.append _)]
  simp only [ptagS_append, pms1_lf' hl]

theorem item_stop (t : Bytes) : pmetaItem (49 :: t) = .error := by
  have e1 := ptagS_head_ne "/CIDSystemInfo" 47 _ (by rw [kwb_s_CIDSystemInfo]) (show (47 : UInt8) ≠ 49 by decide) t
  have e2 := ptagS_head_ne "/CMapName" 47 _ (by rw [kwb_s_CMapName]) (show (47 : UInt8) ≠ 49 by decide) t
  have e3 := ptagS_head_ne "/CMapType" 47 _ (by rw [kwb_s_CMapType]) (show (47 : UInt8) ≠ 49 by decide) t
  simp only [pmetaItem, pcidSystemInfo, pcmapName, pcmapType, palt, pthen, e1, e2, e3, PR.bind]

theorem pmetaGo_two {i1 i2 i3 : Bytes} (h1 : pmetaItem i1 = .ok () i2) (hl1 : i2.length < i1.length)
    (h2 : pmetaItem i2 = .ok () i3) (hl2 : i3.length < i2.length) (h3 : pmetaItem i3 = .error) :
    pmetaGo 4 i1 = .ok 2 i3 := by
  have a : ¬ i2.length ≥ i1.length := by omega
  have b : ¬ i3.length ≥ i2.length := by omega
  show pmetaGo (3 + 1) i1 = _
  rw [pmetaGo]; simp only [h1, a, if_false]
  show (pmetaGo (2 + 1) i2).bind _ = _
  rw [pmetaGo]; simp only [h2, b, if_false]
  show ((pmetaGo (1 + 1) i3).bind _).bind _ = _
  rw [pmetaGo]; simp only [h3, PR.bind]

theorem trailer_parse_gen (r : Bytes) :
    pcmapEnd (strBytes "endcmap" ++ (10 :: (strBytes "CMapName" ++ (32 :: (strBytes "currentdict" ++ (32 :: (strBytes "/CMap" ++ (32 :: (strBytes "defineresource" ++ (32 :: (strBytes "pop" ++ (10 :: (strBytes "end" ++ r))))))))))))) = .ok () (strBytes "end" ++ r) := by
  unfold pcmapEnd
  simp only [pthen, ptagS_append, PR.bind]
  rw [pms1_lf' (hn_CMapName.append _)]
  simp only [ptagS_append]
  rw [pspace1_blank' (hn_currentdict.append _)]
  simp only [ptagS_append]
  rw [pspace1_blank' (hn_s_CMap.append _)]
  simp only [ptagS_append]
  rw [pspace1_blank' (hn_defineresource.append _)]
  simp only [ptagS_append]
  rw [pspace1_blank' (hn_pop.append _)]
  simp only [ptagS_append]
  rw [pms1_lf' (hn_end.append _)]

theorem trailer_parse :
    pcmapEnd trailer = .ok () (strBytes "end" ++ (10 :: (strBytes "end" ++ (10 :: [])))) := by
  rw [trailer_eq]; exact trailer_parse_gen _

/-- **The grammar model reads back the canonical writer**: for every non-empty list of sections the
writer can write (any kinds, any number of lines, 1–4-byte codes, 1–256-unit targets, arrays of any
length), parsing the written stream returns exactly these sections. -/
theorem parse_render (ss : List Section) (hne : ss ≠ []) (hok : ∀ s ∈ ss, SectionOk s) :
    parseCMap (renderCMap ss) = some ss := by
  have hsec : psections (ss.flatMap renderSection ++ trailer) = .ok ss trailer := by
    obtain ⟨t, e⟩ : ∃ t, trailer = 101 :: t := by rw [trailer_eq, kwb_endcmap]; exact ⟨_, rfl⟩
    rw [e]; exact psections_render ss hne hok nonws_e (by decide) t
  obtain ⟨t49, e49⟩ : ∃ t, ss.flatMap renderSection ++ trailer = 49 :: t := by
    cases ss with
    | nil => exact absurd rfl hne
    | cons s ss' =>
      cases s <;> simp only [List.flatMap_cons, renderSection, hdr_begincodespacerange, hdr_beginbfchar, hdr_beginbfrange,
        List.cons_append, List.append_assoc] <;> exact ⟨_, rfl⟩
  unfold parseCMap pcmapStream renderCMap
  rw [header_eq]
  simp only [List.append_assoc, List.cons_append, List.nil_append]
  generalize ss.flatMap renderSection ++ trailer = T at hsec e49 ⊢
  have hT : HeadNonWs T := ⟨49, t49, e49, nonws_1⟩
  rw [procset_line ⟨49, _, rfl, nonws_1⟩]
  simp only [PR.bind]
  unfold presourceDict
  rw [dict_begin_line (hn_begincmap.append _)]
  simp only [PR.bind]
  unfold pcmapData
  simp only [pthen, ptagS_append, PR.bind]
  rw [pms1_lf' (hn_s_CMapName.append _)]
  simp only [PR.bind]
  unfold pmetadata
  rw [pmetaGo_two (item_name (hn_s_CMapType.append _)) (by simp; omega) (item_type hT) (by simp; omega)
    (by rw [e49]; exact item_stop t49)]
  simp only [PR.bind, show ¬ (2 < 1) by omega, if_false, hsec, trailer_parse, ptagS_append]
  rw [pms1_lf' (hn_end.append _)]
  simp only [PR.bind, ptagS_append, pms0]

end Lopdf.CMap
