import LopdfModel.Spec.Strict
import LopdfModel.Thm.FileRt
/-
  Lemmas about the strict reader's pieces on bytes the writer model produces: prefixes, digit
  fields, the tail, the header, one indirect object.
-/
namespace Lopdf.Strict
open Lopdf Gen Lopdf.FileRT Lopdf.ObjRt

theorem stripPrefix_append (p r : Bytes) : stripPrefix p (p ++ r) = some r := by
  induction p with
  | nil => cases r <;> rfl
  | cons a p ih => simp [stripPrefix, ih]

theorem isWs_eq : ∀ b : UInt8, isWs b = isWhitespace b := by
  apply forall_uint8; decide +kernel

theorem isDig_eq (b : UInt8) : isDig b = isDigit b := rfl

theorem skipWs_stop (b : UInt8) (r : Bytes) (h : isWs b = false) : skipWs (b :: r) = b :: r := by
  simp [skipWs, h]

theorem spanDigits_append (a rest : Bytes) (ha : ∀ b ∈ a, isDigit b = true)
    (hr : ∀ b r, rest = b :: r → isDigit b = false) : spanDigits (a ++ rest) = (a, rest) := by
  induction a with
  | nil =>
    cases rest with
    | nil => rfl
    | cons b r => simp [spanDigits, isDig_eq, hr b r rfl]
  | cons x xs ih =>
    have hx : isDigit x = true := ha x (by simp)
    have := ih (fun b hb => ha b (by simp [hb]))
    simp [spanDigits, isDig_eq, hx, this]

theorem spanLine_append (a : Bytes) (c : UInt8) (rest : Bytes) (ha : ∀ b ∈ a, isEolByte b = false)
    (hc : isEolByte c = true) : spanLine (a ++ c :: rest) = (a, c :: rest) := by
  induction a with
  | nil => simp [spanLine, hc]
  | cons x xs ih =>
    have hx : isEolByte x = false := ha x (by simp)
    have := ih (fun b hb => ha b (by simp [hb]))
    simp [spanLine, hx, this]

/-! ### tail -/

theorem EOF_LINE_eq : EOF_LINE = EOF_KW := rfl
theorem STARTXREF_LINE_eq : STARTXREF_LINE = STARTXREF_KW := rfl

theorem lastXref_tail (X : Bytes) (n : Nat) (hn : n < 10000000000000000000) :
    lastXref (X ++ STARTXREF_KW ++ natDigits n ++ EOF_KW) = .ok n := by
  have hlen : (natDigits n).length ≤ 19 := natDigits_length_le 19 n (by omega) (by omega)
  have hrev : (X ++ STARTXREF_KW ++ natDigits n ++ EOF_KW).reverse
      = EOF_LINE.reverse ++ ((natDigits n).reverse ++ (STARTXREF_LINE.reverse ++ X.reverse)) := by
    simp [EOF_LINE_eq, STARTXREF_LINE_eq]
  have hsp : spanDigits ((natDigits n).reverse ++ (STARTXREF_LINE.reverse ++ X.reverse))
      = ((natDigits n).reverse, STARTXREF_LINE.reverse ++ X.reverse) := by
    apply spanDigits_append
    · intro b hb; exact natDigits_all_digit n b (by simpa using hb)
    · intro b r h; simp [STARTXREF_LINE] at h; obtain ⟨rfl, _⟩ := h; decide
  have hne : ((natDigits n).reverse.isEmpty) = false := by
    have := natDigits_ne_nil n
    cases h : natDigits n with
    | nil => exact absurd h this
    | cons a as => simp
  unfold lastXref
  rw [hrev, stripPrefix_append]
  simp only [hsp, hne, Bool.false_eq_true, if_false, List.length_reverse]
  have : ¬ (natDigits n).length > 19 := by omega
  simp only [this, if_false, stripPrefix_append, List.reverse_reverse, digitsVal_natDigits]

theorem tailAt_tail (X : Bytes) (n : Nat) :
    tailAt (X ++ STARTXREF_KW ++ natDigits n ++ EOF_KW) X.length n
      = .ok (X ++ STARTXREF_KW ++ natDigits n ++ EOF_KW).length := by
  have hd : (X ++ STARTXREF_KW ++ natDigits n ++ EOF_KW).drop X.length
      = (STARTXREF_LINE ++ natDigits n ++ EOF_LINE) ++ [] := by
    simp [EOF_LINE_eq, STARTXREF_LINE_eq, List.append_assoc]
  have hle : ¬ X.length > (X ++ STARTXREF_KW ++ natDigits n ++ EOF_KW).length := by
    simp only [List.length_append]; omega
  unfold tailAt
  simp only [hle, if_false, hd, stripPrefix_append, List.length_nil, Nat.sub_zero]

/-! ### header -/

theorem eol_ge128 : ∀ b : UInt8, b ≥ 128 → isEolByte b = false := by
  apply forall_uint8; decide +kernel

theorem notEol_isEolByte : ∀ b : UInt8, notEol b = true → isEolByte b = false := by
  apply forall_uint8; decide +kernel

theorem headerAt_saved (version mark R : Bytes) (hv : ∀ b ∈ version, notEol b = true)
    (hm : (mark.all fun b => b ≥ 128) = true) :
    headerAt (PDF_KW ++ (version ++ 10 :: 37 :: (mark ++ 10 :: R))) = .ok (version, R) := by
  have h1 : spanLine (version ++ 10 :: 37 :: (mark ++ 10 :: R)) = (version, 10 :: 37 :: (mark ++ 10 :: R)) :=
    spanLine_append version 10 _ (fun b hb => notEol_isEolByte b (hv b hb)) (by decide)
  have h2 : spanLine (mark ++ 10 :: R) = (mark, 10 :: R) :=
    spanLine_append mark 10 _ (fun b hb => eol_ge128 b (by have := List.all_eq_true.mp hm b hb; simpa using this))
      (by decide)
  unfold headerAt
  have : PDF = PDF_KW := rfl
  rw [this, stripPrefix_append]
  simp only [h1, dropEol, h2]

/-! ### one indirect object -/

theorem skipWs_sep (o : Obj) (Y : Bytes) (hwf : WFObj o) :
    skipWs ((if needSeparator o then [32] else []) ++ (writeObj o ++ Y)) = writeObj o ++ Y := by
  obtain ⟨b, r, e, hb, _, _⟩ := head_obj _ o Y hwf
  have hb' : isWs b = false := by rw [isWs_eq]; exact hb
  split
  · simp only [List.cons_append, List.nil_append, skipWs, show isWs 32 = true by decide, if_true]
    rw [e]; exact skipWs_stop b r hb'
  · simp only [List.nil_append]
    rw [e]; exact skipWs_stop b r hb'

theorem finishObj_tail (total : Nat) (o o' : Obj) (rest : Bytes) :
    finishObj total o' (endObjTail o rest) = .ok (o', total - rest.length) := by
  have h : skipWs (endObjTail o rest) = ENDOBJ ++ 10 :: rest := by
    unfold endObjTail
    split <;> simp [skipWs, isWs, ENDOBJ]
  unfold finishObj
  rw [h, stripPrefix_append]
  simp [dropEol]

theorem endObjTail_not_stream (o : Obj) (rest : Bytes) :
    stripPrefix STREAM (endObjTail o rest) = none ∧ (stripPrefix STREAM (skipWs (endObjTail o rest))).isSome = false := by
  have h : skipWs (endObjTail o rest) = ENDOBJ ++ 10 :: rest := by
    unfold endObjTail
    split <;> simp [skipWs, isWs, ENDOBJ]
  constructor
  · unfold endObjTail
    split <;> simp [stripPrefix, STREAM]
  · rw [h]; simp [stripPrefix, STREAM, ENDOBJ]

/-- **R5 on a written object**: the strict reader reads `n g obj … endobj` written by
`write_indirect_object` back as the object, and ends exactly behind it -/
theorem objectAt_written (pre rest : Bytes) (n g : Nat) (o : Obj) (resolve : ObjId → Option Int) (h : ObjOK o) :
    objectAt (pre ++ (writeIndirect n g o ++ rest)) pre.length n g resolve
      = .ok (o, pre.length + (writeIndirect n g o).length) := by
  have htotal : (pre ++ (writeIndirect n g o ++ rest)).length - rest.length
      = pre.length + (writeIndirect n g o).length := by
    simp only [List.length_append]; omega
  have hoff : ¬ pre.length > (pre ++ (writeIndirect n g o ++ rest)).length := by
    simp only [List.length_append]; omega
  have hhdr : (pre ++ (writeIndirect n g o ++ rest)).drop pre.length
      = (natDigits n ++ 32 :: natDigits g ++ OBJ) ++ (10 :: ((if needSeparator o then [32] else []) ++
          (writeObj o ++ endObjTail o rest))) := by
    rw [List.drop_left, writeIndirect_eq]
    simp [OBJ]
  unfold objectAt
  simp only [hoff, if_false, hhdr, stripPrefix_append, dropEol]
  cases o with
  | stream es c =>
    obtain ⟨h1, h2, h3, h4⟩ := h
    have hsk := skipWs_sep (.dict es) (STREAM_KW ++ (c ++ (ENDSTREAM_KW ++ endObjTail (.stream es c) rest))) h1
    have hw : writeObj (.stream es c) ++ endObjTail (.stream es c) rest
        = writeObj (.dict es) ++ (STREAM_KW ++ (c ++ (ENDSTREAM_KW ++ endObjTail (.stream es c) rest))) := by
      simp [writeObj]
    have hns : needSeparator (.stream es c) = needSeparator (.dict es) := rfl
    rw [hw, hns, hsk]
    have hfuel : size (.dict es) ≤ (writeObj (.dict es) ++ (STREAM_KW ++ (c ++ (ENDSTREAM_KW ++
        endObjTail (.stream es c) rest)))).length + 1 := by
      have := size_le_length _ (.dict es) h1
      simp only [List.length_append]; omega
    rw [obj_rt (.dict es) _ 0 _ h1 (by omega) hfuel trivial]
    simp only [norm, normD_noReal es h3]
    have hst : stripPrefix STREAM (STREAM_KW ++ (c ++ (ENDSTREAM_KW ++ endObjTail (.stream es c) rest)))
        = some (10 :: (c ++ (ENDSTREAM_KW ++ endObjTail (.stream es c) rest))) := by
      simp [STREAM, STREAM_KW, stripPrefix]
    have hlen : streamLength resolve es = some (c.length : Int) := by
      unfold streamLength
      have : kLength = LENGTH := rfl
      rw [this, h4]
    have hnot : ¬ ((c.length : Int) < 0 ∨
        (c ++ (ENDSTREAM_KW ++ endObjTail (.stream es c) rest)).length < (c.length : Int).toNat) := by
      simp only [List.length_append, Int.toNat_natCast]; omega
    simp only [hst, dropStreamEol, hlen, Bool.or_eq_true, decide_eq_true_eq, hnot, if_false, Int.toNat_natCast,
      List.take_left', List.drop_left']
    have he : ENDSTREAM_KW ++ endObjTail (.stream es c) rest
        = 10 :: (ENDSTREAM ++ endObjTail (.stream es c) rest) := by
      simp [ENDSTREAM_KW, ENDSTREAM]
    rw [he]
    simp only [dropEol, stripPrefix_append, finishObj_tail, htotal]
    split
    · rename_i hh
      exfalso
      simp only [List.length_append] at hh
      omega
    · rfl
  | dict es =>
    obtain ⟨h1, h2, h3⟩ := h
    have hfuel : size (.dict es) ≤ (writeObj (.dict es) ++ endObjTail (.dict es) rest).length + 1 := by
      have := size_le_length _ (.dict es) h1
      simp only [List.length_append]; omega
    rw [skipWs_sep _ _ h1, obj_rt _ _ 0 _ h1 (by omega) hfuel (follow_endobj _ rest), norm_noReal _ h3]
    obtain ⟨e1, e2⟩ := endObjTail_not_stream (.dict es) rest
    simp only [e1, e2, Bool.false_eq_true, if_false, finishObj_tail, htotal]
  | _ =>
    obtain ⟨h1, h2, h3⟩ := h
    rw [skipWs_sep _ _ h1, obj_rt _ _ 0 _ h1 (by omega)
      (by have := size_le_length _ _ h1; simp only [List.length_append]; omega) (follow_endobj _ rest),
      norm_noReal _ h3]
    simp only [finishObj_tail, htotal]

end Lopdf.Strict
