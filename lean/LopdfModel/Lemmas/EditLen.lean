import LopdfModel.Lemmas.Edit
import LopdfModel.Lemmas.DictNoDup
/-
  Helper lemmas for C11: stream `Length` consistency (`LenOK`, `LenInv`) through the traversal
  (tame actions), the move passes, and every editing operation; get-level description of
  `Document::compress` / `Document::decompress` (model of C09).
-/
namespace Lopdf.Ed
open Lopdf

/-- a stream's dictionary has pairwise distinct keys (it is an `IndexMap`) and its `Length` entry is the
length of the content it stores -/
def LenOK : Obj → Prop
  | .stream d c => DictL.NoDup d ∧ Dict.get d LENGTHE = some (.int c.length)
  | _ => True

/-- every stream object of the document has a consistent `Length` -/
def LenInv (d : Doc) : Prop := ∀ k o, d.objects.get k = some o → LenOK o

/-- actions that keep a stream a stream with the same content, keep its dictionary's keys distinct and its
integer `Length`, leave integers alone and never turn a non-stream into a stream (all actions lopdf passes to
`traverse_objects`) -/
structure Tame (a : Action) : Prop where
  stream : ∀ d c, ∃ d', a.f (.stream d c) = .stream d' c ∧
    (DictL.NoDup d → DictL.NoDup d' ∧ ∀ i, Dict.get d LENGTHE = some (.int i) → Dict.get d' LENGTHE = some (.int i))
  int : ∀ i, a.f (.int i) = .int i
  only : ∀ o d' c, a.f o = .stream d' c → ∃ d, o = .stream d c

/-- removing keys one after the other: any key that is not removed keeps its value; keys stay distinct -/
theorem get_removeKeys {d : Dict} (hn : DictL.NoDup d) (ks : List Bytes) (q : Bytes) (hq : q ∉ ks) :
    Dict.get (removeKeys d ks) q = Dict.get d q ∧ DictL.NoDup (removeKeys d ks) := by
  induction ks generalizing d with
  | nil => exact ⟨rfl, hn⟩
  | cons k rest ih =>
    simp only [List.mem_cons, not_or] at hq
    simp only [removeKeys, List.foldl_cons]
    have := ih (DictL.nodup_remove hn k) hq.2
    refine ⟨?_, this.2⟩
    have h1 := this.1
    simp only [removeKeys] at h1
    rw [h1, DictL.get_remove hn k q]
    have : ¬ k = q := fun e => hq.1 e.symm
    simp [this]

theorem nodup_removeKeys {d : Dict} (hn : DictL.NoDup d) (ks : List Bytes) : DictL.NoDup (removeKeys d ks) := by
  induction ks generalizing d with
  | nil => exact hn
  | cons k rest ih => simp only [removeKeys, List.foldl_cons]; exact ih (DictL.nodup_remove hn k)

theorem dictGet_deepDict (a : Action) (d : Dict) (k : Bytes) :
    Dict.get (deepDict a d) k = (Dict.get d k).map (deepObj a) := by
  induction d with
  | nil => rw [deepDict]; simp [Dict.get]
  | cons p rest ih =>
    obtain ⟨k0, v0⟩ := p
    rw [deepDict]; simp only [Dict.get]
    split <;> simp [ih]

theorem keys_deepDict (a : Action) (d : Dict) : (deepDict a d).map (·.1) = d.map (·.1) := by
  induction d with
  | nil => rw [deepDict]
  | cons p rest ih => obtain ⟨k0, v0⟩ := p; rw [deepDict]; simp [ih]

theorem lenOK_deep (a : Action) (ht : Tame a) (o : Obj) (h : LenOK o) : LenOK (deepObj a o) := by
  cases hf : a.f o with
  | arr items => rw [deepObj_arr hf]; trivial
  | dict es => rw [deepObj_dict hf]; trivial
  | stream es c =>
    rw [deepObj_stream hf]
    obtain ⟨d, hd⟩ := ht.only o es c hf; subst hd
    obtain ⟨d', e1, e2⟩ := ht.stream d c
    rw [hf] at e1; cases e1
    simp only [LenOK] at h ⊢
    obtain ⟨n1, n2⟩ := e2 h.1
    refine ⟨by unfold DictL.NoDup; rw [keys_deepDict]; exact n1, ?_⟩
    rw [dictGet_deepDict, n2 _ h.2]
    simp only [Option.map_some]
    rw [deepObj_other] <;> simp [ht.int]
  | _ =>
    rw [deepObj_other (by simp [hf]) (by simp [hf]) (by simp [hf]), hf]; trivial

theorem tame_id : Tame idAct :=
  ⟨fun d c => ⟨d, rfl, fun h => ⟨h, fun _ e => e⟩⟩, fun _ => rfl, fun o d c h => ⟨d, h⟩⟩
theorem tame_rename (m : List (ObjId × ObjId)) : Tame (renameAct m) := by
  refine ⟨fun d c => ⟨d, rfl, fun h => ⟨h, fun _ e => e⟩⟩, fun _ => rfl, ?_⟩
  intro o d c h
  cases o <;> simp [renameAct, renameFn] at h ⊢
  · exact h.2
  · split at h <;> cases h
theorem tame_del (id : ObjId) : Tame (delAct id) := by
  refine ⟨?_, fun _ => rfl, ?_⟩
  · intro d c
    refine ⟨stripDict id d, rfl, ?_⟩
    intro hn
    refine ⟨nodup_removeKeys hn _, ?_⟩
    intro i hi
    have hq : LENGTHE ∉ (d.filter (fun kv => isRefTo id kv.2)).map (·.1) := by
      intro hm
      obtain ⟨e, he, hek⟩ := List.mem_map.mp hm
      have hmem := List.mem_filter.mp he
      have : Dict.get d LENGTHE = some e.2 := DictL.get_some_of_mem hn (by rw [← hek]; exact hmem.1)
      rw [hi] at this
      have e2 : e.2 = .int i := (Option.some.inj this).symm
      rw [e2] at hmem
      simp [isRefTo] at hmem
    unfold stripDict
    rw [(get_removeKeys hn _ LENGTHE hq).1]; exact hi
  · intro o d c h
    cases o <;> simp [delAct, delFn] at h ⊢
    exact h.2

theorem lenInv_traverse (a : Action) (ht : Tame a) (tr : Dict) (os : Objects)
    (h : ∀ k o, os.get k = some o → LenOK o) : ∀ k o, (traverse a tr os).2.1.get k = some o → LenOK o := by
  intro k o hk
  rw [(traverse_visits_once a tr os).2.2 k] at hk
  split at hk
  · cases hos : os.get k with
    | none => rw [hos] at hk; cases hk
    | some o0 => rw [hos] at hk; simp at hk; subst hk; exact lenOK_deep a ht o0 (h k o0 hos)
  · exact h k o hk

theorem dictGetSet (d : Dict) (k : Bytes) (v : Obj) (q : Bytes) :
    Dict.get (Dict.set d k v) q = if k = q then some v else Dict.get d q := by
  induction d with
  | nil => simp [Dict.set, Dict.get]
  | cons p rest ih =>
    obtain ⟨k0, v0⟩ := p
    simp only [Dict.set]
    by_cases h1 : k0 = k
    · subst h1; simp only [if_true, Dict.get]
      by_cases h3 : k0 = q <;> simp [h3]
    · simp only [h1, if_false, Dict.get, ih]
      by_cases h3 : k0 = q
      · subst h3; simp [Ne.symm h1]
      · simp [h3]

theorem klength_eq : Gen.K_LENGTH = LENGTHE := by decide

theorem lenOK_setContent (s : Strm) (c : Bytes) (hn : DictL.NoDup s.dict) :
    LenOK (.stream (setContent s c).dict (setContent s c).content) := by
  refine ⟨DictL.nodup_set hn _ _, ?_⟩
  simp [setContent, klength_eq, dictGetSet, lenObj]

theorem lenOK_compress (f : Bytes → Bytes) (d : Dict) (c : Bytes) (h : LenOK (.stream d c)) :
    LenOK (.stream (compress f ⟨d, c⟩).dict (compress f ⟨d, c⟩).content) := by
  unfold compress
  split
  · exact h
  · simp only
    split
    · exact lenOK_setContent _ _ (DictL.nodup_set (DictL.nodup_remove h.1 _) _ _)
    · exact h

theorem nodup_removeKeysSeq (d : Dict) (ks : List Bytes) (hn : DictL.NoDup d) : DictL.NoDup (removeKeysSeq d ks) := by
  induction ks generalizing d with
  | nil => exact hn
  | cons k rest ih => simp only [removeKeysSeq]; exact ih _ (DictL.nodup_remove hn k)

theorem lenOK_decompress (ext : Ext) (d : Dict) (c : Bytes) (s : Strm) (hn : DictL.NoDup d) (h : decompress ext ⟨d, c⟩ = .ok s) :
    LenOK (.stream s.dict s.content) := by
  unfold decompress at h
  cases hd : decompressedContent ext ⟨d, c⟩ with
  | ok data =>
    rw [hd] at h
    simp only [Outcome.map] at h
    cases h
    exact lenOK_setContent _ _ (nodup_removeKeysSeq _ _ hn)
  | err e => rw [hd] at h; simp [Outcome.map] at h
  | panic e => rw [hd] at h; simp [Outcome.map] at h

/-- what `Document::compress` does to one object -/
def compressObj (f : Bytes → Bytes) (al : ObjId → Bool) (id : ObjId) : Obj → Obj
  | .stream d c => if al id then .stream (compress f ⟨d, c⟩).dict (compress f ⟨d, c⟩).content else .stream d c
  | o => o

/-- what `Document::decompress` does to one object -/
def decompressObj (ext : Ext) : Obj → Obj
  | .stream d c => match decompress ext ⟨d, c⟩ with
    | .ok s => .stream s.dict s.content
    | _ => .stream d c
  | o => o

theorem docCompress_get (f : Bytes → Bytes) (al : ObjId → Bool) (os : Objects) (k : ObjId) :
    (docCompress f al os).get k = (os.get k).map (compressObj f al k) := by
  induction os with
  | nil => simp [docCompress, Objects.get]
  | cons p rest ih =>
    obtain ⟨id, o0⟩ := p
    unfold docCompress at ih ⊢
    simp only [List.map_cons]
    by_cases e : id = k
    · subst e
      cases o0 <;> simp [Objects.get, compressObj]
      split <;> simp [Objects.get]
    · cases o0 <;> simp only [Objects.get, e, if_false] <;> first | exact ih | (split <;> simp [Objects.get, e, ih])

theorem docDecompress_get (ext : Ext) (os : Objects) (k : ObjId) :
    (docDecompress ext os).get k = (os.get k).map (decompressObj ext) := by
  induction os with
  | nil => simp [docDecompress, Objects.get]
  | cons p rest ih =>
    obtain ⟨id, o0⟩ := p
    unfold docDecompress at ih ⊢
    simp only [List.map_cons]
    by_cases e : id = k
    · subst e
      cases o0 <;> simp [Objects.get, decompressObj]
      rename_i es c
      cases hd : decompress ext ⟨es, c⟩ <;> simp [Objects.get]
    · cases o0 <;> simp only [Objects.get, e, if_false] <;> first | exact ih | (split <;> simp [Objects.get, e, ih])

theorem lenOK_compressObj (f : Bytes → Bytes) (al : ObjId → Bool) (id : ObjId) (o : Obj) (h : LenOK o) :
    LenOK (compressObj f al id o) := by
  cases o <;> simp only [compressObj] <;> try exact h
  split
  · exact lenOK_compress f _ _ h
  · exact h

theorem lenOK_decompressObj (ext : Ext) (o : Obj) (h : LenOK o) : LenOK (decompressObj ext o) := by
  cases o <;> simp only [decompressObj] <;> try exact h
  split
  · rename_i s hs; exact lenOK_decompress ext _ _ s h.1 hs
  · exact h

/-- frame: `compress` / `decompress` touch nothing but stream objects -/
theorem compressObj_nonstream (f : Bytes → Bytes) (al : ObjId → Bool) (id : ObjId) (o : Obj)
    (h : ∀ d c, o ≠ .stream d c) : compressObj f al id o = o := by
  cases o <;> simp [compressObj]; exact absurd rfl (h _ _)
theorem decompressObj_nonstream (ext : Ext) (o : Obj) (h : ∀ d c, o ≠ .stream d c) : decompressObj ext o = o := by
  cases o <;> simp [decompressObj]; exact absurd rfl (h _ _)

abbrev ValsOK (os : Objects) : Prop := ∀ k o, os.get k = some o → LenOK o

theorem valsOK_set (os : Objects) (k : ObjId) (v : Obj) (h : ValsOK os) (hv : LenOK v) : ValsOK (os.set k v) := by
  intro q o hq
  rw [Objects.get_set] at hq
  split at hq
  · cases hos : os.get q with
    | none => rw [hos] at hq; cases hq
    | some o0 => rw [hos] at hq; simp at hq; subst hq; exact hv
  · exact h q o hq

theorem valsOK_insert (os : Objects) (k : ObjId) (v : Obj) (h : ValsOK os) (hv : LenOK v) : ValsOK (os.insert k v) := by
  intro q o hq
  rw [Objects.get_insert] at hq
  split at hq
  · cases hq; exact hv
  · exact h q o hq

theorem valsOK_remove (os : Objects) (k : ObjId) (h : ValsOK os) : ValsOK (os.remove k) := by
  intro q o hq
  rw [Objects.get_remove] at hq
  split at hq
  · cases hq
  · exact h q o hq

theorem valsOK_foldl_remove (ids : List ObjId) (os : Objects) (h : ValsOK os) : ValsOK (ids.foldl Objects.remove os) := by
  induction ids generalizing os with
  | nil => exact h
  | cons x xs ih => exact ih _ (valsOK_remove os x h)

theorem valsOK_foldl_insert (l : Objects) (acc : Objects) (hl : ∀ p ∈ l, LenOK p.2) (h : ValsOK acc) :
    ValsOK (l.foldl (fun acc kv => acc.insert kv.1 kv.2) acc) := by
  induction l generalizing acc with
  | nil => exact h
  | cons p rest ih =>
    simp only [List.foldl_cons]
    exact ih _ (fun q hq => hl q (List.mem_cons_of_mem _ hq)) (valsOK_insert acc p.1 p.2 h (hl p List.mem_cons_self))

theorem mem_of_get (os : Objects) (k : ObjId) (o : Obj) (h : os.get k = some o) : (k, o) ∈ os := by
  induction os with
  | nil => simp [Objects.get] at h
  | cons p rest ih =>
    obtain ⟨k0, v0⟩ := p
    simp only [Objects.get] at h
    split at h
    · rename_i e; cases h; subst e; exact List.mem_cons_self
    · exact List.mem_cons_of_mem _ (ih h)

/-- entries of a map built by `insert` from values that are all fine are fine (membership form) -/
theorem entries_insert (os : Objects) (k : ObjId) (v : Obj) (h : ∀ p ∈ os, LenOK p.2) (hv : LenOK v) :
    ∀ p ∈ os.insert k v, LenOK p.2 := by
  induction os with
  | nil => intro p hp; simp [Objects.insert] at hp; subst hp; exact hv
  | cons q rest ih =>
    obtain ⟨k0, v0⟩ := q
    intro p hp
    simp only [Objects.insert] at hp
    split at hp
    · rcases List.mem_cons.mp hp with rfl | hp
      · exact hv
      · exact h p (List.mem_cons_of_mem _ hp)
    · split at hp
      · rcases List.mem_cons.mp hp with rfl | hp
        · exact hv
        · exact h p hp
      · rcases List.mem_cons.mp hp with rfl | hp
        · exact h _ List.mem_cons_self
        · exact ih (fun x hx => h x (List.mem_cons_of_mem _ hx)) p hp

theorem moveObj_vals (st : MoveSt) (p : ObjId × ObjId) (h1 : ValsOK st.objects) (h2 : ∀ q ∈ st.tmp, LenOK q.2) :
    ValsOK (moveObj st p).objects ∧ ∀ q ∈ (moveObj st p).tmp, LenOK q.2 := by
  unfold moveObj
  cases hg : st.objects.get p.1 with
  | none => exact ⟨h1, h2⟩
  | some o => exact ⟨valsOK_remove _ _ h1, entries_insert _ _ _ h2 (h1 _ _ hg)⟩

theorem movePass_vals (bks : List Nat) (os : Objects) (bm : BkTable) (pairs : List (ObjId × ObjId)) (h : ValsOK os) :
    ValsOK (movePass bks os bm pairs).objects := by
  unfold movePass
  have key : ∀ (pairs : List (ObjId × ObjId)) (st : MoveSt), ValsOK st.objects → (∀ q ∈ st.tmp, LenOK q.2) →
      ValsOK (pairs.foldl (moveStep bks) st).objects ∧ ∀ q ∈ (pairs.foldl (moveStep bks) st).tmp, LenOK q.2 := by
    intro pairs
    induction pairs with
    | nil => intro st a b; exact ⟨a, b⟩
    | cons p rest ih =>
      intro st a b
      simp only [List.foldl_cons]
      have := moveObj_vals st p a b
      apply ih
      · rw [(moveStep_eq bks st p).1]; exact this.1
      · rw [(moveStep_eq bks st p).2.1]; exact this.2
  obtain ⟨a, b⟩ := key pairs ⟨os, [], [], bm⟩ h (by intro q hq; cases hq)
  exact valsOK_foldl_insert _ _ b a

theorem lenInv_deleteObject (d : Doc) (id : ObjId) (h : LenInv d) : LenInv (deleteObject d id).1 := by
  unfold LenInv deleteObject
  exact valsOK_remove _ _ (lenInv_traverse _ (tame_del id) _ _ h)

theorem lenInv_foldl_delete (ids : List ObjId) (d : Doc) (h : LenInv d) :
    LenInv (ids.foldl (fun d id => (deleteObject d id).1) d) := by
  induction ids generalizing d with
  | nil => exact h
  | cons x xs ih => simp only [List.foldl_cons]; exact ih _ (lenInv_deleteObject d x h)

theorem lenInv_pagePass (d : Doc) (h : LenInv d) : LenInv (pagePass d) := by
  unfold pagePass; split
  · exact lenInv_traverse _ (tame_rename _) _ _ (movePass_vals _ _ _ _ h)
  · exact h

theorem lenInv_densePass (d1 : Doc) (start : Nat) (h : LenInv d1) (d' : Doc) (hs : densePass d1 start = .ok d') : LenInv d' := by
  unfold densePass at hs
  split at hs
  · cases hs
  · cases hs
    exact lenInv_traverse _ (tame_rename _) _ _ (movePass_vals _ _ _ _ h)

theorem decCounts_vals (os : Objects) (seen : List ObjId) (r : Option ObjId) (h : ValsOK os) :
    ValsOK (decCounts os seen r) := by
  induction os, seen, r using decCounts.induct with
  | case1 os seen => rw [decCounts_none]; exact h
  | case2 os seen id hs => rw [decCounts_seen _ _ _ hs]; exact h
  | case3 os seen id hs pt hg ih =>
    rw [decCounts_dict _ _ _ pt (by simpa using hs) hg]
    exact ih (valsOK_set os id _ h trivial)
  | case4 os seen id hs hne =>
    rw [decCounts_other _ _ _ (by simpa using hs) (fun pt h' => hne pt h')]; exact h

theorem lenInv_deletePage1 (pages : List ObjId) (a : Doc) (n : Nat) (h : LenInv a) : LenInv (deletePage1 pages a n) := by
  unfold deletePage1
  split
  · exact h
  · rename_i pid _
    have hwd := lenInv_deleteObject a pid h
    cases hdo : deleteObject a pid with
    | mk d2 ro =>
      rw [hdo] at hwd
      cases ro with
      | none => exact hwd
      | some page => exact decCounts_vals _ _ _ hwd

theorem lenInv_deletePages (d : Doc) (nums : List Nat) (h : LenInv d) : LenInv (deletePages d nums) := by
  unfold deletePages
  simp only
  generalize pageIter d.trailer d.objects = pages
  have key : ∀ (nums : List Nat) (acc : Doc), LenInv acc →
      LenInv (nums.foldl (fun acc n => deletePage1 pages acc n) acc) := by
    intro nums
    induction nums with
    | nil => intro acc hacc; exact hacc
    | cons n rest ih => intro acc hacc; simp only [List.foldl_cons]; exact ih _ (lenInv_deletePage1 pages acc n hacc)
  exact key nums d h

theorem lenInv_setObj (d : Doc) (k : ObjId) (v : Obj) (h : LenInv d) (hv : LenOK v) : LenInv { d with objects := d.objects.set k v } :=
  valsOK_set _ _ _ h hv

theorem lenInv_addObject (d : Doc) (o : Obj) (h : LenInv d) (ho : LenOK o) : LenInv (addObject d o) :=
  valsOK_insert _ _ _ h ho

theorem lenOK_streamNew (c : Bytes) : LenOK (streamNew [] c) := by
  simp [streamNew, LenOK, Dict.set, Dict.get, DictL.NoDup]

theorem lenInv_setDictEntry (d : Doc) (id : ObjId) (key : Bytes) (v : Obj) (h : LenInv d) : LenInv (setDictEntry d id key v).1 := by
  unfold setDictEntry
  split
  · exact h
  · split
    · exact lenInv_setObj d _ _ h trivial
    · exact h

theorem lenInv_addPageContents (d : Doc) (pg : ObjId) (content : Bytes) (h : LenInv d) (d' : Doc) (out : Out)
    (hs : addPageContents d pg content = .ok (d', out)) : LenInv d' := by
  unfold addPageContents at hs
  split at hs
  · cases hs; exact h
  · rename_i page _
    split at hs
    · cases hs
    · have e := Outcome.ok.inj hs
      have := lenInv_setDictEntry (addObject d (streamNew [] content)) pg CONTENTS
        (Obj.arr (contentsList page ++ [Obj.ref (d.maxId + 1) 0])) (lenInv_addObject d _ h (lenOK_streamNew content))
      rw [e] at this; exact this

theorem lenInv_removeAnnot (id : ObjId) (pages : List ObjId) (d : Doc) (h : LenInv d) : LenInv (removeAnnot id pages d).1 := by
  induction pages generalizing d with
  | nil => exact h
  | cons p rest ih =>
    simp only [removeAnnot]
    split
    · exact h
    · split
      · split
        · exact ih _ (lenInv_setObj d _ _ h trivial)
        · exact h
      · exact h

theorem lenInv_writeLoc (d : Doc) (loc : ResLoc) (v : Dict) (h : LenInv d) : LenInv { d with objects := writeLoc d.objects loc (.dict v) } := by
  unfold writeLoc
  cases loc with
  | obj id => exact lenInv_setObj d id _ h trivial
  | entry t =>
    simp only
    split
    · exact lenInv_setObj d t _ h trivial
    · exact h

theorem lenInv_getOrCreateResources (d : Doc) (pg : ObjId) (h : LenInv d) (d1 : Doc) (loc : ResLoc)
    (hg : getOrCreateResources d pg = some (d1, loc)) : LenInv d1 := by
  unfold getOrCreateResources at hg
  split at hg
  · cases hg
  · simp only at hg
    split at hg
    · simp only [Option.map_eq_some_iff] at hg
      obtain ⟨t, _, he⟩ := hg; cases he; exact h
    · split at hg
      · cases hg
      · split at hg
        · split at hg
          · cases hg; exact h
          · cases hg; exact lenInv_setObj d _ _ h trivial
        · cases hg

theorem lenInv_addXObject (d : Doc) (pg : ObjId) (name : Bytes) (xid : ObjId) (h : LenInv d) : LenInv (addXObject d pg name xid).1 := by
  unfold addXObject
  split
  · exact h
  · rename_i d1 loc hg
    have h1 := lenInv_getOrCreateResources d pg h d1 loc hg
    split
    · simp only
      split
      · split
        · exact h1
        · split
          · exact lenInv_setObj d1 _ _ h1 trivial
          · exact h1
      · exact lenInv_writeLoc d1 loc _ h1
      · exact h1
    · exact h1

theorem lenInv_addGraphicsState (d : Doc) (pg : ObjId) (name : Bytes) (gid : ObjId) (h : LenInv d) : LenInv (addGraphicsState d pg name gid).1 := by
  unfold addGraphicsState
  split
  · exact h
  · rename_i d1 loc hg
    have h1 := lenInv_getOrCreateResources d pg h d1 loc hg
    split
    · simp only
      split
      · exact lenInv_writeLoc d1 loc _ h1
      · exact h1
    · exact h1

theorem lenOK_plainThenCompress (deflated : Bytes) (dict : Dict) (c : Bytes) (hn : DictL.NoDup dict) :
    LenOK (plainThenCompress deflated dict c) := by
  unfold plainThenCompress
  simp only
  have h1 : DictL.NoDup (Dict.set (Dict.remove (Dict.remove dict kDecodeParms) kFilter) LENGTHE (.int c.length)) :=
    DictL.nodup_set (DictL.nodup_remove (DictL.nodup_remove hn _) _) _ _
  split
  · exact ⟨DictL.nodup_set (DictL.nodup_set (DictL.nodup_remove h1 _) _ _) _ _, by simp [dictGetSet]⟩
  · exact ⟨h1, by simp [dictGetSet]⟩

theorem lenInv_changeContentStream (f : Bytes → Bytes) (d : Doc) (sid : ObjId) (c : Bytes) (h : LenInv d) :
    LenInv (changeContentStream f d sid c) := by
  unfold changeContentStream
  split
  · rename_i dict _ hg
    exact lenInv_setObj d _ _ h (lenOK_plainThenCompress _ _ _ (h sid _ hg).1)
  · exact h

theorem lenInv_changePageContent (f : Bytes → Bytes) (d : Doc) (pg : ObjId) (c : Bytes) (h : LenInv d) (d' : Doc) (out : Out)
    (hs : changePageContent f d pg c = .ok (d', out)) : LenInv d' := by
  unfold changePageContent at hs
  split at hs
  · cases hs; exact h
  · cases hs; exact lenInv_changeContentStream f d _ c h
  · cases hs; exact lenInv_changeContentStream f d _ c h
  · cases hs; exact h
  · split at hs
    · cases hs
    · cases hs; exact lenInv_setDictEntry _ _ _ _ (lenInv_addObject d _ h (lenOK_streamNew c))
  · cases hs; exact h


end Lopdf.Ed
