import LopdfModel.Lemmas.C09Compress
namespace Lopdf
open Gen

theorem nodup_set_c09 {α : Type} (l : List α) (i : Nat) (x : α) (hn : l.Nodup) (hx : x ∉ l) : (l.set i x).Nodup := by
  rw [List.Nodup, List.pairwise_iff_getElem]
  intro a b ha hb hab
  have hp := List.pairwise_iff_getElem.mp hn
  simp only [List.length_set] at ha hb
  rw [List.getElem_set, List.getElem_set]
  by_cases h1 : i = a
  · subst h1
    have : ¬ (i = b) := by omega
    simp only [this, if_false, if_true]
    intro h; exact hx (h ▸ List.getElem_mem hb)
  · simp only [h1, if_false]
    by_cases h2 : i = b
    · simp only [h2, if_true]
      intro h; exact hx (h ▸ List.getElem_mem ha)
    · simp only [h2, if_false]
      exact hp a b ha hb hab

theorem Dict.dropLast_getLast_c09 (d : Dict) (last : Bytes × Obj) (h : d.getLast? = some last) :
    d = d.dropLast ++ [last] := by
  have hne : d ≠ [] := by intro h0; subst h0; simp at h
  have := List.dropLast_concat_getLast hne
  rw [List.getLast?_eq_some_getLast hne] at h
  simp only [Option.some.injEq] at h
  rw [h] at this; exact this.symm

/-- every entry of `d.remove k` is an entry of `d` -/
theorem Dict.mem_remove_c09 (d : Dict) (k : Bytes) (e : Bytes × Obj) (he : e ∈ d.remove k) : e ∈ d := by
  unfold Dict.remove at he
  split at he
  · exact he
  · split at he
    · exact he
    · rename_i last hl
      have hd := Dict.dropLast_getLast_c09 d last hl
      dsimp only at he
      split at he
      · rw [hd]; exact List.mem_append_left _ he
      · rcases List.mem_or_eq_of_mem_set he with h | h
        · rw [hd]; exact List.mem_append_left _ h
        · rw [hd, h]; simp

theorem Dict.keysNodup_remove_c09 (d : Dict) (k : Bytes) (hn : d.KeysNodup) : (d.remove k).KeysNodup := by
  unfold Dict.remove
  split
  · exact hn
  · split
    · exact hn
    · rename_i last hl
      have hd := Dict.dropLast_getLast_c09 d last hl
      have hn' : ((d.dropLast ++ [last]).map (·.1)).Nodup := by rw [← hd]; exact hn
      simp only [List.map_append, List.map_cons, List.map_nil] at hn'
      have hdl : (d.dropLast.map (·.1)).Nodup := (List.nodup_append.mp hn').1
      have hnot : last.1 ∉ d.dropLast.map (·.1) := by
        intro hm
        exact (List.nodup_append.mp hn').2.2 _ hm _ (by simp) rfl
      dsimp only
      split
      · exact hdl
      · unfold Dict.KeysNodup
        rw [List.map_set]
        exact nodup_set_c09 _ _ _ hdl hnot

/-- removing a key never brings another key back -/
theorem Dict.get_remove_none_c09 (d : Dict) (k k2 : Bytes) (h : d.get k2 = none) : (d.remove k).get k2 = none := by
  rw [Dict.get_none_iff_c09] at h ⊢
  intro e he
  exact h e (Dict.mem_remove_c09 d k e he)
end Lopdf
