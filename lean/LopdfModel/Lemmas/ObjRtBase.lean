import LopdfModel.Lemmas.Lex
import LopdfModel.Lemmas.Lit
import LopdfModel.Model.Content
import LopdfModel.Thm.C01
/-
  Object-level round trip (C01 `obj_rt`, C14 `content_rt`), part 1: `space`, the scalar
  alternatives of `_direct_objects` / `operand` factored out as `scalars`, and every token kind
  taken through the whole `alt` (earlier alternatives fail on the first byte or on the
  look-ahead).  Everything lives in `Lopdf.ObjRt`.
-/
namespace Lopdf.ObjRt
open Lopdf Gen

/-! ### `spanP`, `space` -/

theorem spanP_join (p : UInt8 → Bool) (inp : Bytes) : (spanP p inp).1 ++ (spanP p inp).2 = inp := by
  induction inp with
  | nil => rfl
  | cons b r ih =>
    by_cases h : p b = true
    · simp [spanP, h, ih]
    · simp [spanP, h]

theorem spanP_snd_le (p : UInt8 → Bool) (inp : Bytes) : (spanP p inp).2.length ≤ inp.length := by
  have := congrArg List.length (spanP_join p inp)
  simp at this; omega

theorem spanP_cons_lt (p : UInt8 → Bool) (inp : Bytes) (a : UInt8) (as r : Bytes)
    (h : spanP p inp = (a :: as, r)) : r.length < inp.length := by
  have := congrArg List.length (spanP_join p inp)
  rw [h] at this; simp at this; omega

theorem eol_lt (inp : Bytes) (m r : Bytes) (h : eol inp = some (m, r)) : r.length < inp.length := by
  unfold eol at h
  split at h <;> simp at h <;> (obtain ⟨_, rfl⟩ := h; simp) <;> omega

theorem comment_lt (inp r : Bytes) (h : comment inp = some r) : r.length < inp.length := by
  unfold comment at h
  split at h
  · rename_i r0
    simp only [Option.map_eq_some_iff] at h
    obtain ⟨⟨m, r'⟩, h1, h2⟩ := h
    have := eol_lt _ _ _ h1
    have := spanP_snd_le (fun b => b != 13 && b != 10) r0
    simp at h2; subst h2
    simp; omega
  · cases h

/-- `spaceF` does not depend on the fuel once it exceeds the input length -/
theorem spaceF_stable : ∀ (f g : Nat) (inp : Bytes), inp.length < f → inp.length < g →
    spaceF f inp = spaceF g inp := by
  intro f
  induction f with
  | zero => intro g inp h; omega
  | succ f ih =>
    intro g inp hf hg
    cases g with
    | zero => omega
    | succ g =>
      unfold spaceF
      split
      · rename_i a as r heq
        have := spanP_cons_lt _ _ _ _ _ heq
        exact ih g r (by omega) (by omega)
      · split
        · rename_i r hc
          have := comment_lt _ _ hc
          exact ih g r (by omega) (by omega)
        · rfl

/-- first byte of a token: neither white space nor `%` -/
def HeadTok (x : Bytes) : Prop := ∃ b r, x = b :: r ∧ isWhitespace b = false ∧ b ≠ 37

theorem comment_non37 (b : UInt8) (r : Bytes) (h : b ≠ 37) : comment (b :: r) = none := by
  unfold comment
  split
  · rename_i r0 heq; injection heq with e _; exact absurd e h
  · rfl

theorem space_nil : space [] = [] := by
  simp [space, spaceF, spanP, comment]

theorem space_head (x : Bytes) (h : HeadTok x) : space x = x := by
  obtain ⟨b, r, rfl, hw, hp⟩ := h
  unfold space spaceF
  simp only [spanP, hw, Bool.false_eq_true, if_false, comment_non37 b r hp]

theorem space_ws (b : UInt8) (x : Bytes) (h : isWhitespace b = true) : space (b :: x) = space x := by
  unfold space
  rw [spaceF]
  simp only [spanP, h, if_true]
  cases hs : spanP isWhitespace x with
  | mk a r =>
    simp only
    cases a with
    | nil =>
      have := spanP_join isWhitespace x
      rw [hs] at this; simp at this; subst this
      simp
    | cons a0 as =>
      have hlt := spanP_cons_lt _ _ _ _ _ hs
      rw [spaceF, hs]
      simp only [List.length_cons]
      exact spaceF_stable _ _ _ (by omega) (by omega)

theorem space_sp (x : Bytes) : space (32 :: x) = space x := space_ws 32 x (by decide)

theorem space_sp_head (x : Bytes) (h : HeadTok x) : space (32 :: x) = x := by
  rw [space_sp, space_head x h]

/-! ### the scalar alternatives -/

/-- the scalar alternatives of `_direct_objects` (`withRef = true`) and of `operand`
(`withRef = false`, no `reference`) in source order -/
def scalars (withRef : Bool) (inp : Bytes) : Option (Obj × Bytes) :=
  match tag NULL_KW inp with
  | some r => some (.null, r)
  | none =>
  match tag TRUE_KW inp with
  | some r => some (.bool true, r)
  | none =>
  match tag FALSE_KW inp with
  | some r => some (.bool false, r)
  | none =>
  match (if withRef then pReference inp else none) with
  | some (o, r) => some (o, r)
  | none =>
  match pReal inp with
  | some (t, r) => some (.real t, r)
  | none =>
  match pInteger inp with
  | some (i, r) => some (.int i, r)
  | none =>
  match pName inp with
  | some (n, r) => some (.name n, r)
  | none =>
  match pLiteral inp with
  | some (s, r) => some (.str s .lit, r)
  | none =>
  match pHexString inp with
  | some (s, r) => some (.str s .hex, r)
  | none => none

theorem directObjects_scalar (fuel depth : Nat) (inp : Bytes) (o : Obj) (r : Bytes)
    (h : scalars true inp = some (o, r)) : directObjects (fuel + 1) depth inp = .ok o r := by
  rw [directObjects.eq_def]
  simp only [scalars, if_true] at h
  simp only
  repeat' split at h
  all_goals (simp_all)

theorem operandObj_scalar (inp : Bytes) (o : Obj) (r : Bytes)
    (h : scalars false inp = some (o, r)) : operandObj inp = .ok o r := by
  rw [operandObj.eq_def]
  simp only [scalars] at h
  simp only
  repeat' split at h
  all_goals (simp_all)

/-- what follows the first number of a would-be reference: `space u16 space R` -/
def refTailS (s : Bytes) : Option (Nat × Bytes) :=
  (pUnsigned U16_MAX s).bind fun (g, r2) =>
    match space r2 with
    | 82 :: r3 => some (g, r3)
    | _ => none

def refTail (r1 : Bytes) : Option (Nat × Bytes) := refTailS (space r1)

theorem pReference_eq (inp : Bytes) : pReference inp =
    (pUnsigned U32_MAX inp).bind fun (n, r1) => (refTail r1).map fun (g, r3) => (Obj.ref n g, r3) := by
  unfold pReference refTail refTailS
  cases pUnsigned U32_MAX inp with
  | none => rfl
  | some p =>
    obtain ⟨n, r1⟩ := p
    simp only [Option.bind_some]
    cases pUnsigned U16_MAX (space r1) with
    | none => rfl
    | some q =>
      obtain ⟨g, r2⟩ := q
      simp only [Option.bind_some]
      split <;> simp_all

/-! ### digit strings -/

def AllDigits (ds : Bytes) : Prop := ∀ b ∈ ds, isDigit b = true

theorem digit_facts : ∀ b : UInt8, isDigit b = true →
    b ≠ 110 ∧ b ≠ 116 ∧ b ≠ 102 ∧ b ≠ 43 ∧ b ≠ 45 ∧ b ≠ 46 ∧ b ≠ 82 ∧ b ≠ 37 ∧
    isWhitespace b = false ∧ isRegular b = true := by
  apply forall_uint8; decide +kernel

theorem digit1_digits (ds rest : Bytes) (hne : ds ≠ []) (hd : AllDigits ds) (hr : NoDigitAhead rest) :
    digit1 (ds ++ rest) = some (ds, rest) := by
  unfold digit1
  rw [spanP_append isDigit _ _ hd hr]
  cases ds with
  | nil => exact absurd rfl hne
  | cons a b => rfl

theorem digit1_nondigit (b : UInt8) (r : Bytes) (h : isDigit b = false) : digit1 (b :: r) = none := by
  simp [digit1, spanP, h]

theorem digit1_nil : digit1 [] = none := by simp [digit1, spanP]

theorem pUnsigned_digits (mx : Nat) (ds rest : Bytes) (hne : ds ≠ []) (hd : AllDigits ds)
    (hr : NoDigitAhead rest) :
    pUnsigned mx (ds ++ rest) = if digitsVal ds ≤ mx then some (digitsVal ds, rest) else none := by
  simp [pUnsigned, digit1_digits ds rest hne hd hr]

theorem pUnsigned_nondigit (mx : Nat) (b : UInt8) (r : Bytes) (h : isDigit b = false) :
    pUnsigned mx (b :: r) = none := by
  simp [pUnsigned, digit1_nondigit b r h]

theorem refTailS_nondigit (b : UInt8) (r : Bytes) (h : isDigit b = false) : refTailS (b :: r) = none := by
  simp [refTailS, pUnsigned_nondigit _ b r h]

theorem refTailS_nil : refTailS [] = none := by
  simp [refTailS, pUnsigned, digit1_nil]

theorem pReference_nondigit (b : UInt8) (r : Bytes) (h : isDigit b = false) : pReference (b :: r) = none := by
  simp [pReference_eq, pUnsigned_nondigit _ b r h]

/-- the three keyword tags fail on a first byte other than `n`, `t`, `f` -/
theorem tags_fail (b : UInt8) (r : Bytes) (h1 : b ≠ 110) (h2 : b ≠ 116) (h3 : b ≠ 102) :
    tag NULL_KW (b :: r) = none ∧ tag TRUE_KW (b :: r) = none ∧ tag FALSE_KW (b :: r) = none := by
  refine ⟨?_, ?_, ?_⟩
  · simp [NULL_KW, tag, Ne.symm h1]
  · simp [TRUE_KW, tag, Ne.symm h2]
  · simp [FALSE_KW, tag, Ne.symm h3]

theorem optSign_other (b : UInt8) (r : Bytes) (h1 : b ≠ 43) (h2 : b ≠ 45) : optSign (b :: r) = ([], b :: r) := by
  unfold optSign
  split
  · rename_i heq; injection heq with e _; exact absurd e h1
  · rename_i heq; injection heq with e _; exact absurd e h2
  · rfl

/-- sign prefix of a written number -/
def sgn (neg : Bool) : Bytes := if neg then [45] else []

/-- `real` fails on sign, digits, and then neither `.` nor a digit -/
theorem pReal_inttext (neg : Bool) (ds rest : Bytes) (hne : ds ≠ []) (hd : AllDigits ds)
    (hr : NoDigitAhead rest) (hdot : ∀ r, rest ≠ 46 :: r) : pReal (sgn neg ++ ds ++ rest) = none := by
  have s1 : spanP isDigit (ds ++ rest) = (ds, rest) := spanP_append isDigit ds rest hd hr
  obtain ⟨a, as, rfl⟩ := List.exists_cons_of_ne_nil hne
  have ha := digit_facts a (hd a (by simp))
  cases neg
  · simp only [sgn, Bool.false_eq_true, if_false, List.nil_append]
    unfold pReal
    simp only [List.cons_append, optSign_other a _ ha.2.2.2.1 ha.2.2.2.2.1]
    simp only [List.cons_append] at s1
    rw [s1]
    split
    · rename_i heq; simp at heq; exact absurd heq.2 (hdot _)
    · rename_i heq; simp at heq
    · rfl
  · simp only [sgn, if_true, List.cons_append, List.nil_append]
    unfold pReal
    simp only [optSign]
    simp only [List.cons_append] at s1
    rw [s1]
    split
    · rename_i heq; simp at heq; exact absurd heq.2 (hdot _)
    · rename_i heq; simp at heq
    · rfl

/-- `integer` on sign and digits -/
theorem pInteger_inttext (neg : Bool) (ds rest : Bytes) (hne : ds ≠ []) (hd : AllDigits ds)
    (hr : NoDigitAhead rest) :
    pInteger (sgn neg ++ ds ++ rest) =
      if neg then (if digitsVal ds ≤ I64_MAX + 1 then some (-(Int.ofNat (digitsVal ds)), rest) else none)
      else (if digitsVal ds ≤ I64_MAX then some (Int.ofNat (digitsVal ds), rest) else none) := by
  have hd1 := digit1_digits ds rest hne hd hr
  cases neg
  · obtain ⟨a, as, rfl⟩ := List.exists_cons_of_ne_nil hne
    have ha := digit_facts a (hd a (by simp))
    simp only [sgn, Bool.false_eq_true, if_false, List.nil_append]
    simp only [List.cons_append] at hd1 ⊢
    unfold pInteger
    split
    · rename_i heq; injection heq with e _; exact absurd e ha.2.2.2.1
    · rename_i heq; injection heq with e _; exact absurd e ha.2.2.2.2.1
    · simp [hd1]
  · simp only [sgn, if_true, List.cons_append, List.nil_append]
    unfold pInteger
    simp [hd1]

theorem pReference_neg (x : Bytes) : pReference (45 :: x) = none :=
  pReference_nondigit 45 x (by decide)

theorem pReference_digits (ds rest : Bytes) (hne : ds ≠ []) (hd : AllDigits ds) (hr : NoDigitAhead rest)
    (ht : refTail rest = none) : pReference (ds ++ rest) = none := by
  rw [pReference_eq, pUnsigned_digits _ ds rest hne hd hr]
  split <;> simp [ht]

/-! ### tokens through the `alt` -/

/-- stop context of an integer token (without the reference look-ahead) -/
def IntStop0 (rest : Bytes) : Prop := NoDigitAhead rest ∧ ∀ r, rest ≠ 46 :: r

/-- **integer-shaped token** (written integers, integral real texts): sign, digits -/
theorem scalars_inttext (wr : Bool) (neg : Bool) (ds rest : Bytes) (hne : ds ≠ []) (hd : AllDigits ds)
    (hs : IntStop0 rest) (href : wr = true → refTail rest = none)
    (hrange : if neg then digitsVal ds ≤ I64_MAX + 1 else digitsVal ds ≤ I64_MAX) :
    scalars wr (sgn neg ++ ds ++ rest) =
      some (.int (if neg then -(Int.ofNat (digitsVal ds)) else Int.ofNat (digitsVal ds)), rest) := by
  have hreal := pReal_inttext neg ds rest hne hd hs.1 hs.2
  have hint := pInteger_inttext neg ds rest hne hd hs.1
  have hrf : (if wr = true then pReference (sgn neg ++ ds ++ rest) else none) = none := by
    cases wr
    · rfl
    · simp only [if_true]
      cases neg
      · simpa [sgn] using pReference_digits ds rest hne hd hs.1 (href rfl)
      · simpa [sgn] using pReference_neg (ds ++ rest)
  have htags : tag NULL_KW (sgn neg ++ ds ++ rest) = none ∧ tag TRUE_KW (sgn neg ++ ds ++ rest) = none ∧
      tag FALSE_KW (sgn neg ++ ds ++ rest) = none := by
    cases neg
    · obtain ⟨a, as, rfl⟩ := List.exists_cons_of_ne_nil hne
      have ha := digit_facts a (hd a (by simp))
      simpa [sgn] using tags_fail a (as ++ rest) ha.1 ha.2.1 ha.2.2.1
    · simpa [sgn] using tags_fail 45 (ds ++ rest) (by decide) (by decide) (by decide)
  unfold scalars
  rw [htags.1, htags.2.1, htags.2.2, hrf, hreal, hint]
  cases neg <;> simp_all

/-- **decimal real token** -/
theorem scalars_decimal (wr : Bool) (t rest : Bytes) (h : IsDecimal t) (hr : NoDigitAhead rest) :
    scalars wr (t ++ rest) = some (.real t, rest) := by
  have hreal := real_rt t rest h hr
  obtain ⟨neg, d1, d2, rfl, hne, h1, h2⟩ := h.parts
  have e : (if neg = true then [45] else []) ++ d1 ++ [46] ++ d2 ++ rest = sgn neg ++ d1 ++ (46 :: (d2 ++ rest)) := by
    simp [sgn]
  rw [e] at hreal ⊢
  have hnd : NoDigitAhead (46 :: (d2 ++ rest)) := by
    intro b r hb; injection hb with hb _; subst hb; decide
  have hrf : (if wr = true then pReference (sgn neg ++ d1 ++ (46 :: (d2 ++ rest))) else none) = none := by
    cases wr
    · rfl
    · simp only [if_true]
      cases neg
      · have : refTail (46 :: (d2 ++ rest)) = none := by
          unfold refTail
          rw [space_head _ ⟨46, _, rfl, by decide, by decide⟩]
          exact refTailS_nondigit 46 _ (by decide)
        simpa [sgn] using pReference_digits d1 _ hne h1 hnd this
      · simpa [sgn] using pReference_neg (d1 ++ 46 :: (d2 ++ rest))
  have htags : tag NULL_KW (sgn neg ++ d1 ++ (46 :: (d2 ++ rest))) = none ∧
      tag TRUE_KW (sgn neg ++ d1 ++ (46 :: (d2 ++ rest))) = none ∧
      tag FALSE_KW (sgn neg ++ d1 ++ (46 :: (d2 ++ rest))) = none := by
    cases neg
    · obtain ⟨a, as, rfl⟩ := List.exists_cons_of_ne_nil hne
      have ha := digit_facts a (h1 a (by simp))
      simpa [sgn] using tags_fail a (as ++ 46 :: (d2 ++ rest)) ha.1 ha.2.1 ha.2.2.1
    · simpa [sgn] using tags_fail 45 (d1 ++ 46 :: (d2 ++ rest)) (by decide) (by decide) (by decide)
  unfold scalars
  rw [htags.1, htags.2.1, htags.2.2, hrf, hreal]

/-- first bytes on which every numeric alternative fails -/
theorem num_fail (wr : Bool) (b : UInt8) (r : Bytes)
    (hd : isDigit b = false) (hp : b ≠ 43) (hm : b ≠ 45) (hdot : b ≠ 46) :
    (if wr = true then pReference (b :: r) else none) = none ∧ pReal (b :: r) = none ∧
    pInteger (b :: r) = none := by
  refine ⟨?_, ?_, ?_⟩
  · cases wr <;> simp [pReference_nondigit b r hd]
  · unfold pReal
    rw [optSign_other b r hp hm]
    simp only [spanP, hd, Bool.false_eq_true, if_false]
    split
    · rename_i heq; simp at heq
    · rename_i heq; simp at heq; exact absurd heq.1 hdot
    · rfl
  · unfold pInteger
    split
    · rename_i heq; injection heq with e _; exact absurd e hp
    · rename_i heq; injection heq with e _; exact absurd e hm
    · simp [digit1_nondigit b r hd]

/-- first bytes on which every numeric / keyword alternative fails -/
theorem numeric_fail (wr : Bool) (b : UInt8) (r : Bytes) (h1 : b ≠ 110) (h2 : b ≠ 116) (h3 : b ≠ 102)
    (hd : isDigit b = false) (hp : b ≠ 43) (hm : b ≠ 45) (hdot : b ≠ 46) :
    tag NULL_KW (b :: r) = none ∧ tag TRUE_KW (b :: r) = none ∧ tag FALSE_KW (b :: r) = none ∧
    (if wr = true then pReference (b :: r) else none) = none ∧ pReal (b :: r) = none ∧
    pInteger (b :: r) = none := by
  obtain ⟨t1, t2, t3⟩ := tags_fail b r h1 h2 h3
  obtain ⟨n1, n2, n3⟩ := num_fail wr b r hd hp hm hdot
  exact ⟨t1, t2, t3, n1, n2, n3⟩

/-- **name token** -/
theorem scalars_name (wr : Bool) (n rest : Bytes) (h : NameStop rest) :
    scalars wr (writeName n ++ rest) = some (.name n, rest) := by
  have hn := name_rt n rest h
  simp only [writeName, List.cons_append] at hn ⊢
  obtain ⟨a1, a2, a3, a4, a5, a6⟩ := numeric_fail wr 47 (writeNameBody n ++ rest)
    (by decide) (by decide) (by decide) (by decide) (by decide) (by decide) (by decide)
  unfold scalars
  rw [a1, a2, a3, a4, a5, a6, hn]

/-- **literal string token**, given that `literal_string` reads it back -/
theorem scalars_lit (wr : Bool) (s rest : Bytes)
    (h : pLiteral (writeString s .lit ++ rest) = some (s, rest)) :
    scalars wr (writeString s .lit ++ rest) = some (.str s .lit, rest) := by
  simp only [writeString, List.cons_append, List.nil_append, List.append_assoc] at h ⊢
  obtain ⟨a1, a2, a3, a4, a5, a6⟩ := numeric_fail wr 40 (litEmit (litScan 0 [] [] s) 0 s ++ (41 :: rest))
    (by decide) (by decide) (by decide) (by decide) (by decide) (by decide) (by decide)
  unfold scalars
  rw [a1, a2, a3, a4, a5, a6, h]
  simp [pName]

/-- **hexadecimal string token** -/
theorem scalars_hex (wr : Bool) (s rest : Bytes) :
    scalars wr (writeString s .hex ++ rest) = some (.str s .hex, rest) := by
  have h := hexstr_rt s rest
  simp only [writeString, List.cons_append, List.nil_append, List.append_assoc] at h ⊢
  obtain ⟨a1, a2, a3, a4, a5, a6⟩ := numeric_fail wr 60 (writeHexBody s ++ (62 :: rest))
    (by decide) (by decide) (by decide) (by decide) (by decide) (by decide) (by decide)
  unfold scalars
  rw [a1, a2, a3, a4, a5, a6, h]
  simp [pName, pLiteral]

theorem scalars_null (wr : Bool) (rest : Bytes) : scalars wr (NULL_KW ++ rest) = some (.null, rest) := by
  simp [scalars, NULL_KW, tag]

theorem scalars_true (wr : Bool) (rest : Bytes) : scalars wr (TRUE_KW ++ rest) = some (.bool true, rest) := by
  simp [scalars, NULL_KW, TRUE_KW, tag]

theorem scalars_false (wr : Bool) (rest : Bytes) : scalars wr (FALSE_KW ++ rest) = some (.bool false, rest) := by
  simp [scalars, NULL_KW, TRUE_KW, FALSE_KW, tag]

/-- no scalar alternative accepts `[` -/
theorem scalars_arr_none (wr : Bool) (r : Bytes) : scalars wr (91 :: r) = none := by
  obtain ⟨a1, a2, a3, a4, a5, a6⟩ := numeric_fail wr 91 r
    (by decide) (by decide) (by decide) (by decide) (by decide) (by decide) (by decide)
  unfold scalars
  rw [a1, a2, a3, a4, a5, a6]
  simp [pName, pLiteral, pHexString]

/-- no scalar alternative accepts `<<` (in particular not `hexadecimal_string`) -/
theorem scalars_dict_none (wr : Bool) (r : Bytes) : scalars wr (60 :: 60 :: r) = none := by
  obtain ⟨a1, a2, a3, a4, a5, a6⟩ := numeric_fail wr 60 (60 :: r)
    (by decide) (by decide) (by decide) (by decide) (by decide) (by decide) (by decide)
  have hh : pHexString (60 :: 60 :: r) = none := by
    unfold pHexString
    simp only [List.length_cons]
    unfold hexBody
    rw [whiteSpace_nonws 60 r (by decide)]
    simp [show isHexDigit 60 = false by decide, whiteSpace_nonws 60 r (by decide)]
  unfold scalars
  rw [a1, a2, a3, a4, a5, a6, hh]
  simp [pName, pLiteral]

/-- `]` and `>` are accepted by no alternative at all -/
theorem scalars_close_none (wr : Bool) (b : UInt8) (r : Bytes) (h : b = 93 ∨ b = 62) :
    scalars wr (b :: r) = none := by
  rcases h with rfl | rfl
  · obtain ⟨a1, a2, a3, a4, a5, a6⟩ := numeric_fail wr 93 r
      (by decide) (by decide) (by decide) (by decide) (by decide) (by decide) (by decide)
    unfold scalars
    rw [a1, a2, a3, a4, a5, a6]
    simp [pName, pLiteral, pHexString]
  · obtain ⟨a1, a2, a3, a4, a5, a6⟩ := numeric_fail wr 62 r
      (by decide) (by decide) (by decide) (by decide) (by decide) (by decide) (by decide)
    unfold scalars
    rw [a1, a2, a3, a4, a5, a6]
    simp [pName, pLiteral, pHexString]

end Lopdf.ObjRt
