import LopdfModel.Lemmas.C09Decompress
namespace Lopdf
open Gen

/-- what `Document::decompress` does to one object -/
def decompObj (ext : Ext) : Obj → Obj
  | .stream d c => let s := decompS ext ⟨d, c⟩; .stream s.dict s.content
  | o => o

/-- what `Document::compress` does to one object (`allow` = the stream's `allows_compression`) -/
def compObj (deflate : Bytes → Bytes) (allow : Bool) : Obj → Obj
  | .stream d c => if allow then let s := compress deflate ⟨d, c⟩; .stream s.dict s.content else .stream d c
  | o => o

theorem docDecompress_eq (ext : Ext) (os : Objects) :
    docDecompress ext os = os.map fun p => (p.1, decompObj ext p.2) := by
  unfold docDecompress
  apply List.map_congr_left
  intro p _
  obtain ⟨id, o⟩ := p
  cases o with
  | stream d c =>
    simp only [decompObj, decompS]
    cases h : decompress ext ⟨d, c⟩ <;> rfl
  | _ => rfl

theorem docCompress_eq (deflate : Bytes → Bytes) (allows : ObjId → Bool) (os : Objects) :
    docCompress deflate allows os = os.map fun p => (p.1, compObj deflate (allows p.1) p.2) := by
  unfold docCompress
  apply List.map_congr_left
  intro p _
  obtain ⟨id, o⟩ := p
  cases o with
  | stream d c =>
    simp only [compObj]
    split <;> rfl
  | _ => rfl

theorem Objects.get_map_c09 (f : ObjId → Obj → Obj) (os : Objects) (id : ObjId) :
    Objects.get (os.map fun p => (p.1, f p.1 p.2)) id = (Objects.get os id).map (f id) := by
  induction os with
  | nil => rfl
  | cons p rest ih =>
    obtain ⟨i, o⟩ := p
    by_cases h : i = id
    · subst h; simp [Objects.get]
    · simp [Objects.get, h, ih]

/-- plain content of an object (streams only) -/
def plainOf (ext : Ext) : Obj → Option (Outcome Bytes)
  | .stream d c => some (getPlainContent ext ⟨d, c⟩)
  | _ => none

/-- the object, if a stream, has a dictionary with distinct keys (the `IndexMap` invariant) -/
def StreamOk : Obj → Prop
  | .stream d _ => Dict.KeysNodup d
  | _ => True

/-- `Document::decompress`, object by object: ids are kept, non-stream objects are untouched, a stream is either
untouched (it cannot be decoded) or has lost `Filter` and `DecodeParms`, holds exactly its decoded content and a right
`Length` -/
theorem docDecompress_spec' (ext : Ext) (os : Objects) (id : ObjId) :
    (docDecompress ext os).map (·.1) = os.map (·.1) ∧
    Objects.get (docDecompress ext os) id = (Objects.get os id).map (decompObj ext) ∧
    (∀ o, (∀ d c, o ≠ .stream d c) → decompObj ext o = o) ∧
    (∀ (d : Dict) c, d.KeysNodup →
      decompObj ext (.stream d c) = .stream d c ∨
      ∃ s', decompObj ext (.stream d c) = .stream s'.dict s'.content ∧
        s'.dict.get K_FILTER = none ∧ s'.dict.get K_DECODEPARMS = none ∧
        decompressedContent ext ⟨d, c⟩ = .ok s'.content ∧ LengthOk s') := by
  refine ⟨?_, ?_, ?_, ?_⟩
  · rw [docDecompress_eq]; simp [List.map_map, Function.comp_def]
  · rw [docDecompress_eq]; exact Objects.get_map_c09 (fun _ o => decompObj ext o) os id
  · intro o ho
    cases o with
    | stream d c => exact absurd rfl (ho d c)
    | _ => rfl
  · intro d c hn
    simp only [decompObj, decompS]
    cases hd : decompress ext ⟨d, c⟩ with
    | err e => exact Or.inl rfl
    | panic p => exact Or.inl rfl
    | ok s' =>
      obtain ⟨h1, h2, h3, _, h5⟩ := decompress_spec' ext ⟨d, c⟩ s' hn hd
      exact Or.inr ⟨s', rfl, h1, h2, h3, h5⟩

/-- `Document::compress` then `Document::decompress`: every object keeps its id, non-streams are unchanged, and
every stream keeps its plain content (flate2 hypotheses; distinct keys) -/
theorem doc_compress_decompress' (ext : Ext) (deflate : Bytes → Bytes) (allows : ObjId → Bool)
    (hfl : ∀ x, ext.inflate (deflate x) = x) (hne : ∀ x, deflate x ≠ [])
    (os : Objects) (id : ObjId) :
    (docDecompress ext (docCompress deflate allows os)).map (·.1) = os.map (·.1) ∧
    Objects.get (docDecompress ext (docCompress deflate allows os)) id
      = (Objects.get os id).map (fun o => decompObj ext (compObj deflate (allows id) o)) ∧
    (∀ o allow, (∀ d c, o ≠ .stream d c) → decompObj ext (compObj deflate allow o) = o) ∧
    (∀ o allow, StreamOk o → plainOf ext (decompObj ext (compObj deflate allow o)) = plainOf ext o) := by
  refine ⟨?_, ?_, ?_, ?_⟩
  · rw [docDecompress_eq, docCompress_eq]; simp [List.map_map, Function.comp_def]
  · rw [docDecompress_eq, docCompress_eq]
    rw [Objects.get_map_c09 (fun _ o => decompObj ext o), Objects.get_map_c09 (fun i o => compObj deflate (allows i) o)]
    cases Objects.get os id <;> rfl
  · intro o allow ho
    cases o with
    | stream d c => exact absurd rfl (ho d c)
    | _ => cases allow <;> rfl
  · intro o allow hs
    cases o with
    | stream d c =>
      have hn : Dict.KeysNodup d := hs
      cases allow with
      | true =>
        simp only [compObj, if_true, decompObj, plainOf]
        exact congrArg some (compress_decompress_plain' ext deflate hfl hne ⟨d, c⟩ hn)
      | false =>
        simp only [compObj, Bool.false_eq_true, if_false, decompObj, plainOf]
        exact congrArg some (decompS_plain' ext ⟨d, c⟩ hn)
    | _ => cases allow <;> rfl

/-- the former witness of finding F-C09-d (repaired by lopdf 70e5e99): with the EMPTY filter array `decompress`
keeps the content -/
theorem decompress_empty_filter_witness' (ext : Ext) :
    getPlainContent ext ⟨[(K_FILTER, .arr [])], [1, 2, 3]⟩ = .ok [1, 2, 3] ∧
    (decompS ext ⟨[(K_FILTER, .arr [])], [1, 2, 3]⟩).content = [1, 2, 3] := by
  constructor <;> rfl
end Lopdf
