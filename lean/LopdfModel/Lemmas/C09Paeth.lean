import LopdfModel.Model.Filters
import LopdfModel.Spec.Png
namespace Lopdf
open Gen
theorem i16_some (x : Int) (h1 : -32768 ≤ x) (h2 : x ≤ 32767) : i16 x = some x := by
  simp [i16, h1, h2]
theorem i16abs_some (x : Int) (h1 : -32768 < x) : i16abs x = some (x.natAbs : Int) := by
  have : x ≠ -32768 := by omega
  simp only [i16abs, this, if_false]
  congr 1
  split <;> omega

theorem paethPredictO_eq (a b c : UInt8) : paethPredictO a b c = some (Spec.Png.paeth a b c) := by
  have ha := UInt8.toNat_lt a
  have hb := UInt8.toNat_lt b
  have hc := UInt8.toNat_lt c
  unfold paethPredictO
  simp only [bind, Option.bind, pure]
  rw [i16_some _ (by omega) (by omega)]
  simp only []
  rw [i16_some _ (by omega) (by omega)]
  simp only []
  rw [i16_some _ (by omega) (by omega), i16_some _ (by omega) (by omega), i16_some _ (by omega) (by omega)]
  simp only []
  rw [i16abs_some _ (by omega), i16abs_some _ (by omega), i16abs_some _ (by omega)]
  simp only [Spec.Png.paeth, Int.ofNat_le]

/-- PaethPredictor is symmetric in (left, above) -/
theorem paeth_symm' (a b c : UInt8) : Spec.Png.paeth a b c = Spec.Png.paeth b a c := by
  have ha := UInt8.toNat_lt a
  have hb := UInt8.toNat_lt b
  have hc := UInt8.toNat_lt c
  simp only [Spec.Png.paeth]
  by_cases hab : a = b
  · subst hab; rfl
  · have hne : a.toNat ≠ b.toNat := fun h => hab (UInt8.toNat_inj.mp h)
    repeat' split
    all_goals first | rfl | (exfalso; omega)
end Lopdf
