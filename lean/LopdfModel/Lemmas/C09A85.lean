import LopdfModel.Model.Filters
import LopdfModel.Spec.A85
namespace Lopdf
open Gen Spec.A85

theorem digit_facts (n : Nat) :
    (digit n = A85_Z) = False ∧ isAsciiWhitespace (digit n) = false ∧
    (A85_LO ≤ digit n && digit n ≤ A85_HI) = true ∧ (digit n - A85_LO).toNat = n % 85 := by
  have h : ∀ m : Fin 85, ((m.val + 33).toUInt8 = A85_Z) = False ∧ isAsciiWhitespace ((m.val + 33).toUInt8) = false ∧
    (A85_LO ≤ (m.val + 33).toUInt8 && (m.val + 33).toUInt8 ≤ A85_HI) = true ∧ ((m.val + 33).toUInt8 - A85_LO).toNat = m.val := by
    decide
  have := h ⟨n % 85, Nat.mod_lt _ (by decide)⟩
  simpa [digit] using this

theorem a85Loop_digit (n : Nat) (rest : Bytes) (buf count : Nat) :
    a85Loop (digit n :: rest) buf count =
      match a85Step buf (n % 85) with
      | none => .err "ascii85 overflow"
      | some v => if count + 1 = 5 then (a85Loop rest 0 0).map (be4 v ++ ·) else a85Loop rest v (count + 1) := by
  obtain ⟨h1, h2, h3, h4⟩ := digit_facts n
  rw [a85Loop]
  simp only [h1, h2, h3, h4, if_false, Bool.not_true, Bool.false_eq_true]
  rfl

theorem a85Step_ok (buf d : Nat) (h : buf * 85 + d ≤ 4294967295) : a85Step buf d = some (buf * 85 + d) := by
  unfold a85Step
  simp only [A85_BASE, A85_U32_MAX]
  have h1 : ¬ buf * 85 > 4294967295 := by omega
  have h2 : ¬ buf * 85 + d > 4294967295 := by omega
  simp [h1, h2]

theorem a85Loop_digit_cont (n : Nat) (rest : Bytes) (buf count : Nat) (hc : count < 4)
    (h : buf * 85 + n % 85 ≤ 4294967295) :
    a85Loop (digit n :: rest) buf count = a85Loop rest (buf * 85 + n % 85) (count + 1) := by
  rw [a85Loop_digit, a85Step_ok _ _ h]
  have : ¬ (count + 1 = 5) := by omega
  simp only [this, if_false]

theorem a85Loop_digit_last (n : Nat) (rest : Bytes) (buf : Nat)
    (h : buf * 85 + n % 85 ≤ 4294967295) :
    a85Loop (digit n :: rest) buf 4 = (a85Loop rest 0 0).map (be4 (buf * 85 + n % 85) ++ ·) := by
  rw [a85Loop_digit, a85Step_ok _ _ h]
  simp only [if_true]

theorem a85_full (v : Nat) (hv : v ≤ 4294967295) (rest : Bytes) :
    a85Loop (digits5 v ++ rest) 0 0 = (a85Loop rest 0 0).map (be4 v ++ ·) := by
  simp only [digits5, List.cons_append, List.nil_append]
  rw [a85Loop_digit_cont _ _ _ _ (by omega) (by omega)]
  rw [a85Loop_digit_cont _ _ _ _ (by omega) (by omega)]
  rw [a85Loop_digit_cont _ _ _ _ (by omega) (by omega)]
  rw [a85Loop_digit_cont _ _ _ _ (by omega) (by omega)]
  rw [a85Loop_digit_last _ _ _ (by omega)]
  have : ((((0 * 85 + v / 52200625 % 85) * 85 + v / 614125 % 85) * 85 + v / 7225 % 85) * 85 + v / 85 % 85) * 85 + v % 85 = v := by omega
  rw [this]

theorem toUInt8_toNat (a : UInt8) : a.toNat.toUInt8 = a := by simp

theorem be4_val4 (a b c d : UInt8) : be4 (val4 a b c d) = [a, b, c, d] := by
  have ha := UInt8.toNat_lt a
  have hb := UInt8.toNat_lt b
  have hc := UInt8.toNat_lt c
  have hd := UInt8.toNat_lt d
  simp only [be4, val4]
  have e1 : (a.toNat * 16777216 + b.toNat * 65536 + c.toNat * 256 + d.toNat) / 16777216 % 256 = a.toNat := by omega
  have e2 : (a.toNat * 16777216 + b.toNat * 65536 + c.toNat * 256 + d.toNat) / 65536 % 256 = b.toNat := by omega
  have e3 : (a.toNat * 16777216 + b.toNat * 65536 + c.toNat * 256 + d.toNat) / 256 % 256 = c.toNat := by omega
  have e4 : (a.toNat * 16777216 + b.toNat * 65536 + c.toNat * 256 + d.toNat) % 256 = d.toNat := by omega
  rw [e1, e2, e3, e4]
  simp

theorem val4_le (a b c d : UInt8) : val4 a b c d ≤ 4294967295 := by
  have ha := UInt8.toNat_lt a
  have hb := UInt8.toNat_lt b
  have hc := UInt8.toNat_lt c
  have hd := UInt8.toNat_lt d
  simp only [val4]; omega

theorem a85_z (rest : Bytes) : a85Loop (122 :: rest) 0 0 = (a85Loop rest 0 0).map ([0, 0, 0, 0] ++ ·) := by
  rw [a85Loop]
  simp [A85_Z]

theorem a85Pad_succ (k buf : Nat) (h : buf * 85 + 84 ≤ 4294967295) :
    a85Pad (k + 1) buf = a85Pad k (buf * 85 + 84) := by
  simp only [a85Pad, A85_PAD]
  rw [a85Step_ok _ _ h]; rfl

theorem a85_step_div (w : Nat) (rest : Bytes) (c : Nat) (hc : c < 4) (hw : w ≤ 4294967295) :
    a85Loop (digit w :: rest) (w / 85) c = a85Loop rest w (c + 1) := by
  rw [a85Loop_digit_cont _ _ _ _ hc (by omega)]
  have : w / 85 * 85 + w % 85 = w := by omega
  rw [this]

/-- after the first two digits of a group the buffer is `v / 85^3` -/
theorem a85_pre2 (v : Nat) (hv : v ≤ 4294967295) (rest : Bytes) :
    a85Loop (digit (v / 52200625) :: digit (v / 614125) :: rest) 0 0 = a85Loop rest (v / 614125) 2 := by
  have d1 : v / 52200625 = v / 614125 / 85 := by rw [Nat.div_div_eq_div_mul]
  have z : (0 : Nat) = v / 52200625 / 85 := by omega
  conv => lhs; arg 2; rw [z]
  rw [a85_step_div _ _ _ (by omega) (by omega)]
  conv => lhs; arg 2; rw [d1]
  rw [a85_step_div _ _ _ (by omega) (by omega)]

theorem a85_pre3 (v : Nat) (hv : v ≤ 4294967295) (rest : Bytes) :
    a85Loop (digit (v / 52200625) :: digit (v / 614125) :: digit (v / 7225) :: rest) 0 0 = a85Loop rest (v / 7225) 3 := by
  rw [a85_pre2 v hv]
  have d1 : v / 614125 = v / 7225 / 85 := by rw [Nat.div_div_eq_div_mul]
  rw [d1, a85_step_div _ _ _ (by omega) (by omega)]

theorem a85_pre4 (v : Nat) (hv : v ≤ 4294967295) (rest : Bytes) :
    a85Loop (digit (v / 52200625) :: digit (v / 614125) :: digit (v / 7225) :: digit (v / 85) :: rest) 0 0
      = a85Loop rest (v / 85) 4 := by
  rw [a85_pre3 v hv]
  have d1 : v / 7225 = v / 85 / 85 := by rw [Nat.div_div_eq_div_mul]
  rw [d1, a85_step_div _ _ _ (by omega) (by omega)]

theorem a85_fin2 (q : Nat) (h : q * 614125 + 614124 ≤ 4294967295) :
    a85Loop [] q 2 = .ok ((be4 (q * 614125 + 614124)).take 1) := by
  rw [a85Loop]
  simp only [a85Finish, show (2 > 0) by omega, if_true, show 5 - 2 = 3 by omega]
  rw [a85Pad_succ _ _ (by omega), a85Pad_succ _ _ (by omega), a85Pad_succ _ _ (by omega)]
  have : ((q * 85 + 84) * 85 + 84) * 85 + 84 = q * 614125 + 614124 := by omega
  simp only [a85Pad, this]

theorem a85_fin3 (q : Nat) (h : q * 7225 + 7224 ≤ 4294967295) :
    a85Loop [] q 3 = .ok ((be4 (q * 7225 + 7224)).take 2) := by
  rw [a85Loop]
  simp only [a85Finish, show (3 > 0) by omega, if_true, show 5 - 3 = 2 by omega]
  rw [a85Pad_succ _ _ (by omega), a85Pad_succ _ _ (by omega)]
  have : (q * 85 + 84) * 85 + 84 = q * 7225 + 7224 := by omega
  simp only [a85Pad, this]

theorem a85_fin4 (q : Nat) (h : q * 85 + 84 ≤ 4294967295) :
    a85Loop [] q 4 = .ok ((be4 (q * 85 + 84)).take 3) := by
  rw [a85Loop]
  simp only [a85Finish, show (4 > 0) by omega, if_true, show 5 - 4 = 1 by omega]
  rw [a85Pad_succ _ _ (by omega)]
  simp only [a85Pad]

theorem pad_bounds (V D : Nat) (hD : 0 < D) : V ≤ V / D * D + (D - 1) ∧ V / D * D + (D - 1) < V + D := by
  have h1 := Nat.div_add_mod V D
  have h2 := Nat.mod_lt V hD
  have h3 : D * (V / D) = V / D * D := Nat.mul_comm _ _
  omega

theorem a85_part1 (a : UInt8) : a85Loop ((digits5 (val4 a 0 0 0)).take 2) 0 0 = .ok [a] := by
  have ha := UInt8.toNat_lt a
  have hv := val4_le a 0 0 0
  simp only [digits5, List.take]
  rw [a85_pre2 _ hv]
  have hv' : val4 a 0 0 0 = a.toNat * 16777216 := by simp [val4]
  obtain ⟨b1, b2⟩ := pad_bounds (val4 a 0 0 0) 614125 (by omega)
  simp only [show 614125 - 1 = 614124 by omega] at b1 b2
  rw [a85_fin2 _ (by omega)]
  simp only [be4, List.take]
  have e : (val4 a 0 0 0 / 614125 * 614125 + 614124) / 16777216 % 256 = a.toNat := by
    revert b1 b2; generalize val4 a 0 0 0 / 614125 * 614125 + 614124 = W; intro b1 b2; omega
  rw [e, toUInt8_toNat]

theorem a85_part2 (a b : UInt8) : a85Loop ((digits5 (val4 a b 0 0)).take 3) 0 0 = .ok [a, b] := by
  have ha := UInt8.toNat_lt a
  have hb := UInt8.toNat_lt b
  have hv := val4_le a b 0 0
  simp only [digits5, List.take]
  rw [a85_pre3 _ hv]
  have hv' : val4 a b 0 0 = a.toNat * 16777216 + b.toNat * 65536 := by simp [val4]
  obtain ⟨b1, b2⟩ := pad_bounds (val4 a b 0 0) 7225 (by omega)
  simp only [show 7225 - 1 = 7224 by omega] at b1 b2
  rw [a85_fin3 _ (by omega)]
  simp only [be4, List.take]
  have e : (val4 a b 0 0 / 7225 * 7225 + 7224) / 16777216 % 256 = a.toNat ∧
      (val4 a b 0 0 / 7225 * 7225 + 7224) / 65536 % 256 = b.toNat := by
    revert b1 b2; generalize val4 a b 0 0 / 7225 * 7225 + 7224 = W; intro b1 b2; omega
  rw [e.1, e.2, toUInt8_toNat, toUInt8_toNat]

theorem a85_part3 (a b c : UInt8) : a85Loop ((digits5 (val4 a b c 0)).take 4) 0 0 = .ok [a, b, c] := by
  have ha := UInt8.toNat_lt a
  have hb := UInt8.toNat_lt b
  have hc := UInt8.toNat_lt c
  have hv := val4_le a b c 0
  simp only [digits5, List.take]
  rw [a85_pre4 _ hv]
  have hv' : val4 a b c 0 = a.toNat * 16777216 + b.toNat * 65536 + c.toNat * 256 := by simp [val4]
  obtain ⟨b1, b2⟩ := pad_bounds (val4 a b c 0) 85 (by omega)
  simp only [show 85 - 1 = 84 by omega] at b1 b2
  rw [a85_fin4 _ (by omega)]
  simp only [be4, List.take]
  have e : (val4 a b c 0 / 85 * 85 + 84) / 16777216 % 256 = a.toNat ∧
      (val4 a b c 0 / 85 * 85 + 84) / 65536 % 256 = b.toNat ∧
      (val4 a b c 0 / 85 * 85 + 84) / 256 % 256 = c.toNat := by
    revert b1 b2; generalize val4 a b c 0 / 85 * 85 + 84 = W; intro b1 b2; omega
  rw [e.1, e.2.1, e.2.2, toUInt8_toNat, toUInt8_toNat, toUInt8_toNat]

theorem stripEod_encode (l : Bytes) : stripEod (l ++ EOD) = l := by
  simp [stripEod, EOD, A85_EOD]

theorem a85Loop_encGroups (x : Bytes) : a85Loop (encGroups x) 0 0 = .ok x := by
  induction x using encGroups.induct with
  | case1 a b c d rest ih =>
    rw [encGroups]
    split
    · rename_i h0
      have : [a, b, c, d] = [0, 0, 0, 0] := by rw [← be4_val4 a b c d, h0]; rfl
      simp only [List.cons_append, List.nil_append]
      rw [a85_z, ih]
      simp only [Outcome.map]
      injection this with h1 t1; injection t1 with h2 t2; injection t2 with h3 t3; injection t3 with h4 _
      simp [h1, h2, h3, h4]
    · rw [a85_full _ (val4_le a b c d), ih, be4_val4]
      simp [Outcome.map]
  | case2 a b c => rw [encGroups]; exact a85_part3 a b c
  | case3 a b => rw [encGroups]; exact a85_part2 a b
  | case4 a => rw [encGroups]; exact a85_part1 a
  | case5 => rw [encGroups, a85Loop]; simp [a85Finish]

/-- **ASCII85 round trip** -/
theorem a85_rt (x : Bytes) : a85Decode (encode x) = .ok x := by
  rw [a85Decode, encode, stripEod_encode, a85Loop_encGroups]
end Lopdf
