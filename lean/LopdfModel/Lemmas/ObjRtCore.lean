import LopdfModel.Lemmas.ObjRtRec
/-
  Object-level round trip, part 3: arrays and dictionaries by mutual structural induction
  with the stop-context invariant.
-/
namespace Lopdf.ObjRt
open Lopdf Gen

/-- the array / dictionary alternatives of `_direct_objects` -/
def compound (fuel depth : Nat) (inp : Bytes) : PRes Obj :=
  match inp with
  | 91 :: r =>
    if depth ≥ MAX_NESTING then .failure else
    (match manyObjects fuel (depth + 1) fuel (space r) with
     | none => .failure
     | some (items, r1) =>
       (match r1 with
        | 93 :: r2 => .ok (.arr items) r2
        | _ => .error))
  | 60 :: 60 :: r =>
    if depth ≥ MAX_NESTING then .failure else
    (match dictEntries fuel (depth + 1) fuel (space r) [] with
     | none => .failure
     | some (es, r1) =>
       (match r1 with
        | 62 :: 62 :: r2 => .ok (.dict es) r2
        | _ => .error))
  | _ => .error

theorem directObjects_compound (fuel depth : Nat) (inp : Bytes) (h : scalars true inp = none) :
    directObjects (fuel + 1) depth inp = compound fuel depth inp := by
  rw [directObjects.eq_def]
  simp only [scalars, if_true] at h
  simp only [compound]
  repeat' split at h
  all_goals (try simp_all)
  split <;> first | rfl | (split <;> simp_all)

/-- `]` / `>` end a `many0`: recoverable error -/
theorem directObject_close (fuel depth : Nat) (b : UInt8) (r : Bytes) (h : b = 93 ∨ b = 62) :
    directObject fuel depth (b :: r) = .error := by
  have : directObjects fuel depth (b :: r) = .error := by
    cases fuel with
    | zero => simp [directObjects]
    | succ f =>
      rw [directObjects_compound f depth _ (scalars_close_none true b r h)]
      rcases h with rfl | rfl
      · simp [compound]
      · unfold compound
        split
        · rename_i heq; injection heq with e _; exact absurd e (by decide)
        · rename_i heq; injection heq with e _; exact absurd e (by decide)
        · rfl
  simp [directObject, this]

theorem directObject_of (fuel depth : Nat) (inp : Bytes) (o : Obj) (r : Bytes)
    (h : directObjects fuel depth inp = .ok o r) : directObject fuel depth inp = .ok o (space r) := by
  simp [directObject, h]

theorem manyObjects_succ_ok (fuel depth n : Nat) (inp : Bytes) (o : Obj) (r : Bytes)
    (h : directObject fuel depth inp = .ok o r) :
    manyObjects fuel depth (n + 1) inp = (manyObjects fuel depth n r).map fun (os, r') => (o :: os, r') := by
  simp [manyObjects, h]

theorem manyObjects_error (fuel depth n : Nat) (inp : Bytes)
    (h : directObject fuel depth inp = .error) : manyObjects fuel depth n inp = some ([], inp) := by
  cases n with
  | zero => simp [manyObjects]
  | succ n => simp [manyObjects, h]

theorem dictEntries_succ_ok (fuel depth n : Nat) (inp : Bytes) (acc : Dict) (k r r' : Bytes) (v : Obj)
    (hk : pName inp = some (k, r)) (hv : directObject fuel depth (space r) = .ok v r') :
    dictEntries fuel depth (n + 1) inp acc = dictEntries fuel depth n r' (acc.set k v) := by
  simp [dictEntries, hk, hv]

theorem dictEntries_noname (fuel depth n : Nat) (inp : Bytes) (acc : Dict)
    (h : pName inp = none) : dictEntries fuel depth n inp acc = some (acc, inp) := by
  cases n with
  | zero => simp [dictEntries]
  | succ n => simp [dictEntries, h]

/- The mutual induction: objects, array item lists, dictionary entry lists. -/
mutual
theorem obj_core (L : Bytes → Prop) (hL : ∀ s, L s → LitOK s) :
    ∀ (o : Obj) (fuel depth : Nat) (rest : Bytes), WF L o → depth + height o ≤ MAX_NESTING →
      size o ≤ fuel → Follow true o rest →
      directObjects fuel depth (writeObj o ++ rest) = .ok (norm o) rest
  | .arr items, fuel, depth, rest, hwf, hh, hs, _ => by
    cases fuel with
    | zero => simp [size] at hs
    | succ f =>
      simp only [WF] at hwf
      simp only [height] at hh
      simp only [size] at hs
      have hin : writeObj (.arr items) ++ rest = 91 :: (writeArr true items ++ 93 :: rest) := by
        simp [writeObj]
      rw [hin, directObjects_compound f depth _ (scalars_arr_none true _)]
      have hsp : space (writeArr true items ++ 93 :: rest) = writeArr true items ++ 93 :: rest := by
        cases items with
        | nil => simpa [writeArr] using space_head (93 :: rest) ⟨93, rest, rfl, by decide, by decide⟩
        | cons o r =>
          simp only [WFL] at hwf
          rw [writeArr_cons]
          simp only [Bool.not_true, Bool.false_and, Bool.false_eq_true, if_false, List.nil_append, List.append_assoc]
          exact space_head _ (headTok_obj L o _ hwf.1)
      have hm := arr_core L hL items f (depth + 1) f rest hwf (by omega) (by omega)
        (by have := length_le_sizeL items; omega)
      have hd : ¬ depth ≥ MAX_NESTING := by omega
      simp only [compound, hd, if_false, hsp, hm, norm]
  | .dict es, fuel, depth, rest, hwf, hh, hs, _ => by
    cases fuel with
    | zero => simp [size] at hs
    | succ f =>
      simp only [WF] at hwf
      simp only [height] at hh
      simp only [size] at hs
      have hin : writeObj (.dict es) ++ rest = 60 :: 60 :: (writeDictBody es ++ 62 :: 62 :: rest) := by
        simp [writeObj]
      rw [hin, directObjects_compound f depth _ (scalars_dict_none true _)]
      have hsp := space_head _ (stop_dict es rest).2
      have hm := dict_core L hL es f (depth + 1) f rest [] hwf.2 (by omega) (by omega)
        (by have := length_le_sizeD es; omega)
      have hd : ¬ depth ≥ MAX_NESTING := by omega
      have hset : setAll [] (normD es) = normD es := by
        have := setAll_nodup (normD es) [] (by simpa [normD_keys] using hwf.1)
        simpa using this
      simp only [compound, hd, if_false, hsp, hm, norm, hset]
  | .null, fuel, depth, rest, hwf, _, hs, hf => by
    cases fuel with
    | zero => simp [size] at hs
    | succ f => exact directObjects_scalar f depth _ _ _ (scalar_core L hL true _ rest hwf rfl (by simp) hf)
  | .bool b, fuel, depth, rest, hwf, _, hs, hf => by
    cases fuel with
    | zero => simp [size] at hs
    | succ f => exact directObjects_scalar f depth _ _ _ (scalar_core L hL true _ rest hwf rfl (by simp) hf)
  | .int i, fuel, depth, rest, hwf, _, hs, hf => by
    cases fuel with
    | zero => simp [size] at hs
    | succ f => exact directObjects_scalar f depth _ _ _ (scalar_core L hL true _ rest hwf rfl (by simp) hf)
  | .real t, fuel, depth, rest, hwf, _, hs, hf => by
    cases fuel with
    | zero => simp [size] at hs
    | succ f => exact directObjects_scalar f depth _ _ _ (scalar_core L hL true _ rest hwf rfl (by simp) hf)
  | .name n, fuel, depth, rest, hwf, _, hs, hf => by
    cases fuel with
    | zero => simp [size] at hs
    | succ f => exact directObjects_scalar f depth _ _ _ (scalar_core L hL true _ rest hwf rfl (by simp) hf)
  | .str s fm, fuel, depth, rest, hwf, _, hs, hf => by
    cases fuel with
    | zero => simp [size] at hs
    | succ f => exact directObjects_scalar f depth _ _ _ (scalar_core L hL true _ rest hwf rfl (by simp) hf)
  | .ref n g, fuel, depth, rest, hwf, _, hs, hf => by
    cases fuel with
    | zero => simp [size] at hs
    | succ f => exact directObjects_scalar f depth _ _ _ (scalar_core L hL true _ rest hwf rfl (by simp) hf)
  | .stream es c, _, _, _, hwf, _, _, _ => by simp [WF] at hwf
theorem arr_core (L : Bytes → Prop) (hL : ∀ s, L s → LitOK s) :
    ∀ (items : List Obj) (fuel depth n : Nat) (rest : Bytes), WFL L items →
      depth + heightL items ≤ MAX_NESTING → sizeL items ≤ fuel → items.length ≤ n →
      manyObjects fuel depth n (writeArr true items ++ 93 :: rest) = some (normL items, 93 :: rest)
  | [], fuel, depth, n, rest, _, _, _, _ => by
    simpa [writeArr, normL] using manyObjects_error fuel depth n (93 :: rest)
      (directObject_close fuel depth 93 rest (Or.inl rfl))
  | o :: r, fuel, depth, n, rest, hwf, hh, hs, hn => by
    cases n with
    | zero => simp at hn
    | succ n =>
      simp only [WFL] at hwf
      simp only [heightL] at hh
      simp only [sizeL] at hs
      have hC := stop_arr L r rest hwf.2
      have ho := obj_core L hL o fuel depth (writeArr false r ++ 93 :: rest) hwf.1
        (by have := Nat.le_max_left (height o) (heightL r); omega) (by omega) (hC.follow true o)
      have hr := arr_core L hL r fuel depth n rest hwf.2
        (by have := Nat.le_max_right (height o) (heightL r); omega) (by omega) (by simpa using hn)
      have hin : writeArr true (o :: r) ++ 93 :: rest = writeObj o ++ (writeArr false r ++ 93 :: rest) := by
        rw [writeArr_cons]; simp
      rw [hin, manyObjects_succ_ok fuel depth n _ _ _ (directObject_of _ _ _ _ _ ho),
        space_arr L r rest hwf.2, hr]
      simp [normL]
theorem dict_core (L : Bytes → Prop) (hL : ∀ s, L s → LitOK s) :
    ∀ (es : List (Bytes × Obj)) (fuel depth n : Nat) (rest : Bytes) (acc : Dict), WFD L es →
      depth + heightD es ≤ MAX_NESTING → sizeD es ≤ fuel → es.length ≤ n →
      dictEntries fuel depth n (writeDictBody es ++ 62 :: 62 :: rest) acc =
        some (setAll acc (normD es), 62 :: 62 :: rest)
  | [], fuel, depth, n, rest, acc, _, _, _, _ => by
    simpa [writeDictBody, normD, setAll] using dictEntries_noname fuel depth n (62 :: 62 :: rest) acc
      (by simp [pName])
  | (k, v) :: r, fuel, depth, n, rest, acc, hwf, hh, hs, hn => by
    cases n with
    | zero => simp at hn
    | succ n =>
      simp only [WFD] at hwf
      simp only [heightD] at hh
      simp only [sizeD] at hs
      obtain ⟨hD, hDhead⟩ := stop_dict r rest
      have ho := obj_core L hL v fuel depth (writeDictBody r ++ 62 :: 62 :: rest) hwf.1
        (by have := Nat.le_max_left (height v) (heightD r); omega) (by omega) (hD.follow true v)
      have hr := dict_core L hL r fuel depth n rest (acc.set k (norm v)) hwf.2
        (by have := Nat.le_max_right (height v) (heightD r); omega) (by omega) (by simpa using hn)
      -- the key, then `space`, then the value
      have hkey : ∃ X, writeDictBody ((k, v) :: r) ++ 62 :: 62 :: rest = writeName k ++ X ∧ NameStop X ∧
          space X = writeObj v ++ (writeDictBody r ++ 62 :: 62 :: rest) := by
        rw [writeDictBody_cons]
        by_cases hsep : needSeparator v = true
        · refine ⟨32 :: (writeObj v ++ (writeDictBody r ++ 62 :: 62 :: rest)), by simp [hsep], ?_, ?_⟩
          · intro b r' e; injection e with e _; subst e; decide
          · exact space_sp_head _ (headTok_obj L v _ hwf.1)
        · have hsep' : needSeparator v = false := by simpa using hsep
          refine ⟨writeObj v ++ (writeDictBody r ++ 62 :: 62 :: rest), by simp [hsep'], ?_, ?_⟩
          · obtain ⟨b, r', e, h1, _, _⟩ := nosep_head L v (writeDictBody r ++ 62 :: 62 :: rest) hwf.1 hsep'
            intro b' r'' e'; rw [e] at e'; injection e' with e' _; subst e'; exact h1
          · exact space_head _ (headTok_obj L v _ hwf.1)
      obtain ⟨X, hX, hstop, hspX⟩ := hkey
      rw [hX, dictEntries_succ_ok fuel depth n _ acc k X _ (norm v) (name_rt k X hstop)
        (by rw [hspX]; exact directObject_of _ _ _ _ _ ho), space_head _ hDhead, hr]
      simp [normD, setAll]
end

end Lopdf.ObjRt
