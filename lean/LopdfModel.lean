-- Root of the `LopdfModel` library: everything that must build.
import LopdfModel.Gen.Consts
import LopdfModel.Gen.Tables
import LopdfModel.Model.Basic
import LopdfModel.Model.Obj
import LopdfModel.Model.Pages
import LopdfModel.Thm.C12
import LopdfModel.Gen.Crypt
import LopdfModel.Model.Crypt
import LopdfModel.Lemmas.Crypt
import LopdfModel.Spec.Hash
import LopdfModel.Spec.Aes
import LopdfModel.Spec.SecHandler
import LopdfModel.Thm.C05
import LopdfModel.Thm.C06
