-- Root of the `LopdfModel` library: everything that must build.
import LopdfModel.Gen.Consts
import LopdfModel.Gen.Tables
import LopdfModel.Model.Basic
import LopdfModel.Model.Obj
import LopdfModel.Model.Pages
import LopdfModel.Thm.C12
import LopdfModel.Model.Doc
import LopdfModel.Model.Renumber
import LopdfModel.Lemmas.Traverse
import LopdfModel.Lemmas.Move
import LopdfModel.Thm.C10
import LopdfModel.Model.Edit
import LopdfModel.Thm.C11
