-- Root of the `LopdfModel` library: everything that must build.
import LopdfModel.Gen.Consts
import LopdfModel.Gen.Tables
import LopdfModel.Model.Basic
import LopdfModel.Model.Obj
import LopdfModel.Model.Pages
import LopdfModel.Thm.C12
import LopdfModel.Gen.CMapConsts
import LopdfModel.Model.CMap
import LopdfModel.Model.CMapParse
import LopdfModel.Spec.CMapSpec
import LopdfModel.Lemmas.RangeMap
import LopdfModel.Lemmas.CMapBuild
import LopdfModel.Thm.C15
