-- Root of the `LopdfModel` library: everything that must build.
import LopdfModel.Gen.Consts
import LopdfModel.Gen.Tables
import LopdfModel.Model.Basic
import LopdfModel.Model.Obj
import LopdfModel.Model.Pages
import LopdfModel.Thm.C12
import LopdfModel.Model.Text
import LopdfModel.Spec.Utf16
import LopdfModel.Lemmas.Utf16
import LopdfModel.Lemmas.Text
import LopdfModel.Spec.Charts
import LopdfModel.Thm.C16
import LopdfModel.Model.Dates
import LopdfModel.Spec.PdfDate
import LopdfModel.Thm.C18
