-- Root of the `LopdfModel` library: everything that must build.
import LopdfModel.Gen.Consts
import LopdfModel.Gen.Tables
import LopdfModel.Gen.SitesC13
import LopdfModel.Model.Basic
import LopdfModel.Model.Obj
import LopdfModel.Model.Pages
import LopdfModel.Thm.C12
import LopdfModel.Model.Queries
import LopdfModel.Model.Outlines
import LopdfModel.Thm.C13
