-- Root of the `LopdfModel` library: everything that must build.
import LopdfModel.Gen.Consts
import LopdfModel.Gen.Tables
import LopdfModel.Model.Basic
import LopdfModel.Model.Obj
import LopdfModel.Model.Pages
import LopdfModel.Thm.C12
import LopdfModel.Gen.Crypt
import LopdfModel.Model.Crypt
