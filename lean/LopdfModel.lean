-- Root of the `LopdfModel` library: everything that must build.
import LopdfModel.Gen.Consts
import LopdfModel.Gen.Tables
import LopdfModel.Model.Basic
import LopdfModel.Model.Obj
import LopdfModel.Model.Pages
import LopdfModel.Thm.C12
import LopdfModel.Model.Write
import LopdfModel.Model.Parse
import LopdfModel.Model.File
import LopdfModel.Lemmas.Bytes
import LopdfModel.Lemmas.Lex
import LopdfModel.Thm.C01
import LopdfModel.Model.Content
import LopdfModel.Thm.C14
import LopdfModel.Lemmas.File
import LopdfModel.Thm.C03
