import LopdfModel.Model.Edit
namespace Lopdf
theorem t1 (os : Objects) (seen : List ObjId) (id : ObjId)
    (hs : seen.contains id = false) :
    decCounts os seen (some id) = os := by
  rw [decCounts]
  simp only [hs, Bool.false_eq_true, dite_false]
