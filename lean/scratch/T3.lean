import LopdfModel.Lemmas.Traverse
namespace Lopdf

theorem mem_pushRef_self (refs : List ObjId) (x : ObjId) : x ∈ pushRef refs x := by
  unfold pushRef; split
  · rename_i h; simpa using h
  · simp
theorem mem_pushRef_of_mem (refs : List ObjId) (x y : ObjId) (h : y ∈ refs) : y ∈ pushRef refs x := by
  unfold pushRef; split
  · exact h
  · simp [h]
theorem mem_pushRef (refs : List ObjId) (x y : ObjId) (h : y ∈ pushRef refs x) : y ∈ refs ∨ y = x := by
  unfold pushRef at h; split at h
  · exact Or.inl h
  · simpa using h

theorem mem_pushAll_of_mem (ids refs : List ObjId) (y : ObjId) (h : y ∈ refs) : y ∈ pushAll refs ids := by
  induction ids generalizing refs with
  | nil => simpa [pushAll]
  | cons x xs ih => simp only [pushAll, List.foldl_cons]; exact ih _ (mem_pushRef_of_mem _ _ _ h)
theorem mem_pushAll_ids (ids refs : List ObjId) (y : ObjId) (h : y ∈ ids) : y ∈ pushAll refs ids := by
  induction ids generalizing refs with
  | nil => simp at h
  | cons x xs ih =>
    simp only [pushAll, List.foldl_cons]
    rcases List.mem_cons.mp h with rfl | h
    · exact mem_pushAll_of_mem xs _ _ (mem_pushRef_self _ _)
    · exact ih _ h
theorem mem_pushAll (ids refs : List ObjId) (y : ObjId) (h : y ∈ pushAll refs ids) : y ∈ refs ∨ y ∈ ids := by
  induction ids generalizing refs with
  | nil => left; simpa [pushAll] using h
  | cons x xs ih =>
    simp only [pushAll, List.foldl_cons] at h
    rcases ih _ h with h | h
    · rcases mem_pushRef _ _ _ h with h | h
      · exact Or.inl h
      · right; simp [h]
    · right; simp [h]

theorem drop_index_cons (refs ext : List ObjId) (index : Nat) (hi : index < refs.length) :
    (refs ++ ext).drop index = refs[index] :: (refs ++ ext).drop (index + 1) := by
  have h : index < (refs ++ ext).length := by simp; omega
  rw [List.drop_eq_getElem_cons h]
  simp [List.getElem_append_left hi]

theorem not_mem_drop_succ (l : List ObjId) (index : Nat) (hn : l.Nodup) (hi : index < l.length) :
    l[index] ∉ l.drop (index + 1) := by
  intro hm
  rw [List.mem_iff_getElem] at hm
  obtain ⟨j, hj, e⟩ := hm
  simp at hj
  simp only [List.getElem_drop] at e
  have h2 : l[index + 1 + j]? = l[index]? := by
    rw [List.getElem?_eq_getElem (by omega), List.getElem?_eq_getElem hi, e]
  have := (List.getElem?_inj (by omega) hn).mp h2
  omega

/-- what the loop started at `(os, refs, index)` guarantees about its result `R` -/
def LoopSpec (a : Action) (os : Objects) (refs : List ObjId) (index : Nat) (R : Objects × List ObjId) : Prop :=
  (∃ ext, R.2 = refs ++ ext) ∧ R.2.Nodup ∧
  (∀ q, R.1.get q = if q ∈ R.2.drop index then (os.get q).map (deepObj a) else os.get q) ∧
  (∀ q ∈ R.2.drop index, ∀ o, os.get q = some o → ∀ x ∈ refsOf (deepObj a o), x ∈ R.2)

theorem loopSpec_some (a : Action) (os : Objects) (refs : List ObjId) (index : Nat)
    (hi : index < refs.length) (o : Obj) (hg : os.get refs[index] = some o) (R : Objects × List ObjId)
    (ih : LoopSpec a (os.set refs[index] (travObj a o refs).1) (travObj a o refs).2 (index + 1) R) :
    LoopSpec a os refs index R := by
  obtain ⟨⟨ext1, he1⟩, hnd, hget, hcl⟩ := ih
  obtain ⟨ext0, he0⟩ := travObj_prefix a o refs
  have heR : R.2 = refs ++ (ext0 ++ ext1) := by rw [he1, he0]; simp
  have hdrop : R.2.drop index = refs[index] :: R.2.drop (index + 1) := by
    rw [heR]; exact drop_index_cons refs _ index hi
  have hlen : index < R.2.length := by rw [heR]; simp; omega
  have hidx : R.2[index]'hlen = refs[index] := by
    simp [heR, List.getElem_append_left hi]
  have hnot : refs[index] ∉ R.2.drop (index + 1) := by
    have := not_mem_drop_succ R.2 index hnd hlen
    rwa [hidx] at this
  have hdeep : (travObj a o refs).1 = deepObj a o := by rw [(trav_eq a).1 o refs]
  have hrefs1 : (travObj a o refs).2 = pushAll refs (refsOf (deepObj a o)) := by rw [(trav_eq a).1 o refs]
  refine ⟨⟨ext0 ++ ext1, heR⟩, hnd, ?_, ?_⟩
  · intro q
    rw [hget q, hdrop, Objects.get_set, hdeep]
    by_cases hq : refs[index] = q
    · subst hq
      simp [hnot, hg]
    · have : q ≠ refs[index] := fun e => hq e.symm
      simp [hq, this]
  · intro q hq o2 ho2 x hx
    rw [hdrop] at hq
    rcases List.mem_cons.mp hq with rfl | hq
    · rw [hg] at ho2; cases ho2
      rw [he1, hrefs1]
      exact List.mem_append_left _ (mem_pushAll_ids _ _ _ hx)
    · have hne : refs[index] ≠ q := fun e => hnot (e ▸ hq)
      exact hcl q hq o2 (by rw [Objects.get_set]; simp [hne, ho2]) x hx

theorem loopSpec_none (a : Action) (os : Objects) (refs : List ObjId) (index : Nat)
    (hi : index < refs.length) (hg : os.get refs[index] = none) (R : Objects × List ObjId)
    (ih : LoopSpec a os refs (index + 1) R) : LoopSpec a os refs index R := by
  obtain ⟨⟨ext1, he1⟩, hnd, hget, hcl⟩ := ih
  have hdrop : R.2.drop index = refs[index] :: R.2.drop (index + 1) := by
    rw [he1]; exact drop_index_cons refs _ index hi
  refine ⟨⟨ext1, he1⟩, hnd, ?_, ?_⟩
  · intro q
    rw [hget q, hdrop]
    by_cases hq : q = refs[index]
    · subst hq; simp [hg]
    · simp [hq]
  · intro q hq o2 ho2 x hx
    rw [hdrop] at hq
    rcases List.mem_cons.mp hq with rfl | hq
    · rw [hg] at ho2; cases ho2
    · exact hcl q hq o2 ho2 x hx

/-- Specification of the work-list loop. -/
theorem travLoop_spec (a : Action) (os : Objects) (refs : List ObjId) (index : Nat) (hn : refs.Nodup) :
    LoopSpec a os refs index (travLoop a os refs index hn) := by
  induction os, refs, index, hn using travLoop.induct (a := a) with
  | case1 os refs index hn hi o hg ih =>
    rw [travLoop]; simp only [hi, dite_true]
    split
    · rename_i o' hg'
      have : o' = o := by rw [hg] at hg'; exact (Option.some.inj hg').symm
      subst this
      exact loopSpec_some a os refs index hi o' hg _ ih
    · rename_i hg'; rw [hg] at hg'; cases hg'
  | case2 os refs index hn hi hg ih =>
    rw [travLoop]; simp only [hi, dite_true]
    split
    · rename_i o' hg'; rw [hg] at hg'; cases hg'
    · exact loopSpec_none a os refs index hi hg _ ih
  | case3 os refs index hn hi =>
    rw [travLoop]; simp only [hi, dite_false]
    have : refs.drop index = [] := by apply List.drop_eq_nil_of_le; omega
    refine ⟨⟨[], by simp⟩, hn, ?_, ?_⟩
    · intro q; simp [this]
    · intro q hq; simp [this] at hq
