import LopdfModel.Lemmas.Move
namespace Lopdf

def Outcome.toOption {α} : Outcome α → Option α
  | .ok a => some a
  | _ => none

private def nm (s : String) : Bytes := s.toUTF8.toList
/-- ids 1..5: catalog 1, page 2, pages-root 3, page 4, info 5; one bookmark on page (2,0) -/
def wdoc : Doc :=
  { trailer := [(ROOT, .ref 1 0), ([73,110,102,111], .ref 5 0)],
    objects := [((1,0), .dict [(TYPE, .name [67,97,116,97,108,111,103]), (PAGES, .ref 3 0)]),
                ((2,0), .dict [(TYPE, .name PAGE), ([80,97,114,101,110,116], .ref 3 0)]),
                ((3,0), .dict [(TYPE, .name PAGES), (KIDS, .arr [.ref 2 0, .ref 4 0])]),
                ((4,0), .dict [(TYPE, .name PAGE), ([80,97,114,101,110,116], .ref 3 0)]),
                ((5,0), .dict [])],
    maxId := 5, bookmarks := [1], bmTable := [(1, { children := [], page := (2,0) })] }

theorem wdoc_pairs : densePairs (sortBy idLe wdoc.objects.keys) 2 [] =
    some ([((1,0),(2,0)), ((2,0),(3,0)), ((3,0),(4,0)), ((4,0),(5,0)), ((5,0),(6,0))], 7) := by decide

/-- **F-C10-a (counter-witness).** Dense pass with start 2 on ids 1..5: the page object (2,0) moves to
(3,0) (`replace` maps (2,0) ↦ (3,0)), but the bookmark that pointed at page (2,0) ends at (6,0):
`renumber_bookmarks` is applied pair by pair and each new id is the next pair's old id. -/
theorem bookmark_chain_witness :
    ((densePass wdoc 2).toOption.bind fun d' => (d'.bmTable.get 1).map (·.page)) = some (6, 0) ∧
    lookupId [((1,0),(2,0)), ((2,0),(3,0)), ((3,0),(4,0)), ((4,0),(5,0)), ((5,0),(6,0))] (2,0) = some (3,0) := by
  constructor
  · unfold densePass
    rw [wdoc_pairs]
    simp only [Outcome.toOption]
    decide
  · decide
