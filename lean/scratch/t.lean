import LopdfModel.Model.Basic
open Lopdf
example : (strBytes "<" : List UInt8) = [60] := by rfl
example : (strBytes "<" : List UInt8) = [60] := by decide +kernel
example : (strBytes "beginbfchar" : List UInt8) = [98,101,103,105,110,98,102,99,104,97,114] := by decide +kernel
example : (strBytes "<" : List UInt8) = [60] := by simp [strBytes]
