import LopdfModel.Lemmas.Text
namespace Lopdf
open Gen
example : strBytes "Tf" = [84, 102] := by decide
example : strBytes "Tf" = [84, 102] := by rfl
example : OP_TF ≠ OP_TJ := by decide
example : lookupName (strBytes "WinAnsiEncoding") FONT_ENCODINGS = some WIN_ANSI_ENCODING := by decide +kernel
