
/-! ### the dense pass -/

/-- the pairs the dense pass records: ids whose number changes -/
def denseSpec : List ObjId → Nat → List (ObjId × ObjId)
  | [], _ => []
  | id :: rest, s => (if id.1 ≠ s then [(id, (s, id.2))] else []) ++ denseSpec rest (s + 1)

/-- the complete assignment old id ↦ new id of the dense pass -/
def assign : List ObjId → Nat → List (ObjId × ObjId)
  | [], _ => []
  | id :: rest, s => (id, (s, id.2)) :: assign rest (s + 1)

theorem densePairs_eq (ids : List ObjId) (s : Nat) (acc : List (ObjId × ObjId)) (h : s + ids.length ≤ U32_MAX) :
    densePairs ids s acc = some (acc ++ denseSpec ids s, s + ids.length) := by
  induction ids generalizing s acc with
  | nil => simp [densePairs, denseSpec]
  | cons id rest ih =>
    simp only [List.length_cons] at h
    have h1 : ¬ (s + 1 > U32_MAX) := by omega
    simp only [densePairs, h1, if_false]
    rw [ih (s + 1) _ (by omega)]
    simp only [denseSpec, List.length_cons]
    by_cases hid : id.1 = s
    · simp [hid]; omega
    · simp [hid]; omega

theorem assign_numbers (ids : List ObjId) (s : Nat) :
    (assign ids s).map (fun p => p.2.1) = List.range' s ids.length := by
  induction ids generalizing s with
  | nil => simp [assign]
  | cons id rest ih => simp [assign, ih, List.range'_succ]

theorem assign_gen (ids : List ObjId) (s : Nat) : ∀ p ∈ assign ids s, p.2.2 = p.1.2 := by
  induction ids generalizing s with
  | nil => simp [assign]
  | cons id rest ih =>
    intro p hp; simp only [assign, List.mem_cons] at hp
    rcases hp with rfl | hp
    · rfl
    · exact ih _ p hp

theorem assign_ge (ids : List ObjId) (s : Nat) : ∀ p ∈ assign ids s, s ≤ p.2.1 := by
  induction ids generalizing s with
  | nil => simp [assign]
  | cons id rest ih =>
    intro p hp; simp only [assign, List.mem_cons] at hp
    rcases hp with rfl | hp
    · simp
    · have := ih _ p hp; omega

theorem assign_olds (ids : List ObjId) (s : Nat) : (assign ids s).map (·.1) = ids := by
  induction ids generalizing s with
  | nil => simp [assign]
  | cons id rest ih => simp [assign, ih]

/-- one number, one object -/
theorem assign_inj (ids : List ObjId) (s : Nat) : ∀ p ∈ assign ids s, ∀ q ∈ assign ids s, p.2.1 = q.2.1 → p = q := by
  induction ids generalizing s with
  | nil => simp [assign]
  | cons id rest ih =>
    intro p hp q hq e
    simp only [assign, List.mem_cons] at hp hq
    rcases hp with rfl | hp <;> rcases hq with rfl | hq
    · rfl
    · have := assign_ge rest (s + 1) q hq; simp at e; omega
    · have := assign_ge rest (s + 1) p hp; simp at e; omega
    · exact ih _ p hp q hq e

theorem denseSpec_sub (ids : List ObjId) (s : Nat) : ∀ p ∈ denseSpec ids s, p ∈ assign ids s ∧ p.1.1 ≠ p.2.1 := by
  induction ids generalizing s with
  | nil => simp [denseSpec]
  | cons id rest ih =>
    intro p hp
    simp only [denseSpec, List.mem_append] at hp
    rcases hp with hp | hp
    · split at hp
      · simp at hp; subst hp; simp [assign]; assumption
      · simp at hp
    · have := ih _ p hp; simp [assign, this]

theorem denseSpec_mem (ids : List ObjId) (s : Nat) : ∀ p ∈ assign ids s, p.1.1 ≠ p.2.1 → p ∈ denseSpec ids s := by
  induction ids generalizing s with
  | nil => simp [assign]
  | cons id rest ih =>
    intro p hp hne
    simp only [assign, List.mem_cons] at hp
    simp only [denseSpec, List.mem_append]
    rcases hp with rfl | hp
    · left; simp at hne; simp [hne]
    · right; exact ih _ p hp hne

theorem srcOf_mem (l : List (ObjId × ObjId)) (k o : ObjId) (h : srcOf l k = some o) : (o, k) ∈ l := by
  induction l with
  | nil => simp [srcOf] at h
  | cons q l ihl =>
    simp only [srcOf] at h
    cases hq : srcOf l k with
    | some o' => rw [hq] at h; simp at h; subst h; simp [ihl hq]
    | none =>
      rw [hq] at h; simp at h
      obtain ⟨a, b⟩ := q
      simp at h; simp [← h.1, ← h.2]

theorem srcOf_some_of_mem (l : List (ObjId × ObjId)) (k o : ObjId) (h : (o, k) ∈ l) : ∃ o', srcOf l k = some o' := by
  induction l with
  | nil => simp at h
  | cons q l ihl =>
    simp only [srcOf]
    rcases List.mem_cons.mp h with rfl | h
    · cases srcOf l k <;> simp
    · obtain ⟨o', ho'⟩ := ihl h; simp [ho']
