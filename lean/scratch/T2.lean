import LopdfModel.Model.Doc
namespace Lopdf

theorem pushRef_prefix (refs : List ObjId) (id : ObjId) : ∃ ext, pushRef refs id = refs ++ ext := by
  unfold pushRef; split
  · exact ⟨[], by simp⟩
  · exact ⟨[id], rfl⟩

theorem pushRef_nodup (refs : List ObjId) (id : ObjId) (h : refs.Nodup) : (pushRef refs id).Nodup := by
  unfold pushRef; split
  · exact h
  · rename_i hc
    rw [List.nodup_append]
    refine ⟨h, by simp, ?_⟩
    intro a ha b hb
    simp at hb; subst hb
    intro e; subst e
    exact hc (by simpa using ha)

theorem pushAll_prefix (ids refs : List ObjId) : ∃ ext, pushAll refs ids = refs ++ ext := by
  induction ids generalizing refs with
  | nil => exact ⟨[], by simp [pushAll]⟩
  | cons x xs ih =>
    obtain ⟨e1, h1⟩ := pushRef_prefix refs x
    obtain ⟨e2, h2⟩ := ih (pushRef refs x)
    refine ⟨e1 ++ e2, ?_⟩
    simp only [pushAll, List.foldl_cons] at *
    rw [h2, h1]; simp

theorem pushAll_nodup (ids refs : List ObjId) (h : refs.Nodup) : (pushAll refs ids).Nodup := by
  induction ids generalizing refs with
  | nil => simpa [pushAll]
  | cons x xs ih =>
    simp only [pushAll, List.foldl_cons]
    exact ih _ (pushRef_nodup refs x h)

theorem travObj_prefix (a : Action) (o : Obj) (refs : List ObjId) : ∃ ext, (travObj a o refs).2 = refs ++ ext := by
  rw [(trav_eq a).1 o refs]; exact pushAll_prefix _ _
theorem travObj_nodup (a : Action) (o : Obj) (refs : List ObjId) (h : refs.Nodup) : (travObj a o refs).2.Nodup := by
  rw [(trav_eq a).1 o refs]; exact pushAll_nodup _ _ h
theorem travDict_prefix (a : Action) (d : Dict) (refs : List ObjId) : ∃ ext, (travDict a d refs).2 = refs ++ ext := by
  rw [(trav_eq a).2.1 d refs]; exact pushAll_prefix _ _
theorem travDict_nodup (a : Action) (d : Dict) (refs : List ObjId) (h : refs.Nodup) : (travDict a d refs).2.Nodup := by
  rw [(trav_eq a).2.1 d refs]; exact pushAll_nodup _ _ h

/-- number of objects whose id has not been processed yet -/
def unvisited (os : Objects) (done : List ObjId) : Nat :=
  (os.keys.filter (fun k => !done.contains k)).length

theorem Objects.keys_set (os : Objects) (k : ObjId) (v : Obj) : (os.set k v).keys = os.keys := by
  induction os with
  | nil => rfl
  | cons p rest ih =>
    obtain ⟨k', v'⟩ := p
    simp only [Objects.set, Objects.keys] at *
    split <;> simp [ih]

theorem Objects.mem_keys_of_get {os : Objects} {k : ObjId} {v : Obj} (h : os.get k = some v) : k ∈ os.keys := by
  induction os with
  | nil => simp [Objects.get] at h
  | cons p rest ih =>
    obtain ⟨k', v'⟩ := p
    simp only [Objects.get] at h
    simp only [Objects.keys, List.map_cons, List.mem_cons]
    split at h
    · rename_i e; exact Or.inl e.symm
    · exact Or.inr (ih h)

theorem filter_length_le {α} (l : List α) (p q : α → Bool) (himp : ∀ y, q y = true → p y = true) :
    (l.filter q).length ≤ (l.filter p).length := by
  induction l with
  | nil => simp
  | cons z zs ihz =>
    simp only [List.filter_cons]
    cases hqz : q z
    · cases hpz : p z <;> simp <;> omega
    · simp [himp z hqz]; exact ihz

theorem filter_length_lt {α} (l : List α) (p q : α → Bool) (x : α) (hx : x ∈ l)
    (hp : p x = true) (hq : q x = false) (himp : ∀ y, q y = true → p y = true) :
    (l.filter q).length < (l.filter p).length := by
  induction l with
  | nil => simp at hx
  | cons y ys ih =>
    have hle := filter_length_le ys p q himp
    simp only [List.mem_cons] at hx
    simp only [List.filter_cons]
    rcases hx with rfl | hx
    · simp [hp, hq]; omega
    · have := ih hx
      cases hqy : q y
      · cases hpy : p y <;> simp <;> omega
      · simp [himp y hqy]; exact this

theorem unvisited_lt (os : Objects) (refs : List ObjId) (index : Nat) (hn : refs.Nodup)
    (hi : index < refs.length) (hk : refs[index] ∈ os.keys) (refs' : List ObjId) (ext : List ObjId)
    (he : refs' = refs ++ ext) (os' : Objects) (hkeys : os'.keys = os.keys) :
    unvisited os' (refs'.take (index + 1)) < unvisited os (refs.take index) := by
  unfold unvisited
  rw [hkeys]
  subst he
  have htake : (refs ++ ext).take (index + 1) = refs.take (index + 1) := by
    rw [List.take_append_of_le_length (by omega)]
  rw [htake]
  apply filter_length_lt _ _ _ refs[index] hk
  · -- not yet processed
    simp only [Bool.not_eq_true', List.contains_eq_mem, decide_eq_false_iff_not]
    intro hm
    rw [List.mem_take_iff_getElem] at hm
    obtain ⟨j, hj, hjeq⟩ := hm
    have hjl : j < refs.length := by omega
    have h2 : refs[j]? = refs[index]? := by
      rw [List.getElem?_eq_getElem hjl, List.getElem?_eq_getElem hi]
      rw [hjeq]
    have := (List.getElem?_inj hjl hn).mp h2
    omega
  · simp only [Bool.not_eq_false', List.contains_eq_mem, decide_eq_true_eq]
    rw [List.mem_take_iff_getElem]
    exact ⟨index, by omega, rfl⟩
  · intro y hy
    simp only [Bool.not_eq_true', List.contains_eq_mem, decide_eq_false_iff_not] at *
    intro hm; apply hy
    rw [List.mem_take_iff_getElem] at hm ⊢
    obtain ⟨j, hj, e⟩ := hm
    exact ⟨j, by omega, e⟩
