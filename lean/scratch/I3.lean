
theorem lookupId_mem (m : List (ObjId × ObjId)) (k v : ObjId) (h : lookupId m k = some v) : (k, v) ∈ m := by
  induction m with
  | nil => simp [lookupId] at h
  | cons p rest ih =>
    obtain ⟨a, b⟩ := p
    simp only [lookupId] at h
    by_cases e : a = k
    · simp [e] at h; simp [e, h]
    · simp [e] at h; simp [ih h]

theorem lookupId_none (m : List (ObjId × ObjId)) (k : ObjId) (h : k ∉ m.map (·.1)) : lookupId m k = none := by
  induction m with
  | nil => rfl
  | cons p rest ih =>
    obtain ⟨a, b⟩ := p
    simp only [List.map_cons, List.mem_cons, not_or] at h
    have : ¬ a = k := fun e => h.1 e.symm
    simp [lookupId, this, ih h.2]

theorem lookupId_some (m : List (ObjId × ObjId)) (k : ObjId) (h : k ∈ m.map (·.1)) : ∃ v, lookupId m k = some v := by
  induction m with
  | nil => simp at h
  | cons p rest ih =>
    obtain ⟨a, b⟩ := p
    simp only [lookupId]
    by_cases e : a = k
    · simp [e]
    · simp only [e, if_false]; apply ih
      simp only [List.map_cons, List.mem_cons] at h
      rcases h with h | h
      · exact absurd h.symm e
      · exact h

theorem eq_of_nodup_map_snd {l : List (ObjId × ObjId)} (hn : (l.map (·.2)).Nodup) {p q : ObjId × ObjId}
    (hp : p ∈ l) (hq : q ∈ l) (e : p.2 = q.2) : p = q := by
  induction l with
  | nil => simp at hp
  | cons x xs ih =>
    simp only [List.map_cons, List.nodup_cons] at hn
    rcases List.mem_cons.mp hp with rfl | hp' <;> rcases List.mem_cons.mp hq with rfl | hq'
    · rfl
    · exact absurd (e ▸ List.mem_map_of_mem hq') hn.1
    · exact absurd (e ▸ List.mem_map_of_mem hp') hn.1
    · exact ih hn.2 hp' hq'

/-- **C10, one renaming pass is an isomorphism (partial: explicit guards).**  For pairs `old ↦ new` with
distinct existing old ids, distinct new ids, and no new id equal to a key that stays: after moving the
objects and traversing with the rename action, the trailer is the original with every reference renamed
by `rho`, and the object of every old id `old` sits at `rho old` — renamed by `rho` when the traversal
reached it, untouched otherwise.  No object is lost, none is duplicated. -/
theorem rename_pass_iso_partial (bks : List Nat) (os : Objects) (bm : BmTable) (tr : Dict) (pairs : List (ObjId × ObjId))
    (h1 : (pairs.map (·.1)).Nodup) (h2 : ∀ p ∈ pairs, os.get p.1 ≠ none)
    (h3 : (pairs.map (·.2)).Nodup)
    (h4 : ∀ p ∈ pairs, ∀ k, (os.get k).isSome → k ∉ pairs.map (·.1) → p.2 ≠ k) :
    (traverse (renameAct (movePass bks os bm pairs).replace) tr (movePass bks os bm pairs).objects).1
        = mapRefsD (rhoFn pairs) tr ∧
    ∀ old o, os.get old = some o →
      (traverse (renameAct (movePass bks os bm pairs).replace) tr (movePass bks os bm pairs).objects).2.1.get (rhoFn pairs old)
        = some (if rhoFn pairs old ∈
                    (traverse (renameAct (movePass bks os bm pairs).replace) tr (movePass bks os bm pairs).objects).2.2
                then mapRefs (rhoFn pairs) o else o) := by
  obtain ⟨hget, hrep⟩ := movePass_get bks os bm pairs h1 h2
  rw [hrep]
  obtain ⟨v1, v2, v3⟩ := traverse_visits_once (renameAct pairs) tr (movePass bks os bm pairs).objects
  refine ⟨by rw [v1, (deep_rename pairs).2.1], ?_⟩
  intro old o ho
  have hmoved : (movePass bks os bm pairs).objects.get (rhoFn pairs old) = some o := by
    rw [hget]
    by_cases hin : old ∈ pairs.map (·.1)
    · obtain ⟨new, hnew⟩ := lookupId_some pairs old hin
      have hmem := lookupId_mem pairs old new hnew
      have hr : rhoFn pairs old = new := by simp [rhoFn, hnew]
      rw [hr]
      obtain ⟨o', ho'⟩ := srcOf_some_of_mem pairs new old hmem
      have := eq_of_nodup_map_snd h3 (srcOf_mem _ _ _ ho') hmem rfl
      simp at this
      rw [ho', this]; exact ho
    · have hr : rhoFn pairs old = old := by simp [rhoFn, lookupId_none pairs old hin]
      rw [hr]
      cases hs : srcOf pairs old with
      | some o' =>
        exact absurd rfl (h4 _ (srcOf_mem _ _ _ hs) old (by simp [ho]) hin)
      | none => simp [hin, ho]
  rw [v3, hmoved]
  split <;> simp [(deep_rename pairs).1]

example : (([((5,0),(2,0))] : List (ObjId × ObjId)).map (·.1)).Nodup ∧ (([((5,0),(2,0))] : List (ObjId × ObjId)).map (·.2)).Nodup := by decide
