
/-- F-C10-c: outside `1 ≤ start + n` the code panics (`new_id - 1` on an empty document with start 0) -/
theorem start0_empty_panics (tr : Dict) (bks : List Nat) (bm : BmTable) (m : Nat) :
    densePass ⟨tr, [], m, bks, bm⟩ 0 = .panic "sub" := by
  simp [densePass, densePairs, sortBy, Objects.keys]

/-- F-C10-c: `new_id += 1` overflows when `start + n > u32::MAX`, even though every assigned id fits -/
theorem overflow_panics : densePass wdoc (U32_MAX - 4) = .panic "add" := by
  have : densePairs (sortBy idLe wdoc.objects.keys) (U32_MAX - 4) [] = none := by decide
  simp [densePass, this]

/-- **F-C10-b (counter-witness).** Objects 1,2,3,4,8 and a dangling `5 0 R`: the reference resolves to
nothing before; the rename action leaves it as it is; after the dense pass (start 1) id (5,0) holds an object. -/
def wdoc2 : Doc :=
  { wdoc with objects := [((1,0), .dict [(TYPE, .name [67,97,116,97,108,111,103]), (PAGES, .ref 3 0), ([68], .ref 5 0)]),
                ((2,0), .dict [(TYPE, .name PAGE)]), ((3,0), .dict [(TYPE, .name PAGES), (KIDS, .arr [.ref 2 0, .ref 4 0])]),
                ((4,0), .dict [(TYPE, .name PAGE)]), ((8,0), .dict [])],
              maxId := 8, bookmarks := [], bmTable := [] }

theorem dangling_capture_witness :
    wdoc2.objects.get (5, 0) = none ∧
    (∃ pairs n, densePairs (sortBy idLe wdoc2.objects.keys) 1 [] = some (pairs, n) ∧
        (renameFn pairs (.ref 5 0)).asRef = some (5, 0)) ∧
    ∃ d', densePass wdoc2 1 = .ok d' ∧ (d'.objects.get (5, 0)).isSome := by
  refine ⟨by decide, ⟨[((8,0),(5,0))], 6, by decide, by decide⟩, ?_⟩
  obtain ⟨d', h1, _, _, h4⟩ := renumber_dense wdoc2 1 (by decide) (by decide) (by decide)
  exact ⟨d', h1, (h4 (5,0)).mpr (by decide)⟩

/-! ### bookmarks: what is true, and when -/

/-- what `renumber_bookmarks` called pair by pair does to one bookmark target -/
def seqRename (pairs : List (ObjId × ObjId)) (p : ObjId) : ObjId :=
  pairs.foldl (fun p on => if p = on.1 then on.2 else p) p

/-- what it should do: the renaming itself -/
def rhoFn (pairs : List (ObjId × ObjId)) (p : ObjId) : ObjId := (lookupId pairs p).getD p

/-- no new id is the old id of a later pair -/
def NoChain : List (ObjId × ObjId) → Prop
  | [] => True
  | on :: rest => on.2 ∉ rest.map (·.1) ∧ NoChain rest

def NoChain.dec : (l : List (ObjId × ObjId)) → Decidable (NoChain l)
  | [] => isTrue trivial
  | on :: rest =>
    match NoChain.dec rest with
    | isTrue h2 => if h1 : on.2 ∉ rest.map (·.1) then isTrue ⟨h1, h2⟩ else isFalse (fun h => h1 h.1)
    | isFalse h2 => isFalse (fun h => h2 h.2)
instance : DecidablePred NoChain := NoChain.dec

theorem seqRename_fix (pairs : List (ObjId × ObjId)) (p : ObjId) (h : p ∉ pairs.map (·.1)) : seqRename pairs p = p := by
  induction pairs with
  | nil => rfl
  | cons on rest ih =>
    simp only [List.map_cons, List.mem_cons, not_or] at h
    simp only [seqRename, List.foldl_cons, h.1, if_false]
    exact ih h.2

/-- **C10, bookmarks (partial).** When no new id equals a later old id, renaming pair by pair is the
renaming: a bookmark target `p` ends at `rho p`. (False without the guard: `bookmark_chain_witness`.) -/
theorem bookmark_seq_partial (pairs : List (ObjId × ObjId)) (h : NoChain pairs) (p : ObjId) :
    seqRename pairs p = rhoFn pairs p := by
  induction pairs generalizing p with
  | nil => rfl
  | cons on rest ih =>
    obtain ⟨o, n⟩ := on
    simp only [NoChain] at h
    simp only [seqRename, List.foldl_cons, rhoFn, lookupId]
    by_cases e : p = o
    · subst e; simp only [if_true, Option.getD_some]
      exact seqRename_fix rest n h.1
    · have e' : ¬ o = p := fun x => e x.symm
      simp only [e, e', if_false]
      exact ih h.2 p

example : NoChain [((5,0),(2,0)), ((9,0),(3,0))] := by decide
example : ¬ NoChain [((1,0),(2,0)), ((2,0),(3,0))] := by decide
example : seqRename [((1,0),(2,0)), ((2,0),(3,0))] (1,0) = (3,0) ∧ rhoFn [((1,0),(2,0)), ((2,0),(3,0))] (1,0) = (2,0) := by decide

/-- the model's bookmark update on a table of root bookmarks without children is `seqRename` of the target -/
theorem updatePages_single (t : Nat) (pg old new : ObjId) :
    renumberBookmarks [t] [(t, { children := [], page := pg })] old new =
      [(t, { children := [], page := if pg = old then new else pg })] := by
  simp [renumberBookmarks, updatePages, BmTable.get, BmTable.setPage]
  split <;> simp_all
