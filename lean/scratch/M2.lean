
theorem idLt_iff (a b : ObjId) : idLt a b = true ↔ (a.1 < b.1 ∨ (a.1 = b.1 ∧ a.2 < b.2)) := by
  simp [idLt]
theorem idLt_trans {a b c : ObjId} (h1 : idLt a b = true) (h2 : idLt b c = true) : idLt a c = true := by
  rw [idLt_iff] at *; omega
theorem idLt_irrefl (a : ObjId) : idLt a a = false := by
  cases h : idLt a a
  · rfl
  · rw [idLt_iff] at h; omega
theorem idLt_total {a b : ObjId} (h1 : idLt a b = false) (h2 : b ≠ a) : idLt b a = true := by
  have : ¬ (idLt a b = true) := by simp [h1]
  rw [idLt_iff] at *
  have : ¬ (b.1 = a.1 ∧ b.2 = a.2) := fun e => h2 (Prod.ext e.1 e.2)
  omega

/-- keys strictly increasing -/
def Objects.Sorted (os : Objects) : Prop := os.keys.Pairwise (fun a b => idLt a b = true)

theorem Objects.mem_keys_insert (os : Objects) (k : ObjId) (v : Obj) (q : ObjId)
    (h : q ∈ (os.insert k v).keys) : q = k ∨ q ∈ os.keys := by
  induction os with
  | nil => simp [Objects.insert, Objects.keys] at h; exact Or.inl h
  | cons p rest ih =>
    obtain ⟨k0, v0⟩ := p
    simp only [Objects.insert] at h
    by_cases h1 : k0 = k
    · subst h1; simp [Objects.keys] at h ⊢; rcases h with h' | h' <;> simp [h']
    · simp only [h1, if_false] at h
      by_cases h2 : idLt k k0 = true
      · simp [h2, Objects.keys] at h ⊢; rcases h with h' | h' | h' <;> simp [h']
      · have h2' : idLt k k0 = false := by simpa using h2
        simp only [h2', Bool.false_eq_true, if_false] at h
        simp only [Objects.keys, List.map_cons, List.mem_cons] at h ⊢
        rcases h with h3 | h3
        · exact Or.inr (Or.inl h3)
        · rcases ih h3 with h4 | h4
          · exact Or.inl h4
          · exact Or.inr (Or.inr h4)

theorem Objects.sorted_insert (os : Objects) (k : ObjId) (v : Obj) (hs : os.Sorted) : (os.insert k v).Sorted := by
  induction os with
  | nil => simp [Objects.insert, Objects.Sorted, Objects.keys]
  | cons p rest ih =>
    obtain ⟨k0, v0⟩ := p
    unfold Objects.Sorted at hs ⊢
    simp only [Objects.keys, List.map_cons, List.pairwise_cons] at hs
    simp only [Objects.insert]
    by_cases h1 : k0 = k
    · subst h1; simp only [if_true, Objects.keys, List.map_cons, List.pairwise_cons]; exact hs
    · simp only [h1, if_false]
      by_cases h2 : idLt k k0 = true
      · simp only [h2, if_true, Objects.keys, List.map_cons, List.pairwise_cons]
        refine ⟨?_, hs⟩
        intro a ha
        rcases List.mem_cons.mp ha with rfl | ha
        · exact h2
        · exact idLt_trans h2 (hs.1 a ha)
      · have h2' : idLt k k0 = false := by simpa using h2
        simp only [h2', Bool.false_eq_true, if_false, Objects.keys, List.map_cons, List.pairwise_cons]
        refine ⟨?_, ih hs.2⟩
        intro a ha
        rcases Objects.mem_keys_insert rest k v a ha with rfl | ha
        · exact idLt_total h2' h1
        · exact hs.1 a ha

theorem Objects.get_none_of_not_mem (os : Objects) (k : ObjId) (h : k ∉ os.keys) : os.get k = none := by
  induction os with
  | nil => rfl
  | cons p rest ih =>
    obtain ⟨k0, v0⟩ := p
    simp only [Objects.keys, List.map_cons, List.mem_cons, not_or] at h
    simp only [Objects.get]
    have : ¬ k0 = k := fun e => h.1 e.symm
    simp [this]; exact ih h.2

/-- re-inserting a sorted map: its entries win, everything else is kept -/
theorem Objects.get_foldl_insert (l : Objects) (acc : Objects) (hs : l.Sorted) (k : ObjId) :
    (l.foldl (fun acc kv => acc.insert kv.1 kv.2) acc).get k =
      match l.get k with
      | some v => some v
      | none => acc.get k := by
  induction l generalizing acc with
  | nil => simp [Objects.get]
  | cons p rest ih =>
    obtain ⟨k0, v0⟩ := p
    unfold Objects.Sorted at hs
    simp only [Objects.keys, List.map_cons, List.pairwise_cons] at hs
    simp only [List.foldl_cons]
    rw [ih _ hs.2]
    simp only [Objects.get]
    by_cases h : k0 = k
    · subst h
      have : k0 ∉ Objects.keys rest := by
        intro hm; have := hs.1 _ hm; rw [idLt_irrefl] at this; cases this
      simp [Objects.get_none_of_not_mem rest k0 this, Objects.get_insert]
    · simp only [h, if_false]
      cases Objects.get rest k with
      | some v => rfl
      | none => simp [Objects.get_insert, h]

theorem moveObj_sorted (st : MoveSt) (p : ObjId × ObjId) (h : st.tmp.Sorted) : (moveObj st p).tmp.Sorted := by
  unfold moveObj; split
  · exact Objects.sorted_insert _ _ _ h
  · exact h

theorem foldl_move_sorted (bks : List Nat) (pairs : List (ObjId × ObjId)) (st : MoveSt) (h : st.tmp.Sorted) :
    (pairs.foldl (moveStep bks) st).tmp.Sorted := by
  induction pairs generalizing st with
  | nil => exact h
  | cons p rest ih =>
    simp only [List.foldl_cons]; apply ih
    rw [(moveStep_eq bks st p).2.1]; exact moveObj_sorted st p h

/-- **the move pass at the level of `get`**: for pairs with distinct old ids that all exist, the object
map afterwards holds, at `k`, the object of the (last) pair whose new id is `k`; an old id that was
not re-used is empty; every other key is untouched.  `replace` is exactly the list of pairs. -/
theorem movePass_get (bks : List Nat) (os : Objects) (bm : BmTable) (pairs : List (ObjId × ObjId))
    (h1 : (pairs.map (·.1)).Nodup) (h2 : ∀ p ∈ pairs, os.get p.1 ≠ none) :
    (∀ k, (movePass bks os bm pairs).objects.get k =
      match srcOf pairs k with
      | some old => os.get old
      | none => if k ∈ pairs.map (·.1) then none else os.get k) ∧
    (movePass bks os bm pairs).replace = pairs := by
  unfold movePass
  obtain ⟨i1, i2, i3⟩ := foldl_move bks pairs ⟨os, [], [], bm⟩ h1 h2
  have hs := foldl_move_sorted bks pairs ⟨os, [], [], bm⟩ (by simp [Objects.Sorted, Objects.keys])
  refine ⟨?_, by simpa using i3⟩
  intro k
  simp only
  rw [Objects.get_foldl_insert _ _ hs, i2 k, i1 k]
  cases hsrc : srcOf pairs k with
  | some old =>
    simp only
    obtain ⟨o, ho⟩ := Option.ne_none_iff_exists'.mp (h2 (old, k) (by
      have : ∀ (l : List (ObjId × ObjId)) k o, srcOf l k = some o → (o, k) ∈ l := by
        intro l
        induction l with
        | nil => intro k o h; simp [srcOf] at h
        | cons q l ihl =>
          intro k o h
          simp only [srcOf] at h
          cases hq : srcOf l k with
          | some o' => rw [hq] at h; simp at h; subst h; simp [ihl k o' hq]
          | none =>
            rw [hq] at h; simp at h
            obtain ⟨a, b⟩ := q
            simp at h; simp [← h.1, ← h.2]
      exact this pairs k old hsrc))
    simp at ho
    simp [ho]
  | none => simp [Objects.get]
