import LopdfModel.Lemmas.Move
namespace Lopdf

def Outcome.toOption {α} : Outcome α → Option α
  | .ok a => some a
  | _ => none

private def nm (s : String) : Bytes := s.toUTF8.toList
/-- ids 1..5: catalog 1, page 2, pages-root 3, page 4, info 5; one bookmark on page (2,0) -/
def wdoc : Doc :=
  { trailer := [(ROOT, .ref 1 0), ([73,110,102,111], .ref 5 0)],
    objects := [((1,0), .dict [(TYPE, .name [67,97,116,97,108,111,103]), (PAGES, .ref 3 0)]),
                ((2,0), .dict [(TYPE, .name PAGE), ([80,97,114,101,110,116], .ref 3 0)]),
                ((3,0), .dict [(TYPE, .name PAGES), (KIDS, .arr [.ref 2 0, .ref 4 0])]),
                ((4,0), .dict [(TYPE, .name PAGE), ([80,97,114,101,110,116], .ref 3 0)]),
                ((5,0), .dict [])],
    maxId := 5, bookmarks := [1], bmTable := [(1, { children := [], page := (2,0) })] }

theorem wdoc_pairs : densePairs (sortBy idLe wdoc.objects.keys) 2 [] =
    some ([((1,0),(2,0)), ((2,0),(3,0)), ((3,0),(4,0)), ((4,0),(5,0)), ((5,0),(6,0))], 7) := by decide

/-- **F-C10-a (counter-witness).** Dense pass with start 2 on ids 1..5: the page object (2,0) moves to
(3,0) (`replace` maps (2,0) ↦ (3,0)), but the bookmark that pointed at page (2,0) ends at (6,0):
`renumber_bookmarks` is applied pair by pair and each new id is the next pair's old id. -/
theorem bookmark_chain_witness :
    ((densePass wdoc 2).toOption.bind fun d' => (d'.bmTable.get 1).map (·.page)) = some (6, 0) ∧
    lookupId [((1,0),(2,0)), ((2,0),(3,0)), ((3,0),(4,0)), ((4,0),(5,0)), ((5,0),(6,0))] (2,0) = some (3,0) := by
  constructor
  · unfold densePass
    rw [wdoc_pairs]
    simp only [Outcome.toOption]
    decide
  · decide
/-- **C10, dense numbering.** For any document with `1 ≤ start + n ≤ u32::MAX` (n objects, distinct keys)
the dense pass returns; afterwards the object numbers are exactly `start … start+n-1` (each new id of
the assignment holds an object and nothing else does) and `max_id` is the last number. -/
theorem renumber_dense (d1 : Doc) (start : Nat) (hnd : d1.objects.keys.Nodup)
    (hlo : 1 ≤ start + d1.objects.length) (hhi : start + d1.objects.length ≤ U32_MAX) :
    ∃ d', densePass d1 start = .ok d' ∧ d'.maxId = start + d1.objects.length - 1 ∧
      (assign (sortBy idLe d1.objects.keys) start).map (fun p => p.2.1) = List.range' start d1.objects.length ∧
      ∀ k, (d'.objects.get k).isSome ↔ ∃ p ∈ assign (sortBy idLe d1.objects.keys) start, p.2 = k := by
  have hperm := sortBy_perm idLe d1.objects.keys
  have hlen : (sortBy idLe d1.objects.keys).length = d1.objects.length := by
    rw [hperm.length_eq]; simp [Objects.keys]
  have hn : (sortBy idLe d1.objects.keys).Nodup := hperm.nodup_iff.mpr hnd
  have hk : ∀ k, k ∈ sortBy idLe d1.objects.keys ↔ (d1.objects.get k).isSome := by
    intro k; rw [hperm.mem_iff]; exact Objects.mem_keys_iff _ _
  unfold densePass
  rw [densePairs_eq _ _ _ (by rw [hlen]; exact hhi)]
  simp only [List.nil_append, hlen]
  have h0 : ¬ (start + d1.objects.length = 0) := by omega
  simp only [h0, if_false]
  refine ⟨_, rfl, rfl, ?_, ?_⟩
  · rw [assign_numbers, hlen]
  · intro k
    simp only
    rw [← dense_move_isSome d1.bookmarks d1.objects d1.bmTable _ start hn hk k]
    rw [(traverse_visits_once _ _ _).2.2 k]
    split <;> simp

/-- F-C10-c: outside `1 ≤ start + n` the code panics (`new_id - 1` on an empty document with start 0) -/
theorem start0_empty_panics (tr : Dict) (bks : List Nat) (bm : BmTable) (m : Nat) :
    densePass ⟨tr, [], m, bks, bm⟩ 0 = .panic "sub" := by
  simp [densePass, densePairs, sortBy, Objects.keys]

/-- F-C10-c: `new_id += 1` overflows when `start + n > u32::MAX`, even though every assigned id fits -/
theorem overflow_panics : densePass wdoc (U32_MAX - 4) = .panic "add" := by
  have : densePairs (sortBy idLe wdoc.objects.keys) (U32_MAX - 4) [] = none := by decide
  simp [densePass, this]

/-- **F-C10-b (counter-witness).** Objects 1,2,3,4,8 and a dangling `5 0 R`: the reference resolves to
nothing before; the rename action leaves it as it is; after the dense pass (start 1) id (5,0) holds an object. -/
def wdoc2 : Doc :=
  { wdoc with objects := [((1,0), .dict [(TYPE, .name [67,97,116,97,108,111,103]), (PAGES, .ref 3 0), ([68], .ref 5 0)]),
                ((2,0), .dict [(TYPE, .name PAGE)]), ((3,0), .dict [(TYPE, .name PAGES), (KIDS, .arr [.ref 2 0, .ref 4 0])]),
                ((4,0), .dict [(TYPE, .name PAGE)]), ((8,0), .dict [])],
              maxId := 8, bookmarks := [], bmTable := [] }

theorem dangling_capture_witness :
    wdoc2.objects.get (5, 0) = none ∧
    (∃ pairs n, densePairs (sortBy idLe wdoc2.objects.keys) 1 [] = some (pairs, n) ∧
        (renameFn pairs (.ref 5 0)).asRef = some (5, 0)) ∧
    ∃ d', densePass wdoc2 1 = .ok d' ∧ (d'.objects.get (5, 0)).isSome := by
  refine ⟨by decide, ⟨[((8,0),(5,0))], 6, by decide, by decide⟩, ?_⟩
  obtain ⟨d', h1, _, _, h4⟩ := renumber_dense wdoc2 1 (by decide) (by decide) (by decide)
  exact ⟨d', h1, (h4 (5,0)).mpr (by decide)⟩

/-! ### bookmarks: what is true, and when -/

/-- what `renumber_bookmarks` called pair by pair does to one bookmark target -/
def seqRename (pairs : List (ObjId × ObjId)) (p : ObjId) : ObjId :=
  pairs.foldl (fun p on => if p = on.1 then on.2 else p) p

/-- what it should do: the renaming itself -/
def rhoFn (pairs : List (ObjId × ObjId)) (p : ObjId) : ObjId := (lookupId pairs p).getD p

/-- no new id is the old id of a later pair -/
def NoChain : List (ObjId × ObjId) → Prop
  | [] => True
  | on :: rest => on.2 ∉ rest.map (·.1) ∧ NoChain rest

def NoChain.dec : (l : List (ObjId × ObjId)) → Decidable (NoChain l)
  | [] => isTrue trivial
  | on :: rest =>
    match NoChain.dec rest with
    | isTrue h2 => if h1 : on.2 ∉ rest.map (·.1) then isTrue ⟨h1, h2⟩ else isFalse (fun h => h1 h.1)
    | isFalse h2 => isFalse (fun h => h2 h.2)
instance : DecidablePred NoChain := NoChain.dec

theorem seqRename_fix (pairs : List (ObjId × ObjId)) (p : ObjId) (h : p ∉ pairs.map (·.1)) : seqRename pairs p = p := by
  induction pairs with
  | nil => rfl
  | cons on rest ih =>
    simp only [List.map_cons, List.mem_cons, not_or] at h
    simp only [seqRename, List.foldl_cons, h.1, if_false]
    exact ih h.2

/-- **C10, bookmarks (partial).** When no new id equals a later old id, renaming pair by pair is the
renaming: a bookmark target `p` ends at `rho p`. (False without the guard: `bookmark_chain_witness`.) -/
theorem bookmark_seq_partial (pairs : List (ObjId × ObjId)) (h : NoChain pairs) (p : ObjId) :
    seqRename pairs p = rhoFn pairs p := by
  induction pairs generalizing p with
  | nil => rfl
  | cons on rest ih =>
    obtain ⟨o, n⟩ := on
    simp only [NoChain] at h
    simp only [seqRename, List.foldl_cons, rhoFn, lookupId]
    by_cases e : p = o
    · subst e; simp only [if_true, Option.getD_some]
      exact seqRename_fix rest n h.1
    · have e' : ¬ o = p := fun x => e x.symm
      simp only [e, e', if_false]
      exact ih h.2 p

example : NoChain [((5,0),(2,0)), ((9,0),(3,0))] := by decide
example : ¬ NoChain [((1,0),(2,0)), ((2,0),(3,0))] := by decide
example : seqRename [((1,0),(2,0)), ((2,0),(3,0))] (1,0) = (3,0) ∧ rhoFn [((1,0),(2,0)), ((2,0),(3,0))] (1,0) = (2,0) := by decide

/-- the model's bookmark update on a table of root bookmarks without children is `seqRename` of the target -/
theorem updatePages_single (t : Nat) (pg old new : ObjId) :
    renumberBookmarks [t] [(t, { children := [], page := pg })] old new =
      [(t, { children := [], page := if pg = old then new else pg })] := by
  simp [renumberBookmarks, updatePages, BmTable.get, BmTable.setPage]
  split <;> simp_all
