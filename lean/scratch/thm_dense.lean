/-- **C10, dense numbering.** For any document with `1 ≤ start + n ≤ u32::MAX` (n objects, distinct keys)
the dense pass returns; afterwards the object numbers are exactly `start … start+n-1` (each new id of
the assignment holds an object and nothing else does) and `max_id` is the last number. -/
theorem renumber_dense (d1 : Doc) (start : Nat) (hnd : d1.objects.keys.Nodup)
    (hlo : 1 ≤ start + d1.objects.length) (hhi : start + d1.objects.length ≤ U32_MAX) :
    ∃ d', densePass d1 start = .ok d' ∧ d'.maxId = start + d1.objects.length - 1 ∧
      (assign (sortBy idLe d1.objects.keys) start).map (fun p => p.2.1) = List.range' start d1.objects.length ∧
      ∀ k, (d'.objects.get k).isSome ↔ ∃ p ∈ assign (sortBy idLe d1.objects.keys) start, p.2 = k := by
  have hperm := sortBy_perm idLe d1.objects.keys
  have hlen : (sortBy idLe d1.objects.keys).length = d1.objects.length := by
    rw [hperm.length_eq]; simp [Objects.keys]
  have hn : (sortBy idLe d1.objects.keys).Nodup := hperm.nodup_iff.mpr hnd
  have hk : ∀ k, k ∈ sortBy idLe d1.objects.keys ↔ (d1.objects.get k).isSome := by
    intro k; rw [hperm.mem_iff]; exact Objects.mem_keys_iff _ _
  unfold densePass
  rw [densePairs_eq _ _ _ (by rw [hlen]; exact hhi)]
  simp only [List.nil_append, hlen]
  have h0 : ¬ (start + d1.objects.length = 0) := by omega
  simp only [h0, if_false]
  refine ⟨_, rfl, rfl, ?_, ?_⟩
  · rw [assign_numbers, hlen]
  · intro k
    simp only
    rw [← dense_move_isSome d1.bookmarks d1.objects d1.bmTable _ start hn hk k]
    rw [(traverse_visits_once _ _ _).2.2 k]
    split <;> simp
