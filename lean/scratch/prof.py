import subprocess,re
out=subprocess.run("lake env lean -Dprofiler=true -Dprofiler.threshold=300 --json LopdfModel/Lemmas/CMapGrammar.lean",shell=True,capture_output=True,text=True).stdout
import json
for line in out.splitlines():
    try: m=json.loads(line)
    except Exception: continue
    d=m.get("data","")
    if "took" in d:
        print(m["pos"]["line"], d[:150].replace("\n"," | "))
