
theorem insertBy_perm {α} (le : α → α → Bool) (x : α) (l : List α) : (insertBy le x l).Perm (x :: l) := by
  induction l with
  | nil => simp [insertBy]
  | cons y ys ih =>
    simp only [insertBy]; split
    · exact List.Perm.refl _
    · exact (List.Perm.cons y ih).trans (List.Perm.swap x y ys)

theorem sortBy_perm {α} (le : α → α → Bool) (l : List α) : (sortBy le l).Perm l := by
  induction l with
  | nil => simp [sortBy]
  | cons x xs ih =>
    simp only [sortBy, List.foldr_cons] at *
    exact (insertBy_perm le x _).trans (List.Perm.cons x ih)

theorem Objects.get_isSome_of_mem (os : Objects) (k : ObjId) (h : k ∈ os.keys) : (os.get k).isSome := by
  induction os with
  | nil => simp [Objects.keys] at h
  | cons p rest ih =>
    obtain ⟨k0, v0⟩ := p
    simp only [Objects.keys, List.map_cons, List.mem_cons] at h
    simp only [Objects.get]
    by_cases e : k0 = k
    · simp [e]
    · simp only [e, if_false]; apply ih
      rcases h with h | h
      · exact absurd h.symm e
      · exact h

theorem Objects.mem_keys_iff (os : Objects) (k : ObjId) : k ∈ os.keys ↔ (os.get k).isSome := by
  constructor
  · exact Objects.get_isSome_of_mem os k
  · intro h
    cases hg : os.get k with
    | none => rw [hg] at h; cases h
    | some v => exact Objects.mem_keys_of_get hg

theorem denseSpec_olds_sublist (ids : List ObjId) (s : Nat) : ((denseSpec ids s).map (·.1)).Sublist ids := by
  induction ids generalizing s with
  | nil => simp [denseSpec]
  | cons id rest ih =>
    simp only [denseSpec, List.map_append]
    split
    · simp; exact ih _
    · simp; exact List.Sublist.cons _ (ih _)

theorem eq_of_nodup_map_fst {l : List (ObjId × ObjId)} (hn : (l.map (·.1)).Nodup) {p q : ObjId × ObjId}
    (hp : p ∈ l) (hq : q ∈ l) (e : p.1 = q.1) : p = q := by
  induction l with
  | nil => simp at hp
  | cons x xs ih =>
    simp only [List.map_cons, List.nodup_cons] at hn
    rcases List.mem_cons.mp hp with rfl | hp' <;> rcases List.mem_cons.mp hq with rfl | hq'
    · rfl
    · exact absurd (e ▸ List.mem_map_of_mem hq') hn.1
    · exact absurd (e ▸ List.mem_map_of_mem hp') hn.1
    · exact ih hn.2 hp' hq'

/-- after the move pass of the dense renumbering, exactly the new ids of the assignment hold objects -/
theorem dense_move_isSome (bks : List Nat) (os : Objects) (bm : BmTable) (ids : List ObjId) (s : Nat)
    (hn : ids.Nodup) (hk : ∀ k, k ∈ ids ↔ (os.get k).isSome) (k : ObjId) :
    ((movePass bks os bm (denseSpec ids s)).objects.get k).isSome ↔ ∃ p ∈ assign ids s, p.2 = k := by
  have h1 : ((denseSpec ids s).map (·.1)).Nodup := (denseSpec_olds_sublist ids s).nodup hn
  have hmemid : ∀ p ∈ assign ids s, p.1 ∈ ids := by
    intro p hp; rw [← assign_olds ids s]; exact List.mem_map_of_mem hp
  have h2 : ∀ p ∈ denseSpec ids s, os.get p.1 ≠ none := by
    intro p hp
    have := (hk p.1).mp (hmemid p (denseSpec_sub ids s p hp).1)
    intro e; rw [e] at this; cases this
  have hasn : ((assign ids s).map (·.1)).Nodup := by rw [assign_olds]; exact hn
  rw [(movePass_get bks os bm _ h1 h2).1 k]
  constructor
  · intro h
    cases hs : srcOf (denseSpec ids s) k with
    | some old =>
      exact ⟨(old, k), (denseSpec_sub ids s _ (srcOf_mem _ _ _ hs)).1, rfl⟩
    | none =>
      rw [hs] at h; simp only at h
      by_cases hko : k ∈ (denseSpec ids s).map (·.1)
      · simp [hko] at h
      · simp only [hko, if_false] at h
        have hkid := (hk k).mpr h
        rw [← assign_olds ids s] at hkid
        obtain ⟨p, hp, hpk⟩ := List.mem_map.mp hkid
        by_cases hmv : p.1.1 = p.2.1
        · refine ⟨p, hp, ?_⟩
          rw [← hpk]; exact Prod.ext hmv.symm (assign_gen ids s p hp)
        · exact absurd (hpk ▸ List.mem_map_of_mem (denseSpec_mem ids s p hp hmv)) hko
  · rintro ⟨p, hp, rfl⟩
    by_cases hmv : p.1.1 = p.2.1
    · have hpe : p.2 = p.1 := Prod.ext hmv.symm (assign_gen ids s p hp)
      cases hs : srcOf (denseSpec ids s) p.2 with
      | some old =>
        have hq := denseSpec_sub ids s _ (srcOf_mem _ _ _ hs)
        have := assign_inj ids s _ hq.1 p hp rfl
        rw [← this] at hmv; exact absurd hmv hq.2
      | none =>
        simp only
        have hko : p.2 ∉ (denseSpec ids s).map (·.1) := by
          intro hm
          obtain ⟨q, hq, hqk⟩ := List.mem_map.mp hm
          have hq' := denseSpec_sub ids s q hq
          have : q = p := eq_of_nodup_map_fst hasn hq'.1 hp (by rw [hqk, hpe])
          rw [this] at hq'; exact hq'.2 hmv
        simp only [hko, if_false]
        rw [hpe]; exact (hk p.1).mp (hmemid p hp)
    · obtain ⟨o', ho'⟩ := srcOf_some_of_mem _ p.2 p.1 (denseSpec_mem ids s p hp hmv)
      rw [ho']; simp only
      exact (hk o').mp (hmemid _ (denseSpec_sub ids s _ (srcOf_mem _ _ _ ho')).1)

/-- **C10, dense numbering.** For any document with `1 ≤ start + n ≤ u32::MAX` (n objects, distinct keys)
the dense pass returns; afterwards the object numbers are exactly `start … start+n-1` (each new id of
the assignment holds an object and nothing else does) and `max_id` is the last number. -/
theorem renumber_dense (d1 : Doc) (start : Nat) (hnd : d1.objects.keys.Nodup)
    (hlo : 1 ≤ start + d1.objects.length) (hhi : start + d1.objects.length ≤ U32_MAX) :
    ∃ d', densePass d1 start = .ok d' ∧ d'.maxId = start + d1.objects.length - 1 ∧
      (assign (sortBy idLe d1.objects.keys) start).map (fun p => p.2.1) = List.range' start d1.objects.length ∧
      ∀ k, (d'.objects.get k).isSome ↔ ∃ p ∈ assign (sortBy idLe d1.objects.keys) start, p.2 = k := by
  have hperm := sortBy_perm idLe d1.objects.keys
  have hlen : (sortBy idLe d1.objects.keys).length = d1.objects.length := by
    rw [hperm.length_eq]; simp [Objects.keys]
  have hn : (sortBy idLe d1.objects.keys).Nodup := hperm.nodup_iff.mpr hnd
  have hk : ∀ k, k ∈ sortBy idLe d1.objects.keys ↔ (d1.objects.get k).isSome := by
    intro k; rw [hperm.mem_iff]; exact Objects.mem_keys_iff _ _
  unfold densePass
  rw [densePairs_eq _ _ _ (by rw [hlen]; exact hhi)]
  simp only [List.nil_append, hlen]
  have h0 : ¬ (start + d1.objects.length = 0) := by omega
  simp only [h0, if_false]
  refine ⟨_, rfl, rfl, ?_, ?_⟩
  · rw [assign_numbers, hlen]
  · intro k
    simp only
    rw [← dense_move_isSome d1.bookmarks d1.objects d1.bmTable _ start hn hk k]
    rw [(traverse_visits_once _ _ _).2.2 k]
    split <;> simp
