
/-- ids reachable from `roots` in the graph `G` (declarative reachability) -/
inductive Reach (roots : List ObjId) (G : ObjId → Option Obj) : ObjId → Prop
  | root {r} : r ∈ roots → Reach roots G r
  | step {id o r} : Reach roots G id → G id = some o → r ∈ refsOf o → Reach roots G r

/-- nothing is pushed that is not justified by the *final* graph -/
def SubSpec (refs : List ObjId) (R : Objects × List ObjId) : Prop :=
  ∀ S : ObjId → Prop, (∀ id o r, S id → R.1.get id = some o → r ∈ refsOf o → S r) →
    (∀ r ∈ refs, S r) → ∀ r ∈ R.2, S r

theorem subSpec_some (a : Action) (os : Objects) (refs : List ObjId) (index : Nat)
    (hi : index < refs.length) (o : Obj) (hg : os.get refs[index] = some o) (R : Objects × List ObjId)
    (hspec : LoopSpec a (os.set refs[index] (travObj a o refs).1) (travObj a o refs).2 (index + 1) R)
    (ih : SubSpec (travObj a o refs).2 R) : SubSpec refs R := by
  intro S hS h0
  apply ih S hS
  obtain ⟨⟨ext1, he1⟩, hnd, hget, _⟩ := hspec
  obtain ⟨ext0, he0⟩ := travObj_prefix a o refs
  have heR : R.2 = refs ++ (ext0 ++ ext1) := by rw [he1, he0]; simp
  have hlen : index < R.2.length := by rw [heR]; simp; omega
  have hidx : R.2[index]'hlen = refs[index] := by
    simp [heR, List.getElem_append_left hi]
  have hnot : refs[index] ∉ R.2.drop (index + 1) := by
    have := not_mem_drop_succ R.2 index hnd hlen
    rwa [hidx] at this
  have hfin : R.1.get refs[index] = some (deepObj a o) := by
    rw [hget, Objects.get_set]; simp [hnot, hg, (trav_eq a).1 o refs]
  intro r hr
  rw [(trav_eq a).1 o refs] at hr
  rcases mem_pushAll _ _ _ hr with h | h
  · exact h0 r h
  · exact hS _ _ _ (h0 _ (List.getElem_mem hi)) hfin h

theorem travLoop_sub (a : Action) (os : Objects) (refs : List ObjId) (index : Nat) (hn : refs.Nodup) :
    SubSpec refs (travLoop a os refs index hn) := by
  induction os, refs, index, hn using travLoop.induct (a := a) with
  | case1 os refs index hn hi o hg ih =>
    rw [travLoop]; simp only [hi, dite_true]
    split
    · rename_i o' hg'
      have : o' = o := by rw [hg] at hg'; exact (Option.some.inj hg').symm
      subst this
      exact subSpec_some a os refs index hi o' hg _ (travLoop_spec a _ _ _ _) ih
    · rename_i hg'; rw [hg] at hg'; cases hg'
  | case2 os refs index hn hi hg ih =>
    rw [travLoop]; simp only [hi, dite_true]
    split
    · rename_i o' hg'; rw [hg] at hg'; cases hg'
    · exact ih
  | case3 os refs index hn hi =>
    rw [travLoop]; simp only [hi, dite_false]
    intro S _ h0; exact h0

/-! ### `traverse_objects` -/

/-- **visits once**: the trailer and every object whose id was pushed are rewritten by the action
exactly once (`deepObj` applies the action once per node); no other object changes; no id is pushed twice. -/
theorem traverse_visits_once (a : Action) (tr : Dict) (os : Objects) :
    (traverse a tr os).1 = deepDict a tr ∧ (traverse a tr os).2.2.Nodup ∧
    ∀ q, (traverse a tr os).2.1.get q =
      if q ∈ (traverse a tr os).2.2 then (os.get q).map (deepObj a) else os.get q := by
  unfold traverse
  have h := travLoop_spec a os (travDict a tr []).2 0 (travDict_nodup a tr [] List.nodup_nil)
  refine ⟨by simp [(trav_eq a).2.1 tr []], h.2.1, ?_⟩
  intro q; simpa using h.2.2.1 q

/-- the pushed ids are closed under the references of the *result*: trailer and processed objects -/
theorem traverse_closed (a : Action) (tr : Dict) (os : Objects) :
    (∀ r ∈ refsOfD (traverse a tr os).1, r ∈ (traverse a tr os).2.2) ∧
    (∀ q ∈ (traverse a tr os).2.2, ∀ o, (traverse a tr os).2.1.get q = some o →
      ∀ r ∈ refsOf o, r ∈ (traverse a tr os).2.2) := by
  have hv := traverse_visits_once a tr os
  unfold traverse at *
  have h := travLoop_spec a os (travDict a tr []).2 0 (travDict_nodup a tr [] List.nodup_nil)
  obtain ⟨⟨ext, he⟩, _, hget, hcl⟩ := h
  constructor
  · intro r hr
    simp only at hr ⊢
    rw [he]; apply List.mem_append_left
    rw [(trav_eq a).2.1 tr []] at hr ⊢
    exact mem_pushAll_ids _ _ _ hr
  · intro q hq o ho r hr
    simp only at hq ho ⊢
    have hq' : q ∈ List.drop 0 (travLoop a os (travDict a tr []).2 0 (travDict_nodup a tr [] List.nodup_nil)).2 := by
      simpa using hq
    rw [hget q] at ho
    simp only [hq', if_true] at ho
    cases hos : os.get q with
    | none => rw [hos] at ho; cases ho
    | some o0 =>
      rw [hos] at ho; simp at ho; subst ho
      exact hcl q hq' o0 hos r hr

/-- **traverse = reachability closure**: the ids `traverse_objects` returns are exactly the ids
reachable from the (rewritten) trailer in the (rewritten) object graph. -/
theorem traverse_eq_reach (a : Action) (tr : Dict) (os : Objects) (q : ObjId) :
    q ∈ (traverse a tr os).2.2 ↔
      Reach (refsOfD (traverse a tr os).1) (fun id => (traverse a tr os).2.1.get id) q := by
  constructor
  · intro hq
    have hs := travLoop_sub a os (travDict a tr []).2 0 (travDict_nodup a tr [] List.nodup_nil)
    have : ∀ r ∈ (travDict a tr []).2, Reach (refsOfD (traverse a tr os).1) (fun id => (traverse a tr os).2.1.get id) r := by
      intro r hr
      apply Reach.root
      unfold traverse; simp only
      rw [(trav_eq a).2.1 tr []] at hr ⊢
      rcases mem_pushAll _ _ _ hr with h | h
      · simp at h
      · exact h
    exact hs _ (fun id o r hid ho hr => Reach.step hid (by unfold traverse; exact ho) hr) this q (by unfold traverse at hq; exact hq)
  · intro hr
    have hc := traverse_closed a tr os
    induction hr with
    | root h => exact hc.1 _ h
    | step _ ho hr ih => exact hc.2 _ ih _ ho _ hr
