import LopdfModel.Model.Doc
namespace Lopdf

theorem deepObj_arr {a : Action} {o items} (h : a.f o = .arr items) : deepObj a o = .arr (deepList a items) := by
  rw [deepObj]; split <;> simp_all
theorem deepObj_dict {a : Action} {o es} (h : a.f o = .dict es) : deepObj a o = .dict (deepDict a es) := by
  rw [deepObj]; split <;> simp_all
theorem deepObj_stream {a : Action} {o es c} (h : a.f o = .stream es c) : deepObj a o = .stream (deepDict a es) c := by
  rw [deepObj]; split <;> simp_all
theorem deepObj_other {a : Action} {o}
    (h1 : ∀ items, a.f o ≠ .arr items) (h2 : ∀ es, a.f o ≠ .dict es) (h3 : ∀ es c, a.f o ≠ .stream es c) :
    deepObj a o = a.f o := by
  rw [deepObj]; split <;> simp_all
theorem travObj_arr {a : Action} {o items refs} (h : a.f o = .arr items) :
    travObj a o refs = (.arr (travList a items refs).1, (travList a items refs).2) := by
  rw [travObj]; split <;> simp_all
theorem travObj_dict {a : Action} {o es refs} (h : a.f o = .dict es) :
    travObj a o refs = (.dict (travDict a es refs).1, (travDict a es refs).2) := by
  rw [travObj]; split <;> simp_all
theorem travObj_stream {a : Action} {o es c refs} (h : a.f o = .stream es c) :
    travObj a o refs = (.stream (travDict a es refs).1 c, (travDict a es refs).2) := by
  rw [travObj]; split <;> simp_all
theorem travObj_ref {a : Action} {o n g refs} (h : a.f o = .ref n g) :
    travObj a o refs = (.ref n g, pushRef refs (n, g)) := by
  rw [travObj]; split <;> simp_all
theorem travObj_other {a : Action} {o refs}
    (h1 : ∀ items, a.f o ≠ .arr items) (h2 : ∀ es, a.f o ≠ .dict es) (h3 : ∀ es c, a.f o ≠ .stream es c)
    (h4 : ∀ n g, a.f o ≠ .ref n g) :
    travObj a o refs = (a.f o, refs) := by
  rw [travObj]; split <;> simp_all

theorem trav_eq (a : Action) :
    (∀ o refs, travObj a o refs = (deepObj a o, pushAll refs (refsOf (deepObj a o)))) ∧
    (∀ es refs, travDict a es refs = (deepDict a es, pushAll refs (refsOfD (deepDict a es)))) ∧
    (∀ items refs, travList a items refs = (deepList a items, pushAll refs (refsOfL (deepList a items)))) := by
  apply travObj.mutual_induct a
    (motive1 := fun o refs => travObj a o refs = (deepObj a o, pushAll refs (refsOf (deepObj a o))))
    (motive2 := fun es refs => travDict a es refs = (deepDict a es, pushAll refs (refsOfD (deepDict a es))))
    (motive3 := fun items refs => travList a items refs = (deepList a items, pushAll refs (refsOfL (deepList a items))))
  · intro o refs items h ih
    rw [travObj_arr h, deepObj_arr h, ih]; simp [refsOf]
  · intro o refs es h ih
    rw [travObj_dict h, deepObj_dict h, ih]; simp [refsOf]
  · intro o refs es c h ih
    rw [travObj_stream h, deepObj_stream h, ih]; simp [refsOf]
  · intro o refs n g h
    have hd : deepObj a o = .ref n g := by
      rw [deepObj_other] <;> simp [h]
    rw [travObj_ref h, hd]; simp [refsOf, pushAll]
  · intro o refs h1 h2 h3 h4
    have e1 : ∀ items, a.f o ≠ .arr items := fun i hh => h1 i hh
    have e2 : ∀ es, a.f o ≠ .dict es := fun i hh => h2 i hh
    have e3 : ∀ es c, a.f o ≠ .stream es c := fun i c hh => h3 i c hh
    have e4 : ∀ n g, a.f o ≠ .ref n g := fun n g hh => h4 n g hh
    rw [travObj_other e1 e2 e3 e4, deepObj_other e1 e2 e3]
    cases hf : a.f o <;> simp_all [refsOf, pushAll]
  · intro refs; rw [travDict, deepDict]; simp [refsOfD, pushAll]
  · intro refs k v es ih1 ih2
    rw [travDict, deepDict]; simp only [ih1, ih2, refsOfD, pushAll_append] at *
    simp_all
  · intro refs; rw [travList, deepList]; simp [refsOfL, pushAll]
  · intro refs x xs ih1 ih2
    rw [travList, deepList]; simp only [ih1, ih2, refsOfL, pushAll_append] at *
    simp_all
