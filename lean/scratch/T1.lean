import LopdfModel.Thm.C01
import LopdfModel.Model.Content
namespace Lopdf.ObjRt
open Lopdf Gen

/-- the scalar alternatives of `_direct_objects` (`withRef = true`) / `operand` (`false`) in source order -/
def scalars (withRef : Bool) (inp : Bytes) : Option (Obj × Bytes) :=
  match tag NULL_KW inp with
  | some r => some (.null, r)
  | none =>
  match tag TRUE_KW inp with
  | some r => some (.bool true, r)
  | none =>
  match tag FALSE_KW inp with
  | some r => some (.bool false, r)
  | none =>
  match (if withRef then pReference inp else none) with
  | some (o, r) => some (o, r)
  | none =>
  match pReal inp with
  | some (t, r) => some (.real t, r)
  | none =>
  match pInteger inp with
  | some (i, r) => some (.int i, r)
  | none =>
  match pName inp with
  | some (n, r) => some (.name n, r)
  | none =>
  match pLiteral inp with
  | some (s, r) => some (.str s .lit, r)
  | none =>
  match pHexString inp with
  | some (s, r) => some (.str s .hex, r)
  | none => none

theorem directObjects_scalar (fuel depth : Nat) (inp : Bytes) (o : Obj) (r : Bytes)
    (h : scalars true inp = some (o, r)) : directObjects (fuel + 1) depth inp = .ok o r := by
  rw [directObjects.eq_def]
  simp only [scalars, if_true] at h
  simp only
  repeat' split at h
  all_goals (simp_all)

theorem operandObj_scalar (inp : Bytes) (o : Obj) (r : Bytes)
    (h : scalars false inp = some (o, r)) : operandObj inp = .ok o r := by
  rw [operandObj.eq_def]
  simp only [scalars] at h
  simp only
  repeat' split at h
  all_goals (simp_all)

end Lopdf.ObjRt
