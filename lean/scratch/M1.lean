import LopdfModel.Lemmas.Traverse
import LopdfModel.Model.Renumber
namespace Lopdf

/-- the old id whose object ends at `k` (last pair with new id `k` wins, as `BTreeMap::insert` overwrites) -/
def srcOf : List (ObjId × ObjId) → ObjId → Option ObjId
  | [], _ => none
  | p :: rest, k => match srcOf rest k with
    | some o => some o
    | none => if p.2 = k then some p.1 else none

theorem moveStep_eq (bks : List Nat) (st : MoveSt) (p : ObjId × ObjId) :
    (moveStep bks st p).objects = (moveObj st p).objects ∧ (moveStep bks st p).tmp = (moveObj st p).tmp ∧
    (moveStep bks st p).replace = (moveObj st p).replace := by
  unfold moveStep; split <;> simp

theorem moveStep_objects (bks : List Nat) (st : MoveSt) (p : ObjId × ObjId) (k : ObjId) :
    (moveStep bks st p).objects.get k = if p.1 = k then none else st.objects.get k := by
  rw [(moveStep_eq bks st p).1]; unfold moveObj
  cases h : st.objects.get p.1 with
  | none =>
    by_cases hk : p.1 = k
    · subst hk; simp [h]
    · simp [hk]
  | some o => simp [Objects.get_remove]

theorem moveStep_tmp (bks : List Nat) (st : MoveSt) (p : ObjId × ObjId) (o : Obj)
    (h : st.objects.get p.1 = some o) (k : ObjId) :
    (moveStep bks st p).tmp.get k = if p.2 = k then some o else st.tmp.get k := by
  rw [(moveStep_eq bks st p).2.1]; unfold moveObj
  simp [h, Objects.get_insert]

theorem moveStep_replace (bks : List Nat) (st : MoveSt) (p : ObjId × ObjId) (o : Obj)
    (h : st.objects.get p.1 = some o) :
    (moveStep bks st p).replace = st.replace ++ [p] := by
  rw [(moveStep_eq bks st p).2.2]; unfold moveObj
  simp [h]

theorem foldl_move (bks : List Nat) (pairs : List (ObjId × ObjId)) (st : MoveSt)
    (h1 : (pairs.map (·.1)).Nodup) (h2 : ∀ p ∈ pairs, st.objects.get p.1 ≠ none) :
    (∀ k, (pairs.foldl (moveStep bks) st).objects.get k =
        if k ∈ pairs.map (·.1) then none else st.objects.get k) ∧
    (∀ k, (pairs.foldl (moveStep bks) st).tmp.get k =
        match srcOf pairs k with
        | some old => st.objects.get old
        | none => st.tmp.get k) ∧
    (pairs.foldl (moveStep bks) st).replace = st.replace ++ pairs := by
  induction pairs generalizing st with
  | nil => simp [srcOf]
  | cons p rest ih =>
    simp only [List.map_cons, List.nodup_cons] at h1
    obtain ⟨o, ho⟩ := Option.ne_none_iff_exists'.mp (h2 p (by simp))
    have h2' : ∀ q ∈ rest, (moveStep bks st p).objects.get q.1 ≠ none := by
      intro q hq
      rw [moveStep_objects]
      have : p.1 ≠ q.1 := by
        intro e; apply h1.1; rw [e]; exact List.mem_map_of_mem hq
      simp [this]; exact h2 q (by simp [hq])
    obtain ⟨i1, i2, i3⟩ := ih (moveStep bks st p) h1.2 h2'
    simp only [List.foldl_cons]
    refine ⟨?_, ?_, ?_⟩
    · intro k
      rw [i1 k, moveStep_objects]
      by_cases hk : k ∈ rest.map (·.1)
      · simp [hk]
      · by_cases hpk : p.1 = k
        · simp [hpk]
        · have : ¬ k = p.1 := fun e => hpk e.symm
          simp [hk, hpk, this]
    · intro k
      rw [i2 k]
      simp only [srcOf]
      cases hs : srcOf rest k with
      | some old =>
        simp only
        rw [moveStep_objects]
        have : p.1 ≠ old := by
          intro e; apply h1.1
          -- old is among the olds of rest
          have : ∀ (l : List (ObjId × ObjId)) k o, srcOf l k = some o → o ∈ l.map (·.1) := by
            intro l
            induction l with
            | nil => intro k o h; simp [srcOf] at h
            | cons q l ihl =>
              intro k o h
              simp only [srcOf] at h
              cases hq : srcOf l k with
              | some o' => rw [hq] at h; simp at h; subst h; simp [ihl k o' hq]
              | none => rw [hq] at h; simp at h; simp [h.2]
          rw [e]; exact this rest k old hs
        simp [this]
      | none =>
        simp only
        rw [moveStep_tmp bks st p o ho]
        by_cases hk : p.2 = k <;> simp [hk, ho]
    · rw [i3, moveStep_replace bks st p o ho]; simp
