
/-! ### the renaming as a graph isomorphism (one pass) -/

mutual
/-- the object with every reference renamed by `f` -/
def mapRefs (f : ObjId → ObjId) : Obj → Obj
  | .arr items => .arr (mapRefsL f items)
  | .dict es => .dict (mapRefsD f es)
  | .stream es c => .stream (mapRefsD f es) c
  | .ref n g => .ref (f (n, g)).1 (f (n, g)).2
  | o => o
def mapRefsL (f : ObjId → ObjId) : List Obj → List Obj
  | [] => []
  | x :: xs => mapRefs f x :: mapRefsL f xs
def mapRefsD (f : ObjId → ObjId) : List (Bytes × Obj) → List (Bytes × Obj)
  | [] => []
  | (k, v) :: es => (k, mapRefs f v) :: mapRefsD f es
end

theorem renameFn_ref (m : List (ObjId × ObjId)) (n g : Nat) :
    renameFn m (.ref n g) = .ref (rhoFn m (n, g)).1 (rhoFn m (n, g)).2 := by
  simp only [renameFn, rhoFn]
  cases lookupId m (n, g) <;> simp

/-- the traversal with the rename action computes exactly `mapRefs rho` -/
theorem deep_rename (m : List (ObjId × ObjId)) :
    (∀ o, deepObj (renameAct m) o = mapRefs (rhoFn m) o) ∧
    (∀ es, deepDict (renameAct m) es = mapRefsD (rhoFn m) es) ∧
    (∀ items, deepList (renameAct m) items = mapRefsL (rhoFn m) items) := by
  apply deepObj.mutual_induct (renameAct m)
    (motive1 := fun o => deepObj (renameAct m) o = mapRefs (rhoFn m) o)
    (motive2 := fun es => deepDict (renameAct m) es = mapRefsD (rhoFn m) es)
    (motive3 := fun items => deepList (renameAct m) items = mapRefsL (rhoFn m) items)
  · intro o items h ih
    rw [deepObj_arr h, ih]
    cases o <;> simp [renameAct, renameFn] at h
    · subst h; simp [mapRefs]
    · split at h <;> cases h
  · intro o es h ih
    rw [deepObj_dict h, ih]
    cases o <;> simp [renameAct, renameFn] at h
    · subst h; simp [mapRefs]
    · split at h <;> cases h
  · intro o es c h ih
    rw [deepObj_stream h, ih]
    cases o <;> simp [renameAct, renameFn] at h
    · obtain ⟨h1, h2⟩ := h; subst h1; subst h2; simp [mapRefs]
    · split at h <;> cases h
  · intro o h1 h2 h3
    rw [deepObj_other (fun i hh => h1 i hh) (fun i hh => h2 i hh) (fun i c hh => h3 i c hh)]
    cases o with
    | arr items => exact (h1 items (by simp [renameAct, renameFn])).elim
    | dict es => exact (h2 es (by simp [renameAct, renameFn])).elim
    | stream es c => exact (h3 es c (by simp [renameAct, renameFn])).elim
    | ref n g => simp only [renameAct, renameFn_ref, mapRefs]
    | _ => simp [renameAct, renameFn, mapRefs]
  · rw [deepDict]; simp [mapRefsD]
  · intro k v es ih1 ih2; rw [deepDict]; simp [mapRefsD, ih1, ih2]
  · rw [deepList]; simp [mapRefsL]
  · intro x xs ih1 ih2; rw [deepList]; simp [mapRefsL, ih1, ih2]
