import Driver.Codec
import LopdfModel.Model.CMap
import LopdfModel.Model.CMapParse
import LopdfModel.Spec.CMapRender
import LopdfModel.Spec.CMapSeg
import LopdfModel.Lemmas.CMapBuild
namespace Lopdf.Driver.C15
open Lopdf Lopdf.Codec Lopdf.CMap

/-
  Protocol of property C15.

  sections   ::= ( `bc` n (<code> <dst>){n} | `br` n (<lo> <hi> k <dst>{k}){n} | `cs` n (<lo> <hi>){n} )*
                 codes are hex byte strings (their byte length is the code length),
                 a <dst> is the hex of big-endian UTF-16 units.
  cmap_get    <sections> q <code>*      -> ok (-|u<hex>|panic@<site>)*        | err
  cmap_runs   <sections>                -> ok <len>:<lo>-<hi>=<target>,… ×4   | err
  cmap_decode <sections> q <bytes>      -> ok <scalar hex>* | panic@<site> | err
  cmap_segspec <sections> q <bytes>     -> ok <hex units of Spec segSpec (defines ..) bytes>  (spec against the harness's own oracle)
  cmap_render <sections>                -> ok <hex of the canonical writer's text (Spec/CMapRender.lean)>
  cmap_text_get / cmap_text_decode: the same with `<hex of the CMap stream text>` instead of <sections>
                 (the model parses the text with its own grammar model; `err` = parse error)
-/

def natOfBytes (bs : Bytes) : Nat := bs.foldl (fun acc (b : UInt8) => acc * 256 + b.toNat) 0

def unitsOfBytes : Bytes → Option (List Nat)
  | [] => some []
  | a :: b :: rest => (unitsOfBytes rest).map (fun t => (a.toNat * 256 + b.toNat) :: t)
  | _ => none

def codeTok (s : String) : Option (Nat × Nat) :=
  (bytesOfHex s).bind fun bs => if bs.isEmpty then none else some (natOfBytes bs, bs.length)

def dstTok (s : String) : Option (List Nat) := (bytesOfHex s).bind unitsOfBytes

partial def takeChars : Nat → List String → Option (List ((Nat × Nat) × List Nat) × List String)
  | 0, ts => some ([], ts)
  | n+1, c :: d :: ts => do
    let code ← codeTok c
    let dst ← dstTok d
    let (rest, ts') ← takeChars n ts
    pure ((code, dst) :: rest, ts')
  | _, _ => none

partial def takeDsts : Nat → List String → Option (List (List Nat) × List String)
  | 0, ts => some ([], ts)
  | n+1, d :: ts => do
    let dst ← dstTok d
    let (rest, ts') ← takeDsts n ts
    pure (dst :: rest, ts')
  | _, _ => none

partial def takeRanges : Nat → List String → Option (List ((Nat × Nat × Nat) × List (List Nat)) × List String)
  | 0, ts => some ([], ts)
  | n+1, a :: b :: k :: ts => do
    let (lo, len) ← codeTok a
    let (hi, len') ← codeTok b
    if len ≠ len' then none
    let k ← k.toNat?
    let (dsts, ts1) ← takeDsts k ts
    let (rest, ts2) ← takeRanges n ts1
    pure (((lo, hi, len), dsts) :: rest, ts2)
  | _, _ => none

partial def takeCs : Nat → List String → Option (List (Nat × Nat × Nat) × List String)
  | 0, ts => some ([], ts)
  | n+1, a :: b :: ts => do
    let (lo, len) ← codeTok a
    let (hi, _) ← codeTok b
    let (rest, ts') ← takeCs n ts
    pure ((lo, hi, len) :: rest, ts')
  | _, _ => none

/-- sections up to the token `q` (or the end) -/
partial def takeSections : List String → Option (List Section × List String)
  | [] => some ([], [])
  | "q" :: ts => some ([], ts)
  | "bc" :: n :: ts => do
    let n ← n.toNat?
    let (ms, ts1) ← takeChars n ts
    let (ss, ts2) ← takeSections ts1
    pure (.bfChar ms :: ss, ts2)
  | "br" :: n :: ts => do
    let n ← n.toNat?
    let (ms, ts1) ← takeRanges n ts
    let (ss, ts2) ← takeSections ts1
    pure (.bfRange ms :: ss, ts2)
  | "cs" :: n :: ts => do
    let n ← n.toNat?
    let (ms, ts1) ← takeCs n ts
    let (ss, ts2) ← takeSections ts1
    pure (.csRange ms :: ss, ts2)
  | _ => none

def hex4 (u : Nat) : String :=
  hexOfBytes [(u / 256 % 256).toUInt8, (u % 256).toUInt8]

def hexUnits (us : List Nat) : String := String.join (us.map hex4)

def hexNat (n : Nat) : String :=
  String.ofList (Nat.toDigits 16 n)

def showGet : Outcome (Option (List Nat)) → String
  | .ok none => "-"
  | .ok (some us) => "u" ++ hexUnits us
  | .err e => "err:" ++ e
  | .panic s => "panic@" ++ s

def showTarget : Target → String
  | .hex st v => "h" ++ toString st ++ ":" ++ hexUnits v
  | .cp off => "c" ++ toString off
  | .arr st vs => "a" ++ toString st ++ ":" ++ String.intercalate "/" (vs.map hexUnits)

def showRuns (m : UMap) : String :=
  String.intercalate " " ([1, 2, 3, 4].map fun len =>
    toString len ++ ":" ++ String.intercalate "," ((m len).map fun (a, b, t) =>
      toString a ++ "-" ++ toString b ++ "=" ++ showTarget t))

def showDecode (m : UMap) (bytes : Bytes) : String :=
  match bytesToUnits m (bytes.map (·.toNat)) with
  | .ok us => "ok" ++ String.join ((decodeUnits us).map fun c => " " ++ hexNat c)
  | .err e => "err:" ++ e
  | .panic s => "panic@" ++ s

def answer (op : String) (m : UMap) (rest : List String) : String :=
  match op with
  | "get" =>
    match rest.mapM codeTok with
    | some qs => "ok" ++ String.join (qs.map fun (c, l) => " " ++ showGet (get m c l))
    | none => "bad-op"
  | "runs" => if rest.isEmpty then "ok " ++ showRuns m else "bad-op"
  | "decode" =>
    match rest with
    | [b] => match bytesOfHex b with
      | some bs => showDecode m bs
      | none => "bad-op"
    | _ => "bad-op"
  | _ => "bad-op"

def viaSections (op : String) (args : List String) : String :=
  match takeSections args with
  | some (ss, rest) =>
    match fromSections ss with
    | some m => answer op m rest
    | none => "err"
  | none => "bad-op"

def viaText (op : String) (args : List String) : String :=
  match args with
  | t :: rest =>
    let rest := match rest with | "q" :: r => r | r => r
    match bytesOfHex t with
    | some text =>
      match parseCMap text with
      | some ss =>
        match fromSections ss with
        | some m => answer op m rest
        | none => "err"
      | none => "err"
    | none => "bad-op"
  | [] => "bad-op"

/-- protocol operations of property C15: `none` = not an operation of this property. -/
def handle (op : String) (args : List String) : Option String :=
  match op with
  | "cmap_get" => some (viaSections "get" args)
  | "cmap_runs" => some (viaSections "runs" args)
  | "cmap_decode" => some (viaSections "decode" args)
  | "cmap_segspec" =>
    -- the declarative segmentation spec (Spec/CMapSeg.lean) under `defines`: no model code involved
    some <| match takeSections args with
    | some (ss, [b]) =>
      match bytesOfHex b with
      | some bs => "ok " ++ (let us := CMapSpec.segSpec (CMapSpec.defines (defsOf ss)) (bs.map (·.toNat)); if us.isEmpty then "-" else hexUnits us)
      | none => "bad-op"
    | _ => "bad-op"
  | "cmap_render" =>
    some <| match takeSections args with
    | some (ss, []) => "ok " ++ hexTok (CMapRender.renderCMap ss)
    | _ => "bad-op"
  | "cmap_text_get" => some (viaText "get" args)
  | "cmap_text_runs" => some (viaText "runs" args)
  | "cmap_text_decode" => some (viaText "decode" args)
  | _ => none

end Lopdf.Driver.C15
