import Driver.Codec
namespace Lopdf.Driver.C07
open Lopdf Lopdf.Codec

/-- protocol operations of property C07: `none` = not an operation of this property. -/
def handle (op : String) (args : List String) : Option String := none

end Lopdf.Driver.C07
