import Driver.Codec
import LopdfModel.Model.ReadG
namespace Lopdf.Driver.C02
open Lopdf Lopdf.Codec

def showLoaded (l : Loaded) : String :=
  "ok " ++ toString l.maxId ++ " " ++ toString l.xrefStart ++ " " ++ hexTok l.version ++ " " ++ hexTok l.binaryMark
    ++ " " ++ showObj (.dict l.trailer) ++ " " ++ showObjects l.objects

/-- (the reader is `loadDocWithG flateDec`: Model/ReadG.lean — the same code as `loadDocWith`, theorem `loadDocWithG_plain`,
with Flate / LZW / ASCII85-coded structural streams decoded by the specification codecs)
`load <hex>` -> `ok <maxId> <xrefStart> <version> <mark> <trailer> <objects>` | `err` | `panic` | `ext` -/
def handle (op : String) (args : List String) : Option String :=
  match op with
  | "load" =>
    some <| match args with
    | [h] =>
      match bytesOfHex h with
      | some bs =>
        match loadDocF bs with
        | .ok l => showLoaded l
        | .err "ext" => "ext"
        | .err _ => "err"
        | .panic _ => "panic"
      | none => "bad-op"
    | _ => "bad-op"
  | "load_perm" =>
    -- load_perm <i0,i1,…> <hex>
    some <| match args with
    | [p, h] =>
      match (p.splitOn ",").mapM String.toNat?, bytesOfHex h with
      | some order, some bs =>
        match loadDocF2 (some order) none bs with
        | .ok l => showLoaded l
        | .err "ext" => "ext"
        | .err _ => "err"
        | .panic _ => "panic"
      | _, _ => "bad-op"
    | _ => "bad-op"
  | "load_zero" =>
    -- load_zero <k> <hex> : completion order of the deferred streams chosen through hook H2
    some <| match args with
    | [k, h] =>
      match k.toNat?, bytesOfHex h with
      | some k, some bs =>
        match loadDocF2 none (some k) bs with
        | .ok l => showLoaded l
        | .err "ext" => "ext"
        | .err _ => "err"
        | .panic _ => "panic"
      | _, _ => "bad-op"
    | _ => "bad-op"
  | _ => none

end Lopdf.Driver.C02
