import Driver.Codec
import LopdfModel.Model.Crypt
import LopdfModel.Spec.Hash
import LopdfModel.Spec.Aes
import LopdfModel.Spec.SecHandler
namespace Lopdf.Driver.C05
open Lopdf Lopdf.Codec Lopdf.Crypt

/-- concrete RC4 for the spec's `SPrims` is the Spec RC4 of Driver/C06; here only hashes / AES. -/
def specPrims : Spec.Sec.SPrims :=
  { md5 := Spec.md5, sha256 := Spec.sha256, sha384 := Spec.sha384, sha512 := Spec.sha512,
    aesEnc := Spec.aesEncBlock, aesDec := Spec.aesDecBlock, rc4 := fun _ d => d }

abbrev H2bTable := List ((Bytes × Bytes × Bytes) × Bytes)

/-- the primitives the model is run with: Lean reference implementations of MD5 / SHA-2 / AES
(Spec/Hash.lean, Spec/Aes.lean); Algorithm 2.B is part of the model itself.  (The `ext` table of
Algorithm-2.B results that requests still carry is ignored.) -/
def prims (_tbl : H2bTable) : Prims :=
  { md5 := Spec.md5, sha256 := Spec.sha256, sha384 := Spec.sha384, sha512 := Spec.sha512,
    aesEnc := Spec.aesEncBlock, aesDec := Spec.aesDecBlock }

def cfOfTok : String → Option CF
  | "I" => some .identity | "R" => some .rc4 | "A" => some .aes128 | "B" => some .aes256 | _ => none
def tokOfCF : CF → String
  | .identity => "I" | .rc4 => "R" | .aes128 => "A" | .aes256 => "B"

def errTok : Err → String
  | .invalidKeyLength => "InvalidKeyLength"
  | .invalidCipherTextLength => "InvalidCipherTextLength"
  | .padding => "Padding"
  | .incorrectPassword => "IncorrectPassword"
  | .alreadyEncrypted => "AlreadyEncrypted"
  | .notEncrypted => "NotEncrypted"
  | .invalidRevision => "InvalidRevision"
  | .unsupportedRevision => "UnsupportedRevision"
  | .other w => w

abbrev Toks := List String
abbrev Parser (α : Type) := Toks → Option (α × Toks)

def pBytes : Parser Bytes
  | t :: rest => (bytesOfHex t).map (·, rest)
  | [] => none
def pNat : Parser Nat
  | t :: rest => t.toNat?.map (·, rest)
  | [] => none
def pBool : Parser Bool
  | "1" :: rest => some (true, rest)
  | "0" :: rest => some (false, rest)
  | _ => none
def pMany {α} (p : Parser α) : Nat → Parser (List α)
  | 0, ts => some ([], ts)
  | n + 1, ts => do
    let (a, ts) ← p ts
    let (as, ts) ← pMany p n ts
    pure (a :: as, ts)
def pList {α} (p : Parser α) : Parser (List α) := fun ts => do
  let (n, ts) ← pNat ts
  pMany p n ts
def pFilter : Parser (Bytes × CF) := fun ts => do
  let (n, ts) ← pBytes ts
  match ts with
  | c :: ts => (cfOfTok c).map (fun f => ((n, f), ts))
  | [] => none
def pOptNat : Parser (Option Nat)
  | "-1" :: rest => some (none, rest)
  | t :: rest => t.toNat?.map (fun n => (some n, rest))
  | [] => none

def pState : Parser EncState := fun ts => do
  let (version, ts) ← pNat ts
  let (revision, ts) ← pNat ts
  let (keyLength, ts) ← pOptNat ts
  let (em, ts) ← pBool ts
  let (fs, ts) ← pList pFilter ts
  let (fileKey, ts) ← pBytes ts
  let (stmF, ts) ← pBytes ts
  let (strF, ts) ← pBytes ts
  let (o, ts) ← pBytes ts
  let (oe, ts) ← pBytes ts
  let (u, ts) ← pBytes ts
  let (ue, ts) ← pBytes ts
  let (perms, ts) ← pNat ts
  let (pe, ts) ← pBytes ts
  pure ({ version, revision, keyLength, encryptMetadata := em, cryptFilters := fs, fileKey, stmF, strF,
          ownerValue := o, ownerEncrypted := oe, userValue := u, userEncrypted := ue,
          permissions := perms, permsEncrypted := pe }, ts)

def showState (s : EncState) : String :=
  String.intercalate " " ([toString s.version, toString s.revision,
    (match s.keyLength with | some l => toString l | none => "-1"), (if s.encryptMetadata then "1" else "0"),
    toString s.cryptFilters.length] ++ s.cryptFilters.flatMap (fun (n, f) => [hexTok n, tokOfCF f]) ++
    [hexTok s.fileKey, hexTok s.stmF, hexTok s.strF, hexTok s.ownerValue, hexTok s.ownerEncrypted,
     hexTok s.userValue, hexTok s.userEncrypted, toString s.permissions, hexTok s.permsEncrypted])

def pVersion : Parser Version
  | "v1" :: rest => some (.v1, rest)
  | "v4" :: rest => some (.v4, rest)
  | "r5" :: rest => some (.r5, rest)
  | "v5" :: rest => some (.v5, rest)
  | "v2" :: l :: rest => l.toNat?.map (fun l => (.v2 l, rest))
  | _ => none

def pConfig : Parser Config := fun ts => do
  let (ver, ts) ← pVersion ts
  let (em, ts) ← pBool ts
  let (fs, ts) ← pList pFilter ts
  let (stmF, ts) ← pBytes ts
  let (strF, ts) ← pBytes ts
  let (fileKey, ts) ← pBytes ts
  let (ownerPw, ts) ← pBytes ts
  let (userPw, ts) ← pBytes ts
  let (perms, ts) ← pNat ts
  pure ({ ver, encryptMetadata := em, cryptFilters := fs, stmF, strF, fileKey, ownerPw, userPw, permissions := perms }, ts)

def pH2b : Parser H2bTable := pList fun ts => do
  let (pw, ts) ← pBytes ts
  let (salt, ts) ← pBytes ts
  let (u, ts) ← pBytes ts
  let (out, ts) ← pBytes ts
  pure (((pw, salt, u), out), ts)

def pIVs : Parser IVs := fun ts => do
  let (l, ts) ← pList pBytes ts
  pure (fun n => l.getD n [], ts)

def pObjT : Parser Obj := fun ts => parseObj ts
def pObjects : Parser Objects := fun ts => do
  let (k, ts) ← pNat ts
  parseObjects k ts

def pDoc : Parser Doc := fun ts => do
  let (maxId, ts) ← pNat ts
  let (tr, ts) ← pObjT ts
  let (os, ts) ← pObjects ts
  match tr with
  | .dict d => pure ({ trailer := d, objects := os, maxId }, ts)
  | _ => none

def showDoc (d : Doc) : String :=
  toString d.maxId ++ " " ++ showObj (.dict d.trailer) ++ " " ++ showObjects d.objects

def showExcept {α} (f : α → String) : Except Err α → String
  | .ok a => "ok " ++ f a
  | .error e => "err " ++ errTok e

def run {α} (p : Parser α) (args : Toks) (k : α → String) : String :=
  match p args with
  | some (a, []) => k a
  | _ => "bad-op"

def handle (op : String) (args : List String) : Option String :=
  match op with
  | "c5_rc4" => some <| run (fun ts => do let (k, ts) ← pBytes ts; let (d, ts) ← pBytes ts; pure ((k, d), ts)) args
      fun (k, d) => if rc4KeyOk k then "ok " ++ hexTok (rc4 k d) else "panic"
  | "c5_key" => some <| run (fun ts => do
        let (f, ts) ← pFilter (("-" : String) :: ts)
        let (k, ts) ← pBytes ts; let (n, ts) ← pNat ts; let (g, ts) ← pNat ts; pure ((f.2, k, n, g), ts)) args
      fun (f, k, n, g) => "ok " ++ hexTok (f.computeKey (prims []) k (n, g))
  | "c5_filt" => some <| match args with
      | dir :: rest => run (fun ts => do
          let (f, ts) ← pFilter (("-" : String) :: ts)
          let (k, ts) ← pBytes ts; let (iv, ts) ← pBytes ts; let (d, ts) ← pBytes ts; pure ((f.2, k, iv, d), ts)) rest
        fun (f, k, iv, d) =>
          if dir = "enc" then showExcept hexTok (f.encrypt (prims []) k iv d)
          else if dir = "dec" then showExcept hexTok (f.decrypt (prims []) k d) else "bad-op"
      | [] => "bad-op"
  -- `c5_sanitize <utf-16 code units, 4 hex digits each>`
  | "c5_sanitize" => some <| run pBytes args fun bs =>
      let rec units : Bytes → Option (List Nat)
        | [] => some []
        | hi :: lo :: rest => (units rest).map (fun t => (hi.toNat * 256 + lo.toNat) :: t)
        | _ => none
      match units bs with
      | none => "bad-op"
      | some us => match sanitizeR4 us with
        | some b => "ok " ++ hexTok b
        | none => "err UnrepresentablePassword"
  | "c5_pkcs5" => some <| run pBytes args fun d =>
      match pkcs5Unpad d with | some p => "ok " ++ hexTok p | none => "err Padding"
  | "c5_mkstate" => some <| run (fun ts => do
        let (c, ts) ← pConfig ts
        let (fid, ts) ← pBytes ts
        let (uTail, ts) ← pBytes ts; let (uSalts, ts) ← pBytes ts; let (oSalts, ts) ← pBytes ts; let (pr, ts) ← pBytes ts
        let (tbl, ts) ← pH2b ts
        pure ((c, fid, ({ uTail, uSalts, oSalts, permsRnd := pr } : Rand), tbl), ts)) args
      fun (c, fid, rnd, tbl) => showExcept showState (stateOfConfig (prims tbl) c fid rnd)
  | "c5_encobj" => some <| run (fun ts => do
        let (st, ts) ← pState ts; let (n, ts) ← pNat ts; let (g, ts) ← pNat ts
        let (o, ts) ← pObjT ts; let (ivs, ts) ← pIVs ts; pure ((st, n, g, o, ivs), ts)) args
      fun (st, n, g, o, ivs) => showExcept (fun (r : Obj × Nat) => showObj r.1 ++ " " ++ toString r.2) (encObj (prims []) st (n, g) ivs o 0)
  | "c5_decobj" => some <| run (fun ts => do
        let (st, ts) ← pState ts; let (n, ts) ← pNat ts; let (g, ts) ← pNat ts
        let (o, ts) ← pObjT ts; pure ((st, n, g, o), ts)) args
      fun (st, n, g, o) => showExcept showObj (decObj (prims []) st (n, g) o)
  | "c5_encdoc" => some <| run (fun ts => do
        let (st, ts) ← pState ts; let (d, ts) ← pDoc ts; let (ivs, ts) ← pIVs ts; pure ((st, d, ivs), ts)) args
      fun (st, d, ivs) => showExcept showDoc (d.encrypt (prims []) st ivs)
  | "c5_decdoc" => some <| run (fun ts => do
        let (d, ts) ← pDoc ts; let (pw, ts) ← pBytes ts; let (tbl, ts) ← pH2b ts; pure ((d, pw, tbl), ts)) args
      fun (d, pw, tbl) => showExcept showDoc (d.decryptRaw (prims tbl) pw)
  | _ => none

end Lopdf.Driver.C05
