import Driver.Codec
namespace Lopdf.Driver.C05
open Lopdf Lopdf.Codec

/-- protocol operations of property C05: `none` = not an operation of this property. -/
def handle (op : String) (args : List String) : Option String := none

end Lopdf.Driver.C05
