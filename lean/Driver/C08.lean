import Driver.Codec
namespace Lopdf.Driver.C08
open Lopdf Lopdf.Codec

/-- protocol operations of property C08: `none` = not an operation of this property. -/
def handle (op : String) (args : List String) : Option String := none

end Lopdf.Driver.C08
