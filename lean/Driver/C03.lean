import Driver.Codec
namespace Lopdf.Driver.C03
open Lopdf Lopdf.Codec

/-- protocol operations of property C03: `none` = not an operation of this property. -/
def handle (op : String) (args : List String) : Option String := none

end Lopdf.Driver.C03
