import Driver.Codec
import LopdfModel.Spec.Strict
namespace Lopdf.Driver.C03
open Lopdf Lopdf.Codec

/-- `strict <hex>` -> `ok <revisions> <objects> <version hex> <xref streams>` | `err`
(the Lean strict structural reader `Spec/Strict.lean` on a whole file) -/
def handle (op : String) (args : List String) : Option String :=
  match op with
  | "strict" =>
    some <| match args with
      | [h] =>
        (match bytesOfHex h with
         | none => "bad-op"
         | some b =>
           match Strict.strictLoad b with
           | .ok sd => s!"ok {sd.revisions} {sd.objects.length} {hexTok sd.version} {sd.xrefStreamIds.length}"
           | .error _ => "err")
      | _ => "bad-op"
  | _ => none

end Lopdf.Driver.C03
