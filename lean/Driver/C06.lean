import Driver.Codec
import Driver.C05
import LopdfModel.Spec.SecHandler
import LopdfModel.Spec.Hash
import LopdfModel.Spec.Aes
namespace Lopdf.Driver.C06
open Lopdf Lopdf.Codec Lopdf.Spec.Sec Lopdf.Driver.C05

/-- Spec RC4, written from the algorithm description with arithmetic mod 256 on naturals
(independent of the model's RC4 in Model/Crypt.lean). -/
def specRc4 (key data : Bytes) : Bytes := Id.run do
  if key.isEmpty then return []
  let kl := key.length
  let ka := key.toArray
  let mut s : Array Nat := Array.range 256
  let mut j := 0
  for i in [0:256] do
    j := (j + s[i]! + (ka[i % kl]!).toNat) % 256
    let t := s[i]!; s := s.set! i s[j]!; s := s.set! j t
  let mut i := 0
  j := 0
  let mut out : Array UInt8 := #[]
  for b in data do
    i := (i + 1) % 256
    j := (j + s[i]!) % 256
    let t := s[i]!; s := s.set! i s[j]!; s := s.set! j t
    out := out.push (b ^^^ (s[(s[i]! + s[j]!) % 256]!).toUInt8)
  return out.toList

/-- the ISO transcription run on Lean reference primitives -/
def SP : SPrims :=
  { md5 := Spec.md5, sha256 := Spec.sha256, sha384 := Spec.sha384, sha512 := Spec.sha512,
    aesEnc := Spec.aesEncBlock, aesDec := Spec.aesDecBlock, rc4 := specRc4 }

def pOptBytes : Parser (Option Bytes)
  | "none" :: rest => some (none, rest)
  | t :: rest => (bytesOfHex t).map (fun b => (some b, rest))
  | [] => none

def pParams : Parser Params := fun ts => do
  let (r, ts) ← pNat ts; let (n, ts) ← pNat ts; let (p, ts) ← pNat ts; let (em, ts) ← pBool ts; let (fid, ts) ← pBytes ts
  pure ({ r, n, p, fileId := fid, encryptMetadata := em }, ts)

def b01 (b : Bool) : String := if b then "1" else "0"

def handle (op : String) (args : List String) : Option String :=
  match op with
  | "c6_selftest" => some <|
      -- RFC 1321 / FIPS 180-4 / FIPS 197 / RC4 ("Key","Plaintext") vectors
      let abc := "abc".toUTF8.toList
      let ok := hexOfBytes (Spec.md5 abc) == "900150983cd24fb0d6963f7d28e17f72"
        && hexOfBytes (Spec.sha256 abc) == "ba7816bf8f01cfea414140de5dae2223b00361a396177a9cb410ff61f20015ad"
        && hexOfBytes ((Spec.sha384 abc).take 8) == "cb00753f45a35e8b"
        && hexOfBytes ((Spec.sha512 abc).take 8) == "ddaf35a193617aba"
        && hexOfBytes (Spec.aesEncBlock ((List.range 16).map Nat.toUInt8) ((List.range 16).map fun i => (i * 17).toUInt8)) == "69c4e0d86a7b0430d8cdb78070b4c55a"
        && hexOfBytes (Spec.aesEncBlock ((List.range 32).map Nat.toUInt8) ((List.range 16).map fun i => (i * 17).toUInt8)) == "8ea2b7ca516745bfeafc49904b496089"
        && hexOfBytes (specRc4 "Key".toUTF8.toList "Plaintext".toUTF8.toList) == "bbf316e8d940af0ad3"
      if ok then "ok" else "FAILED"
  | "c6_prim" => some <| match args with
      | [which, d] => match bytesOfHex d with
        | some d => "ok " ++ hexTok (match which with
            | "md5" => Spec.md5 d | "sha256" => Spec.sha256 d | "sha384" => Spec.sha384 d | "sha512" => Spec.sha512 d | _ => [])
        | none => "bad-op"
      | [which, k, d] => match bytesOfHex k, bytesOfHex d with
        | some k, some d => "ok " ++ hexTok (match which with
            | "aesenc" => Spec.aesEncBlock k d | "aesdec" => Spec.aesDecBlock k d | "rc4" => specRc4 k d | _ => [])
        | _, _ => "bad-op"
      | _ => "bad-op"
  | "c6_hash2b" => some <| Lopdf.Driver.C05.run (fun ts => do
        let (pw, ts) ← pBytes ts; let (salt, ts) ← pBytes ts; let (u, ts) ← pBytes ts; pure ((pw, salt, u), ts)) args
      fun (pw, salt, u) => "ok " ++ hexTok (alg2B SP pw salt u)
  -- revisions 2–4: O, significant part of U, file key
  | "c6_dict" => some <| Lopdf.Driver.C05.run (fun ts => do
        let (q, ts) ← pParams ts; let (o, ts) ← pOptBytes ts; let (u, ts) ← pBytes ts; pure ((q, o, u), ts)) args
      fun (q, owner, user) =>
        let o := alg3 SP q owner user
        let u := if q.r = 2 then alg4 SP q o user else alg5 SP q o user
        "ok " ++ hexTok o ++ " " ++ hexTok u ++ " " ++ hexTok (alg2 SP q o user)
  -- authentication R2–4: owner? user?  (Algorithm 7, Algorithm 6)
  | "c6_auth" => some <| Lopdf.Driver.C05.run (fun ts => do
        let (q, ts) ← pParams ts; let (o, ts) ← pBytes ts; let (u, ts) ← pBytes ts; let (pw, ts) ← pBytes ts; pure ((q, o, u, pw), ts)) args
      fun (q, o, u, pw) => "ok " ++ b01 (alg7 SP q o u pw).isSome ++ " " ++ b01 (alg6 SP q o u pw).isSome
  -- revision 5 / 6: U UE O OE (Perms is reported separately: see c6_perms)
  | "c6_dict6" => some <| Lopdf.Driver.C05.run (fun ts => do
        let (r, ts) ← pNat ts; let (key, ts) ← pBytes ts; let (opw, ts) ← pBytes ts; let (upw, ts) ← pBytes ts
        let (us, ts) ← pBytes ts; let (os, ts) ← pBytes ts; pure ((r, key, opw, upw, us, os), ts)) args
      fun (r, key, opw, upw, us, os) =>
        let (u, ue) := alg8 SP r upw key us
        let (o, oe) := alg9 SP r opw key os u
        "ok " ++ hexTok u ++ " " ++ hexTok ue ++ " " ++ hexTok o ++ " " ++ hexTok oe
  | "c6_perms" => some <| Lopdf.Driver.C05.run (fun ts => do
        let (p, ts) ← pNat ts; let (em, ts) ← pBool ts; let (key, ts) ← pBytes ts; let (rnd, ts) ← pBytes ts; pure ((p, em, key, rnd), ts)) args
      fun (p, em, key, rnd) => "ok " ++ hexTok (alg10 SP p em key rnd)
  | "c6_key6" => some <| Lopdf.Driver.C05.run (fun ts => do
        let (r, ts) ← pNat ts; let (o, ts) ← pBytes ts; let (u, ts) ← pBytes ts; let (oe, ts) ← pBytes ts; let (ue, ts) ← pBytes ts
        let (pw, ts) ← pBytes ts; pure ((r, o, u, oe, ue, pw), ts)) args
      fun (r, o, u, oe, ue, pw) => match alg2A SP r o u oe ue pw with
        | some k => "ok " ++ hexTok k
        | none => "rejected"
  -- string / stream data: Algorithm 1 (RC4, AESV2) and 1.A (AESV3)
  | "c6_data" => some <| match args with
      | [m, key, num, gen, iv, d] =>
        match bytesOfHex key, num.toNat?, gen.toNat?, bytesOfHex iv, bytesOfHex d with
        | some key, some num, some gen, some iv, some d =>
          "ok " ++ hexTok (match m with
            | "V2" => SP.rc4 (objectKey SP key num gen false) d
            | "AESV2" => aesData SP (objectKey SP key num gen true) iv d
            | "AESV3" => aesData SP key iv d
            | _ => [])
        | _, _, _, _, _ => "bad-op"
      | _ => "bad-op"
  | _ => none

end Lopdf.Driver.C06
