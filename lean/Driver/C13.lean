import Driver.Codec
import LopdfModel.Model.Outlines
import LopdfModel.Model.ExtractText
/-
  Protocol operation of property C13:
    c13 <mode> <fuel> <nt> <target id>* <trailer-obj> <k> (<num> <gen> <obj>)*
  mode = all | nowalk | one=<field>; reply = one `field=value` token per query, value =
  ok[,digest] | err | panic@<site> | diverge (fuel exhausted in an unguarded walker).
-/
namespace Lopdf.Driver.C13
open Lopdf Lopdf.Codec Lopdf.Gen Lopdf.Q13

/-- bytes the worker process may still allocate (harness: `ulimit -v`); generated `Count`
values stay far away from this boundary on both sides -/
def MEM_MAX : Nat := 2 ^ 33

def idStr (id : ObjId) : String := toString id.1 ++ "_" ++ toString id.2
def idsStr (ids : List ObjId) : String := "+".intercalate (ids.map idStr)
def variant : Obj → String
  | .null => "Null" | .bool _ => "Boolean" | .int _ => "Integer" | .real _ => "Real"
  | .name _ => "Name" | .str _ _ => "String" | .arr a => "Array" ++ toString a.length
  | .dict d => "Dictionary" ++ toString d.length | .stream d _ => "Stream" ++ toString d.length
  | .ref _ _ => "Reference"
def objTok (o : Obj) : String := (showObj o).replace " " "~"
def okS (s : String) : String := if s.isEmpty then "ok" else "ok," ++ s
def outS : Outcome String → String
  | .ok s => okS s
  | .err _ => "err"
  | .panic s => "panic@" ++ s
def outF : Option (Outcome String) → String
  | none => "diverge"
  | some r => outS r
def optO {α} (f : α → String) (o : Option α) : Outcome String := (Outcome.ofOpt o).map f

partial def outlineDigest : Outline → String
  | .dest d => "d(" ++ ((Dict.get d K_Title).map objTok).getD "-" ++ "|" ++ ((Dict.get d PAGE).map objTok).getD "-" ++ ")"
  | .sub items => "[" ++ String.join (items.map outlineDigest) ++ "]"

def namedDigest (n : Named) : String :=
  toString n.length ++ String.join (n.map fun (k, v) =>
    match v with
    | .dict d => ":" ++ hexTok k ++ "(" ++ ((Dict.get d K_Title).map objTok).getD "-" ++ "|" ++ ((Dict.get d PAGE).map objTok).getD "-" ++ ")"
    | _ => ":?")

def imgStr (i : Img) : String :=
  idStr i.id ++ "." ++ toString i.width ++ "." ++ toString i.height ++ "." ++ (if i.hasCs then "s" else "n") ++ "." ++
    (match i.bpc with | some b => toString b | none => "n") ++ "." ++ toString i.nfilters

def encStr : EncKind → String
  | .one t => "one:" ++ t
  | .simple n => "simple:" ++ hexTok n
  | .toUnicode => "tounicode"

def parseId (s : String) : Option ObjId :=
  match s.splitOn "_" with
  | [a, b] => do let n ← a.toNat?; let g ← b.toNat?; pure (n, g)
  | _ => none

def fieldNames (targets : List ObjId) : List String :=
  ["cat", "enc", "cf", "iter", "pages"] ++
  (targets.map fun t => ["go", "gom", "gd", "pc", "pcc", "pr", "pf", "pa", "pi", "op", "fe", "nd", "ol"].map (· ++ ":" ++ idStr t)).flatten ++
  ["outl", "toc", "dests", "xt"]

/-- flate2 / weezl are never consulted on the documents the `xt` field is compared on (no `Filter`) -/
def noExt : Ext := { inflate := fun b => b, lzw := fun _ b => b }

/-- is `extract_text` of this page outside the composed model: a font with a UTF-16 `Encoding` name
(encoding_rs), or a content / ToUnicode stream with a `Filter` (flate2 / weezl are parameters)? -/
def xtOutOfModel (os : Objects) (pid : ObjId) : Bool :=
  (match getPageFonts os pid with
   | .ok fonts => fonts.any fun (_, f) =>
       (match toUnicodeStream os f with
        | some (d, _) => d.has K_Filter
        | none => false) ||
       (match (Dict.get f K_Encoding).bind Obj.asName with
         | some n => SIMPLE_UTF16_NAMES.contains n
         | none => false)
   | _ => false) ||
  (getPageContents os pid).any fun id =>
    match (getObject os id).bind Obj.asStream with
    | some (d, _) => d.has K_Filter
    | none => false

def xtField (tr : Dict) (os : Objects) : String :=
  match getPages MEM_MAX tr os with
  | .ok pages =>
    let nums := (List.range (min pages.length 3)).map (· + 1)
    if nums.any (fun n => match pageByNumber pages n with
        | some pid => xtOutOfModel os pid
        | none => false) then "ok,?"
    else outS ((extractTextDoc MEM_MAX noExt tr os nums).map fun t => ".".intercalate (t.map toString))
  | .err _ => "err"
  | .panic s => "panic@" ++ s

def isWalker (f : String) : Bool := f == "outl" || f == "toc" || f == "dests" || f.startsWith "nd:"

def pagesStr (r : Outcome (List ObjId)) : String :=
  outS (r.map fun l => toString l.length ++ "," ++ idsStr l)

def evalField (tr : Dict) (os : Objects) (_fuel : Nat) (field : String) : String :=
  let (q, t) : String × ObjId := match field.splitOn ":" with
    | [q, a] => (q, (parseId a).getD (0, 0))
    | _ => (field, (0, 0))
  match q with
  | "cat" => outS (optO (fun d => toString d.length) (catalog tr os))
  | "enc" => outS (optO (fun d => toString d.length) (getEncrypted tr os))
  | "cf" => let m := getCryptFilters tr os
            okS (toString m.length ++ String.join (m.map fun (k, _) => ":" ++ hexTok k))
  | "iter" => outS ((collectPages 8 MEM_MAX tr os).map fun (l, c) => toString l.length ++ "," ++ toString c ++ "," ++ idsStr l)
  | "pages" => pagesStr (getPages MEM_MAX tr os)
  | "go" => outS (optO variant (getObject os t))
  | "gom" => outS ((getObjectMut os t).map variant)
  | "gd" => outS (optO (fun d => toString d.length) (getDictionary os t))
  | "pc" => okS (idsStr (getPageContents os t))
  | "pcc" => outS ((getPageContent (fun _ _ => .err "filter") os t).map fun _ => "")
  | "pr" => outS ((getPageResources os t).map fun (d, ids) =>
      (match d with | some d => "d" ++ toString d.length | none => "n") ++ "," ++ idsStr ids)
  | "pf" => outS ((getPageFonts os t).map fun fs => "+".intercalate (fs.map fun (k, d) => hexTok k ++ "." ++ toString d.length))
  | "pa" => outS ((getPageAnnotations os t).map toString)
  | "pi" => outS ((getPageImages os t).map fun is => "+".intercalate (is.map imgStr))
  | "op" => outS ((getObjectPage MEM_MAX tr os t).map idStr)
  | "fe" => outS (match getDictionary os t with
      | none => E
      | some d => (Q13.getFontEncoding os d).map encStr)
  | "nd" => (match getDictionary os t with
      | none => "err"
      | some d => outS ((namedDests os d []).map namedDigest))
  | "ol" => (match getDictionary os t with
      | none => "err"
      | some d => outS ((getOutline os d []).map fun (o, _) =>
          match o with
          | some x => outlineDigest x
          | none => "none"))
  | "dests" => (match (catalog tr os).bind (destTree os) with
      | none => "err"
      | some t => outS ((namedDests os t []).map namedDigest))
  | "outl" => outS ((getOutlines tr os).map fun (l, nm) =>
      "[" ++ String.join (l.map outlineDigest) ++ "]," ++ namedDigest nm)
  | "xt" => xtField tr os
  | "toc" => outS ((getToc MEM_MAX tr os).map fun (es, nerr) =>
      toString es.length ++ String.join (es.map fun (lv, pg) => ":" ++ toString lv ++ "." ++ toString pg) ++ "," ++ toString nerr)
  | _ => "bad-field"

def parseTargets : Nat → List String → Option (List ObjId × List String)
  | 0, ts => some ([], ts)
  | n + 1, t :: ts => do
    let id ← parseId t
    let (ids, rest) ← parseTargets n ts
    pure (id :: ids, rest)
  | _, [] => none

def handle (op : String) (args : List String) : Option String :=
  match op with
  | "c13" =>
    some <| match args with
    | mode :: fuelS :: ntS :: rest =>
      match fuelS.toNat?, ntS.toNat?.bind (fun n => parseTargets n rest) with
      | some fuel, some (targets, rest1) =>
        match parseObj rest1 with
        | some (.dict tr, k :: rest2) =>
          match k.toNat?.bind (fun k => parseObjects k rest2) with
          | some (os, []) =>
            let fields : List String :=
              if mode.startsWith "one=" then [(mode.drop 4).toString]
              else (fieldNames targets).filter fun f => !(mode == "nowalk" && isWalker f)
            " ".intercalate (fields.map fun f => f ++ "=" ++ evalField tr os fuel f)
          | _ => "bad-op"
        | _ => "bad-op"
      | _, _ => "bad-op"
    | _ => "bad-op"
  | _ => none

end Lopdf.Driver.C13
