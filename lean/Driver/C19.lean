import Driver.Codec
import LopdfModel.Model.Sink
namespace Lopdf.Driver.C19
open Lopdf Lopdf.Codec

/-- script tokens: `a<k>` accept k, `a<k>x<n>` n times, `i` interrupted, `e` fail, `z` = accept 0 -/
def parseResp (t : String) : Option (List Resp) :=
  match t.toList with
  | ['i'] => some [.interrupted]
  | ['e'] => some [.fail]
  | ['z'] => some [.accept 0]
  | 'a' :: rest =>
    match (String.ofList rest).splitOn "x" with
    | [k] => k.toNat?.map fun k => [.accept k]
    | [k, n] => do let k ← k.toNat?; let n ← n.toNat?; pure (List.replicate n (.accept k))
    | _ => none
  | _ => none

/-- `sink <script-token>* ; <chunk-hex>*` -> `ok|err <delivered-len>` -/
def handle (op : String) (args : List String) : Option String :=
  match op with
  | "sink" =>
    let script := args.takeWhile (· ≠ ";")
    let chunks := (args.dropWhile (· ≠ ";")).drop 1
    some <| match script.mapM parseResp, chunks.mapM bytesOfHex with
    | some rs, some cs =>
      let r := saveRun cs rs.flatten
      (if r.ok then "ok " else "err ") ++ toString r.delivered.length
    | _, _ => "bad-op"
  | _ => none

end Lopdf.Driver.C19
