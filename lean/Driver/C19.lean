import Driver.Codec
import LopdfModel.Model.SaveSink
namespace Lopdf.Driver.C19
open Lopdf Lopdf.Codec

/-- script tokens: `a<k>` accept k, `a<k>x<n>` n times, `i` interrupted, `e` fail, `z` = accept 0 -/
def parseResp (t : String) : Option (List Resp) :=
  match t.toList with
  | ['i'] => some [.interrupted]
  | ['e'] => some [.fail]
  | ['z'] => some [.accept 0]
  | 'a' :: rest =>
    match (String.ofList rest).splitOn "x" with
    | [k] => k.toNat?.map fun k => [.accept k]
    | [k, n] => do let k ← k.toNat?; let n ← n.toNat?; pure (List.replicate n (.accept k))
    | _ => none
  | _ => none

/-- `sink <script-token>* ; <chunk-hex>*` -> `ok|err <delivered-len>` -/
def handle (op : String) (args : List String) : Option String :=
  match op with
  | "sink" =>
    let script := args.takeWhile (· ≠ ";")
    let chunks := (args.dropWhile (· ≠ ";")).drop 1
    some <| match script.mapM parseResp, chunks.mapM bytesOfHex with
    | some rs, some cs =>
      let r := saveRun cs rs.flatten
      (if r.ok then "ok " else "err ") ++ toString r.delivered.length
    | _, _ => "bad-op"
  | "c19_save" =>
    -- c19_save table|stream <maxId> <version-hex> <mark-hex> <prev-hex|-> <trailer> <k> (<num> <gen> <obj>)* ; <script-token>* ; <chunk-hex>*
    -- -> ok|err <delivered-len> <maxId held afterwards> <trailer held afterwards>
    --    the recorded requests (the previous file first, for an incremental save) must concatenate to the model's bytes and
    --    have a request boundary at the model's mutation point
    some <| match args with
    | kind :: mx :: ver :: mark :: prev :: rest =>
      match mx.toNat?, bytesOfHex ver, bytesOfHex mark, bytesOfHex prev, parseObj rest with
      | some maxId, some version, some bm, some pv, some (.dict tr, k :: rest') =>
        match k.toNat?.bind (fun k => parseObjects k rest') with
        | some (os, ";" :: tail) =>
          let script := tail.takeWhile (· ≠ ";")
          let chunks := (tail.dropWhile (· ≠ ";")).drop 1
          match script.mapM parseResp, chunks.mapM bytesOfHex with
          | some rs, some cs =>
            let d : SDoc := { version := version, binaryMark := bm, trailer := tr, objects := os, maxId := maxId,
                              xrefKind := if kind = "stream" then .stream else .table }
            let pre := pv ++ (match pv.getLast? with | none => [] | some b => if b = 10 then [] else [10])
            match saveFrom pre d with
            | none => "err-mark"
            | some (bytes, d') =>
              if cs.flatten != bytes then "requests-differ-from-model-bytes" else
              match splitRequests cs (mutationOffset pre d) with
              | none => "no-request-boundary-at-mutation-point"
              | some (before, after) =>
                let r := saveSink before after rs.flatten
                let held := docAfter d d' r
                (if r.ok then "ok " else "err ") ++ toString r.delivered.length
                  ++ " " ++ toString held.maxId ++ " " ++ showObj (.dict held.trailer)
          | _, _ => "bad-op"
        | _ => "bad-op"
      | _, _, _, _, _ => "bad-op"
    | _ => "bad-op"
  | _ => none

end Lopdf.Driver.C19
