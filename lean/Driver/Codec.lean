import LopdfModel.Model.Obj
/-
  Text codec of the line protocol (DESIGN §3.2). Not part of the model: this is
  I/O glue of the driver and is exercised by every correspondence run.
  Bytes are lower-case hex; an object is a prefix code over space-separated tokens.
-/
namespace Lopdf.Codec
open Lopdf

def hexOfBytes (bs : Bytes) : String :=
  String.ofList (bs.foldr (fun (b : UInt8) acc =>
    Char.ofNat (hexDigitL (b >>> 4)).toNat :: Char.ofNat (hexDigitL (b &&& 15)).toNat :: acc) [])

partial def bytesOfHexChars : List Char → Option Bytes
  | [] => some []
  | a :: b :: rest =>
    let x := a.toNat.toUInt8; let y := b.toNat.toUInt8
    if isHexDigit x && isHexDigit y then
      (bytesOfHexChars rest).map (fun t => (hexVal x <<< 4 ||| hexVal y) :: t)
    else none
  | _ => none

/-- `-` denotes the empty byte string when a token must be non-empty. -/
def bytesOfHex (s : String) : Option Bytes :=
  if s = "-" then some [] else bytesOfHexChars s.toList

def hexTok (bs : Bytes) : String := if bs.isEmpty then "-" else hexOfBytes bs

def tail1 (s : String) : String := String.ofList (s.toList.drop 1)

/-- parse one object from a token list -/
partial def parseObj : List String → Option (Obj × List String)
  | [] => none
  | tok :: rest =>
    match tok.toList with
    | [] => none
    | c :: cs =>
      let body := String.ofList cs
      match c with
      | 'n' => some (.null, rest)
      | 't' => some (.bool true, rest)
      | 'f' => some (.bool false, rest)
      | 'i' => body.toInt?.map (fun i => (.int i, rest))
      | 'r' => some (.real body.toUTF8.toList, rest)
      | 'N' => (bytesOfHexChars cs).map (fun b => (.name b, rest))
      | 'S' => (bytesOfHexChars cs).map (fun b => (.str b .lit, rest))
      | 'H' => (bytesOfHexChars cs).map (fun b => (.str b .hex, rest))
      | 'R' =>
        match body.splitOn "_" with
        | [a, b] => do
          let n ← a.toNat?
          let g ← b.toNat?
          pure (.ref n g, rest)
        | _ => none
      | 'A' => do
        let k ← body.toNat?
        let (items, rest') ← parseN k rest
        pure (.arr items, rest')
      | 'D' => do
        let k ← body.toNat?
        let (es, rest') ← parseKV k rest
        pure (.dict es, rest')
      | 'M' => do
        let k ← body.toNat?
        let (es, rest') ← parseKV k rest
        match rest' with
        | c :: rest'' => do
          let content ← bytesOfHex c
          pure (.stream es content, rest'')
        | [] => none
      | _ => none
where
  parseN : Nat → List String → Option (List Obj × List String)
    | 0, ts => some ([], ts)
    | k+1, ts => do
      let (o, ts') ← parseObj ts
      let (os, ts'') ← parseN k ts'
      pure (o :: os, ts'')
  parseKV : Nat → List String → Option (List (Bytes × Obj) × List String)
    | 0, ts => some ([], ts)
    | k+1, ts =>
      match ts with
      | [] => none
      | key :: ts1 => do
        let kb ← bytesOfHex key
        let (o, ts') ← parseObj ts1
        let (os, ts'') ← parseKV k ts'
        pure ((kb, o) :: os, ts'')

partial def showObj : Obj → String
  | .null => "n"
  | .bool true => "t"
  | .bool false => "f"
  | .int i => "i" ++ toString i
  | .real t => "r" ++ String.ofList (t.map (fun b => Char.ofNat b.toNat))
  | .name n => "N" ++ hexOfBytes n
  | .str s .lit => "S" ++ hexOfBytes s
  | .str s .hex => "H" ++ hexOfBytes s
  | .ref n g => "R" ++ toString n ++ "_" ++ toString g
  | .arr items => "A" ++ toString items.length ++ String.join (items.map (fun o => " " ++ showObj o))
  | .dict es => "D" ++ toString es.length ++ showKV es
  | .stream es c => "M" ++ toString es.length ++ showKV es ++ " " ++ hexTok c
where
  showKV (es : List (Bytes × Obj)) : String :=
    String.join (es.map (fun (k, v) => " " ++ hexTok k ++ " " ++ showObj v))

/-- `objs <k> (<num> <gen> <obj>)*` -/
partial def parseObjects : Nat → List String → Option (Objects × List String)
  | 0, ts => some ([], ts)
  | k+1, ts =>
    match ts with
    | a :: b :: ts1 => do
      let n ← a.toNat?
      let g ← b.toNat?
      let (o, ts2) ← parseObj ts1
      let (os, ts3) ← parseObjects k ts2
      pure (((n, g), o) :: os, ts3)
    | _ => none

def showObjects (os : Objects) : String :=
  toString os.length ++ String.join (os.map (fun ((n, g), o) =>
    " " ++ toString n ++ " " ++ toString g ++ " " ++ showObj o))

def tokens (line : String) : List String :=
  (line.trimAscii.toString.splitOn " ").filter (· ≠ "")

end Lopdf.Codec
