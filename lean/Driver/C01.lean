import Driver.Codec
import LopdfModel.Model.Write
import LopdfModel.Model.Parse
import LopdfModel.Model.File
import LopdfModel.Model.SaveIncrJ
namespace Lopdf.Driver.C01
open Lopdf Lopdf.Codec

/-- `write_obj <obj>` -> `ok <hex>` ;  `parse_obj <hex>` -> `ok <consumed> <obj>` | `err` -/
def handle (op : String) (args : List String) : Option String :=
  match op with
  | "write_obj" =>
    some <| match parseObj args with
    | some (o, []) => "ok " ++ hexTok (writeObj o)
    | _ => "bad-op"
  | "write_ind" =>
    some <| match args with
    | a :: b :: rest =>
      match a.toNat?, b.toNat?, parseObj rest with
      | some n, some g, some (o, []) => "ok " ++ hexTok (writeIndirect n g o)
      | _, _, _ => "bad-op"
    | _ => "bad-op"
  | "save" =>
    -- save table|stream <maxId> <version-hex> <mark-hex> <trailer> <k> (<num> <gen> <obj>)*
    some <| match args with
    | kind :: mx :: ver :: mark :: rest =>
      match mx.toNat?, bytesOfHex ver, bytesOfHex mark, parseObj rest with
      | some maxId, some version, some bm, some (.dict tr, k :: rest') =>
        match k.toNat?.bind (fun k => parseObjects k rest') with
        | some (os, []) =>
          let d : SDoc := { version := version, binaryMark := bm, trailer := tr, objects := os, maxId := maxId,
                            xrefKind := if kind = "stream" then .stream else .table }
          match saveDoc d with
          | some (bytes, d') => "ok " ++ hexTok bytes ++ " " ++ toString d'.maxId ++ " " ++ showObj (.dict d'.trailer)
          | none => "err"
        | _ => "bad-op"
      | _, _, _, _ => "bad-op"
    | _ => "bad-op"
  | "save_incr" =>
    -- save_incr table|stream <maxId> <version-hex> <mark-hex> <prev-hex> <trailer> <k> (<num> <gen> <obj>)*
    some <| match args with
    | kind :: mx :: ver :: mark :: prev :: rest =>
      match mx.toNat?, bytesOfHex ver, bytesOfHex mark, bytesOfHex prev, parseObj rest with
      | some maxId, some version, some bm, some pv, some (.dict tr, k :: rest') =>
        match k.toNat?.bind (fun k => parseObjects k rest') with
        | some (os, []) =>
          let d : SDoc := { version := version, binaryMark := bm, trailer := tr, objects := os, maxId := maxId,
                            xrefKind := if kind = "stream" then .stream else .table }
          match saveIncrJ pv d with
          | some (bytes, d') => "ok " ++ hexTok bytes ++ " " ++ toString d'.maxId ++ " " ++ showObj (.dict d'.trailer)
          | none => "err"
        | _ => "bad-op"
      | _, _, _, _, _ => "bad-op"
    | _ => "bad-op"
  | "parse_obj" =>
    some <| match args with
    | [h] =>
      match bytesOfHex h with
      | some bs =>
        match parseDirect bs with
        | some (o, rest) => "ok " ++ toString (bs.length - rest.length) ++ " " ++ showObj o
        | none => "err"
      | none => "bad-op"
    | _ => "bad-op"
  | _ => none

end Lopdf.Driver.C01
