import Driver.Codec
import LopdfModel.Model.Content
namespace Lopdf.Driver.C14
open Lopdf Lopdf.Codec

partial def parseOps : Nat → List String → Option (List Operation × List String)
  | 0, ts => some ([], ts)
  | n + 1, ts =>
    match ts with
    | oph :: k :: rest => do
      let op ← bytesOfHex oph
      let k ← k.toNat?
      let (objs, rest') ← parseObj.parseN k rest
      let (ops, rest'') ← parseOps n rest'
      pure ({ operator := op, operands := objs } :: ops, rest'')
    | _ => none

def showOps (ops : List Operation) : String :=
  toString ops.length ++ String.join (ops.map fun op =>
    " " ++ hexTok op.operator ++ " " ++ toString op.operands.length ++ String.join (op.operands.map fun o => " " ++ showObj o))

/-- `enc_content <n> (<op-hex> <k> <obj>*)*` -> `ok <hex>` ; `dec_content <hex>` -> `ok <ops>` | `err` | `panic` -/
def handle (op : String) (args : List String) : Option String :=
  match op with
  | "enc_content" =>
    some <| match args with
    | n :: rest =>
      match n.toNat?.bind (fun n => parseOps n rest) with
      | some (ops, []) => "ok " ++ hexTok (encodeContent ops)
      | _ => "bad-op"
    | _ => "bad-op"
  | "dec_content" =>
    some <| match args with
    | [h] =>
      match bytesOfHex h with
      | some bs =>
        match decodeContent bs with
        | .ok ops => "ok " ++ showOps ops
        | .err _ => "err"
        | .panic _ => "panic"
      | none => "bad-op"
    | _ => "bad-op"
  | _ => none

end Lopdf.Driver.C14
