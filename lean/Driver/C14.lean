import Driver.Codec
namespace Lopdf.Driver.C14
open Lopdf Lopdf.Codec

/-- protocol operations of property C14: `none` = not an operation of this property. -/
def handle (op : String) (args : List String) : Option String := none

end Lopdf.Driver.C14
