import Driver.Codec
import Driver.C10
import Driver.C09
import LopdfModel.Model.Edit
namespace Lopdf.Driver.C11
open Lopdf Lopdf.Codec Lopdf.Driver.C10

def showIdList (l : List ObjId) : String :=
  toString l.length ++ String.join (l.map fun (n, g) => " " ++ toString n ++ "_" ++ toString g)

def showOut : Out → String
  | .unit => "unit"
  | .id (n, g) => "id " ++ toString n ++ "_" ++ toString g
  | .obj none => "none"
  | .obj (some o) => "some " ++ showObj o
  | .ids l => "ids " ++ showIdList l
  | .err => "err"

/-- parse one operation, return it with the remaining tokens (the document) -/
def parseOp : List String → Option (Op × List String)
  | "newid" :: ts => some (.newId, ts)
  | "add" :: ts => (parseObj ts).map fun (o, r) => (.add o, r)
  | "set" :: a :: b :: ts => do
    let n ← a.toNat?; let g ← b.toNat?
    let (o, r) ← parseObj ts
    pure (.set (n, g) o, r)
  | "del" :: a :: b :: ts => do
    let n ← a.toNat?; let g ← b.toNat?
    pure (.del (n, g), ts)
  | "prune" :: ts => some (.prune, ts)
  | "delzero" :: ts => some (.delZero, ts)
  | "renum" :: a :: ts => a.toNat?.map fun s => (.renumber s, ts)
  | "delpages" :: ts => (parseNats ts).map fun (l, r) => (.delPages l, r)
  | "addcontent" :: a :: b :: c :: ts => do
    let n ← a.toNat?; let g ← b.toNat?
    let bs ← bytesOfHex c
    pure (.addContent (n, g) bs, ts)
  | "rmannot" :: a :: b :: ts => do
    let n ← a.toNat?; let g ← b.toNat?
    pure (.removeAnnot (n, g), ts)
  | "addxobj" :: a :: b :: nm :: c :: e :: ts => do
    let n ← a.toNat?; let g ← b.toNat?; let name ← bytesOfHex nm
    let xn ← c.toNat?; let xg ← e.toNat?
    pure (.addXObject (n, g) name (xn, xg), ts)
  | "addgs" :: a :: b :: nm :: c :: e :: ts => do
    let n ← a.toNat?; let g ← b.toNat?; let name ← bytesOfHex nm
    let xn ← c.toNat?; let xg ← e.toNat?
    pure (.addGState (n, g) name (xn, xg), ts)
  | "chgstream" :: a :: b :: c :: e :: ts => do
    let n ← a.toNat?; let g ← b.toNat?
    let content ← bytesOfHex c; let defl ← bytesOfHex e
    pure (.changeStream (n, g) content defl, ts)
  | "chgpage" :: a :: b :: c :: e :: ts => do
    let n ← a.toNat?; let g ← b.toNat?
    let content ← bytesOfHex c; let defl ← bytesOfHex e
    pure (.changePage (n, g) content defl, ts)
  | "compress" :: n :: ts => do
    let k ← n.toNat?
    let (tab, rest) ← Lopdf.Driver.C09.parseExt k ts
    pure (.compress (Lopdf.Driver.C09.lookupExt tab "d"), rest)
  | "decompress" :: n :: ts => do
    let k ← n.toNat?
    let (tab, rest) ← Lopdf.Driver.C09.parseExt k ts
    pure (.decompress (Lopdf.Driver.C09.mkExt tab), rest)
  | _ => none

/-- `step <op> <args…> <doc>` -> `ok <out> | <doc>` / `panic <site>` / `err <e>` -/
def handle (op : String) (args : List String) : Option String :=
  match op with
  | "step" =>
    some <| match parseOp args with
    | some (o, rest) =>
      match parseDoc rest with
      | some (d, []) =>
        match step d o with
        | .ok (d', out) => "ok " ++ showOut out ++ " | " ++ showDoc d'
        | .panic site => "panic " ++ site
        | .err e => "err " ++ e
      | _ => "bad-op"
    | none => "bad-op"
  | _ => none

end Lopdf.Driver.C11
