import Driver.Codec
import LopdfModel.Model.Dates
namespace Lopdf.Driver.C18
open Lopdf Lopdf.Codec Lopdf.Gen

def parseFields : List String → Option Fields
  | [y, mo, d, h, mi, s, sg, oh, om] => do
    let y ← y.toNat?; let mo ← mo.toNat?; let d ← d.toNat?; let h ← h.toNat?; let mi ← mi.toNat?; let s ← s.toNat?
    let oh ← oh.toNat?; let om ← om.toNat?
    let neg ← if sg = "+" then some false else if sg = "-" then some true else none
    pure { year := y, month := mo, day := d, hour := h, minute := mi, second := s, offNeg := neg, offH := oh, offM := om }
  | _ => none

def showBytes (r : Option Bytes) : String :=
  match r with
  | some b => "ok " ++ hexTok b
  | none => "none"

def showLocal (f : Fields) : String :=
  toString (epochOf f) ++ " " ++ toString (offsetSeconds f) ++ " " ++ toString f.year ++ " " ++ toString f.month ++ " "
    ++ toString f.day ++ " " ++ toString f.hour ++ " " ++ toString f.minute ++ " " ++ toString f.second

/-- protocol operations of property C18 -/
def handle (op : String) (args : List String) : Option String :=
  match op with
  | "c18.fmt" =>                      -- <producer> y mo d h mi s ± oh om  -> ok <hex>
    some <| match args with
    | which :: rest =>
      match parseFields rest with
      | some f =>
        match which with
        | "chrono_local" => showBytes (chronoLocalString specLib f)
        | "chrono_utc" => showBytes (chronoUtcString specLib f)
        | "jiff_zoned" => showBytes (jiffZonedString specLib f)
        | "jiff_ts" => showBytes (jiffTimestampString specLib f)
        | "time_odt" => showBytes (timeOdtString specLib f)
        | "time_time" => showBytes (timeTimeString specLib f f.hour f.minute f.second)
        | _ => "bad-op"
      | none => "bad-op"
    | [] => "bad-op"
  | "c18.strip" =>                    -- <obj> -> ok <hex> | none
    some <| match parseObj args with
    | some (o, []) => showBytes (asDatetime o)
    | _ => "bad-op"
  | "c18.conv" =>                     -- <hex> -> ok <hex>     (convert_utc_offset)
    some <| match args with
    | [h] => match bytesOfHex h with | some b => "ok " ++ hexTok (convertUtcOffset b) | none => "bad-op"
    | _ => "bad-op"
  | "c18.parse" =>                    -- <backend> <obj> -> ok <epoch> [<offset seconds>] | err
    some <| match args with
    | which :: rest =>
      match parseObj rest with
      | some (o, []) =>
        match asDatetime o with
        | none => "err"
        | some s =>
          match which with
          | "chrono" => match chronoParse specLib s with | some f => "ok " ++ toString (epochOf f) | none => "err"
          | "chrono_utc0" =>                 -- the DateTime<Local> under TZ=UTC: instant, offset, civil fields
            match chronoTryFrom specLib 0 s with
            | some f => "ok " ++ showLocal f | none => "err"
          | "chrono_p0530" =>                -- … under a zone at +05:30
            match chronoTryFrom specLib 19800 s with
            | some f => "ok " ++ showLocal f | none => "err"
          | "chrono_m0800" =>
            match chronoTryFrom specLib (-28800) s with
            | some f => "ok " ++ showLocal f | none => "err"
          | "jiff" => match jiffParse specLib s with
            | some f => "ok " ++ toString (epochOf f) ++ " " ++ toString (offsetSeconds f) | none => "err"
          | "time" => match timeParse specLib s with
            | some f => "ok " ++ toString (epochOf f) ++ " " ++ toString (offsetSeconds f) | none => "err"
          | _ => "bad-op"
      | _ => "bad-op"
    | [] => "bad-op"
  | _ => none

end Lopdf.Driver.C18
