import Driver.Codec
import LopdfModel.Model.Pages
import LopdfModel.Model.PagesMap
namespace Lopdf.Driver.C12
open Lopdf Lopdf.Codec

def showIds (ids : List ObjId) : String :=
  "ok " ++ toString ids.length ++ String.join (ids.map fun (n, g) => " " ++ toString n ++ "_" ++ toString g)

/-- `pages <trailer-obj> <k> (<num> <gen> <obj>)*` -> `ok <n> <num>_<gen>*` -/
def handle (op : String) (args : List String) : Option String :=
  match op with
  | "pages" =>
    some <| match parseObj args with
    | some (.dict tr, rest) =>
      match rest with
      | k :: rest' =>
        match k.toNat?.bind (fun k => parseObjects k rest') with
        | some (os, []) => showIds (pageIter tr os)
        | _ => "bad-op"
      | [] => "bad-op"
    | _ => "bad-op"
  | "pagesmap" =>
    -- `pagesmap <trailer-obj> <k> (<num> <gen> <obj>)*` -> `ok <n> (<page number>=<num>_<gen>)*` : Document::get_pages
    some <| match parseObj args with
    | some (.dict tr, rest) =>
      match rest with
      | k :: rest' =>
        match k.toNat?.bind (fun k => parseObjects k rest') with
        | some (os, []) =>
          let m := getPagesMap (pageIter tr os)
          "ok " ++ toString m.length ++ String.join (m.map fun (k, (n, g)) => " " ++ toString k ++ "=" ++ toString n ++ "_" ++ toString g)
        | _ => "bad-op"
      | [] => "bad-op"
    | _ => "bad-op"
  | _ => none

end Lopdf.Driver.C12
