import Driver.Codec
namespace Lopdf.Driver.C10
open Lopdf Lopdf.Codec

/-- protocol operations of property C10: `none` = not an operation of this property. -/
def handle (op : String) (args : List String) : Option String := none

end Lopdf.Driver.C10
