import Driver.Codec
import LopdfModel.Model.Renumber
namespace Lopdf.Driver.C10
open Lopdf Lopdf.Codec

/-- `<k> <nat>*` -/
def parseNats : List String → Option (List Nat × List String)
  | [] => none
  | k :: ts => do
    let n ← k.toNat?
    if ts.length < n then none else
    let xs ← (ts.take n).mapM (·.toNat?)
    pure (xs, ts.drop n)

partial def parseBm : Nat → List String → Option (BkTable × List String)
  | 0, ts => some ([], ts)
  | k+1, ts =>
    match ts with
    | a :: b :: c :: ts1 => do
      let id ← a.toNat?
      let pn ← b.toNat?
      let pg ← c.toNat?
      let (ch, ts2) ← parseNats ts1
      let (rest, ts3) ← parseBm k ts2
      pure ((id, { children := ch, page := (pn, pg) }) :: rest, ts3)
    | _ => none

/-- `<maxid> <trailer-obj> <k> (<num> <gen> <obj>)* <r> <root>* <t> (<id> <pn> <pg> <c> <child>*)*` -/
def parseDoc (ts : List String) : Option (Doc × List String) :=
  match ts with
  | m :: ts1 => do
    let maxId ← m.toNat?
    match parseObj ts1 with
    | some (.dict tr, k :: ts2) => do
      let n ← k.toNat?
      let (os, ts3) ← parseObjects n ts2
      let (roots, ts4) ← parseNats ts3
      match ts4 with
      | t :: ts5 => do
        let tn ← t.toNat?
        let (bm, ts6) ← parseBm tn ts5
        pure ({ trailer := tr, objects := os, maxId := maxId, bookmarks := roots, bmTable := bm }, ts6)
      | [] => none
    | _ => none
  | [] => none

def showNats (xs : List Nat) : String :=
  toString xs.length ++ String.join (xs.map fun x => " " ++ toString x)

def showBm (t : BkTable) : String :=
  toString t.length ++ String.join (t.map fun (id, b) =>
    " " ++ toString id ++ " " ++ toString b.page.1 ++ " " ++ toString b.page.2 ++ " " ++ showNats b.children)

def showDoc (d : Doc) : String :=
  toString d.maxId ++ " " ++ showObj (.dict d.trailer) ++ " " ++ showObjects d.objects ++ " "
    ++ showNats d.bookmarks ++ " " ++ showBm d.bmTable

/-- `renumber <start> <doc>` -> `ok <doc>` | `panic add|sub` -/
def handle (op : String) (args : List String) : Option String :=
  match op with
  | "renumber" =>
    some <| match args with
    | s :: rest =>
      match s.toNat?, parseDoc rest with
      | some start, some (d, []) =>
        match renumber d start with
        | .ok d' => "ok " ++ showDoc d'
        | .panic site => "panic " ++ site
        | .err e => "err " ++ e
      | _, _ => "bad-op"
    | [] => "bad-op"
  | _ => none

end Lopdf.Driver.C10
