import Driver.Codec
import LopdfModel.Model.Text
import LopdfModel.Model.TextExtract
import LopdfModel.Model.ExtractText
namespace Lopdf.Driver.C16
open Lopdf Lopdf.Codec Lopdf.Gen

/-- a string token: `-` (empty) or lower-case hex scalar values joined by `.` -/
def parseUStr (tok : String) : Option UStr :=
  if tok = "-" then some []
  else (tok.splitOn ".").mapM (fun h =>
    let cs := h.toList
    if cs.isEmpty || cs.length > 6 || !cs.all (fun c => isHexDigit c.toNat.toUInt8) then none
    else some (cs.foldl (fun acc c => acc * 16 + (hexVal c.toNat.toUInt8).toNat) 0))

def hexNat (n : Nat) : String :=
  let rec go (fuel n : Nat) (acc : List Char) : List Char :=
    match fuel with
    | 0 => acc
    | fuel + 1 =>
      let d := Char.ofNat (hexDigitL (n % 16).toUInt8).toNat
      if n < 16 then d :: acc else go fuel (n / 16) (d :: acc)
  String.ofList (go 8 n [])

def showUStr (s : UStr) : String :=
  if s.isEmpty then "-" else ".".intercalate (s.map hexNat)

def showOut (r : Outcome UStr) : String :=
  match r with
  | .ok s => "ok " ++ showUStr s
  | .err _ => "err"
  | .panic site => "panic " ++ site

def showCells (t : Table) : String :=
  ",".intercalate (t.map fun c => match c with | some u => hexNat u | none => "_")

def showEnc (e : Option Enc) : String :=
  match e with
  | none => "err"
  | some (.oneByte t) => "one " ++ showCells t
  | some (.simple n) => "simple " ++ hexTok n
  | some .cmap => "cmap"

partial def parseFonts : Nat → List String → Option (List (Bytes × Dict) × List String)
  | 0, ts => some ([], ts)
  | k+1, ts =>
    match ts with
    | n :: ts1 => do
      let nb ← bytesOfHex n
      let (o, ts2) ← parseObj ts1
      let d ← o.asDict
      let (fs, ts3) ← parseFonts k ts2
      pure ((nb, d) :: fs, ts3)
    | [] => none

partial def parseOps : Nat → List String → Option (List (Bytes × List Obj) × List String)
  | 0, ts => some ([], ts)
  | k+1, ts =>
    match ts with
    | n :: ts1 => do
      let nb ← bytesOfHex n
      let (o, ts2) ← parseObj ts1
      let a ← o.asArr
      let (os, ts3) ← parseOps k ts2
      pure ((nb, a) :: os, ts3)
    | [] => none

/-- protocol operations of property C16 -/
def handle (op : String) (args : List String) : Option String :=
  match op with
  | "c16.fenc" =>                      -- <fontdict>            -> one <256 cells> | simple <hex> | cmap | err
    some <| match parseObj args with
    | some (.dict d, []) => showEnc (getFontEncoding d)
    | _ => "bad-op"
  | "c16.dec" =>                       -- <fontdict> <hex>      -> ok <ustr> | err | panic
    some <| match parseObj args with
    | some (.dict d, [h]) =>
      match bytesOfHex h, getFontEncoding d with
      | some bs, some e => showOut (decodeText e bs)
      | some _, none => "err"
      | _, _ => "bad-op"
    | _ => "bad-op"
  | "c16.enc" =>                       -- <fontdict> <ustr>     -> ok <hex> | err
    some <| match parseObj args with
    | some (.dict d, [u]) =>
      match parseUStr u, getFontEncoding d with
      | some s, some e => match encodeText e s with | some b => "ok " ++ hexTok b | none => "out-of-model"
      | some _, none => "err"
      | _, _ => "bad-op"
    | _ => "bad-op"
  | "c16.ts" =>                        -- <ustr>                -> <obj>
    some <| match args with
    | [u] => match parseUStr u with | some s => showObj (textString s) | none => "bad-op"
    | _ => "bad-op"
  | "c16.dts" =>                       -- <obj>                 -> ok <ustr> | err
    some <| match parseObj args with
    | some (o, []) => showOut (decodeTextString o)
    | _ => "bad-op"
  | "c16.tsrt" =>                      -- <ustr>                -> <obj> ; ok <ustr>
    some <| match args with
    | [u] => match parseUStr u with
      | some s => showObj (textString s) ++ " ; " ++ showOut (decodeTextString (textString s))
      | none => "bad-op"
    | _ => "bad-op"
  | "c16.u16" =>
    some <| match args with
    | [u] => match parseUStr u with | some s => "ok " ++ hexTok (encodeUtf16Be s) | none => "bad-op"
    | _ => "bad-op"
  | "c16.u8" =>
    some <| match args with
    | [u] => match parseUStr u with | some s => "ok " ++ hexTok (encodeUtf8 s) | none => "bad-op"
    | _ => "bad-op"
  | "c16.extract" =>                   -- <k> (<name> <fontdict>)* <n> (<operator> <A…>)*  -> ok <ustr> | err
    some <| match args with
    | k :: rest =>
      match k.toNat?.bind (fun k => parseFonts k rest) with
      | some (fonts, n :: rest2) =>
        match n.toNat?.bind (fun n => parseOps n rest2) with
        | some (ops, []) => showOut (extractText fonts ops)
        | _ => "bad-op"
      | _ => "bad-op"
    | [] => "bad-op"
  | "c16.extractc" =>                  -- <k> (<name> <fontdict>)* <content hex>  -> ok <ustr> | err   (Content::decode + loop)
    some <| match args with
    | k :: rest =>
      match k.toNat?.bind (fun k => parseFonts k rest) with
      | some (fonts, [h]) =>
        match bytesOfHex h with
        | some content => showOut (extractTextOfContent fonts content)
        | none => "bad-op"
      | _ => "bad-op"
    | [] => "bad-op"
  | "c16.xdoc" =>                      -- <page number> <trailer> <k> (<num> <gen> <obj>)*  -> ok <ustr> | err
    -- whole-document `extract_text(&[n])` through the composed model (pages, fonts, content, decode, loop);
    -- only sent for documents without stream filters, so flate2 / weezl are never consulted
    some <| match args with
    | n :: rest =>
      match n.toNat?, parseObj rest with
      | some n, some (.dict tr, k :: rest') =>
        match k.toNat?.bind (fun k => parseObjects k rest') with
        | some (os, []) =>
          showOut (Q13.extractTextDoc (2 ^ 33) { inflate := fun b => b, lzw := fun _ b => b } tr os [n])
        | _ => "bad-op"
      | _, _ => "bad-op"
    | [] => "bad-op"
  | _ => none

end Lopdf.Driver.C16
