import Driver.Codec
import LopdfModel.Spec.Inflate
import LopdfModel.Model.Filters
import LopdfModel.Spec.Lzw
import LopdfModel.Spec.LzwCodec
namespace Lopdf.Driver.C09
open Lopdf Lopdf.Codec

def showOut : Outcome Bytes → String
  | .ok b => "ok " ++ hexTok b
  | .err _ => "err"
  | .panic _ => "panic"

def showStrm (s : Strm) : String := showObj (.stream s.dict s.content)

/-- marker returned when a request did not ship the external result the model needs -/
def extMiss : Bytes := strBytes "EXT-MISS"

/-- `<n> (<kind> <in> <out>)*` with kind z (inflate) | l0 | l1 (lzw, EarlyChange 0/1) | d (deflate) -/
partial def parseExt : Nat → List String → Option (List (String × Bytes × Bytes) × List String)
  | 0, ts => some ([], ts)
  | k+1, ts =>
    match ts with
    | kind :: a :: b :: ts1 => do
      let i ← bytesOfHex a
      let o ← bytesOfHex b
      let (es, ts2) ← parseExt k ts1
      pure ((kind, i, o) :: es, ts2)
    | _ => none

def lookupExt (tab : List (String × Bytes × Bytes)) (kind : String) (i : Bytes) : Bytes :=
  match tab.find? (fun (k, a, _) => k == kind && a == i) with
  | some (_, _, o) => o
  | none => extMiss

def mkExt (tab : List (String × Bytes × Bytes)) : Ext :=
  { inflate := lookupExt tab "z", lzw := fun ec => lookupExt tab (if ec then "l1" else "l0") }

def parseExtTail (ts : List String) : Option (List (String × Bytes × Bytes)) :=
  match ts with
  | n :: rest =>
    match n.toNat?.bind (fun n => parseExt n rest) with
    | some (tab, []) => some tab
    | _ => none
  | [] => none

def withStream (args : List String) (f : Strm → List String → Option String) : String :=
  match parseObj args with
  | some (.stream d c, rest) => (f ⟨d, c⟩ rest).getD "bad-op"
  | _ => "bad-op"

def filterOfNat : Nat → Option PngFilter := PngFilter.ofIdx

def handle (op : String) (args : List String) : Option String :=
  match op with
  | "a85" =>
    some <| match args with
    | [h] => match bytesOfHex h with
      | some b => showOut (a85Decode b)
      | none => "bad-op"
    | _ => "bad-op"
  | "pngrow" =>
    some <| match args with
    | [t, bpp, prev, cur] =>
      match t.toNat?.bind filterOfNat, bpp.toNat?, bytesOfHex prev, bytesOfHex cur with
      | some t, some bpp, some prev, some cur => showOut (decodeRowO t bpp prev cur)
      | _, _, _, _ => "bad-op"
    | _ => "bad-op"
  | "pngframe" =>
    some <| match args with
    | [bpp, ppr, content] =>
      match bpp.toNat?, ppr.toNat?, bytesOfHex content with
      | some bpp, some ppr, some content =>
        match decodeFrame content bpp ppr with
        | .ok b => "ok " ++ hexTok b
        | .err e => "err " ++ (if e = "invalid PNG filter type" then "invalid" else if e = "failed to fill whole buffer" then "eof" else "other")
        | .panic _ => "panic"
      | _, _, _ => "bad-op"
    | _ => "bad-op"
  | "lzwspec" | "lzwout" =>
    -- the LZW reference decoders (validation of the shipped weezl results): the array-based `Spec.Lzw.decode`
    -- and the list-based `Spec.LzwC.lzwDecodeFull` the round-trip theorem is about must agree
    some <| match args with
    | [e, h] =>
      match (if e = "0" then some false else if e = "1" then some true else none), bytesOfHex h with
      | some early, some inp =>
        let r := Lopdf.Spec.Lzw.decode early inp
        -- the list-based decoder is quadratic in the table size: all inputs up to 3000 bytes, every 5th length above
        let dual := inp.length ≤ 3000 || inp.length % 5 == 0
        let r2 := if dual then Lopdf.Spec.LzwC.lzwDecodeFull early inp
                  else (r.1, match r.2 with | .eod => Lopdf.Spec.LzwC.End.eod | .truncated => .truncated | .invalid => .invalid)
        let cls (e : Lopdf.Spec.Lzw.End) := match e with | .eod => "eod " | .truncated => "truncated " | .invalid => "invalid "
        let cls2 (e : Lopdf.Spec.LzwC.End) := match e with | .eod => "eod " | .truncated => "truncated " | .invalid => "invalid "
        if r.1 != r2.1 || cls r.2 != cls2 r2.2 then "spec-decoders-differ " ++ cls r.2 ++ hexTok r.1 ++ " / " ++ cls2 r2.2 ++ hexTok r2.1
        else if op = "lzwout" then hexTok r.1
        else cls r.2 ++ hexTok r.1
      | _, _ => "bad-op"
    | _ => "bad-op"
  | "inflate" =>
    -- the specification decoder `Spec/Inflate.zlibInflate` (RFC 1950 / 1951): `ok <hex>` for a complete stream, else `none`
    some <| match args with
    | [h] =>
      match bytesOfHex h with
      | some x => (match Lopdf.Inflate.zlibInflate x with | some o => "ok " ++ hexTok o | none => "none")
      | none => "bad-op"
    | _ => "bad-op"
  | "deflate_stored" =>
    -- the reference encoder of the round-trip theorem (stored blocks only)
    some <| match args with
    | [h] => (match bytesOfHex h with | some x => "ok " ++ hexTok (Lopdf.Inflate.zlibStored x) | none => "bad-op")
    | _ => "bad-op"
  | "lzwenc" =>
    -- the proved reference encoder `Spec.LzwC.lzwEncode`
    some <| match args with
    | [e, h] =>
      match (if e = "0" then some false else if e = "1" then some true else none), bytesOfHex h with
      | some early, some x => "ok " ++ hexTok (Lopdf.Spec.LzwC.lzwEncode early x)
      | _, _ => "bad-op"
    | _ => "bad-op"
  | "filters" =>
    some <| withStream args fun s rest =>
      if rest ≠ [] then none else
      some <| match streamFilters s.dict with
      | none => "err"
      | some fs => "ok " ++ toString fs.length ++ String.join (fs.map fun f => " " ++ hexTok f) ++ (if isCompressed s then " c" else " u")
  | "decode" =>
    some <| withStream args fun s rest => (parseExtTail rest).map fun tab => showOut (decompressedContent (mkExt tab) s)
  | "plain" =>
    some <| withStream args fun s rest => (parseExtTail rest).map fun tab => showOut (getPlainContent (mkExt tab) s)
  | "compress" =>
    some <| withStream args fun s rest => (parseExtTail rest).map fun tab => "ok " ++ showStrm (compress (lookupExt tab "d") s)
  | "decompress" =>
    some <| withStream args fun s rest => (parseExtTail rest).map fun tab =>
      match decompress (mkExt tab) s with
      | .ok s' => "ok " ++ showStrm s'
      | .err _ => "err"
      | .panic _ => "panic"
  | "setcontent" =>
    some <| withStream args fun s rest =>
      match rest with
      | [h] => (bytesOfHex h).map fun c => "ok " ++ showStrm (setContent s c)
      | _ => none
  | "setplain" =>
    some <| withStream args fun s rest =>
      match rest with
      | [h] => (bytesOfHex h).map fun c => "ok " ++ showStrm (setPlainContent s c)
      | _ => none
  | "doccompress" =>
    -- doccompress <k> (<num> <gen> <obj>)* <m> (<num> <gen>)*   [ids with allows_compression = false]   <ext>
    some <| (do
      let k ← args.head?.bind String.toNat?
      let (os, rest) ← parseObjects k (args.drop 1)
      let m ← rest.head?.bind String.toNat?
      let idToks := (rest.drop 1).take (2 * m)
      if idToks.length ≠ 2 * m then none
      let nums ← idToks.mapM String.toNat?
      let tab ← parseExtTail ((rest.drop 1).drop (2 * m))
      let rec pairs : List Nat → List ObjId
        | a :: b :: r => (a, b) :: pairs r
        | _ => []
      let deny := pairs nums
      pure ("ok " ++ showObjects (docCompress (lookupExt tab "d") (fun id => !deny.contains id) os))).getD "bad-op"
  | "docdecompress" =>
    some <| (do
      let k ← args.head?.bind String.toNat?
      let (os, rest) ← parseObjects k (args.drop 1)
      let tab ← parseExtTail rest
      pure ("ok " ++ showObjects (docDecompress (mkExt tab) os))).getD "bad-op"
  | _ => none

end Lopdf.Driver.C09
