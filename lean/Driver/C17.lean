import Driver.Codec
import LopdfModel.Model.Outline
import LopdfModel.Spec.Outline
namespace Lopdf.Driver.C17
open Lopdf Lopdf.Codec

/-- `<parent|-> <page_n> <page_g> <format> <c0> <c1> <c2> <ntitle> <cp>*` -/
def parseOp (ts : List String) : Option ((Bm × Option Nat) × List String) :=
  match ts with
  | par :: pn :: pg :: fmt :: c0 :: c1 :: c2 :: nt :: rest => do
    let parent ← if par = "-" then some none else par.toNat?.map some
    let pn ← pn.toNat?
    let pg ← pg.toNat?
    let fmt ← fmt.toNat?
    let nt ← nt.toNat?
    if rest.length < nt then none else
    let cps ← (rest.take nt).mapM String.toNat?
    let col := [c0, c1, c2].map (fun s => s.toUTF8.toList)
    pure (({ children := [], title := cps, format := fmt, color := col, page := (pn, pg), id := 0 }, parent),
          rest.drop nt)
  | _ => none

partial def parseOps : Nat → List String → Option (List (Bm × Option Nat) × List String)
  | 0, ts => some ([], ts)
  | k + 1, ts => do
    let (op, ts1) ← parseOp ts
    let (ops, ts2) ← parseOps k ts1
    pure (op :: ops, ts2)

def insertSorted (x : ObjId × Dict) : List (ObjId × Dict) → List (ObjId × Dict)
  | [] => [x]
  | y :: ys =>
    if x.1.1 < y.1.1 ∨ (x.1.1 = y.1.1 ∧ x.1.2 < y.1.2) then x :: y :: ys
    else if x.1 = y.1 then y :: ys          -- an earlier (= more recent) entry shadows
    else y :: insertSorted x ys

/-- most recent entry per id, sorted by id (what ends up in the `BTreeMap`) -/
def canonObjs (p : Proc) : Objects :=
  (p.foldl (fun acc x => insertSorted x acc) []).map (fun (k, d) => (k, Obj.dict d))

def showPages (s : BmState) : String :=
  String.join ((List.range s.maxBm).map fun i =>
    match s.table.get (i + 1) with
    | some b => " " ++ toString (i + 1) ++ "=" ++ toString b.page.1 ++ "_" ++ toString b.page.2
    | none => " " ++ toString (i + 1) ++ "=?")

def showCps (cs : List Nat) : String :=
  toString cs.length ++ String.join (cs.map fun c => " " ++ toString c)

def handle (op : String) (args : List String) : Option String :=
  match op with
  | "c17_build" =>
    some <| match args with
    | maxid :: adj :: nops :: rest =>
      match maxid.toNat?, adj.toNat?, nops.toNat? with
      | some maxid, some adj, some nops =>
        match parseOps nops rest with
        | some (ops, []) =>
          let s0 := addAll BmState.empty ops
          let fuel := 2 * s0.maxBm + 8
          let s1 := if adj = 1 then adjustZeroPages fuel s0 else some s0
          match s1 with
          | none => "panic"
          | some s =>
            -- the abstract forest of the operation sequence represents the table (checked per case)
            let rep := if repL s0.table s0.roots (forestOfOps ops) then "1" else "0"
            match buildOutline fuel s maxid with
            | none => "panic"
            | some none => "ok none " ++ toString maxid ++ " rep=" ++ rep ++ " bm" ++ showPages s ++ " objs 0"
            | some (some b) =>
              "ok R" ++ toString b.root.1 ++ "_" ++ toString b.root.2 ++ " " ++ toString b.maxId ++
                " rep=" ++ rep ++ " bm" ++ showPages s ++ " objs " ++ showObjects (canonObjs b.objs)
        | _ => "bad-op"
      | _, _, _ => "bad-op"
    | _ => "bad-op"
  | "c17_toc" =>
    some <| match parseObj args with
    | some (.dict tr, rest) =>
      match rest with
      | k :: rest' =>
        match k.toNat?.bind (fun k => parseObjects k rest') with
        | some (os, []) =>
          match getToc tr os with
          | .ok toc ne =>
            "ok " ++ toString toc.length ++ String.join (toc.map fun e =>
              " | " ++ toString e.level ++ " " ++ toString e.page ++ " " ++ showCps e.title) ++
              " errs=" ++ toString ne
          | .err => "err"
          | .panic => "panic"
          | .unsupported => "unsupported"
        | _ => "bad-op"
      | [] => "bad-op"
    | _ => "bad-op"
  | "c17_title" =>
    -- `c17_title <n> <cp>*` -> `ok <hex title bytes> <decoded>`
    some <| match args with
    | n :: rest =>
      match n.toNat?, rest.mapM String.toNat? with
      | some n, some cps =>
        if cps.length ≠ n then "bad-op" else
        let b := titleBytes cps
        "ok " ++ hexTok b ++ " " ++ (match decodeTitle b with
          | .ok cs => showCps cs
          | .badLen => "badlen"
          | .unsupported => "unsupported")
      | _, _ => "bad-op"
    | _ => "bad-op"
  | _ => none

end Lopdf.Driver.C17
